(* Proofs about DomIter (C17, wave 4): the iterators of text/dom.rs observed at EVERY iteration
   point (size hints after k calls of next, remainder() before the iterator is drained, the stateful
   loop of FieldGroupsIter::next), and which range read_array hands out for mixed objects / headers. *)
From JV Require Import Bytes TextTok TapeWf Dom DomIter.
From JV.proofs Require Import DomProofs.
Require Import Lia.
Open Scope nat_scope.

(* ================================================================ small facts *)
Lemma remainder_at_key : forall t i e k, tget t i = Some k -> is_key k = true ->
  remainder t i e = mk_areader i e.
Proof. intros t i e k H K. unfold remainder. rewrite H. destruct k; try discriminate; reflexivity. Qed.

(* one field further along the object grammar, the rest is still a Dyck range *)
Lemma field_step_dyck : forall t i e k n, conts_ok t ->
  tget t i = Some k -> is_key k = true -> value_end t (value_ind_of t i) = Some n -> n <= e ->
  dyck t i e -> dyck t n e.
Proof.
  intros t i e k n W H HK V L D.
  pose proof (value_end_gt _ _ _ W V) as G. pose proof (value_ind_gt t i) as VG.
  assert (D1 : dyck t (S i) e) by (eapply dyck_inv_leaf; eauto using is_key_leaf; lia).
  apply (value_dyck t (value_ind_of t i) e n W); auto.
  unfold value_ind_of in *. destruct (tget t (S i)) as [k1|] eqn:K1; auto.
  destruct k1; auto.
  eapply dyck_inv_leaf; eauto. lia.
Qed.

(* the range remainder() returns at any cursor the object grammar can stop at is a proper array node *)
Lemma cursor_rem_ok : forall t n e r rest, fields_spec t n e r rest -> dyck t n e -> e <= length t ->
  arr_ok t (remainder t r e) -> arr_ok t (remainder t n e).
Proof.
  intros t n e r rest H D L A. inversion H; subst; auto.
  rewrite (remainder_at_key _ _ _ _ H0 H1). split; auto.
Qed.

Lemma arr_point : forall t rem, arr_ok t rem ->
  exists its, items t (a_start rem) (a_end rem) its /\
    array_len t rem = Ok (length its) /\ array_tokens_len rem = Ok (a_end rem - a_start rem).
Proof.
  intros t rem A. destruct (values_agree t rem A) as (its & I & _ & B & _ & C). exists its. auto.
Qed.

(* ================================================================ FieldsIter at every point *)
Definition rem_described (t : ttape) (rem : areader) (n tl : nat) : Prop :=
  exists its, items t (a_start rem) (a_end rem) its /\ n = length its /\ tl = a_end rem - a_start rem.

(* [ftrace_ok t e r i n pts]: the observations of a FieldsIter with [n] fields left, cursor [i],
   that will stop at [r]: the size hint counts down to 0, every point's remainder() is the range
   the model function [remainder] gives at the cursor, with len() = its number of items, and the
   last point sits at [r] *)
Inductive ftrace_ok (t : ttape) (e r : nat) : nat -> nat -> list fpoint -> Prop :=
| fto_last : forall p,
    fp_ind p = r -> fp_hint p = 0 -> fp_rem p = remainder t r e ->
    rem_described t (fp_rem p) (fp_rem_len p) (fp_rem_tokens p) ->
    ftrace_ok t e r r 0 [p]
| fto_cons : forall i i' n p ps k,
    fp_ind p = i -> fp_hint p = S n -> tget t i = Some k -> is_key k = true ->
    fp_rem p = mk_areader i e ->
    rem_described t (fp_rem p) (fp_rem_len p) (fp_rem_tokens p) ->
    i < i' -> ftrace_ok t e r i' n ps -> ftrace_ok t e r i (S n) (p :: ps).

Lemma fields_point_ok : forall t i e r l,
  fields_spec t i e r l -> e <= length t -> arr_ok t (remainder t i e) ->
  exists p, fields_point t i e = Ok p /\ fp_ind p = i /\ fp_hint p = length l /\
    fp_rem p = remainder t i e /\ rem_described t (fp_rem p) (fp_rem_len p) (fp_rem_tokens p).
Proof.
  intros t i e r l S0 L A. pose proof (fields_spec_bounds _ _ _ _ _ S0) as B.
  destruct (arr_point _ _ A) as (its & I & AL & AT).
  unfold fields_point, fields_size_hint, fields_len, loop_fuel.
  rewrite (fields_len_spec _ _ _ _ _ S0) by lia. cbn [obind plus].
  rewrite AL. cbn [obind]. rewrite AT. cbn [obind].
  eexists. split; [reflexivity|]. cbn. repeat split; auto. exists its. auto.
Qed.

Lemma fields_trace_spec : forall dbg t i e r l, conts_ok t -> e <= length t ->
  fields_spec t i e r l -> dyck t i e -> arr_ok t (remainder t r e) ->
  forall fuel, length l < fuel ->
  exists pts, fields_trace fuel dbg t i e = Ok pts /\ ftrace_ok t e r i (length l) pts.
Proof.
  intros dbg t i e r l W L S0. induction S0; intros D A fuel F;
    (destruct fuel; [cbn in F; lia|]); cbn [fields_trace].
  - destruct (fields_point_ok t e e e [] (fs_done t e) L A) as (p & -> & P1 & P2 & P3 & P4).
    cbn [obind]. rewrite fields_next_stop by auto. cbn [obind].
    eexists. split; [reflexivity|]. constructor; auto.
  - destruct (fields_point_ok t i e i [] (fs_mixed t i e H H0) L A) as (p & -> & P1 & P2 & P3 & P4).
    cbn [obind]. rewrite fields_next_stop by auto. cbn [obind].
    eexists. split; [reflexivity|]. constructor; auto.
  - pose proof (fields_spec_bounds _ _ _ _ _ S0) as B.
    assert (SP : fields_spec t i e r (mk_field k (op_of t i) (value_ind_of t i) :: l))
      by (eapply fs_field; eauto).
    assert (AR : arr_ok t (remainder t i e)).
    { rewrite (remainder_at_key _ _ _ _ H H0). split; auto. }
    destruct (fields_point_ok t i e r _ SP L AR) as (p & -> & P1 & P2 & P3 & P4).
    cbn [obind]. rewrite (fields_next_field dbg t i e k n) by (auto; lia). cbn [obind].
    assert (D' : dyck t n e) by (eapply field_step_dyck; eauto).
    destruct (IHS0 L D' A fuel) as (ps & -> & T); [cbn in F; lia|]. cbn [obind].
    eexists. split; [reflexivity|]. cbn [length] in *.
    eapply fto_cons with (i' := n); eauto.
    + rewrite P3. eapply remainder_at_key; eauto.
    + lia.
Qed.

Theorem fields_trace_ok : forall dbg t r, tape_wf t -> obj_node t r ->
  exists l last pts,
    fields_spec t (o_start r) (o_end r) last l /\
    fields_all dbg t r = Ok (l, last) /\
    remainder t last (o_end r) = tail_reader last (o_end r) /\
    fields_trace_all dbg t r = Ok pts /\
    ftrace_ok t (o_end r) last (o_start r) (length l) pts.
Proof.
  intros dbg t r WF N. destruct (obj_node_facts t r WF N) as (D & L & rr & l & S0 & R).
  destruct (fields_agree dbg t r WF N) as (l' & last' & S1 & FA & _).
  destruct (fields_spec_fun _ _ _ _ _ S0 _ _ S1) as [<- <-].
  destruct WF as (_ & _ & W & _).
  pose proof (tail_reader_ok _ _ _ _ _ W L S0 D) as TA. rewrite <- R in TA.
  pose proof (fields_spec_bounds _ _ _ _ _ S0) as B.
  destruct (fields_trace_spec dbg t _ _ _ _ W L S0 D TA (loop_fuel t)) as (pts & E & T);
    [unfold loop_fuel; lia|].
  exists l, rr, pts. auto.
Qed.

(* readable consequences *)
Lemma ftrace_length : forall t e r i n pts, ftrace_ok t e r i n pts -> length pts = S n.
Proof. induction 1; cbn [length]; auto. Qed.

Lemma ftrace_hint : forall t e r i n pts, ftrace_ok t e r i n pts ->
  forall k p, nth_error pts k = Some p -> fp_hint p = n - k /\ k <= n.
Proof.
  induction 1; intros j q E.
  - destruct j; cbn in E; [inversion E; subst; split; auto|destruct j; discriminate].
  - destruct j; cbn in E.
    + inversion E; subst. split; lia.
    + destruct (IHftrace_ok _ _ E). split; lia.
Qed.

Lemma ftrace_last : forall t e r i n pts, ftrace_ok t e r i n pts ->
  exists p, nth_error pts n = Some p /\ fp_ind p = r /\ fp_hint p = 0 /\ fp_rem p = remainder t r e /\
    rem_described t (fp_rem p) (fp_rem_len p) (fp_rem_tokens p).
Proof.
  induction 1.
  - exists p. cbn. auto.
  - destruct IHftrace_ok as (q & E & Q). exists q. cbn. auto.
Qed.

Lemma ftrace_le : forall t e r i n pts, ftrace_ok t e r i n pts -> i <= r.
Proof. induction 1; lia. Qed.

Lemma ftrace_mid : forall t e r i n pts, ftrace_ok t e r i n pts ->
  forall k p, nth_error pts k = Some p -> k < n ->
  fp_rem p = mk_areader (fp_ind p) e /\ fp_ind p < r /\
  (exists key, tget t (fp_ind p) = Some key /\ is_key key = true) /\
  rem_described t (fp_rem p) (fp_rem_len p) (fp_rem_tokens p).
Proof.
  induction 1; intros j q E LT; [lia|].
  assert (IR : i' <= r) by (eapply ftrace_le; eauto).
  destruct j; cbn in E.
  - inversion E; subst. split; auto. split; [lia|]. split; eauto.
  - apply (IHftrace_ok _ _ E). lia.
Qed.

(* the statement pinned in Props/C17_iter.v *)
Theorem fields_hint_every_point : forall dbg t r, tape_wf t -> obj_node t r ->
  exists l last pts,
    fields_all dbg t r = Ok (l, last) /\
    fields_trace_all dbg t r = Ok pts /\ length pts = S (length l) /\
    (forall k p, nth_error pts k = Some p -> fp_hint p = length l - k) /\
    (forall k p, nth_error pts k = Some p -> k < length l ->
       fp_rem p = mk_areader (fp_ind p) (o_end r) /\ fp_ind p < last /\
       (exists key, tget t (fp_ind p) = Some key /\ is_key key = true)) /\
    (forall k p, nth_error pts k = Some p ->
       rem_described t (fp_rem p) (fp_rem_len p) (fp_rem_tokens p)) /\
    (exists p, nth_error pts (length l) = Some p /\ fp_ind p = last /\
       fp_rem p = tail_reader last (o_end r)).
Proof.
  intros dbg t r WF N.
  destruct (fields_trace_ok dbg t r WF N) as (l & last & pts & S0 & FA & R & E & T).
  exists l, last, pts. split; auto. split; auto.
  split; [eapply ftrace_length; eauto|].
  split; [intros k p H; eapply ftrace_hint; eauto|].
  split; [intros k p H LT; destruct (ftrace_mid _ _ _ _ _ _ T _ _ H LT) as (A & B & C & _); auto|].
  split.
  - intros k p H. destruct (ftrace_hint _ _ _ _ _ _ T _ _ H) as [_ LE].
    destruct (Nat.eq_dec k (length l)) as [->|NE].
    + destruct (ftrace_last _ _ _ _ _ _ T) as (q & Eq & _ & _ & _ & Q). rewrite H in Eq. inversion Eq; subst. auto.
    + destruct (ftrace_mid _ _ _ _ _ _ T _ _ H) as (_ & _ & _ & Q); auto. lia.
  - destruct (ftrace_last _ _ _ _ _ _ T) as (q & Eq & Q1 & _ & Q3 & _). exists q. rewrite <- R. auto.
Qed.

(* ================================================================ ValuesIter at every point *)
Inductive vtrace_ok (e : nat) : list nat -> list vpoint -> Prop :=
| vto_last : vtrace_ok e [] [mk_vpoint e 0 (Some 0)]
| vto_cons : forall v l ps, vtrace_ok e l ps ->
    vtrace_ok e (v :: l) (mk_vpoint v (S (length l)) (Some (S (length l))) :: ps).

Lemma values_hint_spec : forall t i e l, items t i e l -> e <= length t ->
  values_size_hint t i e = Ok (length l, Some (length l)).
Proof.
  intros t i e l I L. pose proof (items_bounds _ _ _ _ I) as B.
  unfold values_size_hint, values_len, loop_fuel.
  rewrite (values_len_spec _ _ _ _ I) by lia. reflexivity.
Qed.

Lemma values_trace_spec : forall t i e l, items t i e l -> e <= length t ->
  forall fuel, length l < fuel ->
  exists pts, values_trace fuel t i e = Ok pts /\ vtrace_ok e l pts.
Proof.
  intros t i e l I. induction I; intros L fuel F; (destruct fuel; [cbn in F; lia|]); cbn [values_trace].
  - rewrite (values_hint_spec t e e [] (it_nil t e) L). cbn [obind length].
    unfold values_next. rewrite Nat.ltb_irrefl. cbn [obind].
    eexists. split; [reflexivity|]. constructor.
  - rewrite (values_hint_spec t i e (i :: l) (it_one t i e k l H H0 H1 I) L). cbn [obind length].
    unfold values_next. replace (Nat.ltb i e) with true by (symmetry; apply Nat.ltb_lt; lia).
    rewrite (next_idx_values_one _ _ _ H H0). cbn [obind].
    destruct (IHI L fuel) as (ps & -> & T); [cbn in F; lia|]. cbn [obind].
    eexists. split; [reflexivity|]. constructor; auto.
  - rewrite (values_hint_spec t i e (i :: l) (it_cont t i e k e' l H H0 H1 H2 I) L). cbn [obind length].
    unfold values_next. replace (Nat.ltb i e) with true by (symmetry; apply Nat.ltb_lt; lia).
    rewrite (next_idx_values_cont _ _ _ _ H H0). cbn [obind].
    destruct (IHI L fuel) as (ps & -> & T); [cbn in F; lia|]. cbn [obind].
    eexists. split; [reflexivity|]. constructor; auto.
Qed.

Lemma vtrace_nth : forall e l pts, vtrace_ok e l pts ->
  length pts = S (length l) /\
  forall k p, nth_error pts k = Some p ->
    vp_lo p = length l - k /\ vp_hi p = Some (length l - k) /\
    vp_ind p = nth k l e.
Proof.
  induction 1; cbn [length].
  - split; auto. intros k p E. destruct k; cbn in E; [inversion E; subst; cbn; auto|destruct k; discriminate].
  - destruct IHvtrace_ok as [IL IN]. split; [lia|].
    intros k p E. destruct k; cbn in E.
    + inversion E; subst. cbn. auto.
    + destruct (IN _ _ E) as (A & B & C). cbn [nth]. replace (S (length l) - S k) with (length l - k) by lia. auto.
Qed.

Theorem values_hint_every_point : forall t r, arr_ok t r ->
  exists l pts,
    values_all t r = Ok l /\ values_trace_all t r = Ok pts /\ length pts = S (length l) /\
    forall k p, nth_error pts k = Some p ->
      vp_lo p = length l - k /\ vp_hi p = Some (length l - k) /\ vp_ind p = nth k l (a_end r).
Proof.
  intros t r A. destruct (values_agree t r A) as (l & I & VA & _). destruct A as [D L].
  pose proof (items_bounds _ _ _ _ I) as B.
  destruct (values_trace_spec t _ _ _ I L (loop_fuel t)) as (pts & E & T); [unfold loop_fuel; lia|].
  destruct (vtrace_nth _ _ _ T) as [TL TN].
  exists l, pts. auto.
Qed.

(* ================================================================ FieldGroupsIter, call by call *)
(* one call of next() at list level *)
Fixpoint gnext_list (fs : list field) (m : gmap) : option (group * list field * gmap) :=
  match fs with
  | [] => None
  | fd :: rest =>
      match gmap_remove m (tok_bytes (f_key fd)) with
      | Some (entries, m') => Some (mk_group (f_key fd) ((f_op fd, f_val fd) :: entries), rest, m')
      | None => gnext_list rest m
      end
  end.

Lemma groups_run_gnext : forall fs m,
  groups_run fs m = match gnext_list fs m with
                    | None => []
                    | Some (g, rest, m') => g :: groups_run rest m'
                    end.
Proof.
  induction fs as [|fd fs IH]; intro m; cbn [groups_run gnext_list]; auto.
  destruct (gmap_remove m (tok_bytes (f_key fd))) as [[entries m']|]; auto.
Qed.

Lemma gnext_list_shorter : forall fs m g rest m', gnext_list fs m = Some (g, rest, m') ->
  length rest < length fs.
Proof.
  induction fs as [|fd fs IH]; intros m g rest m' H; cbn [gnext_list] in H; try discriminate.
  destruct (gmap_remove m (tok_bytes (f_key fd))) as [[entries m'']|].
  - inversion H; subst. cbn. lia.
  - apply IH in H. cbn. lia.
Qed.

Lemma gmap_remove_length : forall m k es m', gmap_remove m k = Some (es, m') -> length m = S (length m').
Proof.
  induction m as [|[k0 vs] m IH]; intros k es m' H; cbn [gmap_remove] in H; try discriminate.
  destruct (beqb k0 k).
  - inversion H; subst. reflexivity.
  - destruct (gmap_remove m k) as [[r rest']|] eqn:E; try discriminate.
    inversion H; subst. cbn [length]. f_equal. eapply IH; eauto.
Qed.

Lemma gnext_list_hint : forall fs m g rest m', gnext_list fs m = Some (g, rest, m') ->
  length m = S (length m').
Proof.
  induction fs as [|fd fs IH]; intros m g rest m' H; cbn [gnext_list] in H; try discriminate.
  destruct (gmap_remove m (tok_bytes (f_key fd))) as [[entries m'']|] eqn:E.
  - inversion H; subst. eapply gmap_remove_length; eauto.
  - eapply IH; eauto.
Qed.

(* one call of next() on the tape = one call at list level, and the cursor it leaves behind *)
Lemma groups_next_spec : forall dbg t i e r l, conts_ok t ->
  fields_spec t i e r l -> dyck t i e ->
  forall m fuel, length l < fuel ->
  match gnext_list l m with
  | None => groups_next fuel dbg t i e m = Ok (None, r, m)
  | Some (g, rest, m') =>
      exists n, groups_next fuel dbg t i e m = Ok (Some g, n, m') /\
                fields_spec t n e r rest /\ dyck t n e
  end.
Proof.
  intros dbg t i e r l W S0. induction S0; intros D m fuel F;
    (destruct fuel; [cbn in F; lia|]); cbn [groups_next gnext_list].
  - rewrite fields_next_stop by auto. reflexivity.
  - rewrite fields_next_stop by auto. reflexivity.
  - pose proof (fields_spec_bounds _ _ _ _ _ S0) as B.
    rewrite (fields_next_field dbg t i e k n) by (auto; lia). cbn [obind f_key f_op f_val].
    assert (D' : dyck t n e) by (eapply field_step_dyck; eauto).
    destruct (gmap_remove m (tok_bytes k)) as [[entries m']|].
    + exists n. auto.
    + apply IHS0; auto. cbn in F. lia.
Qed.

(* the observations after each call: [h] keys are still in the map before the first of them *)
Inductive gtrace_ok (t : ttape) (e r : nat) : nat -> list group -> list gpoint -> Prop :=
| gto_last : forall h p,
    gp_group p = None -> gp_ind p = r -> gp_hint p = h -> gp_rem p = remainder t r e ->
    rem_described t (gp_rem p) (gp_rem_len p) (gp_rem_tokens p) ->
    gtrace_ok t e r h [] [p]
| gto_cons : forall h g gs p ps,
    gp_group p = Some g -> gp_hint p = h -> gp_rem p = remainder t (gp_ind p) e ->
    rem_described t (gp_rem p) (gp_rem_len p) (gp_rem_tokens p) ->
    gtrace_ok t e r h gs ps -> gtrace_ok t e r (S h) (g :: gs) (p :: ps).

Lemma groups_point_ok : forall t g n e m, arr_ok t (remainder t n e) ->
  exists p, groups_point t g n e m = Ok p /\ gp_group p = g /\ gp_ind p = n /\ gp_hint p = length m /\
    gp_rem p = remainder t n e /\ rem_described t (gp_rem p) (gp_rem_len p) (gp_rem_tokens p).
Proof.
  intros t g n e m A. destruct (arr_point _ _ A) as (its & I & AL & AT).
  unfold groups_point. rewrite AL. cbn [obind]. rewrite AT. cbn [obind].
  eexists. split; [reflexivity|]. cbn. repeat split; auto. exists its. auto.
Qed.

Lemma groups_calls_spec : forall dbg t e r, conts_ok t -> e <= length t ->
  arr_ok t (remainder t r e) ->
  forall fuel l i m, fields_spec t i e r l -> dyck t i e -> length l < fuel ->
  exists pts, groups_calls fuel dbg t i e m = Ok pts /\
    gtrace_ok t e r (length m) (groups_run l m) pts.
Proof.
  intros dbg t e r W L A. induction fuel as [|fuel IH]; intros l i m S0 D F; [lia|].
  cbn [groups_calls].
  pose proof (fields_spec_bounds _ _ _ _ _ S0) as B.
  pose proof (groups_next_spec dbg t i e r l W S0 D m (loop_fuel t)) as G.
  rewrite groups_run_gnext.
  destruct (gnext_list l m) as [[[g rest] m']|] eqn:GL.
  - destruct G as (n & -> & S1 & D1); [unfold loop_fuel; lia|]. cbn [obind].
    pose proof (cursor_rem_ok _ _ _ _ _ S1 D1 L A) as A1.
    destruct (groups_point_ok t (Some g) n e m' A1) as (p & -> & P1 & P2 & P3 & P4 & P5). cbn [obind].
    pose proof (gnext_list_shorter _ _ _ _ _ GL) as SH.
    destruct (IH rest n m' S1 D1) as (ps & -> & T); [lia|]. cbn [obind].
    eexists. split; [reflexivity|].
    rewrite (gnext_list_hint _ _ _ _ _ GL).
    eapply gto_cons; eauto. rewrite P4, P2. reflexivity.
  - rewrite G by (unfold loop_fuel; lia). cbn [obind].
    destruct (groups_point_ok t None r e m A) as (p & -> & P1 & P2 & P3 & P4 & P5). cbn [obind].
    eexists. split; [reflexivity|]. constructor; auto.
Qed.

Lemma gtrace_groups : forall t e r h gs pts, gtrace_ok t e r h gs pts -> trace_groups pts = gs.
Proof.
  induction 1; cbn [trace_groups flat_map].
  - rewrite H. reflexivity.
  - rewrite H. cbn [app]. f_equal. exact IHgtrace_ok.
Qed.

Lemma gtrace_nth : forall t e r h gs pts, gtrace_ok t e r h gs pts ->
  length pts = S (length gs) /\ length gs <= h /\
  (forall k p, nth_error pts k = Some p ->
     gp_hint p + S k = h + (if Nat.eqb k (length gs) then 1 else 0) /\
     gp_group p = nth_error gs k /\
     gp_rem p = remainder t (gp_ind p) e /\
     rem_described t (gp_rem p) (gp_rem_len p) (gp_rem_tokens p)) /\
  (exists p, nth_error pts (length gs) = Some p /\ gp_ind p = r /\ gp_group p = None).
Proof.
  induction 1; cbn [length].
  - split; auto. split; [lia|]. split.
    + intros k q E. destruct k; cbn in E; [|destruct k; discriminate]. inversion E; subst.
      cbn. repeat split; auto.
    + exists p. cbn. auto.
  - destruct IHgtrace_ok as (IL & IB & IN & IE). split; [lia|]. split; [lia|]. split.
    + intros k q E. destruct k; cbn in E.
      * inversion E; subst. cbn. repeat split; auto; lia.
      * destruct (IN _ _ E) as (A1 & A2 & A3 & A4). cbn [nth_error].
        replace (Nat.eqb (S k) (S (length gs))) with (Nat.eqb k (length gs)) by reflexivity.
        repeat split; auto; lia.
    + destruct IE as (q & E & Q). exists q. cbn. auto.
Qed.

(* the statement pinned in Props/C17_iter.v: the stateful loop of FieldGroupsIter yields exactly
   the partition [groups_spec], its size hint is the number of groups still to come after every
   call, every remainder() on the way is defined, and after the call that returns None the inner
   cursor sits where fields() stops, so remainder() is the trailing array part *)
Theorem groups_every_call : forall dbg t r, tape_wf t -> obj_node t r ->
  exists l last p0 pts,
    fields_all dbg t r = Ok (l, last) /\
    groups_trace_all dbg t r = Ok (p0 :: pts) /\
    gp_hint p0 = length (groups_spec l) /\ gp_ind p0 = o_start r /\
    trace_groups pts = groups_spec l /\
    length pts = S (length (groups_spec l)) /\
    (forall k p, nth_error pts k = Some p ->
       gp_hint p = length (groups_spec l) - S k /\
       gp_group p = nth_error (groups_spec l) k /\
       gp_rem p = remainder t (gp_ind p) (o_end r) /\
       rem_described t (gp_rem p) (gp_rem_len p) (gp_rem_tokens p)) /\
    (exists p, nth_error pts (length (groups_spec l)) = Some p /\ gp_group p = None /\
       gp_ind p = last /\ gp_rem p = tail_reader last (o_end r)).
Proof.
  intros dbg t r WF N. destruct (obj_node_facts t r WF N) as (D & L & rr & l & S0 & R).
  destruct (fields_agree dbg t r WF N) as (l' & last' & S1 & FA & FL & _).
  destruct (fields_spec_fun _ _ _ _ _ S0 _ _ S1) as [<- <-].
  destruct WF as (_ & _ & W & _).
  pose proof (tail_reader_ok _ _ _ _ _ W L S0 D) as TA. rewrite <- R in TA.
  pose proof (fields_spec_bounds _ _ _ _ _ S0) as B.
  pose proof (cursor_rem_ok _ _ _ _ _ S0 D L TA) as A0.
  destruct (groups_point_ok t None (o_start r) (o_end r) (gmap_build l) A0) as (p0 & E0 & P1 & P2 & P3 & P4 & P5).
  destruct (groups_calls_spec dbg t (o_end r) rr W L TA (loop_fuel t) l (o_start r) (gmap_build l) S0 D)
    as (pts & EC & T); [unfold loop_fuel; lia|].
  rewrite groups_run_partition, groups_hint in T.
  destruct (gtrace_nth _ _ _ _ _ _ T) as (TL & _ & TN & (q & TE & TQ1 & TQ2)).
  exists l, rr, p0, pts.
  split; auto. split.
  { unfold groups_trace_all. rewrite FL. cbn [obind]. rewrite FA. cbn [obind].
    rewrite E0. cbn [obind]. rewrite EC. reflexivity. }
  split; [rewrite P3; apply groups_hint|]. split; auto.
  split; [eapply gtrace_groups; eauto|]. split; auto. split.
  - intros k p E. destruct (TN _ _ E) as (A1 & A2 & A3 & A4). repeat split; auto.
    destruct (Nat.eqb_spec k (length (groups_spec l))); lia.
  - exists q. repeat split; auto.
    destruct (TN _ _ TE) as (_ & _ & A3 & _). rewrite A3, TQ1. exact R.
Qed.

(* ================================================================ which range read_array hands out *)
(* a mixed object read as an array = the remainder of its own fields() *)
Theorem read_array_mixed_is_remainder : forall dbg t v e, tape_wf t ->
  tget t v = Some (TObject e true) ->
  exists l last,
    fields_all dbg t (mk_oreader (S v) e) = Ok (l, last) /\
    last < e /\ tget t last = Some TMixedContainer /\
    read_array t v = Ok (remainder t last e) /\
    remainder t last e = mk_areader (S last) e.
Proof.
  intros dbg t v e (D & _ & W & _) K. pose proof (W v (tget_lt _ _ _ K)) as C.
  unfold cont_ok in C. rewrite K in C. destruct C as (A & B & E & DD & (r & FE & M)).
  specialize (M eq_refl). destruct (fields_end_spec t W _ _ _ FE) as [l S0].
  pose proof (fields_spec_bounds _ _ _ _ _ S0) as BB.
  destruct (fields_spec_stop _ _ _ _ _ S0) as [->|[_ MK]]; [lia|].
  exists l, r. split.
  { unfold fields_all, loop_fuel. cbn [o_start o_end]. apply fields_drain_spec; auto. lia. }
  split; auto. split; auto.
  assert (RM : remainder t r e = mk_areader (S r) e) by (unfold remainder; rewrite MK; reflexivity).
  split; auto. rewrite RM.
  unfold read_array, value_token. rewrite (tok_at_some _ _ _ _ K). cbn [obind].
  rewrite (find_mixed_spec _ _ _ _ _ S0 M) by (unfold loop_fuel; lia). reflexivity.
Qed.

(* a header read as an array = exactly the two values (header, its container) *)
Theorem read_array_header_view : forall t v s, tape_wf t -> tget t v = Some (THeader s) ->
  exists k e', tget t (S v) = Some k /\ container_end k = Some e' /\
    read_array t v = Ok (mk_areader v (S e')) /\
    values_all t (mk_areader v (S e')) = Ok [v; S v] /\
    array_len t (mk_areader v (S e')) = Ok 2.
Proof.
  intros t v s (D & _ & W & _) K. pose proof (W v (tget_lt _ _ _ K)) as C.
  unfold cont_ok in C. rewrite K in C.
  destruct (tget t (S v)) as [k|] eqn:K'; try contradiction.
  assert (exists e', container_end k = Some e') as [e' CE] by (destruct k; try discriminate; eexists; reflexivity).
  destruct (cont_lt t (S v) _ e' W K' CE) as (A & B & E & DD).
  exists k, e'. split; auto. split; auto.
  assert (I : items t v (S e') [v; S v]).
  { eapply it_one; eauto; try lia. eapply it_cont; eauto. constructor. }
  split.
  { unfold read_array, value_token. rewrite (tok_at_some _ _ _ _ K). cbn [obind].
    rewrite (next_idx_unfold _ _ _ K'). destruct k; try discriminate; inversion CE; subst; reflexivity. }
  unfold values_all, array_len, values_len, loop_fuel. cbn [a_start a_end].
  rewrite (values_drain_spec _ _ _ _ I) by (cbn; lia).
  rewrite (values_len_spec _ _ _ _ I) by (cbn; lia). auto.
Qed.

(* every other container: the inside of the token *)
Theorem read_array_plain : forall t v k e, tget t v = Some k ->
  (exists m, k = TArray e m) \/ k = TObject e false ->
  read_array t v = Ok (mk_areader (S v) e).
Proof.
  intros t v k e K H. unfold read_array, value_token. rewrite (tok_at_some _ _ _ _ K). cbn [obind].
  destruct H as [[m ->] | ->]; reflexivity.
Qed.

(* the object reader of an Object token is an object node (so every C17 theorem applies to it) *)
Theorem read_object_node : forall t v e m, tget t v = Some (TObject e m) ->
  exists r, read_object t v = Ok r /\ obj_node t r.
Proof.
  intros t v e m K. exists (mk_oreader (S v) e). split.
  - apply (read_object_ok t v _ K).
  - eapply on_obj; eauto.
Qed.

(* what a value reader answers on every token kind, and tokens_len of containers *)
Theorem value_reader_kinds : forall dec t v k, tape_wf t -> tget t v = Some k ->
  value_token t v = Ok k /\
  read_scalar t v = match k with
                    | THeader s | TUnquoted s | TQuoted s | TParameter s | TUndefinedParameter s => Ok s
                    | _ => Err E_not_scalar
                    end /\
  read_str dec t v = match k with
                     | THeader s | TUnquoted s | TQuoted s | TParameter s | TUndefinedParameter s => Ok (dec s)
                     | TOperator o => Ok (op_symbol o)
                     | _ => Err E_not_string
                     end /\
  match k with
  | TObject e _ => read_object t v = Ok (mk_oreader (S v) e) /\ value_tokens_len t v = Ok (e - v - 1) /\ v < e
  | TArray e _ => read_object t v = Ok (mk_oreader e e) /\ value_tokens_len t v = Ok (e - v - 1) /\ v < e
  | THeader _ => read_object t v = Err E_not_object /\ value_tokens_len t v = Ok 1
  | _ => read_object t v = Err E_not_object /\ read_array t v = Err E_not_array /\ value_tokens_len t v = Ok 1
  end.
Proof.
  intros dec t v k (_ & _ & W & _) K.
  unfold value_tokens_len, read_scalar, read_str, read_object, read_array, value_token.
  rewrite (tok_at_some _ _ _ _ K). cbn [obind].
  split; auto. split; [destruct k; reflexivity|]. split; [destruct k; reflexivity|].
  destruct k; auto;
    destruct (cont_lt t v _ e W K eq_refl) as (A & _); unfold sub_usize;
    replace (Nat.ltb e v) with false by (symmetry; apply Nat.ltb_ge; lia); cbn [obind];
    replace (Nat.ltb (e - v) 1) with false by (symmetry; apply Nat.ltb_ge; lia); auto.
Qed.
