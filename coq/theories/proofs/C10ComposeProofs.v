(* C10: from the agreement of the two specifications (C10SpecProofs.spec_agree) to the agreement of the
   five deserializer paths: the text rendering of a colour-free logical document is in the core grammar
   of the text walk theorems (C02), every binary rendering allowed by enc_ok is a well-formed BinDoc
   document (C04), and the fuel of the binary entry points covers the document. *)
From JV Require Import Bytes Tables Utf8 Scalar Date TextTok BinPrim BufWin BinLexer BinReader SerdeShape
  TextDeCommon BinDeCommon TextDeSpec TextDeTape TextDeStream BinDeOndemand BinDeReader BinDeTape LogicDoc.
From JV Require TextDoc BinDoc.
From JV.proofs Require Import C10LinkProofs C10SpecProofs C10FitsProofs BinDocProofs BinDeSpecProofs TextDeTapeProofs TextDeStreamProofs TextParseProofs.
From Coq Require Import NArith ZArith Lia List Bool.
Import ListNotations.
Open Scope N_scope.

(* ------------------------------------------------------------------ the local fixpoints as forallb *)
Lemma norgb_arr vs : norgb (LArr vs) = forallb norgb vs.
Proof. reflexivity. Qed.
Lemma norgb_obj fs : norgb (LObj fs) = forallb (fun f : lfield => norgb (lf_val f)) fs.
Proof. reflexivity. Qed.
Lemma norgb_fields_eq fs : norgb_fields fs = forallb (fun f : lfield => norgb (lf_val f)) fs.
Proof. induction fs as [|x r IH]; [reflexivity|]. cbn [norgb_fields forallb]. rewrite IH. reflexivity. Qed.
Lemma lwf_arr vs : lwf (LArr vs) = forallb lwf vs.
Proof. reflexivity. Qed.
Lemma lwf_obj fs : lwf (LObj fs) = match fs with [] => false | _ => true end && forallb (fun f : lfield => lwf (lf_val f)) fs.
Proof. reflexivity. Qed.
Lemma lwf_fields_eq fs : lwf_fields fs = forallb (fun f : lfield => lwf (lf_val f)) fs.
Proof. induction fs as [|x r IH]; [reflexivity|]. cbn [lwf_fields forallb]. rewrite IH. reflexivity. Qed.

(* ------------------------------------------------------------------ text side: the core grammar *)
Lemma core_text_val v : norgb v = true -> core_value (to_text_val v) = true.
Proof.
  induction v as [l|c|vs IH|fs IH] using lval_ind'; intros H.
  - reflexivity.
  - discriminate.
  - rewrite norgb_arr in H. rewrite to_text_arr. cbn [core_value].
    induction IH as [|x r Hx Hr IHr]; [reflexivity|]. cbn [forallb] in H. apply andb_prop in H as [H1 H2].
    cbn [to_text_vals core_values]. rewrite (Hx H1), (IHr H2). reflexivity.
  - rewrite norgb_obj in H. rewrite to_text_obj. cbn [core_value].
    induction IH as [|x r Hx Hr IHr]; [reflexivity|]. cbn [forallb] in H. apply andb_prop in H as [H1 H2].
    cbn [to_text_fields to_text_field core_fields core_field]. rewrite (Hx H1), (IHr H2). reflexivity.
Qed.

Lemma core_text d : norgb_fields d = true -> core_fields (to_text d) = true.
Proof.
  unfold to_text. induction d as [|x r IH]; intros H; [reflexivity|].
  cbn [norgb_fields] in H. apply andb_prop in H as [H1 H2].
  cbn [to_text_fields to_text_field core_fields core_field]. rewrite (core_text_val _ H1), (IH H2). reflexivity.
Qed.

(* ------------------------------------------------------------------ binary side: well-formed, tape-able, long enough *)
Lemma date_bin_range y m d : BinDoc.wf_scalar (BinDoc.SI32 (date_bin y m d)) = true.
Proof.
  unfold date_bin, date_to_binary. destruct (julian_ordinal_day _) as [j| | | |]; cbn [obind]; try reflexivity.
  unfold to_binary_z. destruct (in_i32 _) eqn:E; [|reflexivity].
  unfold in_i32 in E. apply andb_prop in E as [E1 E2]. apply Z.leb_le in E1, E2.
  cbn [BinDoc.wf_scalar]. apply andb_true_intro. split; [apply Z.leb_le|apply Z.ltb_lt]; lia.
Qed.

Section Wf.
  Variable decode : bytes -> cow.
  Variable cfg : bcfg.

  Lemma str_wf f raw s : str_ok decode cfg f raw s ->
    BinDoc.wf_scalar (bin_str f s) = true /\ BinDoc.key_kind (bin_str f s) = true.
  Proof.
    destruct f as [| |id]; cbn [str_ok bin_str BinDoc.wf_scalar BinDoc.key_kind].
    - intros [H _]. split; [apply N.ltb_lt, H|reflexivity].
    - intros [H _]. split; [apply N.ltb_lt, H|reflexivity].
    - intros (H1 & H2 & _). split; [|reflexivity]. rewrite H1. apply N.ltb_lt, H2.
  Qed.

  Lemma scalar_wf c l : scalar_enc_ok decode cfg c l -> BinDoc.wf_scalar (bin_scalar c l) = true.
  Proof.
    destruct l as [z|b|k s|y m d wide q|raw p32 p64]; cbn [scalar_enc_ok bin_scalar].
    - destruct (ch_int c); cbn [int_fits BinDoc.wf_scalar]; intros H;
        try (apply andb_true_intro; split; [apply Z.leb_le|apply Z.ltb_lt]; lia); apply N.ltb_lt; lia.
    - reflexivity.
    - intros H. apply (str_wf _ _ _ H).
    - destruct (ch_date_i32 c); intros H; [apply date_bin_range|apply (str_wf _ _ _ H)].
    - intros [H1 H2]. destruct (ch_f32 c); cbn [BinDoc.wf_scalar]; apply Nat.eqb_eq; assumption.
  Qed.

  Lemma rgb_wf c : rgb_ok c -> BinDoc.wf_rgbb c = true.
  Proof.
    unfold rgb_ok, rgb_channels, BinDoc.wf_rgbb. intros H.
    inversion H as [|? ? Hr H1]; subst. inversion H1 as [|? ? Hg H2]; subst. inversion H2 as [|? ? Hb H3]; subst.
    apply N.ltb_lt in Hr, Hg, Hb. rewrite Hr, Hg, Hb. cbn [andb].
    destruct (rgb_a c); [|reflexivity]. inversion H3; subst. apply N.ltb_lt. assumption.
  Qed.

  Lemma bin_wf_val v : forall e, lwf v = true -> enc_ok_v decode cfg e v -> BinDoc.wf_val (to_bin_val e v) = true.
  Proof.
    induction v as [l|c|vs IH|fs IH] using lval_ind'; intros e Hw He.
    - apply scalar_wf. exact He.
    - apply rgb_wf. exact He.
    - rewrite to_bin_arr. cbn [BinDoc.wf_val]. rewrite lwf_arr in Hw. apply enc_ok_arr in He. revert He. generalize 0%nat.
      induction IH as [|x r Hx Hr IHr]; intros i He; [reflexivity|].
      cbn [forallb] in Hw. apply andb_prop in Hw as [H1 H2]. destruct He as [He1 He2].
      cbn [to_bin_vals forallb]. rewrite (Hx _ H1 He1), (IHr H2 _ He2). reflexivity.
    - rewrite to_bin_obj. rewrite lwf_obj in Hw. apply andb_prop in Hw as [Hne Hw]. apply enc_ok_obj in He. destruct He as [Hg He].
      cbn [BinDoc.wf_val].
      assert (H3 : forall i, enc_ok_fields decode cfg e i fs ->
                     forallb (fun f : BinDoc.bfield => BinDoc.key_kind (BinDoc.bf_key f) && BinDoc.wf_scalar (BinDoc.bf_key f) && BinDoc.wf_val (BinDoc.bf_val f))
                             (to_bin_fields e i fs) = true).
      { clear Hne Hg He. induction IH as [|x r Hx Hr IHr]; intros i He; [reflexivity|].
        cbn [forallb] in Hw. apply andb_prop in Hw as [H1 H2]. destruct He as [[Hk He1] He2].
        cbn [to_bin_fields forallb bin_field BinDoc.bf_key BinDoc.bf_val fst snd].
        destruct (str_wf _ _ _ Hk) as [Hk1 Hk2]. rewrite Hk1, Hk2, (Hx _ H1 He1), (IHr H2 _ He2). reflexivity. }
      rewrite (H3 _ He). destruct fs as [|x r]; [discriminate|].
      cbn [to_bin_fields BinDoc.first_no_ghost bin_field BinDoc.bf_ghost fst]. rewrite Hg. reflexivity.
  Qed.

  Lemma bin_wf_doc e d : wf_ldoc d = true -> enc_ok decode cfg e d ->
    BinDoc.wf_doc (fst (to_bin e d)) (snd (to_bin e d)) = true.
  Proof.
    unfold wf_ldoc, enc_ok, to_bin, BinDoc.wf_doc. cbn [fst snd]. intros Hw (Hg & Hem & He).
    assert (H3 : forall i d, lwf_fields d = true -> enc_ok_fields decode cfg e i d -> forallb BinDoc.wf_field (to_bin_fields e i d) = true).
    { clear. intros i d. revert i. induction d as [|x r IH]; intros i Hw He; [reflexivity|].
      cbn [lwf_fields] in Hw. apply andb_prop in Hw as [H1 H2]. destruct He as [[Hk He1] He2].
      cbn [to_bin_fields forallb]. unfold BinDoc.wf_field at 1. cbn [bin_field BinDoc.bf_key BinDoc.bf_val fst snd].
      destruct (str_wf _ _ _ Hk) as [Hk1 Hk2]. rewrite Hk1, Hk2, (bin_wf_val _ _ H1 He1), (IH _ H2 He2). reflexivity. }
    rewrite (H3 _ _ Hw He). destruct d as [|x r].
    - cbn. rewrite (Hem eq_refl). reflexivity.
    - cbn [to_bin_fields BinDoc.first_no_ghost bin_field BinDoc.bf_ghost fst]. rewrite Hg. reflexivity.
  Qed.
End Wf.

Lemma bin_not_rgb e v : norgb v = true -> match to_bin_val e v with BinDoc.VRgb _ => False | _ => True end.
Proof. destruct v; try discriminate; intros _; [exact I|rewrite to_bin_arr; exact I|rewrite to_bin_obj; exact I]. Qed.

Lemma bin_tape_ok v : forall e, norgb v = true -> BinDoc.tape_ok (to_bin_val e v) = true.
Proof.
  induction v as [l|c|vs IH|fs IH] using lval_ind'; intros e H.
  - reflexivity.
  - discriminate.
  - rewrite to_bin_arr. cbn [BinDoc.tape_ok]. rewrite norgb_arr in H. generalize 0%nat.
    induction IH as [|x r Hx Hr IHr]; intros i; [reflexivity|].
    cbn [forallb] in H. apply andb_prop in H as [H1 H2].
    cbn [to_bin_vals forallb]. rewrite (IHr H2).
    pose proof (bin_not_rgb (sub e i) x H1) as Hn. specialize (Hx (sub e i) H1).
    destruct (to_bin_val (sub e i) x); [| contradiction | |]; rewrite Hx; reflexivity.
  - rewrite to_bin_obj. cbn [BinDoc.tape_ok]. rewrite norgb_obj in H. generalize 0%nat.
    induction IH as [|x r Hx Hr IHr]; intros i; [reflexivity|].
    cbn [forallb] in H. apply andb_prop in H as [H1 H2].
    cbn [to_bin_fields forallb bin_field BinDoc.bf_val snd]. rewrite (Hx _ H1), (IHr H2). reflexivity.
Qed.

Lemma bin_tape_ok_doc e d : norgb_fields d = true -> BinDoc.tape_ok_doc (fst (to_bin e d)) = true.
Proof.
  unfold to_bin, BinDoc.tape_ok_doc. cbn [fst]. generalize 0%nat.
  induction d as [|x r IH]; intros i H; [reflexivity|].
  cbn [norgb_fields] in H. apply andb_prop in H as [H1 H2].
  cbn [to_bin_fields forallb bin_field BinDoc.bf_val snd]. rewrite (bin_tape_ok _ _ H1), (IH _ H2). reflexivity.
Qed.

(* every logical node costs at least one token *)
Lemma toks_size v : forall e, (lsize v <= length (BinDoc.toks_val (to_bin_val e v)))%nat.
Proof.
  induction v as [l|c|vs IH|fs IH] using lval_ind'; intros e.
  - cbn. lia.
  - cbn. lia.
  - rewrite to_bin_arr, lsize_arr. cbn [BinDoc.toks_val length]. rewrite app_length. cbn [length].
    assert (forall i, lsize_vals vs <= length (flat_map BinDoc.toks_val (to_bin_vals e i vs)))%nat as H.
    { induction IH as [|x r Hx Hr IHr]; intros i; [cbn; lia|].
      cbn [lsize_vals to_bin_vals flat_map]. rewrite app_length. specialize (Hx (sub e i)). specialize (IHr (S i)). lia. }
    specialize (H 0%nat). lia.
  - rewrite to_bin_obj, lsize_obj. cbn [BinDoc.toks_val length]. rewrite !app_length. cbn [length].
    assert (forall i, lsize_fields fs <= length (flat_map (fun f : BinDoc.bfield => BinDoc.ghost_toks (BinDoc.bf_ghost f) ++ BinDoc.tok_of (BinDoc.bf_key f) :: BEqual :: BinDoc.toks_val (BinDoc.bf_val f)) (to_bin_fields e i fs)))%nat as H.
    { induction IH as [|x r Hx Hr IHr]; intros i; [cbn; lia|].
      cbn [lsize_fields to_bin_fields flat_map]. rewrite !app_length. cbn [length bin_field BinDoc.bf_val snd].
      specialize (Hx (sub e i)). specialize (IHr (S i)). lia. }
    specialize (H 0%nat). lia.
Qed.

Lemma toks_size_fields e d : forall i, (lsize_fields d <= length (BinDoc.toks_fields (to_bin_fields e i d)))%nat.
Proof.
  induction d as [|x r IH]; intros i; [cbn; lia|].
  cbn [lsize_fields to_bin_fields BinDoc.toks_fields flat_map]. unfold BinDoc.toks_field at 1. rewrite !app_length.
  cbn [length bin_field BinDoc.bf_val snd]. pose proof (toks_size (lf_val x) (sub e i)). specialize (IH (S i)).
  unfold BinDoc.toks_fields in IH. lia.
Qed.

Lemma deser_fuel_covers sh e d :
  (bsize sh + lsize_fields d < deser_fuel sh (BinDoc.enc_doc (fst (to_bin e d)) (snd (to_bin e d))))%nat.
Proof.
  unfold deser_fuel, BinDoc.enc_doc, to_bin. cbn [fst snd].
  pose proof (wbytes_len (BinDoc.toks_fields (to_bin_fields e 0 d) ++ BinDoc.ghost_toks (ch_ghost (e [])))) as H.
  rewrite app_length in H. pose proof (toks_size_fields e d 0). lia.
Qed.

(* ------------------------------------------------------------------ the five paths *)
Section Compose.
  Variable decode : bytes -> cow.
  Variable pf : bytes -> outcome N.
  Variable cfg : bcfg.
  Notation F := (c_fops cfg).

  (* the binary specification at the fuel of the entry points = the text specification *)
  Theorem spec_of_agree sh d e :
    shared decode pf cfg sh d -> enc_ok decode cfg e d ->
    TextDeSpec.spec_value decode pf F sh (to_text d) = BinDoc.spec_of cfg sh (fst (to_bin e d)) (snd (to_bin e d)).
  Proof. intros Hs He. unfold BinDoc.spec_of. apply spec_agree; [exact Hs|exact He|apply deser_fuel_covers]. Qed.

  Theorem text_bin_agree sh d e cap sched :
    wf_ldoc d = true -> norgb_fields d = true ->
    shared decode pf cfg sh d -> enc_ok decode cfg e d ->
    TextDeSpec.fits decode pf F sh (to_text d) ->
    no_fail sched = true -> BinLexer.fits cap (BinDoc.enc_doc (fst (to_bin e d)) (snd (to_bin e d))) = true ->
    let v := TextDeSpec.spec_value decode pf F sh (to_text d) in
    let b := BinDoc.enc_doc (fst (to_bin e d)) (snd (to_bin e d)) in
    TextDeTape.deser_tape decode pf F sh (TextDoc.flatten (to_text d)) = v /\
    TextDeStream.deser_stream decode pf F sh (tokens (to_text d)) = v /\
    BinDeTape.deser_tape cfg sh b = v /\
    BinDeOndemand.deser_ondemand cfg sh b = v /\
    BinDeReader.deser_reader cfg cap sched sh b = v.
  Proof.
    intros Hw Hn Hs He Hfit Hnf Hcap v b.
    pose proof (core_text d Hn) as Hcore.
    pose proof (spec_of_agree sh d e Hs He) as Hag. fold v in Hag.
    pose proof (bin_wf_doc decode cfg e d Hw He) as Hwf.
    pose proof (bin_tape_ok_doc e d Hn) as Htp.
    assert (Hfb : BinDoc.fits_shape cfg sh (fst (to_bin e d)) (snd (to_bin e d))).
    { unfold BinDoc.fits_shape. rewrite <- Hag. exact Hfit. }
    split; [|split; [|split; [|split]]].
    - apply tape_path_spec_core; assumption.
    - apply stream_path_spec_core; assumption.
    - unfold b. rewrite (tape_eq_spec cfg sh _ _ eq_refl Hwf Htp Hfb). symmetry. exact Hag.
    - unfold b. rewrite (ondemand_eq_spec cfg sh _ _ Hwf Hfb). symmetry. exact Hag.
    - unfold b. rewrite (reader_eq_spec cfg cap sched sh _ _ Hwf Hnf Hcap Hfb). symmetry. exact Hag.
  Qed.

  (* from the text BYTES: any layout of the text rendering (C01_parse_render) *)
  Theorem text_bytes_bin_agree sh d e l cap sched :
    wf_ldoc d = true -> norgb_fields d = true ->
    shared decode pf cfg sh d -> enc_ok decode cfg e d ->
    TextDeSpec.fits decode pf F sh (to_text d) ->
    TextDoc.wf_doc (to_text d) -> TextDoc.wf_layout (to_text d) l ->
    no_fail sched = true -> BinLexer.fits cap (BinDoc.enc_doc (fst (to_bin e d)) (snd (to_bin e d))) = true ->
    let b := BinDoc.enc_doc (fst (to_bin e d)) (snd (to_bin e d)) in
    exists t, TextTape.parse (TextDoc.render (to_text d) l) = Ok (t, TextDoc.bom l) /\
      TextDeTape.deser_tape decode pf F sh t = BinDeTape.deser_tape cfg sh b /\
      TextDeTape.deser_tape decode pf F sh t = BinDeOndemand.deser_ondemand cfg sh b /\
      TextDeTape.deser_tape decode pf F sh t = BinDeReader.deser_reader cfg cap sched sh b.
  Proof.
    intros Hw Hn Hs He Hfit Hwt Hl Hnf Hcap b.
    destruct (text_bin_agree sh d e cap sched Hw Hn Hs He Hfit Hnf Hcap) as (H1 & _ & H3 & H4 & H5).
    exists (TextDoc.flatten (to_text d)). split; [apply parse_render; assumption|].
    fold b in H3, H4, H5. rewrite H1, H3, H4, H5. auto.
  Qed.

  (* [shared] implies [fits] (C10FitsProofs): the same two theorems without that hypothesis *)
  Theorem text_bin_agree_shared sh d e cap sched :
    wf_ldoc d = true -> norgb_fields d = true ->
    shared decode pf cfg sh d -> enc_ok decode cfg e d ->
    no_fail sched = true -> BinLexer.fits cap (BinDoc.enc_doc (fst (to_bin e d)) (snd (to_bin e d))) = true ->
    let v := TextDeSpec.spec_value decode pf F sh (to_text d) in
    let b := BinDoc.enc_doc (fst (to_bin e d)) (snd (to_bin e d)) in
    v <> Err EC_UNFIT /\
    TextDeTape.deser_tape decode pf F sh (TextDoc.flatten (to_text d)) = v /\
    TextDeStream.deser_stream decode pf F sh (tokens (to_text d)) = v /\
    BinDeTape.deser_tape cfg sh b = v /\
    BinDeOndemand.deser_ondemand cfg sh b = v /\
    BinDeReader.deser_reader cfg cap sched sh b = v.
  Proof.
    intros Hw Hn Hs He Hnf Hcap v b. pose proof (shared_fits decode pf cfg sh d Hs) as Hfit.
    split; [exact Hfit|]. exact (text_bin_agree sh d e cap sched Hw Hn Hs He Hfit Hnf Hcap).
  Qed.

  Theorem text_bytes_bin_agree_shared sh d e l cap sched :
    wf_ldoc d = true -> norgb_fields d = true ->
    shared decode pf cfg sh d -> enc_ok decode cfg e d ->
    TextDoc.wf_doc (to_text d) -> TextDoc.wf_layout (to_text d) l ->
    no_fail sched = true -> BinLexer.fits cap (BinDoc.enc_doc (fst (to_bin e d)) (snd (to_bin e d))) = true ->
    let b := BinDoc.enc_doc (fst (to_bin e d)) (snd (to_bin e d)) in
    exists t, TextTape.parse (TextDoc.render (to_text d) l) = Ok (t, TextDoc.bom l) /\
      TextDeTape.deser_tape decode pf F sh t = BinDeTape.deser_tape cfg sh b /\
      TextDeTape.deser_tape decode pf F sh t = BinDeOndemand.deser_ondemand cfg sh b /\
      TextDeTape.deser_tape decode pf F sh t = BinDeReader.deser_reader cfg cap sched sh b.
  Proof.
    intros Hw Hn Hs He Hwt Hl Hnf Hcap. apply text_bytes_bin_agree; try assumption. apply shared_fits, Hs.
  Qed.
End Compose.
