(* C05, binary TAPE deserializer walk: the three facts about the output of BinTape.parse that the
   walk needs beyond tape_wf (definitions in NoCrashTapeWalksDefs.v):

     parse_tape_facts : wfl d -> parse fx opt d = Ok t ->
                        Forall tok_ok t /\ length t <= length d /\ kvgood 0 t

   Method: an invariant [J n s] of the (extended) reference machine of BinTapeSim.v, preserved by
   [xstep] (one reference iteration, or the "I64 id taken as a plain token" step), next to the
   structural invariant [Inv] of BinTapeInv.v:

     J1  every token of the tape is [tok_ok], the rest of the input is real bytes
     J2  length tape + length (rest of input) <= n    (every iteration eats the 2-byte id and
         adds at most 2 tokens; a scalar arm adds 1 token and eats its payload on top)
     J3  top-level key/value alignment.  At parent 0: the tape is  u ++ ss  with [kvgood 0 u] and
         ss the pending scalars of the pair being read (how many: [cnt], by parse state).  Inside
         containers: the chain [J3open] remembers, for the outermost open container, the pending
         scalars in front of it; it says nothing about what is inside the open containers.

   NOTE the top level of an accepted tape is not always key/value PAIRS ([parse_not_pairs] below):
   kvgood is what holds. *)
From Coq Require Import List NArith ZArith Bool Lia Arith.
Import ListNotations.
From JV Require Import Bytes Tables Date BinPrim BinTape BinTapeWf.
From JV.proofs Require Import SwarLanes BinLexProofs BinTapeWfProofs BinTapeInv BinTapeSim NoCrashTapeWalksDefs.
From JV.proofs Require NoCrashBinDe.
Open Scope nat_scope.

(* ------------------------------------------------------------------ lists *)
Lemma firstn_app_le : forall (l w : tape) n, n <= length l -> firstn n (l ++ w) = firstn n l.
Proof. intros. rewrite firstn_app. replace (n - length l) with 0 by lia. cbn. apply app_nil_r. Qed.

Lemma mixed_insert1_eq : forall t0 x, mixed_insert1 (t0 ++ [x]) = Ok (t0 ++ [TMixed; x]).
Proof. intros. unfold mixed_insert1. rewrite pop_snoc. unfold push. rewrite <- app_assoc. reflexivity. Qed.

Lemma mixed_insert2_eq : forall t0 x y, mixed_insert2 (t0 ++ [x; y]) = Ok (t0 ++ [TMixed; x; y]).
Proof.
  intros. unfold mixed_insert2. change (t0 ++ [x; y]) with (t0 ++ [x] ++ [y]). rewrite app_assoc.
  rewrite !pop_snoc. unfold push. rewrite <- !app_assoc. reflexivity.
Qed.

(* ------------------------------------------------------------------ J1: payloads *)
Lemma tok_ok_upd : forall t i x, Forall tok_ok t -> tok_ok x -> Forall tok_ok (upd t i x).
Proof. induction t; intros i x H Hx; destruct i; cbn; auto; inversion H; subst; constructor; auto. Qed.

Lemma tok_ok_firstn : forall n t, Forall tok_ok t -> Forall tok_ok (firstn n t).
Proof. intros n t H. rewrite <- (firstn_skipn n t) in H. apply Forall_app in H. apply H. Qed.

Lemma tok_ok_push : forall t x, Forall tok_ok t -> tok_ok x -> Forall tok_ok (push t x).
Proof. intros. unfold push. apply Forall_app. split; auto. Qed.

Lemma tok_ok_mixed2 : forall a x y, Forall tok_ok (a ++ [x; y]) -> Forall tok_ok (a ++ [TMixed; x; y]).
Proof. intros a x y H. apply Forall_app in H as [A B]. apply Forall_app. split; auto. constructor; [exact I | exact B]. Qed.

Lemma tok_ok_mixed1 : forall a x, Forall tok_ok (a ++ [x]) -> Forall tok_ok (a ++ [TMixed; x]).
Proof. intros a x H. apply Forall_app in H as [A B]. apply Forall_app. split; auto. constructor; [exact I | exact B]. Qed.

Lemma lexfn_read_scalar : forall k, lexfn (read_scalar k).
Proof.
  destruct k.
  - exact (lexfn_map read_u32 TU32 lexfn_read_u32).
  - exact (lexfn_map read_u64 TU64 lexfn_read_u64).
  - exact (lexfn_map read_i32 TI32 lexfn_read_i32).
  - exact (lexfn_map read_bool TBool lexfn_read_bool).
  - exact (lexfn_map read_string TQuoted lexfn_read_string).
  - exact (lexfn_map read_string TUnquoted lexfn_read_string).
  - exact (lexfn_map read_f32 TF32 lexfn_read_f32).
  - exact (lexfn_map read_f64 TF64 lexfn_read_f64).
  - exact (lexfn_map read_rgb TRgb lexfn_read_rgb).
  - exact (lexfn_map read_i64 TI64 lexfn_read_i64).
Qed.

Lemma read_scalar_tok_ok : forall k d v r, wfl d -> read_scalar k d = Ok (v, r) -> tok_ok v.
Proof.
  intros k d v r Hd H. destruct k; cbn [read_scalar] in H; unfold omap, obind in H;
  match type of H with context [match ?x with _ => _ end] =>
    destruct x as [[a b]| | | |] eqn:E; inversion H; subst; cbn [tok_ok fst]; auto end.
  - eapply NoCrashBinDe.read_i32_ok; eauto.
  - eapply NoCrashBinDe.read_string_ok; eauto.
  - eapply NoCrashBinDe.read_string_ok; eauto.
Qed.

Lemma read_scalar_ok : forall k d v r, wfl d -> read_scalar k d = Ok (v, r) ->
  tok_ok v /\ is_scalar v = true /\ wfl r /\ length r <= length d.
Proof.
  intros k d v r Hd H. split; [eapply read_scalar_tok_ok; eauto|]. split; [eapply read_scalar_is_scalar; eauto|].
  pose proof (NoCrashBinDe.lexfn_suffix _ _ _ _ (lexfn_read_scalar k) H) as Hs.
  split; [eapply NoCrashBinDe.suffix_wf; eauto | now apply NoCrashBinDe.suffix_len].
Qed.

Lemma get_split_wfl : forall n d h r, wfl d -> get_split n d = Some (h, r) -> wfl r.
Proof. intros n d h r Hd H. apply get_split_some in H as (_ & _ & _ & ->). now apply NoCrashBinDe.wfl_skipn. Qed.

Lemma read_id_ok : forall d id r, wfl d -> read_id d = Ok (id, r) -> wfl r /\ length d = 2 + length r.
Proof.
  intros d id r Hd H. destruct (read_id_split _ _ _ H) as (h & E & _). split.
  - eapply get_split_wfl; eauto.
  - apply get_split_len in E. lia.
Qed.

(* ------------------------------------------------------------------ kvgood *)
Definition scal (ss : tape) : Prop := Forall (fun x => is_scalar x = true) ss.

Lemma kvgood_eq : forall b b' l, kvgood b l -> b = b' -> kvgood b' l.
Proof. intros; subst; auto. Qed.

Lemma value1_eq : forall p p' v, value1 p v -> p = p' -> value1 p' v.
Proof. intros; subst; auto. Qed.

Lemma kvgood_app : forall b u, kvgood b u -> forall w, kvgood (b + length u) w -> kvgood b (u ++ w).
Proof.
  induction 1; intros w Hw.
  - eapply kvgood_eq; [exact Hw | cbn; lia].
  - cbn [app]. apply KG_doom; auto. destruct r; [congruence | discriminate].
  - cbn [app]. rewrite <- app_assoc. apply KG_pair; auto. apply IHkvgood.
    eapply kvgood_eq; [exact Hw|]. cbn [length]. rewrite app_length. lia.
Qed.

Lemma value1_single : forall p x, is_scalar x = true -> value1 p [x].
Proof. intros p x H. exists x, []. split; auto. destruct x; cbn in *; try discriminate; auto. Qed.

(* pending scalars ss <> [] followed by one container value: the key/value walk is safe *)
Lemma scal_value_kvgood : forall c w, is_scalar c = false -> w <> [] ->
  forall n ss, length ss <= n -> ss <> [] -> scal ss ->
  forall b, value1 (b + length ss) (c :: w) -> kvgood b (ss ++ c :: w).
Proof.
  intros c w Hc Hw. induction n; intros ss Hn Hne Hs b Hv.
  - destruct ss; [congruence | cbn in Hn; lia].
  - destruct ss as [|k1 [|k2 rest]]; [congruence | |].
    + inversion Hs; subst. cbn [app]. rewrite <- (app_nil_r (c :: w)). apply KG_pair; auto.
      * eapply value1_eq; [exact Hv | cbn; lia].
      * constructor.
    + inversion Hs as [|? ? Hk1 Hs1]; subst. inversion Hs1 as [|? ? Hk2 Hs2]; subst.
      change ((k1 :: k2 :: rest) ++ c :: w) with (k1 :: [k2] ++ (rest ++ c :: w)).
      apply KG_pair; auto. { now apply value1_single. }
      cbn [length]. destruct rest as [|k3 rest'].
      * cbn [app]. now apply KG_doom.
      * apply IHn; auto.
        -- cbn [length] in *. lia.
        -- discriminate.
        -- eapply value1_eq; [exact Hv | cbn [length]; lia].
Qed.

(* ------------------------------------------------------------------ J3 *)
Definition cnt (ps : pstate) (n : nat) : Prop :=
  match ps with
  | Key => n = 0 | KeyValueSeparator => n = 1 | ObjectValue => n = 1 | ObjectToArray => n = 2
  | ArrayValueMixed => 1 <= n
  | _ => False
  end.

Definition pend (ps : pstate) (t : tape) : Prop :=
  exists u ss, t = u ++ ss /\ kvgood 0 u /\ scal ss /\ cnt ps (length ss).

Inductive J3open : nat -> tape -> Prop :=
| JO_top : forall pre u ss, pre = u ++ ss -> kvgood 0 u -> scal ss -> ss <> [] -> J3open 0 pre
| JO_in : forall pre g c inner, pre <> [] -> container_end c = Some g -> J3open g pre ->
    J3open (length pre) (pre ++ c :: inner).

Definition J3 (ps : pstate) (par : nat) (t : tape) : Prop :=
  match par with 0 => pend ps t | S _ => J3open par t end.

Lemma J3_pos : forall ps par t, J3 ps par t -> par <> 0 -> J3open par t.
Proof. intros ps par t H Hp. destruct par; [congruence | exact H]. Qed.

Lemma J3_of_open : forall ps par t, J3open par t -> par <> 0 -> J3 ps par t.
Proof. intros ps par t H Hp. destruct par; [congruence | exact H]. Qed.

Lemma J3open_zero : forall t, J3open 0 t -> exists u ss, t = u ++ ss /\ kvgood 0 u /\ scal ss /\ ss <> [].
Proof.
  intros t H. inversion H; subst.
  - eauto 6.
  - destruct pre; [congruence | discriminate].
Qed.

Lemma J3open_pos : forall p t, J3open p t -> p <> 0 ->
  exists pre g c inner, t = pre ++ c :: inner /\ p = length pre /\ pre <> [] /\ container_end c = Some g /\ J3open g pre.
Proof. intros p t H Hp. inversion H; subst; [congruence|]. exists pre, g, c, inner. auto. Qed.

Lemma J3open_lt : forall p t, J3open p t -> p <> 0 -> S p <= length t.
Proof.
  intros p t H Hp. destruct (J3open_pos _ _ H Hp) as (pre & g & c & inner & -> & -> & _).
  rewrite app_length. cbn. lia.
Qed.

(* J3open p only looks at the tokens up to (and including) index p *)
Lemma J3open_prefix : forall p t t', J3open p t -> p <> 0 -> firstn (S p) t' = firstn (S p) t -> J3open p t'.
Proof.
  intros p t t' H Hp E. destruct (J3open_pos _ _ H Hp) as (pre & g & c & inner & -> & -> & Hne & Hc & Hg).
  rewrite firstn_S_here in E. rewrite <- (firstn_skipn (S (length pre)) t'), E, <- app_assoc. cbn [app].
  eapply JO_in; eauto.
Qed.

Lemma J3open_app : forall p t w, J3open p t -> p <> 0 -> J3open p (t ++ w).
Proof.
  intros p t w H Hp. eapply J3open_prefix; eauto. apply firstn_app_le. now apply J3open_lt.
Qed.

Lemma J3open_upd : forall p t c c', J3open p t -> p <> 0 -> nth_error t p = Some c ->
  container_end c' = container_end c -> J3open p (upd t p c').
Proof.
  intros p t c c' H Hp Hn Hc. destruct (J3open_pos _ _ H Hp) as (pre & g & c0 & inner & -> & -> & Hne & Hc0 & Hg).
  rewrite nth_error_here in Hn. inversion Hn; subst c0. rewrite upd_app_here. eapply JO_in; eauto. congruence.
Qed.

(* in every state but Key there is at least one pending scalar *)
Lemma J3_open : forall ps par t, J3 ps par t -> ps <> Key -> J3open par t.
Proof.
  intros ps par t H Hk. destruct par as [|p]; [|exact H].
  destruct H as (u & ss & -> & Hu & Hss & Hc). eapply JO_top; eauto.
  intros ->. destruct ps; cbn in Hc; try congruence; try lia; try contradiction.
Qed.

Lemma pend_push : forall ps t v, pend ps t -> ps <> ObjectToArray -> is_scalar v = true ->
  pend (next_tbl ps) (t ++ [v]).
Proof.
  intros ps t v (u & ss & -> & Hu & Hss & Hc) Hne Hv.
  destruct ps; cbn in Hc; try contradiction; try congruence; cbn [next_tbl].
  - (* ArrayValueMixed *) exists u, (ss ++ [v]). rewrite app_assoc. repeat split; auto.
    + apply Forall_app. split; auto.
    + cbn. rewrite app_length. cbn. lia.
  - (* ObjectValue -> Key *)
    destruct ss as [|k [|? ?]]; try discriminate. inversion Hss; subst.
    exists (u ++ [k; v]), []. rewrite <- app_assoc, app_nil_r.
    split; [reflexivity|]. split; [|split; [constructor | reflexivity]].
    apply kvgood_app; auto. change [k; v] with (k :: [v] ++ []). apply KG_pair; auto.
    + now apply value1_single.
    + constructor.
  - (* Key -> KeyValueSeparator *)
    destruct ss; [|discriminate]. exists u, [v]. rewrite app_nil_r. repeat split; auto. constructor; auto.
  - (* KeyValueSeparator -> ObjectToArray *)
    exists u, (ss ++ [v]). rewrite app_assoc. repeat split; auto.
    + apply Forall_app. split; auto.
    + cbn. rewrite app_length. cbn. lia.
Qed.

Lemma push_J3 : forall ps par t v, J3 ps par t -> ps <> ObjectToArray -> is_scalar v = true ->
  J3 (next_tbl ps) par (t ++ [v]).
Proof.
  intros ps par t v H Hne Hv. destruct par as [|p]; [now apply pend_push|].
  cbn [J3] in *. now apply J3open_app.
Qed.

(* the ObjectToArray rewrite *)
Lemma rewrite_J3 : forall par t0, st_ok ObjectToArray par t0 -> J3 ObjectToArray par t0 ->
  exists a x y, t0 = a ++ [x; y] /\ J3 ArrayValueMixed par (a ++ [TMixed; x; y]).
Proof.
  intros par t0 Hs HJ. destruct par as [|p].
  - destruct HJ as (u & ss & -> & Hu & Hss & Hc). cbn in Hc.
    destruct ss as [|x [|y [|? ?]]]; try discriminate. exists u, x, y. split; auto.
    exists u, [TMixed; x; y]. repeat split; auto.
    + constructor; auto.
    + cbn. lia.
  - cbn in Hs. destruct Hs as (a & x & y & -> & Hx & Hy & Hl). exists a, x, y. split; auto.
    cbn [J3] in *. eapply J3open_prefix; eauto.
    rewrite !firstn_app_le; auto.
Qed.

Lemma no_array_at_top : forall t, open_inv 0 t -> par_is_array 0 t -> False.
Proof.
  intros t Ho [g Hg]. apply open_inv_zero in Ho. destruct Ho as [_ Hh]. apply Hh in Hg. discriminate.
Qed.

(* ------------------------------------------------------------------ push_end *)
Lemma push_end_shape : forall par t ps' g t', push_end par t = Ok (ps', g, t') ->
  exists c c', nth_error t par = Some c /\ container_end c = Some g /\ container_end c' = Some (length t) /\
               t' = upd t par c' ++ [TEnd par] /\ (ps' = Key \/ ps' = ArrayValue).
Proof.
  intros par t ps' g t' H. unfold push_end in H.
  destruct (nth_error t par) as [c|] eqn:En; [|discriminate].
  assert (K : forall c' g0, push_end_fin c' g0 par t = Ok (ps', g, t') ->
              g = g0 /\ t' = upd t par c' ++ [TEnd par] /\ (ps' = Key \/ ps' = ArrayValue)).
  { intros c' g0 Hf. unfold push_end_fin, push in Hf.
    destruct (nth_error (upd t par c' ++ [TEnd par]) g0) as [x|]; [|discriminate].
    destruct x; inversion Hf; subst; auto. }
  destruct c; try discriminate; apply K in H; destruct H as (-> & -> & Hp).
  - eexists _, (TArray (length t)). repeat split; auto.
  - eexists _, (TObject (length t)). repeat split; auto.
Qed.

Lemma push_end_J1 : forall par t ps' g t', push_end par t = Ok (ps', g, t') -> Forall tok_ok t ->
  Forall tok_ok t' /\ length t' = S (length t).
Proof.
  intros par t ps' g t' H Hk. destruct (push_end_shape _ _ _ _ _ H) as (c & c' & _ & _ & Hc' & -> & _). split.
  - apply Forall_app. split; [|constructor; [exact I | constructor]].
    apply tok_ok_upd; auto. destruct c'; cbn in Hc'; try discriminate; exact I.
  - rewrite app_length, upd_length. cbn. lia.
Qed.

Lemma push_end_J3 : forall par t ps' g t',
  open_inv par t -> (par <> 0 -> J3open par t) -> push_end par t = Ok (ps', g, t') -> J3 ps' g t'.
Proof.
  intros par t ps' g t' Ho HJ H.
  destruct (push_end_inv _ _ _ _ _ Ho H) as [Ho' Hs'].
  destruct (push_end_shape _ _ _ _ _ H) as (c & c' & En & Hc & Hc' & Et & Hps).
  assert (Hp : par <> 0) by (eapply open_inv_parent_not_zero; eauto).
  destruct (J3open_pos _ _ (HJ Hp) Hp) as (pre & g1 & c1 & inner & E & Ep & Hne & Hc1 & Hg).
  subst t par. rewrite nth_error_here in En. inversion En; subst c1. rewrite Hc in Hc1. inversion Hc1; subst g1.
  rewrite upd_app_here, <- app_assoc in Et. cbn [app] in Et.
  destruct (Nat.eq_dec g 0) as [->|Hg0].
  - (* back at the top level: the closed container completes the pending scalars *)
    destruct Hps as [->| ->]; [|exfalso; eapply no_array_at_top; eauto].
    destruct (J3open_zero _ Hg) as (u & ss & -> & Hu & Hss & Hsne).
    cbn [J3]. exists t', []. rewrite app_nil_r. split; [reflexivity|]. split; [|split; [constructor | reflexivity]].
    subst t'. rewrite <- app_assoc. apply kvgood_app; auto.
    apply (scal_value_kvgood c' (inner ++ [TEnd (length (u ++ ss))])) with (n := length ss); auto.
    + destruct c'; cbn in Hc'; try discriminate; reflexivity.
    + destruct inner; discriminate.
    + exists c', (inner ++ [TEnd (length (u ++ ss))]). split; auto. rewrite Hc'.
      repeat (rewrite app_length; cbn [length]). lia.
  - apply J3_of_open; auto. subst t'. now apply J3open_app.
Qed.

(* ------------------------------------------------------------------ the invariant *)
Definition J (n : nat) (s : st) : Prop :=
  Forall tok_ok (s_tape s) /\ wfl (s_data s) /\ length (s_tape s) + length (s_data s) <= n /\
  J3 (s_ps s) (s_par s) (s_tape s).

Lemma J_init : forall d, wfl d -> J (length d) (init d).
Proof.
  intros d Hd. unfold J; cbn. repeat split; auto.
  exists [], []. repeat split; constructor.
Qed.

Lemma push_J : forall n ps par t v r,
  Forall tok_ok t -> wfl r -> tok_ok v -> is_scalar v = true -> J3 ps par t -> ps <> ObjectToArray ->
  length t + length r + 1 <= n -> J n (mkst r (next_tbl ps) par (push t v)).
Proof.
  intros n ps par t v r Hk Hr Hv Hs HJ Hne Hl. unfold J; cbn [s_tape s_data s_ps s_par].
  split; [now apply tok_ok_push|]. split; auto. split; [rewrite push_length; lia|].
  unfold push. now apply push_J3.
Qed.

Lemma scalar_arm_J : forall n k d ps par t s',
  Forall tok_ok t -> wfl d -> J3 ps par t -> ps <> ObjectToArray -> length t + length d + 1 <= n ->
  scalar_arm k d ps par t = Ok s' -> J n s'.
Proof.
  intros n k d ps par t s' Hk Hd HJ Hne Hl H. unfold scalar_arm in H.
  destruct (read_scalar k d) as [[v r]| | | |] eqn:Er; try discriminate. cbn in H.
  rewrite next_state_ok in H. cbn in H. inversion H; subst.
  destruct (read_scalar_ok _ _ _ _ Hd Er) as (A & B & C & D). apply push_J; auto. lia.
Qed.

Lemma token_arm_J : forall n d ps par t id s',
  Forall tok_ok t -> wfl d -> J3 ps par t -> ps <> ObjectToArray -> length t + length d + 1 <= n ->
  (do ps' <- next_state ps; Ok (mkst d ps' par (push t (TToken id)))) = Ok s' -> J n s'.
Proof.
  intros n d ps par t id s' Hk Hd HJ Hne Hl H. rewrite next_state_ok in H. cbn in H. inversion H; subst.
  apply push_J; auto. exact I.
Qed.

(* ------------------------------------------------------------------ one reference iteration *)
Local Opaque firstn.

Lemma slow_J : forall n d id ps0 par t0 s',
  open_inv par t0 -> st_ok ps0 par t0 ->
  Forall tok_ok t0 -> wfl d -> length t0 + length d + 2 <= n -> J3 ps0 par t0 ->
  slow false d id ps0 par t0 = Ok s' -> J n s'.
Proof.
  intros n d id ps0 par t0 s' Ho0 Hs0 Hk0 Hd Hl0 HJ0 H. unfold slow in H.
  (* the ObjectToArray rewrite *)
  assert (exists ps t, (match ps0 with
                        | ObjectToArray => do t' <- mixed_insert2 t0; Ok (ArrayValueMixed, t')
                        | _ => Ok (ps0, t0) end) = Ok (ps, t) /\ open_inv par t /\ st_ok ps par t /\ ps <> ObjectToArray /\
                       Forall tok_ok t /\ J3 ps par t /\
                       (length t + length d + 2 <= n \/ (length t + length d + 1 <= n /\ ps = ArrayValueMixed)))
    as (ps & t & E & Ho & Hs & Hne & Hk & HJ & Hl).
  { destruct ps0;
      try (eexists _, t0; split; [reflexivity|]; split; [assumption|]; split; [assumption|];
           split; [discriminate|]; split; [assumption|]; split; [assumption|left; assumption]).
    destruct (mixed_insert2 t0) as [t1| | | |] eqn:Em; try discriminate.
    destruct (mixed_insert2_inv _ _ _ Ho0 Hs0 Em).
    destruct (rewrite_J3 _ _ Hs0 HJ0) as (a & x & y & -> & HJ1).
    rewrite mixed_insert2_eq in Em. inversion Em; subst t1.
    exists ArrayValueMixed, (a ++ [TMixed; x; y]). split; [reflexivity|]. repeat split; auto.
    - discriminate.
    - now apply tok_ok_mixed2.
    - right. split; auto. rewrite app_length in *. cbn [length] in *. lia. }
  rewrite E in H. cbn [obind] in H. clear E Ho0 Hs0 Hk0 Hl0 HJ0.
  assert (Hl1 : length t + length d + 1 <= n) by (destruct Hl as [?|[? _]]; lia).
  destruct (classify id) eqn:Ec;
    try (eapply scalar_arm_J; eauto; fail);
    try (eapply token_arm_J; eauto; fail).
  - (* I32 *) destruct (scalar_arm KI32 d ps par t) as [s1| | | |] eqn:Es; try discriminate. cbn in H.
    inversion H; subst. eapply scalar_arm_J; eauto.
  - (* Open *)
    destruct (is_key ps) eqn:Ek; cbn [negb] in H.
    + destruct t as [|a t']; [discriminate|].
      destruct (read_id d) as [[id2 nd]| | | |] eqn:Er; try discriminate. cbn in H.
      destruct (read_id_ok _ _ _ Hd Er) as [Hnd Hlen].
      destruct (N.eqb id2 L_CLOSE); inversion H; subst. unfold J; cbn [s_tape s_data s_ps s_par].
      repeat split; auto. lia.
    + inversion H; subst. unfold J; cbn [s_tape s_data s_ps s_par].
      assert (Hne0 : t <> []) by (eapply st_ok_nonempty; eauto; intro; subst; discriminate).
      split; [apply tok_ok_push; auto; exact I|]. split; auto. split; [rewrite push_length; lia|].
      apply J3_of_open; [|destruct t; [congruence | discriminate]].
      unfold push. eapply JO_in; eauto; [reflexivity|].
      eapply J3_open; eauto. intro; subst; discriminate.
  - (* Close *)
    assert (exists t1, (match ps with KeyValueSeparator => mixed_insert1 t | ObjectValue => Err E_Syntax | _ => Ok t end) = Ok t1
                       /\ open_inv par t1 /\ Forall tok_ok t1 /\ (par <> 0 -> J3open par t1) /\
                       length t1 + length d + 1 <= n) as (t1 & E1 & Ho1 & Hk1 & HJ1 & Hl2).
    { destruct ps; try (exists t; split; [reflexivity|]; split; [assumption|]; split; [assumption|];
                        split; [intro; eapply J3_pos; eauto | assumption]).
      - cbn in H. discriminate.
      - cbn in Hs. destruct Hs as [_ Hs]. destruct (mixed_insert1 t) as [t1| | | |] eqn:Em; try discriminate.
        exists t1. split; auto. split; [eapply mixed_insert1_inv; eauto|].
        destruct Hs as (a & x & -> & Hx & Hla). rewrite mixed_insert1_eq in Em. inversion Em; subst t1.
        split; [now apply tok_ok_mixed1|]. split.
        + intro Hp. eapply J3open_prefix; [eapply J3_pos; eauto | auto |].
          destruct par; [congruence|]. cbn in Hla. rewrite !firstn_app_le; auto.
        + destruct Hl as [Hl|[_ Hl]]; [|discriminate]. rewrite app_length in *. cbn [length] in *. lia. }
    rewrite E1 in H. cbn [obind] in H.
    destruct (push_end par t1) as [[[ps' g] t']| | | |] eqn:Ep; try discriminate. cbn in H.
    inversion H; subst. unfold J; cbn [s_tape s_data s_ps s_par].
    destruct (push_end_J1 _ _ _ _ _ Ep Hk1) as [A B]. repeat split; auto; [lia|].
    eapply push_end_J3; eauto.
  - (* Equal *)
    destruct ps; try discriminate.
    + (* ArrayValue *)
      destruct (pop t) as [[t1 last]|] eqn:Ep; [|discriminate]. apply pop_some in Ep. subst t.
      destruct (is_array_or_end last) eqn:Ea; [discriminate|].
      cbn in Hs. destruct Hs as [g Hg].
      destruct (open_inv_last_in_array _ _ _ _ Ho Hg Ea) as [Hlast Hlen].
      assert (Hp0 : par <> 0) by (eapply open_inv_parent_not_zero; eauto; reflexivity).
      assert (Hg1 : nth_error t1 par = Some (TArray g)) by (rewrite nth_error_app1 in Hg by lia; exact Hg).
      pose proof (J3_pos _ _ _ HJ Hp0) as HJo.
      apply Forall_app in Hk as [Hk1 Hklast]. inversion Hklast; subst.
      destruct Hl as [Hl|[_ Hl]]; [|discriminate]. rewrite app_length in Hl. cbn [length] in Hl.
      destruct (only_empties par t1).
      * unfold set_parent_to_object in H. rewrite Hg1 in H. cbn [obind] in H. inversion H; subst; clear H.
        unfold J; cbn [s_par s_tape s_ps s_data].
        split; [apply tok_ok_push; auto; apply tok_ok_firstn, tok_ok_upd; auto; exact I|]. split; auto.
        split; [rewrite push_length, firstn_length, upd_length; lia|].
        apply J3_of_open; auto. unfold push.
        apply J3open_prefix with (t := upd t1 par (TObject g)); auto.
        -- eapply J3open_upd; eauto. eapply J3open_prefix; eauto. symmetry. now apply firstn_app_le.
        -- rewrite firstn_app_le by (rewrite firstn_length, upd_length; lia).
           rewrite firstn_firstn. f_equal. lia.
      * inversion H; subst. unfold J; cbn [s_par s_tape s_ps s_data].
        split; [repeat apply tok_ok_push; auto; exact I|]. split; auto.
        split; [rewrite !push_length; lia|].
        apply J3_of_open; auto. unfold push. eapply J3open_prefix; eauto.
        rewrite <- !app_assoc. rewrite !firstn_app_le; auto.
    + (* ArrayValueMixed *) inversion H; subst.
      change ArrayValueMixed with (next_tbl ArrayValueMixed). apply push_J; auto. exact I.
    + (* KeyValueSeparator *) inversion H; subst. unfold J; cbn [s_par s_tape s_ps s_data].
      split; auto. split; auto. split; [lia|]. destruct par; exact HJ.
    + (* OpenSecond *) destruct (set_parent_to_object par t) as [t1| | | |] eqn:Es; try discriminate. cbn in H.
      inversion H; subst. unfold set_parent_to_object in Es.
      destruct (nth_error t par) as [c|] eqn:En; [|discriminate]. destruct c; try discriminate. inversion Es; subst t1.
      assert (Hp0 : par <> 0) by (eapply open_inv_parent_not_zero; eauto; reflexivity).
      unfold J; cbn [s_par s_tape s_ps s_data].
      split; [apply tok_ok_upd; auto; exact I|]. split; auto. split; [rewrite upd_length; lia|].
      apply J3_of_open; auto. eapply J3open_upd; eauto. eapply J3_pos; eauto.
  - (* Rgb *)
    destruct ps; try (eapply token_arm_J; eauto; fail).
    destruct (read_scalar KRgb d) as [[v r]| | | |] eqn:Er; try discriminate. cbn in H. inversion H; subst.
    destruct (read_scalar_ok _ _ _ _ Hd Er) as (A & B & C & D).
    change Key with (next_tbl ObjectValue). apply push_J; auto. lia.
Qed.

Lemma iter_ref_J : forall n s s', Inv s -> J n s -> iter false false s = Continue s' -> J n s'.
Proof.
  intros n s s' [Ho Hs] (Hk & Hd & Hl & HJ) H. destruct (get_split 2 (s_data s)) as [[h d]|] eqn:Eg.
  - rewrite (iter_ref_unfold _ _ _ Eg) in H.
    destruct (slow false d (le_word 2 h) (s_ps s) (s_par s) (s_tape s)) as [s1| | | |] eqn:E; try discriminate.
    inversion H; subst. apply (slow_J n d (le_word 2 h) (s_ps s) (s_par s) (s_tape s) s' Ho Hs Hk); auto.
    + eapply get_split_wfl; eauto.
    + apply get_split_len in Eg. lia.
  - unfold iter in H. rewrite Eg in H. discriminate.
Qed.

(* ------------------------------------------------------------------ the extended reference machine *)
Lemma xstep_J : forall n fx s s', Inv s -> J n s -> xstep fx s s' -> J n s'.
Proof.
  intros n fx s s' HI HJ [H|[_ (d & Hr & Hne & ->)]].
  - eapply iter_ref_J; eauto.
  - destruct HJ as (Hk & Hd & Hl & HJ). destruct (read_id_ok _ _ _ Hd Hr) as [Hd' Hlen].
    apply push_J; auto; [exact I | | lia].
    destruct Hne as [E|E]; rewrite E; discriminate.
Qed.

Lemma xstar_J : forall n fx s s', xstar fx s s' -> Inv s -> J n s -> J n s'.
Proof.
  induction 1; intros HI HJ; auto. apply IHxstar; [eapply xstep_inv | eapply xstep_J]; eauto.
Qed.

Lemma finish_J : forall n s t, J n s -> finish s = Ok t -> Forall tok_ok t /\ length t <= n /\ kvgood 0 t.
Proof.
  intros n s t (Hk & Hd & Hl & HJ) H. unfold finish in H. destruct (s_par s) eqn:Ep; [|discriminate].
  destruct (s_ps s) eqn:Es; try discriminate. inversion H; subst. split; auto. split; [lia|].
  destruct HJ as (u & ss & E & Hu & Hss & Hc). cbn in Hc. destruct ss; [|discriminate].
  rewrite E, app_nil_r. exact Hu.
Qed.

Lemma loop_ref_J : forall n fx f s t, Inv s -> J n s -> loop fx false f s = Ok t ->
  Forall tok_ok t /\ length t <= n /\ kvgood 0 t.
Proof.
  intros n fx. induction f; intros s t HI HJ H; [discriminate|]. cbn [loop] in H. rewrite iter_fx_irrelevant in H.
  destruct (iter false false s) as [s'|r] eqn:E.
  - apply (IHf s'); [eapply iter_ref_inv; eauto | eapply iter_ref_J; eauto | exact H].
  - subst r. eapply finish_J; eauto. now apply iter_ref_done_ok.
Qed.

(* ------------------------------------------------------------------ the theorem *)
Theorem parse_tape_facts_gen : forall fx opt d t, wfl d -> parse fx opt d = Ok t ->
  Forall tok_ok t /\ length t <= length d /\ kvgood 0 t.
Proof.
  intros fx opt d t Hd H. unfold parse in H. destruct opt.
  - pose proof (opt_halts fx (S (length d)) (init d) (Inv_init d) (Nat.lt_succ_diag_r _)) as Hh.
    rewrite H in Hh. destruct Hh as (s' & r & A & B & C). destruct r; try discriminate. inversion C; subst.
    eapply finish_J; [eapply xstar_J; eauto; [apply Inv_init | now apply J_init] | now apply iter_ref_done_ok].
  - eapply loop_ref_J; eauto; [apply Inv_init | now apply J_init].
Qed.

Theorem parse_tape_facts : forall fx d t, wfl d -> parse fx true d = Ok t ->
  Forall tok_ok t /\ length t <= length d /\ kvgood 0 t.
Proof. intros fx d t. apply parse_tape_facts_gen. Qed.

(* ------------------------------------------------------------------ non-vacuity; the top level is not pairs *)
(* `a b c {}` : three tokens, then an empty container: accepted, five top-level values *)
Example parse_not_pairs :
  parse true true [130;45; 130;45; 130;45; 3;0; 4;0]%N
  = Ok [TMixed; TToken 11650; TToken 11650; TToken 11650; TArray 5; TEnd 4].
Proof. vm_compute. reflexivity. Qed.

Example parse_not_pairs_kvgood :
  kvgood 0 [TMixed; TToken 11650; TToken 11650; TToken 11650; TArray 5; TEnd 4].
Proof.
  refine (proj2 (proj2 (parse_tape_facts true _ _ _ parse_not_pairs))).
  repeat constructor.
Qed.
