(* Proofs about the date model (C13). *)
From JV Require Import Bytes Tables U64Swar Scalar Date.
From Coq Require Import ZArith Lia List Bool.
Import ListNotations.
Open Scope Z_scope.

(* ---------- finite facts about the generated calendar tables ---------- *)
Definition zrange (lo : Z) (n : nat) : list Z := map (fun k => lo + Z.of_nat k) (seq 0 n).

Lemma zrange_in lo n x : lo <= x < lo + Z.of_nat n -> In x (zrange lo n).
Proof.
  intros H. unfold zrange. apply in_map_iff. exists (Z.to_nat (x - lo)). split; [lia|].
  apply in_seq. lia.
Qed.

Definition valid_md (m d : Z) : bool :=
  (1 <=? m) && (m <=? 12) && (1 <=? d) &&
  match nth_error days_per_month (Z.to_nat m) with Some v => d <=? v | None => false end.

(* month/day -> ordinal -> month/day, for every calendar day *)
Definition md_roundtrip_check (m d : Z) : bool :=
  negb (valid_md m d) ||
  match julian_ordinal_day m with
  | Ok j => match month_day_from_julian (j + d) with
            | Ok (m', d') => (m' =? m) && (d' =? d) && (0 <=? j + d) && (j + d <=? 364)
            | _ => false end
  | _ => false end.

Lemma md_roundtrip_all :
  forallb (fun m => forallb (fun d => md_roundtrip_check m d) (zrange 1 31)) (zrange 1 12) = true.
Proof. vm_compute. reflexivity. Qed.

Lemma dpm_le_31 : forallb (fun v => v <=? 31) days_per_month = true.
Proof. vm_compute. reflexivity. Qed.

Lemma valid_md_bounds m d : valid_md m d = true -> 1 <= m <= 12 /\ 1 <= d <= 31.
Proof.
  unfold valid_md. intros H.
  apply andb_prop in H as [H H4]. apply andb_prop in H as [H H3]. apply andb_prop in H as [H1 H2].
  apply Z.leb_le in H1, H2, H3.
  split; [lia|]. split; [lia|].
  destruct (nth_error days_per_month (Z.to_nat m)) as [v|] eqn:Hn; [|discriminate].
  apply nth_error_In in Hn. pose proof dpm_le_31 as Hall. rewrite forallb_forall in Hall.
  specialize (Hall v Hn). apply Z.leb_le in H4, Hall. lia.
Qed.

Lemma md_roundtrip m d :
  valid_md m d = true ->
  exists j, julian_ordinal_day m = Ok j /\ month_day_from_julian (j + d) = Ok (m, d) /\ 0 <= j + d <= 364.
Proof.
  intros Hv. pose proof (valid_md_bounds _ _ Hv) as [Hm Hd].
  pose proof md_roundtrip_all as Hall.
  rewrite forallb_forall in Hall. specialize (Hall m (zrange_in 1 12 m ltac:(lia))).
  rewrite forallb_forall in Hall. specialize (Hall d (zrange_in 1 31 d ltac:(lia))).
  unfold md_roundtrip_check in Hall. rewrite Hv in Hall. cbn [negb orb] in Hall.
  destruct (julian_ordinal_day m) as [j| | | |]; try discriminate.
  exists j. split; [reflexivity|].
  destruct (month_day_from_julian (j + d)) as [[m' d']| | | |]; try discriminate.
  apply andb_prop in Hall as [Hall H4]. apply andb_prop in Hall as [Hall H3]. apply andb_prop in Hall as [H1 H2].
  apply Z.eqb_eq in H1. apply Z.eqb_eq in H2. subst. split; [reflexivity|lia].
Qed.

(* ordinal -> month/day -> ordinal, for every day of the year; in particular never the unreachable arm *)
Definition dm_roundtrip_check (o : Z) : bool :=
  match month_day_from_julian o with
  | Ok (m, d) => valid_md m d &&
                 match julian_ordinal_day m with Ok j => j + d =? o | _ => false end
  | _ => false end.

Lemma dm_roundtrip_all : forallb dm_roundtrip_check (zrange 0 365) = true.
Proof. vm_compute. reflexivity. Qed.

Lemma dm_roundtrip o :
  0 <= o <= 364 ->
  exists m d j, month_day_from_julian o = Ok (m, d) /\ valid_md m d = true /\
                julian_ordinal_day m = Ok j /\ j + d = o.
Proof.
  intros Ho. pose proof dm_roundtrip_all as Hall. rewrite forallb_forall in Hall.
  specialize (Hall o (zrange_in 0 365 o ltac:(lia))). unfold dm_roundtrip_check in Hall.
  destruct (month_day_from_julian o) as [[m d]| | | |]; try discriminate.
  apply andb_prop in Hall as [Hv Hj].
  destruct (julian_ordinal_day m) as [j| | | |] eqn:Ej; try discriminate.
  apply Z.eqb_eq in Hj. exists m, d, j. repeat split; auto.
Qed.

(* ---------- RawDate packing ---------- *)
Lemma raw_fields y m d h :
  1 <= m <= 12 -> 1 <= d <= 31 -> 0 <= h <= 24 ->
  exists r, raw_from_ymdh_opt y m d h = Some r /\ ry r = y /\ raw_month r = m /\ raw_day r = d /\ raw_hour r = h.
Proof.
  intros Hm Hd Hh. unfold raw_from_ymdh_opt.
  replace (negb (m =? 0) && (m <? 13) && negb (d =? 0) && (d <? 32) && (h <? 25)) with true
    by (symmetry; repeat (apply andb_true_intro; split); try (apply negb_true_iff; apply Z.eqb_neq); lia).
  eexists; split; [reflexivity|]. unfold raw_month, raw_day, raw_hour; cbn [ry rdata].
  rewrite !Z.shiftr_div_pow2 by lia.
  change 31 with (Z.ones 5). rewrite !Z.land_ones by lia.
  change (2 ^ 12) with 4096. change (2 ^ 7) with 128. change (2 ^ 2) with 4. change (2 ^ 5) with 32.
  repeat split; try reflexivity.
  - assert ((m * 4096 + d * 128 + h * 4) / 4096 = m) as -> by (symmetry; apply Z.div_unique with (r := d * 128 + h * 4); lia).
    apply Z.mod_small. lia.
  - assert ((m * 4096 + d * 128 + h * 4) / 128 = m * 32 + d) as -> by (symmetry; apply Z.div_unique with (r := h * 4); lia).
    rewrite Z.add_comm, Z.mod_add by lia. apply Z.mod_small. lia.
  - assert ((m * 4096 + d * 128 + h * 4) / 4 = (m * 32 + d) * 32 + h) as -> by (symmetry; apply Z.div_unique with (r := 0); lia).
    rewrite Z.add_comm, Z.mod_add by lia. apply Z.mod_small. lia.
Qed.

Lemma dpm_valid m d : valid_md m d = true -> exists v, dpm m = Ok v /\ d <= v.
Proof.
  unfold valid_md, dpm. intros H.
  apply andb_prop in H as [_ H].
  destruct (nth_error days_per_month (Z.to_nat m)) as [v|]; [|discriminate].
  exists v. split; [reflexivity|lia].
Qed.

(* a valid Date value: built by from_ymd_opt *)
Definition is_date (r : rawdate) : Prop :=
  exists y m d, in_i16 y = true /\ valid_md m d = true /\ date_from_ymd_opt y m d = Ok (Some r).

Lemma date_from_ymd_valid y m d :
  valid_md m d = true ->
  exists r, date_from_ymd_opt y m d = Ok (Some r) /\ ry r = y /\ raw_month r = m /\ raw_day r = d /\ raw_hour r = 0.
Proof.
  intros Hv. pose proof (valid_md_bounds _ _ Hv) as [Hm Hd].
  destruct (raw_fields y m d 0 Hm Hd ltac:(lia)) as (r & Hr & H1 & H2 & H3 & H4).
  destruct (dpm_valid _ _ Hv) as (v & Hdp & Hle).
  exists r. unfold date_from_ymd_opt. rewrite Hr. cbn [obind]. rewrite Hdp. cbn [obind].
  replace (d <=? v) with true by (symmetry; apply Z.leb_le; lia). auto.
Qed.

(* ---------- binary codec ---------- *)
Lemma x_from_binary_encode y o h :
  -5000 <= y <= 32767 -> 0 <= o <= 364 -> 0 <= h <= 23 ->
  forall m d, month_day_from_julian o = Ok (m, d) ->
  x_from_binary (((y + 5000) * 365 + o) * 24 + h) = Ok (Some (mkx y m d h)).
Proof.
  intros Hy Ho Hh m d Hmd. unfold x_from_binary.
  set (s := ((y + 5000) * 365 + o) * 24 + h).
  assert (Hs : 0 <= s) by (unfold s; nia).
  assert (Hq : Z.quot s 24 = (y + 5000) * 365 + o).
  { rewrite Z.quot_div_nonneg by lia. unfold s. symmetry. apply Z.div_unique with (r := h); lia. }
  assert (Hr : Z.rem s 24 = h).
  { rewrite Z.rem_mod_nonneg by lia. unfold s. symmetry. apply Z.mod_unique with (q := (y + 5000) * 365 + o); lia. }
  rewrite Hr, Hq.
  assert (Hq2 : Z.quot ((y + 5000) * 365 + o) 365 = y + 5000).
  { rewrite Z.quot_div_nonneg by nia. symmetry. apply Z.div_unique with (r := o); lia. }
  assert (Hr2 : Z.rem ((y + 5000) * 365 + o) 365 = o).
  { rewrite Z.rem_mod_nonneg by nia. symmetry. apply Z.mod_unique with (q := y + 5000); lia. }
  rewrite Hr2, Hq2.
  replace ((h <? 0) || (o <? 0)) with false by (symmetry; apply orb_false_iff; split; apply Z.ltb_ge; lia).
  replace (y + 5000 - 5000) with y by lia.
  unfold in_i32, in_i16.
  replace ((-2147483648 <=? y) && (y <=? 2147483647)) with true by (symmetry; apply andb_true_intro; split; apply Z.leb_le; lia).
  replace ((-32768 <=? y) && (y <=? 32767)) with true by (symmetry; apply andb_true_intro; split; apply Z.leb_le; lia).
  cbn [negb]. rewrite Hmd. reflexivity.
Qed.

Theorem date_bin_inverse y m d :
  -5000 <= y <= 32767 -> valid_md m d = true ->
  exists r b, date_from_ymd_opt y m d = Ok (Some r) /\ date_to_binary r = Ok b /\ date_from_binary b = Ok (Some r).
Proof.
  intros Hy Hv.
  destruct (date_from_ymd_valid y m d Hv) as (r & Hr & H1 & H2 & H3 & H4).
  destruct (md_roundtrip m d Hv) as (j & Hj & Hmd & Ho).
  exists r, (((y + 5000) * 365 + (j + d)) * 24 + 0). split; [exact Hr|]. split.
  - unfold date_to_binary. rewrite H2, Hj. cbn [obind]. unfold to_binary_z. rewrite H1, H3.
    cbn [Z.leb]. replace (0 <=? 1) with true by reflexivity.
    unfold in_i32.
    replace ((-2147483648 <=? ((y + 5000) * 365 + (j + d)) * 24 + 0) && (((y + 5000) * 365 + (j + d)) * 24 + 0 <=? 2147483647)) with true
      by (symmetry; apply andb_true_intro; split; apply Z.leb_le; nia).
    reflexivity.
  - unfold date_from_binary.
    rewrite (x_from_binary_encode y (j + d) 0 Hy Ho ltac:(lia) m d Hmd).
    unfold olift. cbn [obind xy xm xd xh]. unfold date_from_expanded. cbn [xh xy xm xd Z.eqb negb]. exact Hr.
Qed.

Theorem datehour_bin_inverse y m d h :
  -5000 <= y <= 32767 -> valid_md m d = true -> 1 <= h <= 24 ->
  exists r b, datehour_from_ymdh_opt y m d h = Ok (Some r) /\ datehour_to_binary r = Ok b /\ datehour_from_binary b = Ok (Some r).
Proof.
  intros Hy Hv Hh. pose proof (valid_md_bounds _ _ Hv) as [Hm Hd].
  destruct (raw_fields y m d h Hm Hd ltac:(lia)) as (r & Hr & H1 & H2 & H3 & H4).
  destruct (dpm_valid _ _ Hv) as (v & Hdp & Hle).
  assert (Hmk : datehour_from_ymdh_opt y m d h = Ok (Some r)).
  { unfold datehour_from_ymdh_opt. rewrite Hr. cbn [obind]. rewrite Hdp. cbn [obind].
    replace ((0 <? h) && (d <=? v)) with true by (symmetry; apply andb_true_intro; split; [apply Z.ltb_lt|apply Z.leb_le]; lia).
    reflexivity. }
  destruct (md_roundtrip m d Hv) as (j & Hj & Hmd & Ho).
  exists r, (((y + 5000) * 365 + (j + d)) * 24 + (h - 1)). split; [exact Hmk|]. split.
  - unfold datehour_to_binary. rewrite H2, Hj. cbn [obind]. unfold to_binary_z. rewrite H1, H3, H4.
    destruct (h <=? 1) eqn:Hh1.
    + apply Z.leb_le in Hh1. replace (h - 1) with 0 by lia.
      unfold in_i32.
      replace ((-2147483648 <=? ((y + 5000) * 365 + (j + d)) * 24 + 0) && (((y + 5000) * 365 + (j + d)) * 24 + 0 <=? 2147483647)) with true
        by (symmetry; apply andb_true_intro; split; apply Z.leb_le; nia).
      reflexivity.
    + unfold in_i32.
      replace ((-2147483648 <=? ((y + 5000) * 365 + (j + d)) * 24 + (h - 1)) && (((y + 5000) * 365 + (j + d)) * 24 + (h - 1) <=? 2147483647)) with true
        by (symmetry; apply andb_true_intro; split; apply Z.leb_le; nia).
      reflexivity.
  - unfold datehour_from_binary.
    rewrite (x_from_binary_encode y (j + d) (h - 1) Hy Ho ltac:(lia) m d Hmd).
    unfold olift. cbn [obind xy xm xd xh]. unfold datehour_from_expanded. cbn [xh xy xm xd].
    replace (h - 1 + 1) with h by lia. exact Hmk.
Qed.
