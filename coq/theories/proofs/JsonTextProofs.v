(* Proofs about JsonText (C16, wave 4): the text serde_json's formatters emit for a tree is in
   the RFC 8259 grammar, is the tree's token sequence with whitespace only between tokens, and is
   valid UTF-8 when the tree's strings are. *)
From JV Require Import Bytes Tables Scalar Date Utf8 Json JsonText.
From JV.proofs Require Import DecimalProofs Utf8Proofs.
From Coq Require Import NArith ZArith Lia List Bool.
Import ListNotations.
Open Scope N_scope.

(* ================================================================ induction on trees *)
Section JsonInd.
  Variable P : json -> Prop.
  Hypothesis Hnull : P JNull.
  Hypothesis Hbool : forall b, P (JBool b).
  Hypothesis Hi64 : forall z, P (JI64 z).
  Hypothesis Hu64 : forall n, P (JU64 n).
  Hypothesis Hf64 : forall b, P (JF64 b).
  Hypothesis Hstr : forall s, P (JStr s).
  Hypothesis Harr : forall l, Forall P l -> P (JArr l).
  Hypothesis Hobj : forall l, Forall (fun kv => P (snd kv)) l -> P (JObj l).

  Fixpoint json_ind2 (j : json) : P j :=
    match j with
    | JNull => Hnull
    | JBool b => Hbool b
    | JI64 z => Hi64 z
    | JU64 n => Hu64 n
    | JF64 b => Hf64 b
    | JStr s => Hstr s
    | JArr l =>
        Harr l ((fix go (l : list json) : Forall P l :=
                   match l with
                   | [] => Forall_nil P
                   | x :: r => Forall_cons x (json_ind2 x) (go r)
                   end) l)
    | JObj l =>
        Hobj l ((fix go (l : list (bytes * json)) : Forall (fun kv => P (snd kv)) l :=
                   match l with
                   | [] => Forall_nil _
                   | kv :: r =>
                       Forall_cons kv
                         (match kv as kv0 return P (snd kv0) with (k, v) => json_ind2 v end) (go r)
                   end) l)
    end.
End JsonInd.

(* ================================================================ whitespace *)
Lemma ws_app : forall a b, ws a -> ws b -> ws (a ++ b).
Proof. induction 1; intro B; cbn [app]; auto. constructor; auto. Qed.

Lemma ws_spaces : forall k, ws (spaces k).
Proof. induction k; cbn [spaces]; constructor; auto. Qed.

Lemma ws_indent : forall d, ws (indent d).
Proof. intro d. apply ws_spaces. Qed.

Lemma ws_nl_indent : forall d, ws (10 :: indent d).
Proof. intro d. constructor; [reflexivity|apply ws_indent]. Qed.

(* the whitespace a formatter writes before an item / before the closing bracket *)
Definition lead (pretty : bool) (d : nat) : bytes := if pretty then 10 :: indent d else [].

Lemma ws_lead : forall pretty d, ws (lead pretty d).
Proof. intros [|] d; cbn [lead]; [apply ws_nl_indent|constructor]. Qed.

(* ================================================================ strings *)
Lemma hex_digit_ok : forall n, n < 16 -> is_hexdig (hex_digit n) = true.
Proof.
  intros n H. unfold hex_digit, is_hexdig. destruct (N.ltb_spec n 10).
  - replace ((48 <=? 48 + n) && (48 + n <=? 57)) with true; [reflexivity|].
    symmetry. apply andb_true_iff. split; apply N.leb_le; lia.
  - replace ((97 <=? 87 + n) && (87 + n <=? 102)) with true; [apply orb_true_r|].
    symmetry. apply andb_true_iff. split; apply N.leb_le; lia.
Qed.

Lemma jchars_escape : forall s, jchars (flat_map escape_byte s).
Proof.
  induction s as [|b s IH]; cbn [flat_map]; [constructor|].
  unfold escape_byte.
  destruct (N.eqb_spec b 34); [cbn [app]; apply jc_esc; auto|].
  destruct (N.eqb_spec b 92); [cbn [app]; apply jc_esc; auto|].
  destruct (N.eqb_spec b 8); [cbn [app]; apply jc_esc; auto|].
  destruct (N.eqb_spec b 9); [cbn [app]; apply jc_esc; auto|].
  destruct (N.eqb_spec b 10); [cbn [app]; apply jc_esc; auto|].
  destruct (N.eqb_spec b 12); [cbn [app]; apply jc_esc; auto|].
  destruct (N.eqb_spec b 13); [cbn [app]; apply jc_esc; auto|].
  destruct (N.ltb_spec b 32).
  - cbn [app]. apply jc_u; auto; apply hex_digit_ok.
    + apply N.div_lt_upper_bound; lia.
    + apply N.mod_lt. lia.
  - cbn [app]. apply jc_plain; auto.
Qed.

Lemma print_str_string : forall s, jstring (print_str s).
Proof. intro s. unfold print_str. constructor. apply jchars_escape. Qed.

(* ================================================================ numbers *)
Lemma canonical_jint : forall n ds, canonical n ds -> jint ds.
Proof.
  intros n ds (Hall & _ & [[Hlt ->] | [Hge (c & tl & -> & Hc & _)]]).
  - destruct (N.eq_dec n 0) as [->|NZ]; [apply ji_zero|].
    apply ji_nz; [lia|reflexivity].
  - unfold all_digits in Hall. cbn [forallb] in Hall. apply andb_prop in Hall as [Hd Ht].
    apply is_digit_range in Hd. apply ji_nz; [lia|exact Ht].
Qed.

Lemma jnumber_of_int : forall (neg : bool) i, jint i -> jnumber ((if neg then [45] else []) ++ i).
Proof.
  intros neg i H. pose proof (jn_intro neg i [] [] H jf_none jx_none) as J.
  rewrite !app_nil_r in J. exact J.
Qed.

Lemma print_u64_number : forall n, n < 10 ^ 40 -> jnumber (print_u64 n).
Proof.
  intros n H. unfold print_u64. apply (jnumber_of_int false). eapply canonical_jint. apply dec_N_canonical. exact H.
Qed.

Lemma print_i64_number : forall z, (Z.abs z < 10 ^ 40)%Z -> jnumber (print_i64 z).
Proof.
  intros z H. unfold print_i64.
  assert (B : Z.abs_N z < 10 ^ 40).
  { apply N2Z.inj_lt. rewrite N2Z.inj_abs_N. exact H. }
  pose proof (canonical_jint _ _ (dec_N_canonical _ B)) as J.
  destruct (z <? 0)%Z.
  - exact (jnumber_of_int true _ J).
  - exact (jnumber_of_int false _ J).
Qed.

(* ================================================================ the numbers of a tree are in range *)
Inductive nums_ok : json -> Prop :=
| no_null : nums_ok JNull
| no_bool : forall b, nums_ok (JBool b)
| no_i64 : forall z, (Z.abs z < 10 ^ 40)%Z -> nums_ok (JI64 z)
| no_u64 : forall n, n < 10 ^ 40 -> nums_ok (JU64 n)
| no_f64 : forall b, nums_ok (JF64 b)
| no_str : forall s, nums_ok (JStr s)
| no_arr : forall l, nums_list l -> nums_ok (JArr l)
| no_obj : forall l, nums_entries l -> nums_ok (JObj l)
with nums_list : list json -> Prop :=
| nl_nil : nums_list []
| nl_cons : forall x r, nums_ok x -> nums_list r -> nums_list (x :: r)
with nums_entries : list (bytes * json) -> Prop :=
| ne_nil : nums_entries []
| ne_cons : forall k v r, nums_ok v -> nums_entries r -> nums_entries ((k, v) :: r).

(* ================================================================ validity *)
Section Valid.
  Variable fmt_f64 : N -> bytes.
  (* the contract of the float printer: a JSON number for every finite float *)
  Hypothesis fmt_ok : forall b, f64_is_finite b = true -> jnumber (fmt_f64 b).

  Lemma print_f64_value : forall b, jvalue (print_f64 fmt_f64 b).
  Proof.
    intro b. unfold print_f64. destruct (f64_is_finite b) eqn:F.
    - apply jv_number. apply fmt_ok. exact F.
    - apply jv_null.
  Qed.

  (* items separated by commas, each with the formatter's leading whitespace, then the
     whitespace before the closing bracket *)
  Lemma join_elements : forall pretty d items x,
    jvalue x -> Forall jvalue items ->
    jelements (lead pretty (S d) ++ x ++ join_items pretty (S d) false items ++ lead pretty d).
  Proof.
    intros pretty d items. induction items as [|y r IH]; intros x X F.
    - cbn [join_items app]. apply jes_one. apply je_intro; auto using ws_lead.
    - inversion F; subst. cbn [join_items].
      replace (lead pretty (S d) ++ x ++
               ((if pretty then [44; 10] ++ indent (S d) else [44]) ++ y ++ join_items pretty (S d) false r) ++ lead pretty d)
        with ((lead pretty (S d) ++ x ++ []) ++ 44 :: (lead pretty (S d) ++ y ++ join_items pretty (S d) false r ++ lead pretty d)).
      + apply jes_cons; [apply je_intro; auto using ws_lead; constructor|]. apply IH; auto.
      + destruct pretty; cbn [lead app]; rewrite ?app_nil_r, <- ?app_assoc; cbn [app]; reflexivity.
  Qed.

  Lemma join_first : forall pretty d x items,
    join_items pretty d true (x :: items) = lead pretty d ++ x ++ join_items pretty d false items.
  Proof. intros [|] d x items; cbn [join_items lead app]; reflexivity. Qed.

  Lemma print_seq_array : forall pretty d items, Forall jvalue items ->
    jvalue (print_seq pretty d 91 93 items).
  Proof.
    intros pretty d items F. destruct items as [|x r].
    - cbn [print_seq]. apply (jv_arr_empty []). constructor.
    - inversion F; subst. unfold print_seq. rewrite join_first.
      replace ((lead pretty (S d) ++ x ++ join_items pretty (S d) false r) ++ (if pretty then 10 :: indent d else []) ++ [93])
        with ((lead pretty (S d) ++ x ++ join_items pretty (S d) false r ++ lead pretty d) ++ [93])
        by (unfold lead; rewrite <- !app_assoc; reflexivity).
      apply jv_arr. apply join_elements; auto.
  Qed.

  (* object members: "key": value *)
  Definition member_ok (pretty : bool) (m : bytes) : Prop :=
    exists k v, m = k ++ colon pretty ++ v /\ jstring k /\ jvalue v.

  Lemma member_intro : forall pretty d m tail, member_ok pretty m -> ws tail ->
    jmember (lead pretty d ++ m ++ tail).
  Proof.
    intros pretty d m tail (k & v & -> & K & V) T.
    replace (lead pretty d ++ (k ++ colon pretty ++ v) ++ tail)
      with (lead pretty d ++ k ++ [] ++ 58 :: ((if pretty then [32] else []) ++ v ++ tail)).
    - apply jm_intro; auto using ws_lead; [constructor|].
      apply je_intro; auto. destruct pretty; repeat constructor.
    - destruct pretty; cbn [colon app]; rewrite <- ?app_assoc; cbn [app]; reflexivity.
  Qed.

  Lemma join_members : forall pretty d items x,
    member_ok pretty x -> Forall (member_ok pretty) items ->
    jmembers (lead pretty (S d) ++ x ++ join_items pretty (S d) false items ++ lead pretty d).
  Proof.
    intros pretty d items. induction items as [|y r IH]; intros x X F.
    - cbn [join_items app]. apply jms_one. apply member_intro; auto using ws_lead.
    - inversion F; subst. cbn [join_items].
      replace (lead pretty (S d) ++ x ++
               ((if pretty then [44; 10] ++ indent (S d) else [44]) ++ y ++ join_items pretty (S d) false r) ++ lead pretty d)
        with ((lead pretty (S d) ++ x ++ []) ++ 44 :: (lead pretty (S d) ++ y ++ join_items pretty (S d) false r ++ lead pretty d)).
      + apply jms_cons; [apply member_intro; auto; constructor|]. apply IH; auto.
      + destruct pretty; cbn [lead app]; rewrite ?app_nil_r, <- ?app_assoc; cbn [app]; reflexivity.
  Qed.

  Lemma print_seq_object : forall pretty d items, Forall (member_ok pretty) items ->
    jvalue (print_seq pretty d 123 125 items).
  Proof.
    intros pretty d items F. destruct items as [|x r].
    - cbn [print_seq]. apply (jv_obj_empty []). constructor.
    - inversion F; subst. unfold print_seq. rewrite join_first.
      replace ((lead pretty (S d) ++ x ++ join_items pretty (S d) false r) ++ (if pretty then 10 :: indent d else []) ++ [125])
        with ((lead pretty (S d) ++ x ++ join_items pretty (S d) false r ++ lead pretty d) ++ [125])
        by (unfold lead; rewrite <- !app_assoc; reflexivity).
      apply jv_obj. apply join_members; auto.
  Qed.

  Theorem print_value : forall pretty j, nums_ok j -> forall d, jvalue (print fmt_f64 pretty d j).
  Proof.
    intros pretty j. induction j using json_ind2; intros NO d; cbn [print].
    - apply jv_null.
    - destruct b; [apply jv_true|apply jv_false].
    - inversion NO; subst. apply jv_number. apply print_i64_number. auto.
    - inversion NO; subst. apply jv_number. apply print_u64_number. auto.
    - apply print_f64_value.
    - apply jv_string. apply print_str_string.
    - inversion NO; subst. apply print_seq_array.
      clear NO. induction H; cbn [map]; [constructor|].
      inversion H1; subst. constructor; auto.
    - inversion NO; subst. apply print_seq_object.
      clear NO. induction H; cbn [map]; [constructor|].
      inversion H1; subst. cbn [snd] in H. constructor; auto.
      exists (print_str k), (print fmt_f64 pretty (S d) v). split; auto. split; auto using print_str_string.
  Qed.

  Theorem json_text_valid : forall pretty j, nums_ok j -> json_grammar (json_text fmt_f64 pretty j).
  Proof.
    intros pretty j NO. unfold json_grammar, json_text.
    pose proof (je_intro [] _ [] ws_nil (print_value pretty j NO 0) ws_nil) as J.
    cbn [app] in J. rewrite app_nil_r in J. exact J.
  Qed.
End Valid.

(* ================================================================ whitespace only *)
Lemma ws_weave_app : forall ts1 a, ws_weave ts1 a -> forall ts2 b, ws_weave ts2 b ->
  ws_weave (ts1 ++ ts2) (a ++ b).
Proof.
  induction 1; intros ts2 b B.
  - cbn [app]. inversion B; subst.
    + constructor. apply ws_app; auto.
    + rewrite app_assoc. constructor; auto. apply ws_app; auto.
  - cbn [app]. rewrite <- !app_assoc. constructor; auto.
Qed.

Lemma ws_weave_single : forall t, ws_weave [t] t.
Proof.
  intro t. pose proof (ww_cons [] t [] [] ws_nil (ww_nil [] ws_nil)) as W.
  cbn [app] in W. rewrite app_nil_r in W. exact W.
Qed.

Lemma ws_weave_tok_ws : forall t w, ws w -> ws_weave [t] (t ++ w).
Proof.
  intros t w W. pose proof (ww_cons [] t [] w ws_nil (ww_nil w W)) as X. cbn [app] in X. exact X.
Qed.

Lemma ws_weave_ws_tok : forall t w, ws w -> ws_weave [t] (w ++ t).
Proof.
  intros t w W. pose proof (ww_cons w t [] [] W (ww_nil [] ws_nil)) as X.
  rewrite app_nil_r in X. exact X.
Qed.

Lemma Forall2_map : forall {A B C} (R : B -> C -> Prop) (f : A -> B) (g : A -> C) l,
  Forall (fun x => R (f x) (g x)) l -> Forall2 R (map f l) (map g l).
Proof. induction 1; cbn [map]; constructor; auto. Qed.

Section Weave.
  Variable fmt_f64 : N -> bytes.

  Lemma join_weave : forall pretty d items toks,
    Forall2 (fun it tk => ws_weave tk it) items toks ->
    forall first, ws_weave (sep_tokens first toks) (join_items pretty d first items).
  Proof.
    intros pretty d items toks F. induction F; intro first; cbn [sep_tokens join_items]; [repeat constructor|].
    apply ws_weave_app; [|apply ws_weave_app; auto].
    destruct pretty, first; cbn [app].
    - constructor. apply ws_nl_indent.
    - apply (ws_weave_tok_ws [44] (10 :: indent d)). apply ws_nl_indent.
    - repeat constructor.
    - apply ws_weave_single.
  Qed.

  Lemma seq_weave : forall pretty d open close items toks,
    Forall2 (fun it tk => ws_weave tk it) items toks ->
    ws_weave ([[open]] ++ sep_tokens true toks ++ [[close]]) (print_seq pretty d open close items).
  Proof.
    intros pretty d open close items toks F. unfold print_seq. destruct F.
    - cbn [sep_tokens app]. apply (ws_weave_app [[open]] [open] (ws_weave_single _) [[close]] [close] (ws_weave_single _)).
    - change (open :: join_items pretty (S d) true (x :: l) ++ (if pretty then 10 :: indent d else []) ++ [close])
        with ([open] ++ join_items pretty (S d) true (x :: l) ++ (lead pretty d ++ [close])).
      apply ws_weave_app; [apply ws_weave_single|].
      apply ws_weave_app; [apply join_weave; constructor; auto|].
      apply ws_weave_ws_tok. apply ws_lead.
  Qed.

  Theorem print_weave : forall pretty j d, ws_weave (jtokens fmt_f64 j) (print fmt_f64 pretty d j).
  Proof.
    intros pretty j. induction j using json_ind2; intro d; cbn [jtokens print].
    - apply ws_weave_single.
    - destruct b; apply ws_weave_single.
    - apply ws_weave_single.
    - apply ws_weave_single.
    - apply ws_weave_single.
    - apply ws_weave_single.
    - apply seq_weave. apply Forall2_map. eapply Forall_impl; [|exact H]. cbn. auto.
    - apply seq_weave. apply Forall2_map. eapply Forall_impl; [|exact H].
      intros [k v] IH. cbn [snd] in IH.
      apply (ws_weave_app [print_str k] _ (ws_weave_single _)).
      apply (ws_weave_app [[58]] (colon pretty)); [|apply IH].
      destruct pretty; cbn [colon]; [apply (ws_weave_tok_ws [58] [32]); repeat constructor|apply ws_weave_single].
  Qed.

  (* the minified text is exactly the tokens, nothing in between *)
  Lemma join_concat : forall d items toks,
    Forall2 (fun it tk => it = concat tk) items toks ->
    forall first, join_items false d first items = concat (sep_tokens first toks).
  Proof.
    intros d items toks F. induction F; intro first; cbn [sep_tokens join_items]; [reflexivity|].
    rewrite !concat_app, IHF, H. destruct first; reflexivity.
  Qed.

  Lemma seq_concat : forall d open close items toks,
    Forall2 (fun it tk => it = concat tk) items toks ->
    print_seq false d open close items = concat ([[open]] ++ sep_tokens true toks ++ [[close]]).
  Proof.
    intros d open close items toks F. unfold print_seq. destruct F.
    - reflexivity.
    - rewrite (join_concat (S d) (x :: l) (y :: l') (Forall2_cons _ _ H F) true).
      rewrite !concat_app. cbn [concat app]. rewrite ?app_nil_r. reflexivity.
  Qed.

  Theorem print_compact_tokens : forall j d, print fmt_f64 false d j = concat (jtokens fmt_f64 j).
  Proof.
    intros j. induction j using json_ind2; intro d; cbn [jtokens print];
      try (cbn [concat app]; rewrite ?app_nil_r; reflexivity).
    - apply seq_concat. apply Forall2_map. eapply Forall_impl; [|exact H]. cbn. auto.
    - apply seq_concat. apply Forall2_map. eapply Forall_impl; [|exact H].
      intros [k v] IH. cbn [snd] in IH. cbn [colon concat app]. rewrite IH. reflexivity.
  Qed.
End Weave.

(* ================================================================ UTF-8 *)
(* [u8 s]: prepending [s] does not change whether a byte string is well-formed UTF-8 *)
Definition u8 (s : bytes) : Prop := forall r, valid_utf8 (s ++ r) = valid_utf8 r.
Definition ascii (s : bytes) : Prop := forallb (fun b => b <? 128) s = true.

Lemma u8_nil : u8 [].
Proof. intro r. reflexivity. Qed.

Lemma u8_app : forall a b, u8 a -> u8 b -> u8 (a ++ b).
Proof. intros a b A B r. rewrite <- app_assoc, A, B. reflexivity. Qed.

Lemma u8_ascii : forall a, ascii a -> u8 a.
Proof.
  unfold ascii. induction a as [|b a IH]; intros H r; [reflexivity|].
  cbn [forallb] in H. apply andb_prop in H as [H1 H2]. cbn [app].
  rewrite valid_ascii by exact H1. apply IH. exact H2.
Qed.

Lemma u8_valid_result : forall s, u8 s -> valid_utf8 s = true.
Proof. intros s H. rewrite <- (app_nil_r s), H. reflexivity. Qed.

Lemma is_cont_high : forall c, is_cont c = true -> 128 <= c.
Proof.
  intros c H. unfold is_cont in H. apply N.eqb_eq in H.
  destruct (N.lt_ge_cases c 128) as [L|G]; auto. exfalso.
  assert (T : N.testbit (N.land c 192) 7 = true) by (rewrite H; reflexivity).
  rewrite N.land_spec in T. apply andb_prop in T as [T _].
  destruct (N.eq_dec c 0) as [->|NZ]; [rewrite N.bits_0 in T; discriminate|].
  rewrite N.bits_above_log2 in T; [discriminate|].
  apply N.log2_lt_pow2; [lia|exact L].
Qed.

Lemma second3_high : forall b c, second3 b c = true -> 128 <= c.
Proof.
  intros b c H. unfold second3 in H.
  repeat (apply orb_prop in H; destruct H as [H|H]);
    apply andb_prop in H as [_ H]; apply in_range_iff in H; lia.
Qed.

Lemma second4_high : forall b c, second4 b c = true -> 128 <= c.
Proof.
  intros b c H. unfold second4 in H.
  repeat (apply orb_prop in H; destruct H as [H|H]);
    apply andb_prop in H as [_ H]; apply in_range_iff in H; lia.
Qed.

Lemma escape_high : forall b, 128 <= b -> escape_byte b = [b].
Proof.
  intros b H. unfold escape_byte.
  repeat match goal with |- context [N.eqb b ?k] => destruct (N.eqb_spec b k); [lia|] end.
  destruct (N.ltb_spec b 32); [lia|reflexivity].
Qed.

Lemma hex_digit_ascii : forall n, n < 16 -> hex_digit n <? 128 = true.
Proof. intros n H. unfold hex_digit. apply N.ltb_lt. destruct (n <? 10); lia. Qed.

Lemma escape_low_ascii : forall b, b < 128 -> ascii (escape_byte b).
Proof.
  intros b H. unfold escape_byte, ascii.
  repeat match goal with |- context [N.eqb b ?k] => destruct (N.eqb_spec b k); [reflexivity|] end.
  destruct (N.ltb_spec b 32).
  - cbn [forallb]. rewrite !hex_digit_ascii; [reflexivity| |].
    + apply N.mod_lt. lia.
    + apply N.div_lt_upper_bound; lia.
  - cbn [forallb]. replace (b <? 128) with true by (symmetry; apply N.ltb_lt; exact H). reflexivity.
Qed.

(* escaping keeps well-formed UTF-8 well formed: it only replaces ASCII bytes by ASCII bytes *)
Lemma escape_valid_aux : forall n s, (length s <= n)%nat -> valid_utf8 s = true ->
  u8 (flat_map escape_byte s).
Proof.
  induction n as [|n IH]; intros s L V.
  - destruct s; [apply u8_nil|cbn in L; lia].
  - destruct s as [|b s]; [apply u8_nil|]. cbn [length] in L. cbn [flat_map].
    destruct (b <? 128) eqn:A.
    + rewrite valid_ascii in V by exact A. apply u8_app.
      * apply u8_ascii. apply escape_low_ascii. apply N.ltb_lt. exact A.
      * apply IH; [lia|exact V].
    + assert (HB : 128 <= b) by (apply N.ltb_ge; exact A).
      rewrite (escape_high b HB).
      destruct (utf8_char_width b =? 2) eqn:W2; [|destruct (utf8_char_width b =? 3) eqn:W3; [|destruct (utf8_char_width b =? 4) eqn:W4]].
      * destruct s as [|c1 s]; [rewrite valid_short2 in V by assumption; discriminate|].
        rewrite valid_2 in V by assumption. apply andb_prop in V as [C1 V].
        cbn [flat_map]. rewrite (escape_high c1 (is_cont_high _ C1)).
        intro r. cbn [app]. rewrite valid_2 by assumption. rewrite C1. cbn [andb].
        apply (IH s); [cbn [length] in L; lia|exact V].
      * destruct s as [|c1 [|c2 s]]; try (rewrite valid_short3 in V by (auto; cbn; lia); discriminate).
        rewrite valid_3 in V by assumption. apply andb_prop in V as [V0 V]. apply andb_prop in V0 as [C1 C2].
        cbn [flat_map]. rewrite (escape_high c1 (second3_high _ _ C1)), (escape_high c2 (is_cont_high _ C2)).
        intro r. cbn [app]. rewrite valid_3 by assumption. rewrite C1, C2. cbn [andb].
        apply (IH s); [cbn [length] in L; lia|exact V].
      * destruct s as [|c1 [|c2 [|c3 s]]]; try (rewrite valid_short4 in V by (auto; cbn; lia); discriminate).
        rewrite valid_4 in V by assumption. apply andb_prop in V as [V0 V]. apply andb_prop in V0 as [V0 C3].
        apply andb_prop in V0 as [C1 C2].
        cbn [flat_map].
        rewrite (escape_high c1 (second4_high _ _ C1)), (escape_high c2 (is_cont_high _ C2)), (escape_high c3 (is_cont_high _ C3)).
        intro r. cbn [app]. rewrite valid_4 by assumption. rewrite C1, C2, C3. cbn [andb].
        apply (IH s); [cbn [length] in L; lia|exact V].
      * rewrite valid_width0 in V by assumption. discriminate.
Qed.

Lemma escape_valid : forall s, valid_utf8 s = true -> u8 (flat_map escape_byte s).
Proof. intros s V. apply (escape_valid_aux (length s)); auto. Qed.

Lemma print_str_u8 : forall s, valid_utf8 s = true -> u8 (print_str s).
Proof.
  intros s V. unfold print_str. change (34 :: flat_map escape_byte s ++ [34]) with ([34] ++ flat_map escape_byte s ++ [34]).
  apply u8_app; [apply u8_ascii; reflexivity|]. apply u8_app; [apply escape_valid; exact V|apply u8_ascii; reflexivity].
Qed.

Lemma digits_fuel_ascii : forall f n acc, ascii acc -> ascii (digits_fuel f n acc).
Proof.
  induction f as [|f IH]; intros n acc A; cbn [digits_fuel]; auto.
  assert (A' : ascii ((48 + n mod 10) :: acc)).
  { unfold ascii in *. cbn [forallb]. rewrite A.
    replace (48 + n mod 10 <? 128) with true; [reflexivity|].
    symmetry. apply N.ltb_lt. pose proof (N.mod_lt n 10). lia. }
  destruct (n <? 10); auto.
Qed.

Lemma dec_N_ascii : forall n, ascii (dec_N n).
Proof. intro n. apply digits_fuel_ascii. reflexivity. Qed.

Lemma spaces_ascii : forall k, ascii (spaces k).
Proof. induction k; cbn [spaces]; [reflexivity|]. unfold ascii in *. cbn [forallb]. exact IHk. Qed.

(* every string and key of a tree is well-formed UTF-8 *)
Inductive strs_ok : json -> Prop :=
| so_null : strs_ok JNull
| so_bool : forall b, strs_ok (JBool b)
| so_i64 : forall z, strs_ok (JI64 z)
| so_u64 : forall n, strs_ok (JU64 n)
| so_f64 : forall b, strs_ok (JF64 b)
| so_str : forall s, valid_utf8 s = true -> strs_ok (JStr s)
| so_arr : forall l, strs_list l -> strs_ok (JArr l)
| so_obj : forall l, strs_entries l -> strs_ok (JObj l)
with strs_list : list json -> Prop :=
| sl_nil : strs_list []
| sl_cons : forall x r, strs_ok x -> strs_list r -> strs_list (x :: r)
with strs_entries : list (bytes * json) -> Prop :=
| se_nil : strs_entries []
| se_cons : forall k v r, valid_utf8 k = true -> strs_ok v -> strs_entries r -> strs_entries ((k, v) :: r).

Section Utf8Text.
  Variable fmt_f64 : N -> bytes.
  Hypothesis fmt_ascii : forall b, ascii (fmt_f64 b).

  Lemma join_u8 : forall pretty d items, Forall u8 items -> forall first, u8 (join_items pretty d first items).
  Proof.
    intros pretty d items F. induction F; intro first; cbn [join_items]; [apply u8_nil|].
    apply u8_app; [|apply u8_app; auto].
    apply u8_ascii. destruct pretty, first; cbn [app]; try reflexivity; apply spaces_ascii.
  Qed.

  Lemma seq_u8 : forall pretty d open close items, open < 128 -> close < 128 -> Forall u8 items ->
    u8 (print_seq pretty d open close items).
  Proof.
    intros pretty d open close items O C F. unfold print_seq.
    assert (AO : ascii [open]) by (unfold ascii; cbn [forallb]; replace (open <? 128) with true by (symmetry; apply N.ltb_lt; auto); reflexivity).
    assert (AC : ascii [close]) by (unfold ascii; cbn [forallb]; replace (close <? 128) with true by (symmetry; apply N.ltb_lt; auto); reflexivity).
    destruct items as [|x r].
    - apply (u8_app [open] [close]); apply u8_ascii; auto.
    - change (open :: join_items pretty (S d) true (x :: r) ++ (if pretty then 10 :: indent d else []) ++ [close])
        with ([open] ++ join_items pretty (S d) true (x :: r) ++ (if pretty then 10 :: indent d else []) ++ [close]).
      apply u8_app; [apply u8_ascii; auto|]. apply u8_app; [apply join_u8; auto|].
      apply u8_app; [|apply u8_ascii; auto].
      apply u8_ascii. destruct pretty; [|reflexivity]. apply spaces_ascii.
  Qed.

  Theorem print_u8 : forall pretty j, strs_ok j -> forall d, u8 (print fmt_f64 pretty d j).
  Proof.
    intros pretty j. induction j using json_ind2; intros SO d; cbn [print].
    - apply u8_ascii. reflexivity.
    - destruct b; apply u8_ascii; reflexivity.
    - apply u8_ascii. unfold print_i64. destruct (z <? 0)%Z; [|apply dec_N_ascii].
      unfold ascii. cbn [forallb]. apply dec_N_ascii.
    - apply u8_ascii. apply dec_N_ascii.
    - apply u8_ascii. unfold print_f64. destruct (f64_is_finite b); [apply fmt_ascii|reflexivity].
    - inversion SO; subst. apply print_str_u8. auto.
    - inversion SO; subst. apply seq_u8; try lia.
      clear SO. induction H; cbn [map]; [constructor|]. inversion H1; subst. constructor; auto.
    - inversion SO; subst. apply seq_u8; try lia.
      clear SO. induction H; cbn [map]; [constructor|]. inversion H1; subst. cbn [snd] in H. constructor; auto.
      apply u8_app; [apply print_str_u8; auto|]. apply u8_app; [|auto].
      apply u8_ascii. destruct pretty; reflexivity.
  Qed.

  Theorem json_text_utf8 : forall pretty j, strs_ok j -> valid_utf8 (json_text fmt_f64 pretty j) = true.
  Proof. intros pretty j SO. apply u8_valid_result. apply print_u8. exact SO. Qed.
End Utf8Text.
