(* The loop invariant of BinaryTapeParser::parse (DESIGN A.2 J1-J4 + the open chain) and its
   preservation by one iteration of the reference interpretation, plus by the "I64 id taken as a
   plain token" step that the unrepaired optimised parser performs (finding B). *)
From JV Require Import Bytes Tables BinPrim BinTape BinTapeWf.
From JV.proofs Require Import BinTapeWfProofs.
Require Import Lia.
Open Scope nat_scope.

(* ------------------------------------------------------------------ next_state is total (J4) *)
Definition next_tbl (s : pstate) : pstate :=
  match s with
  | ArrayValue => ArrayValue | ArrayValueMixed => ArrayValueMixed | ObjectValue => Key
  | Key => KeyValueSeparator | KeyValueSeparator => ObjectToArray | ObjectToArray => OpenFirst
  | OpenFirst => OpenSecond | OpenSecond => ArrayValue
  end.

Lemma next_state_ok : forall s, next_state s = Ok (next_tbl s).
Proof. destruct s; vm_compute; reflexivity. Qed.

Lemma ps_of_disc_disc : forall s, ps_of_disc (ps_disc s) = Some s.
Proof. destruct s; vm_compute; reflexivity. Qed.

(* ------------------------------------------------------------------ the invariant *)
Definition is_obj_or_top (par : nat) (t : tape) : Prop := par = 0 \/ exists e, nth_error t par = Some (TObject e).
Definition par_is_array (par : nat) (t : tape) : Prop := exists g, nth_error t par = Some (TArray g).

Definition st_ok (ps : pstate) (par : nat) (t : tape) : Prop :=
  match ps with
  | Key => is_obj_or_top par t
  | KeyValueSeparator =>
      is_obj_or_top par t /\ exists t0 x, t = t0 ++ [x] /\ is_scalar x = true /\ inner_start par <= length t0
  | ObjectValue => is_obj_or_top par t /\ t <> []
  | ObjectToArray =>
      exists t0 x y, t = t0 ++ [x; y] /\ is_scalar x = true /\ is_scalar y = true /\ inner_start par <= length t0
  | ArrayValue | OpenFirst | OpenSecond => par_is_array par t
  | ArrayValueMixed => t <> []
  end.

Definition Inv (s : st) : Prop := open_inv (s_par s) (s_tape s) /\ st_ok (s_ps s) (s_par s) (s_tape s).

Lemma Inv_init : forall d, Inv (init d).
Proof. intro. split; cbn. apply OI_top. constructor. intros c H; discriminate. now left. Qed.

Lemma firstn_S_here : forall (pre : tape) c r, firstn (S (length pre)) (pre ++ c :: r) = pre ++ [c].
Proof.
  intros. rewrite firstn_app, (firstn_all2 pre) by lia.
  replace (S (length pre) - length pre) with 1 by lia. reflexivity.
Qed.

Local Opaque firstn.

Lemma push_ne : forall (t : tape) x, push t x <> [].
Proof. intros t x. unfold push. destruct t; discriminate. Qed.

Lemma is_obj_or_top_push : forall par t x, is_obj_or_top par t -> is_obj_or_top par (push t x).
Proof.
  intros par t x [->|[e H]]; [now left|right]. exists e. rewrite nth_error_push_lt; auto.
  apply nth_error_Some. congruence.
Qed.

Lemma par_is_array_push : forall par t x, par_is_array par t -> par_is_array par (push t x).
Proof.
  intros par t x [g H]. exists g. rewrite nth_error_push_lt; auto. apply nth_error_Some. congruence.
Qed.

Lemma inner_start_le_nonempty : forall par t, open_inv par t -> t <> [] \/ par = 0 -> inner_start par <= length t.
Proof.
  intros par t H Hne. destruct (Nat.eq_dec par 0) as [->|Hp]; [cbn; lia|].
  destruct (open_inv_pos _ _ H Hp) as (pre & g & c & inner & -> & -> & _).
  destruct (length pre) eqn:E; [congruence|]. cbn. rewrite app_length. cbn. lia.
Qed.

Lemma read_scalar_is_scalar : forall k d v r, read_scalar k d = Ok (v, r) -> is_scalar v = true.
Proof.
  intros k d v r H. destruct k; cbn in H; unfold omap, obind in H;
  match type of H with context [match ?x with _ => _ end] => destruct x as [[? ?]| | | |]; inversion H; subst; reflexivity end.
Qed.

(* push a scalar, advance the state: every scalar arm, the token arm, and the I64-as-token step *)
Lemma push_next_ok : forall ps par t v,
  open_inv par t -> st_ok ps par t -> ps <> ObjectToArray -> is_scalar v = true ->
  open_inv par (push t v) /\ st_ok (next_tbl ps) par (push t v).
Proof.
  intros ps par t v Ho Hs Hne Hv. split; [now apply open_inv_push|].
  destruct ps; cbn in *; try congruence.
  - now apply par_is_array_push.
  - apply push_ne.
  - destruct Hs. now apply is_obj_or_top_push.
  - split; [now apply is_obj_or_top_push|]. exists t, v. repeat split; auto.
    destruct Hs as [->|[e He]]; [cbn; lia|]. apply inner_start_le_nonempty; auto.
    left. intro; subst. destruct par; discriminate.
  - destruct Hs as [_ (t0 & x & -> & Hx & Hl)]. exists t0, x, v. unfold push. rewrite <- app_assoc. auto.
  - now apply par_is_array_push.
  - now apply par_is_array_push.
Qed.

(* ------------------------------------------------------------------ tape operations *)
Lemma push_end_inv : forall par t ps' g t',
  open_inv par t -> push_end par t = Ok (ps', g, t') -> open_inv g t' /\ st_ok ps' g t'.
Proof.
  intros par t ps' g t' Ho H. unfold push_end in H.
  destruct (nth_error t par) as [c|] eqn:En; [|discriminate].
  assert (K : forall c' g0, container_end c = Some g0 -> container_end c' = Some (length t) ->
              push_end_fin c' g0 par t = Ok (ps', g, t') -> open_inv g t' /\ st_ok ps' g t').
  { intros c' g0 Hc Hc' Hf. unfold push_end_fin in Hf.
    pose proof (open_inv_close _ _ _ _ _ Ho En Hc Hc') as Hcl.
    fold (push (upd t par c') (TEnd par)) in Hcl.
    destruct (nth_error (push (upd t par c') (TEnd par)) g0) as [x|] eqn:Eg; [|discriminate].
    assert (Hkey : Ok (Key, g0, push (upd t par c') (TEnd par)) = Ok (ps', g, t') ->
                   (forall e, x <> TArray e) -> open_inv g t' /\ st_ok ps' g t').
    { intros Hi Hx. inversion Hi; subst. split; auto. cbn.
      destruct (Nat.eq_dec g 0) as [->|Hg]; [now left|right].
      destruct (open_inv_parent _ _ Hcl Hg) as (c1 & g1 & Hn1 & Hc1). rewrite Eg in Hn1. inversion Hn1; subst c1.
      destruct x; cbn in Hc1; try discriminate; eauto; exfalso; eapply Hx; eauto. }
    destruct x; try (apply Hkey; [exact Hf | intros; discriminate]).
    inversion Hf; subst. split; auto. cbn. eexists; eauto. }
  destruct c; try discriminate; eapply K; eauto; reflexivity.
Qed.

Lemma set_parent_inv : forall par t t', open_inv par t -> set_parent_to_object par t = Ok t' ->
  open_inv par t' /\ (exists e, nth_error t' par = Some (TObject e)) /\ length t' = length t.
Proof.
  intros par t t' Ho H. unfold set_parent_to_object in H.
  destruct (nth_error t par) as [c|] eqn:En; [|discriminate].
  destruct c; try discriminate. inversion H; subst. split; [now apply open_inv_set_obj|]. split.
  - exists e. assert (par <> 0) by (eapply open_inv_parent_not_zero; eauto; reflexivity).
    destruct (open_inv_pos _ _ Ho H0) as (pre & g & c & inner & -> & -> & _).
    rewrite upd_app_here. apply nth_error_here.
  - apply upd_length.
Qed.

Lemma mixed_insert1_inv : forall par t t',
  open_inv par t -> (exists t0 x, t = t0 ++ [x] /\ is_scalar x = true /\ inner_start par <= length t0) ->
  mixed_insert1 t = Ok t' -> open_inv par t'.
Proof.
  intros par t t' Ho (t0 & x & -> & Hx & Hl) H. unfold mixed_insert1 in H. rewrite pop_snoc in H.
  inversion H; subst. unfold push. apply open_inv_push; auto. apply open_inv_push; auto.
  eapply open_inv_pop; eauto.
Qed.

Lemma mixed_insert2_inv : forall par t t',
  open_inv par t ->
  (exists t0 x y, t = t0 ++ [x; y] /\ is_scalar x = true /\ is_scalar y = true /\ inner_start par <= length t0) ->
  mixed_insert2 t = Ok t' -> open_inv par t' /\ t' <> [].
Proof.
  intros par t t' Ho (t0 & x & y & -> & Hx & Hy & Hl) H. unfold mixed_insert2 in H.
  change (t0 ++ [x; y]) with (t0 ++ [x] ++ [y]) in *. rewrite app_assoc in *.
  rewrite pop_snoc in H. rewrite pop_snoc in H. inversion H; subst. split; [|apply push_ne].
  unfold push. repeat apply open_inv_push; auto.
  apply (open_inv_pop par t0 x); auto. apply (open_inv_pop par (t0 ++ [x]) y); auto. rewrite app_length; cbn; lia.
Qed.

(* ------------------------------------------------------------------ one reference iteration *)
Lemma scalar_arm_inv : forall k d ps par t s',
  open_inv par t -> st_ok ps par t -> ps <> ObjectToArray ->
  scalar_arm k d ps par t = Ok s' -> Inv s'.
Proof.
  intros k d ps par t s' Ho Hs Hne H. unfold scalar_arm in H.
  destruct (read_scalar k d) as [[v r]| | | |] eqn:Er; try discriminate. cbn in H.
  rewrite next_state_ok in H. cbn in H. inversion H; subst.
  apply read_scalar_is_scalar in Er. unfold Inv; cbn. now apply push_next_ok.
Qed.

Lemma token_arm_inv : forall d ps par t id s',
  open_inv par t -> st_ok ps par t -> ps <> ObjectToArray ->
  (do ps' <- next_state ps; Ok (mkst d ps' par (push t (TToken id)))) = Ok s' -> Inv s'.
Proof.
  intros d ps par t id s' Ho Hs Hne H. rewrite next_state_ok in H. cbn in H. inversion H; subst.
  unfold Inv; cbn. now apply push_next_ok.
Qed.

Lemma st_ok_nonempty : forall ps par t, st_ok ps par t -> ps <> Key -> t <> [].
Proof.
  intros ps par t H Hk. destruct ps; cbn in H; try congruence.
  - destruct H as [g H]. intro; subst. destruct par; discriminate.
  - tauto.
  - destruct H as [_ (t0 & x & -> & _)]. destruct t0; discriminate.
  - destruct H as (t0 & x & y & -> & _). destruct t0; discriminate.
  - destruct H as [g H]. intro; subst. destruct par; discriminate.
  - destruct H as [g H]. intro; subst. destruct par; discriminate.
Qed.

Lemma slow_ref_inv : forall d id ps par t s',
  open_inv par t -> st_ok ps par t -> slow false d id ps par t = Ok s' -> Inv s'.
Proof.
  intros d id ps0 par t0 s' Ho0 Hs0 H. unfold slow in H.
  (* the ObjectToArray rewrite *)
  assert (exists ps t, (match ps0 with
                        | ObjectToArray => do t' <- mixed_insert2 t0; Ok (ArrayValueMixed, t')
                        | _ => Ok (ps0, t0) end) = Ok (ps, t) /\ open_inv par t /\ st_ok ps par t /\ ps <> ObjectToArray)
    as (ps & t & E & Ho & Hs & Hne).
  { destruct ps0; try (eexists _, t0; split; [reflexivity|]; split; [assumption|]; split; [assumption|discriminate]).
    cbn in Hs0. destruct (mixed_insert2 t0) as [t1| | | |] eqn:Em; try discriminate.
    destruct (mixed_insert2_inv _ _ _ Ho0 Hs0 Em). exists ArrayValueMixed, t1. repeat split; auto. discriminate. }
  rewrite E in H. cbn [obind] in H. clear E Ho0 Hs0.
  destruct (classify id) eqn:Ec;
    try (eapply scalar_arm_inv; eauto; fail);
    try (eapply token_arm_inv; eauto; fail).
  - (* I32 *) destruct (scalar_arm KI32 d ps par t) as [s1| | | |] eqn:Es; try discriminate. cbn in H.
    inversion H; subst. eapply scalar_arm_inv; eauto.
  - (* Open *)
    destruct (is_key ps) eqn:Ek; cbn [negb] in H.
    + destruct t as [|a t']; [discriminate|].
      destruct (read_id d) as [[id2 nd]| | | |]; try discriminate. cbn in H.
      destruct (N.eqb id2 L_CLOSE); inversion H; subst. split; auto.
    + inversion H; subst. unfold Inv; cbn.
      assert (t <> []) by (eapply st_ok_nonempty; eauto; intro; subst; discriminate).
      split. now apply open_inv_open. assert (par_is_array (length t) (push t (TArray par))) by (exists par; apply nth_error_push_here).
      exact H1.
  - (* Close *)
    assert (exists t1, (match ps with KeyValueSeparator => mixed_insert1 t | ObjectValue => Err E_Syntax | _ => Ok t end) = Ok t1
                       /\ open_inv par t1) as (t1 & E1 & Ho1).
    { destruct ps; try (exists t; split; auto; fail).
      - destruct (Err E_Syntax) eqn:Q; discriminate || (cbn in H; discriminate).
      - cbn in Hs. destruct Hs as [_ Hs]. destruct (mixed_insert1 t) as [t1| | | |] eqn:Em; try discriminate.
        exists t1. split; auto. eapply mixed_insert1_inv; eauto. }
    rewrite E1 in H. cbn [obind] in H.
    destruct (push_end par t1) as [[[ps' g] t']| | | |] eqn:Ep; try discriminate. cbn in H.
    inversion H; subst. unfold Inv; cbn. eapply push_end_inv; eauto.
  - (* Equal *)
    destruct ps; try discriminate.
    + (* ArrayValue *)
      destruct (pop t) as [[t1 last]|] eqn:Ep; [|discriminate]. apply pop_some in Ep. subst t.
      destruct (is_array_or_end last) eqn:Ea; [discriminate|].
      cbn in Hs. destruct Hs as [g Hg].
      destruct (open_inv_last_in_array _ _ _ _ Ho Hg Ea) as [Hl Hlen].
      assert (Ho1 : open_inv par t1).
      { eapply open_inv_pop; eauto. destruct par; cbn; lia. }
      assert (Hg1 : nth_error t1 par = Some (TArray g)) by (rewrite nth_error_app1 in Hg by lia; exact Hg).
      destruct (only_empties par t1).
      * unfold set_parent_to_object in H. rewrite Hg1 in H. cbn [obind] in H. inversion H; subst; clear H.
        unfold Inv; cbn [s_par s_tape s_ps st_ok]. split; [unfold push; now apply open_inv_truncate|].
        split; [|apply push_ne]. right. exists g.
        assert (Hp0 : par <> 0) by (eapply open_inv_parent_not_zero; eauto; reflexivity).
        destruct (open_inv_pos _ _ Ho1 Hp0) as (pre & g0 & c & inner & -> & -> & _).
        rewrite upd_app_here, firstn_S_here. unfold push. rewrite <- app_assoc. apply nth_error_here.
      * inversion H; subst. unfold Inv; cbn. split; [|apply push_ne].
        unfold push. repeat apply open_inv_push; auto.
    + (* ArrayValueMixed *) inversion H; subst. unfold Inv; cbn. split; [|apply push_ne]. unfold push. now apply open_inv_push.
    + (* KeyValueSeparator *) inversion H; subst. unfold Inv; cbn. split; auto. destruct Hs as [A (tt0 & x & -> & _)].
      split; auto. destruct tt0; discriminate.
    + (* OpenSecond *) destruct (set_parent_to_object par t) as [t1| | | |] eqn:Es; try discriminate. cbn in H.
      inversion H; subst. destruct (set_parent_inv _ _ _ Ho Es) as (A & B & C). unfold Inv; cbn. split; auto. split; [now right|].
      intro; subst. destruct B as [e B]. destruct par; discriminate.
  - (* Rgb *)
    destruct ps; try (eapply token_arm_inv; eauto; fail).
    destruct (read_scalar KRgb d) as [[v r]| | | |] eqn:Er; try discriminate. cbn in H. inversion H; subst.
    apply read_scalar_is_scalar in Er. unfold Inv; cbn. destruct Hs as [A B].
    split. unfold push. now apply open_inv_push. now apply is_obj_or_top_push.
Qed.

Lemma iter_ref_unfold : forall s h d, get_split 2 (s_data s) = Some (h, d) ->
  iter false false s = match slow false d (le_word 2 h) (s_ps s) (s_par s) (s_tape s) with
                       | Ok s' => Continue s' | o => stop o end.
Proof. intros s h d E. unfold iter. rewrite E. reflexivity. Qed.

Lemma iter_ref_inv : forall s s', Inv s -> iter false false s = Continue s' -> Inv s'.
Proof.
  intros s s' [Ho Hs] H. destruct (get_split 2 (s_data s)) as [[h d]|] eqn:Eg.
  - rewrite (iter_ref_unfold _ _ _ Eg) in H.
    destruct (slow false d (le_word 2 h) (s_ps s) (s_par s) (s_tape s)) as [s1| | | |] eqn:E; try discriminate.
    inversion H; subst. eapply slow_ref_inv; eauto.
  - unfold iter in H. rewrite Eg in H. discriminate.
Qed.

Lemma finish_wf : forall s t, Inv s -> finish s = Ok t -> tape_wf t.
Proof.
  intros s t [Ho _] H. unfold finish in H. destruct (s_par s) eqn:Ep; [|discriminate].
  destruct (s_ps s); try discriminate. inversion H; subst. apply open_inv_zero in Ho. destruct Ho. now apply closed_is_wf.
Qed.
