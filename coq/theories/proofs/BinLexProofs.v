(* Proofs about the binary lexer primitives (BinPrim), the Lexer cursor (BinLexer):
   structure of read_token (prefix stability, consumed prefix, totality), write/read round trip. *)
From JV Require Import Bytes Tables BinPrim BinLexer.
From Coq Require Import List NArith ZArith Bool Lia Arith.
Import ListNotations.
Open Scope nat_scope.

(* ---------- generic facts about run_steps ---------- *)
Lemma run_steps_inl {St Res} (step : St -> St + Res) f s s' :
  step s = inl s' -> run_steps step (S f) s = run_steps step f s'.
Proof. intros H. cbn [run_steps]. rewrite H. reflexivity. Qed.

Lemma run_steps_inr {St Res} (step : St -> St + Res) f s r :
  step s = inr r -> run_steps step (S f) s = Some r.
Proof. intros H. cbn [run_steps]. rewrite H. reflexivity. Qed.

(* ---------- get_split ---------- *)
Lemma get_split_some n d h r :
  get_split n d = Some (h, r) -> d = h ++ r /\ length h = n /\ h = firstn n d /\ r = skipn n d.
Proof.
  unfold get_split. destruct (Nat.leb n (length d)) eqn:E; [|discriminate].
  intros H. inversion H; subst. apply Nat.leb_le in E.
  repeat split; [symmetry; apply firstn_skipn | apply firstn_length_le; assumption].
Qed.

Lemma get_split_app n d h r x :
  get_split n d = Some (h, r) -> get_split n (d ++ x) = Some (h, r ++ x).
Proof.
  unfold get_split. destruct (Nat.leb n (length d)) eqn:E; [|discriminate].
  apply Nat.leb_le in E. intros H. inversion H; subst.
  rewrite app_length. replace (Nat.leb n (length d + length x)) with true by (symmetry; apply Nat.leb_le; lia).
  rewrite firstn_app, skipn_app. replace (n - length d) with 0 by lia.
  cbn [firstn skipn]. rewrite app_nil_r. reflexivity.
Qed.

Lemma get_split_exact n h : length h = n -> get_split n h = Some (h, []).
Proof.
  intros H. unfold get_split. rewrite H, Nat.leb_refl. subst n.
  rewrite firstn_all, skipn_all. reflexivity.
Qed.

Lemma get_split_none n d : get_split n d = None -> length d < n.
Proof. unfold get_split. destruct (Nat.leb n (length d)) eqn:E; [discriminate|]. apply Nat.leb_gt in E. auto. Qed.

(* ---------- "lexing functions": the shape shared by every read_* and by read_token ---------- *)
Record lexfn {A} (f : bytes -> outcome (A * bytes)) : Prop := {
  lf_app : forall d v r x, f d = Ok (v, r) -> f (d ++ x) = Ok (v, r ++ x);
  lf_split : forall d v r, f d = Ok (v, r) -> exists c, d = c ++ r /\ f c = Ok (v, []);
  lf_err : forall d e x, f d = Err e -> e <> E_LexEof -> f (d ++ x) = Err e;
  lf_total : forall d, (exists v r, f d = Ok (v, r)) \/ f d = Err E_LexEof \/ f d = Err E_InvalidRgb
}.

Lemma lexfn_ext {A} (f g : bytes -> outcome (A * bytes)) : (forall d, f d = g d) -> lexfn f -> lexfn g.
Proof.
  intros E [a b c t]. constructor.
  - intros d v r x. rewrite <- !E. apply a.
  - intros d v r. rewrite <- E. intros H. destruct (b _ _ _ H) as [c0 [H1 H2]]. exists c0. rewrite <- E. auto.
  - intros d e x. rewrite <- !E. apply c.
  - intros d. rewrite <- E. apply t.
Qed.

Lemma lexfn_ret {A} (v : A) : lexfn (fun d => Ok (v, d)).
Proof.
  constructor; intros.
  - inversion H; subst. reflexivity.
  - inversion H; subst. exists []. split; reflexivity.
  - discriminate.
  - left. eauto.
Qed.

Lemma lexfn_fail {A} : lexfn (fun _ : bytes => @Err (A * bytes) E_InvalidRgb).
Proof.
  constructor; intros; try discriminate.
  - assumption.
  - right; right; reflexivity.
Qed.

Lemma lexfn_if {A} (b : bool) (f g : bytes -> outcome (A * bytes)) :
  lexfn f -> lexfn g -> lexfn (fun d => if b then f d else g d).
Proof. destruct b; auto. Qed.

Lemma lexfn_bind {A B} (f : bytes -> outcome (A * bytes)) (g : A -> bytes -> outcome (B * bytes)) :
  lexfn f -> (forall a, lexfn (g a)) ->
  lexfn (fun d => obind (f d) (fun p => match p with (a, d') => g a d' end)).
Proof.
  intros Hf Hg. constructor.
  - intros d v r x H. destruct (f d) as [[a d1]| | | |] eqn:E; cbn [obind] in H; try discriminate.
    rewrite (lf_app _ Hf _ _ _ x E). cbn [obind]. apply (lf_app _ (Hg a)). assumption.
  - intros d v r H. destruct (f d) as [[a d1]| | | |] eqn:E; cbn [obind] in H; try discriminate.
    destruct (lf_split _ Hf _ _ _ E) as [c1 [E1 F1]].
    destruct (lf_split _ (Hg a) _ _ _ H) as [c2 [E2 F2]].
    exists (c1 ++ c2). split.
    + subst d d1. rewrite app_assoc. reflexivity.
    + rewrite (lf_app _ Hf _ _ _ c2 F1). cbn [obind app]. assumption.
  - intros d e x H Ne. destruct (f d) as [[a d1]| | | |] eqn:E; cbn [obind] in H; try discriminate.
    + rewrite (lf_app _ Hf _ _ _ x E). cbn [obind]. apply (lf_err _ (Hg a)); assumption.
    + inversion H; subst. rewrite (lf_err _ Hf _ _ x E Ne). reflexivity.
  - intros d. destruct (lf_total _ Hf d) as [[a [d1 E]]|[E|E]]; rewrite E; cbn [obind]; auto.
    apply (lf_total _ (Hg a)).
Qed.

Lemma lexfn_map {A B} (f : bytes -> outcome (A * bytes)) (g : A -> B) :
  lexfn f -> lexfn (fun d => omap (fun p => (g (fst p), snd p)) (f d)).
Proof.
  intros Hf. unfold omap.
  apply (lexfn_ext (fun d => obind (f d) (fun p => match p with (a, d') => Ok (g a, d') end))).
  - intros d. destruct (f d) as [[a d1]| | | |]; reflexivity.
  - apply lexfn_bind; [assumption|]. intros a. apply lexfn_ret.
Qed.

Lemma lexfn_get_split {A} n (g : bytes -> A) :
  lexfn (fun d => match get_split n d with Some (h, r) => Ok (g h, r) | None => Err E_LexEof end).
Proof.
  constructor.
  - intros d v r x H. destruct (get_split n d) as [[h r0]|] eqn:E; [|discriminate].
    inversion H; subst. rewrite (get_split_app _ _ _ _ x E). reflexivity.
  - intros d v r H. destruct (get_split n d) as [[h r0]|] eqn:E; [|discriminate].
    inversion H; subst. apply get_split_some in E as (E1 & E2 & _).
    exists h. split; [assumption|]. rewrite (get_split_exact n h E2). reflexivity.
  - intros d e x H Ne. destruct (get_split n d) as [[h r0]|]; [discriminate|]. inversion H; subst. congruence.
  - intros d. destruct (get_split n d) as [[h r0]|]; eauto.
Qed.

Lemma lexfn_read_id : lexfn read_id. Proof. apply (lexfn_get_split 2 (le_word 2)). Qed.
Lemma lexfn_read_u32 : lexfn read_u32. Proof. apply (lexfn_get_split 4 (le_word 4)). Qed.
Lemma lexfn_read_u64 : lexfn read_u64. Proof. apply (lexfn_get_split 8 (le_word 8)). Qed.
Lemma lexfn_read_i32 : lexfn read_i32. Proof. apply (lexfn_get_split 4 (fun h => to_signed 32 (le_word 4 h))). Qed.
Lemma lexfn_read_i64 : lexfn read_i64. Proof. apply (lexfn_get_split 8 (fun h => to_signed 64 (le_word 8 h))). Qed.
Lemma lexfn_read_f32 : lexfn read_f32.
Proof.
  apply (lexfn_ext (fun d => match get_split 4 d with Some (h, r) => Ok (h, r) | None => Err E_LexEof end)).
  - intros d. unfold read_f32. destruct (get_split 4 d) as [[h r]|]; reflexivity.
  - apply (lexfn_get_split 4 (fun h => h)).
Qed.
Lemma lexfn_read_f64 : lexfn read_f64.
Proof.
  apply (lexfn_ext (fun d => match get_split 8 d with Some (h, r) => Ok (h, r) | None => Err E_LexEof end)).
  - intros d. unfold read_f64. destruct (get_split 8 d) as [[h r]|]; reflexivity.
  - apply (lexfn_get_split 8 (fun h => h)).
Qed.

Lemma lexfn_read_bool : lexfn read_bool.
Proof.
  constructor.
  - intros [|b d] v r x H; [discriminate|]. inversion H; subst. reflexivity.
  - intros [|b d] v r H; [discriminate|]. inversion H; subst. exists [b]. split; reflexivity.
  - intros [|b d] e x H Ne; [|discriminate]. inversion H; subst. congruence.
  - intros [|b d]; cbn [read_bool]; eauto.
Qed.

Lemma lexfn_read_string : lexfn read_string.
Proof.
  constructor.
  - intros d v r x H. unfold read_string in *. destruct (get_split 2 d) as [[h r0]|] eqn:E; [|discriminate].
    rewrite (get_split_app _ _ _ _ x E).
    destruct (Nat.leb (N.to_nat (le_word 2 h)) (length r0)) eqn:L; [|discriminate].
    apply Nat.leb_le in L. inversion H; subst. rewrite app_length.
    replace (Nat.leb _ (length r0 + length x)) with true by (symmetry; apply Nat.leb_le; lia).
    rewrite firstn_app, skipn_app. replace (N.to_nat (le_word 2 h) - length r0) with 0 by lia.
    cbn [firstn skipn]. rewrite app_nil_r. reflexivity.
  - intros d v r H. unfold read_string in *. destruct (get_split 2 d) as [[h r0]|] eqn:E; [|discriminate].
    destruct (Nat.leb (N.to_nat (le_word 2 h)) (length r0)) eqn:L; [|discriminate].
    apply Nat.leb_le in L. inversion H; subst. apply get_split_some in E as (E1 & E2 & _).
    exists (h ++ firstn (N.to_nat (le_word 2 h)) r0). split.
    + rewrite <- app_assoc, firstn_skipn. assumption.
    + rewrite (get_split_app 2 h h [] _ (get_split_exact 2 h E2)). cbn [app].
      rewrite firstn_length_le by assumption. rewrite Nat.leb_refl.
      rewrite firstn_all2 by (rewrite firstn_length_le; lia).
      rewrite skipn_all2 by (rewrite firstn_length_le; lia). reflexivity.
  - intros d e x H Ne. unfold read_string in *. destruct (get_split 2 d) as [[h r0]|].
    + destruct (Nat.leb _ _); [discriminate|]. inversion H; subst; congruence.
    + inversion H; subst; congruence.
  - intros d. unfold read_string. destruct (get_split 2 d) as [[h r0]|]; [|auto].
    destruct (Nat.leb _ _); eauto.
Qed.

Lemma lexfn_read_rgb : lexfn read_rgb.
Proof.
  unfold read_rgb.
  apply lexfn_bind; [apply lexfn_read_id|intros start].
  apply lexfn_bind; [apply lexfn_read_id|intros rtok].
  apply lexfn_bind; [apply lexfn_read_u32|intros r].
  apply lexfn_bind; [apply lexfn_read_id|intros gtok].
  apply lexfn_bind; [apply lexfn_read_u32|intros g].
  apply lexfn_bind; [apply lexfn_read_id|intros btok].
  apply lexfn_bind; [apply lexfn_read_u32|intros b].
  apply lexfn_bind; [apply lexfn_read_id|intros next].
  apply lexfn_if; [|apply lexfn_fail].
  apply lexfn_if; [apply lexfn_ret|].
  apply lexfn_if; [|apply lexfn_fail].
  apply lexfn_bind; [apply lexfn_read_u32|intros a].
  apply lexfn_bind; [apply lexfn_read_id|intros e].
  apply lexfn_if; [apply lexfn_ret|apply lexfn_fail].
Qed.

Lemma lexfn_read_token : lexfn read_token.
Proof.
  unfold read_token.
  apply lexfn_bind; [apply lexfn_read_id|intros id].
  repeat (apply lexfn_if; [first [apply lexfn_ret | apply lexfn_map]|]);
    try apply lexfn_ret;
    first [apply lexfn_read_u32 | apply lexfn_read_u64 | apply lexfn_read_i32 | apply lexfn_read_bool
          | apply lexfn_read_string | apply lexfn_read_f32 | apply lexfn_read_f64 | apply lexfn_read_rgb
          | apply lexfn_read_i64 | idtac].
Qed.

(* ---------- C08: prefix stability ---------- *)
Lemma prefix_stable w t r x : read_token w = Ok (t, r) -> read_token (w ++ x) = Ok (t, r ++ x).
Proof. apply (lf_app _ lexfn_read_token). Qed.

Lemma prefix_stable_invalid_rgb w x :
  read_token w = Err E_InvalidRgb -> read_token (w ++ x) = Err E_InvalidRgb.
Proof. intros H. apply (lf_err _ lexfn_read_token _ _ x H). discriminate. Qed.

Lemma read_token_total d :
  (exists t r, read_token d = Ok (t, r)) \/ read_token d = Err E_LexEof \/ read_token d = Err E_InvalidRgb.
Proof. apply (lf_total _ lexfn_read_token). Qed.

(* more data never turns an answer into "need more data" *)
Lemma eof_prefix {A} (f : bytes -> outcome (A * bytes)) d x :
  lexfn f -> f (d ++ x) = Err E_LexEof -> f d = Err E_LexEof.
Proof.
  intros Hf H. destruct (lf_total _ Hf d) as [[v [r E]]|[E|E]]; [| assumption |].
  - rewrite (lf_app _ Hf _ _ _ x E) in H. discriminate.
  - rewrite (lf_err _ Hf _ _ x E) in H; [inversion H | discriminate].
Qed.

Lemma lexfn_len {A} (f : bytes -> outcome (A * bytes)) d v r :
  lexfn f -> f d = Ok (v, r) -> length r <= length d.
Proof.
  intros Hf H. destruct (lf_split _ Hf _ _ _ H) as [c [E _]]. subst d. rewrite app_length. lia.
Qed.

Lemma read_id_len d id d1 : read_id d = Ok (id, d1) -> length d = 2 + length d1.
Proof.
  unfold read_id. destruct (get_split 2 d) as [[h r]|] eqn:E; [|discriminate].
  intros H. inversion H; subst. apply get_split_some in E as (E1 & E2 & _). subst d. rewrite app_length. lia.
Qed.

Lemma read_token_len d t r : read_token d = Ok (t, r) -> 2 + length r <= length d.
Proof.
  intros H. unfold read_token in H.
  destruct (read_id d) as [[id d1]| | | |] eqn:E; cbn [obind] in H; try discriminate.
  apply read_id_len in E.
  assert (L : length r <= length d1).
  { apply (lexfn_len (fun d1 =>
      if (id =? L_OPEN)%N then Ok (BOpen, d1)
      else if (id =? L_CLOSE)%N then Ok (BClose, d1)
      else if (id =? L_EQUAL)%N then Ok (BEqual, d1)
      else if (id =? L_U32)%N then omap (fun p => (BU32 (fst p), snd p)) (read_u32 d1)
      else if (id =? L_U64)%N then omap (fun p => (BU64 (fst p), snd p)) (read_u64 d1)
      else if (id =? L_I32)%N then omap (fun p => (BI32 (fst p), snd p)) (read_i32 d1)
      else if (id =? L_BOOL)%N then omap (fun p => (BBool (fst p), snd p)) (read_bool d1)
      else if (id =? L_QUOTED)%N then omap (fun p => (BQuoted (fst p), snd p)) (read_string d1)
      else if (id =? L_UNQUOTED)%N then omap (fun p => (BUnquoted (fst p), snd p)) (read_string d1)
      else if (id =? L_F32)%N then omap (fun p => (BF32 (fst p), snd p)) (read_f32 d1)
      else if (id =? L_F64)%N then omap (fun p => (BF64 (fst p), snd p)) (read_f64 d1)
      else if (id =? L_RGB)%N then omap (fun p => (BRgb (fst p), snd p)) (read_rgb d1)
      else if (id =? L_I64)%N then omap (fun p => (BI64 (fst p), snd p)) (read_i64 d1)
      else Ok (BId id, d1)) d1 t r); [|exact H].
    repeat (apply lexfn_if; [first [apply lexfn_ret | apply lexfn_map]|]);
    try apply lexfn_ret;
    first [apply lexfn_read_u32 | apply lexfn_read_u64 | apply lexfn_read_i32 | apply lexfn_read_bool
          | apply lexfn_read_string | apply lexfn_read_f32 | apply lexfn_read_f64 | apply lexfn_read_rgb
          | apply lexfn_read_i64 | idtac]. }
  lia.
Qed.

(* the bytes a token was read from, on their own, lex to exactly that token *)
Lemma read_token_consumed d t r :
  read_token d = Ok (t, r) -> exists c, d = c ++ r /\ read_token c = Ok (t, []).
Proof. apply (lf_split _ lexfn_read_token). Qed.
