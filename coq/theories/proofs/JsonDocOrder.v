(* C16, wave 5 (engineer w_json), second file: on a doc_clean tape the document walk JsonDoc.doc_atoms
   consumes every token exactly once, left to right ([doc_positions]); see the plan at the top of
   JsonDocProofs.v. *)
From JV Require Import Bytes Tables Scalar TextTok TextTape TapeWf Dom Json JsonDoc.
From JV.proofs Require Import DomProofs JsonProofs JsonDocProofs.
Require Import Lia.
Open Scope nat_scope.

(* ================================================================ Part 2b: every token once, in order *)
Lemma seq_cons_range : forall a b, a < b -> a :: seq (S a) (b - S a) = seq a (b - a).
Proof. intros. replace (b - a) with (S (b - S a)) by lia. reflexivity. Qed.

Lemma seq_join : forall a b c, a <= b -> b <= c -> seq a (b - a) ++ seq b (c - b) = seq a (c - a).
Proof.
  intros. replace (c - a) with ((b - a) + (c - b)) by lia. rewrite seq_app.
  replace (a + (b - a)) with b by lia. reflexivity.
Qed.

Lemma dyck_item_next : forall t i e, dyck t i e -> i < e ->
  (exists k, tget t i = Some k /\ forall j, k <> TEnd j) /\ i < item_next t i /\ item_next t i <= e /\ dyck t (item_next t i) e.
Proof.
  intros t i e D L. inversion D; subst; try lia.
  - assert (N : item_next t i = S i) by (unfold item_next; rewrite H; destruct k; try discriminate; auto).
    rewrite N. pose proof (dyck_le _ _ _ H1). repeat split; eauto; try lia.
    exists k. split; auto. intros j E. subst k. discriminate.
  - assert (N : item_next t i = S i) by (unfold item_next; rewrite H; auto).
    rewrite N. repeat split; eauto; try lia. exists (THeader s). split; auto. intros; discriminate.
  - assert (N : item_next t i = S e') by (unfold item_next; rewrite H; destruct k; try discriminate; inversion H0; auto).
    rewrite N. repeat split; eauto; try lia. exists k. split; auto. intros j E. subst k. discriminate.
Qed.

Lemma value_next_item : forall t i k, tget t i = Some k -> JsonDoc.is_header (Some k) = false ->
  value_next t i = item_next t i.
Proof.
  intros t i k K NH. rewrite value_next_vend. unfold vend, item_next. rewrite K.
  destruct k; auto. discriminate.
Qed.

Lemma d_value_step : forall dec na kv t f v,
  d_value dec na kv t (S f) v =
  match tget t v with
  | Some (TArray e _) => (v, open_atoms kv s_array) :: d_items dec na kv t f (S v) e ++ [(e, [])]
  | Some (TObject e _) => (v, open_atoms kv s_obj) :: d_fields dec na kv t f (S v) e ++ [(e, [])]
  | Some (THeader s) => (v, [EK (dec s)]) :: d_value dec na kv t f (S v)
  | Some k => [(v, [EV (value_leaf dec na k)])]
  | None => []
  end.
Proof. reflexivity. Qed.

Lemma c_value_step : forall t f v,
  c_value t (S f) v =
  match tget t v with
  | Some (TArray e _) => c_items t f (S v) e
  | Some (TObject e _) => c_fields t f (S v) e
  | Some (THeader s) => c_value t f (S v)
  | _ => true
  end.
Proof. reflexivity. Qed.

Section Positions.
  Variable dec : bytes -> bytes.
  Variable na : narrowing.
  Variable kv : bool.
  Variable t : ttape.
  Hypothesis WF : tape_wf t.
  Notation dV := (d_value dec na kv t).
  Notation dF := (d_fields dec na kv t).
  Notation dI := (d_items dec na kv t).
  Notation pos x := (@map ratom nat (@fst nat (list eatom)) x).

  Definition PV (f : nat) : Prop := forall v, v < length t -> vspan t v < f -> c_value t f v = true ->
    pos (dV f v) = seq v (value_next t v - v).
  Definition PF (f : nat) : Prop := forall i e r l, fields_spec t i e r l -> dyck t i e -> e <= length t ->
    e - i < f -> c_fields t f i e = true -> pos (dF f i e) = seq i (e - i).
  Definition PI (f : nat) : Prop := forall i e, dyck t i e -> e <= length t ->
    e - i < f -> c_items t f i e = true -> pos (dI f i e) = seq i (e - i).

  Lemma vend_ge : forall a, a < length t -> a <= vend t a.
  Proof.
    pose proof (WFC t WF) as W. intros a L.
    unfold vend. destruct (tget t a) as [ka|] eqn:KA; auto. destruct ka; auto.
    - destruct (cont_lt t a _ e W KA eq_refl); lia.
    - destruct (cont_lt t a _ e W KA eq_refl); lia.
    - destruct (tget t (S a)) as [kb|] eqn:KB; auto. destruct kb; auto.
      + destruct (cont_lt t (S a) _ e W KB eq_refl); lia.
      + destruct (cont_lt t (S a) _ e W KB eq_refl); lia.
  Qed.

  Lemma pos_value : forall f, PV f -> PF f -> PI f -> PV (S f).
  Proof.
    pose proof (WFC t WF) as W.
    intros f HV HF HI v L SP C. rewrite value_next_vend.
    destruct (tget t v) as [k|] eqn:K; [|apply nth_error_None in K; lia].
    rewrite d_value_step. rewrite c_value_step in C. rewrite K in *.
    destruct k; try (unfold vend; rewrite K; replace (S v - v) with 1 by lia; reflexivity).
    - (* array *)
      destruct (cont_lt t v _ e W K eq_refl) as (A & B & E & DD).
      assert (VE : vend t v = e) by (unfold vend; rewrite K; reflexivity). unfold vspan in SP. rewrite VE in *.
      cbn [List.map fst]. rewrite map_app. cbn [List.map fst].
      rewrite (HI (S v) e DD) by (auto; lia).
      rewrite <- (seq_cons_range v (S e)) by lia. f_equal.
      rewrite <- (seq_join (S v) e (S e)) by lia. replace (S e - e) with 1 by lia. reflexivity.
    - (* object *)
      destruct (cont_lt t v _ e W K eq_refl) as (A & B & E & DD).
      assert (VE : vend t v = e) by (unfold vend; rewrite K; reflexivity). unfold vspan in SP. rewrite VE in *.
      pose proof (W v L) as CO. unfold cont_ok in CO. rewrite K in CO. destruct CO as (_ & _ & _ & _ & (r & FE & _)).
      destruct (fields_end_spec t W _ _ _ FE) as [l FS].
      cbn [List.map fst]. rewrite map_app. cbn [List.map fst]. rewrite (HF (S v) e r l FS DD) by (auto; lia).
      rewrite <- (seq_cons_range v (S e)) by lia. f_equal.
      rewrite <- (seq_join (S v) e (S e)) by lia. replace (S e - e) with 1 by lia. reflexivity.
    - (* header *)
      pose proof (W v L) as CO. unfold cont_ok in CO. rewrite K in CO.
      destruct (tget t (S v)) as [k'|] eqn:K'; try contradiction.
      assert (exists e, container_end k' = Some e) as [e CE] by (destruct k'; try discriminate; cbn; eauto).
      destruct (cont_lt t (S v) _ e W K' CE) as (A & B & E & DD).
      assert (VE : vend t v = e) by (unfold vend; rewrite K, K'; destruct k'; try discriminate; inversion CE; reflexivity).
      assert (VE' : vend t (S v) = e) by (unfold vend; rewrite K'; destruct k'; try discriminate; inversion CE; reflexivity).
      unfold vspan in SP. rewrite VE in *. cbn [List.map fst].
      rewrite (HV (S v)) by (auto; unfold vspan; lia). rewrite value_next_vend, VE'.
      rewrite <- (seq_cons_range v (S e)) by lia. reflexivity.
  Qed.

  Lemma pos_fields : forall f, PV f -> PF f -> PI f -> PF (S f).
  Proof.
    pose proof (WFC t WF) as W.
    intros f HV HF HI i e r l FS D LE SP C.
    inversion FS as [e0 | i0 e0 KM LTm | i0 e0 r0 k n l0 K HK VE NL SN FS']; subst.
    - rewrite d_fields_end. rewrite Nat.sub_diag. reflexivity.
    - rewrite (d_fields_marker dec na kv t f r e LTm KM). rewrite (c_fields_marker t f r e LTm KM) in C.
      assert (D1 : dyck t (S r) e) by (eapply dyck_inv_leaf; eauto).
      cbn [List.map fst]. rewrite (HI (S r) e D1) by (auto; lia). apply seq_cons_range. auto.
    - rewrite (d_fields_step dec na kv t f i e k) by (auto; lia). rewrite (c_fields_step t f i e k) in C by (auto; lia).
      apply andb_prop in C as [CV CF].
      pose proof (value_end_gt _ _ _ W VE) as VG. pose proof (value_ind_gt t i) as IG.
      pose proof (value_end_vend _ _ _ VE) as VEn. pose proof (value_end_lt_len _ _ _ VE) as VL.
      assert (D1 : dyck t (S i) e) by (eapply dyck_inv_leaf; eauto using is_key_leaf; lia).
      assert (DV : dyck t (value_ind_of t i) e).
      { unfold value_ind_of in *. destruct (tget t (S i)) as [k1|] eqn:K1; auto. destruct k1; auto.
        eapply dyck_inv_leaf; eauto. lia. }
      assert (DN : dyck t n e) by (apply (value_dyck t (value_ind_of t i) e n W); auto).
      assert (VN : value_next t (value_ind_of t i) = n) by (unfold value_next; rewrite VE; reflexivity).
      rewrite VN in *.
      cbn [List.map fst]. rewrite !map_app.
      rewrite (HV (value_ind_of t i)) by (auto; unfold vspan; lia). rewrite VN.
      rewrite (HF n e r l0 FS' DN) by (auto; lia).
      rewrite (seq_join (value_ind_of t i) n e) by lia.
      rewrite <- (seq_cons_range i e) by lia. f_equal.
      unfold op_at, value_ind_of. unfold value_ind_of in IG, VG.
      destruct (tget t (S i)) as [k1|]; [destruct k1|]; cbn [List.map fst app]; try reflexivity.
      apply (seq_cons_range (S i) e). lia.
  Qed.

  Lemma pos_items : forall f, PV f -> PF f -> PI f -> PI (S f).
  Proof.
    pose proof (WFC t WF) as W.
    intros f HV HF HI i e D LE SP C.
    destruct (Nat.eq_dec i e) as [->|NE].
    { cbn [d_items]. rewrite Nat.leb_refl, Nat.sub_diag. reflexivity. }
    pose proof (dyck_le _ _ _ D) as LE2. assert (LT : i < e) by lia.
    destruct (dyck_item_next t i e D LT) as ((k & K & NEND) & G1 & B1 & D1).
    pose proof (dyck_vend t i e W D LT) as VB.
    destruct (is_marker t i) eqn:MK.
    { apply is_marker_true in MK. rewrite (d_items_marker dec na kv t f i e LT MK).
      rewrite (c_items_marker t f i e LT MK) in C.
      assert (N1 : item_next t i = S i) by (unfold item_next; rewrite MK; reflexivity). rewrite N1 in *.
      cbn [List.map fst]. rewrite (HI (S i) e D1) by (auto; lia). apply seq_cons_range. auto. }
    apply is_marker_false in MK. assert (NM : k <> TMixedContainer) by (intro; subst k; contradiction).
    rewrite (d_items_step dec na kv t f i e k LT K NM). rewrite (c_items_step t f i e k LT K NM) in C.
    set (n1 := item_next t i) in *.
    assert (PLAIN : negb (JsonDoc.is_header (Some k)) && c_value t f i && c_items t f n1 e = true ->
              pos (dV f i ++ dI f n1 e) = seq i (e - i)).
    { intro CP. apply andb_prop in CP as [CP CI]. apply andb_prop in CP as [NH CV]. apply negb_true_iff in NH.
      rewrite map_app. rewrite (HV i) by (auto; unfold vspan; lia).
      rewrite (value_next_item t i k K NH). fold n1. rewrite (HI n1 e D1) by (auto; lia).
      apply seq_join; lia. }
    destruct (Nat.ltb n1 e) eqn:L1; [|apply PLAIN; exact C].
    apply Nat.ltb_lt in L1.
    destruct (tget t n1) as [kb|] eqn:KB; [|apply PLAIN; exact C].
    destruct kb; try (apply PLAIN; exact C).
    destruct (Nat.ltb (S n1) e) eqn:L2; [|apply PLAIN; exact C].
    apply Nat.ltb_lt in L2.
    apply andb_prop in C as [C CI]. apply andb_prop in C as [C CV]. apply andb_prop in C as [NC NH].
    apply negb_true_iff in NC. apply negb_true_iff in NH.
    assert (N1 : n1 = S i) by (unfold n1, item_next; rewrite K; destruct k; try discriminate; auto).
    assert (D2 : dyck t (S n1) e) by (eapply dyck_inv_leaf; eauto).
    destruct (dyck_item_next t (S n1) e D2 L2) as ((k2 & K2 & _) & G2 & B2 & D3).
    pose proof (dyck_vend t (S n1) e W D2 L2) as VB2.
    rewrite K2 in NH.
    cbn [List.map fst]. rewrite map_app.
    rewrite (HV (S n1)) by (auto; unfold vspan; lia).
    rewrite (value_next_item t (S n1) k2 K2 NH).
    rewrite (HI (item_next t (S n1)) e D3) by (auto; lia).
    rewrite (seq_join (S n1) (item_next t (S n1)) e) by lia.
    rewrite <- (seq_cons_range i e) by lia. f_equal. rewrite <- N1.
    apply (seq_cons_range n1 e). lia.
  Qed.

  Lemma pos_all : forall f, PV f /\ PF f /\ PI f.
  Proof.
    induction f as [|f (HV & HF & HI)].
    - repeat split; intros; intro; intros; lia.
    - repeat split; [apply pos_value | apply pos_fields | apply pos_items]; auto.
  Qed.

  (* on a clean tape the walk consumes every token exactly once, left to right *)
  Theorem doc_positions : doc_clean t = true -> pos (doc_atoms dec na kv t) = seq 0 (length t).
  Proof.
    intro C. destruct WF as (D & (r & FE) & W & _).
    destruct (fields_end_spec t W _ _ _ FE) as [l FS].
    destruct (pos_all (doc_fuel t)) as (_ & HF & _).
    unfold doc_atoms, doc_clean in *. rewrite (HF 0 (length t) r l FS D) by (auto; unfold doc_fuel; lia).
    rewrite Nat.sub_0_r. reflexivity.
  Qed.
End Positions.
