(* C05 for the binary TAPE deserializer walk (BinDeTape.deser_tape = SerdeShape.walk over
   BinDeTape.ops_tape on the tape that BinTape.parse_opt returns).

   The unchecked `tokens[value_ind]` of BinaryMap::next_key_seed (Panic 9206 in the model) and the
   other `tokens[i]` sites (9201..9205) are discharged from three facts about the parser's output:
     BinTapeWf.tape_wf        (C06: links, back links, grammar)  -> every nested cursor stays inside
                              its container (laminarity of the links), every index handed out is < len
     kvgood 0 tape            (NoCrashTapeWalksDefs/Inv)         -> the top-level cursor never puts a
                              scalar key on the last token
     Forall tok_ok tape       payloads are real (i32 range, bytes < 256): the Date / String visitors
     length tape <= length d  the entry point's own fuel deser_fuel is enough.

   Method: the generic theorem NoCrashWalk.walk_root_ok needs ONE invariant IS on cursors that every
   operation preserves.  Two behaviours of the real operations do not fit:
     (D1) after a key that is a container / End token, next_key_seed leaves the cursor somewhere
          inside that container (the key deserializer then fails, the cursor is never used again);
     (D2) next_element on the top-level cursor (never called: the root is a map).
   So the theorem is instantiated for [ops2], which differs from ops_tape exactly there (a refused
   key parks the cursor at the end; next_element on a cursor whose end is not a tape index answers
   None), and [walk_eq] proves that the walk over ops_tape and the walk over ops2 are EQUAL (same
   outcome, for every fuel / shape / token / state) on a tape whose links are in range. *)
From JV.proofs Require Import SwarLanes BinTapeWfProofs BinTapeSim BinTapeSafe NoCrashWalk NoCrashBinDe NoCrashTapeWalksDefs NoCrashTapeWalksInv.
From JV Require Import Bytes Tables Date BinPrim BinTape BinTapeWf SerdeShape BinDeCommon BinDeTape.
From Coq Require Import List NArith ZArith Bool Lia Arith.
Import ListNotations.
Open Scope nat_scope.

(* ================================================================== facts about well-formed tapes *)

(* links are laminar: a container that starts inside another one ends inside it *)
Lemma cs_laminar : forall b l, closed_seq b l ->
  forall i j ci ei cj ej,
    nth_error l i = Some ci -> container_end ci = Some ei ->
    nth_error l j = Some cj -> container_end cj = Some ej ->
    i < j -> b + j < ei -> ej < ei.
Proof.
  induction 1; intros i j ci ei cj ej Hi Hci Hj Hcj Hij Hje.
  - destruct i; discriminate.
  - destruct i as [|i]; cbn in Hi.
    + inversion Hi; subst. destruct ci; cbn in *; discriminate.
    + destruct j as [|j]; [lia|]. cbn in Hj. eapply (IHclosed_seq i j); eauto; lia.
  - subst e. destruct j as [|j]; [lia|]. cbn in Hj.
    destruct i as [|i]; cbn in Hi.
    + inversion Hi; subst ci. rewrite H in Hci. inversion Hci; subst ei.
      assert (Hjl : j < length inner) by lia.
      rewrite nth_error_app1 in Hj by exact Hjl.
      destruct (cs_links _ _ H1 _ _ _ Hj Hcj) as (_ & B & _). lia.
    + destruct (Nat.lt_ge_cases i (length inner)) as [Hlt|Hge].
      * rewrite nth_error_app1 in Hi by exact Hlt.
        destruct (cs_links _ _ H1 _ _ _ Hi Hci) as (_ & B & _).
        assert (Hjl : j < length inner) by lia.
        rewrite nth_error_app1 in Hj by exact Hjl.
        eapply (IHclosed_seq1 i j); eauto; lia.
      * rewrite nth_error_app2 in Hi by exact Hge.
        destruct (i - length inner) as [|k] eqn:Ek; cbn in Hi.
        { inversion Hi; subst ci. discriminate. }
        rewrite nth_error_app2 in Hj by lia.
        destruct (j - length inner) as [|k'] eqn:Ek'; [lia|]. cbn in Hj.
        eapply (IHclosed_seq2 k k'); eauto; lia.
Qed.

Section TapeFacts.
  Variable tokens : tape.
  Hypothesis Hwf : tape_wf tokens.
  Notation L := (length tokens).

  (* `match self.tokens[i] { Array(x) | Object(x) => x, _ => i }` *)
  Definition skipof (i : nat) : nat :=
    match nth_error tokens i with
    | Some (TArray x) | Some (TObject x) => x
    | _ => i
    end.

  Lemma skipof_cont i c e : nth_error tokens i = Some c -> container_end c = Some e -> skipof i = e.
  Proof. intros H Hc. unfold skipof. rewrite H. destruct c; cbn in Hc; inversion Hc; reflexivity. Qed.

  Lemma skipof_other i : (forall c e, nth_error tokens i = Some c -> container_end c = Some e -> False) -> skipof i = i.
  Proof.
    intros H. unfold skipof. destruct (nth_error tokens i) as [c|] eqn:E; [|reflexivity].
    destruct c; try reflexivity; exfalso; eapply H; eauto; reflexivity.
  Qed.

  Lemma skipof_bounds i : i < L -> i <= skipof i /\ skipof i < L.
  Proof.
    intros Hi. destruct Hwf as (Hl & _). unfold skipof.
    destruct (nth_error tokens i) as [c|] eqn:E; [|lia].
    destruct c; try lia; destruct (Hl i _ _ E eq_refl) as (A & B & _); lia.
  Qed.

  Lemma tp_skip_ok i : i < L -> tp_skip tokens i = Ok (skipof i).
  Proof.
    intros Hi. unfold tp_skip, skipof. destruct (nth_error tokens i) as [c|] eqn:E.
    - destruct c; reflexivity.
    - apply nth_error_None in E. lia.
  Qed.

  (* inside the container whose End sits at en *)
  Lemma skipof_inside b en p : nth_error tokens en = Some (TEnd b) -> b < p -> p <= en -> skipof p <= en.
  Proof.
    intros He Hb Hp. destruct Hwf as (Hl & Hb' & _ & Hcs).
    destruct (Nat.eq_dec p en) as [->|Hne].
    - unfold skipof. rewrite He. lia.
    - unfold skipof. destruct (nth_error tokens p) as [c|] eqn:E; [|lia].
      destruct (Hb' _ _ He) as (_ & cb & Hcb & Hce).
      assert (K : forall x, container_end c = Some x -> x <= en).
      { intros x Hx. pose proof (cs_laminar _ _ Hcs b p cb en c x Hcb Hce E Hx Hb ltac:(cbn; lia)). lia. }
      destruct c; try lia; apply K; reflexivity.
  Qed.

  Lemma end_lt_len en b : nth_error tokens en = Some (TEnd b) -> en < L.
  Proof. intros H. apply nth_error_Some. congruence. Qed.

  (* ---------------- the top-level cursor *)
  Inductive top_ok : nat -> Prop :=
  | TO_end : forall idx, L <= idx -> top_ok idx
  | TO_doom : forall idx c, nth_error tokens idx = Some c -> is_scalar c = false -> S idx < L -> top_ok idx
  | TO_pair : forall idx k, nth_error tokens idx = Some k -> is_scalar k = true -> S idx < L ->
      top_ok (S (skipof (S idx))) -> top_ok idx.
End TapeFacts.

Lemma kvgood_top_ok : forall b l, kvgood b l -> forall pre, length pre = b -> top_ok (pre ++ l) b.
Proof.
  induction 1; intros pre Hpre.
  - apply TO_end. rewrite app_nil_r. lia.
  - subst b. eapply TO_doom; [apply nth_error_here|exact H|].
    rewrite app_length. cbn [length]. destruct r; [congruence|cbn [length]; lia].
  - subst b. destruct H0 as (x & rest & -> & Hx).
    eapply TO_pair; [apply nth_error_here|exact H|rewrite app_length; cbn [length app]; lia|].
    assert (Hsk : skipof (pre ++ k :: (x :: rest) ++ r) (S (length pre)) = S (length pre) + length rest).
    { assert (Hn : nth_error (pre ++ k :: (x :: rest) ++ r) (S (length pre)) = Some x).
      { replace (pre ++ k :: (x :: rest) ++ r) with ((pre ++ [k]) ++ x :: (rest ++ r)) by (rewrite <- app_assoc; reflexivity).
        replace (S (length pre)) with (length (pre ++ [k])) by (rewrite app_length; cbn; lia). apply nth_error_here. }
      unfold skipof. rewrite Hn. destruct x; cbn in Hx; try (subst rest; cbn [length]; lia); inversion Hx; reflexivity. }
    rewrite Hsk.
    specialize (IHkvgood (pre ++ k :: x :: rest)).
    replace ((pre ++ k :: x :: rest) ++ r) with (pre ++ k :: (x :: rest) ++ r) in IHkvgood by (rewrite <- app_assoc; reflexivity).
    replace (S (S (length pre) + length rest)) with (S (length pre) + length (x :: rest)) by (cbn [length]; lia).
    apply IHkvgood. rewrite app_length. cbn [length]. lia.
Qed.

(* ================================================================== extensionality of the visitor loops *)
Section SeqExt.
  Context {A : Type}.
  Variables elem elem' : shape -> A -> outcome (option dval * A).
  Variable P : A -> Prop.
  Hypothesis Heq : forall s a, P a -> elem s a = elem' s a.
  Hypothesis Hpres : forall s a o a', P a -> elem s a = Ok (o, a') -> P a'.

  Lemma seq_loop_ext : forall n s a acc, P a -> seq_loop elem n s a acc = seq_loop elem' n s a acc.
  Proof.
    induction n as [|n IH]; intros s a acc Ha; [reflexivity|]. cbn [seq_loop].
    rewrite <- (Heq s a Ha). destruct (elem s a) as [[o a']| | | |] eqn:E; try reflexivity. cbn [obind].
    destruct o; [|reflexivity]. apply IH. eapply Hpres; eauto.
  Qed.

  Lemma tup_loop_ext : forall ss a acc, P a -> tup_loop elem ss a acc = tup_loop elem' ss a acc.
  Proof.
    induction ss as [|s ss IH]; intros a acc Ha; [reflexivity|]. cbn [tup_loop].
    rewrite <- (Heq s a Ha). destruct (elem s a) as [[o a']| | | |] eqn:E; try reflexivity. cbn [obind].
    destruct o; [|reflexivity]. apply IH. eapply Hpres; eauto.
  Qed.

  Lemma visit_seq_ext n sh a : P a -> visit_seq elem n sh a = visit_seq elem' n sh a.
  Proof.
    intros Ha. destruct sh; cbn [visit_seq]; try reflexivity;
      first [rewrite (seq_loop_ext n _ a [] Ha)|rewrite (tup_loop_ext _ a [] Ha)]; reflexivity.
  Qed.
End SeqExt.

Section MapExt.
  Context {A : Type}.
  Variables key key' : kseed -> A -> outcome (option kres * A).
  Variables value value' : shape -> A -> outcome (dval * A).
  Hypothesis Hk : forall ks a, key ks a = key' ks a.
  Hypothesis Hv : forall s a, value s a = value' s a.

  Lemma map_loop_ext : forall n s a acc, map_loop key value n s a acc = map_loop key' value' n s a acc.
  Proof.
    induction n as [|n IH]; intros s a acc; [reflexivity|]. cbn [map_loop].
    rewrite <- Hk. destruct (key KString a) as [[k a1]| | | |]; try reflexivity. cbn [obind].
    destruct k as [[ks|i|v|]|]; try reflexivity.
    rewrite <- Hv. destruct (value s a1) as [[v a2]| | | |]; try reflexivity. cbn [obind]. apply IH.
  Qed.

  Lemma amap_loop_ext : forall n a acc, amap_loop key value n a acc = amap_loop key' value' n a acc.
  Proof.
    induction n as [|n IH]; intros a acc; [reflexivity|]. cbn [amap_loop].
    rewrite <- Hk. destruct (key KAny a) as [[k a1]| | | |]; try reflexivity. cbn [obind].
    destruct k as [[ks|i|v|]|]; try reflexivity.
    rewrite <- Hv. destruct (value ShAny a1) as [[v0 a2]| | | |]; try reflexivity. cbn [obind]. apply IH.
  Qed.

  Lemma ign_loop_ext : forall n a, ign_loop key value n a = ign_loop key' value' n a.
  Proof.
    induction n as [|n IH]; intros a; [reflexivity|]. cbn [ign_loop].
    rewrite <- Hk. destruct (key KIgn a) as [[k a1]| | | |]; try reflexivity. cbn [obind].
    destruct k as [k|]; try reflexivity.
    rewrite <- Hv. destruct (value ShIgn a1) as [[v0 a2]| | | |]; try reflexivity. cbn [obind]. apply IH.
  Qed.

  Lemma struct_loop_ext : forall n tk fs a sl, struct_loop key value n tk fs a sl = struct_loop key' value' n tk fs a sl.
  Proof.
    induction n as [|n IH]; intros tk fs a sl; [reflexivity|]. cbn [struct_loop].
    rewrite <- Hk. destruct (key (KField tk fs) a) as [[k a1]| | | |]; try reflexivity. cbn [obind].
    destruct k as [[ks|i|v|]|]; try reflexivity. destruct i as [i|].
    - destruct (nth_error fs i) as [f0|]; [|reflexivity].
      destruct (slot_pre sl (f_mode f0) i); try reflexivity. cbn [obind].
      rewrite <- Hv. destruct (value (f_shape f0) a1) as [[v a2]| | | |]; try reflexivity. cbn [obind]. apply IH.
    - rewrite <- Hv. destruct (value ShIgn a1) as [[v a2]| | | |]; try reflexivity. cbn [obind]. apply IH.
  Qed.

  Lemma visit_map_ext n sh a : visit_map key value n sh a = visit_map key' value' n sh a.
  Proof.
    destruct sh; cbn [visit_map]; try reflexivity;
      first [rewrite map_loop_ext|rewrite struct_loop_ext|rewrite amap_loop_ext|rewrite ign_loop_ext]; reflexivity.
  Qed.
End MapExt.

(* a deserializer whose states are only handed through (the tape path: every access object owns
   its indices) returns the state it was given *)
Section StateSame.
  Context {S T C : Type}.
  Variable F : fops.
  Variable ops : path_ops S T C.
  Hypothesis Hd : forall k h t s a s', p_dispatch ops k h t s = Ok (a, s') -> s' = s.
  Hypothesis Hs : forall h s1 sub d s', p_seq_exit ops h s1 sub d = Ok s' -> s' = s1.
  Hypothesis Hm : forall s1 sub s', p_map_exit ops s1 sub = Ok s' -> s' = s1.

  Lemma walk_plain_state rec f k sh tok st v st' : walk_plain F ops rec f k sh tok st = Ok (v, st') -> st' = st.
  Proof.
    unfold walk_plain. destruct (p_dispatch ops k (hint_of sh) tok st) as [[a st1]| | | |] eqn:Ed; try discriminate.
    apply Hd in Ed. subst st1. cbn [obind]. destruct a as [p|sub|c|sub].
    - destruct (visit_prim F sh p); try discriminate. cbn. intros H; inversion H; reflexivity.
    - destruct (visit_seq (elem_of ops rec) f sh sub) as [[r dr]| | | |]; try discriminate. cbn [obind].
      destruct (p_seq_exit ops (hint_of sh) st (snd r) dr) as [st2| | | |] eqn:Ee; try discriminate. cbn.
      apply Hs in Ee. intros H; inversion H; congruence.
    - destruct (p_color ops f sh c); try discriminate. cbn. intros H; inversion H; reflexivity.
    - destruct (visit_map (key_of ops rec false) (value_of ops rec) f sh sub) as [[v0 sub']| | | |]; try discriminate. cbn [obind].
      destruct (p_map_exit ops st sub') as [st2| | | |] eqn:Ee; try discriminate. cbn.
      apply Hm in Ee. intros H; inversion H; congruence.
  Qed.

  Lemma walk_state : forall f k sh tok st v st', walk F ops f k sh tok st = Ok (v, st') -> st' = st.
  Proof.
    induction f as [|f IH]; intros k sh tok st v st'; [discriminate|].
    destruct sh; cbn [walk]; try apply walk_plain_state.
    - destruct (walk F ops f k sh tok st) as [[v0 st0]| | | |] eqn:E; try discriminate. cbn.
      apply IH in E. intros H; inversion H; congruence.
    - discriminate.
    - unfold walk_enum. destruct (p_dispatch ops k HIdent tok st) as [[a st1]| | | |] eqn:Ed; try discriminate.
      apply Hd in Ed. subst st1. cbn [obind]. destruct a; try discriminate.
      destruct (visit_variant variants p); try discriminate. cbn. intros H; inversion H; reflexivity.
  Qed.
End StateSame.

(* ================================================================== ops2 and walk over ops_tape = walk over ops2 *)
Section Ops2.
  Variable cfg : bcfg.
  Variable tokens : tape.
  Hypothesis Hlinks : links_ok tokens.
  Notation L := (length tokens).
  Notation F := (c_fops cfg).
  Notation ops := (ops_tape cfg tokens).

  (* KeyDeserializer refuses these tokens whatever the visitor *)
  Definition doomed (i : nat) : bool :=
    match nth_error tokens i with
    | Some (TObject _) | Some (TArray _) | Some (TEnd _) => true
    | _ => false
    end.

  Definition tp_next_key2 (_ : bool) (st : tcur) : outcome (option nat * tcur) :=
    if Nat.ltb (t_idx st) (t_end st) then
      let vi := S (t_idx st) in
      do nk <- tp_skip tokens vi;
      Ok (Some (t_idx st),
          if doomed (t_idx st) then mkcur (t_end st) (t_end st) vi else mkcur (S nk) (t_end st) vi)
    else Ok (None, st).

  Definition tp_next_elem2 (st : tcur) : outcome (option nat * tcur) :=
    if Nat.ltb (t_end st) L then tp_next_elem tokens st else Ok (None, st).

  Definition ops2 : path_ops tcur nat rgb :=
    mkops (tp_dispatch cfg tokens) tp_next_elem2 (fun _ outer _ _ => Ok outer) (fun outer _ => Ok outer)
          tp_next_key2 tp_next_value (color_visit cfg).

  Lemma key_prim_same i st a st' : tp_key_prim cfg tokens i st = Ok (a, st') -> st' = st.
  Proof. unfold tp_key_prim. destruct (tp_visit_key cfg tokens i); cbn; intros H; inversion H; reflexivity. Qed.

  Lemma dispatch_same k h i st a st' : tp_dispatch cfg tokens k h i st = Ok (a, st') -> st' = st.
  Proof.
    pose proof (key_prim_same i st a st') as K.
    unfold tp_dispatch, tp_any.
    repeat (match goal with |- context [match ?x with _ => _ end] => destruct x end);
      intros H; try discriminate; try (inversion H; reflexivity); try (apply K; exact H).
  Qed.

  Lemma dispatch_sub k h i st a st' : tp_dispatch cfg tokens k h i st = Ok (a, st') ->
    match a with ASeq sub | AMap sub => t_end sub < L | _ => True end.
  Proof.
    assert (K : forall a st', tp_key_prim cfg tokens i st = Ok (a, st') -> match a with ASeq sub | AMap sub => t_end sub < L | _ => True end).
    { intros a0 st0. unfold tp_key_prim. destruct (tp_visit_key cfg tokens i); cbn; intros H; inversion H; exact I. }
    unfold tp_dispatch, tp_any. destruct (nth_error tokens i) as [c|] eqn:E.
    - assert (Hc : forall e, container_end c = Some e -> e < L) by (intros e He; destruct (Hlinks i c e E He) as (_ & B & _); exact B).
      destruct k; destruct h; destruct c; intros H; try (apply (K _ _ H)); try discriminate;
        inversion H; subst; cbn [t_end]; try exact I; apply Hc; reflexivity.
    - destruct k; destruct h; intros H; try discriminate; try (apply (K _ _ H)); inversion H; exact I.
  Qed.

  Lemma walk_state_ops : forall f k sh tok st v st', walk F ops f k sh tok st = Ok (v, st') -> st' = st.
  Proof.
    apply walk_state.
    - intros k h t s a s'. apply dispatch_same.
    - intros h s1 sub d s' H. inversion H; reflexivity.
    - intros s1 sub s' H. inversion H; reflexivity.
  Qed.

  Lemma doomed_dispatch i h st : doomed i = true -> tp_dispatch cfg tokens true h i st = Err EC_DE.
  Proof.
    unfold doomed. intros H. unfold tp_dispatch, tp_key_prim, tp_visit_key.
    destruct (nth_error tokens i) as [[]|]; try discriminate H; destruct h; reflexivity.
  Qed.

  Lemma doomed_walk f sh i st st' : doomed i = true -> sh = ShStr \/ sh = ShAny \/ sh = ShIgn ->
    walk F ops2 f true sh i st = walk F ops2 f true sh i st'.
  Proof.
    intros Hd Hs. destruct f as [|f]; [reflexivity|].
    destruct Hs as [->|[->| ->]]; cbn [walk]; unfold walk_plain; cbn [p_dispatch ops2];
      rewrite !doomed_dispatch by exact Hd; reflexivity.
  Qed.

  Section Step.
    Variable f : nat.
    Hypothesis IH : forall k sh tok st, walk F ops f k sh tok st = walk F ops2 f k sh tok st.

    Lemma key_of_eq root ks a : key_of ops (walk F ops f) root ks a = key_of ops2 (walk F ops2 f) root ks a.
    Proof.
      unfold key_of. unfold ops_tape at 1. unfold ops2 at 1. cbn [p_next_key]. unfold tp_next_key, tp_next_key2.
      destruct (Nat.ltb (t_idx a) (t_end a)); [|reflexivity].
      destruct (tp_skip tokens (S (t_idx a))) as [nk| | | |]; try reflexivity. cbn [obind].
      destruct (doomed (t_idx a)) eqn:Ed.
      - destruct ks as [|tk fs| |].
        + rewrite IH. rewrite (doomed_walk f ShStr _ _ (mkcur (t_end a) (t_end a) (S (t_idx a))) Ed) by auto. reflexivity.
        + unfold ops_tape at 1. unfold ops2 at 1. cbn [p_dispatch]. rewrite !doomed_dispatch by exact Ed. reflexivity.
        + rewrite IH. rewrite (doomed_walk f ShAny _ _ (mkcur (t_end a) (t_end a) (S (t_idx a))) Ed) by auto. reflexivity.
        + rewrite IH. rewrite (doomed_walk f ShIgn _ _ (mkcur (t_end a) (t_end a) (S (t_idx a))) Ed) by auto. reflexivity.
      - destruct ks as [|tk fs| |]; rewrite ?IH; reflexivity.
    Qed.

    Lemma value_of_eq s a : value_of ops (walk F ops f) s a = value_of ops2 (walk F ops2 f) s a.
    Proof. unfold value_of. cbn. apply IH. Qed.

    Lemma elem_of_eq s a : t_end a < L -> elem_of ops (walk F ops f) s a = elem_of ops2 (walk F ops2 f) s a.
    Proof.
      intros Ha. unfold elem_of. unfold ops_tape at 1. unfold ops2 at 1. cbn [p_next_elem]. unfold tp_next_elem2.
      apply Nat.ltb_lt in Ha. rewrite Ha.
      destruct (tp_next_elem tokens a) as [[ot a1]| | | |]; try reflexivity. cbn [obind].
      destruct ot; [rewrite IH|]; reflexivity.
    Qed.

    Lemma elem_of_pres s a o a' : t_end a < L -> elem_of ops (walk F ops f) s a = Ok (o, a') -> t_end a' < L.
    Proof.
      intros Ha. unfold elem_of. unfold ops_tape at 1. cbn [p_next_elem]. unfold tp_next_elem.
      destruct (Nat.leb (t_end a) (t_idx a)).
      - cbn. intros H; inversion H; subst; exact Ha.
      - destruct (tp_skip tokens (t_idx a)) as [nk| | | |]; try discriminate. cbn [obind].
        destruct (walk F ops f false s (t_idx a) (mkcur (S nk) (t_end a) (t_vind a))) as [[v a2]| | | |] eqn:E; try discriminate.
        apply walk_state_ops in E. subst a2. cbn. intros H; inversion H; subst. exact Ha.
    Qed.

    Lemma walk_plain_eq k sh tok st :
      walk_plain F ops (walk F ops f) f k sh tok st = walk_plain F ops2 (walk F ops2 f) f k sh tok st.
    Proof.
      unfold walk_plain. unfold ops_tape at 1. unfold ops2 at 1. cbn [p_dispatch].
      destruct (tp_dispatch cfg tokens k (hint_of sh) tok st) as [[a st1]| | | |] eqn:Ed; try reflexivity. cbn [obind].
      pose proof (dispatch_sub _ _ _ _ _ _ Ed) as Hsub.
      destruct a as [p|sub|c|sub].
      - reflexivity.
      - rewrite (visit_seq_ext (elem_of ops (walk F ops f)) (elem_of ops2 (walk F ops2 f)) (fun a => t_end a < L)
                   elem_of_eq elem_of_pres f sh sub Hsub). reflexivity.
      - reflexivity.
      - rewrite (visit_map_ext (key_of ops (walk F ops f) false) (key_of ops2 (walk F ops2 f) false)
                   (value_of ops (walk F ops f)) (value_of ops2 (walk F ops2 f)) (key_of_eq false) value_of_eq). reflexivity.
    Qed.
  End Step.

  Theorem walk_eq : forall f k sh tok st, walk F ops f k sh tok st = walk F ops2 f k sh tok st.
  Proof.
    induction f as [|f IH]; intros k sh tok st; [reflexivity|].
    destruct sh; cbn [walk]; try (apply walk_plain_eq; exact IH); try reflexivity.
    rewrite IH. reflexivity.
  Qed.

  Theorem walk_root_eq fuel sh st : walk_root F ops fuel sh st = walk_root F ops2 fuel sh st.
  Proof.
    destruct sh; try reflexivity; cbn [walk_root];
      rewrite (visit_map_ext (key_of ops (walk F ops fuel) true) (key_of ops2 (walk F ops2 fuel) true)
                 (value_of ops (walk F ops fuel)) (value_of ops2 (walk F ops2 fuel))
                 (key_of_eq fuel (walk_eq fuel) true) (value_of_eq fuel (walk_eq fuel))); reflexivity.
  Qed.
End Ops2.

(* ================================================================== the instance of the generic theorem *)
Section Inst.
  Variable cfg : bcfg.
  Variable tokens : tape.
  Hypothesis Hcfg : cfg_ok cfg.
  Hypothesis Hwf : tape_wf tokens.
  Hypothesis Hpay : Forall tok_ok tokens.
  Notation L := (length tokens).
  Notation F := (c_fops cfg).
  Notation skip := (skipof tokens).

  Definition IT (i : nat) : Prop := i < L.
  Definition mt (k : bool) (i : nat) : nat := if k then 0 else skip i - i.
  Definition mu (st : tcur) : nat := S (t_end st) - t_idx st.
  Definition tot (st : tcur) : nat := mu st + mt false (t_vind st).
  (* a cursor inside the container whose End token sits at t_end *)
  Definition inner (st : tcur) : Prop := exists b, nth_error tokens (t_end st) = Some (TEnd b) /\ b < t_idx st.
  (* the root cursor *)
  Definition top (st : tcur) : Prop := t_end st = L /\ top_ok tokens (t_idx st).
  Definition IS (st : tcur) : Prop := t_vind st < L /\ (inner st \/ top st).

  Definition dpost (s : tcur) (k : bool) (t : nat) (r : action tcur rgb * tcur) : Prop :=
    IS (snd r) /\ mu (snd r) <= mu s + mt k t /\ tot (snd r) <= tot s + mt k t /\
    act_ok IS mu (mu s + mt k t) (fst r).

  Lemma visit_key_ok i : i < L -> strict prim_ok (tp_visit_key cfg tokens i).
  Proof.
    intros Hi. unfold tp_visit_key. destruct (nth_error tokens i) as [c|] eqn:E.
    2:{ apply nth_error_None in E. lia. }
    assert (Hc : tok_ok c) by (rewrite Forall_forall in Hpay; apply Hpay; eapply nth_error_In; eauto).
    destruct c; cbn [tok_ok] in Hc; try exact I; try (cbn; auto; fail).
    - apply str_prim_ok; assumption.
    - apply str_prim_ok; assumption.
    - apply id_prim_ok; assumption.
  Qed.

  Lemma same_post s k t (a : action tcur rgb) : IS s -> act_ok IS mu (mu s + mt k t) a -> dpost s k t (a, s).
  Proof. intros Hs Ha. unfold dpost. cbn [fst snd]. split; [exact Hs|]. split; [lia|]. split; [lia|]. exact Ha. Qed.

  Lemma key_prim_post s k t i : IS s -> i < L -> strict (dpost s k t) (tp_key_prim cfg tokens i s).
  Proof.
    intros Hs Hi. unfold tp_key_prim. eapply strict_bind; [apply visit_key_ok; exact Hi|].
    intros p Hp. cbn [strict]. apply same_post; [exact Hs|exact Hp].
  Qed.

  Lemma sub_IS i c x : nth_error tokens i = Some c -> container_end c = Some x ->
    IS (mkcur (S i) x 0) /\ mu (mkcur (S i) x 0) <= mt false i.
  Proof.
    intros E Hc. destruct Hwf as (Hl & _). destruct (Hl i c x E Hc) as (A & B & C).
    split; [split|].
    - cbn. lia.
    - left. exists i. cbn. split; [exact C|lia].
    - unfold mu, mt. cbn [t_end t_idx]. rewrite (skipof_cont tokens i c x E Hc). lia.
  Qed.

  Lemma dispatch_ok k h t s : IS s -> IT t -> strict (dpost s k t) (tp_dispatch cfg tokens k h t s).
  Proof.
    intros Hs Ht. unfold IT in Ht. pose proof (key_prim_post s k t t Hs Ht) as K.
    unfold tp_dispatch, tp_any. destruct (nth_error tokens t) as [c|] eqn:E.
    2:{ apply nth_error_None in E. lia. }
    assert (Hsub : forall x, container_end c = Some x -> k = false ->
              act_ok IS mu (mu s + mt k t) (@ASeq tcur rgb (mkcur (S t) x 0)) /\
              act_ok IS mu (mu s + mt k t) (@AMap tcur rgb (mkcur (S t) x 0))).
    { intros x Hx ->. destruct (sub_IS t c x E Hx) as [A B]. cbn [act_ok]. split; (split; [exact A|lia]). }
    destruct k; destruct h; destruct c; try exact K; try exact I;
      cbn [strict]; apply same_post; auto; try exact I;
      try (apply (Hsub _ eq_refl eq_refl)).
  Qed.

  Lemma next_elem2_ok s : IS s ->
    strict (fun r => IS (snd r) /\
              match fst r with
              | Some t => IT t /\ mu (snd r) + mt false t + 1 <= mu s
              | None => mu (snd r) <= mu s
              end) (tp_next_elem2 tokens s).
  Proof.
    intros Hs. unfold tp_next_elem2. destruct (Nat.ltb (t_end s) L) eqn:El; [|cbn; auto].
    apply Nat.ltb_lt in El. unfold tp_next_elem. destruct (Nat.leb (t_end s) (t_idx s)) eqn:Ei; [cbn; auto|].
    apply Nat.leb_gt in Ei. destruct Hs as [Hv [(b & Hb & Hlt)|[Ht _]]]; [|lia].
    assert (Hi : t_idx s < L) by lia.
    rewrite (tp_skip_ok tokens _ Hi). cbn [obind strict fst snd].
    destruct (skipof_bounds tokens Hwf _ Hi) as [A _].
    pose proof (skipof_inside tokens Hwf b (t_end s) (t_idx s) Hb Hlt ltac:(lia)) as B.
    split; [split; [exact Hv|left; exists b; cbn; split; [exact Hb|lia]]|].
    split; [exact Hi|]. unfold mu, mt. cbn [t_end t_idx]. lia.
  Qed.

  Lemma doomed_scalar i c : nth_error tokens i = Some c -> doomed tokens i = negb (is_scalar c).
  Proof. intros E. unfold doomed. rewrite E. destruct c; reflexivity. Qed.

  Lemma next_key2_ok root s : IS s ->
    strict (fun r => IS (snd r) /\
              match fst r with
              | Some t => IT t /\ tot (snd r) + mt true t + 1 <= mu s
              | None => mu (snd r) <= mu s
              end) (tp_next_key2 tokens root s).
  Proof.
    intros Hs. unfold tp_next_key2. destruct (Nat.ltb (t_idx s) (t_end s)) eqn:Ei; [|cbn; auto].
    apply Nat.ltb_lt in Ei. destruct Hs as [Hv [(b & Hb & Hlt)|[Ht Htop]]].
    - pose proof (end_lt_len tokens _ _ Hb) as He.
      assert (Hvi : S (t_idx s) < L) by lia.
      rewrite (tp_skip_ok tokens _ Hvi). cbn [obind strict fst snd].
      destruct (skipof_bounds tokens Hwf _ Hvi) as [A _].
      pose proof (skipof_inside tokens Hwf b (t_end s) (S (t_idx s)) Hb ltac:(lia) ltac:(lia)) as B.
      destruct (doomed tokens (t_idx s)).
      + split; [split; [exact Hvi|left; exists b; cbn; split; [exact Hb|lia]]|].
        split; [unfold IT; lia|]. unfold tot, mu, mt. cbn [t_end t_idx t_vind]. lia.
      + split; [split; [exact Hvi|left; exists b; cbn; split; [exact Hb|lia]]|].
        split; [unfold IT; lia|]. unfold tot, mu, mt. cbn [t_end t_idx t_vind]. lia.
    - rewrite Ht in Ei. inversion Htop as [idx Hge|idx c Hn Hsc Hvi|idx k Hn Hsc Hvi Hrest]; subst idx; [lia| |].
      + rewrite (tp_skip_ok tokens _ Hvi). cbn [obind strict fst snd].
        destruct (skipof_bounds tokens Hwf _ Hvi) as [A B].
        rewrite (doomed_scalar _ _ Hn), Hsc. cbn [negb].
        split; [split; [exact Hvi|right; split; [cbn; exact Ht|apply TO_end; cbn; lia]]|].
        split; [exact Ei|]. unfold tot, mu, mt. cbn [t_end t_idx t_vind]. lia.
      + rewrite (tp_skip_ok tokens _ Hvi). cbn [obind strict fst snd].
        destruct (skipof_bounds tokens Hwf _ Hvi) as [A B].
        rewrite (doomed_scalar _ _ Hn), Hsc. cbn [negb].
        split; [split; [exact Hvi|right; split; [exact Ht|exact Hrest]]|].
        split; [exact Ei|]. unfold tot, mu, mt. cbn [t_end t_idx t_vind]. lia.
  Qed.

  Theorem deser_tokens_ok b fuel sh : tokens <> [] -> top_ok tokens 0 -> okshape b sh ->
    gd2 b (S L + shape_size sh + 1 <= fuel) (fun _ => True) (deser_tokens cfg tokens fuel sh).
  Proof.
    intros Hne Htop Hsh. unfold deser_tokens. pose proof Hwf as (Hlinks & _). rewrite (walk_root_eq cfg tokens Hlinks).
    eapply gd2_mono; [apply (walk_root_ok F (ops2 cfg tokens) b IS IT mu tot mt)| |intros; exact I].
    - intros s. unfold tot. lia.
    - intros k h t s. apply dispatch_ok.
    - intros s. apply next_elem2_ok.
    - intros h s1 sub d H1 H2. cbn. auto.
    - intros s1 sub H1 H2. cbn. auto.
    - intros root s. apply next_key2_ok.
    - intros s Hs. cbn. unfold tot. destruct Hs as [Hv Hs]. split; [exact Hv|]. split; [split; [exact Hv|exact Hs]|lia].
    - intros n sh0 c. apply color_visit_strict.
    - split; [cbn; destruct tokens; [congruence|cbn; lia]|]. right. split; [reflexivity|exact Htop].
    - exact Hsh.
    - unfold mu. cbn [t_end t_idx]. lia.
  Qed.
End Inst.

(* the empty tape (empty input): the root map is exhausted at once *)
Lemma deser_tokens_nil cfg b fuel sh : okshape b sh ->
  gd2 b (1 <= fuel) (fun _ => True) (deser_tokens cfg [] fuel sh).
Proof.
  intros Hsh. unfold deser_tokens.
  destruct fuel as [|fuel]; [destruct sh; cbn; try lia; auto; revert Hsh; unfold okshape; cbn; destruct b; auto; intros H; specialize (H eq_refl); discriminate|].
  destruct sh; try exact I.
  - assert (K : forall rec ks, key_of (ops_tape cfg []) rec true ks (mkcur 0 (length (@nil tok)) 0) = Ok (None, mkcur 0 0 0)) by reflexivity.
    cbn [walk_root visit_map struct_loop]. rewrite K. cbn [obind].
    eapply gd2_bind with (P := fun _ => True); [|intros [v s0] _; exact I].
    eapply gd2_bind; [apply strict_gd2, slots_finish_strict; unfold slots_init; apply map_length|]. intros; exact I.
  - revert Hsh. unfold okshape. cbn. destruct b; auto. intros H; specialize (H eq_refl); discriminate.
Qed.

(* ================================================================== the entry point *)
(* every tape with the three facts: the walk with fuel >= len + shape + 2 *)
Theorem deser_tokens_total cfg tokens b fuel sh :
  cfg_ok cfg -> tape_wf tokens -> Forall NoCrashTapeWalksDefs.tok_ok tokens -> kvgood 0 tokens -> okshape b sh ->
  gd2 b (S (length tokens) + shape_size sh + 1 <= fuel) (fun _ => True) (deser_tokens cfg tokens fuel sh).
Proof.
  intros Hc Hwf Hpay Hkv Hsh. destruct tokens as [|x r] eqn:E.
  - eapply gd2_mono; [apply deser_tokens_nil; exact Hsh|cbn; lia|intros; exact I].
  - rewrite <- E in *. apply deser_tokens_ok; auto.
    + rewrite E. discriminate.
    + apply (kvgood_top_ok 0 tokens Hkv []). reflexivity.
Qed.

(* BinDeTape.deser_tape: parse_opt, then the walk with the entry point's own fuel deser_fuel *)
Theorem deser_tape_ok cfg (Hcfg : cfg_ok cfg) b sh d : wfl d -> okshape b sh ->
  gd2 b True (fun _ => True) (deser_tape cfg sh d).
Proof.
  intros Hd Hsh. unfold deser_tape.
  pose proof (parse_no_crash fast_path_excludes_i64 true d) as NC. unfold parse_opt.
  destruct (parse fast_path_excludes_i64 true d) as [t|e|s|s|] eqn:E; try discriminate NC; [|exact I].
  destruct (parse_tape_facts _ _ _ Hd E) as (Hpay & Hlen & Hkv).
  pose proof (parse_wf _ _ _ _ E) as Hwf.
  eapply gd2_mono; [apply (deser_tokens_total cfg t b (deser_fuel sh d) sh Hcfg Hwf Hpay Hkv Hsh)| |intros; exact I].
  intros _. unfold deser_fuel. lia.
Qed.
