(* C05 for the binary TAPE deserializer walk (BinDeTape.deser_tape = SerdeShape.walk over
   BinDeTape.ops_tape on the tape that BinTape.parse_opt returns).

   The unchecked `tokens[value_ind]` of BinaryMap::next_key_seed (Panic 9206 in the model) and the
   other `tokens[i]` sites (9201..9205) are discharged from three facts about the parser's output:
     BinTapeWf.tape_wf        (C06: links, back links, grammar)  -> every nested cursor stays inside
                              its container (laminarity of the links), every index handed out is < len
     kvgood 0 tape            (NoCrashTapeWalksDefs/Inv)         -> the top-level cursor never puts a
                              scalar key on the last token
     Forall tok_ok tape       payloads are real (i32 range, bytes < 256): the Date / String visitors
     length tape <= length d  the entry point's own fuel deser_fuel is enough.

   Method: the generic theorem NoCrashWalk.walk_root_ok needs ONE invariant IS on cursors that every
   operation preserves.  Two behaviours of the real operations do not fit:
     (D1) after a key that is a container / End token, next_key_seed leaves the cursor somewhere
          inside that container (the key deserializer then fails, the cursor is never used again);
     (D2) next_element on the top-level cursor (never called: the root is a map).
   So the theorem is instantiated for [ops2], which differs from ops_tape exactly there (a refused
   key parks the cursor at the end; next_element on a cursor whose end is not a tape index answers
   None), and [walk_eq] proves that the walk over ops_tape and the walk over ops2 are EQUAL (same
   outcome, for every fuel / shape / token / state) on a tape whose links are in range. *)
From JV.proofs Require Import SwarLanes BinTapeWfProofs NoCrashWalk NoCrashBinDe NoCrashTapeWalksDefs.
From JV Require Import Bytes Tables Date BinPrim BinTape BinTapeWf SerdeShape BinDeCommon BinDeTape.
From Coq Require Import List NArith ZArith Bool Lia Arith.
Import ListNotations.
Open Scope nat_scope.

(* ================================================================== facts about well-formed tapes *)

(* links are laminar: a container that starts inside another one ends inside it *)
Lemma cs_laminar : forall b l, closed_seq b l ->
  forall i j ci ei cj ej,
    nth_error l i = Some ci -> container_end ci = Some ei ->
    nth_error l j = Some cj -> container_end cj = Some ej ->
    i < j -> b + j < ei -> ej < ei.
Proof.
  induction 1; intros i j ci ei cj ej Hi Hci Hj Hcj Hij Hje.
  - destruct i; discriminate.
  - destruct i as [|i]; cbn in Hi.
    + inversion Hi; subst. destruct ci; cbn in *; discriminate.
    + destruct j as [|j]; [lia|]. cbn in Hj. eapply (IHclosed_seq i j); eauto; lia.
  - subst e. destruct j as [|j]; [lia|]. cbn in Hj.
    destruct i as [|i]; cbn in Hi.
    + inversion Hi; subst ci. rewrite H in Hci. inversion Hci; subst ei.
      assert (Hjl : j < length inner) by lia.
      rewrite nth_error_app1 in Hj by exact Hjl.
      destruct (cs_links _ _ H1 _ _ _ Hj Hcj) as (_ & B & _). lia.
    + destruct (Nat.lt_ge_cases i (length inner)) as [Hlt|Hge].
      * rewrite nth_error_app1 in Hi by exact Hlt.
        destruct (cs_links _ _ H1 _ _ _ Hi Hci) as (_ & B & _).
        assert (Hjl : j < length inner) by lia.
        rewrite nth_error_app1 in Hj by exact Hjl.
        eapply (IHclosed_seq1 i j); eauto; lia.
      * rewrite nth_error_app2 in Hi by exact Hge.
        destruct (i - length inner) as [|k] eqn:Ek; cbn in Hi.
        { inversion Hi; subst ci. discriminate. }
        rewrite nth_error_app2 in Hj by lia.
        destruct (j - length inner) as [|k'] eqn:Ek'; [lia|]. cbn in Hj.
        eapply (IHclosed_seq2 k k'); eauto; lia.
Qed.

Section TapeFacts.
  Variable tokens : tape.
  Hypothesis Hwf : tape_wf tokens.
  Notation L := (length tokens).

  (* `match self.tokens[i] { Array(x) | Object(x) => x, _ => i }` *)
  Definition skipof (i : nat) : nat :=
    match nth_error tokens i with
    | Some (TArray x) | Some (TObject x) => x
    | _ => i
    end.

  Lemma skipof_cont i c e : nth_error tokens i = Some c -> container_end c = Some e -> skipof i = e.
  Proof. intros H Hc. unfold skipof. rewrite H. destruct c; cbn in Hc; inversion Hc; reflexivity. Qed.

  Lemma skipof_other i : (forall c e, nth_error tokens i = Some c -> container_end c = Some e -> False) -> skipof i = i.
  Proof.
    intros H. unfold skipof. destruct (nth_error tokens i) as [c|] eqn:E; [|reflexivity].
    destruct c; try reflexivity; exfalso; eapply H; eauto; reflexivity.
  Qed.

  Lemma skipof_bounds i : i < L -> i <= skipof i /\ skipof i < L.
  Proof.
    intros Hi. destruct Hwf as (Hl & _). unfold skipof.
    destruct (nth_error tokens i) as [c|] eqn:E; [|lia].
    destruct c; try lia; destruct (Hl i _ _ E eq_refl) as (A & B & _); lia.
  Qed.

  Lemma tp_skip_ok i : i < L -> tp_skip tokens i = Ok (skipof i).
  Proof.
    intros Hi. unfold tp_skip, skipof. destruct (nth_error tokens i) as [c|] eqn:E.
    - destruct c; reflexivity.
    - apply nth_error_None in E. lia.
  Qed.

  (* inside the container whose End sits at en *)
  Lemma skipof_inside b en p : nth_error tokens en = Some (TEnd b) -> b < p -> p <= en -> skipof p <= en.
  Proof.
    intros He Hb Hp. destruct Hwf as (Hl & Hb' & _ & Hcs).
    destruct (Nat.eq_dec p en) as [->|Hne].
    - unfold skipof. rewrite He. lia.
    - unfold skipof. destruct (nth_error tokens p) as [c|] eqn:E; [|lia].
      destruct (Hb' _ _ He) as (_ & cb & Hcb & Hce).
      assert (K : forall x, container_end c = Some x -> x <= en).
      { intros x Hx. pose proof (cs_laminar _ _ Hcs b p cb en c x Hcb Hce E Hx Hb ltac:(cbn; lia)). lia. }
      destruct c; try lia; apply K; reflexivity.
  Qed.

  Lemma end_lt_len en b : nth_error tokens en = Some (TEnd b) -> en < L.
  Proof. intros H. apply nth_error_Some. congruence. Qed.

  (* ---------------- the top-level cursor *)
  Inductive top_ok : nat -> Prop :=
  | TO_end : forall idx, L <= idx -> top_ok idx
  | TO_doom : forall idx c, nth_error tokens idx = Some c -> is_scalar c = false -> S idx < L -> top_ok idx
  | TO_pair : forall idx k, nth_error tokens idx = Some k -> is_scalar k = true -> S idx < L ->
      top_ok (S (skipof (S idx))) -> top_ok idx.
End TapeFacts.

Lemma kvgood_top_ok : forall b l, kvgood b l -> forall pre, length pre = b -> top_ok (pre ++ l) b.
Proof.
  induction 1; intros pre Hpre.
  - apply TO_end. rewrite app_nil_r. lia.
  - subst b. eapply TO_doom; [apply nth_error_here|exact H|].
    rewrite app_length. cbn [length]. destruct r; [congruence|cbn [length]; lia].
  - subst b. destruct H0 as (x & rest & -> & Hx).
    eapply TO_pair; [apply nth_error_here|exact H|rewrite app_length; cbn [length app]; lia|].
    assert (Hsk : skipof (pre ++ k :: (x :: rest) ++ r) (S (length pre)) = S (length pre) + length rest).
    { assert (Hn : nth_error (pre ++ k :: (x :: rest) ++ r) (S (length pre)) = Some x).
      { replace (pre ++ k :: (x :: rest) ++ r) with ((pre ++ [k]) ++ x :: (rest ++ r)) by (rewrite <- app_assoc; reflexivity).
        replace (S (length pre)) with (length (pre ++ [k])) by (rewrite app_length; cbn; lia). apply nth_error_here. }
      unfold skipof. rewrite Hn. destruct x; cbn in Hx; try (subst rest; cbn [length]; lia); inversion Hx; reflexivity. }
    rewrite Hsk.
    specialize (IHkvgood (pre ++ k :: x :: rest)).
    replace ((pre ++ k :: x :: rest) ++ r) with (pre ++ k :: (x :: rest) ++ r) in IHkvgood by (rewrite <- app_assoc; reflexivity).
    replace (S (S (length pre) + length rest)) with (S (length pre) + length (x :: rest)) by (cbn [length]; lia).
    apply IHkvgood. rewrite app_length. cbn [length]. lia.
Qed.

(* ================================================================== extensionality of the visitor loops *)
Section SeqExt.
  Context {A : Type}.
  Variables elem elem' : shape -> A -> outcome (option dval * A).
  Variable P : A -> Prop.
  Hypothesis Heq : forall s a, P a -> elem s a = elem' s a.
  Hypothesis Hpres : forall s a o a', P a -> elem s a = Ok (o, a') -> P a'.

  Lemma seq_loop_ext : forall n s a acc, P a -> seq_loop elem n s a acc = seq_loop elem' n s a acc.
  Proof.
    induction n as [|n IH]; intros s a acc Ha; [reflexivity|]. cbn [seq_loop].
    rewrite <- (Heq s a Ha). destruct (elem s a) as [[o a']| | | |] eqn:E; try reflexivity. cbn [obind].
    destruct o; [|reflexivity]. apply IH. eapply Hpres; eauto.
  Qed.

  Lemma tup_loop_ext : forall ss a acc, P a -> tup_loop elem ss a acc = tup_loop elem' ss a acc.
  Proof.
    induction ss as [|s ss IH]; intros a acc Ha; [reflexivity|]. cbn [tup_loop].
    rewrite <- (Heq s a Ha). destruct (elem s a) as [[o a']| | | |] eqn:E; try reflexivity. cbn [obind].
    destruct o; [|reflexivity]. apply IH. eapply Hpres; eauto.
  Qed.

  Lemma visit_seq_ext n sh a : P a -> visit_seq elem n sh a = visit_seq elem' n sh a.
  Proof.
    intros Ha. destruct sh; cbn [visit_seq]; try reflexivity;
      first [rewrite (seq_loop_ext n _ a [] Ha)|rewrite (tup_loop_ext _ a [] Ha)]; reflexivity.
  Qed.
End SeqExt.

Section MapExt.
  Context {A : Type}.
  Variables key key' : kseed -> A -> outcome (option kres * A).
  Variables value value' : shape -> A -> outcome (dval * A).
  Hypothesis Hk : forall ks a, key ks a = key' ks a.
  Hypothesis Hv : forall s a, value s a = value' s a.

  Lemma map_loop_ext : forall n s a acc, map_loop key value n s a acc = map_loop key' value' n s a acc.
  Proof.
    induction n as [|n IH]; intros s a acc; [reflexivity|]. cbn [map_loop].
    rewrite <- Hk. destruct (key KString a) as [[k a1]| | | |]; try reflexivity. cbn [obind].
    destruct k as [[ks|i|v|]|]; try reflexivity.
    rewrite <- Hv. destruct (value s a1) as [[v a2]| | | |]; try reflexivity. cbn [obind]. apply IH.
  Qed.

  Lemma amap_loop_ext : forall n a acc, amap_loop key value n a acc = amap_loop key' value' n a acc.
  Proof.
    induction n as [|n IH]; intros a acc; [reflexivity|]. cbn [amap_loop].
    rewrite <- Hk. destruct (key KAny a) as [[k a1]| | | |]; try reflexivity. cbn [obind].
    destruct k as [[ks|i|v|]|]; try reflexivity.
    rewrite <- Hv. destruct (value ShAny a1) as [[v0 a2]| | | |]; try reflexivity. cbn [obind]. apply IH.
  Qed.

  Lemma ign_loop_ext : forall n a, ign_loop key value n a = ign_loop key' value' n a.
  Proof.
    induction n as [|n IH]; intros a; [reflexivity|]. cbn [ign_loop].
    rewrite <- Hk. destruct (key KIgn a) as [[k a1]| | | |]; try reflexivity. cbn [obind].
    destruct k as [k|]; try reflexivity.
    rewrite <- Hv. destruct (value ShIgn a1) as [[v0 a2]| | | |]; try reflexivity. cbn [obind]. apply IH.
  Qed.

  Lemma struct_loop_ext : forall n tk fs a sl, struct_loop key value n tk fs a sl = struct_loop key' value' n tk fs a sl.
  Proof.
    induction n as [|n IH]; intros tk fs a sl; [reflexivity|]. cbn [struct_loop].
    rewrite <- Hk. destruct (key (KField tk fs) a) as [[k a1]| | | |]; try reflexivity. cbn [obind].
    destruct k as [[ks|i|v|]|]; try reflexivity. destruct i as [i|].
    - destruct (nth_error fs i) as [f0|]; [|reflexivity].
      destruct (slot_pre sl (f_mode f0) i); try reflexivity. cbn [obind].
      rewrite <- Hv. destruct (value (f_shape f0) a1) as [[v a2]| | | |]; try reflexivity. cbn [obind]. apply IH.
    - rewrite <- Hv. destruct (value ShIgn a1) as [[v a2]| | | |]; try reflexivity. cbn [obind]. apply IH.
  Qed.

  Lemma visit_map_ext n sh a : visit_map key value n sh a = visit_map key' value' n sh a.
  Proof.
    destruct sh; cbn [visit_map]; try reflexivity;
      first [rewrite map_loop_ext|rewrite struct_loop_ext|rewrite amap_loop_ext|rewrite ign_loop_ext]; reflexivity.
  Qed.
End MapExt.

(* a deserializer whose states are only handed through (the tape path: every access object owns
   its indices) returns the state it was given *)
Section StateSame.
  Context {S T C : Type}.
  Variable F : fops.
  Variable ops : path_ops S T C.
  Hypothesis Hd : forall k h t s a s', p_dispatch ops k h t s = Ok (a, s') -> s' = s.
  Hypothesis Hs : forall h s1 sub d s', p_seq_exit ops h s1 sub d = Ok s' -> s' = s1.
  Hypothesis Hm : forall s1 sub s', p_map_exit ops s1 sub = Ok s' -> s' = s1.

  Lemma walk_plain_state rec f k sh tok st v st' : walk_plain F ops rec f k sh tok st = Ok (v, st') -> st' = st.
  Proof.
    unfold walk_plain. destruct (p_dispatch ops k (hint_of sh) tok st) as [[a st1]| | | |] eqn:Ed; try discriminate.
    apply Hd in Ed. subst st1. cbn [obind]. destruct a as [p|sub|c|sub].
    - destruct (visit_prim F sh p); try discriminate. cbn. intros H; inversion H; reflexivity.
    - destruct (visit_seq (elem_of ops rec) f sh sub) as [[r dr]| | | |]; try discriminate. cbn [obind].
      destruct (p_seq_exit ops (hint_of sh) st (snd r) dr) as [st2| | | |] eqn:Ee; try discriminate. cbn.
      apply Hs in Ee. intros H; inversion H; congruence.
    - destruct (p_color ops f sh c); try discriminate. cbn. intros H; inversion H; reflexivity.
    - destruct (visit_map (key_of ops rec false) (value_of ops rec) f sh sub) as [[v0 sub']| | | |]; try discriminate. cbn [obind].
      destruct (p_map_exit ops st sub') as [st2| | | |] eqn:Ee; try discriminate. cbn.
      apply Hm in Ee. intros H; inversion H; congruence.
  Qed.

  Lemma walk_state : forall f k sh tok st v st', walk F ops f k sh tok st = Ok (v, st') -> st' = st.
  Proof.
    induction f as [|f IH]; intros k sh tok st v st'; [discriminate|].
    destruct sh; cbn [walk]; try apply walk_plain_state.
    - destruct (walk F ops f k sh tok st) as [[v0 st0]| | | |] eqn:E; try discriminate. cbn.
      apply IH in E. intros H; inversion H; congruence.
    - discriminate.
    - unfold walk_enum. destruct (p_dispatch ops k HIdent tok st) as [[a st1]| | | |] eqn:Ed; try discriminate.
      apply Hd in Ed. subst st1. cbn [obind]. destruct a; try discriminate.
      destruct (visit_variant variants p); try discriminate. cbn. intros H; inversion H; reflexivity.
  Qed.
End StateSame.

(* ================================================================== ops2 and walk over ops_tape = walk over ops2 *)
Section Ops2.
  Variable cfg : bcfg.
  Variable tokens : tape.
  Hypothesis Hlinks : links_ok tokens.
  Notation L := (length tokens).
  Notation F := (c_fops cfg).
  Notation ops := (ops_tape cfg tokens).

  (* KeyDeserializer refuses these tokens whatever the visitor *)
  Definition doomed (i : nat) : bool :=
    match nth_error tokens i with
    | Some (TObject _) | Some (TArray _) | Some (TEnd _) => true
    | _ => false
    end.

  Definition tp_next_key2 (_ : bool) (st : tcur) : outcome (option nat * tcur) :=
    if Nat.ltb (t_idx st) (t_end st) then
      let vi := S (t_idx st) in
      do nk <- tp_skip tokens vi;
      Ok (Some (t_idx st),
          if doomed (t_idx st) then mkcur (t_end st) (t_end st) vi else mkcur (S nk) (t_end st) vi)
    else Ok (None, st).

  Definition tp_next_elem2 (st : tcur) : outcome (option nat * tcur) :=
    if Nat.ltb (t_end st) L then tp_next_elem tokens st else Ok (None, st).

  Definition ops2 : path_ops tcur nat rgb :=
    mkops (tp_dispatch cfg tokens) tp_next_elem2 (fun _ outer _ _ => Ok outer) (fun outer _ => Ok outer)
          tp_next_key2 tp_next_value (color_visit cfg).

  Lemma key_prim_same i st a st' : tp_key_prim cfg tokens i st = Ok (a, st') -> st' = st.
  Proof. unfold tp_key_prim. destruct (tp_visit_key cfg tokens i); cbn; intros H; inversion H; reflexivity. Qed.

  Lemma dispatch_same k h i st a st' : tp_dispatch cfg tokens k h i st = Ok (a, st') -> st' = st.
  Proof.
    pose proof (key_prim_same i st a st') as K.
    unfold tp_dispatch, tp_any.
    repeat (match goal with |- context [match ?x with _ => _ end] => destruct x end);
      intros H; try discriminate; try (inversion H; reflexivity); try (apply K; exact H).
  Qed.

  Lemma dispatch_sub k h i st a st' : tp_dispatch cfg tokens k h i st = Ok (a, st') ->
    match a with ASeq sub | AMap sub => t_end sub < L | _ => True end.
  Proof.
    assert (K : forall a st', tp_key_prim cfg tokens i st = Ok (a, st') -> match a with ASeq sub | AMap sub => t_end sub < L | _ => True end).
    { intros a0 st0. unfold tp_key_prim. destruct (tp_visit_key cfg tokens i); cbn; intros H; inversion H; exact I. }
    unfold tp_dispatch, tp_any. destruct (nth_error tokens i) as [c|] eqn:E.
    - assert (Hc : forall e, container_end c = Some e -> e < L) by (intros e He; destruct (Hlinks i c e E He) as (_ & B & _); exact B).
      destruct k; destruct h; destruct c; intros H; try (apply (K _ _ H)); try discriminate;
        inversion H; subst; cbn [t_end]; try exact I; apply Hc; reflexivity.
    - destruct k; destruct h; intros H; try discriminate; try (apply (K _ _ H)); inversion H; exact I.
  Qed.

  Lemma walk_state_ops : forall f k sh tok st v st', walk F ops f k sh tok st = Ok (v, st') -> st' = st.
  Proof.
    apply walk_state.
    - intros k h t s a s'. apply dispatch_same.
    - intros h s1 sub d s' H. inversion H; reflexivity.
    - intros s1 sub s' H. inversion H; reflexivity.
  Qed.

  Lemma doomed_dispatch i h st : doomed i = true -> tp_dispatch cfg tokens true h i st = Err EC_DE.
  Proof.
    unfold doomed. intros H. unfold tp_dispatch, tp_key_prim, tp_visit_key.
    destruct (nth_error tokens i) as [[]|]; try discriminate H; destruct h; reflexivity.
  Qed.

  Lemma doomed_walk f sh i st st' : doomed i = true -> sh = ShStr \/ sh = ShAny \/ sh = ShIgn ->
    walk F ops2 f true sh i st = walk F ops2 f true sh i st'.
  Proof.
    intros Hd Hs. destruct f as [|f]; [reflexivity|].
    destruct Hs as [->|[->| ->]]; cbn [walk]; unfold walk_plain; cbn [p_dispatch ops2];
      rewrite !doomed_dispatch by exact Hd; reflexivity.
  Qed.

  Section Step.
    Variable f : nat.
    Hypothesis IH : forall k sh tok st, walk F ops f k sh tok st = walk F ops2 f k sh tok st.

    Lemma key_of_eq root ks a : key_of ops (walk F ops f) root ks a = key_of ops2 (walk F ops2 f) root ks a.
    Proof.
      unfold key_of. unfold ops_tape at 1. unfold ops2 at 1. cbn [p_next_key]. unfold tp_next_key, tp_next_key2.
      destruct (Nat.ltb (t_idx a) (t_end a)); [|reflexivity].
      destruct (tp_skip tokens (S (t_idx a))) as [nk| | | |]; try reflexivity. cbn [obind].
      destruct (doomed (t_idx a)) eqn:Ed.
      - destruct ks as [|tk fs| |].
        + rewrite IH. rewrite (doomed_walk f ShStr _ _ (mkcur (t_end a) (t_end a) (S (t_idx a))) Ed) by auto. reflexivity.
        + unfold ops_tape at 1. unfold ops2 at 1. cbn [p_dispatch]. rewrite !doomed_dispatch by exact Ed. reflexivity.
        + rewrite IH. rewrite (doomed_walk f ShAny _ _ (mkcur (t_end a) (t_end a) (S (t_idx a))) Ed) by auto. reflexivity.
        + rewrite IH. rewrite (doomed_walk f ShIgn _ _ (mkcur (t_end a) (t_end a) (S (t_idx a))) Ed) by auto. reflexivity.
      - destruct ks as [|tk fs| |]; rewrite ?IH; reflexivity.
    Qed.

    Lemma value_of_eq s a : value_of ops (walk F ops f) s a = value_of ops2 (walk F ops2 f) s a.
    Proof. unfold value_of. cbn. apply IH. Qed.

    Lemma elem_of_eq s a : t_end a < L -> elem_of ops (walk F ops f) s a = elem_of ops2 (walk F ops2 f) s a.
    Proof.
      intros Ha. unfold elem_of. unfold ops_tape at 1. unfold ops2 at 1. cbn [p_next_elem]. unfold tp_next_elem2.
      apply Nat.ltb_lt in Ha. rewrite Ha.
      destruct (tp_next_elem tokens a) as [[ot a1]| | | |]; try reflexivity. cbn [obind].
      destruct ot; [rewrite IH|]; reflexivity.
    Qed.

    Lemma elem_of_pres s a o a' : t_end a < L -> elem_of ops (walk F ops f) s a = Ok (o, a') -> t_end a' < L.
    Proof.
      intros Ha. unfold elem_of. unfold ops_tape at 1. cbn [p_next_elem]. unfold tp_next_elem.
      destruct (Nat.leb (t_end a) (t_idx a)).
      - cbn. intros H; inversion H; subst; exact Ha.
      - destruct (tp_skip tokens (t_idx a)) as [nk| | | |]; try discriminate. cbn [obind].
        destruct (walk F ops f false s (t_idx a) (mkcur (S nk) (t_end a) (t_vind a))) as [[v a2]| | | |] eqn:E; try discriminate.
        apply walk_state_ops in E. subst a2. cbn. intros H; inversion H; subst. exact Ha.
    Qed.

    Lemma walk_plain_eq k sh tok st :
      walk_plain F ops (walk F ops f) f k sh tok st = walk_plain F ops2 (walk F ops2 f) f k sh tok st.
    Proof.
      unfold walk_plain. unfold ops_tape at 1. unfold ops2 at 1. cbn [p_dispatch].
      destruct (tp_dispatch cfg tokens k (hint_of sh) tok st) as [[a st1]| | | |] eqn:Ed; try reflexivity. cbn [obind].
      pose proof (dispatch_sub _ _ _ _ _ _ Ed) as Hsub.
      destruct a as [p|sub|c|sub].
      - reflexivity.
      - rewrite (visit_seq_ext (elem_of ops (walk F ops f)) (elem_of ops2 (walk F ops2 f)) (fun a => t_end a < L)
                   elem_of_eq elem_of_pres f sh sub Hsub). reflexivity.
      - reflexivity.
      - rewrite (visit_map_ext (key_of ops (walk F ops f) false) (key_of ops2 (walk F ops2 f) false)
                   (value_of ops (walk F ops f)) (value_of ops2 (walk F ops2 f)) (key_of_eq false) value_of_eq). reflexivity.
    Qed.
  End Step.

  Theorem walk_eq : forall f k sh tok st, walk F ops f k sh tok st = walk F ops2 f k sh tok st.
  Proof.
    induction f as [|f IH]; intros k sh tok st; [reflexivity|].
    destruct sh; cbn [walk]; try (apply walk_plain_eq; exact IH); try reflexivity.
    rewrite IH. reflexivity.
  Qed.

  Theorem walk_root_eq fuel sh st : walk_root F ops fuel sh st = walk_root F ops2 fuel sh st.
  Proof.
    destruct sh; try reflexivity; cbn [walk_root];
      rewrite (visit_map_ext (key_of ops (walk F ops fuel) true) (key_of ops2 (walk F ops2 fuel) true)
                 (value_of ops (walk F ops fuel)) (value_of ops2 (walk F ops2 fuel))
                 (key_of_eq fuel (walk_eq fuel) true) (value_of_eq fuel (walk_eq fuel))); reflexivity.
  Qed.
End Ops2.
