(* C14 (wave 4): a REUSED writer.  write_tape is a method of a stateful object: after the tape of d1 has
   been written, a second write_tape (the tape of d2) on the same writer continues the document -- the
   bytes of the two calls together are exactly what ONE write_tape prints for the tape of the
   concatenated document d1 ++ d2, so (C14_reparse) they parse back to it.
   [fapp] is only used to state this; it is not part of the executable model. *)
From JV Require Import Bytes Tables TextTok TextTape TextDoc Date Writer.
From JV.proofs Require Import WriterProofs WriterTapeProofs TextScanProofs TextParseProofs WriterLayoutDefs WriterLayoutProofs.
Require Import Lia.
Open Scope nat_scope.

Fixpoint fapp (a b : fields) : fields :=
  match a with FNil => b | FCons f r => FCons f (fapp r b) end.

Lemma wf_fapp a b : wf_fields a = true -> wf_fields b = true -> wf_fields (fapp a b) = true.
Proof.
  induction a as [|f r IH]; intros Ha Hb; cbn [fapp]; [exact Hb|].
  cbn [wf_fields] in *. apply andb_prop in Ha as [H1 H2]. rewrite H1. cbn [andb]. apply IH; assumption.
Qed.

Lemma rt_fapp a b : rt_fields a = true -> rt_fields b = true -> rt_fields (fapp a b) = true.
Proof.
  induction a as [|f r IH]; intros Ha Hb; cbn [fapp]; [exact Hb|].
  cbn [rt_fields] in *. apply andb_prop in Ha as [H1 H2]. rewrite H1. cbn [andb]. apply IH; assumption.
Qed.

Lemma ch_fields_fapp c n a : forall g b,
  ch_fields c n g (fapp a b) = ch_fields c n g a ++ ch_fields c n (if fields_empty a then g else nli c n) b.
Proof.
  induction a as [|f r IH]; intros g b; cbn [fapp ch_fields fields_empty app]; [reflexivity|].
  rewrite IH, <- app_assoc. destruct r; reflexivity.
Qed.

Lemma fapp_nonempty a b : a <> FNil -> fields_empty (fapp a b) = false.
Proof. destruct a; [congruence|reflexivity]. Qed.

Lemma nobom_fapp a b : a <> FNil -> nobom (fapp a b) = nobom a.
Proof. destruct a as [|f r]; [congruence|]. intros _. destruct f; reflexivity. Qed.

Lemma rt_fapp_doc d1 d2 : rt d1 -> wf_doc d2 -> rt_fields d2 = true -> d1 <> FNil -> rt (fapp d1 d2).
Proof.
  intros [Hwf [Hrt Hnb]] Hwf2 Hrt2 Hne. split; [apply wf_fapp; assumption|]. split; [apply rt_fapp; assumption|].
  rewrite nobom_fapp; assumption.
Qed.

Definition wk : wr := mkwr DObject [] WKey true MDisabled.

(* the second traversal, from the state the first one left *)
Lemma second_tape c d2 : wf_doc d2 -> rt_fields d2 = true ->
  wt (tape_fuel (flatten d2)) c (flatten d2) (JCore 0 (length (flatten d2))) wk
  = WOk wk (cbytes (ch_fields c 0 (nli c 0) d2)).
Proof.
  intros Hwf Hrt. unfold flatten, tape_fuel. rewrite flat_fields_len.
  destruct (write_all c (flat_fields false 0 d2)) as [_ [_ [HF _]]].
  pose proof (HF d2 (4 * fslen false d2 + 16) 0 wk Hrt Hwf (seg_self _)) as E. cbn [Nat.add] in E.
  rewrite E; [|lia|repeat split; auto].
  f_equal. destruct d2; reflexivity.
Qed.

Theorem reuse_continues c d1 d2 : rt d1 -> wf_doc d2 -> rt_fields d2 = true -> d1 <> FNil ->
  exists o1 o2,
    write_tape (tape_fuel (flatten d1)) c (flatten d1) = WOk wk o1 /\
    wt (tape_fuel (flatten d2)) c (flatten d2) (JCore 0 (length (flatten d2))) wk = WOk wk o2 /\
    write_tape (tape_fuel (flatten (fapp d1 d2))) c (flatten (fapp d1 d2)) = WOk wk (o1 ++ o2) /\
    rt (fapp d1 d2).
Proof.
  intros Hr1 Hwf2 Hrt2 Hne. pose proof Hr1 as [Hwf1 [Hrt1 _]].
  pose proof (rt_fapp_doc d1 d2 Hr1 Hwf2 Hrt2 Hne) as Hr12. pose proof Hr12 as [Hwf12 [Hrt12 _]].
  exists (cbytes (chunks_w c d1)), (cbytes (ch_fields c 0 (nli c 0) d2)).
  split; [|split; [|split]].
  - rewrite (write_tape_chunks c d1 Hrt1 Hwf1). destruct d1; [congruence|reflexivity].
  - apply second_tape; assumption.
  - rewrite (write_tape_chunks c (fapp d1 d2) Hrt12 Hwf12), (fapp_nonempty d1 d2 Hne).
    unfold chunks_w. rewrite ch_fields_fapp, cbytes_app. destruct d1; [congruence|reflexivity].
  - exact Hr12.
Qed.
