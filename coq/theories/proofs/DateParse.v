(* C13: the component parser ExpandedRawDate::_parse, reduced to a readable grammar. *)
From JV Require Import Bytes Tables U64Swar Scalar Date.
From JV.proofs Require Import DateProofs DateProofs2 DecimalProofs SwarLanes.
From Coq Require Import ZArith NArith Lia List Bool.
Import ListNotations.
Open Scope Z_scope.

(* ---------- the grammar after the year:  '.' M{1,2} '.' D{1,2} ( '.' [1-9][0-9]? )?  ---------- *)
Definition p_hour (t : bytes) : option Z :=
  match t with
  | [f] => if negb (is_digit f) || (f =? 48)%N then None else Some (dig f)
  | [f; g] => if negb (is_digit f) || (f =? 48)%N then None
              else if is_digit g then Some (dig f * 10 + dig g) else None
  | _ => None
  end.

Definition p_dayhour (t : bytes) : option (Z * Z) :=
  match t with
  | [] => None
  | c :: t3 =>
    if negb (is_digit c) then None else
    match t3 with
    | [] => Some (dig c, 0)
    | e :: t4 =>
      if (e =? DOT)%N then option_map (fun h => (dig c, h)) (p_hour t4)
      else if is_digit e then
        match t4 with
        | [] => Some (dig c * 10 + dig e, 0)
        | x :: t5 => if negb (x =? DOT)%N then None
                     else option_map (fun h => (dig c * 10 + dig e, h)) (p_hour t5)
        end
      else None
    end
  end.

Definition p_tail (data : bytes) : option (Z * Z * Z) :=
  match data with
  | c0 :: a :: n2 :: t =>
    if negb (c0 =? DOT)%N then None else if negb (is_digit a) then None else
    if (n2 =? DOT)%N then option_map (fun dh => (dig a, fst dh, snd dh)) (p_dayhour t)
    else if is_digit n2 then
      match t with
      | c1 :: t' => if negb (c1 =? DOT)%N then None
                    else option_map (fun dh => (dig a * 10 + dig n2, fst dh, snd dh)) (p_dayhour t')
      | [] => None
      end
    else None
  | _ => None
  end.

Definition x_of (year : Z) (o : option (Z * Z * Z)) : option xdate :=
  option_map (fun mdh => mkx year (fst (fst mdh)) (snd (fst mdh)) (snd mdh)) o.

Definition x_parse_clean (s : bytes) : outcome (option xdate) :=
  match to_i64_t s with
  | Err _ => Ok None
  | Panic e => Panic e | OOB e => OOB e | OutOfFuel => OutOfFuel
  | Ok (year, []) => if in_i32 year then x_from_binary year else Ok None
  | Ok (year, data) => if negb (in_i16 year) then Ok None else Ok (x_of year (p_tail data))
  end.

Ltac split_ifs :=
  repeat match goal with
  | |- context [if ?c then _ else _] =>
      let E := fresh "E" in destruct c eqn:E;
      cbn [negb orb andb option_map x_of fst snd p_tail p_dayhour p_hour bget nth_error length Nat.eqb Nat.add]
  end.

Lemma x_parse_is_clean s : x_parse s = x_parse_clean s.
Proof.
  unfold x_parse, x_parse_clean.
  destruct (to_i64_t s) as [[year data]| | | |]; try reflexivity.
  destruct data as [|c0 data]; [reflexivity|].
  destruct (in_i16 year); cbn [negb]; [|reflexivity].
  destruct data as [|n1 [|n2 [|n3 [|n4 [|n5 [|n6 [|n7 [|n8 [|n9 [|n10 rest]]]]]]]]]];
    cbn [p_tail p_dayhour p_hour bget nth_error length Nat.eqb Nat.add];
    split_ifs; try reflexivity;
    repeat match goal with
    | H : negb _ = true |- _ => apply negb_true_iff in H
    | H : negb _ = false |- _ => apply negb_false_iff in H
    end; congruence.
Qed.

(* ---------- the text parsers never reach a panic site ---------- *)
Lemma to_u64_t2_nocrash d : forall acc, is_crash (to_u64_t2 d acc) = false.
Proof.
  induction d as [|x r IH]; intros acc; [reflexivity|].
  cbn [to_u64_t2]. destruct (is_digit x); [|reflexivity].
  unfold overflow_mul_add.
  match goal with |- context [if ?c then _ else _] => destruct c end; [reflexivity|apply IH].
Qed.

Lemma to_i64_t_nocrash d : is_crash (to_i64_t d) = false.
Proof.
  unfold to_i64_t. destruct d as [|c data]; [reflexivity|].
  match goal with |- context [if ?c then _ else _] => destruct c end; [|reflexivity].
  match goal with |- context [to_u64_t2 ?a ?b] => pose proof (to_u64_t2_nocrash a b) as H; destruct (to_u64_t2 a b) as [[v rest]| | | |] end;
    try discriminate; try reflexivity.
  cbn [obind]. destruct (_ <=? _)%N; reflexivity.
Qed.

Lemma x_parse_nocrash s : is_crash (x_parse s) = false.
Proof.
  rewrite x_parse_is_clean. unfold x_parse_clean.
  pose proof (to_i64_t_nocrash s) as H. destruct (to_i64_t s) as [[year data]| | | |]; try discriminate; try reflexivity.
  destruct data; [destruct (in_i32 year); [apply x_from_binary_nocrash|reflexivity]|].
  destruct (negb (in_i16 year)); reflexivity.
Qed.

Lemma datehour_from_expanded_nocrash x : is_crash (datehour_from_expanded x) = false.
Proof. apply datehour_from_ymdh_nocrash. Qed.

Theorem parse_nocrash s :
  is_crash (date_fallback s) = false /\ is_crash (datehour_parse s) = false /\ is_crash (uniform_parse s) = false
  /\ is_crash (raw_parse s) = false.
Proof.
  repeat split.
  - apply olift_nocrash; [apply x_parse_nocrash|apply date_from_expanded_nocrash].
  - apply olift_nocrash; [apply x_parse_nocrash|apply datehour_from_expanded_nocrash].
  - apply olift_nocrash; [apply x_parse_nocrash|reflexivity].
  - apply olift_nocrash; [apply x_parse_nocrash|]. intros x.
    destruct (raw_from_expanded x); [|reflexivity]. destruct (to_i64_t s) as [[y [|]]| | | |]; reflexivity.
Qed.

(* ---------- format then parse ---------- *)
(* what game_fmt prints after the year *)
Definition tail_fmt (wide : bool) (m d h : Z) : bytes :=
  let w := if wide then 2%nat else 0%nat in
  [DOT] ++ fmt_int w m ++ [DOT] ++ fmt_int w d ++ (if negb (h =? 0) then [DOT] ++ fmt_int w h else []).

(* the zero-padded hour "01".."09" is NOT accepted by the parser (first hour digit must be 1-9):
   DotWide is only produced by the crate for UniformDate (no hour), so the wide round trip is stated
   for h = 0 or h >= 10 *)
Definition wide_ok (wide : bool) (h : Z) : bool := negb wide || (h =? 0) || (10 <=? h).

Definition tail_check (wide : bool) (m d h : Z) : bool :=
  negb (wide_ok wide h) ||
  match p_tail (tail_fmt wide m d h) with
  | Some (m', d', h') => (m' =? m) && (d' =? d) && (h' =? h)
  | None => false
  end
  && Nat.leb 4 (length (tail_fmt wide m d h)) && Nat.leb (length (tail_fmt wide m d h)) (if negb (h =? 0) then 9 else 6).

Lemma tail_check_all :
  forallb (fun wide => forallb (fun m => forallb (fun d => forallb (fun h => tail_check wide m d h)
    (zrange 0 25)) (zrange 1 31)) (zrange 1 12)) [true; false] = true.
Proof. vm_compute. reflexivity. Qed.

Lemma tail_check_ok wide m d h : 1 <= m <= 12 -> 1 <= d <= 31 -> 0 <= h <= 24 -> tail_check wide m d h = true.
Proof.
  intros Hm Hd Hh. pose proof tail_check_all as Hall.
  rewrite forallb_forall in Hall. specialize (Hall wide ltac:(destruct wide; cbn; auto)).
  rewrite forallb_forall in Hall. specialize (Hall m (zrange_in 1 12 m ltac:(lia))).
  rewrite forallb_forall in Hall. specialize (Hall d (zrange_in 1 31 d ltac:(lia))).
  rewrite forallb_forall in Hall. exact (Hall h (zrange_in 0 25 h ltac:(lia))).
Qed.

Definition hh_check (m d h : Z) : bool :=
  Bool.eqb (raw_has_hour (mkraw 0 (m * 4096 + d * 128 + h * 4))) (negb (h =? 0)).
Lemma hh_check_all :
  forallb (fun m => forallb (fun d => forallb (fun h => hh_check m d h) (zrange 0 25)) (zrange 1 31)) (zrange 1 12) = true.
Proof. vm_compute. reflexivity. Qed.
Lemma hh_check_ok m d h : 1 <= m <= 12 -> 1 <= d <= 31 -> 0 <= h <= 24 -> hh_check m d h = true.
Proof.
  intros Hm Hd Hh. pose proof hh_check_all as Hall.
  rewrite forallb_forall in Hall. specialize (Hall m (zrange_in 1 12 m ltac:(lia))).
  rewrite forallb_forall in Hall. specialize (Hall d (zrange_in 1 31 d ltac:(lia))).
  rewrite forallb_forall in Hall. exact (Hall h (zrange_in 0 25 h ltac:(lia))).
Qed.

(* a raw date with the given components *)
Definition has_fields (r : rawdate) (y m d h : Z) : Prop :=
  ry r = y /\ raw_month r = m /\ raw_day r = d /\ raw_hour r = h /\ rdata r = m * 4096 + d * 128 + h * 4.

Lemma raw_fields' y m d h :
  1 <= m <= 12 -> 1 <= d <= 31 -> 0 <= h <= 24 ->
  exists r, raw_from_ymdh_opt y m d h = Some r /\ has_fields r y m d h.
Proof.
  intros Hm Hd Hh. destruct (raw_fields y m d h Hm Hd Hh) as (r & Hr & H1 & H2 & H3 & H4).
  exists r. split; [exact Hr|]. unfold has_fields. repeat split; auto.
  apply raw_from_ymdh_some in Hr as (_ & _ & _ & _ & _ & ->). reflexivity.
Qed.

Lemma game_fmt_eq wide r y m d h :
  has_fields r y m d h -> 1 <= m <= 12 -> 1 <= d <= 31 -> 0 <= h <= 24 ->
  game_fmt wide r = fmt_int 0 y ++ tail_fmt wide m d h.
Proof.
  intros (H1 & H2 & H3 & H4 & H5) Hm Hd Hh. unfold game_fmt, tail_fmt. rewrite H1, H2, H3, H4.
  pose proof (hh_check_ok m d h Hm Hd Hh) as Hc. unfold hh_check in Hc. apply eqb_prop in Hc.
  unfold raw_has_hour in *. rewrite H5. cbn [rdata] in Hc. rewrite Hc. reflexivity.
Qed.

Lemma x_parse_game_fmt wide r y m d h :
  has_fields r y m d h -> in_i16 y = true -> 1 <= m <= 12 -> 1 <= d <= 31 -> 0 <= h <= 24 ->
  wide_ok wide h = true ->
  x_parse (game_fmt wide r) = Ok (Some (mkx y m d h)).
Proof.
  intros Hf Hy Hm Hd Hh Hw. rewrite (game_fmt_eq wide r y m d h Hf Hm Hd Hh).
  rewrite x_parse_is_clean. unfold x_parse_clean.
  pose proof (tail_check_ok wide m d h Hm Hd Hh) as Hc. unfold tail_check in Hc.
  rewrite Hw in Hc. cbn [negb orb] in Hc.
  apply andb_prop in Hc as [Hc _]. apply andb_prop in Hc as [Hc _].
  assert (Ht : exists t, tail_fmt wide m d h = DOT :: t) by (unfold tail_fmt; cbn [app]; eauto).
  destruct Ht as (t & Ht). rewrite Ht in *.
  apply in_i16_true in Hy.
  rewrite (to_i64_t_fmt_int 0 y (DOT :: t)) by (try reflexivity; lia).
  replace (in_i16 y) with true by (symmetry; apply in_i16_true; lia). cbn [negb].
  destruct (p_tail (DOT :: t)) as [[[m' d'] h']|]; [|discriminate].
  apply andb_prop in Hc as [Hc H3]. apply andb_prop in Hc as [H1 H2].
  apply Z.eqb_eq in H1, H2, H3. subst. reflexivity.
Qed.
