(* C03: stuttering simulation.  One iteration of the optimised parser = k >= 1 iterations of the
   reference parser (or both stop with the same observation).  The simulation is proved once,
   against the reference machine extended with the step "an I64 id is taken as a plain token"
   ([tokstep], only available when fx = false): for the repaired parser (fx = true) this is the
   pure reference machine, for the code as it is it still preserves the loop invariant, which is
   what C06 needs for the optimised parser. *)
From JV Require Import Bytes Tables BinPrim BinTape BinTapeWf.
From JV.proofs Require Import BinTapeWfProofs BinTapeInv.
Require Import Lia.
Open Scope nat_scope.

(* ------------------------------------------------------------------ reads *)
Lemma get_split_len : forall n d h r, get_split n d = Some (h, r) -> length d = n + length r /\ length h = n.
Proof.
  intros n d h r H. unfold get_split in H. destruct (Nat.leb n (length d)) eqn:E; [|discriminate].
  apply Nat.leb_le in E. inversion H; subst. rewrite skipn_length, firstn_length. lia.
Qed.

Lemma read_id_cases : forall d, (exists id r, read_id d = Ok (id, r) /\ length d = 2 + length r) \/ read_id d = Err E_LexEof.
Proof.
  intro d. unfold read_id. destruct (get_split 2 d) as [[h r]|] eqn:E; [left|right; reflexivity].
  exists (le_word 2 h), r. split; auto. now apply get_split_len in E.
Qed.

Lemma read_id_split : forall d id r, read_id d = Ok (id, r) -> exists h, get_split 2 d = Some (h, r) /\ le_word 2 h = id.
Proof.
  intros d id r H. unfold read_id in H. destruct (get_split 2 d) as [[h r']|]; [|discriminate].
  inversion H; subst. eauto.
Qed.

Lemma split_read_id : forall d h r, get_split 2 d = Some (h, r) -> read_id d = Ok (le_word 2 h, r).
Proof. intros d h r H. unfold read_id. now rewrite H. Qed.

Lemma read_id_err_split : forall d e, read_id d = Err e -> get_split 2 d = None.
Proof. intros d e H. unfold read_id in H. destruct (get_split 2 d) as [[h r]|]; [discriminate|reflexivity]. Qed.

Lemma omap_cases : forall {A B} (f : A -> B) (o : outcome A) (P : outcome B -> Prop),
  (forall a, o = Ok a -> P (Ok (f a))) -> (forall e, o = Err e -> P (Err e)) ->
  (forall s, o = Panic s -> P (Panic s)) -> (forall s, o = OOB s -> P (OOB s)) -> (o = OutOfFuel -> P OutOfFuel) ->
  P (omap f o).
Proof. intros. destruct o; cbn; auto. Qed.

Definition read_ok_or_err {A} (o : outcome (A * bytes)) (d : bytes) : Prop :=
  (exists v r, o = Ok (v, r) /\ length r <= length d) \/ (exists e, o = Err e).

Lemma gs_ok_or_err : forall n d, read_ok_or_err (match get_split n d with Some p => Ok p | None => Err E_LexEof end) d.
Proof.
  intros. destruct (get_split n d) as [[h r]|] eqn:E; [left|right; eauto].
  exists h, r. split; auto. apply get_split_len in E. lia.
Qed.

Lemma read_rgb_ok_or_err : forall d, read_ok_or_err (read_rgb d) d.
Proof.
  intro d. unfold read_rgb.
  repeat match goal with
  | |- read_ok_or_err (obind (read_id ?x) _) _ =>
      let id := fresh "id" in let r := fresh "r" in let E := fresh "E" in let L := fresh "L" in
      destruct (read_id_cases x) as [(id & r & E & L)|E]; rewrite E; cbn [obind]; [|right; eauto]
  | |- read_ok_or_err (obind (read_u32 ?x) _) _ =>
      let h := fresh "h" in let r := fresh "r" in let E := fresh "E" in
      unfold read_u32 at 1; destruct (get_split 4 x) as [[h r]|] eqn:E; cbn [obind]; [apply get_split_len in E|right; eauto]
  | |- read_ok_or_err (if ?c then _ else _) _ => destruct c
  | |- read_ok_or_err (Ok _) _ => left; eexists _, _; split; [reflexivity|lia]
  | |- read_ok_or_err (Err _) _ => right; eauto
  end.
Qed.

Lemma read_scalar_cases : forall k d, read_ok_or_err (read_scalar k d) d.
Proof.
  intros k d.
  assert (G : forall n (f : bytes -> tok), read_ok_or_err
            (omap (fun p => (f (fst p), snd p)) (match get_split n d with Some p => Ok p | None => Err E_LexEof end)) d).
  { intros. destruct (get_split n d) as [[h r]|] eqn:E; cbn; [left|right; eauto].
    eexists _, _. split; [reflexivity|]. apply get_split_len in E. lia. }
  destruct k; cbn [read_scalar].
  - unfold read_u32. destruct (get_split 4 d) as [[h r]|] eqn:E; cbn; [left|right; eauto].
    eexists _, _. split; [reflexivity|]. apply get_split_len in E. lia.
  - unfold read_u64. destruct (get_split 8 d) as [[h r]|] eqn:E; cbn; [left|right; eauto].
    eexists _, _. split; [reflexivity|]. apply get_split_len in E. lia.
  - unfold read_i32. destruct (get_split 4 d) as [[h r]|] eqn:E; cbn; [left|right; eauto].
    eexists _, _. split; [reflexivity|]. apply get_split_len in E. lia.
  - unfold read_bool. destruct d; cbn; [right; eauto|left]. eexists _, _. split; [reflexivity|]. cbn. lia.
  - unfold read_string. destruct (get_split 2 d) as [[h r]|] eqn:E; [|right; eexists; reflexivity].
    destruct (Nat.leb (N.to_nat (le_word 2 h)) (length r)) eqn:E2; [left|right; eexists; reflexivity].
    eexists _, _. split; [reflexivity|]. apply get_split_len in E. cbn [snd]. rewrite skipn_length. lia.
  - unfold read_string. destruct (get_split 2 d) as [[h r]|] eqn:E; [|right; eexists; reflexivity].
    destruct (Nat.leb (N.to_nat (le_word 2 h)) (length r)) eqn:E2; [left|right; eexists; reflexivity].
    eexists _, _. split; [reflexivity|]. apply get_split_len in E. cbn [snd]. rewrite skipn_length. lia.
  - unfold read_f32. apply (G 4 TF32).
  - unfold read_f64. apply (G 8 TF64).
  - destruct (read_rgb_ok_or_err d) as [(v & r & E & L)|(e & E)]; rewrite E; cbn; [left|right]; eauto.
  - unfold read_i64. destruct (get_split 8 d) as [[h r]|] eqn:E; cbn; [left|right; eauto].
    eexists _, _. split; [reflexivity|]. apply get_split_len in E. lia.
Qed.

(* ------------------------------------------------------------------ the (extended) reference machine *)
Definition tokstep (s s' : st) : Prop :=
  exists d, read_id (s_data s) = Ok (L_I64, d) /\ (s_ps s = Key \/ s_ps s = OpenFirst) /\
            s' = mkst d (next_tbl (s_ps s)) (s_par s) (push (s_tape s) (TToken L_I64)).

Definition xstep (fx : bool) (s s' : st) : Prop :=
  iter false false s = Continue s' \/ (fx = false /\ tokstep s s').

Inductive xstar (fx : bool) : st -> st -> Prop :=
| xs_refl : forall s, xstar fx s s
| xs_step : forall s s1 s2, xstep fx s s1 -> xstar fx s1 s2 -> xstar fx s s2.

Definition xplus (fx : bool) (s s' : st) : Prop := exists s1, xstep fx s s1 /\ xstar fx s1 s'.

Lemma xstar_trans : forall fx a b c, xstar fx a b -> xstar fx b c -> xstar fx a c.
Proof. induction 1; intros; auto. econstructor; eauto. Qed.

Lemma xplus_star : forall fx a b, xplus fx a b -> xstar fx a b.
Proof. intros fx a b (s1 & A & B). econstructor; eauto. Qed.

Lemma xstep_inv : forall fx s s', Inv s -> xstep fx s s' -> Inv s'.
Proof.
  intros fx s s' HI [H|[_ (d & Hr & Hne & ->)]].
  - eapply iter_ref_inv; eauto.
  - destruct HI as [Ho Hs]. unfold Inv; cbn. apply push_next_ok; auto.
    destruct Hne as [E|E]; rewrite E; discriminate.
Qed.

Lemma xstar_inv : forall fx s s', xstar fx s s' -> Inv s -> Inv s'.
Proof. induction 1; intros; auto. apply IHxstar. eapply xstep_inv; eauto. Qed.

(* observations of stopping *)
Definition obs_of {A} (o : outcome A) : observation :=
  match o with Err _ => Rejected | _ => Crashed end.

(* the reference machine, started in s, stops with observation ob *)
Definition halts (fx : bool) (s : st) (ob : observation) : Prop :=
  exists s' r, xstar fx s s' /\ iter false false s' = Done r /\ obs r = ob.

Lemma halts_step : forall fx s s1 ob, xstep fx s s1 -> halts fx s1 ob -> halts fx s ob.
Proof. intros fx s s1 ob H (s' & r & A & B & C). exists s', r. split; auto. econstructor; eauto. Qed.

Lemma halts_star : forall fx s s1 ob, xstar fx s s1 -> halts fx s1 ob -> halts fx s ob.
Proof. intros fx s s1 ob H (s' & r & A & B & C). exists s', r. split; auto. eapply xstar_trans; eauto. Qed.

(* one reference iteration, in read_id form *)
Lemma ref_iter : forall data id d ps par t,
  read_id data = Ok (id, d) ->
  iter false false (mkst data ps par t) = match slow false d id ps par t with Ok s' => Continue s' | o => stop o end.
Proof.
  intros. destruct (read_id_split _ _ _ H) as (h & E & <-).
  now rewrite (iter_ref_unfold (mkst data ps par t) h d E).
Qed.

Lemma ref_step : forall fx data id d ps par t s',
  read_id data = Ok (id, d) -> slow false d id ps par t = Ok s' -> xstep fx (mkst data ps par t) s'.
Proof. intros. left. rewrite (ref_iter _ _ _ _ _ _ H), H0. reflexivity. Qed.

Lemma ref_halt : forall fx data id d ps par t (o : outcome st),
  read_id data = Ok (id, d) -> slow false d id ps par t = o -> is_ok o = false ->
  halts fx (mkst data ps par t) (obs_of o).
Proof.
  intros fx data id d ps par t o H H0 Hn. exists (mkst data ps par t).
  destruct o; try discriminate; eexists; (split; [constructor|]); rewrite (ref_iter _ _ _ _ _ _ H), H0; cbn; split; reflexivity.
Qed.

Lemma ref_eof : forall fx data ps par t e,
  read_id data = Err e -> (par <> 0 \/ ps <> Key) -> halts fx (mkst data ps par t) Rejected.
Proof.
  intros fx data ps par t e H Hk. exists (mkst data ps par t), (Err E_Eof). split; [constructor|]. split; auto.
  unfold iter. cbn [s_data]. rewrite (read_id_err_split _ _ H). f_equal. unfold finish; cbn.
  destruct par; [|reflexivity]. destruct ps; try reflexivity. destruct Hk; congruence.
Qed.

(* ------------------------------------------------------------------ what a fast-path result must be matched by *)
Definition sim_res (fx : bool) (s : st) (r : outcome fres) : Prop :=
  match r with
  | Ok (FCont d' ps' par' t') => xplus fx s (mkst d' ps' par' t')
  | Ok (FFall d' id' ps' par' t') => exists data', read_id data' = Ok (id', d') /\ xstar fx s (mkst data' ps' par' t')
  | o => halts fx s (obs_of o)
  end.

Lemma sim_res_step : forall fx s s1 r, xstep fx s s1 -> sim_res fx s1 r -> sim_res fx s r.
Proof.
  intros fx s s1 r H Hr. destruct r as [[d' ps' par' t'|d' id' ps' par' t']| | | |]; cbn in *;
    try (eapply halts_step; eauto; fail).
  - exists s1. split; auto. now apply xplus_star.
  - destruct Hr as (data' & A & B). exists data'. split; auto. econstructor; eauto.
Qed.

Definition sim_st (fx : bool) (s : st) (r : outcome st) : Prop :=
  match r with
  | Ok s' => xstar fx s s'
  | o => halts fx s (obs_of o)
  end.

Lemma sim_st_step : forall fx s s1 r, xstep fx s s1 -> sim_st fx s1 r -> sim_st fx s r.
Proof.
  intros fx s s1 r H Hr. destruct r; cbn in *; try (eapply halts_step; eauto; fail). econstructor; eauto.
Qed.

(* ------------------------------------------------------------------ slow, evaluated *)
Lemma slow_scalar : forall k c d ps par t,
  classify c = match k with KU32 => CU32 | KU64 => CU64 | KI32 => CI32 | KBool => CBool | KQuoted => CQuoted
                          | KUnquoted => CUnquoted | KF32 => CF32 | KF64 => CF64 | KRgb => COther | KI64 => CI64 end ->
  k <> KRgb -> ps <> ObjectToArray ->
  slow false d c ps par t = scalar_arm k d ps par t.
Proof.
  intros k c d ps par t Hc Hk Hp. unfold slow. rewrite Hc.
  destruct ps; try congruence; destruct k; try congruence; cbn [obind]; try reflexivity;
    destruct (scalar_arm KI32 d _ par t); reflexivity.
Qed.

Lemma scalar_arm_eval : forall k d ps par t v r,
  read_scalar k d = Ok (v, r) -> scalar_arm k d ps par t = Ok (mkst r (next_tbl ps) par (push t v)).
Proof. intros. unfold scalar_arm. rewrite H. cbn [obind]. rewrite next_state_ok. reflexivity. Qed.

Lemma scalar_arm_err : forall k d ps par t e, read_scalar k d = Err e -> scalar_arm k d ps par t = Err e.
Proof. intros. unfold scalar_arm. rewrite H. reflexivity. Qed.

Lemma slow_token : forall d id ps par t,
  classify id = COther \/ classify id = CRgb -> ps <> ObjectToArray -> ps <> ObjectValue ->
  slow false d id ps par t = Ok (mkst d (next_tbl ps) par (push t (TToken id))).
Proof.
  intros d id ps par t [Hc|Hc] H1 H2; unfold slow; rewrite Hc; destruct ps; try congruence; cbn [obind];
    rewrite next_state_ok; reflexivity.
Qed.

(* the id-class tests, on the generated constants: everything they let through is a plain token
   for the reference interpretation -- except I64 when the exclusion is missing *)
Lemma token_class : forall fx id,
  (N.ltb L_UNQUOTED id || N.eqb id 11)%bool = true ->
  (negb (N.eqb id L_F64) && negb (N.eqb id L_U64) && negb (fx && N.eqb id L_I64))%bool = true ->
  (classify id = COther \/ classify id = CRgb) \/ (fx = false /\ id = L_I64).
Proof.
  intros fx id H1 H2. unfold classify.
  repeat match goal with
  | |- context [N.eqb id ?c] =>
      destruct (N.eqb_spec id c);
      [ subst id; destruct fx; vm_compute in H1, H2; try discriminate; auto | ]
  end.
  auto.
Qed.

Lemma tokenish_class : forall fx id, tokenish fx id = true ->
  (classify id = COther \/ classify id = CRgb) \/ (fx = false /\ id = L_I64).
Proof.
  intros fx id H. unfold tokenish in H. apply token_class with (fx := fx).
  - destruct (N.ltb L_UNQUOTED id); [reflexivity|discriminate].
  - destruct (N.ltb L_UNQUOTED id); [exact H|discriminate].
Qed.

(* a token step of either kind *)
Lemma token_xstep : forall fx data id d ps par t,
  read_id data = Ok (id, d) ->
  (classify id = COther \/ classify id = CRgb) \/ (fx = false /\ id = L_I64) ->
  ps = Key \/ ps = OpenFirst ->
  xstep fx (mkst data ps par t) (mkst d (next_tbl ps) par (push t (TToken id))).
Proof.
  intros fx data id d ps par t Hr [Hc|[-> ->]] Hp.
  - eapply ref_step; eauto. apply slow_token; auto; destruct Hp as [-> | ->]; discriminate.
  - right. split; auto. exists d. cbn. auto.
Qed.

(* ------------------------------------------------------------------ more list facts *)
Lemma nth_error_upd_ne : forall (t : tape) i j x, i <> j -> nth_error (upd t i x) j = nth_error t j.
Proof. induction t; intros; destruct i, j; cbn; auto; try congruence. Qed.

Lemma push_length : forall (t : tape) x, length (push t x) = S (length t).
Proof. intros. unfold push. rewrite app_length. cbn. lia. Qed.

Definition elem_ok (k : skind) (c : N) : Prop :=
  classify c = match k with KU32 => CU32 | KU64 => CU64 | KI32 => CI32 | KBool => CBool | KQuoted => CQuoted
                          | KUnquoted => CUnquoted | KF32 => CF32 | KF64 => CF64 | KRgb => COther | KI64 => CI64 end
  /\ k <> KRgb /\ c <> L_CLOSE.

Lemma elem_ok_i32 : elem_ok KI32 L_I32. Proof. repeat split; discriminate. Qed.
Lemma elem_ok_quoted : elem_ok KQuoted L_QUOTED. Proof. repeat split; discriminate. Qed.
Lemma elem_ok_f32 : elem_ok KF32 L_F32. Proof. repeat split; discriminate. Qed.

Definition not_array (x : tok) : Prop := forall e, x <> TArray e.

(* the array being filled: open at par, its parent g is not an Array token *)
Definition arr_ctx (g par : nat) (t : tape) : Prop :=
  nth_error t par = Some (TArray g) /\ g < par /\ exists x, nth_error t g = Some x /\ not_array x.

Lemma arr_ctx_push : forall g par t v, arr_ctx g par t -> arr_ctx g par (push t v).
Proof.
  intros g par t v (A & B & x & C & D).
  assert (par < length t) by (apply nth_error_Some; congruence).
  repeat split; auto.
  - rewrite nth_error_push_lt; auto.
  - exists x. split; auto. rewrite nth_error_push_lt; auto. lia.
Qed.

Lemma close_array_eval : forall d g par t, arr_ctx g par t ->
  slow false d L_CLOSE ArrayValue par t = Ok (mkst d Key g (push (upd t par (TArray (length t))) (TEnd par))).
Proof.
  intros d g par t (A & B & x & C & D).
  assert (par < length t) by (apply nth_error_Some; congruence).
  change (slow false d L_CLOSE ArrayValue par t) with
    (do (r, t') <- push_end par t; Ok (mkst d (fst r) (snd r) t')).
  unfold push_end. rewrite A. unfold push_end_fin.
  rewrite nth_error_push_lt by (rewrite upd_length; lia).
  rewrite nth_error_upd_ne by lia. rewrite C.
  destruct x; try reflexivity. exfalso. eapply D; reflexivity.
Qed.

Ltac rd_id d :=
  let id := fresh "id" in let r := fresh "d" in let E := fresh "Er" in let L := fresh "L" in
  destruct (read_id_cases d) as [(id & r & E & L)|E]; rewrite E; cbn [obind].
Ltac rd_sc k d :=
  let v := fresh "v" in let r := fresh "d" in let E := fresh "Es" in let L := fresh "L" in let e := fresh "e" in
  destruct (read_scalar_cases k d) as [(v & r & E & L)|(e & E)]; rewrite E; cbn [obind].
Ltac fall_here := cbn [sim_res]; eexists; split; [eassumption | constructor].
Ltac eof_here := cbn [sim_res obs_of]; eapply ref_eof; [eassumption | right; discriminate].

(* ------------------------------------------------------------------ parse_array_field! *)
Lemma arr_loop_sim : forall fx k c g fuel nd par t,
  elem_ok k c -> length nd < fuel -> arr_ctx g par t ->
  sim_res fx (mkst nd ArrayValue par t) (arr_loop fuel k c nd par t).
Proof.
  intros fx k c g. induction fuel; intros nd par t Hk Hf Hc; [lia|].
  destruct Hk as (Hk1 & Hk2 & Hk3). cbn [arr_loop].
  rd_id nd; [|eof_here].
  destruct (N.eqb_spec id c) as [->|Hne].
  - rd_sc k d.
    + eapply sim_res_step.
      * eapply ref_step; eauto. rewrite (slow_scalar k); auto; [|discriminate]. apply scalar_arm_eval; eauto.
      * cbn [next_tbl]. apply IHfuel; [repeat split; auto | lia | now apply arr_ctx_push].
    + cbn [sim_res]. eapply (ref_halt fx _ _ _ _ _ _ (Err e)); eauto.
      rewrite (slow_scalar k); auto; [|discriminate]. now apply scalar_arm_err.
  - destruct (N.eqb_spec id L_CLOSE) as [->|Hne2].
    + unfold close_array_unchecked. destruct Hc as (A & B & C). rewrite A. cbn [obind sim_res].
      eexists. split; [|constructor]. eapply ref_step; eauto. apply close_array_eval. repeat split; auto.
    + fall_here.
Qed.

Lemma array_field_sim : forall fx k c g data d4 par t,
  elem_ok k c -> read_id data = Ok (c, d4) -> arr_ctx g par t ->
  sim_res fx (mkst data OpenFirst par t) (array_field k c d4 par t).
Proof.
  intros fx k c g data d4 par t Hk Hr Hc. pose proof Hk as (Hk1 & Hk2 & Hk3). unfold array_field.
  rd_sc k d4.
  - eapply sim_res_step.
    { eapply ref_step; eauto. rewrite (slow_scalar k); auto; [|discriminate]. apply scalar_arm_eval; eauto. }
    cbn [next_tbl]. rd_id d; [|eof_here].
    destruct (N.eqb_spec id c) as [->|Hne]; [|fall_here].
    rd_sc k d0.
    + eapply sim_res_step.
      { eapply ref_step; eauto. rewrite (slow_scalar k); auto; [|discriminate]. apply scalar_arm_eval; eauto. }
      cbn [next_tbl]. eapply arr_loop_sim; [exact Hk | lia | repeat apply arr_ctx_push; exact Hc].
    + cbn [sim_res]. eapply (ref_halt fx _ _ _ _ _ _ (Err e)); eauto.
      rewrite (slow_scalar k); auto; [|discriminate]. now apply scalar_arm_err.
  - cbn [sim_res]. eapply (ref_halt fx _ _ _ _ _ _ (Err e)); eauto.
    rewrite (slow_scalar k); auto; [|discriminate]. now apply scalar_arm_err.
Qed.

(* ------------------------------------------------------------------ the I32 run of the main match *)
Lemma i32_run_sim : forall fx fuel nd par t,
  length nd < fuel -> sim_st fx (mkst nd ArrayValue par t) (i32_run fuel nd par t).
Proof.
  intros fx. induction fuel; intros nd par t Hf; [lia|]. cbn [i32_run].
  rd_id nd.
  - destruct (N.eqb_spec id L_I32) as [->|Hne].
    + rd_sc KI32 d.
      * eapply sim_st_step.
        -- eapply ref_step; eauto. rewrite (slow_scalar KI32); auto; try discriminate. apply scalar_arm_eval; eauto.
        -- cbn [next_tbl]. apply IHfuel. lia.
      * cbn [sim_st]. eapply (ref_halt fx _ _ _ _ _ _ (Err e)); eauto.
        rewrite (slow_scalar KI32); auto; try discriminate. now apply scalar_arm_err.
    + destruct (N.eqb_spec id L_CLOSE) as [->|Hne2].
      * assert (Hs : slow false d L_CLOSE ArrayValue par t =
                     do (r, t') <- push_end par t; Ok (mkst d (fst r) (snd r) t')) by reflexivity.
        destruct (push_end par t) as [[[ps' g] t']| | | |] eqn:Ep; cbn [obind sim_st fst snd] in *.
        -- econstructor; [eapply ref_step; eauto | constructor].
        -- eapply (ref_halt fx _ _ _ _ _ _ (Err e)); eauto.
        -- eapply (ref_halt fx _ _ _ _ _ _ (Panic site)); eauto.
        -- eapply (ref_halt fx _ _ _ _ _ _ (OOB site)); eauto.
        -- eapply (ref_halt fx _ _ _ _ _ _ OutOfFuel); eauto.
      * cbn [sim_st]. constructor.
  - cbn [sim_st obs_of]. eapply ref_eof; eauto. right; discriminate.
Qed.

(* ------------------------------------------------------------------ the key fast path *)
Definition key_ctx (par : nat) (t : tape) : Prop :=
  (par = 0 /\ not_cont_hd t) \/ exists e, nth_error t par = Some (TObject e).

Lemma Inv_key_ctx : forall s, Inv s -> s_ps s = Key -> key_ctx (s_par s) (s_tape s).
Proof.
  intros s [Ho Hs] Hk. rewrite Hk in Hs. cbn in Hs. destruct Hs as [E|[e He]]; [left|right; eauto].
  split; auto. rewrite E in Ho. now apply open_inv_zero in Ho.
Qed.

Lemma scalar_not_array : forall v, is_scalar v = true -> not_array v.
Proof. intros v H e ->. discriminate. Qed.

Lemma open_arr_ctx : forall par t v, key_ctx par t -> is_scalar v = true ->
  arr_ctx par (length (push t v)) (push (push t v) (TArray par)).
Proof.
  intros par t v Hk Hv. split; [apply nth_error_push_here|]. rewrite push_length.
  destruct Hk as [[-> Hh]|[e He]].
  - split; [lia|]. destruct t as [|a t'].
    + exists v. split; [reflexivity | now apply scalar_not_array].
    + exists a. split; [reflexivity|]. intros e ->. specialize (Hh _ eq_refl). discriminate.
  - assert (par < length t) by (apply nth_error_Some; congruence). split; [lia|].
    exists (TObject e). split; [|intros e' E; discriminate].
    rewrite nth_error_push_lt by (rewrite push_length; lia). rewrite nth_error_push_lt by lia. exact He.
Qed.

Ltac adv := eapply sim_res_step; [eapply ref_step; [eassumption | reflexivity] | ].
Ltac adv_sc k :=
  eapply sim_res_step;
  [eapply ref_step; [eassumption | rewrite (slow_scalar k); [apply scalar_arm_eval; eassumption | reflexivity | discriminate | discriminate]]
  | cbn [next_tbl]].
Ltac halt_sc k e :=
  cbn [sim_res]; eapply (ref_halt _ _ _ _ _ _ _ (Err e));
  [eassumption | rewrite (slow_scalar k); [apply scalar_arm_err; eassumption | reflexivity | discriminate | discriminate] | reflexivity].
Ltac cont_sc k :=
  cbn [sim_res]; eexists; split;
  [eapply ref_step; [eassumption | rewrite (slow_scalar k); [apply scalar_arm_eval; eassumption | reflexivity | discriminate | discriminate]]
  | constructor].

Lemma id11_class : classify 11 = COther. Proof. reflexivity. Qed.

(* after `<key> = {` has been consumed: Token first element (shared by the token-key path, with the
   0xb alternative, and by the quoted-key path) is handled inline below *)
Lemma key_fast_sim : forall fx data id d par t,
  read_id data = Ok (id, d) -> key_ctx par t ->
  sim_res fx (mkst data Key par t) (key_fast fx d id par t).
Proof.
  intros fx data id d par t Hr Hk. unfold key_fast.
  destruct ((N.ltb L_UNQUOTED id || N.eqb id 11)%bool) eqn:H1.
  - (* token key *)
    destruct ((negb (N.eqb id L_F64) && negb (N.eqb id L_U64) && negb (fx && N.eqb id L_I64))%bool) eqn:H2;
      [|fall_here].
    pose proof (token_class fx id H1 H2) as Hc.
    eapply sim_res_step; [eapply token_xstep; eauto|]. cbn [next_tbl].
    rd_id d; [|eof_here].
    destruct (N.eqb_spec id0 L_EQUAL) as [->|Hne]; [|fall_here].
    adv. rd_id d0; [|eof_here].
    destruct (N.eqb_spec id0 L_I32) as [->|Hn1].
    { rd_sc KI32 d1; [cont_sc KI32 | halt_sc KI32 e]. }
    destruct (N.eqb_spec id0 L_OPEN) as [->|Hn2].
    { adv. assert (Hctx := open_arr_ctx par t (TToken id) Hk eq_refl).
      rd_id d1; [|eof_here].
      destruct (N.eqb_spec id0 L_I32) as [->|Hm1]; [eapply array_field_sim; eauto using elem_ok_i32|].
      destruct (N.eqb_spec id0 L_QUOTED) as [->|Hm2]; [eapply array_field_sim; eauto using elem_ok_quoted|].
      destruct (N.eqb_spec id0 L_F32) as [->|Hm3]; [eapply array_field_sim; eauto using elem_ok_f32|].
      destruct ((tokenish fx id0 || N.eqb id0 11)%bool) eqn:H3; [|fall_here].
      assert (Hc4 : (classify id0 = COther \/ classify id0 = CRgb) \/ fx = false /\ id0 = L_I64).
      { destruct (tokenish fx id0) eqn:H4; [now apply tokenish_class|].
        cbn in H3. apply N.eqb_eq in H3. subst. left. left. reflexivity. }
      eapply sim_res_step; [eapply token_xstep; eauto|]. cbn [next_tbl].
      rd_id d2; [|eof_here].
      destruct (N.eqb_spec id1 L_EQUAL) as [->|Hm5]; [|fall_here].
      match goal with |- context [set_parent_to_object ?p ?tt] =>
        assert (Hs : forall dd, slow false dd L_EQUAL OpenSecond p tt =
                       do t' <- set_parent_to_object p tt; Ok (mkst dd ObjectValue p t')) by reflexivity;
        destruct (set_parent_to_object p tt) as [t4| | | |] eqn:Esp end; cbn [obind] in *.
      - eapply sim_res_step; [eapply ref_step; [eassumption | apply Hs]|].
        rd_id d3; [|eof_here]. fall_here.
      - cbn [sim_res]. eapply (ref_halt _ _ _ _ _ _ _ (Err e)); [eassumption | apply Hs | reflexivity].
      - cbn [sim_res]. eapply (ref_halt _ _ _ _ _ _ _ (Panic site)); [eassumption | apply Hs | reflexivity].
      - cbn [sim_res]. eapply (ref_halt _ _ _ _ _ _ _ (OOB site)); [eassumption | apply Hs | reflexivity].
      - cbn [sim_res]. eapply (ref_halt _ _ _ _ _ _ _ OutOfFuel); [eassumption | apply Hs | reflexivity]. }
    destruct (N.eqb_spec id0 L_QUOTED) as [->|Hn3].
    { rd_sc KQuoted d1; [cont_sc KQuoted | halt_sc KQuoted e]. }
    destruct (N.eqb_spec id0 L_F32) as [->|Hn4].
    { rd_sc KF32 d1; [cont_sc KF32 | halt_sc KF32 e]. }
    fall_here.
  - destruct (N.eqb_spec id L_CLOSE) as [->|Hn1].
    { (* close *)
      assert (Hs : slow false d L_CLOSE Key par t =
                   do (r, t') <- push_end par t; Ok (mkst d (fst r) (snd r) t')) by reflexivity.
      destruct (push_end par t) as [[[ps' g] t']| | | |] eqn:Ep; cbn [obind sim_res fst snd] in *.
      - eexists; split; [eapply ref_step; eauto | constructor].
      - eapply (ref_halt _ _ _ _ _ _ _ (Err e)); eauto.
      - eapply (ref_halt _ _ _ _ _ _ _ (Panic site)); eauto.
      - eapply (ref_halt _ _ _ _ _ _ _ (OOB site)); eauto.
      - eapply (ref_halt _ _ _ _ _ _ _ OutOfFuel); eauto. }
    destruct (N.eqb_spec id L_QUOTED) as [->|Hn2].
    { (* quoted key *)
      rd_sc KQuoted d; [|halt_sc KQuoted e].
      adv_sc KQuoted.
      rd_id d0; [|eof_here].
      destruct (N.eqb_spec id L_EQUAL) as [->|Hne]; [|fall_here].
      adv. rd_id d1; [|eof_here].
      destruct (N.eqb_spec id L_OPEN) as [->|Hn3]; [|fall_here].
      adv. rd_id d2; [|eof_here].
      destruct (tokenish fx id) eqn:H3; [|fall_here].
      pose proof (tokenish_class fx id H3) as Hc4.
      eapply sim_res_step; [eapply token_xstep; eauto|]. cbn [next_tbl].
      rd_id d3; [|eof_here].
      destruct (N.eqb_spec id0 L_EQUAL) as [->|Hm5]; [|fall_here].
      match goal with |- context [set_parent_to_object ?p ?tt] =>
        assert (Hs : forall dd, slow false dd L_EQUAL OpenSecond p tt =
                       do t' <- set_parent_to_object p tt; Ok (mkst dd ObjectValue p t')) by reflexivity;
        destruct (set_parent_to_object p tt) as [t4| | | |] eqn:Esp end; cbn [obind] in *.
      - eapply sim_res_step; [eapply ref_step; [eassumption | apply Hs]|].
        rd_id d4; [|eof_here].
        destruct (N.eqb_spec id0 L_BOOL) as [->|Hb1].
        { rd_sc KBool d5; [cont_sc KBool | halt_sc KBool e]. }
        destruct (N.eqb_spec id0 L_QUOTED) as [->|Hb2].
        { rd_sc KQuoted d5; [cont_sc KQuoted | halt_sc KQuoted e]. }
        fall_here.
      - cbn [sim_res]. eapply (ref_halt _ _ _ _ _ _ _ (Err e)); [eassumption | apply Hs | reflexivity].
      - cbn [sim_res]. eapply (ref_halt _ _ _ _ _ _ _ (Panic site)); [eassumption | apply Hs | reflexivity].
      - cbn [sim_res]. eapply (ref_halt _ _ _ _ _ _ _ (OOB site)); [eassumption | apply Hs | reflexivity].
      - cbn [sim_res]. eapply (ref_halt _ _ _ _ _ _ _ OutOfFuel); [eassumption | apply Hs | reflexivity]. }
    destruct (N.eqb_spec id L_I32) as [->|Hn3]; [|fall_here].
    (* i32 key *)
    rd_sc KI32 d; [|halt_sc KI32 e].
    adv_sc KI32.
    rd_id d0; [|eof_here].
    destruct (N.eqb_spec id L_EQUAL) as [->|Hne]; [|fall_here].
    adv. rd_id d1; [|eof_here].
    destruct (N.eqb_spec id L_I32) as [->|Hn4]; [|fall_here].
    rd_sc KI32 d2; [cont_sc KI32 | halt_sc KI32 e].
Qed.

(* ------------------------------------------------------------------ the main match with the flag on *)
Lemma slow_opt_irrelevant : forall d id ps par t, classify id <> CI32 -> slow true d id ps par t = slow false d id ps par t.
Proof. intros. unfold slow. destruct (classify id); try congruence; reflexivity. Qed.

Lemma slow_true_i32 : forall d id ps par t, classify id = CI32 ->
  slow true d id ps par t =
  do s <- slow false d id ps par t;
  match s_ps s with
  | ArrayValue => i32_run (S (length (s_data s))) (s_data s) par (s_tape s)
  | _ => Ok s
  end.
Proof.
  intros d id ps par t Hc. unfold slow. rewrite Hc.
  destruct (match ps with ObjectToArray => do t' <- mixed_insert2 t; Ok (ArrayValueMixed, t') | _ => Ok (ps, t) end)
    as [[ps1 t1]| | | |]; cbn [obind]; try reflexivity.
  destruct (scalar_arm KI32 d ps1 par t1); reflexivity.
Qed.

Lemma slow_i32_par : forall d id ps par t s, classify id = CI32 -> slow false d id ps par t = Ok s -> s_par s = par.
Proof.
  intros d id ps par t s Hc H. unfold slow in H. rewrite Hc in H.
  destruct (match ps with ObjectToArray => do t' <- mixed_insert2 t; Ok (ArrayValueMixed, t') | _ => Ok (ps, t) end)
    as [[ps1 t1]| | | |]; cbn [obind] in H; try discriminate.
  unfold scalar_arm in H. destruct (read_scalar KI32 d) as [[v r]| | | |]; cbn [obind] in H; try discriminate.
  rewrite next_state_ok in H. cbn [obind] in H. inversion H; subst. reflexivity.
Qed.

Definition sim_slow (fx : bool) (s : st) (r : outcome st) : Prop :=
  match r with
  | Ok s' => xplus fx s s'
  | o => halts fx s (obs_of o)
  end.

Lemma slow_true_sim : forall fx data id d ps par t,
  read_id data = Ok (id, d) -> sim_slow fx (mkst data ps par t) (slow true d id ps par t).
Proof.
  intros fx data id d ps par t Hr.
  assert (Href : forall o, slow false d id ps par t = o -> sim_slow fx (mkst data ps par t) o).
  { intros o Ho. destruct o; cbn [sim_slow].
    - eexists; split; [eapply ref_step; eauto | constructor].
    - eapply (ref_halt _ _ _ _ _ _ _ (Err e)); eauto.
    - eapply (ref_halt _ _ _ _ _ _ _ (Panic site)); eauto.
    - eapply (ref_halt _ _ _ _ _ _ _ (OOB site)); eauto.
    - eapply (ref_halt _ _ _ _ _ _ _ OutOfFuel); eauto. }
  destruct (classify id) eqn:Ec;
    try (rewrite slow_opt_irrelevant by (rewrite Ec; discriminate); now apply Href).
  rewrite slow_true_i32 by exact Ec.
  destruct (slow false d id ps par t) as [s1| | | |] eqn:Es; cbn [obind]; try (now apply Href).
  pose proof (slow_i32_par _ _ _ _ _ _ Ec Es) as Hp.
  assert (Hst : xstep fx (mkst data ps par t) s1) by (eapply ref_step; eauto).
  destruct s1 as [d1 ps1 par1 t1]. cbn [s_ps s_data s_tape s_par] in *. subst par1.
  destruct ps1; try (cbn [sim_slow]; eexists; split; [exact Hst | constructor]).
  pose proof (i32_run_sim fx (S (length d1)) d1 par t1 (Nat.lt_succ_diag_r _)) as Hrun.
  destruct (i32_run (S (length d1)) d1 par t1); cbn [sim_slow sim_st] in *;
    try (eapply halts_step; eauto; fail).
  eexists; split; eauto.
Qed.

(* ------------------------------------------------------------------ one optimised iteration *)
Lemma iter_fx_irrelevant : forall fx s, iter fx false s = iter false false s.
Proof. intros. unfold iter. destruct (get_split 2 (s_data s)) as [[h d]|]; reflexivity. Qed.

Lemma obs_stop : forall {A} (o : outcome A) r, is_ok o = false -> stop o = Done r -> obs r = obs_of o.
Proof. intros A o r H E. destruct o; try discriminate; inversion E; reflexivity. Qed.

Lemma after_slow_sim : forall fx s0 data id d ps par t,
  xstar fx s0 (mkst data ps par t) -> read_id data = Ok (id, d) ->
  match (match slow true d id ps par t with Ok s' => Continue s' | o => stop o end) with
  | Continue s' => xplus fx s0 s'
  | Done r => halts fx s0 (obs r)
  end.
Proof.
  intros fx s0 data id d ps par t Hx Hr.
  pose proof (slow_true_sim fx data id d ps par t Hr) as Hs.
  destruct (slow true d id ps par t); cbn [sim_slow stop obs obs_of] in *;
    try (eapply halts_star; eauto; fail).
  destruct Hs as (s1 & A & B). inversion Hx; subst.
  - exists s1. split; auto.
  - eexists. split; eauto. eapply xstar_trans; eauto. econstructor; eauto.
Qed.

Lemma iter_sim : forall fx s, Inv s ->
  match iter fx true s with
  | Continue s' => xplus fx s s'
  | Done r => halts fx s (obs r)
  end.
Proof.
  intros fx s HI. unfold iter. destruct (get_split 2 (s_data s)) as [[h d]|] eqn:Eg.
  - pose proof (split_read_id _ _ _ Eg) as Hr. set (id := le_word 2 h) in *.
    destruct s as [data ps par t]. cbn [s_data s_ps s_par s_tape andb] in *.
    destruct (is_key ps) eqn:Ek.
    + assert (ps = Key) by (destruct ps; try discriminate; reflexivity). subst ps.
      pose proof (key_fast_sim fx data id d par t Hr (Inv_key_ctx _ HI eq_refl)) as Hk.
      unfold after_fast.
      destruct (key_fast fx d id par t) as [[d' ps' par' t'|d' id' ps' par' t']| | | |]; cbn [sim_res stop obs obs_of] in *; auto.
      destruct Hk as (data' & A & B). eapply after_slow_sim; eauto.
    + unfold after_fast. eapply after_slow_sim; eauto. constructor.
  - exists s, (finish s). split; [constructor|]. split; auto. unfold iter. now rewrite Eg.
Qed.

(* ------------------------------------------------------------------ every step consumes input *)
Lemma slow_data_le : forall d id ps par t s', slow false d id ps par t = Ok s' -> length (s_data s') <= length d.
Proof.
  intros d id ps0 par t0 s' H. unfold slow in H.
  destruct (match ps0 with ObjectToArray => do t' <- mixed_insert2 t0; Ok (ArrayValueMixed, t') | _ => Ok (ps0, t0) end)
    as [[ps t]| | | |]; cbn [obind] in H; try discriminate.
  assert (Hsc : forall k s1, scalar_arm k d ps par t = Ok s1 -> length (s_data s1) <= length d).
  { intros k s1 Hs. unfold scalar_arm in Hs.
    destruct (read_scalar_cases k d) as [(v & r & E & L)|(e & E)]; rewrite E in Hs; cbn [obind] in Hs; [|discriminate].
    rewrite next_state_ok in Hs. cbn [obind] in Hs. inversion Hs; subst. exact L. }
  assert (Htk : (do ps' <- next_state ps; Ok (mkst d ps' par (push t (TToken id)))) = Ok s' -> length (s_data s') <= length d).
  { rewrite next_state_ok. cbn [obind]. intro Hs. inversion Hs; subst. cbn. lia. }
  destruct (classify id); try (eapply Hsc; eauto; fail); try (apply Htk; exact H).
  - destruct (scalar_arm KI32 d ps par t) eqn:Es; cbn [obind] in H; try discriminate. inversion H; subst. eapply Hsc; eauto.
  - destruct (negb (is_key ps)); [inversion H; subst; cbn; lia|].
    destruct t; [discriminate|]. destruct (read_id_cases d) as [(i2 & r2 & E & L)|E]; rewrite E in H; cbn [obind] in H; [|discriminate].
    destruct (N.eqb i2 L_CLOSE); inversion H; subst. cbn. lia.
  - destruct (match ps with KeyValueSeparator => mixed_insert1 t | ObjectValue => Err E_Syntax | _ => Ok t end);
      cbn [obind] in H; try discriminate.
    destruct (push_end par a) as [[r t']| | | |]; cbn [obind] in H; try discriminate. inversion H; subst. cbn. lia.
  - destruct ps; try discriminate; try (inversion H; subst; cbn; lia).
    + destruct (pop t) as [[t1 last]|]; [|discriminate]. destruct (is_array_or_end last); [discriminate|].
      destruct (only_empties par t1).
      * destruct (set_parent_to_object par t1); cbn [obind] in H; try discriminate. inversion H; subst. cbn. lia.
      * inversion H; subst. cbn. lia.
    + destruct (set_parent_to_object par t); cbn [obind] in H; try discriminate. inversion H; subst. cbn. lia.
  - destruct ps; try (apply Htk; exact H).
    destruct (read_scalar_cases KRgb d) as [(v & r & E & L)|(e & E)]; rewrite E in H; cbn [obind] in H; [|discriminate].
    inversion H; subst. exact L.
Qed.

Lemma xstep_data_lt : forall fx s s', xstep fx s s' -> length (s_data s') < length (s_data s).
Proof.
  intros fx s s' [H|[_ (d & Hr & _ & ->)]].
  - destruct (get_split 2 (s_data s)) as [[h d]|] eqn:Eg.
    + rewrite (iter_ref_unfold _ _ _ Eg) in H.
      destruct (slow false d (le_word 2 h) (s_ps s) (s_par s) (s_tape s)) eqn:Es; try discriminate.
      inversion H; subst. apply slow_data_le in Es. apply get_split_len in Eg. lia.
    + unfold iter in H. rewrite Eg in H. discriminate.
  - cbn. destruct (read_id_cases (s_data s)) as [(i2 & r2 & E & L)|E]; rewrite E in Hr; inversion Hr; subst. lia.
Qed.

Lemma xstar_data_le : forall fx s s', xstar fx s s' -> length (s_data s') <= length (s_data s).
Proof. induction 1; auto. apply xstep_data_lt in H. lia. Qed.

Lemma xplus_data_lt : forall fx s s', xplus fx s s' -> length (s_data s') < length (s_data s).
Proof. intros fx s s' (s1 & A & B). apply xstep_data_lt in A. apply xstar_data_le in B. lia. Qed.

(* ------------------------------------------------------------------ whole runs *)
Theorem opt_halts : forall fx f s, Inv s -> length (s_data s) < f -> halts fx s (obs (loop fx true f s)).
Proof.
  intros fx. induction f; intros s HI Hl; [lia|]. cbn [loop].
  pose proof (iter_sim fx s HI) as Hs. destruct (iter fx true s) as [s'|r]; auto.
  pose proof (xplus_data_lt _ _ _ Hs). apply xplus_star in Hs.
  eapply halts_star; eauto. apply IHf; [eapply xstar_inv; eauto | lia].
Qed.

Lemma ref_run : forall fx' s s', xstar true s s' -> forall r f, iter false false s' = Done r ->
  length (s_data s) < f -> loop fx' false f s = r.
Proof.
  induction 1; intros r f Hd Hl; (destruct f; [lia|]); cbn [loop]; rewrite iter_fx_irrelevant.
  - now rewrite Hd.
  - pose proof (xstep_data_lt _ _ _ H) as Hlt. destruct H as [H|[H _]]; [|discriminate].
    rewrite H. apply IHxstar; auto. lia.
Qed.

Lemma iter_ref_done_ok : forall s t, iter false false s = Done (Ok t) -> finish s = Ok t.
Proof.
  intros s t H. destruct (get_split 2 (s_data s)) as [[h d]|] eqn:Eg.
  - rewrite (iter_ref_unfold _ _ _ Eg) in H.
    destruct (slow false d (le_word 2 h) (s_ps s) (s_par s) (s_tape s)); discriminate.
  - unfold iter in H. rewrite Eg in H. now inversion H.
Qed.

Theorem loop_ref_wf : forall fx f s t, Inv s -> loop fx false f s = Ok t -> tape_wf t.
Proof.
  intros fx. induction f; intros s t HI H; [discriminate|]. cbn [loop] in H. rewrite iter_fx_irrelevant in H.
  destruct (iter false false s) as [s'|r] eqn:E.
  - apply (IHf s'); [eapply iter_ref_inv; eauto | exact H].
  - subst r. eapply finish_wf; eauto. now apply iter_ref_done_ok.
Qed.

Theorem parse_wf : forall fx opt d t, parse fx opt d = Ok t -> tape_wf t.
Proof.
  intros fx opt d t H. unfold parse in H. destruct opt.
  - pose proof (opt_halts fx (S (length d)) (init d) (Inv_init d) (Nat.lt_succ_diag_r _)) as Hh.
    rewrite H in Hh. destruct Hh as (s' & r & A & B & C). destruct r; try discriminate. inversion C; subst.
    eapply finish_wf; [eapply xstar_inv; eauto; apply Inv_init | now apply iter_ref_done_ok].
  - eapply loop_ref_wf; eauto. apply Inv_init.
Qed.

Theorem fast_eq_ref_fixed : forall d, obs (parse true true d) = obs (parse true false d).
Proof.
  intro d. unfold parse.
  pose proof (opt_halts true (S (length d)) (init d) (Inv_init d) (Nat.lt_succ_diag_r _)) as (s' & r & A & B & C).
  rewrite (ref_run true _ _ A r (S (length d)) B (Nat.lt_succ_diag_r _)). now symmetry.
Qed.

(* ------------------------------------------------------------------ the code as it is (fx = false) *)
(* the exclusion that characterises finding B: the extended machine never meets the I64 id as the
   next lexeme in key position (state Key) or as first element of a container (state OpenFirst) --
   the states in which the three id-class tests of the fast path are evaluated *)
Definition i64_never_in_key_position (d : bytes) : Prop :=
  forall s, xstar false (init d) s -> s_ps s = Key \/ s_ps s = OpenFirst ->
            forall r, read_id (s_data s) <> Ok (L_I64, r).

Lemma xstar_false_true : forall s s', xstar false s s' ->
  (forall s2, xstar false s s2 -> s_ps s2 = Key \/ s_ps s2 = OpenFirst -> forall r, read_id (s_data s2) <> Ok (L_I64, r)) ->
  xstar true s s'.
Proof.
  induction 1; intros Hn; [constructor|].
  destruct H as [H|[_ (d & Hr & Hp & _)]].
  - econstructor; [left; exact H|]. apply IHxstar. intros s3 Hs3. apply Hn. econstructor; [left; exact H | exact Hs3].
  - exfalso. eapply (Hn s); eauto. constructor.
Qed.

Theorem fast_eq_ref_no_i64 : forall d, i64_never_in_key_position d ->
  obs (parse false true d) = obs (parse false false d).
Proof.
  intros d Hn. unfold parse.
  pose proof (opt_halts false (S (length d)) (init d) (Inv_init d) (Nat.lt_succ_diag_r _)) as (s' & r & A & B & C).
  apply xstar_false_true in A; [|exact Hn].
  rewrite (ref_run false _ _ A r (S (length d)) B (Nat.lt_succ_diag_r _)). now symmetry.
Qed.

Theorem ref_fx_irrelevant : forall fx d, parse fx false d = parse false false d.
Proof.
  intros fx d. unfold parse. generalize (init d). induction (S (length d)); intro s; cbn [loop]; [reflexivity|].
  rewrite iter_fx_irrelevant. destruct (iter false false s); auto.
Qed.

(* non-vacuity of the exclusion: `0x2d82 = I32 89`, every reachable state enumerated *)
Ltac run_star H :=
  let Hstep := fresh "Hstep" in let Hrest := fresh "Hrest" in
  inversion H as [|? ? ? Hstep Hrest]; subst;
  [ intros _ ? E; vm_compute in E; discriminate
  | destruct Hstep as [Hstep|[_ (? & Hstep & _)]];
    [ vm_compute in Hstep; inversion Hstep; subst; clear Hstep; run_star Hrest
    | vm_compute in Hstep; discriminate ] ].

Example i64_never_example : i64_never_in_key_position [130;45; 1;0; 12;0; 89;0;0;0]%N.
Proof. intros s H. run_star H. Qed.

(* ------------------------------------------------------------------ the executable checker *)
Lemma dyck_closed : forall b l, closed_seq b l -> (b <> 0 \/ not_cont_hd l) ->
  forall stack rest, dyck b stack (l ++ rest) = dyck (b + length l) stack rest.
Proof.
  induction 1; intros Hb stack rest.
  - cbn. now rewrite Nat.add_0_r.
  - cbn [app length]. replace (b + S (length r)) with (S b + length r) by lia.
    rewrite <- IHclosed_seq by (left; lia).
    destruct x; cbn in H; try discriminate; reflexivity.
  - assert (Hb0 : b <> 0).
    { destruct Hb as [|Hh]; auto. intros ->. specialize (Hh c eq_refl). apply container_end_is in H. congruence. }
    cbn [app]. rewrite <- app_assoc. cbn [app length]. rewrite app_length. cbn [length].
    assert (Hin : forall st, dyck (S b) ((b, e) :: st) (inner ++ TEnd b :: r ++ rest) = dyck (b + S (length inner + S (length r))) st rest).
    { intros st. rewrite IHclosed_seq1 by (left; lia). cbn [dyck].
      rewrite Nat.eqb_refl. replace (Nat.eqb e (S b + length inner)) with true by (symmetry; apply Nat.eqb_eq; lia).
      cbn [andb]. replace (S (S b + length inner)) with (S e) by lia.
      rewrite IHclosed_seq2 by (left; lia). f_equal. lia. }
    destruct c; cbn in H; try discriminate; inversion H; subst e0; cbn [dyck];
      (destruct (Nat.eqb b 0) eqn:Eb; [apply Nat.eqb_eq in Eb; congruence|]); cbn [negb andb]; apply Hin.
Qed.

Theorem closed_checker : forall t, closed_seq 0 t -> not_cont_hd t -> tape_wfb t = true.
Proof.
  intros t H Hh. unfold tape_wfb. rewrite <- (app_nil_r t). rewrite (dyck_closed 0 t H (or_intror Hh)). reflexivity.
Qed.

Theorem parse_checker : forall fx opt d t, parse fx opt d = Ok t -> tape_wfb t = true.
Proof. intros fx opt d t H. apply parse_wf in H. destruct H as (_ & _ & [Hh _] & Hc). now apply closed_checker. Qed.
