(* buffer.rs at storage level: proofs about coq/theories/BufStore.v  (wave 5, engineer w_buf)

   PLAN
   0. [bs_inv st]  :=  s_start <= s_end <= |s_buf|            (the pointer invariant of BufferWindow)
      [window st]  :=  firstn (s_end - s_start) (skipn s_start s_buf)     (what window() returns)
      [abs_of st]  :  the BufWin.bufwin this store is an implementation of (cap, window, consumed, prior)
      [absst_of st]:  abs_of + the bytes `get` can still reach behind the window start.
   1. SAFETY (index level; closes C05's "no index-level theorem for fill_buf"):
      - constructors establish bs_inv; every operation that answers Ok keeps it;
      - window / window_len / fill_buf NEVER crash from a bs_inv state -- any buffer contents, any
        schedule (short reads, faults), any scribbling Read;
      - advance / advance_to / get crash IFF their precondition is violated (amt <= window_len,
        start <= p <= end, i <= j <= end): the model's OOB outcomes are exactly the contract that
        the debug_assert!s of buffer.rs state.
   2. REFINEMENT (closes C07/C08's "recycled buffers are covered by streams only"):
      abs_of commutes with every operation of BufWin.v (bw_new / bw_from_slice / bw_advance /
      bw_fill_buf / bw_position / bw_window_len), for ANY buffer contents; hence
      - [bs_run_refines]: every op list on a window built over ANY buffer = the same list on the
        window-level model, which has no storage: stale bytes are unobservable;
      - [bs_run_buffer_independent], [bs_run_recycled]: two buffers of the same length / a buffer
        handed back by a previous window are indistinguishable;
      - [bs_drive_refines]: the same for any adaptive client (a function from the observations so
        far to the next operation) -- both TokenReaders are such clients;
      - resolved (contract-respecting) op lists never crash: [bs_run_safe].
   3. POSITION / STREAM LAW: position() = prior_reads + start = bw_position (abs_of st); fill_buf
      never moves it (whatever the outcome), advance moves it by amt; position + window_len =
      bytes delivered by the Read; and over the data [input] handed out by the Read, for any dirty
      buffer: window() = input[position .. position + window_len) and
      get(i..j) = input[prior_reads + i .. prior_reads + j)  ([bs_step_stream_law], [bs_run_stream_law]).
   Not covered: usize overflow of prior_reads + consumed (positions are nat); a Read that answers
   Ok(0) although data is left and room is free (BufWin.rd_read cannot express it); a Read that
   reports more bytes than it was given (site 8610 is dead with rd_read: [bs_fill_buf_safe]). *)
From JV Require Import Bytes BufWin BufStore.
From JV.proofs Require Import BufWinProofs.
From Coq Require Import Lia List Arith.
Import ListNotations.
Open Scope nat_scope.

(* ---------- lists ---------- *)
Lemma firstn_plus {A} (a b : nat) (l : list A) : firstn (a + b) l = firstn a l ++ firstn b (skipn a l).
Proof.
  revert l. induction a; intros l; [reflexivity|].
  destruct l; [now rewrite !firstn_nil|]. cbn [Nat.add firstn skipn app]. now rewrite IHa.
Qed.

Lemma skipn_plus {A} (a b : nat) (l : list A) : skipn (a + b) l = skipn b (skipn a l).
Proof.
  revert l. induction a; intros l; [reflexivity|].
  destruct l; [now rewrite !skipn_nil|]. cbn [Nat.add skipn]. apply IHa.
Qed.

Lemma firstn_firstn_le {A} (i j : nat) (l : list A) : i <= j -> firstn i (firstn j l) = firstn i l.
Proof. intros H. rewrite firstn_firstn. now rewrite Nat.min_l. Qed.

Lemma firstn_app_le {A} (n : nat) (l1 l2 : list A) : n <= length l1 -> firstn n (l1 ++ l2) = firstn n l1.
Proof.
  intros H. rewrite firstn_app. replace (n - length l1) with 0 by lia. now rewrite firstn_O, app_nil_r.
Qed.

Lemma firstn_app_exact {A} (l1 l2 : list A) : firstn (length l1) (l1 ++ l2) = l1.
Proof. rewrite firstn_app, Nat.sub_diag, firstn_O, app_nil_r. apply firstn_all. Qed.

(* the bytes of l from offset [off], [n] of them *)
Definition segment {A} (l : list A) (off n : nat) : list A := firstn n (skipn off l).

Lemma segment_app_mid {A} (pre w post : list A) : segment (pre ++ w ++ post) (length pre) (length w) = w.
Proof.
  unfold segment. rewrite skipn_app, skipn_all, Nat.sub_diag. cbn [skipn app]. apply firstn_app_exact.
Qed.

(* ---------- the invariant and the abstraction ---------- *)
Definition bs_inv (st : store) : Prop := s_start st <= s_end st /\ s_end st <= length (s_buf st).
Definition window (st : store) : bytes := firstn (s_end st - s_start st) (skipn (s_start st) (s_buf st)).
Definition behind (st : store) : bytes := firstn (s_start st) (s_buf st).
Definition visible (st : store) : bytes := firstn (s_end st) (s_buf st).
Definition abs_of (st : store) : bufwin := mkbw (bs_buf_len st) (window st) (s_start st) (s_prior st).
Definition absst_of (st : store) : absst := mkabs (abs_of st) (behind st).

Lemma window_length st : bs_inv st -> length (window st) = s_end st - s_start st.
Proof. intros [H1 H2]. unfold window. rewrite firstn_length, skipn_length. lia. Qed.

Lemma behind_length st : bs_inv st -> length (behind st) = s_start st.
Proof. intros [H1 H2]. unfold behind. rewrite firstn_length. lia. Qed.

Lemma visible_split st : bs_inv st -> visible st = behind st ++ window st.
Proof.
  intros [H1 H2]. unfold visible, behind, window.
  replace (s_end st) with (s_start st + (s_end st - s_start st)) at 1 by lia. apply firstn_plus.
Qed.

(* ---------- constructors ---------- *)
Lemma bs_build_inv buf : bs_inv (bs_build buf).
Proof. unfold bs_inv, bs_build. cbn. lia. Qed.

Lemma bs_from_slice_inv d : bs_inv (bs_from_slice d).
Proof. unfold bs_inv, bs_from_slice. cbn. lia. Qed.

Lemma abs_of_build buf : abs_of (bs_build buf) = bw_new (length buf).
Proof. reflexivity. Qed.

Lemma abs_of_new n : abs_of (bs_new n) = bw_new n.
Proof. unfold bs_new. rewrite abs_of_build, repeat_length. reflexivity. Qed.

Lemma abs_of_from_slice d : abs_of (bs_from_slice d) = bw_from_slice d.
Proof.
  unfold abs_of, bs_from_slice, bw_from_slice, window, bs_buf_len. cbn [s_buf s_owned s_start s_end s_prior skipn].
  now rewrite Nat.sub_0_r, firstn_all.
Qed.

Lemma absst_of_build buf : absst_of (bs_build buf) = abs_build (length buf).
Proof. reflexivity. Qed.

Lemma absst_of_from_slice d : absst_of (bs_from_slice d) = abs_from_slice d.
Proof. unfold absst_of. rewrite abs_of_from_slice. reflexivity. Qed.

(* ---------- window_len / window / position ---------- *)
Lemma bs_window_len_ok st : bs_inv st -> bs_window_len st = Ok (length (window st)).
Proof.
  intros H. rewrite (window_length st H). destruct H as [H1 H2]. unfold bs_window_len.
  destruct (Nat.ltb_spec (s_end st) (s_start st)); [lia|reflexivity].
Qed.

Lemma bs_window_ok st : bs_inv st -> bs_window st = Ok (window st).
Proof.
  intros H. unfold bs_window. rewrite (bs_window_len_ok st H). cbn [obind].
  rewrite (window_length st H). destruct H as [H1 H2].
  destruct (Nat.ltb_spec (length (s_buf st)) (s_start st + (s_end st - s_start st))); [lia|reflexivity].
Qed.

Lemma bs_position_abs st : bs_position st = bw_position (abs_of st).
Proof. reflexivity. Qed.

Lemma bs_window_len_abs st : bs_inv st -> bs_window_len st = Ok (bw_window_len (abs_of st)).
Proof. apply bs_window_len_ok. Qed.

(* ---------- advance / advance_to ---------- *)
Definition adv_to (st : store) (p : nat) : store := mkst (s_buf st) (s_owned st) p (s_end st) (s_prior st).

Lemma bs_advance_spec st amt :
  bs_advance st amt = if Nat.leb (s_start st + amt) (s_end st) then Ok (adv_to st (s_start st + amt)) else OOB 8601%N.
Proof. reflexivity. Qed.

Lemma adv_to_inv st p : bs_inv st -> s_start st <= p <= s_end st -> bs_inv (adv_to st p).
Proof. unfold bs_inv, adv_to. cbn. lia. Qed.

Lemma adv_to_window st amt :
  bs_inv st -> amt <= length (window st) -> window (adv_to st (s_start st + amt)) = skipn amt (window st).
Proof.
  intros H Ha. rewrite (window_length st H) in Ha. unfold window, adv_to. cbn [s_buf s_start s_end].
  rewrite skipn_firstn_comm, <- skipn_plus. f_equal. lia.
Qed.

Lemma adv_to_behind st amt :
  bs_inv st -> amt <= length (window st) -> behind (adv_to st (s_start st + amt)) = behind st ++ firstn amt (window st).
Proof.
  intros H Ha. rewrite (window_length st H) in Ha. unfold behind, window, adv_to. cbn [s_buf s_start s_end].
  rewrite firstn_plus. f_equal. now rewrite firstn_firstn_le.
Qed.

(* advance crashes exactly when it would pass the end of the window *)
Theorem bs_advance_ok_iff st amt :
  bs_inv st -> (is_ok (bs_advance st amt) = true <-> amt <= length (window st)).
Proof.
  intros H. rewrite (window_length st H), bs_advance_spec. destruct H as [H1 H2].
  destruct (Nat.leb_spec (s_start st + amt) (s_end st)); cbn [is_ok]; split; intros; try lia; try reflexivity; discriminate.
Qed.

Theorem bs_advance_keeps_inv st amt st' : bs_inv st -> bs_advance st amt = Ok st' -> bs_inv st'.
Proof.
  intros H. rewrite bs_advance_spec. destruct (Nat.leb_spec (s_start st + amt) (s_end st)); [|discriminate].
  intros E. inversion E; subst. apply adv_to_inv; [exact H|lia].
Qed.

(* abs_of commutes with advance (same outcome, same crash site 8601) *)
Theorem bs_advance_refines st amt :
  bs_inv st -> omap abs_of (bs_advance st amt) = bw_advance (abs_of st) amt.
Proof.
  intros H. rewrite bs_advance_spec. unfold bw_advance. cbn [win abs_of].
  pose proof (window_length st H) as HL.
  destruct (Nat.leb_spec (s_start st + amt) (s_end st)) as [Hle|Hgt];
    destruct (Nat.ltb_spec (length (window st)) amt) as [Hlt|Hge]; try (destruct H; lia).
  - cbn [omap obind]. f_equal. unfold abs_of at 1. cbn [cap consumed prior].
    rewrite (adv_to_window st amt H Hge). reflexivity.
  - reflexivity.
Qed.

Lemma bs_advance_to_spec st p :
  bs_advance_to st p = if Nat.leb (s_start st) p && Nat.leb p (s_end st) then Ok (adv_to st p) else OOB 8600%N.
Proof. reflexivity. Qed.

Theorem bs_advance_to_ok_iff st p :
  is_ok (bs_advance_to st p) = true <-> s_start st <= p <= s_end st.
Proof.
  rewrite bs_advance_to_spec.
  destruct (Nat.leb_spec (s_start st) p); destruct (Nat.leb_spec p (s_end st)); cbn [andb is_ok]; split; intros; try lia; try reflexivity; discriminate.
Qed.

Theorem bs_advance_to_keeps_inv st p st' : bs_inv st -> bs_advance_to st p = Ok st' -> bs_inv st'.
Proof.
  intros H. rewrite bs_advance_to_spec.
  destruct (Nat.leb_spec (s_start st) p); destruct (Nat.leb_spec p (s_end st)); cbn [andb]; try discriminate.
  intros E. inversion E; subst. apply adv_to_inv; [exact H|lia].
Qed.

(* advance_to(p) = advance(p - start) whenever it is inside its contract *)
Theorem bs_advance_to_is_advance st p st' :
  bs_advance_to st p = Ok st' -> bs_advance st (p - s_start st) = Ok st'.
Proof.
  rewrite bs_advance_to_spec, bs_advance_spec.
  destruct (Nat.leb_spec (s_start st) p); destruct (Nat.leb_spec p (s_end st)); cbn [andb]; try discriminate.
  intros E. replace (s_start st + (p - s_start st)) with p by lia.
  destruct (Nat.leb_spec p (s_end st)); [exact E|lia].
Qed.

(* ---------- get ---------- *)
Theorem bs_get_ok_iff st i j : bs_inv st -> (is_ok (bs_get st i j) = true <-> i <= j <= s_end st).
Proof.
  intros [H1 H2]. unfold bs_get.
  destruct (Nat.ltb_spec (s_end st) j); cbn [is_ok]; [split; [discriminate|lia]|].
  destruct (Nat.ltb_spec j i); cbn [is_ok]; [split; [discriminate|lia]|].
  destruct (Nat.ltb_spec (length (s_buf st)) j); cbn [is_ok]; [lia|]. split; [lia|reflexivity].
Qed.

Lemma abs_end_of st : bs_inv st -> abs_end (absst_of st) = s_end st.
Proof.
  intros H. unfold abs_end, absst_of. cbn [a_behind a_win abs_of win].
  rewrite (behind_length st H), (window_length st H). destruct H; lia.
Qed.

(* get only ever sees [visible st] = the consumed bytes still in place ++ the window *)
Theorem bs_get_refines st i j : bs_inv st -> bs_get st i j = abs_get (absst_of st) i j.
Proof.
  intros H. unfold bs_get, abs_get. rewrite (abs_end_of st H).
  destruct (Nat.ltb_spec (s_end st) j); [reflexivity|].
  destruct (Nat.ltb_spec j i); [reflexivity|].
  destruct (Nat.ltb_spec (length (s_buf st)) j); [destruct H; lia|].
  f_equal. unfold absst_of. cbn [a_behind a_win abs_of win]. rewrite <- (visible_split st H). unfold visible.
  rewrite skipn_firstn_comm, firstn_firstn_le by lia. reflexivity.
Qed.

(* the idiom of the text reader: advance over a token, then get the bytes just passed *)
Theorem bs_get_after_advance st amt st' :
  bs_inv st -> bs_advance st amt = Ok st' ->
  bs_get st' (s_start st) (s_start st + amt) = Ok (firstn amt (window st)).
Proof.
  intros H. rewrite bs_advance_spec. destruct (Nat.leb_spec (s_start st + amt) (s_end st)) as [Hle|]; [|discriminate].
  intros E. inversion E; subst; clear E. destruct H as [H1 H2]. unfold bs_get, adv_to. cbn [s_buf s_end].
  destruct (Nat.ltb_spec (s_end st) (s_start st + amt)); [lia|].
  destruct (Nat.ltb_spec (s_start st + amt) (s_start st)); [lia|].
  destruct (Nat.ltb_spec (length (s_buf st)) (s_start st + amt)); [lia|].
  f_equal. unfold window. rewrite firstn_firstn_le by lia. f_equal. lia.
Qed.

(* ---------- fill_buf ---------- *)
Lemma copy_within_tail_length c from : from <= length c -> length (copy_within_tail c from) = length c.
Proof. intros H. unfold copy_within_tail. rewrite app_length, !skipn_length. lia. Qed.

Lemma copy_within_tail_firstn c from n :
  from + n <= length c -> firstn n (copy_within_tail c from) = firstn n (skipn from c).
Proof. intros H. unfold copy_within_tail. apply firstn_app_le. rewrite skipn_length. lia. Qed.

Lemma write_at_length c at_ bs : at_ + length bs <= length c -> length (write_at c at_ bs) = length c.
Proof. intros H. unfold write_at. rewrite !app_length, firstn_length, skipn_length. lia. Qed.

Lemma write_at_firstn c at_ bs :
  at_ + length bs <= length c -> firstn (at_ + length bs) (write_at c at_ bs) = firstn at_ c ++ bs.
Proof.
  intros H. unfold write_at. rewrite app_assoc.
  replace (at_ + length bs) with (length (firstn at_ c ++ bs)) by (rewrite app_length, firstn_length; lia).
  apply firstn_app_exact.
Qed.

Lemma scribble_length c from scr : from <= length c -> length (scribble c from scr) = length c.
Proof.
  intros H. destruct scr as [j|]; [|reflexivity]. cbn [scribble].
  rewrite app_length, firstn_length, repeat_length. lia.
Qed.

Lemma scribble_firstn c from scr : from <= length c -> firstn from (scribble c from scr) = firstn from c.
Proof.
  intros H. destruct scr as [j|]; [|reflexivity]. cbn [scribble].
  rewrite firstn_app_le by (rewrite firstn_length; lia). now rewrite firstn_firstn, Nat.min_id.
Qed.

(* the carried-over bytes land at offset 0, whatever else copy_within moves *)
Lemma carry_firstn st :
  bs_inv st ->
  let carry := s_end st - s_start st in
  let c1 := if Nat.eqb carry 0 then s_buf st else copy_within_tail (s_buf st) (s_start st) in
  length c1 = length (s_buf st) /\ firstn carry c1 = window st.
Proof.
  intros [H1 H2] carry c1. subst c1. destruct (Nat.eqb_spec carry 0) as [Hz|Hnz].
  - split; [reflexivity|]. unfold window. fold carry. now rewrite Hz, !firstn_O.
  - split; [apply copy_within_tail_length; lia|]. unfold window. fold carry.
    apply copy_within_tail_firstn. subst carry. lia.
Qed.

Definition fill_early (st : store) : bool := Nat.leb (bs_buf_len st) (s_end st - s_start st).

(* what fill_buf does at storage level, for any Read that keeps the one promise of std::io::Read
   (it reports at most as many bytes as it was handed): no crash, invariant kept, buffer length kept,
   the new window is the old one ++ what was read, prior_reads absorbs consumed_data *)
Lemma bs_fill_core_spec st read rfail r0 scr :
  bs_inv st ->
  (forall free bs r', read free = Ok (bs, r') -> length bs <= free) ->
  match bs_fill_core st read rfail r0 scr with
  | SFillOk n st' r' =>
      bs_inv st' /\ length (s_buf st') = length (s_buf st) /\ s_owned st' = s_owned st /\
      (if fill_early st then st' = st /\ r' = r0 /\ n = 0 /\ bs_buf_len st = 0
       else s_start st' = 0 /\ exists bs, read (bs_buf_len st - length (window st)) = Ok (bs, r') /\ n = length bs /\
            abs_of st' = mkbw (bs_buf_len st) (window st ++ bs) 0 (s_prior st + s_start st))
  | SFillIo st' r' =>
      bs_inv st' /\ length (s_buf st') = length (s_buf st) /\ s_owned st' = s_owned st /\
      fill_early st = false /\ s_start st' = 0 /\ r' = rfail /\
      (forall bs r2, read (bs_buf_len st - length (window st)) <> Ok (bs, r2)) /\
      abs_of st' = mkbw (bs_buf_len st) (window st) 0 (s_prior st + s_start st)
  | SFillFull st' r' => st' = st /\ r' = r0 /\ fill_early st = true /\ bs_buf_len st <> 0
  | SFillCrash _ => False
  end.
Proof.
  intros H Hread. pose proof (window_length st H) as HL. pose proof (carry_firstn st H) as HC. cbv zeta in HC.
  unfold bs_fill_core, fill_early. rewrite (bs_window_len_ok st H), HL.
  set (carry := s_end st - s_start st) in *.
  destruct (Nat.leb_spec (bs_buf_len st) carry) as [Hfull|Hroom].
  - destruct H as [Hi1 Hi2]. destruct (Nat.eqb_spec (bs_buf_len st) 0); repeat split; auto.
  - assert (Hown : s_owned st = true /\ bs_buf_len st = length (s_buf st)).
    { unfold bs_buf_len in *. destruct (s_owned st); [auto|lia]. }
    destruct Hown as [Hown Hlen]. destruct H as [H1 H2]. unfold bs_consumed_data.
    replace (negb (Nat.eqb carry 0) && Nat.ltb (length (s_buf st)) (s_start st)) with false
      by (destruct (Nat.ltb_spec (length (s_buf st)) (s_start st)); [lia|now rewrite andb_false_r]).
    set (c1 := if Nat.eqb carry 0 then s_buf st else copy_within_tail (s_buf st) (s_start st)) in *.
    destruct HC as [HC1 HC2]. rewrite Hlen in *.
    assert (HIo : forall rr, length (scribble c1 carry scr) = length (s_buf st) /\
              abs_of (mkst (scribble c1 carry scr) true 0 carry rr) = mkbw (length (s_buf st)) (window st) 0 rr).
    { intros rr. assert (Hs : length (scribble c1 carry scr) = length (s_buf st)) by (rewrite scribble_length; lia).
      split; [exact Hs|]. unfold abs_of. cbn [s_buf s_owned s_start s_end s_prior bs_buf_len]. rewrite Hs. f_equal.
      unfold window. cbn [s_buf s_start s_end skipn]. rewrite Nat.sub_0_r. rewrite scribble_firstn by lia. exact HC2. }
    destruct (read (length (s_buf st) - carry)) as [[bs r']| | | |] eqn:Hrd.
    + pose proof (Hread _ _ _ Hrd) as Hle.
      destruct (Nat.ltb_spec (length (s_buf st)) (carry + length bs)); [lia|].
      assert (Hw : length (write_at c1 carry bs) = length (s_buf st)) by (rewrite write_at_length; lia).
      assert (Hs : length (scribble (write_at c1 carry bs) (carry + length bs) scr) = length (s_buf st))
        by (rewrite scribble_length; lia).
      split; [unfold bs_inv; cbn [s_buf s_start s_end]; lia|]. split; [exact Hs|]. split; [symmetry; exact Hown|].
      split; [reflexivity|]. exists bs. split; [reflexivity|]. split; [reflexivity|].
      unfold abs_of. cbn [s_buf s_owned s_start s_end s_prior bs_buf_len]. rewrite Hs. f_equal.
      unfold window. cbn [s_buf s_start s_end skipn]. rewrite Nat.sub_0_r.
      rewrite scribble_firstn by lia. rewrite write_at_firstn by lia. now rewrite HC2.
    + destruct (HIo (s_prior st + s_start st)) as [Hs Ha].
      repeat split; try (cbn [s_buf s_start s_end s_owned]; lia); auto; intros; discriminate.
    + destruct (HIo (s_prior st + s_start st)) as [Hs Ha].
      repeat split; try (cbn [s_buf s_start s_end s_owned]; lia); auto; intros; discriminate.
    + destruct (HIo (s_prior st + s_start st)) as [Hs Ha].
      repeat split; try (cbn [s_buf s_start s_end s_owned]; lia); auto; intros; discriminate.
    + destruct (HIo (s_prior st + s_start st)) as [Hs Ha].
      repeat split; try (cbn [s_buf s_start s_end s_owned]; lia); auto; intros; discriminate.
Qed.

Lemma rd_read_le r free bs r' : rd_read r free = Ok (bs, r') -> length bs <= free.
Proof. intros E. now destruct (rd_read_split _ _ _ _ E) as (_ & L & _). Qed.

(* THE refinement step: abs_of commutes with fill_buf -- for any buffer contents [s_buf st], any
   Read schedule, any scribbling; no crash outcome; the invariant is kept; the buffer keeps its size. *)
Theorem bs_fill_buf_refines st r scr :
  bs_inv st ->
  match bs_fill_buf st r scr with
  | SFillOk n st' r' =>
      bw_fill_buf (abs_of st) r = FillOk n (abs_of st') r' /\ bs_inv st' /\
      length (s_buf st') = length (s_buf st) /\ s_owned st' = s_owned st /\
      (if fill_early st then st' = st /\ r' = r else s_start st' = 0)
  | SFillIo st' r' =>
      bw_fill_buf (abs_of st) r = FillIo (abs_of st') r' /\ bs_inv st' /\
      length (s_buf st') = length (s_buf st) /\ s_owned st' = s_owned st /\
      fill_early st = false /\ s_start st' = 0
  | SFillFull st' r' =>
      bw_fill_buf (abs_of st) r = FillFull (abs_of st') r' /\ st' = st /\ fill_early st = true /\ r' = r
  | SFillCrash _ => False
  end.
Proof.
  intros H. pose proof (window_length st H) as HL.
  pose proof (bs_fill_core_spec st (rd_read r) (rd_after_fail r) r scr H (rd_read_le r)) as S.
  unfold bs_fill_buf. unfold bw_fill_buf. cbn [cap win abs_of consumed prior].
  unfold fill_early in *. rewrite <- HL in S |- *.
  destruct (bs_fill_core st (rd_read r) (rd_after_fail r) r scr) as [n st' r'|st' r'|st' r'|s]; [| | |exact S].
  - destruct S as (S1 & S2 & S3 & S4). split; [|split; [exact S1|split; [exact S2|split; [exact S3|]]]].
    + destruct (Nat.leb (bs_buf_len st) (length (window st))).
      * destruct S4 as (-> & -> & -> & Z). rewrite Z. reflexivity.
      * destruct S4 as (Z & bs & E & -> & A). rewrite E, A. reflexivity.
    + destruct (Nat.leb (bs_buf_len st) (length (window st))); [destruct S4 as (-> & -> & _); auto|tauto].
  - destruct S as (S1 & S2 & S3 & S4 & S5 & -> & S7 & A). rewrite S4.
    split; [|tauto]. rewrite A.
    destruct (rd_read r (bs_buf_len st - length (window st))) as [[bs r2]| | | |] eqn:E; try reflexivity.
    exfalso. exact (S7 _ _ eq_refl).
  - destruct S as (-> & -> & S3 & S4). rewrite S3. apply Nat.eqb_neq in S4. rewrite S4. auto.
Qed.

(* index-level safety of fill_buf: from a state satisfying the pointer invariant no offset leaves
   the buffer (copy_within, buf[carry..], end.add(r)), whatever the buffer holds, whatever the Read
   does; the invariant holds again afterwards and the buffer keeps its length *)
Definition sfill_state (f : sfill_res) : option store :=
  match f with SFillOk _ st _ | SFillIo st _ | SFillFull st _ => Some st | SFillCrash _ => None end.

Theorem bs_fill_core_safe st read rfail r0 scr :
  bs_inv st ->
  (forall free bs r', read free = Ok (bs, r') -> length bs <= free) ->
  exists st', sfill_state (bs_fill_core st read rfail r0 scr) = Some st' /\ bs_inv st' /\
              length (s_buf st') = length (s_buf st) /\ s_owned st' = s_owned st.
Proof.
  intros H Hr. pose proof (bs_fill_core_spec st read rfail r0 scr H Hr) as R.
  destruct (bs_fill_core st read rfail r0 scr) as [n st' r'|st' r'|st' r'|s]; cbn [sfill_state].
  - exists st'. tauto.
  - exists st'. tauto.
  - exists st'. destruct R as (-> & _). auto.
  - contradiction.
Qed.

Theorem bs_fill_buf_safe st r scr :
  bs_inv st ->
  exists st', sfill_state (bs_fill_buf st r scr) = Some st' /\ bs_inv st' /\
              length (s_buf st') = length (s_buf st) /\ s_owned st' = s_owned st.
Proof. intros H. apply bs_fill_core_safe; [exact H|apply rd_read_le]. Qed.

(* position(): never moved by fill_buf, whatever its outcome *)
Lemma bs_fill_core_position st read rfail r0 scr st' :
  bs_inv st -> (forall free bs r', read free = Ok (bs, r') -> length bs <= free) ->
  sfill_state (bs_fill_core st read rfail r0 scr) = Some st' -> bs_position st' = bs_position st.
Proof.
  intros H Hr. pose proof (bs_fill_core_spec st read rfail r0 scr H Hr) as S.
  assert (K : forall w n, abs_of st' = mkbw (bs_buf_len st) w n (s_prior st + s_start st) -> s_start st' = n ->
                          bs_position st' = bs_position st + n).
  { intros w n A Z. apply (f_equal prior) in A. cbn [prior abs_of] in A. unfold bs_position, bs_consumed_data. lia. }
  destruct (bs_fill_core st read rfail r0 scr) as [n st2 r'|st2 r'|st2 r'|s]; cbn [sfill_state]; intros E; inversion E; subst st2.
  - destruct S as (_ & _ & _ & S4). destruct (fill_early st).
    + destruct S4 as (-> & _). reflexivity.
    + destruct S4 as (Z & bs & _ & _ & A). rewrite (K _ 0 A Z). lia.
  - destruct S as (_ & _ & _ & _ & Z & _ & _ & A). rewrite (K _ 0 A Z). lia.
  - destruct S as (-> & _). reflexivity.
Qed.

Theorem bs_fill_buf_position st r scr st' :
  bs_inv st -> sfill_state (bs_fill_buf st r scr) = Some st' -> bs_position st' = bs_position st.
Proof. intros H. apply bs_fill_core_position; [exact H|apply rd_read_le]. Qed.

Lemma zero_read_le (r : rd) : forall free bs r', (fun _ : nat => Ok (@nil N, r)) free = Ok (bs, r') -> length bs <= free.
Proof. intros free bs r' E. inversion E. cbn. lia. Qed.

Theorem bs_fill_zero_position st r scr st' :
  bs_inv st -> sfill_state (bs_fill_zero st r scr) = Some st' -> bs_position st' = bs_position st.
Proof. intros H. apply bs_fill_core_position; [exact H|apply zero_read_le]. Qed.

(* a Read answering Ok(0) with data left: the window is repositioned, nothing else happens *)
Theorem bs_fill_zero_spec st r scr :
  bs_inv st ->
  match bs_fill_zero st r scr with
  | SFillOk n st' r' =>
      n = 0 /\ r' = r /\ bs_inv st' /\ length (s_buf st') = length (s_buf st) /\ s_owned st' = s_owned st /\
      (if fill_early st then st' = st /\ bs_buf_len st = 0
       else s_start st' = 0 /\ abs_of st' = mkbw (bs_buf_len st) (window st) 0 (s_prior st + s_start st))
  | SFillFull st' r' => st' = st /\ r' = r /\ fill_early st = true /\ bs_buf_len st <> 0
  | SFillIo _ _ | SFillCrash _ => False
  end.
Proof.
  intros H. pose proof (bs_fill_core_spec st (fun _ => Ok ([], r)) r r scr H (zero_read_le r)) as S.
  unfold bs_fill_zero. destruct (bs_fill_core st (fun _ => Ok ([], r)) r r scr) as [n st' r'|st' r'|st' r'|s].
  - destruct S as (S1 & S2 & S3 & S4). destruct (fill_early st).
    + destruct S4 as (-> & -> & -> & Z). auto 10.
    + destruct S4 as (Z & bs & E & -> & A). inversion E; subst. rewrite app_nil_r in A. auto 10.
  - destruct S as (_ & _ & _ & _ & _ & _ & S7 & _). exact (S7 _ _ eq_refl).
  - exact S.
  - exact S.
Qed.

Theorem bs_advance_position st amt st' :
  bs_advance st amt = Ok st' -> bs_position st' = bs_position st + amt.
Proof.
  rewrite bs_advance_spec. destruct (Nat.leb (s_start st + amt) (s_end st)); [|discriminate].
  intros E; inversion E. unfold bs_position, bs_consumed_data, adv_to. cbn. lia.
Qed.

(* ---------- one op: the storage model and the window-level model make the same observation ---------- *)
Lemma bs_observe_abs ev st : bs_inv st -> bs_observe ev st = abs_observe ev (absst_of st).
Proof. intros H. unfold bs_observe. rewrite (bs_window_ok st H). reflexivity. Qed.

Lemma behind_start0 st : s_start st = 0 -> behind st = [].
Proof. intros E. unfold behind. now rewrite E. Qed.

Definition step_st (x : obs * store * rd) : store := snd (fst x).

Lemma mod_le k n : Nat.modulo k (n + 1) <= n.
Proof. pose proof (Nat.mod_upper_bound k (n + 1)). lia. Qed.

Lemma abs_advance_of st amt :
  bs_inv st -> amt <= length (window st) ->
  abs_advance (absst_of st) amt = Ok (absst_of (adv_to st (s_start st + amt))) /\
  bs_advance st amt = Ok (adv_to st (s_start st + amt)) /\
  bs_advance_to st (s_start st + amt) = Ok (adv_to st (s_start st + amt)).
Proof.
  intros H Ha. pose proof (window_length st H) as HL. pose proof (bs_advance_refines st amt H) as R.
  rewrite bs_advance_spec, bs_advance_to_spec in *.
  destruct (Nat.leb_spec (s_start st + amt) (s_end st)); [|destruct H; lia].
  destruct (Nat.leb_spec (s_start st) (s_start st + amt)); [|lia]. cbn [andb]. split; [|split; reflexivity].
  unfold abs_advance. cbn [a_win absst_of]. rewrite <- R. cbn [omap obind]. f_equal.
  unfold absst_of. f_equal. cbn [a_behind abs_of win]. symmetry. apply adv_to_behind; assumption.
Qed.

Lemma abs_advance_crash st amt :
  bs_inv st -> length (window st) < amt ->
  abs_advance (absst_of st) amt = OOB 8601%N /\ bs_advance st amt = OOB 8601%N.
Proof.
  intros H Ha. pose proof (window_length st H) as HL. pose proof (bs_advance_refines st amt H) as R.
  rewrite bs_advance_spec in *.
  destruct (Nat.leb_spec (s_start st + amt) (s_end st)); [destruct H; lia|]. split; [|reflexivity].
  unfold abs_advance. cbn [a_win absst_of]. rewrite <- R. reflexivity.
Qed.

Theorem bs_step_refines st r o :
  bs_inv st ->
  abs_step (absst_of st) r o = (let '(ob, st', r') := bs_step st r o in (ob, absst_of st', r')) /\
  bs_inv (step_st (bs_step st r o)) /\
  length (s_buf (step_st (bs_step st r o))) = length (s_buf st) /\
  s_owned (step_st (bs_step st r o)) = s_owned st.
Proof.
  intros H. pose proof (window_length st H) as HL. pose proof H as [Hs0 He0]. unfold step_st.
  destruct o as [scr|scr|k|k|i j|k|p|i j]; cbn [bs_step abs_step].
  - (* fill *)
    pose proof (bs_fill_buf_refines st r scr H) as R.
    assert (HE : Nat.leb (cap (a_win (absst_of st))) (length (win (a_win (absst_of st)))) = fill_early st)
      by (unfold fill_early; cbn [absst_of a_win abs_of cap win]; now rewrite HL).
    rewrite HE. cbn [absst_of a_win a_behind] in *.
    destruct (bs_fill_buf st r scr) as [n st' r'|st' r'|st' r'|s].
    + destruct R as (R1 & R2 & R3 & R4 & R5). rewrite R1. cbn [fst snd]. rewrite (bs_observe_abs _ st' R2).
      split; [|split; [exact R2|split; assumption]]. destruct (fill_early st).
      * destruct R5 as [-> ->]. reflexivity.
      * unfold absst_of. now rewrite (behind_start0 st' R5).
    + destruct R as (R1 & R2 & R3 & R4 & R5 & R6). rewrite R1, R5. cbn [fst snd]. rewrite (bs_observe_abs _ st' R2).
      split; [|split; [exact R2|split; assumption]]. unfold absst_of. now rewrite (behind_start0 st' R6).
    + destruct R as (R1 & R2 & R3 & R4). rewrite R1, R3. subst st'. cbn [fst snd]. rewrite (bs_observe_abs _ st H).
      split; [reflexivity|split; [exact H|split; reflexivity]].
    + contradiction.
  - (* fill over a Read answering Ok(0) *)
    pose proof (bs_fill_zero_spec st r scr H) as R.
    assert (HE : Nat.leb (cap (a_win (absst_of st))) (length (win (a_win (absst_of st)))) = fill_early st)
      by (unfold fill_early; cbn [absst_of a_win abs_of cap win]; now rewrite HL).
    cbv zeta. rewrite HE. cbn [absst_of a_win abs_of cap win prior consumed].
    destruct (bs_fill_zero st r scr) as [n st' r'|st' r'|st' r'|s]; try contradiction.
    + destruct R as (-> & -> & R2 & R3 & R4 & R5). cbn [fst snd]. rewrite (bs_observe_abs _ st' R2).
      split; [|split; [exact R2|split; assumption]]. destruct (fill_early st).
      * destruct R5 as (-> & Z). rewrite Z. reflexivity.
      * destruct R5 as (Z & A). unfold absst_of. rewrite (behind_start0 st' Z), A. reflexivity.
    + destruct R as (-> & -> & R3 & R4). rewrite R3. apply Nat.eqb_neq in R4. rewrite R4. cbn [fst snd].
      rewrite (bs_observe_abs _ st H). split; [reflexivity|split; [exact H|split; reflexivity]].
  - (* advance, resolved *)
    rewrite (bs_window_len_ok st H). cbn [absst_of a_win abs_of win].
    pose proof (mod_le k (length (window st))) as Hm.
    destruct (abs_advance_of st _ H Hm) as (A1 & A2 & A3). rewrite A1, A2. cbn [fst snd].
    assert (Hi : bs_inv (adv_to st (s_start st + Nat.modulo k (length (window st) + 1)))) by (apply adv_to_inv; [exact H|lia]).
    rewrite (bs_observe_abs _ _ Hi). (split; [reflexivity|split; [exact Hi|split; reflexivity]]).
  - (* advance_to, resolved *)
    rewrite (bs_window_len_ok st H). cbn [absst_of a_win abs_of win].
    pose proof (mod_le k (length (window st))) as Hm.
    destruct (abs_advance_of st _ H Hm) as (A1 & A2 & A3). rewrite A1, A3. cbn [fst snd].
    assert (Hi : bs_inv (adv_to st (s_start st + Nat.modulo k (length (window st) + 1)))) by (apply adv_to_inv; [exact H|lia]).
    rewrite (bs_observe_abs _ _ Hi). (split; [reflexivity|split; [exact Hi|split; reflexivity]]).
  - (* get, resolved *)
    rewrite (abs_end_of st H), <- (bs_get_refines st _ _ H).
    destruct (bs_get st _ _); cbn [fst snd]; try rewrite (bs_observe_abs _ st H); (split; [reflexivity|split; [exact H|split; reflexivity]]).
  - (* advance, raw *)
    destruct (Nat.le_gt_cases k (length (window st))) as [Hle|Hgt].
    + destruct (abs_advance_of st _ H Hle) as (A1 & A2 & A3). rewrite A1, A2. cbn [fst snd].
      assert (Hi : bs_inv (adv_to st (s_start st + k))) by (apply adv_to_inv; [exact H|lia]).
      rewrite (bs_observe_abs _ _ Hi). (split; [reflexivity|split; [exact Hi|split; reflexivity]]).
    + destruct (abs_advance_crash st _ H Hgt) as (A1 & A2). rewrite A1, A2. cbn [fst snd crash_site].
      (split; [reflexivity|split; [exact H|split; reflexivity]]).
  - (* advance_to, raw *)
    cbn [absst_of a_win abs_of consumed]. rewrite bs_advance_to_spec.
    destruct (Nat.ltb_spec p (s_start st)) as [Hlt|Hge].
    + destruct (Nat.leb_spec (s_start st) p); [lia|]. cbn [andb fst snd crash_site]. (split; [reflexivity|split; [exact H|split; reflexivity]]).
    + destruct (Nat.leb_spec (s_start st) p); [|lia]. cbn [andb].
      destruct (Nat.leb_spec p (s_end st)) as [Hpe|Hpe].
      * assert (Hle : p - s_start st <= length (window st)) by lia.
        destruct (abs_advance_of st _ H Hle) as (A1 & _). replace (s_start st + (p - s_start st)) with p in A1 by lia.
        change (mkabs (abs_of st) (behind st)) with (absst_of st). rewrite A1. cbn [fst snd].
        assert (Hi : bs_inv (adv_to st p)) by (apply adv_to_inv; [exact H|lia]).
        rewrite (bs_observe_abs _ _ Hi). (split; [reflexivity|split; [exact Hi|split; reflexivity]]).
      * assert (Hgt : length (window st) < p - s_start st) by lia.
        destruct (abs_advance_crash st _ H Hgt) as (A1 & _).
        change (mkabs (abs_of st) (behind st)) with (absst_of st). rewrite A1. cbn [fst snd crash_site].
        (split; [reflexivity|split; [exact H|split; reflexivity]]).
  - (* get, raw *)
    rewrite <- (bs_get_refines st _ _ H).
    destruct (bs_get st _ _); cbn [fst snd]; try rewrite (bs_observe_abs _ st H); (split; [reflexivity|split; [exact H|split; reflexivity]]).
Qed.

(* ---------- op lists and adaptive clients ---------- *)
Theorem bs_run_refines_inv st r ops : bs_inv st -> bs_run st r ops = abs_run (absst_of st) r ops.
Proof.
  revert st r. induction ops as [|o ops IH]; intros st r H; [reflexivity|].
  cbn [bs_run abs_run]. destruct (bs_step_refines st r o H) as (E & Hi & _). rewrite E. unfold step_st in Hi.
  destruct (bs_step st r o) as [[ob st'] r']. cbn [fst snd] in Hi.
  destruct (is_crash_obs ob); [reflexivity|]. f_equal. apply IH. exact Hi.
Qed.

Lemma bs_final_inv st r ops :
  bs_inv st -> bs_inv (bs_final st r ops) /\ length (s_buf (bs_final st r ops)) = length (s_buf st) /\
               s_owned (bs_final st r ops) = s_owned st.
Proof.
  revert st r. induction ops as [|o ops IH]; intros st r H; [auto|].
  cbn [bs_final]. destruct (bs_step_refines st r o H) as (_ & Hi & Hl & Ho). unfold step_st in *.
  destruct (bs_step st r o) as [[ob st'] r']. cbn [fst snd] in *.
  destruct (is_crash_obs ob); [auto|]. destruct (IH st' r' Hi) as (I1 & I2 & I3).
  split; [exact I1|]. split; congruence.
Qed.

(* MAIN REFINEMENT THEOREM: a window built over ANY buffer (dirty, recycled, scribbled on) behaves,
   under every list of operations and every Read schedule, like the window-level model of BufWin.v,
   in which there is no storage at all *)
Theorem bs_run_refines buf r ops : bs_run (bs_build buf) r ops = abs_run (abs_build (length buf)) r ops.
Proof. rewrite <- absst_of_build. apply bs_run_refines_inv, bs_build_inv. Qed.

Theorem bs_run_refines_slice d r ops : bs_run (bs_from_slice d) r ops = abs_run (abs_from_slice d) r ops.
Proof. rewrite <- absst_of_from_slice. apply bs_run_refines_inv, bs_from_slice_inv. Qed.

(* stale bytes are unobservable: two buffers of the same length cannot be told apart *)
Theorem bs_run_buffer_independent buf1 buf2 r ops :
  length buf1 = length buf2 -> bs_run (bs_build buf1) r ops = bs_run (bs_build buf2) r ops.
Proof. intros E. now rewrite !bs_run_refines, E. Qed.

(* a buffer handed back by a previous window (TokenReader::into_parts) is as good as a fresh one *)
Theorem bs_run_recycled buf0 r1 ops1 r2 ops2 :
  bs_run (bs_build (s_buf (bs_final (bs_build buf0) r1 ops1))) r2 ops2
  = bs_run (bs_new (length buf0)) r2 ops2.
Proof.
  apply bs_run_buffer_independent.
  destruct (bs_final_inv (bs_build buf0) r1 ops1 (bs_build_inv buf0)) as (_ & E & _).
  rewrite E. cbn [bs_build s_buf]. now rewrite repeat_length.
Qed.

Theorem bs_drive_refines_inv fuel c st r seen :
  bs_inv st -> bs_drive fuel c st r seen = abs_drive fuel c (absst_of st) r seen.
Proof.
  revert st r seen. induction fuel as [|f IH]; intros st r seen H; [reflexivity|].
  cbn [bs_drive abs_drive]. destruct (c seen) as [o|]; [|reflexivity].
  destruct (bs_step_refines st r o H) as (E & Hi & _). rewrite E. unfold step_st in Hi.
  destruct (bs_step st r o) as [[ob st'] r']. cbn [fst snd] in Hi.
  destruct (is_crash_obs ob); [reflexivity|]. apply IH. exact Hi.
Qed.

(* the same for ANY client that picks its next operation from what it has seen so far *)
Theorem bs_drive_refines fuel c buf r :
  bs_drive fuel c (bs_build buf) r [] = abs_drive fuel c (abs_build (length buf)) r [].
Proof. rewrite <- absst_of_build. apply bs_drive_refines_inv, bs_build_inv. Qed.

Theorem bs_drive_buffer_independent fuel c buf1 buf2 r :
  length buf1 = length buf2 -> bs_drive fuel c (bs_build buf1) r [] = bs_drive fuel c (bs_build buf2) r [].
Proof. intros E. now rewrite !bs_drive_refines, E. Qed.

(* ---------- safety of whole runs ---------- *)
Definition resolved (o : op) : bool :=
  match o with OFill _ | OFillZ _ | OAdv _ | OAdvTo _ | OGet _ _ => true | _ => false end.

Lemma bs_step_resolved_safe st r o :
  bs_inv st -> resolved o = true -> is_crash_obs (fst (fst (bs_step st r o))) = false.
Proof.
  intros H Hr. pose proof H as [Hs He]. pose proof (window_length st H) as HL.
  destruct o as [scr|scr|k|k|i j|k|p|i j]; try discriminate; cbn [bs_step].
  - pose proof (bs_fill_buf_refines st r scr H) as R.
    destruct (bs_fill_buf st r scr) as [n st' r'|st' r'|st' r'|s]; [| | |contradiction]; cbn [fst].
    + destruct R as (_ & R2 & _). rewrite (bs_observe_abs _ _ R2). reflexivity.
    + destruct R as (_ & R2 & _). rewrite (bs_observe_abs _ _ R2). reflexivity.
    + destruct R as (_ & -> & _). rewrite (bs_observe_abs _ _ H). reflexivity.
  - pose proof (bs_fill_zero_spec st r scr H) as R.
    destruct (bs_fill_zero st r scr) as [n st' r'|st' r'|st' r'|s]; try contradiction; cbn [fst].
    + destruct R as (_ & _ & R2 & _). rewrite (bs_observe_abs _ _ R2). reflexivity.
    + destruct R as (-> & _). rewrite (bs_observe_abs _ _ H). reflexivity.
  - rewrite (bs_window_len_ok st H). pose proof (mod_le k (length (window st))) as Hm.
    destruct (abs_advance_of st _ H Hm) as (_ & A2 & _). rewrite A2. cbn [fst].
    rewrite bs_observe_abs by (apply adv_to_inv; [exact H|lia]). reflexivity.
  - rewrite (bs_window_len_ok st H). pose proof (mod_le k (length (window st))) as Hm.
    destruct (abs_advance_of st _ H Hm) as (_ & _ & A3). rewrite A3. cbn [fst].
    rewrite bs_observe_abs by (apply adv_to_inv; [exact H|lia]). reflexivity.
  - set (a := Nat.modulo i (s_end st + 1)). set (b := a + Nat.modulo j (s_end st - a + 1)).
    assert (Ha : a <= s_end st) by apply mod_le.
    assert (Hb : b <= s_end st) by (pose proof (mod_le j (s_end st - a)); unfold b; lia).
    assert (Hok : is_ok (bs_get st a b) = true) by (apply bs_get_ok_iff; [exact H|unfold b; lia]).
    destruct (bs_get st a b); try discriminate. cbn [fst]. rewrite (bs_observe_abs _ _ H). reflexivity.
Qed.

(* INDEX-LEVEL SAFETY of buffer.rs under its contract: an op list whose advance / advance_to / get
   stay inside the window (as both readers' do) never makes an offset leave the buffer *)
Theorem bs_run_safe_inv st r ops :
  bs_inv st -> forallb resolved ops = true -> forallb (fun ob => negb (is_crash_obs ob)) (bs_run st r ops) = true.
Proof.
  revert st r. induction ops as [|o ops IH]; intros st r H Hr; [reflexivity|].
  cbn [forallb] in Hr. apply andb_prop in Hr. destruct Hr as [Ho Hr].
  cbn [bs_run]. pose proof (bs_step_resolved_safe st r o H Ho) as Hc.
  destruct (bs_step_refines st r o H) as (_ & Hi & _). unfold step_st in Hi.
  destruct (bs_step st r o) as [[ob st'] r']. cbn [fst snd] in *. rewrite Hc. cbn [forallb]. rewrite Hc. cbn [negb andb].
  apply IH; assumption.
Qed.

Theorem bs_run_safe buf r ops :
  forallb resolved ops = true -> forallb (fun ob => negb (is_crash_obs ob)) (bs_run (bs_build buf) r ops) = true.
Proof. apply bs_run_safe_inv, bs_build_inv. Qed.

Theorem bs_run_safe_slice d r ops :
  forallb resolved ops = true -> forallb (fun ob => negb (is_crash_obs ob)) (bs_run (bs_from_slice d) r ops) = true.
Proof. apply bs_run_safe_inv, bs_from_slice_inv. Qed.

(* ---------- position / stream law ---------- *)
(* the data handed out by the Read = bytes before the buffer start ++ visible buffer ++ not yet read *)
Definition bs_stream2 (input : bytes) (st : store) (r : rd) : Prop :=
  exists pre, input = pre ++ visible st ++ rest r /\ length pre = s_prior st.

Lemma stream2_build buf input sched : bs_stream2 input (bs_build buf) (mkrd input sched 0 0).
Proof. exists []. split; reflexivity. Qed.

Lemma stream2_stream input st r : bs_inv st -> bs_stream2 input st r -> stream_inv input (abs_of st) r.
Proof.
  intros H (pre & E & L). exists (pre ++ behind st). cbn [win abs_of]. split.
  - rewrite E, (visible_split st H), <- !app_assoc. reflexivity.
  - unfold bw_position. cbn [prior consumed abs_of]. rewrite app_length, (behind_length st H). lia.
Qed.

Lemma stream_stream2 input st r : s_start st = 0 -> stream_inv input (abs_of st) r -> bs_stream2 input st r.
Proof.
  intros Z (pre & E & L). exists pre. unfold bw_position in L. cbn [win prior consumed abs_of] in *. split; [|lia].
  rewrite E. unfold window, visible. now rewrite Z, Nat.sub_0_r.
Qed.

Lemma visible_length st : bs_inv st -> length (visible st) = s_end st.
Proof. intros [H1 H2]. unfold visible. rewrite firstn_length. lia. Qed.

(* window() is the slice of the stream at position() *)
Theorem bs_window_stream_law input st r :
  bs_inv st -> bs_stream2 input st r ->
  window st = segment input (bs_position st) (length (window st)) /\
  bs_position st + length (window st) + length (rest r) = length input.
Proof.
  intros H S. destruct (stream2_stream input st r H S) as (pre & E & L). cbn [win abs_of] in E.
  rewrite bs_position_abs, <- L, E. split; [symmetry; apply segment_app_mid|]. rewrite !app_length. lia.
Qed.

(* get(i..j) is the slice of the stream at prior_reads + i *)
Theorem bs_get_stream_law input st r i j bs :
  bs_inv st -> bs_stream2 input st r -> bs_get st i j = Ok bs -> bs = segment input (s_prior st + i) (j - i).
Proof.
  intros H (pre & E & L) G. pose proof (visible_length st H) as HV.
  assert (Hij : i <= j <= s_end st) by (apply (bs_get_ok_iff st i j H); rewrite G; reflexivity).
  rewrite (bs_get_refines st i j H) in G. unfold abs_get in G. rewrite (abs_end_of st H) in G.
  destruct (Nat.ltb_spec (s_end st) j); [lia|]. destruct (Nat.ltb_spec j i); [lia|].
  inversion G; subst bs; clear G. unfold absst_of. cbn [a_behind a_win abs_of win]. rewrite <- (visible_split st H).
  unfold segment. rewrite E, <- L, skipn_plus, skipn_app, skipn_all, Nat.sub_diag. cbn [skipn app].
  rewrite skipn_app. rewrite firstn_app_le by (rewrite skipn_length; lia). reflexivity.
Qed.

(* what a non-fill op can do to the window: move start forward inside it, nothing else *)
Lemma adv_to_self st : adv_to st (s_start st) = st.
Proof. destruct st; reflexivity. Qed.

Lemma bs_step_nonfill st r o :
  bs_inv st ->
  match o with
  | OFill _ | OFillZ _ => True
  | _ => snd (bs_step st r o) = r /\
         exists p, s_start st <= p <= s_end st /\ step_st (bs_step st r o) = adv_to st p
  end.
Proof.
  intros H. pose proof H as [Hs He]. pose proof (window_length st H) as HL. unfold step_st.
  assert (Hself : exists p, s_start st <= p <= s_end st /\ st = adv_to st p)
    by (exists (s_start st); split; [lia|symmetry; apply adv_to_self]).
  destruct o as [scr|scr|k|k|i j|k|p|i j]; cbn [bs_step]; [exact I|exact I| | | | | |].
  - rewrite (bs_window_len_ok st H). pose proof (mod_le k (length (window st))) as Hm.
    destruct (abs_advance_of st _ H Hm) as (_ & A2 & _). rewrite A2. cbn [fst snd]. split; [reflexivity|].
    eexists; split; [|reflexivity]. lia.
  - rewrite (bs_window_len_ok st H). pose proof (mod_le k (length (window st))) as Hm.
    destruct (abs_advance_of st _ H Hm) as (_ & _ & A3). rewrite A3. cbn [fst snd]. split; [reflexivity|].
    eexists; split; [|reflexivity]. lia.
  - destruct (bs_get st _ _); cbn [fst snd]; auto.
  - rewrite bs_advance_spec. destruct (Nat.leb_spec (s_start st + k) (s_end st)); cbn [fst snd]; auto.
    split; [reflexivity|]. eexists; split; [|reflexivity]. lia.
  - rewrite bs_advance_to_spec.
    destruct (Nat.leb_spec (s_start st) p); destruct (Nat.leb_spec p (s_end st)); cbn [andb fst snd]; auto.
    split; [reflexivity|]. eexists; split; [|reflexivity]. lia.
  - destruct (bs_get st _ _); cbn [fst snd]; auto.
Qed.

Lemma stream2_adv_to input st r p : bs_stream2 input st r -> bs_stream2 input (adv_to st p) r.
Proof. intros S. exact S. Qed.

(* every op keeps the stream view, for any buffer contents *)
Theorem bs_step_keeps_stream input st r o :
  bs_inv st -> bs_stream2 input st r ->
  bs_stream2 input (step_st (bs_step st r o)) (snd (bs_step st r o)).
Proof.
  intros H S. destruct o as [scr|scr|k|k|i j|k|p|i j];
    try (match goal with |- context [bs_step st r ?o] =>
           destruct (bs_step_nonfill st r o H) as (Er & q & _ & Es); rewrite Er, Es; apply stream2_adv_to; exact S end).
  - unfold step_st. cbn [bs_step].
    pose proof (bs_fill_buf_refines st r scr H) as R.
    pose proof (fill_buf_preserves input (abs_of st) r (stream2_stream input st r H S)) as P.
    destruct (bs_fill_buf st r scr) as [n st' r'|st' r'|st' r'|s]; cbn [fst snd].
    + destruct R as (R1 & R2 & R3 & R4 & R5). rewrite R1 in P. destruct P as (P1 & _).
      destruct (fill_early st); [destruct R5 as [-> ->]; exact S|]. apply stream_stream2; assumption.
    + destruct R as (R1 & R2 & R3 & R4 & R5 & R6). rewrite R1 in P. destruct P as (P1 & _). apply stream_stream2; assumption.
    + destruct R as (R1 & -> & R3 & ->). exact S.
    + contradiction.
  - unfold step_st. cbn [bs_step].
    pose proof (bs_fill_zero_spec st r scr H) as R.
    destruct (bs_fill_zero st r scr) as [n st' r'|st' r'|st' r'|s]; try contradiction; cbn [fst snd].
    + destruct R as (-> & -> & R2 & R3 & R4 & R5). destruct (fill_early st); [destruct R5 as [-> _]; exact S|].
      destruct R5 as (Z & A). apply stream_stream2; [exact Z|]. rewrite A.
      destruct (stream2_stream input st r H S) as (pre & E & L). exists pre. cbn [win abs_of] in *. split; [exact E|].
      unfold bw_position in *. cbn [prior consumed abs_of] in *. lia.
    + destruct R as (-> & -> & _). exact S.
Qed.

(* what every non-crash observation shows *)
Lemma bs_step_obs st r o :
  bs_inv st ->
  let ob := fst (fst (bs_step st r o)) in let st' := step_st (bs_step st r o) in
  is_crash_obs ob = false -> o_win ob = window st' /\ o_pos ob = bs_position st' /\ o_consumed ob = s_start st'.
Proof.
  intros H. destruct (bs_step_refines st r o H) as (_ & Hi & _). unfold step_st in *.
  assert (K : forall ev st', bs_inv st' -> o_win (bs_observe ev st') = window st' /\ o_pos (bs_observe ev st') = bs_position st' /\
                                        o_consumed (bs_observe ev st') = s_start st')
    by (intros ev st' Hi'; rewrite (bs_observe_abs ev st' Hi'); auto).
  destruct o as [scr|scr|k|k|i j|k|p|i j]; cbn [bs_step] in *; cbv zeta.
  - destruct (bs_fill_buf st r scr); cbn [fst snd] in *; try (intros _; apply K; assumption). discriminate.
  - destruct (bs_fill_zero st r scr); cbn [fst snd] in *; try (intros _; apply K; assumption). discriminate.
  - destruct (bs_window_len st); cbn [fst snd] in *; try discriminate.
    destruct (bs_advance st _); cbn [fst snd] in *; try discriminate. intros _; apply K; assumption.
  - destruct (bs_window_len st); cbn [fst snd] in *; try discriminate.
    destruct (bs_advance_to st _); cbn [fst snd] in *; try discriminate. intros _; apply K; assumption.
  - destruct (bs_get st _ _); cbn [fst snd] in *; try discriminate. intros _; apply K; assumption.
  - destruct (bs_advance st _); cbn [fst snd] in *; try discriminate. intros _; apply K; assumption.
  - destruct (bs_advance_to st _); cbn [fst snd] in *; try discriminate. intros _; apply K; assumption.
  - destruct (bs_get st _ _); cbn [fst snd] in *; try discriminate. intros _; apply K; assumption.
Qed.

(* the law of one observation over the stream [input] *)
Definition obs_on_stream (input : bytes) (ob : obs) : Prop :=
  o_win ob = segment input (o_pos ob) (length (o_win ob)) /\
  o_pos ob + length (o_win ob) <= length input /\ o_consumed ob <= o_pos ob.

Theorem bs_step_stream_law input st r o :
  bs_inv st -> bs_stream2 input st r ->
  is_crash_obs (fst (fst (bs_step st r o))) = false -> obs_on_stream input (fst (fst (bs_step st r o))).
Proof.
  intros H S NC. destruct (bs_step_obs st r o H NC) as (E1 & E2 & E3).
  destruct (bs_step_refines st r o H) as (_ & Hi & _).
  pose proof (bs_step_keeps_stream input st r o H S) as S'.
  destruct (bs_window_stream_law input _ _ Hi S') as (W1 & W2).
  unfold obs_on_stream. rewrite E1, E2, E3. split; [exact W1|]. split; [lia|]. unfold bs_position, bs_consumed_data. lia.
Qed.

(* ... and of a whole run over a window built on ANY buffer: every window shown is the slice of the
   stream at the position shown -- never a stale byte, never a byte twice, never a gap *)
Theorem bs_run_stream_law_inv input st r ops :
  bs_inv st -> bs_stream2 input st r ->
  Forall (fun ob => is_crash_obs ob = false -> obs_on_stream input ob) (bs_run st r ops).
Proof.
  revert st r. induction ops as [|o ops IH]; intros st r H S; [constructor|].
  cbn [bs_run]. pose proof (bs_step_stream_law input st r o H S) as L.
  pose proof (bs_step_keeps_stream input st r o H S) as S'.
  destruct (bs_step_refines st r o H) as (_ & Hi & _). unfold step_st in *.
  destruct (bs_step st r o) as [[ob st'] r']. cbn [fst snd] in *.
  destruct (is_crash_obs ob) eqn:C.
  - constructor; [intros X; cbv beta in X; congruence|constructor].
  - constructor; [intros _; apply L; reflexivity|apply IH; assumption].
Qed.

Theorem bs_run_stream_law buf input sched ops :
  Forall (fun ob => is_crash_obs ob = false -> obs_on_stream input ob)
         (bs_run (bs_build buf) (mkrd input sched 0 0) ops).
Proof. apply bs_run_stream_law_inv; [apply bs_build_inv|apply stream2_build]. Qed.

(* position() + window_len() = bytes the Read has delivered *)
Definition bs_fill_inv (st : store) (r : rd) : Prop := bs_position st + (s_end st - s_start st) = delivered r.

Theorem bs_step_keeps_delivered st r o :
  bs_inv st -> bs_fill_inv st r -> bs_fill_inv (step_st (bs_step st r o)) (snd (bs_step st r o)).
Proof.
  intros H F. pose proof H as [Hs He]. destruct o as [scr|scr|k|k|i j|k|p|i j];
    try (match goal with |- context [bs_step st r ?o] =>
           destruct (bs_step_nonfill st r o H) as (Er & q & Hq & Es); rewrite Er, Es;
           unfold bs_fill_inv, bs_position, bs_consumed_data, adv_to in *; cbn [s_start s_end s_prior]; lia end).
  - unfold step_st. cbn [bs_step].
    pose proof (bs_fill_buf_refines st r scr H) as R.
    assert (FA : fill_inv (abs_of st) r)
      by (unfold fill_inv; cbn [win abs_of]; rewrite (window_length st H), <- bs_position_abs; exact F).
    pose proof (fill_inv_preserved (abs_of st) r FA) as P.
    assert (K : forall st' r', bs_inv st' -> fill_inv (abs_of st') r' -> bs_fill_inv st' r')
      by (intros st' r' Hi' Q; unfold fill_inv in Q; cbn [win abs_of] in Q; rewrite (window_length st' Hi'), <- bs_position_abs in Q; exact Q).
    destruct (bs_fill_buf st r scr) as [n st' r'|st' r'|st' r'|s]; cbn [fst snd].
    + destruct R as (R1 & R2 & _). rewrite R1 in P. apply K; assumption.
    + destruct R as (R1 & R2 & _). rewrite R1 in P. apply K; assumption.
    + destruct R as (R1 & -> & _ & ->). exact F.
    + contradiction.
  - unfold step_st. cbn [bs_step].
    pose proof (bs_fill_zero_spec st r scr H) as R.
    destruct (bs_fill_zero st r scr) as [n st' r'|st' r'|st' r'|s]; try contradiction; cbn [fst snd].
    + destruct R as (-> & -> & R2 & R3 & R4 & R5). destruct (fill_early st); [destruct R5 as [-> _]; exact F|].
      destruct R5 as (Z & A). pose proof (window_length st' R2) as HL'. pose proof (window_length st H) as HL.
      pose proof (f_equal prior A) as Ap. pose proof (f_equal (fun b => length (win b)) A) as Aw.
      cbn [prior win abs_of] in Ap, Aw. unfold bs_fill_inv, bs_position, bs_consumed_data in *. lia.
    + destruct R as (-> & -> & _). exact F.
Qed.
