(* Proofs about the text writer model (Writer.v). *)
From JV Require Import Bytes Tables TextTok Date Writer.
From JV.proofs Require Export WriterTapeProofs.
Require Import Lia.
Open Scope N_scope.

(* ---------------------------------------------------------------- the generated tables *)
(* WRITE_STATE_NEXT as the model reads it from the generated table: total, and exactly this map.
   Breaks when writer.rs changes the table or the discriminants inconsistently. *)
Lemma ws_next_table : forall s, ws_next s = Ok (ws_next_spec s).
Proof. destruct s; reflexivity. Qed.

Lemma no_data_yet_spec : forall s,
  no_data_yet s = match s with WArrayValueFirst | WFirstKey | WFirstUnknown => true | _ => false end.
Proof. destruct s; reflexivity. Qed.

Lemma q_expecting_key_spec : forall w,
  q_expecting_key w = match w_state w with WKey | WFirstKey => true | _ => false end.
Proof. intros [m d s n x]; destruct s; reflexivity. Qed.
Lemma q_at_unknown_start_spec : forall w,
  q_at_unknown_start w = match w_state w with WFirstUnknown => true | _ => false end.
Proof. intros [m d s n x]; destruct s; reflexivity. Qed.
Lemma q_at_array_value_spec : forall w,
  q_at_array_value w = match w_state w with WArrayValue => true | _ => false end.
Proof. intros [m d s n x]; destruct s; reflexivity. Qed.

Lemma operator_symbols_agree : forall o,
  nth (N.to_nat (op_code o)) operator_symbols [] = op_symbol o.
Proof. destruct o; reflexivity. Qed.

(* ---------------------------------------------------------------- shapes of the primitives *)
Definition nc (r : wres) : Prop := match r with WCrash _ _ => False | _ => True end.

Definition pre_state (w : wr) : wr :=
  let w1 := set_nlt w false in
  match w_state w with
  | WArrayValue | WSecondUnknown =>
      if w_nlt w then w1 else if mmode_eqb (w_mixed w) MKeyed then set_mixed w1 MStarted else w1
  | _ => w1
  end.
Definition pre_bytes (c : cfg) (w : wr) : bytes :=
  let lt := if w_nlt w then [NL] else [] in
  let ind := repeat (indent_char c) (length (w_depth w) * N.to_nat (indent_factor c)) in
  match w_state w with
  | WArrayValue | WSecondUnknown =>
      if w_nlt w then lt ++ ind else if mmode_eqb (w_mixed w) MKeyed then lt else lt ++ [SP]
  | WKey | WArrayValueFirst | WFirstKey | WFirstUnknown => lt ++ ind
  | WKeyValueSeparator => lt ++ [EQ]
  | WError | WObjectValue => lt
  end.

Lemma write_preamble_shape : forall c w, write_preamble c w = WOk (pre_state w) (pre_bytes c w).
Proof.
  intros c [m d s n x]. unfold write_preamble, pre_state, pre_bytes, emit.
  cbn [w_state w_nlt w_mixed w_depth set_nlt set_mixed].
  destruct s; cbn [no_data_yet]; rewrite ?write_indent_spec; cbn [w_depth];
    try reflexivity; destruct n; try reflexivity; destruct x; reflexivity.
Qed.

Definition epi_state (w : wr) : wr :=
  let s := ws_next_spec (w_state w) in
  set_nlt (set_state w s) (match s with WKey => true | _ => false end).

Lemma write_epilogue_shape : forall w, write_epilogue w = WOk (epi_state w) [].
Proof.
  intros [m d s n x]. unfold write_epilogue, epi_state. cbn [w_state]. rewrite ws_next_table.
  destruct s; reflexivity.
Qed.

Lemma write_raw_shape : forall c w data,
  write_raw c w data = WOk (epi_state (pre_state w)) (pre_bytes c w ++ data ++ []).
Proof.
  intros. unfold write_raw. rewrite write_preamble_shape. cbn [wbind emit]. rewrite write_epilogue_shape. reflexivity.
Qed.

Lemma write_quoted_shape : forall c w data,
  write_quoted c w data = WOk (epi_state (pre_state w)) (pre_bytes c w ++ ([QUOTE] ++ escape data ++ [QUOTE]) ++ []).
Proof.
  intros. unfold write_quoted. rewrite write_preamble_shape. cbn [wbind emit]. rewrite write_epilogue_shape. reflexivity.
Qed.

Lemma write_escaped_quotes_shape : forall c w data,
  write_escaped_quotes c w data = WOk (epi_state (pre_state w)) (pre_bytes c w ++ ([QUOTE] ++ data ++ [QUOTE]) ++ []).
Proof.
  intros. unfold write_escaped_quotes. rewrite write_preamble_shape. cbn [wbind emit]. rewrite write_epilogue_shape. reflexivity.
Qed.

Definition start_state (w : wr) (m : dmode) (s : wstate) : wr :=
  mkwr m (w_mode (pre_state w) :: w_depth (pre_state w)) s true (w_mixed (pre_state w)).

Lemma write_start_shape : forall c w,
  write_start c w = WOk (start_state w DArray WFirstUnknown) (pre_bytes c w ++ [LBRACE]).
Proof. intros. unfold write_start. rewrite write_preamble_shape. reflexivity. Qed.
Lemma write_object_start_shape : forall c w,
  write_object_start c w = WOk (start_state w DObject WFirstKey) ((pre_bytes c w ++ [LBRACE]) ++ []).
Proof. intros. unfold write_object_start. rewrite write_start_shape. reflexivity. Qed.
Lemma write_array_start_shape : forall c w,
  write_array_start c w = WOk (start_state w DArray WArrayValueFirst) ((pre_bytes c w ++ [LBRACE]) ++ []).
Proof. intros. unfold write_array_start. rewrite write_start_shape. reflexivity. Qed.

Lemma write_header_shape : forall c w h,
  write_header c w h = WOk (set_state (pre_state w) WObjectValue) (pre_bytes c w ++ h ++ [SP]).
Proof. intros. unfold write_header. rewrite write_preamble_shape. reflexivity. Qed.

Lemma write_end_nc : forall c w, nc (write_end c w).
Proof. intros c w. unfold write_end. destruct (w_depth w); exact I. Qed.

Lemma write_end_ok : forall c w m rest, w_depth w = m :: rest ->
  exists o, write_end c w =
    WOk (mkwr m rest (match m with DObject => WKey | DArray => WArrayValue end) true MDisabled) o.
Proof. intros c w m rest H. unfold write_end. rewrite H. eexists. reflexivity. Qed.

Lemma write_operator_nc : forall w o, nc (write_operator w o).
Proof. intros. unfold write_operator. destruct (mmode_eqb _ _); exact I. Qed.

Lemma wbind_nc : forall r f, nc r -> (forall w, nc (f w)) -> nc (wbind r f).
Proof.
  intros r f Hr Hf. destruct r as [w o|w o e|p s]; cbn [wbind]; try exact Hr.
  specialize (Hf w). destruct (f w); exact Hf.
Qed.

Lemma write_raw_nc : forall c w d, nc (write_raw c w d).
Proof. intros. rewrite write_raw_shape. exact I. Qed.
Lemma write_header_nc : forall c w d, nc (write_header c w d).
Proof. intros. rewrite write_header_shape. exact I. Qed.
Lemma write_array_start_nc : forall c w, nc (write_array_start c w).
Proof. intros. rewrite write_array_start_shape. exact I. Qed.

Lemma write_rgb_nc : forall c w r g b a, nc (write_rgb c w r g b a).
Proof.
  intros. unfold write_rgb.
  do 5 (apply wbind_nc; [solve [auto using write_raw_nc, write_header_nc, write_array_start_nc]|intro]).
  apply wbind_nc; [destruct a; [apply write_raw_nc | exact I]|intro]. apply write_end_nc.
Qed.

Section NoPanic.
  Variable fdisp : bool -> N -> option N -> bytes.

  Lemma write_binary_nc : forall c w t, nc (write_binary fdisp c w t).
  Proof.
    intros c w t. destruct t; cbn [write_binary];
      rewrite ?write_raw_shape, ?write_quoted_shape, ?write_array_start_shape, ?write_object_start_shape;
      try exact I; auto using write_end_nc, write_operator_nc, write_rgb_nc.
  Qed.

  Lemma step_nc : forall c w k, nc (step fdisp c w k).
  Proof.
    intros c w k. destruct k; cbn [step];
      rewrite ?write_raw_shape, ?write_quoted_shape, ?write_array_start_shape, ?write_object_start_shape,
              ?write_start_shape, ?write_header_shape;
      try exact I; auto using write_end_nc, write_operator_nc, write_rgb_nc, write_binary_nc.
  Qed.

  (* C15 no_panic: EVERY call history, from every reachable or unreachable writer state, under every
     configuration and every float oracle, runs to completion: never Panic / OOB / OutOfFuel. *)
  Lemma run_from_total : forall c calls w, exists r, run_from fdisp c w calls = Ok r.
  Proof.
    intros c calls. induction calls as [|k rest IH]; intros w; cbn [run_from].
    - eexists; reflexivity.
    - pose proof (step_nc c w k) as H. destruct (step fdisp c w k) as [w' o|w' o e|p s].
      + destruct (IH w') as [r Hr]. rewrite Hr. eexists; reflexivity.
      + destruct (IH w') as [r Hr]. rewrite Hr. eexists; reflexivity.
      + destruct H.
  Qed.

  Lemma run_total : forall c calls, exists r, run fdisp c calls = Ok r.
  Proof. intros. apply run_from_total. Qed.
End NoPanic.

(* ---------------------------------------------------------------- escape() *)
Definition strip_one_trailing_nl (p : bytes) : bytes :=
  match last (map Some p) None with
  | Some l => if l =? NL then removelast p else p
  | None => p
  end.

(* reference reader of an escaped string: a backslash makes the next byte literal *)
Fixpoint unescape (d : bytes) : bytes :=
  match d with
  | [] => []
  | x :: r => if x =? BSLASH
              then match r with [] => [x] | y :: r' => y :: unescape r' end
              else x :: unescape r
  end.

(* a quote scanner started after an opening quote never stops inside [d], and [d] does not end in
   a dangling backslash (which would swallow the closing quote) *)
Fixpoint no_bare_quote (d : bytes) : bool :=
  match d with
  | [] => true
  | x :: r => if x =? BSLASH
              then match r with [] => false | _ :: r' => no_bare_quote r' end
              else if x =? QUOTE then false else no_bare_quote r
  end.

Lemma esc_body_app : forall a b, esc_body (a ++ b) = esc_body a ++ esc_body b.
Proof. induction a; intros; cbn [esc_body app]; [reflexivity|]. rewrite IHa, app_assoc. reflexivity. Qed.

Lemma esc_body_id : forall d, forallb (fun b => negb (needs_esc b)) d = true -> esc_body d = d.
Proof.
  induction d; intros H; [reflexivity|]. cbn [forallb] in H. apply andb_true_iff in H as [H1 H2].
  cbn [esc_body]. destruct (needs_esc a); [discriminate|]. cbn [app]. f_equal. auto.
Qed.

Lemma find_esc_none : forall d k, find_esc d k = None -> forallb (fun b => negb (needs_esc b)) d = true.
Proof.
  induction d; intros k H; [reflexivity|]. cbn [find_esc] in H. cbn [forallb].
  destruct (needs_esc a); [discriminate|]. cbn [negb andb]. eauto.
Qed.

Lemma find_esc_some : forall d k i, find_esc d k = Some i ->
  exists j, i = (k + j)%nat /\ (j < length d)%nat /\ forallb (fun b => negb (needs_esc b)) (firstn j d) = true.
Proof.
  induction d; intros k i H; [discriminate|]. cbn [find_esc] in H.
  destruct (needs_esc a) eqn:E.
  - inversion H; subst. exists 0%nat. cbn. repeat split; lia.
  - apply IHd in H as [j [-> [Hl Hf]]]. exists (S j). cbn [length firstn forallb]. rewrite E, Hf.
    repeat split; try lia.
Qed.

Lemma last_some_snoc : forall (q : bytes) l, last (map Some (q ++ [l])) None = Some l.
Proof. intros. rewrite map_app. cbn [map]. apply last_last. Qed.

Lemma forallb_firstn : forall {A} (f : A -> bool) n l, forallb f l = true -> forallb f (firstn n l) = true.
Proof.
  induction n; intros l H; [reflexivity|]. destruct l; [reflexivity|]. cbn [firstn forallb] in *.
  apply andb_true_iff in H as [H1 H2]. rewrite H1. cbn. auto.
Qed.

Lemma forallb_removelast : forall {A} (f : A -> bool) l, forallb f l = true -> forallb f (removelast l) = true.
Proof.
  intros A f l H. destruct l as [|a l]; [reflexivity|].
  destruct (exists_last (l := a :: l)) as [q [x E]]; [discriminate|]. rewrite E in *.
  rewrite removelast_last. rewrite forallb_app in H. apply andb_true_iff in H as [H _]. exact H.
Qed.

(* the two-phase Rust escape() is the one-pass reference: escape every byte of the payload minus
   one trailing newline *)
Lemma escape_is_reference : forall p, escape p = esc_body (strip_one_trailing_nl p).
Proof.
  intros p. unfold escape, strip_one_trailing_nl.
  destruct (find_esc p 0) as [i|] eqn:F.
  - apply find_esc_some in F as [j [-> [Hl Hf]]]. cbn [Nat.add].
    destruct p as [|a p']; [cbn in Hl; lia|].
    destruct (exists_last (l := a :: p')) as [q [l E]]; [discriminate|]. rewrite E in *. clear E a p'.
    rewrite last_some_snoc, removelast_last.
    rewrite app_length in *. cbn [length] in *.
    assert (Hj : (j <= length q)%nat) by lia.
    rewrite firstn_app in Hf |- *. replace (j - length q)%nat with 0%nat in * by lia.
    cbn [firstn] in *. rewrite app_nil_r in *.
    rewrite skipn_app. replace (j - length q)%nat with 0%nat by lia. cbn [skipn].
    replace (length q + 1 - 1 - j)%nat with (length (skipn j q) + 0)%nat by (rewrite skipn_length; lia).
    rewrite firstn_app_2. cbn [firstn]. rewrite app_nil_r.
    rewrite <- (esc_body_id (firstn j q)) at 1 by exact Hf.
    rewrite app_assoc, <- esc_body_app, firstn_skipn.
    destruct (l =? NL); [rewrite app_nil_r; reflexivity|].
    rewrite esc_body_app. cbn [esc_body]. rewrite app_nil_r. reflexivity.
  - pose proof (find_esc_none _ _ F) as H.
    destruct (last (map Some p) None) as [l|]; [|symmetry; apply esc_body_id; exact H].
    destruct (l =? NL); symmetry; apply esc_body_id; [apply forallb_removelast|]; exact H.
Qed.

Lemma needs_esc_false : forall x, needs_esc x = false -> (x =? BSLASH) = false /\ (x =? QUOTE) = false.
Proof. intros x H. unfold needs_esc in H. apply orb_false_iff in H. exact H. Qed.

Lemma unescape_esc_body : forall q, unescape (esc_body q) = q.
Proof.
  induction q as [|x r IH]; [reflexivity|]. cbn [esc_body].
  destruct (needs_esc x) eqn:E.
  - cbn [app unescape]. change (BSLASH =? BSLASH) with true. cbn iota. rewrite IH. reflexivity.
  - apply needs_esc_false in E as [E1 E2]. cbn [app unescape]. rewrite E1, IH. reflexivity.
Qed.

Lemma no_bare_quote_esc_body : forall q, no_bare_quote (esc_body q) = true.
Proof.
  induction q as [|x r IH]; [reflexivity|]. cbn [esc_body].
  destruct (needs_esc x) eqn:E.
  - cbn [app no_bare_quote]. change (BSLASH =? BSLASH) with true. cbn iota. exact IH.
  - apply needs_esc_false in E as [E1 E2]. cbn [app no_bare_quote]. rewrite E1, E2. exact IH.
Qed.

(* C15 escape_roundtrip *)
Lemma escape_roundtrip : forall p,
  unescape (escape p) = strip_one_trailing_nl p /\ no_bare_quote (escape p) = true.
Proof. intros p. rewrite escape_is_reference. split; [apply unescape_esc_body | apply no_bare_quote_esc_body]. Qed.

(* ---------------------------------------------------------------- depth() and the error flag *)
Definition is_open (k : call) : bool :=
  match k with
  | CStart | CObjectStart | CArrayStart | CBinary (BArray _) | CBinary (BObject _) => true
  | _ => false
  end.
Definition is_close (k : call) : bool :=
  match k with CEnd | CBinary (BEnd _) => true | _ => false end.

(* the obvious counter: what depth() and the Result must be after each call of a history *)
Fixpoint depth_log (d : nat) (calls : list call) : list (bool * nat) :=
  match calls with
  | [] => []
  | k :: r =>
      if is_open k then (false, S d) :: depth_log (S d) r
      else if is_close k then
        match d with
        | O => (true, O) :: depth_log O r
        | S d' => (false, d') :: depth_log d' r
        end
      else (false, d) :: depth_log d r
  end.

Lemma pre_state_depth : forall w, w_depth (pre_state w) = w_depth w.
Proof.
  intros [m d s n x]. unfold pre_state. cbn [w_state w_nlt w_mixed].
  destruct s; try reflexivity; destruct n; try reflexivity; destruct (mmode_eqb x MKeyed); reflexivity.
Qed.
Lemma epi_state_depth : forall w, w_depth (epi_state w) = w_depth w.
Proof. intros [m d s n x]. reflexivity. Qed.

Lemma write_rgb_okd : forall c w r g b a, okd (write_rgb c w r g b a) (dep w).
Proof.
  intros. unfold write_rgb.
  eapply wbind_okd; [apply write_header_okd|intros w1 H1].
  eapply wbind_okd; [apply write_array_start_okd|intros w2 H2].
  eapply wbind_okd; [apply write_raw_okd|intros w3 H3].
  eapply wbind_okd; [apply write_raw_okd|intros w4 H4].
  eapply wbind_okd; [apply write_raw_okd|intros w5 H5].
  eapply wbind_okd; [destruct a; [apply write_raw_okd|reflexivity]|intros w6 H6].
  apply write_end_okd. lia.
Qed.

Section DepthQueries.
  Variable fdisp : bool -> N -> option N -> bytes.

  (* what one call does to depth() and to its Result *)
  Lemma step_depth : forall c w k,
    match step fdisp c w k with
    | WOk w' _ => is_open k = true /\ dep w' = S (dep w)
                  \/ is_open k = false /\ is_close k = true /\ dep w = S (dep w')
                  \/ is_open k = false /\ is_close k = false /\ dep w' = dep w
    | WErr w' _ _ => is_open k = false /\ is_close k = true /\ dep w = O /\ w' = w
    | WCrash _ _ => False
    end.
  Proof.
    intros c w k.
    assert (P : forall r, okd r (dep w) -> match r with
              | WOk w' _ => dep w' = dep w | _ => False end) by (intros r H; destruct r; exact H).
    assert (Q : forall r, okd r (S (dep w)) -> match r with
              | WOk w' _ => dep w' = S (dep w) | _ => False end) by (intros r H; destruct r; exact H).
    destruct k as [s|s|o|s| | | | |b|z|n|n|z|b|b|b p|b p|wd r|r g b a| |s|t]; cbn [step is_open is_close].
    1,2,4,9-18,20,21: match goal with |- context [match ?r with _ => _ end] =>
      let H := fresh in assert (H : okd r (dep w)) by auto using write_raw_okd, write_quoted_okd, write_header_okd, start_mixed_okd;
      apply P in H; destruct r; [right; right; auto | contradiction | contradiction] end.
    - pose proof (write_operator_okd w o) as H. apply P in H. destruct (write_operator w o); [right; right; auto|contradiction|contradiction].
    - pose proof (write_start_okd c w) as H. apply Q in H. destruct (write_start c w); [left; auto|contradiction|contradiction].
    - pose proof (write_object_start_okd c w) as H. apply Q in H. destruct (write_object_start c w); [left; auto|contradiction|contradiction].
    - pose proof (write_array_start_okd c w) as H. apply Q in H. destruct (write_array_start c w); [left; auto|contradiction|contradiction].
    - pose proof (write_end_depth c w) as H. destruct (write_end c w) as [w' o|w' o e|]; [right; left; auto| |exact H].
      destruct H as [H1 [H2 _]]. unfold dep. rewrite H1. auto.
    - pose proof (write_rgb_okd c w r g b a) as H. apply P in H. destruct (write_rgb c w r g b a); [right; right; auto|contradiction|contradiction].
    - destruct t as [e|e| | |e|b|n|n|z|z|s|s|b|b|i|r g b a]; cbn [write_binary is_open is_close].
      3,6-15: match goal with |- context [match ?r with _ => _ end] =>
        let H := fresh in assert (H : okd r (dep w)) by auto using write_raw_okd, write_quoted_okd, start_mixed_okd;
        apply P in H; destruct r; [right; right; auto | contradiction | contradiction] end.
      + pose proof (write_array_start_okd c w) as H. apply Q in H. destruct (write_array_start c w); [left; auto|contradiction|contradiction].
      + pose proof (write_object_start_okd c w) as H. apply Q in H. destruct (write_object_start c w); [left; auto|contradiction|contradiction].
      + pose proof (write_operator_okd w Equal) as H. apply P in H. destruct (write_operator w Equal); [right; right; auto|contradiction|contradiction].
      + pose proof (write_end_depth c w) as H. destruct (write_end c w) as [w' o|w' o e0|]; [right; left; auto| |exact H].
        destruct H as [H1 [H2 _]]. unfold dep. rewrite H1. auto.
      + pose proof (write_rgb_okd c w r g b a) as H. apply P in H. destruct (write_rgb c w r g b a); [right; right; auto|contradiction|contradiction].
  Qed.

  (* C15 state_queries (depth): after EVERY call history, depth() after each call and whether the call
     returned Err are given by the counter [depth_log] over the call prefix; the only failing call is an
     end at depth 0, and it leaves the writer unchanged. *)
  Lemma run_depth_log : forall c calls w out log,
    run_from fdisp c w calls = Ok (out, log) ->
    map (fun ew => (fst ew, dep (snd ew))) log = depth_log (dep w) calls.
  Proof.
    intros c calls. induction calls as [|k rest IH]; intros w out log H; cbn [run_from] in H.
    - inversion H; subst. reflexivity.
    - pose proof (step_depth c w k) as S. cbn [depth_log].
      destruct (step fdisp c w k) as [w' o|w' o e|p s].
      + destruct (run_from fdisp c w' rest) as [[o2 l2]| | | |] eqn:R; cbn [obind] in H; try discriminate.
        inversion H; subst. cbn [map fst snd]. specialize (IH _ _ _ R).
        destruct S as [[A B]|[[A [B C]]|[A [B C]]]]; rewrite A; try rewrite B.
        * rewrite IH, B. reflexivity.
        * rewrite C. rewrite IH. reflexivity.
        * rewrite IH, C. reflexivity.
      + destruct (run_from fdisp c w' rest) as [[o2 l2]| | | |] eqn:R; cbn [obind] in H; try discriminate.
        inversion H; subst. cbn [map fst snd]. specialize (IH _ _ _ R).
        destruct S as [A [B [C D]]]. subst w'. rewrite A, B, C in *. rewrite IH. reflexivity.
      + destruct S.
  Qed.
End DepthQueries.

