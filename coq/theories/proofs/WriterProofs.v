(* Proofs about the text writer model (Writer.v). *)
From JV Require Import Bytes Tables TextTok Date Writer.
Require Import Lia.
Open Scope N_scope.

(* ---------------------------------------------------------------- the generated tables *)
(* WRITE_STATE_NEXT as the model reads it from the generated table: total, and exactly this map.
   Breaks when writer.rs changes the table or the discriminants inconsistently. *)
Definition ws_next_spec (s : wstate) : wstate :=
  match s with
  | WError => WError
  | WKey => WKeyValueSeparator
  | WObjectValue => WKey
  | WKeyValueSeparator => WKey
  | WArrayValue => WArrayValue
  | WArrayValueFirst => WArrayValue
  | WFirstKey => WKeyValueSeparator
  | WFirstUnknown => WSecondUnknown
  | WSecondUnknown => WArrayValue
  end.

Lemma ws_next_table : forall s, ws_next s = Ok (ws_next_spec s).
Proof. destruct s; reflexivity. Qed.

Lemma no_data_yet_spec : forall s,
  no_data_yet s = match s with WArrayValueFirst | WFirstKey | WFirstUnknown => true | _ => false end.
Proof. destruct s; reflexivity. Qed.

Lemma q_expecting_key_spec : forall w,
  q_expecting_key w = match w_state w with WKey | WFirstKey => true | _ => false end.
Proof. intros [m d s n x]; destruct s; reflexivity. Qed.
Lemma q_at_unknown_start_spec : forall w,
  q_at_unknown_start w = match w_state w with WFirstUnknown => true | _ => false end.
Proof. intros [m d s n x]; destruct s; reflexivity. Qed.
Lemma q_at_array_value_spec : forall w,
  q_at_array_value w = match w_state w with WArrayValue => true | _ => false end.
Proof. intros [m d s n x]; destruct s; reflexivity. Qed.

Lemma operator_symbols_agree : forall o,
  nth (N.to_nat (op_code o)) operator_symbols [] = op_symbol o.
Proof. destruct o; reflexivity. Qed.
