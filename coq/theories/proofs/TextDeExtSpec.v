(* C02, wave 4 (a_c02): TextDeSpec2.spec_value2 EXTENDS TextDeSpec.spec_value -- wherever the core
   specification fits (does not answer UNFIT), the extended specification says the same, for both
   flags.  Hence the theorems stated over spec_value2 (Props/C02_walk2.v, Props/C02_ext.v) subsume
   the ones stated over spec_value (Props/C02_walk.v), and fits implies fits2. *)
From JV Require Import Bytes Utf8 Scalar TextTok TextReader TextDoc SerdeShape TextDeCommon TextDeSpec TextDeSpec2.
From JV.proofs Require Import TextParseProofs TextDeTapeProofs TextDeMoreTape.
Require Import Lia.
Open Scope nat_scope.

Lemma unfit_dec {A} (x : outcome A) : x = Err EC_UNFIT \/ x <> Err EC_UNFIT.
Proof.
  destruct x as [v|e|s|s|]; try (right; discriminate).
  destruct (N.eq_dec e EC_UNFIT) as [->|Hn]; [now left | right; congruence].
Qed.

Lemma rewrap_unfit w : forall o, rewrap w o (Err EC_UNFIT) = Err EC_UNFIT.
Proof.
  induction w as [|[] w IH]; intros o; cbn [rewrap]; [reflexivity | now rewrite IH |].
  destruct o; [now rewrite IH | reflexivity].
Qed.

Lemma rewrap_ext w o (x y : outcome dval) :
  (x <> Err EC_UNFIT -> y = x) -> rewrap w o x <> Err EC_UNFIT -> rewrap w o y = rewrap w o x.
Proof.
  intros H Hne. destruct (unfit_dec x) as [-> | Hx].
  - now rewrite rewrap_unfit in Hne.
  - now rewrite H.
Qed.

Lemma bind_unfit_l {A B} (x : outcome A) (g : A -> outcome B) :
  (do a <- x; g a) <> Err EC_UNFIT -> x <> Err EC_UNFIT.
Proof. intros H E. apply H. now rewrite E. Qed.

Lemma omap_unfit_l {A B} (f : A -> B) (x : outcome A) : omap f x <> Err EC_UNFIT -> x <> Err EC_UNFIT.
Proof. intros H E. apply H. now rewrite E. Qed.

(* one visit_map step: a value deserializer that extends another one extends the step *)
Lemma entry_mono (X S0 : Type) (rec1 rec2 : shape -> X -> S0 -> outcome (dval * S0)) rop m a kb knum x s :
  (forall sh', rec1 sh' x s <> Err EC_UNFIT -> rec2 sh' x s = rec1 sh' x s) ->
  entry rec1 rop m a kb knum x s <> Err EC_UNFIT ->
  entry rec2 rop m a kb knum x s = entry rec1 rop m a kb knum x s.
Proof.
  intros H Hne.
  assert (Hstep : forall sh' (K : dval * S0 -> outcome (acc * S0)),
            (do r <- rec1 sh' x s; K r) <> Err EC_UNFIT ->
            (do r <- rec2 sh' x s; K r) = (do r <- rec1 sh' x s; K r)).
  { intros sh' K Hk. rewrite H; [reflexivity|]. intros E. rewrite E in Hk. now apply Hk. }
  destruct m as [sh | tk fs | | sh]; unfold entry in *.
  - apply Hstep. exact Hne.
  - destruct (tk && knum); [reflexivity|].
    destruct (find_name fs kb 0) as [[i f]|].
    + destruct (f_mode f); try (apply Hstep; exact Hne).
      destruct (slot_full a i); [reflexivity|]. apply Hstep. exact Hne.
    + apply Hstep. exact Hne.
  - apply Hstep. exact Hne.
  - destruct (beqb kb STR_OPERATOR); [reflexivity|].
    destruct (beqb kb STR_VALUE).
    + destruct (slot_full a 1); [reflexivity|]. apply Hstep. exact Hne.
    + apply Hstep. exact Hne.
Qed.

Section Extends.
  Variable tp : bool.
  Variable decode : bytes -> cow.
  Variable pf : bytes -> outcome N.
  Variable F : fops.

  Notation spec_v := (TextDeSpec.spec_v decode pf F).
  Notation spec_items := (TextDeSpec.spec_items decode pf F).
  Notation spec_tuple := (TextDeSpec.spec_tuple decode pf F).
  Notation spec_fields := (TextDeSpec.spec_fields decode pf F).
  Notation spec_core := (TextDeTapeProofs.spec_core decode pf F).
  Notation spec_v2 := (TextDeSpec2.spec_v2 tp decode pf F).
  Notation spec_items2 := (TextDeSpec2.spec_items2 tp decode pf F).
  Notation spec_tuple2 := (TextDeSpec2.spec_tuple2 tp decode pf F).
  Notation spec_fields2 := (TextDeSpec2.spec_fields2 tp decode pf F).
  Notation spec_core2 := (TextDeMoreTape.spec_core2 tp decode pf F).

  Definition Xv (v : value) : Prop :=
    forall sh o, spec_v v sh o <> Err EC_UNFIT -> spec_v2 v sh o = spec_v v sh o.
  Definition Xf (f : TextDoc.field) : Prop := match f with Field _ _ _ v => Xv v | _ => True end.
  Definition Xfs (fs : fields) : Prop :=
    forall m a, spec_fields fs m a <> Err EC_UNFIT -> spec_fields2 fs m a = spec_fields fs m a.
  Definition Xvs (vs : values) : Prop :=
    (forall s, spec_items vs s <> Err EC_UNFIT -> spec_items2 vs s = spec_items vs s) /\
    (forall ss, spec_tuple vs ss <> Err EC_UNFIT -> spec_tuple2 vs ss = spec_tuple vs ss).

  Lemma xv_core v :
    (forall c, spec_core v c <> Err EC_UNFIT -> spec_core2 v c = spec_core v c) -> Xv v.
  Proof.
    intros H sh o Hne. rewrite (spec_v_eq decode pf F) in *. rewrite (spec_v2_eq tp decode pf F).
    apply rewrap_ext; [apply H | exact Hne].
  Qed.

  Lemma extends_all : (forall v, Xv v) /\ (forall f, Xf f) /\ (forall fs, Xfs fs) /\ (forall vs, Xvs vs).
  Proof.
    apply doc_mutind.
    - (* scalar *)
      intros k s. apply xv_core. intros c _. destruct c; reflexivity.
    - (* object *)
      intros fs Hfs tl _. apply xv_core. intros c Hne.
      unfold TextDeTapeProofs.spec_core, TextDeMoreTape.spec_core2 in *.
      destruct tl as [|t0 tl']; [|destruct c; try reflexivity; now destruct Hne].
      destruct c; try reflexivity; try (now destruct Hne); cbn [wmode_core] in *; unfold tail_step;
        (rewrite Hfs by (now apply bind_unfit_l in Hne));
        (destruct (TextDeSpec.spec_fields decode pf F fs _ _); reflexivity).
    - (* array *)
      intros items [Hall Htup]. apply xv_core. intros c Hne.
      unfold TextDeTapeProofs.spec_core, TextDeMoreTape.spec_core2 in *.
      destruct c; try reflexivity; try (now destruct Hne).
      + rewrite Hall by (now apply omap_unfit_l in Hne). reflexivity.
      + rewrite Htup by (now apply omap_unfit_l in Hne). reflexivity.
    - (* key-value array *)
      intros items _ kvs _. apply xv_core. intros c Hne.
      unfold TextDeTapeProofs.spec_core, TextDeMoreTape.spec_core2 in *.
      destruct c; try reflexivity; now destruct Hne.
    - (* header *)
      intros name v _. apply xv_core. intros c Hne.
      unfold TextDeTapeProofs.spec_core, TextDeMoreTape.spec_core2 in *.
      destruct c; try reflexivity; now destruct Hne.
    - intros k key op v H. exact H.
    - intros; exact I.
    - intros; exact I.
    - intros m a _. reflexivity.
    - intros f Hf fs Hfs m a Hne.
      destruct f as [k key op v | name u s | name u pfs];
        try (exfalso; apply Hne; reflexivity).
      cbn [Xf] in Hf. rewrite (spec_fields_cons decode pf F) in *. rewrite (spec_fields2_cons tp decode pf F).
      cbn [is_param andb fval fkey]. unfold no_op.
      rewrite (entry_mono unit unit
                 (fun sh' (_ _ : unit) => omap (fun d => (d, tt)) (spec_v v sh' (Some (op_or_equal op))))
                 (fun sh' (_ _ : unit) => omap (fun d => (d, tt)) (spec_v2 v sh' (Some (op_or_equal op))))).
      + destruct (entry _ _ m a _ _ tt tt) as [r| | | |]; cbn [obind] in *; try reflexivity.
        apply Hfs. exact Hne.
      + intros sh' Hs. apply omap_unfit_l in Hs. now rewrite Hf.
      + now apply bind_unfit_l in Hne.
    - split; intros; reflexivity.
    - intros v Hv vs [Hall Htup]. split.
      + intros s Hne. rewrite (spec_items_cons decode pf F) in *. rewrite (spec_items2_cons tp decode pf F).
        rewrite Hv by (now apply bind_unfit_l in Hne).
        destruct (spec_v v s None) as [x| | | |]; cbn [obind] in *; try reflexivity.
        rewrite Hall by (now apply bind_unfit_l in Hne). reflexivity.
      + intros ss Hne. rewrite (spec_tuple_cons decode pf F) in *. rewrite (spec_tuple2_cons tp decode pf F).
        destruct ss as [|s ss']; [reflexivity|].
        rewrite Hv by (now apply bind_unfit_l in Hne).
        destruct (spec_v v s None) as [x| | | |]; cbn [obind] in *; try reflexivity.
        rewrite Htup by (now apply bind_unfit_l in Hne). reflexivity.
  Qed.
End Extends.

Theorem spec_value2_extends tp decode pf F sh d :
  fits decode pf F sh d -> spec_value2 tp decode pf F sh d = spec_value decode pf F sh d.
Proof.
  unfold fits, spec_value, spec_value2. intros Hne.
  destruct (wmode_core sh) as [m|]; [|reflexivity].
  rewrite (proj1 (proj2 (proj2 (extends_all tp decode pf F))) d) by (now apply bind_unfit_l in Hne).
  reflexivity.
Qed.

Corollary fits_fits2 tp decode pf F sh d : fits decode pf F sh d -> fits2 tp decode pf F sh d.
Proof. intros H. unfold fits2. rewrite spec_value2_extends by exact H. exact H. Qed.
