(* Basic facts about the reference tokenizer of TextRef.v: every item shrinks the input, so the
   fuel of [tok1] / [ref_run] is irrelevant and they satisfy their natural unfolding equations. *)
From JV Require Import Bytes Tables U64Swar BufWin TextTok TextReader TextRef.
From JV.proofs Require Import BufWinProofs TextReaderProofs.
From Coq Require Import Lia List Arith.
Import ListNotations.
Open Scope nat_scope.

Lemma ITok_inj t s n t' s' n' : ITok t s n = ITok t' s' n' -> t = t' /\ s = s' /\ n = n'.
Proof. intros H; inversion H; auto. Qed.
Lemma ISkip_inj s n s' n' : ISkip s n = ISkip s' n' -> s = s' /\ n = n'.
Proof. intros H; inversion H; auto. Qed.
Lemma ITokEof_inj t n t' n' : ITokEof t n = ITokEof t' n' -> t = t' /\ n = n'.
Proof. intros H; inversion H; auto. Qed.
Lemma IEof_inj t n t' n' : IEof t n = IEof t' n' -> t = t' /\ n = n'.
Proof. intros H; inversion H; auto. Qed.
Lemma pair_inj {A B} (a a' : A) (b b' : B) : (a, b) = (a', b') -> a = a' /\ b = b'.
Proof. intros H; inversion H; auto. Qed.
Lemma RTok_inj t s t' s' : RTok t s = RTok t' s' -> t = t' /\ s = s'.
Proof. intros H; inversion H; auto. Qed.
(* injection without the simplification that unfolds [skipn (S n) s] *)
Ltac inj H :=
  first [ apply ITok_inj in H as (? & ? & ?) | apply ISkip_inj in H as (? & ?)
        | apply ITokEof_inj in H as (? & ?) | apply IEof_inj in H as (? & ?)
        | apply RTok_inj in H as (? & ?) | apply pair_inj in H as (? & ?) ]; subst.

Definition inee (i : istep) : nat :=
  match i with ISkip _ n | ITok _ _ n | ITokEof _ n | IEnd n | IEof _ n => n end.

Lemma bump_0 p : bump 0 p = p.
Proof. destruct p; reflexivity. Qed.
Lemma bump_bump a b p : bump a (bump b p) = bump (Nat.max a b) p.
Proof. destruct p; unfold bump; cbn [fst snd]. f_equal. lia. Qed.
Lemma bump_item_0 i : bump_item 0 i = i.
Proof. destruct i; reflexivity. Qed.

Lemma unq_item_shrinks s s' t n : s <> [] -> unq_item s = ITok t s' n -> length s' < length s.
Proof.
  unfold unq_item. intros Hs. destruct (find_from is_boundary (tl s) 0); [|discriminate].
  intros H; inj H. rewrite skipn_length. destruct s; [congruence|]. cbn [length]. lia.
Qed.
Lemma unq_item_noskip s s' n : unq_item s <> ISkip s' n.
Proof. unfold unq_item. destruct (find_from is_boundary (tl s) 0); discriminate. Qed.
Lemma op_item_shrinks s' a b t s2 n : op_item s' a b = ITok t s2 n -> length s2 <= length s'.
Proof.
  unfold op_item. destruct s' as [|c s'']; [discriminate|]. destruct (b_is c 61); intros H; inj H; cbn [length]; lia.
Qed.
Lemma op_item_noskip s' a b s2 n : op_item s' a b <> ISkip s2 n.
Proof. unfold op_item. destruct s' as [|c s'']; [discriminate|]. destruct (b_is c 61); discriminate. Qed.

Lemma item_skip_shrinks start s s' n : item start s = ISkip s' n -> length s' < length s.
Proof.
  unfold item. destruct s as [|c s0]; [discriminate|].
  destruct (is_ws c). { intros H; inj H. cbn [length]. lia. }
  destruct (b_is c 35).
  { destruct (find_from _ s0 0); [|discriminate]. intros H; inj H. rewrite skipn_length. cbn [length]. lia. }
  destruct (b_is c 123); [discriminate|]. destruct (b_is c 125); [discriminate|].
  destruct (b_is c 34). { destruct (rq_scan s0 0); discriminate. }
  destruct (b_is c 64).
  { destruct s0 as [|c2 s1]; [discriminate|]. destruct (b_is c2 91).
    - destruct (find_from _ s1 0); discriminate.
    - intros H. exfalso. eapply unq_item_noskip; eauto. }
  destruct (b_is c 61). { intros H. exfalso. eapply op_item_noskip; eauto. }
  destruct (b_is c 60). { intros H. exfalso. eapply op_item_noskip; eauto. }
  destruct (b_is c 33). { intros H. exfalso. eapply op_item_noskip; eauto. }
  destruct (b_is c 63). { intros H. exfalso. eapply op_item_noskip; eauto. }
  destruct (b_is c 62). { intros H. exfalso. eapply op_item_noskip; eauto. }
  destruct (b_is c 239 && start).
  { destruct s0 as [|b1 [|b2 s3]]; try discriminate. destruct (b_is b1 187 && b_is b2 191).
    - intros H; inj H. cbn [length]. lia.
    - unfold unq_item. destruct (find_from is_boundary (tl (c :: b1 :: b2 :: s3)) 0); discriminate. }
  intros H. exfalso. eapply unq_item_noskip; eauto.
Qed.

Lemma item_tok_shrinks start s t s' n : item start s = ITok t s' n -> length s' < length s.
Proof.
  unfold item. destruct s as [|c s0]; [discriminate|].
  destruct (is_ws c); [discriminate|].
  destruct (b_is c 35). { destruct (find_from _ s0 0); discriminate. }
  destruct (b_is c 123). { intros H; inj H. cbn [length]. lia. }
  destruct (b_is c 125). { intros H; inj H. cbn [length]. lia. }
  destruct (b_is c 34).
  { destruct (rq_scan s0 0); [|discriminate]. intros H; inj H. rewrite skipn_length. cbn [length]. lia. }
  assert (Hu : forall n', unq_item (c :: s0) = ITok t s' n' -> length s' < length (c :: s0)).
  { intros n'. apply unq_item_shrinks. discriminate. }
  assert (Ho : forall a b, op_item s0 a b = ITok t s' n -> length s' < length (c :: s0)).
  { intros a b H. apply op_item_shrinks in H. cbn [length]. lia. }
  destruct (b_is c 64).
  { destruct s0 as [|c2 s1]; [discriminate|]. destruct (b_is c2 91).
    - destruct (find_from _ s1 0); [|discriminate]. intros H; inj H. rewrite skipn_length. cbn [length]. lia.
    - apply Hu. }
  destruct (b_is c 61); [apply Ho|]. destruct (b_is c 60); [apply Ho|]. destruct (b_is c 33); [apply Ho|].
  destruct (b_is c 63); [apply Ho|]. destruct (b_is c 62); [apply Ho|].
  destruct (b_is c 239 && start).
  { destruct s0 as [|b1 [|b2 s3]]; try discriminate. destruct (b_is b1 187 && b_is b2 191); [discriminate|].
    intros H. destruct (unq_item (c :: b1 :: b2 :: s3)) eqn:E; cbn [bump_item] in H; try discriminate.
    inj H. eapply Hu. reflexivity. }
  apply Hu.
Qed.

Lemma tok1_S f start s :
  tok1 (S f) start s = match item start s with
               | ISkip s' n => bump n (tok1 f false s')
               | ITok t s' n => (RTok t s', n)
               | ITokEof t n => (RTok t [], n)
               | IEnd n => (REnd, n)
               | IEof k n => (REof k, n)
               end.
Proof. reflexivity. Qed.
Lemma ref_run_S f start s :
  ref_run (S f) start s = match tk start s with
    | (RTok t s', n) => let '(l, rem, m) := ref_run f false s' in (OTok t :: l, rem, Nat.max n m)
    | (REnd, n) => ([OEnd], 0, n)
    | (REof k, n) => ([OErr E_Eof], k, n)
    end.
Proof. reflexivity. Qed.

Lemma item_nil start : item start [] = IEnd 0.
Proof. reflexivity. Qed.

Lemma tok1_fuel : forall f1 f2 start s, length s < f1 -> length s < f2 -> tok1 f1 start s = tok1 f2 start s.
Proof.
  induction f1 as [|f1 IH]; intros f2 start s H1 H2; [lia|]. destruct f2 as [|f2]; [lia|].
  rewrite !tok1_S. destruct (item start s) as [s' n|t s' n|t n|n|k n] eqn:E; try reflexivity.
  apply item_skip_shrinks in E. f_equal. apply IH; lia.
Qed.

Lemma tk_unfold start s :
  tk start s = match item start s with
               | ISkip s' n => bump n (tk false s')
               | ITok t s' n => (RTok t s', n)
               | ITokEof t n => (RTok t [], n)
               | IEnd n => (REnd, n)
               | IEof k n => (REof k, n)
               end.
Proof.
  unfold tk. rewrite tok1_S. destruct (item start s) as [s' n|t s' n|t n|n|k n] eqn:E; try reflexivity.
  apply item_skip_shrinks in E. f_equal. apply tok1_fuel; lia.
Qed.

Lemma tk_need_ge start s : inee (item start s) <= snd (tk start s).
Proof.
  rewrite tk_unfold. destruct (item start s); cbn [inee snd bump fst]; lia.
Qed.

Lemma tk_tok_shrinks : forall n start s t s' m, length s <= n -> tk start s = (RTok t s', m) -> length s' < length s.
Proof.
  induction n as [|n IH]; intros start s t s' m Hn.
  - destruct s; [|cbn in Hn; lia]. rewrite tk_unfold. cbn. discriminate.
  - rewrite tk_unfold. destruct (item start s) as [s2 k|t2 s2 k|t2 k|k|k0 k] eqn:E; try discriminate.
    + pose proof (item_skip_shrinks _ _ _ _ E) as Hs. destruct (tk false s2) as [res m2] eqn:E2. unfold bump; cbn [fst snd].
      intros H; inversion H; subst. apply IH in E2; lia.
    + intros H; inversion H; subst. eapply item_tok_shrinks; eauto.
    + intros H; inversion H; subst. destruct s; [discriminate|]. cbn [length]. lia.
Qed.

Lemma ref_run_fuel : forall f1 f2 start s, length s < f1 -> length s < f2 -> ref_run f1 start s = ref_run f2 start s.
Proof.
  induction f1 as [|f1 IH]; intros f2 start s H1 H2; [lia|]. destruct f2 as [|f2]; [lia|].
  rewrite !ref_run_S. destruct (tk start s) as [[t s'| |k] n] eqn:E; try reflexivity.
  apply tk_tok_shrinks with (n := length s) in E; [|lia]. rewrite (IH f2 false s'); [reflexivity|lia|lia].
Qed.

Definition rr (start : bool) (s : bytes) : list rout * nat * nat := ref_run (S (length s)) start s.

Lemma rr_unfold start s :
  rr start s = match tk start s with
               | (RTok t s', n) => let '(l, rem, m) := rr false s' in (OTok t :: l, rem, Nat.max n m)
               | (REnd, n) => ([OEnd], 0, n)
               | (REof k, n) => ([OErr E_Eof], k, n)
               end.
Proof.
  unfold rr. rewrite ref_run_S. destruct (tk start s) as [[t s'| |k] n] eqn:E; try reflexivity.
  apply tk_tok_shrinks with (n := length s) in E; [|lia]. rewrite (ref_run_fuel (length s) (S (length s')) false s'); [reflexivity|lia|lia].
Qed.

(* a leading space is invisible once the stream has started *)
Lemma tk_space s : tk false (32%N :: s) = bump 1 (tk false s).
Proof. rewrite tk_unfold. reflexivity. Qed.
