(* Proofs about DeriveCode: the proc-macro model instantiated with the facts GENERATED from
   jomini_derive/src/lib.rs (Tables.dv_*, record DeriveCode.code_facts).

   Plan (w_derive, wave 5; gap of audit/C18.md: "spec_of_attrs models the walkers in lib.rs, it is not
   derived from them"):
   1. one lemma per structural fact, stated as the BEHAVIOUR of the instantiated model
      ([.. code_facts ..]) and proved by computation on the generated constant only — so that a change of
      that fact in lib.rs (which changes Tables.v) breaks exactly the lemma that names it:
        code_scans_every_attribute_list   .filter(is_ident("jomini")) in all six walkers      (seeded C18_1)
        code_takes_first                  .next() / .find(): first alias, first token, first default
        code_default_attr_before_option   can_default: the attribute decides before the type  (seeded C18_4)
        code_option_any_segment           can_default: any path segment named Option          (seeded C18_2)
        code_dup_table                    builder_fields: push / overwrite / duplicate_field, duplicated first
        code_extract_table                field_extract: unwrap_or_else / unwrap_or_default / missing_field
        code_key_is_alias_else_name       field_enum_match
        code_field_visitor_methods        __FieldVisitor = { visit_str, visit_u16 }
        code_field_key                    the two fallthrough arms are __ignore, the value is consumed
        code_key_hint, code_partial_tokens_rejected
   2. the instantiated model coincides with the hand-written one of DeriveMacro on the flattened table
      (code_spec_of_raw), hence every C18 theorem transfers to [visit_raw code_facts]
      (code_visit_raw_is_visit_attrs, code_struct_semantics, code_error_kinds, code_ok_fields,
      code_reorder_invariant);
   3. the known finding int-key-rejected as a theorem about the same model: a key that reaches
      __FieldVisitor through any method other than visit_str / visit_u16 fails the struct
      (code_int_key_rejected, witness code_unknown_int_key_not_ignored).
   The specific lemmas come first and do not use [code_facts_expected], so that the first error of a
   broken build names the fact that changed. *)
From JV Require Import Bytes Tables Derive DeriveMacro DeriveCode.
From JV.proofs Require Import DeriveProofs DeriveSpecProofs.
From Coq Require Import Arith Lia.

Lemma hd_filter_find : forall (A : Type) (f : A -> bool) l, hd_error (filter f l) = find f l.
Proof. induction l as [|x l IH]; cbn; [reflexivity|]. destruct (f x); [reflexivity|exact IH]. Qed.

Section S.
  Variable V : Type.
  Notation raw := (raw_field V).
  Notation CF := code_facts.
  Implicit Types (r : raw) (tbl : list raw).

  (* ------------------------------------------------------------ 1. one lemma per fact *)
  (* every walker looks at ALL `#[jomini(..)]` attribute lists of the field *)
  Lemma code_scans_every_attribute_list : forall r,
    scanned V (df_scan_duplicated CF) r = concat (r_attrs r) /\
    scanned V (df_scan_take_last CF) r = concat (r_attrs r) /\
    scanned V (df_scan_default CF) r = concat (r_attrs r) /\
    scanned V (df_scan_deserialize_with CF) r = concat (r_attrs r) /\
    scanned V (df_scan_alias CF) r = concat (r_attrs r) /\
    scanned V (df_scan_token CF) r = concat (r_attrs r).
  Proof. intros r. repeat split; reflexivity. Qed.

  (* the first alias / token / default argument is the one that counts *)
  Lemma code_takes_first : forall r,
    alias V CF r = hd_error (alias_strs (scanned V (df_scan_alias CF) r)) /\
    binary_token V CF r = hd_error (token_ints (scanned V (df_scan_token CF) r)) /\
    default_arg V CF r = find (named id_default) (scanned V (df_scan_default CF) r).
  Proof.
    intros r. split; [reflexivity|]. split; [reflexivity|].
    unfold default_arg. change (df_pick_default CF) with DvPickFirst. cbn [pick]. apply hd_filter_find.
  Qed.

  Lemma code_walkers : forall r,
    let l := concat (r_attrs r) in
    is_duplicated V CF r = existsb (named id_duplicated) l /\
    is_take_last V CF r = existsb (named id_take_last) l /\
    alias V CF r = hd_error (alias_strs l) /\
    binary_token V CF r = hd_error (token_ints l) /\
    default_arg V CF r = find (named id_default) l.
  Proof.
    intros r l.
    destruct (code_scans_every_attribute_list r) as (S1 & S2 & S3 & _ & S5 & S6).
    destruct (code_takes_first r) as (P1 & P2 & P3).
    unfold is_duplicated, is_take_last. rewrite S1, S2, P1, P2, P3, S3, S5, S6. repeat split; reflexivity.
  Qed.

  (* can_default: a `default` argument decides, whatever the type (the repaired defect option-default-fn) *)
  Lemma code_default_attr_before_option : forall r a,
    default_arg V CF r = Some a -> can_default V CF r = attr_fallback a.
  Proof.
    intros r a H. unfold can_default. change (df_default_before_option CF) with true. cbv iota. rewrite H. reflexivity.
  Qed.

  (* can_default: without a `default` argument, ANY segment of the type path named Option makes the field optional *)
  Lemma code_option_any_segment : forall r,
    default_arg V CF r = None ->
    can_default V CF r = if existsb (beqb id_Option) (r_type_path r) then FbYes else FbNo.
  Proof.
    intros r H. unfold can_default, type_is_option.
    change (df_option_test CF) with DvOptAnySegment.
    destruct (df_default_before_option CF); rewrite H; cbv iota;
      destruct (existsb (beqb id_Option) (r_type_path r)); reflexivity.
  Qed.

  (* builder_fields: duplicated -> push; else take_last -> overwrite; else duplicate_field *)
  Lemma code_dup_table : forall r,
    dup_of_raw V CF r =
      if is_duplicated V CF r then Duplicated else if is_take_last V CF r then TakeLast else Once.
  Proof.
    intros r. unfold dup_of_raw, act_of.
    destruct (is_duplicated V CF r), (is_take_last V CF r); reflexivity.
  Qed.

  (* field_extract: Path -> unwrap_or_else(fn), Yes -> unwrap_or_default, No -> missing_field *)
  Lemma code_extract_table : forall r,
    miss_of_raw V CF r =
      match can_default V CF r with
      | FbPath fn => DefaultTo (r_fn_value r fn)
      | FbYes => DefaultTo (r_type_default r)
      | FbNo | FbPanic => Required
      end.
  Proof. intros r. unfold miss_of_raw. destruct (can_default V CF r); reflexivity. Qed.

  (* the string that selects the field: the alias if there is one, the field's name otherwise *)
  Lemma code_key_is_alias_else_name : forall r,
    key_of_raw V CF r = match alias V CF r with Some al => al | None => r_name r end.
  Proof. intros r. reflexivity. Qed.

  (* __FieldVisitor implements exactly visit_str and visit_u16 *)
  Lemma code_field_visitor_methods : forall m,
    implements CF m = true <-> m = DvVisitStr \/ m = DvVisitU16.
  Proof.
    intros m. split.
    - destruct m; cbn; intros H; try discriminate H; auto.
    - intros [-> | ->]; reflexivity.
  Qed.

  (* string keys and token ids always get through (the fallthrough arms are `__ignore`, whose value is consumed);
     a key delivered through any other Visitor method does not *)
  Lemma code_field_key : forall specs k,
    field_key V CF specs k =
      match k with WStr s => Some (KStr s) | WU16 t => Some (KTok t) | WVia _ => None end.
  Proof.
    intros specs [s|t|m]; unfold field_key.
    - change (implements CF (method_of (WStr s))) with true. cbv iota. cbn [negb].
      change (df_str_fallthrough_ignore CF && df_unknown_value_consumed CF) with true.
      destruct (match_field V specs (KStr s)); reflexivity.
    - change (implements CF (method_of (WU16 t))) with true. cbv iota. cbn [negb].
      change (df_u16_fallthrough_ignore CF && df_unknown_value_consumed CF) with true.
      destruct (match_field V specs (KTok t)); reflexivity.
    - destruct (negb (implements CF (method_of (WVia m)))); reflexivity.
  Qed.

  (* keys are requested with deserialize_u16 iff some field carries a token *)
  Lemma code_key_hint : forall tbl,
    key_hint V CF tbl = if Nat.ltb 0 (token_count V CF tbl) then DvHintU16 else DvHintIdentifier.
  Proof. intros tbl. reflexivity. Qed.

  Lemma token_count_le : forall F tbl, (token_count V F tbl <= length tbl)%nat.
  Proof.
    intros F tbl. unfold token_count. induction tbl as [|r tbl IH]; cbn [filter length]; [lia|].
    destruct (has_token_raw V F r); cbn [length]; lia.
  Qed.

  (* tokens on some but not all fields: compile-time panic *)
  Lemma code_partial_tokens_rejected : forall tbl,
    macro_accepts_raw V CF tbl = true ->
    token_count V CF tbl = 0%nat \/ token_count V CF tbl = length tbl.
  Proof.
    intros tbl H. unfold macro_accepts_raw in H. apply andb_prop in H. destruct H as [_ H].
    change (df_partial_tokens_rejected CF) with true in H. cbn [andb] in H.
    pose proof (token_count_le CF tbl) as L.
    destruct (Nat.ltb_spec 0 (token_count V CF tbl)) as [A|A]; [|lia].
    destruct (Nat.ltb_spec (token_count V CF tbl) (length tbl)) as [B|B]; [discriminate H|lia].
  Qed.

  (* ------------------------------------------------------------ 2. the instantiated model is the model of DeriveMacro *)
  Lemma code_facts_expected : code_facts = expected_facts.
  Proof. reflexivity. Qed.

  Lemma code_spec_of_raw : forall r,
    field_compiles V CF r = true ->
    spec_of_raw V CF r = spec_of_attrs V (attrs_of_raw V r).
  Proof.
    intros r C. destruct (code_walkers r) as (W1 & W2 & W3 & W4 & W5).
    unfold spec_of_raw, spec_of_attrs. f_equal.
    - rewrite code_key_is_alias_else_name, W3. unfold key_of_attrs, attrs_of_raw. cbn [a_aliases a_name].
      destruct (alias_strs (concat (r_attrs r))); reflexivity.
    - rewrite code_dup_table, W1, W2. reflexivity.
    - rewrite code_extract_table. unfold field_compiles in C. apply andb_prop in C. destruct C as [C _].
      unfold miss_of_attrs, attrs_of_raw. cbn [a_default a_option a_type_default a_path_default].
      destruct (find (named id_default) (concat (r_attrs r))) as [a|] eqn:E.
      + pose proof W5 as D.
        rewrite (code_default_attr_before_option r a D) in C |- *.
        destruct a as [n|n [s|t|]|n|]; cbn in C |- *; try reflexivity; try discriminate C.
      + pose proof W5 as D.
        rewrite (code_option_any_segment r D).
        destruct (existsb (beqb id_Option) (r_type_path r)); reflexivity.
  Qed.

  Lemma deliver_wire : forall specs (kvs : list (key * outcome V)),
    deliver V CF specs (wire_kvs V kvs) = (kvs, false).
  Proof.
    intros specs. induction kvs as [|[k o] kvs IH]; [reflexivity|].
    cbn [wire_kvs map fst snd deliver]. rewrite code_field_key.
    fold (wire_kvs V kvs). destruct k; cbn [wire_of_key]; rewrite IH; reflexivity.
  Qed.

  (* on string / token-id keys the loop behind __FieldVisitor is Derive.visit *)
  Lemma code_visit_wire : forall specs (kvs : list (key * outcome V)),
    visit_wire V CF specs (wire_kvs V kvs) = visit V specs kvs.
  Proof. intros specs kvs. unfold visit_wire. rewrite deliver_wire. reflexivity. Qed.

  Lemma accepts_compiles : forall tbl, macro_accepts_raw V CF tbl = true -> forall r, In r tbl -> field_compiles V CF r = true.
  Proof.
    intros tbl H r I. unfold macro_accepts_raw in H. apply andb_prop in H. destruct H as [H _].
    rewrite forallb_forall in H. exact (H r I).
  Qed.

  Lemma code_specs : forall tbl, macro_accepts_raw V CF tbl = true ->
    map (spec_of_raw V CF) tbl = map (spec_of_attrs V) (map (attrs_of_raw V) tbl).
  Proof.
    intros tbl H. rewrite map_map. apply map_ext_in. intros r I.
    apply code_spec_of_raw. exact (accepts_compiles tbl H r I).
  Qed.

  Theorem code_visit_raw_is_visit_attrs : forall tbl (kvs : list (key * outcome V)),
    macro_accepts_raw V CF tbl = true ->
    visit_raw V CF tbl (wire_kvs V kvs) = visit_attrs V (map (attrs_of_raw V) tbl) kvs.
  Proof.
    intros tbl kvs H. unfold visit_raw, visit_attrs. rewrite code_visit_wire, (code_specs tbl H). reflexivity.
  Qed.

  (* the accept / reject decision and the key hint agree with DeriveMacro as well *)
  Lemma has_token_agrees : forall r, has_token_raw V CF r = has_token V (attrs_of_raw V r).
  Proof.
    intros r. unfold has_token_raw, has_token. destruct (code_walkers r) as (_ & _ & _ & W4 & _). rewrite W4.
    unfold attrs_of_raw. cbn [a_tokens]. destruct (token_ints (concat (r_attrs r))); reflexivity.
  Qed.

  Lemma token_count_agrees : forall tbl,
    token_count V CF tbl = length (filter (has_token V) (map (attrs_of_raw V) tbl)).
  Proof.
    intros tbl. unfold token_count. induction tbl as [|r tbl IH]; [reflexivity|].
    cbn [filter map]. rewrite has_token_agrees. destruct (has_token V (attrs_of_raw V r)); cbn [length]; rewrite IH; reflexivity.
  Qed.

  Theorem code_accepts_implies_macro_accepts : forall tbl,
    macro_accepts_raw V CF tbl = true -> macro_accepts V (map (attrs_of_raw V) tbl) = true.
  Proof.
    intros tbl H. destruct (code_partial_tokens_rejected tbl H) as [E|E]; unfold macro_accepts;
      rewrite <- token_count_agrees, map_length, E.
    - reflexivity.
    - rewrite Nat.eqb_refl. apply Bool.orb_true_r.
  Qed.

  Theorem code_hint_is_uses_token_keys : forall tbl,
    key_hint V CF tbl = if uses_token_keys V (map (attrs_of_raw V) tbl) then DvHintU16 else DvHintIdentifier.
  Proof.
    intros tbl. rewrite code_key_hint. unfold uses_token_keys. rewrite <- token_count_agrees.
    destruct (token_count V CF tbl); reflexivity.
  Qed.

  (* ---- the C18 theorems, for the model instantiated from the source ---- *)
  Notation specs_of tbl := (map (spec_of_raw V CF) tbl).

  Theorem code_struct_semantics : forall tbl (kvs : list (key * outcome V)),
    values_ok V (specs_of tbl) kvs ->
    visit_raw V CF tbl (wire_kvs V kvs) = spec_visit V (specs_of tbl) kvs.
  Proof. intros tbl kvs H. unfold visit_raw. rewrite code_visit_wire. apply visit_is_spec. exact H. Qed.

  Theorem code_error_kinds : forall tbl (kvs : list (key * outcome V)),
    values_ok V (specs_of tbl) kvs ->
    (exists outs, visit_raw V CF tbl (wire_kvs V kvs) = Ok outs)
    \/ visit_raw V CF tbl (wire_kvs V kvs) = Err E_DUP \/ visit_raw V CF tbl (wire_kvs V kvs) = Err E_MISSING.
  Proof. intros tbl kvs H. unfold visit_raw. rewrite code_visit_wire. apply visit_error_kinds. exact H. Qed.

  Theorem code_reorder_invariant : forall tbl (kvs kvs' : list (key * outcome V)),
    reorder V (specs_of tbl) kvs kvs' ->
    is_ok (visit_raw V CF tbl (wire_kvs V kvs)) = is_ok (visit_raw V CF tbl (wire_kvs V kvs')) /\
    (is_ok (visit_raw V CF tbl (wire_kvs V kvs)) = true ->
     visit_raw V CF tbl (wire_kvs V kvs) = visit_raw V CF tbl (wire_kvs V kvs')).
  Proof. intros tbl kvs kvs' H. unfold visit_raw. rewrite !code_visit_wire. apply reorder_invariant. exact H. Qed.

  (* the successful result field by field, in terms of the RAW attributes of the source *)
  Theorem code_ok_fields : forall tbl (kvs : list (key * outcome V)) outs i r,
    values_ok V (specs_of tbl) kvs ->
    visit_raw V CF tbl (wire_kvs V kvs) = Ok outs -> nth_error tbl i = Some r ->
    let l := concat (r_attrs r) in
    let vals := okvals V (occ V (specs_of tbl) i kvs) in
    let dflt := match can_default V CF r with
                | FbPath fn => OVal (r_fn_value r fn)
                | FbYes => OVal (r_type_default r)
                | FbNo | FbPanic => OVec []
                end in
    nth_error outs i = Some
      (if existsb (named id_duplicated) l then OVec vals
       else if existsb (named id_take_last) l then match rev vals with v :: _ => OVal v | [] => dflt end
       else match vals with v :: _ => OVal v | [] => dflt end)
    /\ (existsb (named id_duplicated) l = false -> existsb (named id_take_last) l = false -> (length vals <= 1)%nat)
    /\ (existsb (named id_duplicated) l = false -> can_default V CF r = FbNo -> vals <> []).
  Proof.
    intros tbl kvs outs i r OK R N l vals dflt.
    unfold visit_raw in R. rewrite code_visit_wire in R.
    assert (N' : nth_error (specs_of tbl) i = Some (spec_of_raw V CF r)) by (rewrite nth_error_map, N; reflexivity).
    destruct (visit_ok_fields V (specs_of tbl) kvs outs i (spec_of_raw V CF r) OK R N') as (_ & A & B & C).
    destruct (code_walkers r) as (W1 & W2 & _).
    cbn [spec_of_raw f_dup f_miss] in A, B, C. rewrite code_dup_table, W1, W2 in A, B, C.
    rewrite code_extract_table in A, C. fold l in A, B, C. fold vals in A, B, C.
    split; [|split].
    - rewrite A. unfold dflt.
      destruct (existsb (named id_duplicated) l); [reflexivity|].
      destruct (existsb (named id_take_last) l), (can_default V CF r); reflexivity.
    - intros D T. rewrite D, T in B. apply B. reflexivity.
    - intros D Fb. rewrite D, Fb in C. apply C; [|reflexivity].
      destruct (existsb (named id_take_last) l); discriminate.
  Qed.

  (* ------------------------------------------------------------ 3. integer keys (known finding int-key-rejected) *)
  Lemma deliver_stop : forall specs (pre : list (key * outcome V)) m o rest,
    deliver V CF specs (wire_kvs V pre ++ (WVia m, o) :: rest) = (pre, true).
  Proof.
    intros specs. induction pre as [|[k o'] pre IH]; intros m o rest.
    - cbn [wire_kvs map app deliver]. rewrite code_field_key. reflexivity.
    - cbn [wire_kvs map fst snd app deliver]. rewrite code_field_key. fold (wire_kvs V pre).
      destruct k; cbn [wire_of_key]; rewrite IH; reflexivity.
  Qed.

  (* a key that reaches __FieldVisitor through a method other than visit_str / visit_u16 fails the struct, whatever
     the field table: "unknown fields are ignored" does not hold for integer keys *)
  Theorem code_int_key_rejected : forall tbl (pre : list (key * outcome V)) m o rest,
    visit_raw V CF tbl (wire_kvs V pre ++ (WVia m, o) :: rest) =
      (do _ <- visit_loop V (specs_of tbl) (init V (specs_of tbl)) pre; Err E_KEY)
    /\ is_ok (visit_raw V CF tbl (wire_kvs V pre ++ (WVia m, o) :: rest)) = false.
  Proof.
    intros tbl pre m o rest. unfold visit_raw, visit_wire. rewrite deliver_stop.
    split; [reflexivity|]. destruct (visit_loop V (specs_of tbl) (init V (specs_of tbl)) pre); reflexivity.
  Qed.
End S.

(* non-vacuity and regression inputs, on the generated facts *)
(* #[jomini(alias = "core")] #[jomini(duplicated)] cores: Vec<_>  (two attribute lists: seeded C18_1) ;
   #[jomini(default = "seven")] o: std::option::Option<_>         (seeded C18_2 / C18_4) ;
   q: ::core::option::Option<_> ;  n  *)
Definition ex_tbl : list (raw_field N) :=
  [mk_raw [99; 115] [[ANameValue id_alias (LStr [99])]; [AWord id_duplicated]] [[86; 101; 99]] 0%N (fun _ => 0%N);
   mk_raw [111] [[ANameValue id_default (LStr [55])]] [[115; 116; 100]; [111]; id_Option] 0%N (fun _ => 7%N);
   mk_raw [113] [] [[99]; [111]; id_Option] 0%N (fun _ => 0%N);
   mk_raw [110] [] [[117; 56]] 0%N (fun _ => 0%N)].

Example code_example :
  map (spec_of_raw N code_facts) ex_tbl =
    [mk_field [99] None Duplicated Required; mk_field [111] None Once (DefaultTo 7%N);
     mk_field [113] None Once (DefaultTo 0%N); mk_field [110] None Once Required]
  /\ macro_accepts_raw N code_facts ex_tbl = true
  /\ visit_raw N code_facts ex_tbl [(WStr [99], Ok 1%N); (WStr [120], Ok 9%N); (WStr [110], Ok 2%N); (WStr [99], Ok 3%N)]
     = Ok [OVec [1%N; 3%N]; OVal 7%N; OVal 0%N; OVal 2%N]
  /\ visit_raw N code_facts ex_tbl [(WStr [110], Ok 2%N); (WStr [110], Ok 3%N)] = Err E_DUP
  /\ visit_raw N code_facts ex_tbl [(WStr [99], Ok 1%N)] = Err E_MISSING.
Proof. vm_compute. repeat split; reflexivity. Qed.

(* the finding int-key-rejected on the same struct: the document of the example with the unknown field `x = 9`
   keyed by an integer token (delivered through visit_i32) instead of a string is no longer accepted *)
Lemma code_unknown_int_key_not_ignored :
  exists (tbl : list (raw_field N)) pre o rest,
    macro_accepts_raw N code_facts tbl = true /\
    is_ok (visit_raw N code_facts tbl (wire_kvs N pre ++ rest)) = true /\
    is_ok (visit_raw N code_facts tbl (wire_kvs N pre ++ (WStr [120], o) :: rest)) = true /\
    visit_raw N code_facts tbl (wire_kvs N pre ++ (WVia DvVisitI32, o) :: rest) = Err E_KEY.
Proof.
  exists ex_tbl, [(KStr [99], Ok 1%N)], (Ok 9%N), [(WStr [110], Ok 2%N); (WStr [99], Ok 3%N)].
  vm_compute. repeat split; reflexivity.
Qed.
