(* Proofs for the STREAM path of the text serde deserializer (TextDeStream, token-list instance)
   against TextDeSpec.spec_value, over the core grammar. *)
From JV Require Import Bytes Utf8 Scalar TextTok TextReader TextDoc SerdeShape TextDeCommon TextDeTape TextDeStream TextDeSpec.
From JV.proofs Require Import TextParseProofs TextDeTapeProofs.
Require Import Lia.
Open Scope nat_scope.

(* ------------------------------------------------------------------ skip_container on a balanced body *)
Lemma scalar_rtok_skip k s l d : l_skip_depth (scalar_rtok k s :: l) d = l_skip_depth l d.
Proof. now destruct k. Qed.

Lemma skip_bal :
  (forall v, core_value v = true -> forall rest d, l_skip_depth (rtoks_value v ++ rest) d = l_skip_depth rest d) /\
  (forall f, core_field f = true -> forall rest d, l_skip_depth (rtoks_field f ++ rest) d = l_skip_depth rest d) /\
  (forall fs, core_fields fs = true -> forall rest d, l_skip_depth (rtoks_fields fs ++ rest) d = l_skip_depth rest d) /\
  (forall vs, core_values vs = true -> forall rest d, l_skip_depth (rtoks_values vs ++ rest) d = l_skip_depth rest d).
Proof.
  apply doc_mutind.
  - intros k s _ rest d. cbn [rtoks_value app]. apply scalar_rtok_skip.
  - intros fs Hfs tl _ Hc rest d. destruct tl; [|discriminate]. cbn [core_value] in Hc.
    cbn [rtoks_value rtoks_values app l_skip_depth]. rewrite <- app_assoc. rewrite Hfs by auto. reflexivity.
  - intros items Hvs Hc rest d. cbn [core_value] in Hc.
    cbn [rtoks_value app l_skip_depth]. rewrite <- app_assoc. rewrite Hvs by auto. reflexivity.
  - intros; discriminate.
  - intros; discriminate.
  - intros k key op v Hv Hc rest d. cbn [core_field] in Hc. cbn [rtoks_field app].
    rewrite scalar_rtok_skip. rewrite <- app_assoc. destruct op; cbn [app l_skip_depth]; now rewrite Hv.
  - intros; discriminate.
  - intros; discriminate.
  - intros _ rest d. reflexivity.
  - intros f Hf fs Hfs Hc rest d. cbn [core_fields] in Hc. apply andb_prop in Hc as [H1 H2].
    cbn [rtoks_fields]. rewrite <- app_assoc. now rewrite Hf, Hfs.
  - intros _ rest d. reflexivity.
  - intros v Hv vs Hvs Hc rest d. cbn [core_values] in Hc. apply andb_prop in Hc as [H1 H2].
    cbn [rtoks_values]. rewrite <- app_assoc. now rewrite Hv, Hvs.
Qed.

(* ------------------------------------------------------------------ entry with a threaded state *)
Lemma entry_ext_s (S1 X1 X2 : Type) (rec1 : shape -> X1 -> S1 -> outcome (dval * S1)) rop1
      (rec2 : shape -> X2 -> unit -> outcome (dval * unit)) rop2 m a kb knum x1 x2 (s1 s1' : S1) :
  m_core m = true ->
  (forall sh', sh' = ShIgn \/ shape_size sh' < wm_size m ->
     rec2 sh' x2 tt <> Err EC_UNFIT -> rec1 sh' x1 s1 = (do r <- rec2 sh' x2 tt; Ok (fst r, s1'))) ->
  entry rec2 rop2 m a kb knum x2 tt <> Err EC_UNFIT ->
  entry rec1 rop1 m a kb knum x1 s1 = (do r <- entry rec2 rop2 m a kb knum x2 tt; Ok (fst r, s1')).
Proof.
  intros Hm Hrec Hne.
  assert (Hstep : forall sh' (K : dval -> acc),
            (sh' = ShIgn \/ shape_size sh' < wm_size m) ->
            (do r <- rec2 sh' x2 tt; let '(v, s') := r in Ok (K v, s')) <> Err EC_UNFIT ->
            (do r <- rec1 sh' x1 s1; let '(v, s') := r in Ok (K v, s')) =
            (do r <- (do r <- rec2 sh' x2 tt; let '(v, s') := r in Ok (K v, s')); Ok (fst r, s1'))).
  { intros sh' K Hs Hk. rewrite Hrec; auto.
    - destruct (rec2 sh' x2 tt) as [[v []]| | | |]; reflexivity.
    - intros E. rewrite E in Hk. now apply Hk. }
  destruct m as [s | tk fs | | s]; try discriminate; unfold entry in *.
  - apply (Hstep s (fun v => mkacc ((kb, v) :: a_map a) (a_amap a) (a_slots a))); [right; cbn; lia | exact Hne].
  - destruct (tk && knum); [reflexivity|].
    destruct (find_name fs kb 0) as [[i f]|] eqn:Ef.
    + pose proof (field_size_lt tk _ _ (find_name_in _ _ _ _ _ Ef)) as Hlt.
      destruct (f_mode f).
      * destruct (slot_full a i); [reflexivity|].
        apply (Hstep (f_shape f) (fun v => slot_set a i v)); [right; exact Hlt | exact Hne].
      * apply (Hstep (f_shape f) (fun v => slot_push a i v)); [right; exact Hlt | exact Hne].
      * apply (Hstep (f_shape f) (fun v => slot_set a i v)); [right; exact Hlt | exact Hne].
    + apply (Hstep ShIgn (fun _ => a)); [now left | exact Hne].
Qed.

Lemma sprim_flag decode pf b1 b2 h raw :
  sprim (scalar_prim decode pf b1 h raw) = sprim (scalar_prim decode pf b2 h raw).
Proof.
  unfold scalar_prim. destruct h; try reflexivity.
  - now destruct (to_bool raw).
  - now destruct (to_i64 raw).
  - now destruct (to_u64 raw).
  - now destruct (pf raw).
Qed.

Section StreamMain.
  Variable decode : bytes -> cow.
  Variable pf : bytes -> outcome N.
  Variable F : fops.

  Notation sde := (TextDeStream.sde decode pf F ltoks l_next l_skip l_read).
  Notation swalk := (TextDeStream.swalk decode pf F ltoks l_next l_skip l_read).
  Notation sseq_all := (TextDeStream.sseq_all decode pf F ltoks l_next l_skip l_read).
  Notation sseq_tup := (TextDeStream.sseq_tup decode pf F ltoks l_next l_skip l_read).
  Notation spec_v := (TextDeSpec.spec_v decode pf F).
  Notation spec_items := (TextDeSpec.spec_items decode pf F).
  Notation spec_tuple := (TextDeSpec.spec_tuple decode pf F).
  Notation spec_fields := (TextDeSpec.spec_fields decode pf F).
  Notation spec_scalar := (TextDeSpec.spec_scalar decode pf F).
  Notation spec_core := (TextDeTapeProofs.spec_core decode pf F).

  Definition ret {A} (r : ltoks) (x : outcome A) : outcome (A * ltoks) := omap (fun a => (a, r)) x.

  Lemma rread_cons tk l e : rread ltoks l_next (tk :: l, e) = Ok (tk, (l, e)).
  Proof. reflexivity. Qed.

  (* unfolding equations *)
  Lemma sde_prim f sh tk op r p :
    stream_visit decode pf (thint_of sh) tk = Ok (SVPrim p) ->
    sde (S f) sh tk op r = (do x <- tvisit_prim F sh p; Ok (x, r)).
  Proof. intros H. cbn [TextDeStream.sde]. rewrite H. reflexivity. Qed.

  Lemma sde_skip f sh tk op r :
    stream_visit decode pf (thint_of sh) tk = Ok SVSkipUnit ->
    sde (S f) sh tk op r = (do r' <- l_skip r; do x <- tvisit_prim F sh TPUnit; Ok (x, r')).
  Proof. intros H. cbn [TextDeStream.sde]. rewrite H. reflexivity. Qed.

  Lemma sde_opt f s tk op r :
    sde (S f) (ShOpt s) tk op r = (do xr <- sde f s tk op r; let '(x, r') := xr in Ok (DSome x, r')).
  Proof. reflexivity. Qed.

  Lemma sde_prop f s tk op r :
    sde (S f) (ShProp s) tk op r = (do xr <- sde f s tk Equal r; let '(x, r') := xr in Ok (DProp (op_code op) x, r')).
  Proof. reflexivity. Qed.

  Lemma sde_map f sh op r m :
    (thint_of sh = THMap \/ thint_of sh = THStruct false) -> wmode_of sh = Some m ->
    sde (S f) sh ROpen op r =
      (do ar <- swalk f false m (acc0 m) r; let '(a, r') := ar in do x <- finish m a; Ok (x, r')).
  Proof. intros [H | H] H2; cbn [TextDeStream.sde]; rewrite H; cbn [stream_visit obind]; rewrite H2; reflexivity. Qed.

  Lemma sde_seq f s tk op r :
    sde (S f) (ShSeq s) tk op r = (do lr <- sseq_all f s r; let '(l, r') := lr in Ok (DSeq l, r')).
  Proof. reflexivity. Qed.

  Lemma sde_tup f ss tk op r :
    sde (S f) (ShTup ss) tk op r =
      (do lr <- sseq_tup f ss r; let '(l, r') := lr in
       do tr <- rread ltoks l_next r'; let '(tk', r'') := tr in
       match tk' with RClose => Ok (DSeq l, r'') | _ => Err EC_SYNTAX end).
  Proof. reflexivity. Qed.

  Lemma sseq_all_eq f s r :
    sseq_all (S f) s r =
      (do tr <- rread ltoks l_next r; let '(tk, r1) := tr in
       match tk with
       | RClose => Ok ([], r1)
       | _ => do xr <- sde f s tk Equal r1; let '(x, r2) := xr in
              do lr <- sseq_all f s r2; let '(l, r3) := lr in Ok (x :: l, r3)
       end).
  Proof. reflexivity. Qed.

  Lemma sseq_tup_eq f ss r :
    sseq_tup (S f) ss r =
      match ss with
      | [] => Ok ([], r)
      | s :: ss' =>
          do tr <- rread ltoks l_next r; let '(tk, r1) := tr in
          match tk with
          | RClose => Err EC_DE
          | _ => do xr <- sde f s tk Equal r1; let '(x, r2) := xr in
                 do lr <- sseq_tup f ss' r2; let '(l, r3) := lr in Ok (x :: l, r3)
          end
      end.
  Proof. reflexivity. Qed.

  Definition svalue (A : Type) (k : TextReader.rtok -> operator -> ltoks -> outcome (A * ltoks)) (r0 : ltoks) : outcome (A * ltoks) :=
    do tr <- l_read r0; let '(tk, r1) := tr in
    match tk with
    | ROp o => do tr2 <- rread ltoks l_next r1; let '(tk2, r2) := tr2 in k tk2 o r2
    | _ => k tk Equal r1
    end.
  Definition srec (f : nat) := fun sh (_ : unit) r0 => svalue dval (sde f sh) r0.
  Definition srec_op := fun (_ : unit) (r0 : ltoks) =>
    svalue N (fun tk _ r' =>
                do vv <- stream_visit decode pf THStr tk;
                match vv with
                | SVPrim p => do o <- visit_operator p; Ok (o, r')
                | _ => Err EC_DE
                end) r0.

  Lemma swalk_eq f root m a r :
    swalk (S f) root m a r =
      (do x <- l_next r;
       match x with
       | (Some RClose, r1) => Ok (a, r1)
       | (Some ROpen, r1) => do r2 <- l_skip r1; swalk f root m a r2
       | (Some tk, r1) =>
           let '(kb, knum) := TextDeStream.key_info decode tk in
           do ar <- entry (srec f) srec_op m a kb knum tt r1; let '(a', r2) := ar in
           swalk f root m a' r2
       | (None, r1) => if root then Ok (a, r1) else Err EC_EOF
       end).
  Proof. reflexivity. Qed.

  Lemma ret_bind {A B} r (x : outcome A) (g : A -> B) :
    (do ar <- ret r x; let '(a, r') := ar in Ok (g a, r')) = ret r (omap g x).
  Proof. now destruct x. Qed.

  (* ---------------------------------------------------------------- scalars *)
  Lemma stream_visit_scalar h k raw :
    hint_scalar h = true ->
    stream_visit decode pf h (scalar_rtok k raw) = Ok (SVPrim (scalar_prim decode pf false h raw)).
  Proof.
    intros Hh. assert (Hany : s_any decode (scalar_rtok k raw) = Ok (SVPrim (TPStr false (cow_bytes (decode raw))))) by now destruct k.
    assert (Hsc : TextDeStream.tok_scalar (scalar_rtok k raw) = Some raw) by now destruct k.
    destruct h; try discriminate; cbn [stream_visit]; rewrite ?Hsc, ?Hany; try reflexivity; unfold scalar_prim; cbn [andb].
    - destruct (to_bool raw); try reflexivity; now rewrite Hany.
    - destruct (to_i64 raw); try reflexivity; now rewrite Hany.
    - destruct (to_u64 raw); try reflexivity; now rewrite Hany.
    - destruct (pf raw); try reflexivity; now rewrite Hany.
    - now destruct k.
    - now destruct k.
  Qed.

  Lemma tvisit_flag sh b1 b2 h raw :
    tvisit_prim F sh (scalar_prim decode pf b1 h raw) = tvisit_prim F sh (scalar_prim decode pf b2 h raw).
  Proof. unfold tvisit_prim. now rewrite (sprim_flag decode pf b1 b2). Qed.

  Lemma sde_scalar k raw c op r f :
    is_wrapper c = false -> spec_scalar c raw <> Err EC_UNFIT ->
    sde (S f) c (scalar_rtok k raw) op r = ret r (match c with ShIgn => Ok DIgn | _ => spec_scalar c raw end).
  Proof.
    intros Hw Hne.
    destruct (shape_scalar c) eqn:Hs.
    - assert (Hh : hint_scalar (thint_of c) = true) by (destruct c; try discriminate; reflexivity).
      rewrite (sde_prim f c _ op r _ (stream_visit_scalar _ k raw Hh)).
      rewrite (tvisit_flag c false true).
      destruct c; try discriminate; unfold ret, spec_scalar;
        try (destruct (tvisit_prim F _ _); reflexivity).
      reflexivity.
    - destruct c; try discriminate; try (now destruct Hne).
      cbn [TextDeStream.sde thint_of stream_visit obind].
      unfold spec_scalar, pstr, ret, tvisit_variant.
      destruct k; cbn [scalar_rtok TextDeStream.tok_scalar obind sprim];
        destruct (visit_variant variants _); reflexivity.
  Qed.

  (* ---------------------------------------------------------------- Option / Property wrappers *)
  Lemma sde_wrappers tk r r' (sc : shape -> outcome dval) B :
    (forall c op fuel, is_wrapper c = false -> B + shape_size c <= fuel -> sc c <> Err EC_UNFIT ->
       sde fuel c tk op r = ret r' (sc c)) ->
    forall sh o fuel, B + shape_size sh <= fuel ->
      rewrap (fst (unwrap sh)) o (sc (snd (unwrap sh))) <> Err EC_UNFIT ->
      sde fuel sh tk (op_or_equal o) r = ret r' (rewrap (fst (unwrap sh)) o (sc (snd (unwrap sh)))).
  Proof.
    intros Hc. induction sh; intros o fuel Hf Hne; try (apply Hc; auto; fail).
    - cbn [unwrap] in *. destruct (unwrap sh) as [w c] eqn:E. cbn [fst snd rewrap] in *.
      destruct fuel as [|f]; [cbn [shape_size] in Hf; lia|]. cbn [shape_size] in Hf.
      rewrite sde_opt, IHsh; [apply ret_bind | lia | now apply omap_unfit in Hne].
    - cbn [unwrap] in *. destruct (unwrap sh) as [w c] eqn:E. cbn [fst snd rewrap] in *.
      destruct fuel as [|f]; [cbn [shape_size] in Hf; lia|]. cbn [shape_size] in Hf.
      destruct o as [op|]; [|now destruct Hne]. cbn [op_or_equal].
      rewrite sde_prop. pose proof (IHsh None f) as IH. cbn [op_or_equal] in IH.
      rewrite IH; [apply ret_bind | lia | now apply omap_unfit in Hne].
  Qed.

  (* ---------------------------------------------------------------- the walk over a document *)
  Definition full_sv (v : value) : Prop :=
    forall tk more, rtoks_value v = tk :: more -> forall rest e sh o fuel,
      cv v + shape_size sh <= fuel -> spec_v v sh o <> Err EC_UNFIT ->
      sde fuel sh tk (op_or_equal o) (more ++ rest, e) = ret (rest, e) (spec_v v sh o).
  Definition SPv (v : value) : Prop := core_value v = true -> full_sv v.
  Definition SPf (f : TextDoc.field) : Prop :=
    match f with Field _ _ _ v => core_value v = true -> full_sv v | _ => True end.
  (* the loop ends at the container's Close, or (root) at the clean end of input *)
  Definition end_ok (root : bool) (tail : list TextReader.rtok) (e : option N) (r' : ltoks) : Prop :=
    (exists rest, tail = RClose :: rest /\ r' = (rest, e)) \/ (tail = [] /\ root = true /\ e = None /\ r' = ([], None)).
  Definition SPfs (fs : fields) : Prop :=
    core_fields fs = true -> forall root tail e r', end_ok root tail e r' ->
    forall m a fuel, m_core m = true -> cfs fs + wm_size m <= fuel ->
    spec_fields fs m a <> Err EC_UNFIT ->
    swalk fuel root m a (rtoks_fields fs ++ tail, e) = ret r' (spec_fields fs m a).
  Definition SPvs (vs : values) : Prop :=
    core_values vs = true -> forall rest e,
    (forall s fuel, cvs vs + shape_size s <= fuel -> spec_items vs s <> Err EC_UNFIT ->
       sseq_all fuel s (rtoks_values vs ++ RClose :: rest, e) = ret (rest, e) (spec_items vs s)) /\
    (forall ss fuel, cvs vs + shape_size (ShTup ss) <= fuel -> spec_tuple vs ss <> Err EC_UNFIT ->
       sseq_tup fuel ss (rtoks_values vs ++ RClose :: rest, e) = ret (RClose :: rest, e) (spec_tuple vs ss)).

  Lemma swrap_core v B :
    (forall tk more, rtoks_value v = tk :: more -> forall rest e c op fuel, is_wrapper c = false -> B + shape_size c <= fuel ->
       spec_core v c <> Err EC_UNFIT -> sde fuel c tk op (more ++ rest, e) = ret (rest, e) (spec_core v c)) ->
    B = cv v -> full_sv v.
  Proof.
    intros H -> tk more Ht rest e sh o fuel Hf Hne. rewrite (spec_v_eq decode pf F) in *.
    apply (sde_wrappers tk (more ++ rest, e) (rest, e) (spec_core v) (cv v)); auto.
  Qed.

  Lemma rhead v : core_value v = true ->
    exists tk more, rtoks_value v = tk :: more /\ (tk = ROpen \/ exists k s, tk = scalar_rtok k s).
  Proof.
    destruct v as [k s | fs tl | items | |]; try discriminate; intros _; cbn [rtoks_value]; eexists _, _; split; try reflexivity.
    - right. now exists k, s.
    - now left.
    - now left.
  Qed.

  Lemma ret_bind2 {A B} r (x : outcome A) (g : A -> outcome B) :
    (do ar <- ret r x; let '(a, r') := ar in do b <- g a; Ok (b, r')) = ret r (do a <- x; g a).
  Proof. destruct x; reflexivity. Qed.

  Lemma scase_scalar k s : SPv (VScalar k s).
  Proof.
    intros _. apply (swrap_core _ 1); [|reflexivity].
    intros tk more Ht rest e c op fuel Hw Hf Hne. cbn [rtoks_value] in Ht. injection Ht as <- <-.
    destruct fuel as [|f]; [lia|]. cbn [app].
    assert (Hs : spec_scalar c s <> Err EC_UNFIT).
    { unfold TextDeTapeProofs.spec_core in Hne. destruct c; try exact Hne; discriminate. }
    rewrite (sde_scalar k s c op (rest, e) f Hw Hs). unfold TextDeTapeProofs.spec_core. now destruct c.
  Qed.

  Lemma sde_ign_open f op body rest e :
    l_skip_depth (body ++ RClose :: rest) 0 = Some rest ->
    sde (S f) ShIgn ROpen op (body ++ RClose :: rest, e) = ret (rest, e) (Ok DIgn).
  Proof.
    intros H. rewrite sde_skip by reflexivity. unfold l_skip. cbn [fst snd]. rewrite H. reflexivity.
  Qed.

  Lemma scase_object fs tl : SPfs fs -> SPvs tl -> SPv (VObject fs tl).
  Proof.
    intros Hfs _ Hc. destruct tl; [|discriminate]. cbn [core_value] in Hc.
    apply (swrap_core _ (cv (VObject fs VNil))); [|reflexivity].
    intros tk more Ht rest e c op fuel Hw Hf Hne.
    cbn [rtoks_value rtoks_values app] in Ht. injection Ht as <- <-.
    destruct fuel as [|f]; [cbn [cv] in Hf; lia|].
    rewrite <- app_assoc. cbn [app].
    assert (Hskip : l_skip_depth (rtoks_fields fs ++ RClose :: rest) 0 = Some rest).
    { rewrite (proj1 (proj2 (proj2 skip_bal)) fs Hc). reflexivity. }
    assert (Hend : end_ok false (RClose :: rest) e (rest, e)) by (left; now exists rest).
    unfold TextDeTapeProofs.spec_core in *.
    destruct c; try discriminate Hw; try (now destruct Hne); try (now apply sde_ign_open).
    - cbn [wmode_core] in *. rewrite (sde_map f _ op _ (WMap c)); [|now left|reflexivity].
      rewrite (Hfs Hc false _ e _ Hend (WMap c) (acc0 (WMap c)) f eq_refl).
      + apply ret_bind2.
      + cbn [cv shape_size wm_size] in *. lia.
      + intros E. rewrite E in Hne. now apply Hne.
    - cbn [wmode_core] in *. rewrite (sde_map f _ op _ (WStruct token fields)); [|now right|reflexivity].
      rewrite (Hfs Hc false _ e _ Hend (WStruct token fields) (acc0 (WStruct token fields)) f eq_refl).
      + apply ret_bind2.
      + cbn [cv wm_size] in *. lia.
      + intros E. rewrite E in Hne. now apply Hne.
  Qed.

  Lemma scase_array items : SPvs items -> SPv (VArray items).
  Proof.
    intros Hvs Hc. cbn [core_value] in Hc.
    apply (swrap_core _ (cv (VArray items))); [|reflexivity].
    intros tk more Ht rest e c op fuel Hw Hf Hne.
    cbn [rtoks_value] in Ht. injection Ht as <- <-.
    destruct fuel as [|f]; [cbn [cv] in Hf; lia|].
    rewrite <- app_assoc. cbn [app].
    assert (Hskip : l_skip_depth (rtoks_values items ++ RClose :: rest) 0 = Some rest).
    { rewrite (proj2 (proj2 (proj2 skip_bal)) items Hc). reflexivity. }
    destruct (Hvs Hc rest e) as [Hall Htup].
    unfold TextDeTapeProofs.spec_core in *.
    destruct c; try discriminate Hw; try (now destruct Hne); try (now apply sde_ign_open).
    - rewrite sde_seq, Hall; [apply ret_bind | cbn [cv shape_size] in *; lia | now apply omap_unfit in Hne].
    - rewrite sde_tup, Htup; [| cbn [cv] in *; lia | now apply omap_unfit in Hne].
      destruct (spec_tuple items ss); reflexivity.
  Qed.

  Lemma scase_fnil : SPfs FNil.
  Proof.
    intros _ root tail e r' Hend m a fuel Hm Hf Hne. cbn [rtoks_fields app].
    destruct fuel as [|f]; [cbn [cfs] in Hf; lia|].
    rewrite swalk_eq. destruct Hend as [(rest & -> & ->) | (-> & -> & -> & ->)]; reflexivity.
  Qed.

  Lemma scase_fcons f fs : SPf f -> SPfs fs -> SPfs (FCons f fs).
  Proof.
    intros Hf Hfs Hc root tail e r' Hend m a fuel Hm Hfu Hne.
    cbn [core_fields] in Hc. apply andb_prop in Hc as [Hcf Hcfs].
    destruct f as [k key op v| |]; try discriminate. cbn [core_field] in Hcf. cbn [SPf] in Hf.
    specialize (Hf Hcf).
    destruct fuel as [|fu]; [cbn [cfs] in Hfu; lia|].
    cbn [cfs cf] in Hfu.
    destruct (rhead v Hcf) as (tk & more & Ev & Htk).
    cbn [rtoks_fields rtoks_field]. rewrite Ev. rewrite <- app_assoc. rewrite (spec_fields_cons decode pf F) in *.
    set (rec2 := fun sh' (_ _ : unit) => omap (fun d => (d, tt)) (spec_v v sh' (Some (op_or_equal op)))) in *.
    set (s1' := (rtoks_fields fs ++ tail, e)).
    set (r1 := ((match op with Some o => [ROp o] | None => [] end ++ tk :: more) ++ rtoks_fields fs ++ tail, e)).
    assert (Hnext : l_next ((scalar_rtok k key :: match op with Some o => [ROp o] | None => [] end ++ tk :: more) ++ rtoks_fields fs ++ tail, e)
                    = Ok (Some (scalar_rtok k key), r1)) by reflexivity.
    rewrite swalk_eq, Hnext. cbn [obind].
    assert (Hent : entry (srec fu) srec_op m a (cow_bytes (decode key)) (is_ok (to_u64 key)) tt r1
                 = (do r <- entry rec2 (fun _ _ => Err EC_UNFIT) m a (cow_bytes (decode key)) (is_ok (to_u64 key)) tt tt;
                    Ok (fst r, s1'))).
    { apply entry_ext_s; auto.
      - intros sh' Hs Hn. unfold rec2 in *. apply omap_unfit in Hn.
        assert (Hfuel : cv v + shape_size sh' <= fu).
        { pose proof (wm_size_pos m). destruct Hs as [-> | Hs]; cbn [shape_size]; lia. }
        pose proof (Hf tk more Ev (rtoks_fields fs ++ tail) e sh' (Some (op_or_equal op)) fu Hfuel Hn) as Hd.
        cbn [op_or_equal] in Hd.
        unfold srec, svalue, r1.
        destruct op as [o|]; cbn [app op_or_equal] in *.
        + change (l_read (ROp o :: tk :: more ++ rtoks_fields fs ++ tail, e))
            with (Ok (ROp o, (tk :: more ++ rtoks_fields fs ++ tail, e)) : outcome (TextReader.rtok * ltoks)).
          cbn [obind]. rewrite rread_cons. cbn [obind]. rewrite Hd.
          unfold ret. destruct (spec_v v sh' (Some o)); reflexivity.
        + change (l_read (tk :: more ++ rtoks_fields fs ++ tail, e))
            with (Ok (tk, (more ++ rtoks_fields fs ++ tail, e)) : outcome (TextReader.rtok * ltoks)).
          cbn [obind].
          assert (Hm2 : forall (A : Type) (x : operator -> A) (y : A), match tk with ROp o => x o | _ => y end = y).
          { intros. destruct Htk as [-> | (k' & s' & ->)]; [reflexivity | now destruct k']. }
          rewrite Hm2, Hd. unfold ret. destruct (spec_v v sh' (Some Equal)); reflexivity.
      - intros E. rewrite E in Hne. now apply Hne. }
    assert (Hk : forall (A : Type) (x y : A) (z : TextReader.rtok -> A),
               match scalar_rtok k key with RClose => x | ROpen => y | tk0 => z tk0 end = z (scalar_rtok k key))
      by (intros; now destruct k).
    assert (Hki : TextDeStream.key_info decode (scalar_rtok k key) = (cow_bytes (decode key), is_ok (to_u64 key)))
      by now destruct k.
    destruct k; cbn [scalar_rtok] in *; rewrite Hki; rewrite Hent;
      (destruct (entry rec2 _ m a _ _ tt tt) as [r| | | |] eqn:Er; cbn [obind] in *; try reflexivity;
       apply Hfs; auto; lia).
  Qed.

  Lemma scase_vnil : SPvs VNil.
  Proof.
    intros _ rest e. cbn [rtoks_values app]. split.
    - intros s fuel Hf _. destruct fuel as [|f]; [cbn [cvs] in Hf; lia|]. reflexivity.
    - intros ss fuel Hf _. destruct fuel as [|f]; [cbn [cvs] in Hf; lia|]. rewrite sseq_tup_eq. now destruct ss.
  Qed.

  Lemma scase_vcons v vs : SPv v -> SPvs vs -> SPvs (VCons v vs).
  Proof.
    intros Hv Hvs Hc rest e.
    cbn [core_values] in Hc. apply andb_prop in Hc as [Hcv Hcvs].
    specialize (Hv Hcv). destruct (Hvs Hcvs rest e) as [Hall Htup].
    destruct (rhead v Hcv) as (tk & more & Ev & Htk).
    cbn [rtoks_values]. rewrite Ev. rewrite <- app_assoc. rewrite <- app_comm_cons.
    assert (Hm2 : forall (A : Type) (x y : A), match tk with RClose => x | _ => y end = y).
    { intros. destruct Htk as [-> | (k' & s' & ->)]; [reflexivity | now destruct k']. }
    split.
    - intros s fuel Hf Hne. destruct fuel as [|f]; [cbn [cvs] in Hf; lia|].
      rewrite sseq_all_eq, rread_cons. cbn [obind]. rewrite Hm2.
      rewrite (spec_items_cons decode pf F) in *.
      pose proof (Hv tk more Ev (rtoks_values vs ++ RClose :: rest) e s None f) as Hd. cbn [op_or_equal] in Hd.
      rewrite Hd; [|cbn [cvs] in Hf; lia|intros E; rewrite E in Hne; now apply Hne].
      destruct (spec_v v s None) as [x| | | |]; cbn [obind ret omap] in *; try reflexivity.
      rewrite Hall; [|cbn [cvs] in Hf; lia|intros E; rewrite E in Hne; now apply Hne].
      destruct (spec_items vs s); reflexivity.
    - intros ss fuel Hf Hne. destruct fuel as [|f]; [cbn [cvs] in Hf; lia|].
      rewrite sseq_tup_eq. rewrite (spec_tuple_cons decode pf F) in *.
      destruct ss as [|s ss']; [now destruct Hne|].
      rewrite rread_cons. cbn [obind]. rewrite Hm2.
      cbn [shape_size fold_right] in Hf.
      pose proof (Hv tk more Ev (rtoks_values vs ++ RClose :: rest) e s None f) as Hd. cbn [op_or_equal] in Hd.
      rewrite Hd; [|cbn [cvs] in Hf; lia|intros E; rewrite E in Hne; now apply Hne].
      destruct (spec_v v s None) as [x| | | |]; cbn [obind ret omap] in *; try reflexivity.
      rewrite Htup; [|cbn [cvs shape_size] in *; lia|intros E; rewrite E in Hne; now apply Hne].
      destruct (spec_tuple vs ss'); reflexivity.
  Qed.

  Lemma swalk_all : (forall v, SPv v) /\ (forall f, SPf f) /\ (forall fs, SPfs fs) /\ (forall vs, SPvs vs).
  Proof.
    apply doc_mutind.
    - apply scase_scalar.
    - intros fs Hfs tl Htl. now apply scase_object.
    - apply scase_array.
    - intros; intros Hc; discriminate.
    - intros; intros Hc; discriminate.
    - intros k key op v H. exact H.
    - intros; exact I.
    - intros; exact I.
    - apply scase_fnil.
    - intros f Hf fs Hfs. now apply scase_fcons.
    - apply scase_vnil.
    - intros v Hv vs Hvs. now apply scase_vcons.
  Qed.
End StreamMain.

(* ------------------------------------------------------------------ root and default fuel *)
Lemma rtoks_len :
  (forall v, core_value v = true -> vlen v <= length (rtoks_value v)) /\
  (forall f, match f with Field _ _ _ v => core_value v = true -> vlen v <= length (rtoks_value v) | _ => True end) /\
  (forall fs, core_fields fs = true -> fslen false fs <= length (rtoks_fields fs)) /\
  (forall vs, core_values vs = true -> vslen vs <= length (rtoks_values vs)).
Proof.
  apply doc_mutind.
  - intros k s _. unfold vlen. cbn. lia.
  - intros fs Hfs tl _ Hc. destruct tl; [|discriminate]. cbn [core_value] in Hc.
    specialize (Hfs Hc). rewrite vlen_object. cbn [rtoks_value rtoks_values length]. rewrite !app_length. cbn [length]. lia.
  - intros items Hvs Hc. cbn [core_value] in Hc. specialize (Hvs Hc). rewrite vlen_array.
    cbn [rtoks_value length]. rewrite !app_length. cbn [length]. lia.
  - intros; discriminate.
  - intros; discriminate.
  - intros k key op v H. exact H.
  - intros; exact I.
  - intros; exact I.
  - intros _. unfold fslen. cbn. lia.
  - intros f Hf fs Hfs Hc. cbn [core_fields] in Hc. apply andb_prop in Hc as [H1 H2].
    destruct f as [k key op v| |]; try discriminate. cbn [core_field] in H1.
    specialize (Hf H1). specialize (Hfs H2). rewrite fslen_cons.
    cbn [rtoks_fields rtoks_field length]. rewrite !app_length. cbn [length].
    assert (length (op_toks false op) <= length (match op with Some o => [ROp o] | None => [] end))
      by (destruct op as [[]|]; cbn; lia).
    rewrite app_length. lia.
  - intros _. unfold vslen. cbn. lia.
  - intros v Hv vs Hvs Hc. cbn [core_values] in Hc. apply andb_prop in Hc as [H1 H2].
    specialize (Hv H1). specialize (Hvs H2). rewrite vslen_cons. cbn [rtoks_values]. rewrite app_length. lia.
Qed.

Theorem stream_path_spec_core decode pf F sh d :
  core_fields d = true -> fits decode pf F sh d ->
  deser_stream decode pf F sh (tokens d) = spec_value decode pf F sh d.
Proof.
  intros Hc Hfit. unfold fits in Hfit. unfold deser_stream, tokens, sde_root. cbn [fst].
  pose proof (proj1 (proj2 (proj2 (swalk_all decode pf F))) d Hc true [] None ([], None)) as H.
  rewrite app_nil_r in H.
  assert (Hend : end_ok true [] None ([], None)) by (right; auto).
  specialize (H Hend).
  pose proof (proj1 (proj2 (proj2 cost_bound)) d Hc) as Hb.
  pose proof (proj1 (proj2 (proj2 rtoks_len)) d Hc) as Hl.
  unfold spec_value in *.
  destruct sh; try (now destruct Hfit); cbn [thint_of wmode_of wmode_core] in *.
  - rewrite H; auto.
    + destruct (spec_fields decode pf F d (WMap sh) (acc0 (WMap sh))); reflexivity.
    + unfold stream_fuel. cbn [wm_size shape_size]. lia.
    + intros E. rewrite E in Hfit. now apply Hfit.
  - rewrite H; auto.
    + destruct (spec_fields decode pf F d (WStruct token fields) (acc0 (WStruct token fields))); reflexivity.
    + unfold stream_fuel. cbn [wm_size]. lia.
    + intros E. rewrite E in Hfit. now apply Hfit.
Qed.

Theorem paths_agree_core decode pf F sh d :
  core_fields d = true -> fits decode pf F sh d ->
  deser_tape decode pf F sh (flatten d) = deser_stream decode pf F sh (tokens d).
Proof. intros Hc Hf. now rewrite tape_path_spec_core, stream_path_spec_core. Qed.
