(* Token::write followed by read_token: round trip (C08), dispatch and inversion lemmas of
   read_token used by the skip proofs (C09). *)
From JV Require Import Bytes Tables BinPrim BinLexer.
From JV.proofs Require Import BinLexProofs.
From Coq Require Import List NArith ZArith Bool Lia Arith.
Import ListNotations.
Open Scope nat_scope.

(* ---------- little-endian words ---------- *)
Lemma word_bytes_length n w : length (word_bytes n w) = n.
Proof. revert w. induction n; intros w; cbn [word_bytes length]; [reflexivity|]. rewrite IHn. reflexivity. Qed.

Lemma le_word_wb n w r : (w < 256 ^ N.of_nat n)%N -> le_word n (word_bytes n w ++ r) = w.
Proof.
  revert w. induction n; intros w H.
  - cbn in H. cbn [word_bytes le_word app]. lia.
  - cbn [word_bytes le_word app]. rewrite IHn.
    + pose proof (N.div_mod w 256 ltac:(lia)). lia.
    + rewrite Nat2N.inj_succ, N.pow_succ_r' in H. apply N.div_lt_upper_bound; lia.
Qed.

Lemma get_split_wb n w r : get_split n (word_bytes n w ++ r) = Some (word_bytes n w, r).
Proof.
  replace r with ([] ++ r) at 2 by reflexivity.
  apply get_split_app. apply get_split_exact. apply word_bytes_length.
Qed.

Lemma le_word_wb0 n w : (w < 256 ^ N.of_nat n)%N -> le_word n (word_bytes n w) = w.
Proof. intros H. rewrite <- (app_nil_r (word_bytes n w)). apply le_word_wb. assumption. Qed.

Lemma read_id_w16 x r : (x < 65536)%N -> read_id (w16 x ++ r) = Ok (x, r).
Proof.
  intros H. unfold read_id, w16. rewrite N.mod_small by assumption. rewrite get_split_wb.
  rewrite le_word_wb0; [reflexivity|]. exact H.
Qed.

Lemma read_u32_w32 x r : (x < 4294967296)%N -> read_u32 (w32 x ++ r) = Ok (x, r).
Proof.
  intros H. unfold read_u32, w32. rewrite N.mod_small by assumption. rewrite get_split_wb.
  rewrite le_word_wb0; [reflexivity|]. exact H.
Qed.

Lemma read_u64_w64 x r : (x < 18446744073709551616)%N -> read_u64 (w64b x ++ r) = Ok (x, r).
Proof.
  intros H. unfold read_u64, w64b. rewrite N.mod_small by assumption. rewrite get_split_wb.
  rewrite le_word_wb0; [reflexivity|]. exact H.
Qed.

Lemma of_signed_lt bits z : (of_signed bits z < 2 ^ bits)%N.
Proof.
  unfold of_signed. assert (0 < 2 ^ bits)%N by (apply N.neq_0_lt_0, N.pow_nonzero; lia).
  pose proof (Z.mod_pos_bound z (Z.of_N (2 ^ bits)) ltac:(lia)). lia.
Qed.

Lemma to_of_signed bits z : (0 < bits)%N ->
  (- Z.of_N (2 ^ (bits - 1)) <= z < Z.of_N (2 ^ (bits - 1)))%Z -> to_signed bits (of_signed bits z) = z.
Proof.
  intros Hb H. unfold to_signed, of_signed.
  assert (E : (2 ^ bits = 2 * 2 ^ (bits - 1))%N).
  { rewrite <- N.pow_succ_r'. f_equal. lia. }
  set (h := (2 ^ (bits - 1))%N) in *. rewrite E.
  assert (0 < h)%N by (apply N.neq_0_lt_0, N.pow_nonzero; lia).
  destruct (Z_lt_le_dec z 0) as [Hn|Hp].
  - replace (z mod Z.of_N (2 * h))%Z with (z + Z.of_N (2 * h))%Z.
    + destruct (N.ltb_spec (Z.to_N (z + Z.of_N (2 * h))) h); lia.
    + symmetry. rewrite <- (Z.mod_add z 1 (Z.of_N (2 * h))) by lia. rewrite Z.mul_1_l. apply Z.mod_small. lia.
  - rewrite Z.mod_small by lia. destruct (N.ltb_spec (Z.to_N z) h); lia.
Qed.

Lemma read_i32_w32 z r : (-2147483648 <= z < 2147483648)%Z -> read_i32 (w32 (of_signed 32 z) ++ r) = Ok (z, r).
Proof.
  intros H. unfold read_i32, w32. pose proof (of_signed_lt 32 z) as L. change (2 ^ 32)%N with 4294967296%N in L.
  rewrite N.mod_small by assumption. rewrite get_split_wb. rewrite le_word_wb0 by exact L.
  rewrite to_of_signed; [reflexivity | lia | exact H].
Qed.

Lemma read_i64_w64 z r : (-9223372036854775808 <= z < 9223372036854775808)%Z ->
  read_i64 (w64b (of_signed 64 z) ++ r) = Ok (z, r).
Proof.
  intros H. unfold read_i64, w64b. pose proof (of_signed_lt 64 z) as L.
  change (2 ^ 64)%N with 18446744073709551616%N in L.
  rewrite N.mod_small by assumption. rewrite get_split_wb. rewrite le_word_wb0 by exact L.
  rewrite to_of_signed; [reflexivity | lia | exact H].
Qed.

Lemma read_fixed_exact n (x r : bytes) : length x = n -> get_split n (x ++ r) = Some (x, r).
Proof. intros H. replace r with ([] ++ r) at 2 by reflexivity. apply get_split_app, get_split_exact, H. Qed.

Lemma read_string_w (s r : bytes) : (lenN s < 65536)%N -> read_string (w16 (lenN s) ++ s ++ r) = Ok (s, r).
Proof.
  intros H. unfold read_string, w16. rewrite N.mod_small by exact H. rewrite get_split_wb.
  rewrite le_word_wb0 by exact H. unfold lenN.
  rewrite Nat2N.id, app_length. replace (Nat.leb (length s) (length s + length r)) with true
    by (symmetry; apply Nat.leb_le; lia).
  rewrite firstn_app, skipn_app, firstn_all, skipn_all, Nat.sub_diag. cbn [firstn skipn app].
  rewrite app_nil_r. reflexivity.
Qed.

(* ---------- dispatch of read_token on the id ---------- *)
Ltac dispatch H := unfold read_token; rewrite H; cbn [obind]; reflexivity.
Lemma rt_open d d1 : read_id d = Ok (L_OPEN, d1) -> read_token d = Ok (BOpen, d1). Proof. intros H; dispatch H. Qed.
Lemma rt_close d d1 : read_id d = Ok (L_CLOSE, d1) -> read_token d = Ok (BClose, d1). Proof. intros H; dispatch H. Qed.
Lemma rt_equal d d1 : read_id d = Ok (L_EQUAL, d1) -> read_token d = Ok (BEqual, d1). Proof. intros H; dispatch H. Qed.
Lemma rt_u32 d d1 : read_id d = Ok (L_U32, d1) -> read_token d = omap (fun p => (BU32 (fst p), snd p)) (read_u32 d1).
Proof. intros H; dispatch H. Qed.
Lemma rt_u64 d d1 : read_id d = Ok (L_U64, d1) -> read_token d = omap (fun p => (BU64 (fst p), snd p)) (read_u64 d1).
Proof. intros H; dispatch H. Qed.
Lemma rt_i32 d d1 : read_id d = Ok (L_I32, d1) -> read_token d = omap (fun p => (BI32 (fst p), snd p)) (read_i32 d1).
Proof. intros H; dispatch H. Qed.
Lemma rt_bool d d1 : read_id d = Ok (L_BOOL, d1) -> read_token d = omap (fun p => (BBool (fst p), snd p)) (read_bool d1).
Proof. intros H; dispatch H. Qed.
Lemma rt_quoted d d1 : read_id d = Ok (L_QUOTED, d1) -> read_token d = omap (fun p => (BQuoted (fst p), snd p)) (read_string d1).
Proof. intros H; dispatch H. Qed.
Lemma rt_unquoted d d1 : read_id d = Ok (L_UNQUOTED, d1) -> read_token d = omap (fun p => (BUnquoted (fst p), snd p)) (read_string d1).
Proof. intros H; dispatch H. Qed.
Lemma rt_f32 d d1 : read_id d = Ok (L_F32, d1) -> read_token d = omap (fun p => (BF32 (fst p), snd p)) (read_f32 d1).
Proof. intros H; dispatch H. Qed.
Lemma rt_f64 d d1 : read_id d = Ok (L_F64, d1) -> read_token d = omap (fun p => (BF64 (fst p), snd p)) (read_f64 d1).
Proof. intros H; dispatch H. Qed.
Lemma rt_rgb d d1 : read_id d = Ok (L_RGB, d1) -> read_token d = omap (fun p => (BRgb (fst p), snd p)) (read_rgb d1).
Proof. intros H; dispatch H. Qed.
Lemma rt_i64 d d1 : read_id d = Ok (L_I64, d1) -> read_token d = omap (fun p => (BI64 (fst p), snd p)) (read_i64 d1).
Proof. intros H; dispatch H. Qed.

Lemma is_id_false_all x : is_id x = true ->
  (x =? L_OPEN)%N = false /\ (x =? L_CLOSE)%N = false /\ (x =? L_EQUAL)%N = false /\ (x =? L_U32)%N = false /\
  (x =? L_U64)%N = false /\ (x =? L_I32)%N = false /\ (x =? L_BOOL)%N = false /\ (x =? L_QUOTED)%N = false /\
  (x =? L_UNQUOTED)%N = false /\ (x =? L_F32)%N = false /\ (x =? L_F64)%N = false /\ (x =? L_RGB)%N = false /\
  (x =? L_I64)%N = false.
Proof.
  unfold is_id. intros H. apply negb_true_iff in H.
  repeat (apply orb_false_iff in H; destruct H as [H ?]). repeat split; assumption.
Qed.

Lemma rt_id d x d1 : is_id x = true -> read_id d = Ok (x, d1) -> read_token d = Ok (BId x, d1).
Proof.
  intros Hi H. apply is_id_false_all in Hi.
  destruct Hi as (E1&E2&E3&E4&E5&E6&E7&E8&E9&E10&E11&E12&E13).
  unfold read_token. rewrite H. cbn [obind].
  rewrite E1, E2, E3, E4, E5, E6, E7, E8, E9, E10, E11, E12, E13. reflexivity.
Qed.

(* ---------- well-formed tokens and the per-token round trip ---------- *)
Definition u32_ok (x : N) : Prop := (x < 4294967296)%N.
Definition wf_rgb (c : rgb) : Prop :=
  u32_ok (rgb_r c) /\ u32_ok (rgb_g c) /\ u32_ok (rgb_b c) /\
  match rgb_a c with Some a => u32_ok a | None => True end.
Definition wf_tok (t : btoken) : Prop :=
  match t with
  | BOpen | BClose | BEqual | BBool _ => True
  | BU32 x => u32_ok x
  | BU64 x => (x < 18446744073709551616)%N
  | BI32 x => (-2147483648 <= x < 2147483648)%Z
  | BI64 x => (-9223372036854775808 <= x < 9223372036854775808)%Z
  | BQuoted s | BUnquoted s => (lenN s < 65536)%N
  | BF32 x => length x = 4
  | BF64 x => length x = 8
  | BRgb c => wf_rgb c
  | BId x => is_id x = true /\ (x < 65536)%N
  end.

Lemma read_write_u32 x r : u32_ok x -> read_id (write_u32 x ++ r) = Ok (L_U32, w32 x ++ r).
Proof. intros _. unfold write_u32. rewrite <- app_assoc. apply read_id_w16. reflexivity. Qed.

Lemma read_rgb_write c r : wf_rgb c ->
  read_rgb (w16 L_OPEN ++ write_u32 (rgb_r c) ++ write_u32 (rgb_g c) ++ write_u32 (rgb_b c)
            ++ (match rgb_a c with Some a => write_u32 a | None => [] end) ++ w16 L_CLOSE ++ r) = Ok (c, r).
Proof.
  destruct c as [cr cg cb ca]. unfold wf_rgb. cbn [rgb_r rgb_g rgb_b rgb_a]. intros (Hr & Hg & Hb & Ha).
  unfold read_rgb.
  rewrite read_id_w16 by reflexivity. cbn [obind].
  unfold write_u32. rewrite <- !app_assoc.
  rewrite read_id_w16 by reflexivity. cbn [obind]. rewrite read_u32_w32 by assumption. cbn [obind].
  rewrite read_id_w16 by reflexivity. cbn [obind]. rewrite read_u32_w32 by assumption. cbn [obind].
  rewrite read_id_w16 by reflexivity. cbn [obind]. rewrite read_u32_w32 by assumption. cbn [obind].
  destruct ca as [a|].
  - rewrite <- !app_assoc. rewrite read_id_w16 by reflexivity. cbn [obind].
    rewrite read_u32_w32 by assumption. cbn [obind].
    rewrite read_id_w16 by reflexivity. cbn [obind]. reflexivity.
  - cbn [app]. rewrite read_id_w16 by reflexivity. cbn [obind]. reflexivity.
Qed.

Theorem read_write_token t rest : wf_tok t -> read_token (write_token t ++ rest) = Ok (t, rest).
Proof.
  destruct t; cbn [wf_tok write_token]; intros H.
  - apply rt_open, read_id_w16; reflexivity.
  - apply rt_close, read_id_w16; reflexivity.
  - apply rt_equal, read_id_w16; reflexivity.
  - rewrite (rt_u32 _ _ (read_write_u32 x rest H)). rewrite read_u32_w32 by exact H. reflexivity.
  - rewrite <- app_assoc. rewrite (rt_u64 _ _ (read_id_w16 L_U64 _ eq_refl)).
    rewrite read_u64_w64 by exact H. reflexivity.
  - rewrite <- app_assoc. rewrite (rt_i32 _ _ (read_id_w16 L_I32 _ eq_refl)).
    rewrite read_i32_w32 by exact H. reflexivity.
  - rewrite <- app_assoc. rewrite (rt_bool _ _ (read_id_w16 L_BOOL _ eq_refl)).
    destruct x; reflexivity.
  - rewrite <- !app_assoc. rewrite (rt_quoted _ _ (read_id_w16 L_QUOTED _ eq_refl)).
    rewrite read_string_w by exact H. reflexivity.
  - rewrite <- !app_assoc. rewrite (rt_unquoted _ _ (read_id_w16 L_UNQUOTED _ eq_refl)).
    rewrite read_string_w by exact H. reflexivity.
  - rewrite <- app_assoc. rewrite (rt_f32 _ _ (read_id_w16 L_F32 _ eq_refl)).
    unfold read_f32. rewrite (read_fixed_exact 4 x rest H). reflexivity.
  - rewrite <- app_assoc. rewrite (rt_f64 _ _ (read_id_w16 L_F64 _ eq_refl)).
    unfold read_f64. rewrite (read_fixed_exact 8 x rest H). reflexivity.
  - rewrite <- !app_assoc. rewrite (rt_rgb _ _ (read_id_w16 L_RGB _ eq_refl)).
    rewrite read_rgb_write by exact H. reflexivity.
  - rewrite <- app_assoc. rewrite (rt_i64 _ _ (read_id_w16 L_I64 _ eq_refl)).
    rewrite read_i64_w64 by exact H. reflexivity.
  - destruct H as [Hi Hx]. apply (rt_id _ x rest Hi). apply read_id_w16. exact Hx.
Qed.

(* ---------- whole sequences ---------- *)
Lemma write_token_len t : 2 <= length (write_token t).
Proof.
  assert (W : forall x, length (w16 x) = 2) by (intros; apply word_bytes_length).
  destruct t; cbn [write_token]; unfold write_u32; rewrite ?app_length, ?W; lia.
Qed.

Lemma concat_write_len ts : 2 * length ts <= length (concat (map write_token ts)).
Proof.
  induction ts as [|t ts IH]; cbn [map concat length]; [lia|].
  rewrite app_length. pose proof (write_token_len t). lia.
Qed.

Lemma lex_run_write ts : forall fuel orig,
  Forall wf_tok ts -> length ts < fuel ->
  lex_run fuel (mklx (concat (map write_token ts)) orig) = (ts, (Ok tt, orig)).
Proof.
  induction ts as [|t ts IH]; intros fuel orig Hwf Hf; destruct fuel as [|fuel]; try (cbn in Hf; lia).
  - cbn [map concat lex_run lx_next_token lx_next_of lx_data lx_orig]. cbn.
    unfold lx_position. cbn [lx_data lx_orig length]. rewrite Nat.sub_0_r. reflexivity.
  - inversion Hwf; subst. cbn [map concat lex_run].
    unfold lx_next_token, lx_next_of. cbn [lx_data lx_orig].
    rewrite read_write_token by assumption.
    rewrite IH; [reflexivity | assumption | cbn [length] in Hf; lia].
Qed.

Theorem roundtrip_run ts :
  Forall wf_tok ts ->
  run_lexer (concat (map write_token ts)) = (ts, (Ok tt, length (concat (map write_token ts)))).
Proof.
  intros H. unfold run_lexer, lx_new. apply lex_run_write; [assumption|].
  pose proof (concat_write_len ts). lia.
Qed.

Lemma lex_all_write ts : forall fuel,
  Forall wf_tok ts -> length ts < fuel -> lex_all_fuel fuel (concat (map write_token ts)) = Some ts.
Proof.
  induction ts as [|t ts IH]; intros fuel Hwf Hf; destruct fuel as [|fuel]; try (cbn in Hf; lia).
  - reflexivity.
  - inversion Hwf; subst. cbn [map concat lex_all_fuel].
    destruct (write_token t ++ concat (map write_token ts)) eqn:E.
    + pose proof (write_token_len t) as L. apply (f_equal (@length N)) in E. rewrite app_length in E. cbn in E. lia.
    + rewrite <- E. rewrite read_write_token by assumption.
      rewrite IH; [reflexivity | assumption | cbn [length] in Hf; lia].
Qed.

Theorem roundtrip ts : Forall wf_tok ts -> lex_all (concat (map write_token ts)) = Some ts.
Proof.
  intros H. unfold lex_all. apply lex_all_write; [assumption|]. pose proof (concat_write_len ts). lia.
Qed.

(* why the guards are needed (definitional, not findings) *)
Lemma roundtrip_refuted_reserved_id : exists t rest, read_token (write_token t ++ rest) <> Ok (t, rest).
Proof. exists (BId L_OPEN), []. vm_compute. discriminate. Qed.

(* `len as u16`: a string of exactly 2^16 bytes is written with length 0 and read back as the empty
   string followed by its own bytes *)
Lemma roundtrip_refuted_long_string s rest :
  lenN s = 65536%N -> read_token (write_token (BQuoted s) ++ rest) = Ok (BQuoted [], s ++ rest).
Proof.
  intros H. cbn [write_token]. rewrite <- !app_assoc.
  rewrite (rt_quoted _ _ (read_id_w16 L_QUOTED _ eq_refl)). rewrite H.
  change (w16 65536%N) with [0%N; 0%N]. reflexivity.
Qed.

(* ---------- inversion of read_token ---------- *)
Definition tok_shape (t : btoken) (id : N) (d1 r : bytes) : Prop :=
  match t with
  | BOpen => id = L_OPEN /\ r = d1
  | BClose => id = L_CLOSE /\ r = d1
  | BEqual => id = L_EQUAL /\ r = d1
  | BU32 x => id = L_U32 /\ read_u32 d1 = Ok (x, r)
  | BU64 x => id = L_U64 /\ read_u64 d1 = Ok (x, r)
  | BI32 x => id = L_I32 /\ read_i32 d1 = Ok (x, r)
  | BBool x => id = L_BOOL /\ read_bool d1 = Ok (x, r)
  | BQuoted s => id = L_QUOTED /\ read_string d1 = Ok (s, r)
  | BUnquoted s => id = L_UNQUOTED /\ read_string d1 = Ok (s, r)
  | BF32 x => id = L_F32 /\ read_f32 d1 = Ok (x, r)
  | BF64 x => id = L_F64 /\ read_f64 d1 = Ok (x, r)
  | BRgb c => id = L_RGB /\ read_rgb d1 = Ok (c, r)
  | BI64 x => id = L_I64 /\ read_i64 d1 = Ok (x, r)
  | BId x => id = x /\ is_id x = true /\ r = d1
  end.

Ltac inv_omap H :=
  match type of H with
  | omap _ ?e = Ok _ => destruct e as [[? ?]| | | |] eqn:?; cbn [omap obind fst snd] in H; try discriminate;
                        inversion H; subst; clear H
  end.

Lemma read_token_inv d t r :
  read_token d = Ok (t, r) -> exists id d1, read_id d = Ok (id, d1) /\ tok_shape t id d1 r.
Proof.
  intros H. unfold read_token in H.
  destruct (read_id d) as [[id d1]| | | |] eqn:E; cbn [obind] in H; try discriminate.
  exists id, d1. split; [reflexivity|].
  destruct (id =? L_OPEN)%N eqn:E1; [apply N.eqb_eq in E1; inversion H; subst; cbn; auto|].
  destruct (id =? L_CLOSE)%N eqn:E2; [apply N.eqb_eq in E2; inversion H; subst; cbn; auto|].
  destruct (id =? L_EQUAL)%N eqn:E3; [apply N.eqb_eq in E3; inversion H; subst; cbn; auto|].
  destruct (id =? L_U32)%N eqn:E4; [apply N.eqb_eq in E4; inv_omap H; cbn; auto|].
  destruct (id =? L_U64)%N eqn:E5; [apply N.eqb_eq in E5; inv_omap H; cbn; auto|].
  destruct (id =? L_I32)%N eqn:E6; [apply N.eqb_eq in E6; inv_omap H; cbn; auto|].
  destruct (id =? L_BOOL)%N eqn:E7; [apply N.eqb_eq in E7; inv_omap H; cbn; auto|].
  destruct (id =? L_QUOTED)%N eqn:E8; [apply N.eqb_eq in E8; inv_omap H; cbn; auto|].
  destruct (id =? L_UNQUOTED)%N eqn:E9; [apply N.eqb_eq in E9; inv_omap H; cbn; auto|].
  destruct (id =? L_F32)%N eqn:E10; [apply N.eqb_eq in E10; inv_omap H; cbn; auto|].
  destruct (id =? L_F64)%N eqn:E11; [apply N.eqb_eq in E11; inv_omap H; cbn; auto|].
  destruct (id =? L_RGB)%N eqn:E12; [apply N.eqb_eq in E12; inv_omap H; cbn; auto|].
  destruct (id =? L_I64)%N eqn:E13; [apply N.eqb_eq in E13; inv_omap H; cbn; auto|].
  inversion H; subst. cbn. repeat split.
  unfold is_id. rewrite E1, E2, E3, E4, E5, E6, E7, E8, E9, E10, E11, E12, E13. reflexivity.
Qed.
