(* C16, wave 4: every tree the model of json/mod.rs computes satisfies the hypotheses of the text
   theorems of JsonTextProofs.v (its integers are the ones binary64 holds exactly, all its strings
   and keys are well-formed UTF-8 as soon as Encoding::decode returns well-formed UTF-8), hence
   the emitted text is valid JSON in valid UTF-8 for every parsed tape. *)
From JV Require Import Bytes Tables Scalar TextTok TextTape TapeWf Dom Json Date Utf8 JsonText.
From JV.proofs Require Import DomProofs JsonProofs DecimalProofs Utf8Proofs JsonTextProofs TextTapeGrammarProofs.
From Coq Require Import NArith ZArith Lia List Bool.
Import ListNotations.
Open Scope nat_scope.

(* ================================================================ well-formed UTF-8 is a transparent prefix *)
Lemma valid_u8_aux : forall n s, (length s <= n)%nat -> valid_utf8 s = true -> u8 s.
Proof.
  induction n as [|n IH]; intros s L V.
  - destruct s; [apply u8_nil|cbn in L; lia].
  - destruct s as [|b s]; [apply u8_nil|]. cbn [length] in L.
    destruct (b <? 128)%N eqn:A.
    + rewrite valid_ascii in V by exact A. intro r. cbn [app]. rewrite valid_ascii by exact A.
      apply (IH s); [lia|exact V].
    + destruct (utf8_char_width b =? 2)%N eqn:W2; [|destruct (utf8_char_width b =? 3)%N eqn:W3; [|destruct (utf8_char_width b =? 4)%N eqn:W4]].
      * destruct s as [|c1 s]; [rewrite valid_short2 in V by assumption; discriminate|].
        rewrite valid_2 in V by assumption. apply andb_prop in V as [C1 V].
        intro r. cbn [app]. rewrite valid_2 by assumption. rewrite C1. cbn [andb].
        apply (IH s); [cbn [length] in L; lia|exact V].
      * destruct s as [|c1 [|c2 s]]; try (rewrite valid_short3 in V by (auto; cbn; lia); discriminate).
        rewrite valid_3 in V by assumption. apply andb_prop in V as [V0 V]. apply andb_prop in V0 as [C1 C2].
        intro r. cbn [app]. rewrite valid_3 by assumption. rewrite C1, C2. cbn [andb].
        apply (IH s); [cbn [length] in L; lia|exact V].
      * destruct s as [|c1 [|c2 [|c3 s]]]; try (rewrite valid_short4 in V by (auto; cbn; lia); discriminate).
        rewrite valid_4 in V by assumption. apply andb_prop in V as [V0 V]. apply andb_prop in V0 as [V0 C3].
        apply andb_prop in V0 as [C1 C2].
        intro r. cbn [app]. rewrite valid_4 by assumption. rewrite C1, C2, C3. cbn [andb].
        apply (IH s); [cbn [length] in L; lia|exact V].
      * rewrite valid_width0 in V by assumption. discriminate.
Qed.

Lemma valid_u8 : forall s, valid_utf8 s = true -> u8 s.
Proof. intros s V. apply (valid_u8_aux (length s)); auto. Qed.

Lemma valid_bracket : forall pre s post, ascii pre -> valid_utf8 s = true -> ascii post ->
  valid_utf8 (pre ++ s ++ post) = true.
Proof.
  intros pre s post A V B. apply u8_valid_result.
  apply u8_app; [apply u8_ascii; auto|]. apply u8_app; [apply valid_u8; auto|apply u8_ascii; auto].
Qed.

(* ================================================================ good trees *)
Definition good (j : json) : Prop := nums_ok j /\ strs_ok j.

Lemma guard_small : (Z.of_N f64_int_guard < 10 ^ 40)%Z.
Proof. reflexivity. Qed.
Lemma guard_small_N : (f64_int_guard < 10 ^ 40)%N.
Proof. reflexivity. Qed.

Lemma good_null : good JNull. Proof. split; constructor. Qed.
Lemma good_bool : forall b, good (JBool b). Proof. split; constructor. Qed.
Lemma good_f64 : forall b, good (JF64 b). Proof. split; constructor. Qed.
Lemma good_i64 : forall z, (Z.abs z <= Z.of_N f64_int_guard)%Z -> good (JI64 z).
Proof. intros z H. split; constructor. eapply Z.le_lt_trans; [exact H|exact guard_small]. Qed.
Lemma good_u64 : forall n, (n <= f64_int_guard)%N -> good (JU64 n).
Proof. intros n H. split; constructor. eapply N.le_lt_trans; [exact H|exact guard_small_N]. Qed.
Lemma good_str : forall s, valid_utf8 s = true -> good (JStr s).
Proof. intros s H. split; constructor. exact H. Qed.

Lemma good_arr : forall l, Forall good l -> good (JArr l).
Proof.
  intros l F. split; constructor; induction F; constructor; auto; destruct H; auto.
Qed.

Lemma good_obj : forall l, Forall (fun kv => valid_utf8 (fst kv) = true /\ good (snd kv)) l -> good (JObj l).
Proof.
  intros l F. split; constructor; induction F; try constructor; destruct x as [k v]; cbn [fst snd] in H;
    destruct H as (HK & HN & HS); constructor; auto.
Qed.

Lemma good_obj1 : forall k j, valid_utf8 k = true -> good j -> good (JObj [(k, j)]).
Proof. intros k j K J. apply good_obj. constructor; [split; auto|constructor]. Qed.

Lemma omapM_good : forall {A B} (Q : B -> Prop) (f : A -> outcome B) l ys,
  (forall a y, f a = Ok y -> Q y) -> omapM f l = Ok ys -> Forall Q ys.
Proof.
  intros A B Q f l. induction l as [|a l IH]; intros ys H E; cbn [omapM] in E.
  - inversion E; subst. constructor.
  - destruct (f a) as [b| | | |] eqn:FA; cbn [obind] in E; try discriminate.
    destruct (omapM f l) as [bs| | | |] eqn:FL; cbn [obind] in E; try discriminate.
    inversion E; subst. constructor; eauto.
Qed.

(* ================================================================ the model only builds trees satisfying any predicate [G] closed under the constructors json/mod.rs uses *)
Section Good.
  Variable dec : bytes -> bytes.
  Variable dbg : bool.
  Variable o : options.
  Variable t : ttape.
  Hypothesis DV : forall raw, valid_utf8 (dec raw) = true.
  Variable G : json -> Prop.
  Hypothesis G_null : G JNull.
  Hypothesis G_str : forall s, valid_utf8 s = true -> G (JStr s).
  Hypothesis G_arr : forall l, Forall G l -> G (JArr l).
  Hypothesis G_obj : forall l, Forall (fun kv => valid_utf8 (fst kv) = true /\ G (snd kv)) l -> G (JObj l).
  (* serialize_scalar is only reached when the narrowing option allows it *)
  Hypothesis G_scalar : type_narrowing o <> NarrowNone -> forall v j, serialize_scalar dec t v = Ok j -> G j.

  Lemma G_obj1 : forall k j, valid_utf8 k = true -> G j -> G (JObj [(k, j)]).
  Proof. intros k j K J. apply G_obj. constructor; [split; auto|constructor]. Qed.

  Lemma op_symbol_valid : forall p, valid_utf8 (op_symbol p) = true.
  Proof. destruct p; reflexivity. Qed.
  Lemma op_name_valid : forall p, valid_utf8 (op_name p) = true.
  Proof. destruct p; reflexivity. Qed.

  Lemma read_str_valid : forall v x, read_str dec t v = Ok x -> valid_utf8 x = true.
  Proof.
    intros v x H. unfold read_str in H. destruct (value_token t v) as [k| | | |]; cbn [obind] in H; try discriminate.
    destruct k; inversion H; subst; auto using op_symbol_valid.
  Qed.

  Lemma key_string_valid : forall k, valid_utf8 (key_string dec k) = true.
  Proof.
    intro k. unfold key_string. destruct k; auto.
    - apply (valid_bracket [91%N] (dec s) [93%N]); auto; reflexivity.
    - apply (valid_bracket [91%N; 33%N] (dec s) [93%N]); auto; reflexivity.
  Qed.

  Lemma unwrap_ok : forall {A} site (x : outcome A) a, unwrap site x = Ok a -> x = Ok a.
  Proof. intros A site x a H. destruct x; cbn [unwrap] in H; try discriminate; auto. Qed.

  Lemma str_leaf_good : forall v j,
    (do x <- unwrap P_str_unwrap (read_str dec t v); Ok (JStr x)) = Ok j -> G j.
  Proof.
    intros v j H. destruct (unwrap P_str_unwrap (read_str dec t v)) as [x| | | |] eqn:E; cbn [obind] in H; try discriminate.
    inversion H; subst. apply G_str. apply unwrap_ok in E. eapply read_str_valid; eauto.
  Qed.

  Section Open.
    Variable rec : nat -> outcome json.
    Hypothesis HR : forall a j, rec a = Ok j -> G j.

    Lemma opvalue_good : forall ov j, ser_opvalue rec ov = Ok j -> G j.
    Proof.
      intros [op v] j H. unfold ser_opvalue in H. cbn [fst snd] in H. destruct op as [p|]; [|eauto].
      destruct (rec v) as [j'| | | |] eqn:R; cbn [obind] in H; try discriminate.
      inversion H; subst. apply G_obj1; eauto using op_name_valid.
    Qed.

    Lemma single_good : forall a op v j, ser_single dec t rec a op v = Ok j -> G j.
    Proof.
      intros a op v j H. unfold ser_single in H.
      destruct (read_str dec t a) as [x|e| | |] eqn:RS; cbn [obind] in H; try discriminate.
      - destruct (ser_opvalue rec (if op_is_equal op then None else Some op, v)) as [j'| | | |] eqn:OV; cbn [obind] in H; try discriminate.
        inversion H; subst. apply G_obj1; [eapply read_str_valid; eauto|eapply opvalue_good; eauto].
      - destruct (ser_opvalue rec (if op_is_equal op then None else Some op, v)) as [j'| | | |] eqn:OV; cbn [obind] in H; try discriminate.
        inversion H; subst. apply G_obj1; [reflexivity|eapply opvalue_good; eauto].
    Qed.

    (* the three shapes one step of the window can take *)
    Lemma window_cases : forall a rest js, ser_window dec t rec (a :: rest) = Ok js ->
      ser_window dec t rec rest = Ok js \/
      (exists j js0, js = j :: js0 /\ ser_opvalue rec (None, a) = Ok j /\ ser_window dec t rec rest = Ok js0) \/
      (exists ob v rest' op j js0, rest = ob :: v :: rest' /\ js = j :: js0 /\
         ser_single dec t rec a op v = Ok j /\ ser_window dec t rec rest' = Ok js0).
    Proof.
      intros a rest js H. cbn [ser_window] in H.
      destruct (value_token t a) as [ka| | | |]; cbn [obind] in H; try discriminate.
      assert (PLAIN : (do j <- ser_opvalue rec (None, a); do js0 <- ser_window dec t rec rest; Ok (j :: js0)) = Ok js ->
                      exists j js0, js = j :: js0 /\ ser_opvalue rec (None, a) = Ok j /\ ser_window dec t rec rest = Ok js0).
      { intro P. destruct (ser_opvalue rec (None, a)) as [j| | | |]; cbn [obind] in P; try discriminate.
        destruct (ser_window dec t rec rest) as [js0| | | |]; cbn [obind] in P; try discriminate.
        inversion P; subst. eauto. }
      assert (REST : (match rest with
                      | ob :: v :: rest' =>
                          do kb <- value_token t ob;
                          match kb with
                          | TOperator op => do j <- ser_single dec t rec a op v; do js0 <- ser_window dec t rec rest'; Ok (j :: js0)
                          | _ => do j <- ser_opvalue rec (None, a); do js0 <- ser_window dec t rec rest; Ok (j :: js0)
                          end
                      | _ => do j <- ser_opvalue rec (None, a); do js0 <- ser_window dec t rec rest; Ok (j :: js0)
                      end) = Ok js ->
                     (exists j js0, js = j :: js0 /\ ser_opvalue rec (None, a) = Ok j /\ ser_window dec t rec rest = Ok js0) \/
                     (exists ob v rest' op j js0, rest = ob :: v :: rest' /\ js = j :: js0 /\
                        ser_single dec t rec a op v = Ok j /\ ser_window dec t rec rest' = Ok js0)).
      { intro P. destruct rest as [|ob [|v rest']]; [left; auto|left; auto|].
        destruct (value_token t ob) as [kb| | | |]; cbn [obind] in P; try discriminate.
        destruct kb; try (left; apply PLAIN; exact P).
        right. match type of P with context [ser_single dec t rec a ?x v] => set (op := x) in * end.
        destruct (ser_single dec t rec a op v) as [j| | | |] eqn:SS; cbn [obind] in P; try discriminate.
        destruct (ser_window dec t rec rest') as [js0| | | |] eqn:SW; cbn [obind] in P; try discriminate.
        inversion P; subst. exists ob, v, rest', op, j, js0. auto. }
      destruct ka; try (right; apply REST; exact H).
      left. exact H.
    Qed.

    Lemma window_good : forall n l js, length l <= n -> ser_window dec t rec l = Ok js -> Forall G js.
    Proof.
      induction n as [|n IH]; intros l js L H.
      - destruct l; [cbn in H; inversion H; constructor|cbn in L; lia].
      - destruct l as [|a rest]; [cbn in H; inversion H; constructor|]. cbn [length] in L.
        destruct (window_cases a rest js H) as [R | [(j & js0 & -> & OV & R) | (ob & v & rest' & op & j & js0 & -> & -> & SS & R)]].
        + apply (IH rest); [lia|exact R].
        + constructor; [eapply opvalue_good; eauto|apply (IH rest); [lia|exact R]].
        + constructor; [eapply single_good; eauto|apply (IH rest'); [cbn [length] in L; lia|exact R]].
    Qed.

    Lemma inner_array_good : forall r j, ser_inner_array dec t rec r = Ok j -> G j.
    Proof.
      intros r j H. unfold ser_inner_array in H.
      destruct (values_all t r) as [vs| | | |]; cbn [obind] in H; try discriminate.
      destruct (ser_window dec t rec vs) as [js| | | |] eqn:W; cbn [obind] in H; try discriminate.
      inversion H; subst. apply G_arr. eapply window_good; eauto.
    Qed.

    Lemma array_builder_good : forall r j, ser_array_builder dec o t rec r = Ok j -> G j.
    Proof.
      intros r j H. unfold ser_array_builder in H.
      destruct (ser_inner_array dec t rec r) as [inner| | | |] eqn:I; cbn [obind] in H; try discriminate.
      pose proof (inner_array_good _ _ I) as GI.
      destruct (duplicate_keys o); inversion H; subst; auto.
      apply G_obj. constructor; [split; [reflexivity|apply G_str; reflexivity]|].
      constructor; [split; [reflexivity|exact GI]|constructor].
    Qed.

    Lemma remainder_good : forall last e x, ser_remainder dec t rec last e = Ok (Some x) -> G x.
    Proof.
      intros last e x H. unfold ser_remainder in H.
      destruct (array_is_empty t (remainder t last e)) as [b| | | |]; cbn [obind] in H; try discriminate.
      destruct b; try discriminate.
      destruct (ser_inner_array dec t rec (remainder t last e)) as [j| | | |] eqn:I; cbn [obind] in H; try discriminate.
      inversion H; subst. eapply inner_array_good; eauto.
    Qed.

    Definition entry_good (kv : bytes * json) : Prop := valid_utf8 (fst kv) = true /\ G (snd kv).

    Lemma rem_entry_good : forall rem, (forall x, rem = Some x -> G x) ->
      Forall entry_good (match rem with Some j => [(s_remainder, j)] | None => [] end).
    Proof.
      intros [x|] H; constructor; [|constructor]. split; [reflexivity|]. cbn [snd]. auto.
    Qed.

    Lemma field_good : forall fd e, ser_field dec rec fd = Ok e -> entry_good e.
    Proof.
      intros fd e H. unfold ser_field in H.
      destruct (ser_opvalue rec (f_op fd, f_val fd)) as [j| | | |] eqn:OV; cbn [obind] in H; try discriminate.
      inversion H; subst. split; cbn [fst snd]; [apply key_string_valid|eapply opvalue_good; eauto].
    Qed.

    Lemma field_pair_good : forall fd e, ser_field_pair dec rec fd = Ok e -> G e.
    Proof.
      intros fd e H. unfold ser_field_pair in H.
      destruct (ser_opvalue rec (f_op fd, f_val fd)) as [j| | | |] eqn:OV; cbn [obind] in H; try discriminate.
      inversion H; subst. apply G_arr.
      constructor; [apply G_str; apply key_string_valid|]. constructor; [eapply opvalue_good; eauto|constructor].
    Qed.

    Lemma group_good : forall g e, ser_group dec rec g = Ok e -> entry_good e.
    Proof.
      intros g e H. unfold ser_group in H.
      assert (MANY : forall many, (do js <- omapM (ser_opvalue rec) many; Ok (key_string dec (g_key g), JArr js)) = Ok e -> entry_good e).
      { intros many M. destruct (omapM (ser_opvalue rec) many) as [js| | | |] eqn:OM; cbn [obind] in M; try discriminate.
        inversion M; subst. split; cbn [fst snd]; [apply key_string_valid|].
        apply G_arr. eapply omapM_good; [|exact OM]. intros a y Y. eapply opvalue_good; eauto. }
      destruct (g_vals g) as [|one [|two more]]; try (apply MANY in H; exact H).
      destruct (ser_opvalue rec one) as [j| | | |] eqn:OV; cbn [obind] in H; try discriminate.
      inversion H; subst. split; cbn [fst snd]; [apply key_string_valid|eapply opvalue_good; eauto].
    Qed.

    Lemma object_builder_good : forall r j, ser_object_builder dec dbg o t rec r = Ok j -> G j.
    Proof.
      intros r j H. unfold ser_object_builder in H. destruct (duplicate_keys o).
      - destruct (field_groups dbg t r) as [[[gs gh] last]| | | |]; cbn [obind] in H; try discriminate.
        destruct (omapM (ser_group dec rec) gs) as [es| | | |] eqn:OM; cbn [obind] in H; try discriminate.
        destruct (ser_remainder dec t rec last (o_end r)) as [rem| | | |] eqn:RM; cbn [obind] in H; try discriminate.
        inversion H; subst. apply G_obj. apply Forall_app. split.
        + eapply omapM_good; [|exact OM]. intros a y Y. eapply group_good; eauto.
        + apply rem_entry_good. intros x ->. eapply remainder_good; eauto.
      - destruct (fields_all dbg t r) as [[fs last]| | | |]; cbn [obind] in H; try discriminate.
        destruct (omapM (ser_field dec rec) fs) as [es| | | |] eqn:OM; cbn [obind] in H; try discriminate.
        destruct (ser_remainder dec t rec last (o_end r)) as [rem| | | |] eqn:RM; cbn [obind] in H; try discriminate.
        inversion H; subst. apply G_obj. apply Forall_app. split.
        + eapply omapM_good; [|exact OM]. intros a y Y. eapply field_good; eauto.
        + apply rem_entry_good. intros x ->. eapply remainder_good; eauto.
      - destruct (fields_all dbg t r) as [[fs last]| | | |]; cbn [obind] in H; try discriminate.
        destruct (omapM (ser_field_pair dec rec) fs) as [es| | | |] eqn:OM; cbn [obind] in H; try discriminate.
        destruct (ser_remainder dec t rec last (o_end r)) as [rem| | | |] eqn:RM; cbn [obind] in H; try discriminate.
        inversion H; subst. apply G_obj.
        constructor; [split; [reflexivity|apply G_str; reflexivity]|].
        constructor; [split; [reflexivity|]|constructor]. cbn [snd].
        apply G_arr. apply Forall_app. split.
        + eapply omapM_good; [|exact OM]. intros a y Y. eapply field_pair_good; eauto.
        + destruct rem as [x|]; constructor; [|constructor]. eapply remainder_good; eauto.
    Qed.

    Lemma step_good : forall v j, ser_value_step dec dbg o t rec v = Ok j -> G j.
    Proof.
      intros v j H. unfold ser_value_step in H.
      destruct (value_token t v) as [k| | | |]; cbn [obind] in H; try discriminate.
      destruct k; try (inversion H; subst; apply G_null).
      - destruct (unwrap P_read_array_unwrap (read_array t v)) as [r| | | |]; cbn [obind] in H; try discriminate.
        eapply array_builder_good; eauto.
      - destruct (unwrap P_read_object_unwrap (read_object t v)) as [r| | | |]; cbn [obind] in H; try discriminate.
        eapply object_builder_good; eauto.
      - destruct (type_narrowing o) eqn:TN; eauto using str_leaf_good;
          exact (G_scalar ltac:(discriminate) _ _ H).
      - destruct (type_narrowing o) eqn:TN; eauto using str_leaf_good;
          exact (G_scalar ltac:(discriminate) _ _ H).
      - destruct (unwrap P_read_array_unwrap (read_array t v)) as [arr| | | |]; cbn [obind] in H; try discriminate.
        destruct (Nat.ltb (a_start arr) (a_end arr)); try discriminate.
        destruct (next_idx_values t (a_start arr)) as [n1| | | |]; cbn [obind] in H; try discriminate.
        destruct (Nat.ltb n1 (a_end arr)); try discriminate.
        destruct (next_idx_values t n1) as [n2| | | |]; cbn [obind] in H; try discriminate.
        destruct (unwrap P_header_str_unwrap (read_str dec t (a_start arr))) as [ks| | | |] eqn:KS; cbn [obind] in H; try discriminate.
        destruct (rec n1) as [j1| | | |] eqn:R1; cbn [obind] in H; try discriminate.
        inversion H; subst. apply G_obj1; [|eauto].
        apply unwrap_ok in KS. eapply read_str_valid; eauto.
    Qed.
  End Open.

  Lemma ser_value_good : forall fuel v j, ser_value dec dbg o t fuel v = Ok j -> G j.
  Proof.
    induction fuel as [|f IH]; intros v j H; cbn [ser_value] in H; [discriminate|].
    eapply step_good; [|exact H]. exact IH.
  Qed.

  Theorem json_value_G : forall v j, json_value dec dbg o t v = Ok j -> G j.
  Proof.
    intros v j H. unfold json_value in H.
    destruct (value_tokens_len t v); cbn [obind] in H; try discriminate. eapply ser_value_good; eauto.
  Qed.

  Theorem json_object_G : forall r j, json_object dec dbg o t r = Ok j -> G j.
  Proof.
    intros r j H. unfold json_object in H.
    destruct (object_tokens_len r); cbn [obind] in H; try discriminate.
    eapply object_builder_good; [|exact H]. intros ? ?. apply ser_value_good.
  Qed.

  Theorem json_array_G : forall r j, json_array dec dbg o t r = Ok j -> G j.
  Proof.
    intros r j H. unfold json_array in H.
    destruct (array_tokens_len r); cbn [obind] in H; try discriminate.
    eapply array_builder_good; [|exact H]. intros ? ?. apply ser_value_good.
  Qed.
End Good.

(* ---------------------------------------------------------------- instance 1: good trees *)
Section GoodInst.
  Variable dec : bytes -> bytes.
  Variable dbg : bool.
  Variable o : options.
  Variable t : ttape.
  Hypothesis DV : forall raw, valid_utf8 (dec raw) = true.

  Lemma serialize_scalar_good : forall v j, serialize_scalar dec t v = Ok j -> good j.
  Proof.
    intros v j H. pose proof H as H0. unfold serialize_scalar in H.
    destruct (unwrap P_scalar_unwrap (read_scalar t v)) as [s| | | |] eqn:RS; cbn [obind] in H; try discriminate.
    apply unwrap_ok in RS. pose proof (narrowing_spec dec t v s j RS H0) as NS.
    destruct j; try contradiction.
    - apply good_bool.
    - apply good_i64. tauto.
    - apply good_u64. tauto.
    - apply good_f64.
    - apply good_str. destruct NS as (_ & _ & R). eapply read_str_valid; eauto.
  Qed.

  Theorem json_value_good : forall v j, json_value dec dbg o t v = Ok j -> good j.
  Proof. apply json_value_G; auto using good_null, good_str, good_arr, good_obj. intros _. apply serialize_scalar_good. Qed.
  Theorem json_object_good : forall r j, json_object dec dbg o t r = Ok j -> good j.
  Proof. apply json_object_G; auto using good_null, good_str, good_arr, good_obj. intros _. apply serialize_scalar_good. Qed.
  Theorem json_array_good : forall r j, json_array dec dbg o t r = Ok j -> good j.
  Proof. apply json_array_G; auto using good_null, good_str, good_arr, good_obj. intros _. apply serialize_scalar_good. Qed.
End GoodInst.

(* ---------------------------------------------------------------- instance 2: TypeNarrowing::None *)
(* the number of leaves narrowed to a boolean or a number *)
Fixpoint narrowed_leaves (j : json) : nat :=
  match j with
  | JBool _ | JI64 _ | JU64 _ | JF64 _ => 1
  | JArr l => list_sum (map narrowed_leaves l)
  | JObj l => list_sum (map (fun kv => match kv with (_, v) => narrowed_leaves v end) l)
  | _ => 0
  end.

Definition unnarrowed (j : json) : Prop := narrowed_leaves j = 0.

Lemma unnarrowed_arr : forall l, Forall unnarrowed l -> unnarrowed (JArr l).
Proof.
  intros l F. unfold unnarrowed. cbn [narrowed_leaves]. induction F; cbn [map list_sum]; auto.
  unfold unnarrowed in H. rewrite H. cbn [plus]. exact IHF.
Qed.

Lemma unnarrowed_obj : forall l, Forall (fun kv => valid_utf8 (fst kv) = true /\ unnarrowed (snd kv)) l -> unnarrowed (JObj l).
Proof.
  intros l F. unfold unnarrowed. cbn [narrowed_leaves]. induction F; cbn [map list_sum]; auto.
  destruct x as [k v]. cbn [snd] in H. destruct H as [_ H]. unfold unnarrowed in H. rewrite H. cbn [plus]. exact IHF.
Qed.

Section NoneInst.
  Variable dec : bytes -> bytes.
  Variable dbg : bool.
  Variable o : options.
  Variable t : ttape.
  Hypothesis DV : forall raw, valid_utf8 (dec raw) = true.
  Hypothesis NN : type_narrowing o = NarrowNone.

  Theorem json_value_unnarrowed : forall v j, json_value dec dbg o t v = Ok j -> unnarrowed j.
  Proof. apply json_value_G; auto using unnarrowed_arr, unnarrowed_obj; try reflexivity. intro C. contradiction. Qed.
  Theorem json_object_unnarrowed : forall r j, json_object dec dbg o t r = Ok j -> unnarrowed j.
  Proof. apply json_object_G; auto using unnarrowed_arr, unnarrowed_obj; try reflexivity. intro C. contradiction. Qed.
  Theorem json_array_unnarrowed : forall r j, json_array dec dbg o t r = Ok j -> unnarrowed j.
  Proof. apply json_array_G; auto using unnarrowed_arr, unnarrowed_obj; try reflexivity. intro C. contradiction. Qed.
End NoneInst.



(* ================================================================ end to end *)
(* the contract of the two parameters: the float printer emits an ASCII JSON number for every finite
   float; Encoding::decode returns well-formed UTF-8 (property C12) *)
Definition fmt_contract (fmt_f64 : N -> bytes) : Prop :=
  (forall b, f64_is_finite b = true -> jnumber (fmt_f64 b)) /\ (forall b, ascii (fmt_f64 b)).
Definition dec_contract (dec : bytes -> bytes) : Prop := forall raw, valid_utf8 (dec raw) = true.

Theorem good_text_valid : forall fmt_f64 pretty j, fmt_contract fmt_f64 -> good j ->
  json_grammar (json_text fmt_f64 pretty j) /\ valid_utf8 (json_text fmt_f64 pretty j) = true /\
  ws_weave (jtokens fmt_f64 j) (json_text fmt_f64 pretty j) /\
  json_text fmt_f64 false j = concat (jtokens fmt_f64 j).
Proof.
  intros fmt_f64 pretty j [F1 F2] [GN GS]. split; [apply json_text_valid; auto|].
  split; [apply json_text_utf8; auto|]. split; [apply print_weave|apply print_compact_tokens].
Qed.

(* every parsed tape, every option combination, the three entry points *)
Theorem parsed_json_text_valid : forall input t bom dec dbg o fmt_f64 pretty,
  parse input = Ok (t, bom) -> dec_contract dec -> fmt_contract fmt_f64 ->
  (exists j, json_object dec dbg o t (top_reader t) = Ok j /\
     json_grammar (json_text fmt_f64 pretty j) /\ valid_utf8 (json_text fmt_f64 pretty j) = true) /\
  (forall v, v < length t -> exists j, json_value dec dbg o t v = Ok j /\
     json_grammar (json_text fmt_f64 pretty j) /\ valid_utf8 (json_text fmt_f64 pretty j) = true) /\
  (forall r, obj_node t r -> exists j, json_object dec dbg o t r = Ok j /\
     json_grammar (json_text fmt_f64 pretty j) /\ valid_utf8 (json_text fmt_f64 pretty j) = true) /\
  (forall v k, TapeWf.tget t v = Some k -> is_container k = true \/ (exists s, k = THeader s) ->
     exists r j, read_array t v = Ok r /\ json_array dec dbg o t r = Ok j /\
     json_grammar (json_text fmt_f64 pretty j) /\ valid_utf8 (json_text fmt_f64 pretty j) = true).
Proof.
  intros input t bom dec dbg o fmt_f64 pretty E DC FC. pose proof (parse_tape_wf _ _ _ E) as W.
  split; [|split; [|split]].
  - destruct (json_object_total dec dbg o t (top_reader t) W (on_top t)) as [j J]. exists j. split; auto.
    destruct (good_text_valid fmt_f64 pretty j FC (json_object_good dec dbg o t DC _ _ J)) as (A & B & _). auto.
  - intros v L. destruct (json_value_total dec dbg o t v W L) as [j J]. exists j. split; auto.
    destruct (good_text_valid fmt_f64 pretty j FC (json_value_good dec dbg o t DC _ _ J)) as (A & B & _). auto.
  - intros r N. destruct (json_object_total dec dbg o t r W N) as [j J]. exists j. split; auto.
    destruct (good_text_valid fmt_f64 pretty j FC (json_object_good dec dbg o t DC _ _ J)) as (A & B & _). auto.
  - intros v k Hk Hc. pose proof (read_array_ok t v k W Hk) as R.
    assert (R' : exists r, read_array t v = Ok r /\ arr_ok t r).
    { destruct Hc as [Hc|(s & ->)]; [|exact R]. destruct k; cbn in Hc; try discriminate; exact R. }
    destruct R' as (r & Er & Ar). destruct (json_array_total dec dbg o t r W Ar) as (j & Ej).
    exists r, j. split; auto. split; auto.
    destruct (good_text_valid fmt_f64 pretty j FC (json_array_good dec dbg o t DC _ _ Ej)) as (A & B & _). auto.
Qed.

(* pretty printing changes whitespace only, for every tree the model computes *)
Theorem pretty_whitespace_only : forall fmt_f64 j,
  ws_weave (jtokens fmt_f64 j) (json_text fmt_f64 true j) /\
  json_text fmt_f64 false j = concat (jtokens fmt_f64 j).
Proof. intros. split; [apply print_weave|apply print_compact_tokens]. Qed.

(* ================================================================ headers are single-entry objects *)
From JV Require Import DomIter.
From JV.proofs Require Import DomIterProofs.

Theorem header_single_entry : forall dec dbg o t rec v s, tape_wf t ->
  TapeWf.tget t v = Some (THeader s) ->
  ser_value_step dec dbg o t rec v = (do j <- rec (S v); Ok (JObj [(dec s, j)])).
Proof.
  intros dec dbg o t rec v s WF K.
  destruct (read_array_header_view t v s WF K) as (k & e' & K' & CE & RA & _ & _).
  destruct WF as (_ & _ & W & _).
  destruct (cont_lt t (S v) _ e' W K' CE) as (A & _).
  unfold ser_value_step, value_token. rewrite (tok_at_some _ _ _ _ K). cbn [obind].
  rewrite RA. cbn [unwrap obind a_start a_end].
  replace (Nat.ltb v (S e')) with true by (symmetry; apply Nat.ltb_lt; lia).
  rewrite (next_idx_values_one _ _ _ K eq_refl). cbn [obind].
  replace (Nat.ltb (S v) (S e')) with true by (symmetry; apply Nat.ltb_lt; lia).
  rewrite (next_idx_values_cont _ _ _ _ K' CE). cbn [obind].
  unfold read_str, value_token. rewrite (tok_at_some _ _ _ _ K). cbn [obind unwrap]. reflexivity.
Qed.

(* ================================================================ which tokens the narrowing option reaches *)
Theorem narrowing_applies_exactly : forall dec dbg o t rec v k, TapeWf.tget t v = Some k ->
  match k with
  | TUnquoted s =>
      ser_value_step dec dbg o t rec v =
      match type_narrowing o with NarrowNone => Ok (JStr (dec s)) | _ => serialize_scalar dec t v end
  | TQuoted s =>
      ser_value_step dec dbg o t rec v =
      match type_narrowing o with NarrowAll => serialize_scalar dec t v | _ => Ok (JStr (dec s)) end
  | _ => True
  end.
Proof.
  intros dec dbg o t rec v k K. destruct k; auto;
    unfold ser_value_step, value_token; rewrite (tok_at_some _ _ _ _ K); cbn [obind];
    destruct (type_narrowing o); auto;
    unfold read_str, value_token; rewrite (tok_at_some _ _ _ _ K); reflexivity.
Qed.
