(* C20 at the reader level: the streaming text reader under read schedules WITH I/O failures.
   Route: fault erasure.  [clean] drops the Fail events of a schedule; a reader over the schedule
   [sch] and a reader over [clean sch] that agree on window, BOM state, remaining data and
   delivered count ([readeq]) stay in lock step through every call of next_opt until the faulty
   reader reports E_Io.  All C07 theorems (proved under no_fail) are then transported to
   arbitrary schedules. *)
From JV Require Import Bytes Tables U64Swar BufWin TextTok TextReader TextRef.
From JV.proofs Require Import BufWinProofs TextReaderProofs TextRefProofs TextFbProofs TextFastProofs
  TextReaderMainProofs TextReaderFullProofs.
From Coq Require Import Lia List Arith.
Import ListNotations.
Open Scope nat_scope.

(* ---------- fault erasure ---------- *)
Fixpoint clean (l : list event) : list event :=
  match l with
  | [] => []
  | Data n :: t => Data n :: clean t
  | Fail :: t => clean t
  end.

Lemma clean_no_fail l : no_fail (clean l).
Proof.
  unfold no_fail. induction l as [|[n|] t IH]; cbn [clean]; [intros []|intros [H|H]; [discriminate|auto]|exact IH].
Qed.

Lemma clean_id l : no_fail l -> clean l = l.
Proof.
  unfold no_fail. induction l as [|[n|] t IH]; cbn [clean]; intros H; [reflexivity| |exfalso; apply H; left; reflexivity].
  f_equal. apply IH. intros H1. apply H. right. exact H1.
Qed.

Lemma clean_idem l : clean (clean l) = clean l.
Proof. apply clean_id, clean_no_fail. Qed.

(* erase forgets the failed events of the schedule and the call counter, nothing else *)
Definition erd (d : rd) : rd := mkrd (rest d) (clean (sched d)) 0 (delivered d).
Definition erase (r : reader) : reader := mkreader (rbw r) (erd (rrd r)) (rbom r).

Lemma erase_idem r : erase (erase r) = erase r.
Proof. unfold erase, erd. cbn [rbw rrd rbom rest sched delivered]. rewrite clean_idem. reflexivity. Qed.

(* d2 is a fault-free twin of d1 *)
Definition rdeq (d1 d2 : rd) : Prop :=
  rest d1 = rest d2 /\ clean (sched d1) = sched d2 /\ delivered d1 = delivered d2.
Definition readeq (r1 r2 : reader) : Prop :=
  rbw r1 = rbw r2 /\ rbom r1 = rbom r2 /\ rdeq (rrd r1) (rrd r2).

Lemma rdeq_erd d : rdeq d (erd d).
Proof. unfold rdeq, erd. cbn. auto. Qed.
Lemma readeq_erase r : readeq r (erase r).
Proof. unfold readeq, erase. cbn [rbw rrd rbom]. auto using rdeq_erd. Qed.
Lemma rdeq_no_fail d1 d2 : rdeq d1 d2 -> no_fail (sched d2).
Proof. intros (_ & <- & _). apply clean_no_fail. Qed.

Lemma rd_read_eq d1 d2 free : rdeq d1 d2 ->
  match sched d1 with
  | Fail :: _ => rd_read d1 free = Err E_Io
  | _ => exists bs d1' d2', rd_read d1 free = Ok (bs, d1') /\ rd_read d2 free = Ok (bs, d2') /\ rdeq d1' d2'
  end.
Proof.
  intros (Hr & Hs & Hd). unfold rd_read. destruct (sched d1) as [|[n|] t] eqn:E; cbn [clean] in Hs; rewrite <- ?Hs.
  - rewrite <- Hr, <- Hd. do 3 eexists. split; [reflexivity|]. split; [reflexivity|]. unfold rdeq. cbn. auto.
  - rewrite <- Hr, <- Hd. do 3 eexists. split; [reflexivity|]. split; [reflexivity|]. unfold rdeq. cbn. auto.
  - reflexivity.
Qed.

Lemma fill_eq b d1 d2 : rdeq d1 d2 ->
  match bw_fill_buf b d1 with
  | FillOk n b' d1' => exists d2', bw_fill_buf b d2 = FillOk n b' d2' /\ rdeq d1' d2'
  | FillIo _ _ => True
  | FillFull b' d1' => exists d2', bw_fill_buf b d2 = FillFull b' d2' /\ rdeq d1' d2'
  end.
Proof.
  intros Heq. unfold bw_fill_buf. destruct (Nat.leb (cap b) (length (win b))).
  - destruct (Nat.eqb (cap b) 0); eauto.
  - pose proof (rd_read_eq d1 d2 (cap b - length (win b)) Heq) as H.
    destruct (sched d1) as [|[n|] t].
    + destruct H as (bs & d1' & d2' & -> & -> & H). eauto.
    + destruct H as (bs & d1' & d2' & -> & -> & H). eauto.
    + rewrite H. exact I.
Qed.

(* results in lock step *)
Definition nreq (o1 o2 : nres) : Prop :=
  match o1, o2 with
  | NTok t1 r1, NTok t2 r2 => t1 = t2 /\ readeq r1 r2
  | NEnd r1, NEnd r2 => readeq r1 r2
  | NErr e1 r1, NErr e2 r2 => e1 = e2 /\ readeq r1 r2
  | NCrash s1, NCrash s2 => s1 = s2
  | _, _ => False
  end.

Lemma emit_eq b d1 d2 bom t adv : rdeq d1 d2 -> nreq (emit (mkreader b d1 bom) t adv) (emit (mkreader b d2 bom) t adv).
Proof.
  intros H. unfold emit. cbn [rbw]. destruct (bw_advance b adv); cbn [nreq]; auto.
  unfold readeq, with_bw. cbn [rbw rrd rbom]. auto.
Qed.

Definition is_io (o : nres) : Prop := exists r', o = NErr E_Io r'.

Theorem refill_eq : forall fuel b d1 d2 bom st c o, rdeq d1 d2 ->
  is_io (refill fuel (mkreader b d1 bom) st c o) \/
  nreq (refill fuel (mkreader b d1 bom) st c o) (refill fuel (mkreader b d2 bom) st c o).
Proof.
  induction fuel as [|f IH]; intros b d1 d2 bom st c o Heq; [right; reflexivity|].
  cbn [refill rbw rrd rbom].
  destruct (Nat.ltb (length (win b)) c); [right; reflexivity|].
  set (b1 := mkbw (cap b) _ _ _).
  pose proof (fill_eq b1 d1 d2 Heq) as Hf.
  destruct (bw_fill_buf b1 d1) as [n b2 d1'|b2 d1'|b2 d1'].
  - destruct Hf as (d2' & -> & Heq').
    assert (Hrd : forall bom', readeq (mkreader b2 d1' bom') (mkreader b2 d2' bom')) by (intros; unfold readeq; cbn; auto).
    destruct n as [|n].
    + right. destruct st.
      * destruct (Nat.eqb c 0 || _); [|cbn [nreq]; auto].
        destruct (bw_advance b2 c); cbn [nreq]; auto. unfold readeq, with_bw; cbn; auto.
      * cbn [nreq]; auto.
      * destruct (bw_advance b2 (length (win b2))); cbn [nreq]; auto. split; [reflexivity|]. unfold readeq, with_bw; cbn; auto.
    + destruct st.
      * destruct (fb _ _ _ _ _ _) as [[st' c' o'|t adv|s] bom'].
        -- apply IH. exact Heq'.
        -- right. apply emit_eq. exact Heq'.
        -- right. reflexivity.
      * destruct (Nat.ltb (length (win b2)) o); [right; reflexivity|].
        destruct (refill_quote_scan (win b2) o).
        -- right. apply emit_eq. exact Heq'.
        -- apply IH. exact Heq'.
      * destruct (Nat.ltb (length (win b2)) o); [right; reflexivity|].
        destruct (refill_unq_scan (win b2) o).
        -- right. apply emit_eq. exact Heq'.
        -- apply IH. exact Heq'.
  - left. eexists. reflexivity.
  - destruct Hf as (d2' & -> & Heq'). right. cbn [nreq]. split; [reflexivity|]. unfold readeq; cbn; auto.
Qed.

Theorem fallback_eq fuel b d1 d2 bom : rdeq d1 d2 ->
  is_io (fallback fuel (mkreader b d1 bom)) \/
  nreq (fallback fuel (mkreader b d1 bom)) (fallback fuel (mkreader b d2 bom)).
Proof.
  intros Heq. unfold fallback. cbn [rbw rrd rbom].
  destruct (fb _ _ _ _ _ _) as [[st' c' o'|t adv|s] bom'].
  - apply refill_eq. exact Heq.
  - right. apply emit_eq. exact Heq.
  - right. reflexivity.
Qed.

Theorem next_opt_eq fuel b d1 d2 bom : rdeq d1 d2 ->
  is_io (next_opt fuel (mkreader b d1 bom)) \/
  nreq (next_opt fuel (mkreader b d1 bom)) (next_opt fuel (mkreader b d2 bom)).
Proof.
  intros Heq. pose proof (fallback_eq fuel b d1 d2 bom Heq) as Hfb.
  unfold next_opt. cbn [rbw].
  destruct (Nat.ltb (length (win b)) 9); [exact Hfb|].
  destruct (nth_error (win b) _) as [c|]; [|right; reflexivity].
  destruct (b_is c 123); [right; apply emit_eq; exact Heq|].
  destruct (b_is c 125); [right; apply emit_eq; exact Heq|].
  destruct (is_alnum_dash c).
  { destruct (fu_outer _ _ _); [right; apply emit_eq; exact Heq|exact Hfb|right; reflexivity]. }
  destruct (b_is c 34); [|exact Hfb].
  destruct (fq_outer _ _ _ _); [right; apply emit_eq; exact Heq|exact Hfb|right; reflexivity].
Qed.

Corollary next_opt_erase fuel r :
  is_io (next_opt fuel r) \/ nreq (next_opt fuel r) (next_opt fuel (erase r)).
Proof. destruct r as [b d bom]. apply next_opt_eq, rdeq_erd. Qed.

(* ---------- invariants that survive every call, whatever the schedule does ---------- *)
Section Invariant.
  Variable P : bufwin -> rd -> Prop.
  Hypothesis P_adv : forall b d adv, adv <= length (win b) -> P b d ->
    P (mkbw (cap b) (skipn adv (win b)) (consumed b + adv) (prior b)) d.
  Hypothesis P_fill : forall b d, P b d ->
    match bw_fill_buf b d with FillOk _ b' d' | FillIo b' d' | FillFull b' d' => P b' d' end.

  Definition res_inv (o : nres) : Prop :=
    match o with NTok _ r' | NEnd r' | NErr _ r' => P (rbw r') (rrd r') | NCrash _ => True end.

  Lemma P_bw_advance b d adv : P b d ->
    match bw_advance b adv with Ok b' => P b' d | _ => True end.
  Proof.
    intros H. unfold bw_advance. destruct (Nat.ltb (length (win b)) adv) eqn:E; [exact I|].
    apply Nat.ltb_ge in E. apply P_adv; assumption.
  Qed.

  Lemma emit_inv b d bom t adv : P b d -> res_inv (emit (mkreader b d bom) t adv).
  Proof.
    intros H. unfold emit. cbn [rbw]. pose proof (P_bw_advance b d adv H) as Ha.
    destruct (bw_advance b adv); cbn [res_inv]; auto.
  Qed.

  Theorem refill_inv : forall fuel b d bom st c o, P b d -> res_inv (refill fuel (mkreader b d bom) st c o).
  Proof.
    induction fuel as [|f IH]; intros b d bom st c o H; [exact I|].
    cbn [refill rbw rrd rbom].
    destruct (Nat.ltb (length (win b)) c); [exact I|].
    pose proof (P_adv b d (length (win b) - c) ltac:(lia) H) as H1.
    set (b1 := mkbw (cap b) _ _ _) in *.
    pose proof (P_fill b1 d H1) as Hf.
    destruct (bw_fill_buf b1 d) as [n b2 d2|b2 d2|b2 d2]; [|exact Hf|exact Hf].
    destruct n as [|n].
    - destruct st.
      + destruct (Nat.eqb c 0 || _); [|exact Hf].
        pose proof (P_bw_advance b2 d2 c Hf). destruct (bw_advance b2 c); cbn [res_inv]; auto.
      + exact Hf.
      + pose proof (P_bw_advance b2 d2 (length (win b2)) Hf). destruct (bw_advance b2 (length (win b2))); cbn [res_inv]; auto.
    - destruct st.
      + destruct (fb _ _ _ _ _ _) as [[st' c' o'|t adv|s] bom']; [apply IH; exact Hf|apply emit_inv; exact Hf|exact I].
      + destruct (Nat.ltb (length (win b2)) o); [exact I|].
        destruct (refill_quote_scan (win b2) o); [apply emit_inv; exact Hf|apply IH; exact Hf].
      + destruct (Nat.ltb (length (win b2)) o); [exact I|].
        destruct (refill_unq_scan (win b2) o); [apply emit_inv; exact Hf|apply IH; exact Hf].
  Qed.

  Theorem fallback_inv fuel b d bom : P b d -> res_inv (fallback fuel (mkreader b d bom)).
  Proof.
    intros H. unfold fallback. cbn [rbw rrd rbom].
    destruct (fb _ _ _ _ _ _) as [[st' c' o'|t adv|s] bom']; [apply refill_inv; exact H|apply emit_inv; exact H|exact I].
  Qed.

  Theorem next_opt_inv fuel r : P (rbw r) (rrd r) -> res_inv (next_opt fuel r).
  Proof.
    destruct r as [b d bom]. cbn [rbw rrd]. intros H.
    pose proof (fallback_inv fuel b d bom H) as Hfb.
    unfold next_opt. cbn [rbw].
    destruct (Nat.ltb (length (win b)) 9); [exact Hfb|].
    destruct (nth_error (win b) _) as [c|]; [|exact I].
    destruct (b_is c 123); [apply emit_inv; exact H|].
    destruct (b_is c 125); [apply emit_inv; exact H|].
    destruct (is_alnum_dash c).
    { destruct (fu_outer _ _ _); [apply emit_inv; exact H|exact Hfb|exact I]. }
    destruct (b_is c 34); [|exact Hfb].
    destruct (fq_outer _ _ _ _); [apply emit_inv; exact H|exact Hfb|exact I].
  Qed.
End Invariant.

(* instance 1: the stream view input = consumed ++ window ++ unread *)
Lemma stream_inv_adv input b d adv : adv <= length (win b) -> stream_inv input b d ->
  stream_inv input (mkbw (cap b) (skipn adv (win b)) (consumed b + adv) (prior b)) d.
Proof.
  intros Hadv (pre & Hin & Hlen). exists (pre ++ firstn adv (win b)). cbn [win]. split.
  - rewrite <- app_assoc. rewrite (app_assoc (firstn adv (win b))), firstn_skipn. exact Hin.
  - rewrite app_length, firstn_length. unfold bw_position in *. cbn [prior consumed]. lia.
Qed.
Lemma stream_inv_fill input b d : stream_inv input b d ->
  match bw_fill_buf b d with FillOk _ b' d' | FillIo b' d' | FillFull b' d' => stream_inv input b' d' end.
Proof.
  intros H. pose proof (fill_buf_preserves input b d H) as Hp.
  destruct (bw_fill_buf b d); [apply Hp|apply Hp|destruct Hp as [-> ->]; exact H].
Qed.

Theorem next_opt_stream_inv input fuel r : stream_inv input (rbw r) (rrd r) ->
  res_inv (stream_inv input) (next_opt fuel r).
Proof. apply next_opt_inv; [apply stream_inv_adv|apply stream_inv_fill]. Qed.

(* instance 2: position + buffered bytes = bytes delivered by the Read *)
Lemma fill_inv_adv b d adv : adv <= length (win b) -> fill_inv b d ->
  fill_inv (mkbw (cap b) (skipn adv (win b)) (consumed b + adv) (prior b)) d.
Proof. unfold fill_inv, bw_position. cbn [win prior consumed]. rewrite skipn_length. lia. Qed.

Theorem next_opt_fill_inv fuel r : fill_inv (rbw r) (rrd r) -> res_inv fill_inv (next_opt fuel r).
Proof. apply next_opt_inv; [apply fill_inv_adv|apply fill_inv_preserved]. Qed.

Lemma fill_inv_new capv input sch : fill_inv (rbw (reader_new capv input sch)) (rrd (reader_new capv input sch)).
Proof. reflexivity. Qed.

Theorem position_le_delivered fuel r : fill_inv (rbw r) (rrd r) ->
  match next_opt fuel r with
  | NTok _ r' | NEnd r' | NErr _ r' =>
      fill_inv (rbw r') (rrd r') /\ reader_position r' <= delivered (rrd r')
  | NCrash _ => True
  end.
Proof.
  intros H. pose proof (next_opt_fill_inv fuel r H) as Hi.
  destruct (next_opt fuel r); cbn [res_inv] in Hi; try exact I;
    (split; [exact Hi|unfold fill_inv, reader_position in *; lia]).
Qed.

(* ---------- one call under faults ---------- *)
Definition rokf (input : bytes) (r : reader) : Prop :=
  stream_inv input (rbw r) (rrd r) /\ (cap (rbw r) = 0 \/ length (win (rbw r)) <= cap (rbw r)).

Lemma rokf_of_rok input r1 r2 : readeq r1 r2 -> rok input r2 -> rokf input r1.
Proof.
  intros (Hb & _ & (Hr & _)) ((pre & Hin & Hlen) & _ & Hc). rewrite <- Hb, <- Hr in *.
  split; [exists pre; auto|exact Hc].
Qed.
Lemma rok_erase input r : rokf input r -> rok input (erase r).
Proof.
  intros ((pre & Hin & Hlen) & Hc). unfold erase. split; [exists pre; cbn; auto|].
  split; [cbn [rrd erd sched]; apply clean_no_fail|exact Hc].
Qed.
Lemma rok_rokf input r : rok input r -> rokf input r.
Proof. intros (H1 & _ & H2). split; assumption. Qed.

(* stepres_ws with rokf: the C07 relation between the reference tokenizer's verdict at this
   stream position and the result of the call *)
Definition stepf (input : bytes) (capv nr : nat) (res : tres) (out : nres) : Prop :=
  match res with
  | RTok t s' => exists r', out = NTok t r' /\ rokf input r' /\
                            (stream_of r' = s' \/ s' = 32%N :: stream_of r') /\
                            cap (rbw r') = capv /\ length (rest (rrd r')) <= nr
  | REnd => exists r', out = NEnd r' /\ rokf input r' /\ stream_of r' = []
  | REof k => exists r', out = NErr E_Eof r' /\ rokf input r' /\ length (stream_of r') = k
  end.

Lemma readeq_stream r1 r2 : readeq r1 r2 -> stream_of r1 = stream_of r2 /\ cap (rbw r1) = cap (rbw r2) /\
  rest (rrd r1) = rest (rrd r2).
Proof. intros (Hb & _ & (Hr & _)). unfold stream_of. rewrite Hb, Hr. auto. Qed.

Lemma stepf_transfer input capv nr res o1 o2 : nreq o1 o2 -> stepres_ws input capv nr res o2 -> stepf input capv nr res o1.
Proof.
  intros Hq. destruct res as [t s'| |k]; cbn [stepres_ws stepres stepf].
  - intros (r2 & -> & Hrok & Hs & Hc & Hn). destruct o1 as [t1 r1|r1|e1 r1|s1]; cbn [nreq] in Hq; try contradiction.
    destruct Hq as [-> Hq]. destruct (readeq_stream _ _ Hq) as (E1 & E2 & E3).
    exists r1. split; [reflexivity|]. split; [eapply rokf_of_rok; eauto|]. rewrite E1, E2, E3. auto.
  - intros (r2 & -> & Hrok & Hs). destruct o1 as [t1 r1|r1|e1 r1|s1]; cbn [nreq] in Hq; try contradiction.
    destruct (readeq_stream _ _ Hq) as (E1 & E2 & E3).
    exists r1. split; [reflexivity|]. split; [eapply rokf_of_rok; eauto|]. rewrite E1. auto.
  - intros (r2 & -> & Hrok & Hs). destruct o1 as [t1 r1|r1|e1 r1|s1]; cbn [nreq] in Hq; try contradiction.
    destruct Hq as [-> Hq]. destruct (readeq_stream _ _ Hq) as (E1 & E2 & E3).
    exists r1. split; [reflexivity|]. split; [eapply rokf_of_rok; eauto|]. rewrite E1. auto.
Qed.

(* instance 3: the window never outgrows the buffer *)
Definition win_ok (b : bufwin) (d : rd) : Prop := cap b = 0 \/ length (win b) <= cap b.
Lemma win_ok_adv b d adv : adv <= length (win b) -> win_ok b d ->
  win_ok (mkbw (cap b) (skipn adv (win b)) (consumed b + adv) (prior b)) d.
Proof. unfold win_ok. cbn [cap win]. rewrite skipn_length. lia. Qed.
Lemma win_ok_fill b d : win_ok b d ->
  match bw_fill_buf b d with FillOk _ b' d' | FillIo b' d' | FillFull b' d' => win_ok b' d' end.
Proof.
  unfold win_ok, bw_fill_buf. intros H. destruct (Nat.leb (cap b) (length (win b))) eqn:E.
  - destruct (Nat.eqb (cap b) 0); exact H.
  - apply Nat.leb_gt in E.
    destruct (rd_read d (cap b - length (win b))) as [[bs d']| | | |] eqn:Hrd; cbn [cap win]; try (right; lia).
    destruct (rd_read_split _ _ _ _ Hrd) as (_ & Hle & _). right. rewrite app_length. lia.
Qed.

Theorem next_opt_rokf input fuel r : rokf input r ->
  match next_opt fuel r with NTok _ r' | NEnd r' | NErr _ r' => rokf input r' | NCrash _ => True end.
Proof.
  intros [H1 H2].
  pose proof (next_opt_stream_inv input fuel r H1) as Ha.
  pose proof (next_opt_inv win_ok win_ok_adv win_ok_fill fuel r H2) as Hb.
  destruct (next_opt fuel r); cbn [res_inv] in *; try exact I; split; assumption.
Qed.

Lemma rokf_pos input r : rokf input r -> reader_position r + length (stream_of r) = length input.
Proof.
  intros [(pre & Hin & Hlen) _]. unfold reader_position, stream_of. rewrite Hin, !app_length. lia.
Qed.

(* MAIN (one call): under ANY schedule, a call of next_opt either reports the I/O error -- and
   then the reader still holds a consistent view of the stream (no byte lost, duplicated or
   reordered; window within the buffer) -- or returns exactly what the reference tokenizer tk
   returns at this stream position: the same token / clean end / Eof, with a successor reader
   positioned on the reference tokenizer's remaining input.  No third possibility: no wrong
   token, no clean end, no crash. *)
Theorem next_fault_sound input fuel r :
  wf_bytes input -> rokf input r -> length (rest (rrd r)) + 2 <= fuel ->
  capok (rbw r) (rrd r) (snd (tk (startb r) (stream_of r))) ->
  (exists r', next_opt fuel r = NErr E_Io r' /\ rokf input r' /\ reader_position r' <= length input)
  \/ stepf input (cap (rbw r)) (length (rest (rrd r))) (fst (tk (startb r) (stream_of r))) (next_opt fuel r).
Proof.
  intros Hwf Hrok Hfuel Hcap.
  destruct (next_opt_erase fuel r) as [[r' Hio]|Hq].
  - left. exists r'. split; [exact Hio|].
    pose proof (next_opt_rokf input fuel r Hrok) as Hi. rewrite Hio in Hi.
    split; [exact Hi|]. pose proof (rokf_pos _ _ Hi). lia.
  - right. eapply stepf_transfer; [exact Hq|].
    pose proof (next_opt_step input fuel (erase r) Hwf (rok_erase _ _ Hrok)) as Hs.
    apply Hs; assumption.
Qed.

(* ---------- the whole run under faults ---------- *)
Theorem run_prefix input : wf_bytes input -> forall n fuel r start sref,
  rokf input r -> srel r start sref ->
  length sref < n -> length input + 2 <= fuel ->
  capok (rbw r) (rrd r) (snd (rr start sref)) ->
  run_next n fuel r = (fst (fst (rr start sref)), length input - snd (fst (rr start sref)))
  \/ exists pre suf p,
       run_next n fuel r = (map OTok pre ++ [OErr E_Io], p) /\
       fst (fst (rr start sref)) = map OTok pre ++ suf /\ suf <> [] /\ p <= length input.
Proof.
  intros Hwf. induction n as [|n IH]; intros fuel r start sref Hrok Hrel Hn Hfuel Hcap; [lia|].
  cbn [run_next].
  pose proof (rokf_pos input r Hrok) as Hpos.
  assert (Hrest : length (rest (rrd r)) <= length input).
  { unfold stream_of in Hpos. rewrite app_length in Hpos. lia. }
  assert (Htk : fst (tk (startb r) (stream_of r)) = fst (tk start sref) /\
                snd (tk (startb r) (stream_of r)) <= snd (tk start sref)).
  { destruct Hrel as [[-> ->]|(-> & -> & Hp)]; [split; [reflexivity|lia]|].
    rewrite (startb_pos r Hp), tk_space. split; [reflexivity|apply snd_bump]. }
  destruct Htk as [Htk1 Htk2].
  assert (Hcap1 : capok (rbw r) (rrd r) (snd (tk (startb r) (stream_of r)))).
  { eapply capok_mono; [exact Hcap|reflexivity| |auto]. rewrite rr_unfold.
    destruct (tk start sref) as [[t s'| |k] nd0]; cbn [snd] in *; [|lia|lia].
    destruct (rr false s') as [[l rem] m]. cbn [snd]. lia. }
  destruct (next_fault_sound input fuel r Hwf Hrok ltac:(lia) Hcap1) as [(r' & Hio & Hrok' & Hp')|Hstep].
  { right. rewrite Hio. exists [], (fst (fst (rr start sref))), (reader_position r').
    split; [reflexivity|]. split; [reflexivity|]. split; [apply rr_nonempty|exact Hp']. }
  rewrite Htk1 in Hstep.
  rewrite rr_unfold in Hcap |- *.
  destruct (tk start sref) as [[t s'| |k] nd0] eqn:Etk; cbn [fst snd stepf] in Hstep.
  - destruct Hstep as (r' & Hno & Hrok' & Hs' & Hc' & Hr').
    rewrite Hno.
    pose proof (tk_tok_shrinks (length sref) start sref t s' nd0 (le_n _) Etk) as Hshr.
    pose proof (rokf_pos input r' Hrok') as Hpos'.
    assert (Hlen' : length (stream_of r') <= length s').
    { destruct Hs' as [<- | ->]; cbn [length]; lia. }
    assert (Hp' : reader_position r' > 0).
    { destruct Hrel as [[-> ->]|(-> & -> & Hp)]; cbn [length] in *; lia. }
    assert (Hrel' : srel r' false s').
    { destruct Hs' as [<- | ->]; [left; split; [reflexivity|symmetry; apply startb_pos; exact Hp']|right; auto]. }
    specialize (IH fuel r' false s' Hrok' Hrel' ltac:(lia) Hfuel).
    destruct (rr false s') as [[l rem] m] eqn:Err. cbn [fst snd] in *.
    destruct IH as [IH|(pre & suf & p & Hrun & Hl & Hsuf & Hp)].
    + eapply capok_mono; [exact Hcap|exact Hc'|lia|].
      intros H0. rewrite H0 in Hr'. cbn [length] in Hr'. destruct (rest (rrd r')); [reflexivity|cbn [length] in Hr'; lia].
    + left. rewrite IH. reflexivity.
    + right. exists (t :: pre), suf, p. rewrite Hrun. cbn [map app]. rewrite Hl. auto.
  - left. destruct Hstep as (r' & Hno & Hrok' & Hs'). rewrite Hno. cbn [fst snd].
    pose proof (rokf_pos input r' Hrok') as Hpos'. rewrite Hs' in Hpos'. cbn [length] in Hpos'. f_equal. lia.
  - left. destruct Hstep as (r' & Hno & Hrok' & Hs'). rewrite Hno. cbn [fst snd].
    pose proof (rokf_pos input r' Hrok') as Hpos'. f_equal. lia.
Qed.

Lemma need_capok input capv sch : need input <= capv ->
  capok (rbw (reader_new capv input sch)) (rrd (reader_new capv input sch)) (snd (rr true input)).
Proof.
  intros Hneed. unfold need, ref_tokens in Hneed.
  change (ref_run (S (length input)) true input) with (rr true input) in Hneed.
  cbn [reader_new rbw rrd bw_new cap rest]. destruct capv as [|cv].
  - left. split; [reflexivity|]. destruct input as [|c0 input']; [reflexivity|]. exfalso.
    rewrite rr_unfold in Hneed. pose proof (tk_need_ge true (c0 :: input')) as Hge.
    assert (H1 : 1 <= inee (item true (c0 :: input'))).
    { clear. cbn [item]. destruct (is_ws c0); [cbn; lia|].
      destruct (b_is c0 35). { destruct (find_from _ input' 0); cbn [inee]; lia. }
      destruct (b_is c0 123); [cbn; lia|]. destruct (b_is c0 125); [cbn; lia|].
      destruct (b_is c0 34). { destruct (rq_scan input' 0); cbn [inee]; lia. }
      assert (Hu : forall m, 1 <= inee (bump_item m (unq_item (c0 :: input')))).
      { intros m. unfold unq_item. destruct (find_from _ _ 0); cbn [bump_item inee]; lia. }
      assert (Ho : forall a b, 1 <= inee (op_item input' a b)).
      { intros a b. unfold op_item. destruct input' as [|c3 s1]; [cbn; lia|]. destruct (b_is c3 61); cbn; lia. }
      destruct (b_is c0 64).
      { destruct input' as [|c2 s1]; [cbn; lia|]. destruct (b_is c2 91).
        - destruct (find_from _ s1 0); cbn [inee]; lia.
        - specialize (Hu 0). rewrite bump_item_0 in Hu. exact Hu. }
      destruct (b_is c0 61); [apply Ho|]. destruct (b_is c0 60); [apply Ho|]. destruct (b_is c0 33); [apply Ho|].
      destruct (b_is c0 63); [apply Ho|]. destruct (b_is c0 62); [apply Ho|].
      destruct (b_is c0 239 && true).
      { destruct input' as [|b1 [|b2 s3]]; [cbn; lia|cbn; lia|]. destruct (b_is b1 187 && b_is b2 191); [cbn; lia|apply Hu]. }
      specialize (Hu 0). rewrite bump_item_0 in Hu. exact Hu. }
    destruct (tk true (c0 :: input')) as [[t s'| |k] nd0]; cbn [snd] in *; [|lia|lia].
    destruct (rr false s') as [[l rem] m]. cbn [snd] in Hneed. lia.
  - right. unfold bw_new. cbn [cap]. split; [lia|exact Hneed].
Qed.

Lemma rokf_new capv input sch : rokf input (reader_new capv input sch).
Proof. split; [exists []; cbn; auto|right; cbn; lia]. Qed.

(* run_stream under an ARBITRARY schedule: the fault-free result, or a proper prefix of the
   fault-free token list followed by the I/O error *)
Theorem stream_fault_prefix : forall input sch capv, wf_bytes input -> need input <= capv ->
  run_stream capv sch input = (tokens_of input, length input - leftover input)
  \/ exists pre suf p,
       run_stream capv sch input = (map OTok pre ++ [OErr E_Io], p) /\
       tokens_of input = map OTok pre ++ suf /\ suf <> [] /\ p <= length input.
Proof.
  intros input sch capv Hwf Hneed. unfold run_stream, tokens_of, leftover, ref_tokens.
  change (ref_run (S (length input)) true input) with (rr true input).
  apply (run_prefix input Hwf).
  - apply rokf_new.
  - left. split; reflexivity.
  - lia.
  - unfold default_fuel. lia.
  - apply need_capok. exact Hneed.
Qed.

(* ---------- a failing Read ---------- *)
(* what a call may return while the next event of the schedule is Fail (cap > 0: a real buffer;
   cap = 0 is the slice window, which never reads) *)
Definition failing_res (d : rd) (capv : nat) (o : nres) : Prop :=
  match o with
  | NTok _ r' => rrd r' = d /\ cap (rbw r') = capv     (* served from the buffer: the Read was not called *)
  | NEnd _ => False
  | NErr e r' => (e = E_Io /\ rrd r' = rd_after_fail d) \/ (e = E_BufferFull /\ rrd r' = d)
  | NCrash _ => True
  end.

Lemma emit_failing b d bom t adv : failing_res d (cap b) (emit (mkreader b d bom) t adv).
Proof.
  unfold emit, bw_advance. cbn [rbw]. destruct (Nat.ltb (length (win b)) adv); cbn [failing_res]; auto.
Qed.

Lemma refill_failing fuel b d bom st c o tl : sched d = Fail :: tl -> 0 < cap b ->
  failing_res d (cap b) (refill fuel (mkreader b d bom) st c o).
Proof.
  intros Hs Hcap. destruct fuel as [|f]; [exact I|]. cbn [refill rbw rrd rbom].
  destruct (Nat.ltb (length (win b)) c); [exact I|].
  unfold bw_fill_buf. cbn [cap win].
  destruct (Nat.leb (cap b) _).
  - replace (Nat.eqb (cap b) 0) with false by (symmetry; apply Nat.eqb_neq; lia).
    cbn [failing_res rrd]. auto.
  - unfold rd_read. rewrite Hs. cbn [failing_res rrd]. auto.
Qed.

Lemma fallback_failing fuel b d bom tl : sched d = Fail :: tl -> 0 < cap b ->
  failing_res d (cap b) (fallback fuel (mkreader b d bom)).
Proof.
  intros Hs Hcap. unfold fallback. cbn [rbw rrd rbom].
  destruct (fb _ _ _ _ _ _) as [[st' c' o'|t adv|s] bom']; [eapply refill_failing; eauto|apply emit_failing|exact I].
Qed.

Theorem next_opt_failing fuel r tl : sched (rrd r) = Fail :: tl -> 0 < cap (rbw r) ->
  failing_res (rrd r) (cap (rbw r)) (next_opt fuel r).
Proof.
  destruct r as [b d bom]. cbn [rbw rrd]. intros Hs Hcap.
  pose proof (fallback_failing fuel b d bom tl Hs Hcap) as Hfb.
  unfold next_opt. cbn [rbw].
  destruct (Nat.ltb (length (win b)) 9); [exact Hfb|].
  destruct (nth_error (win b) _) as [c|]; [|exact I].
  destruct (b_is c 123); [apply emit_failing|].
  destruct (b_is c 125); [apply emit_failing|].
  destruct (is_alnum_dash c).
  { destruct (fu_outer _ _ _); [apply emit_failing|exact Hfb|exact I]. }
  destruct (b_is c 34); [|exact Hfb].
  destruct (fq_outer _ _ _ _); [apply emit_failing|exact Hfb|exact I].
Qed.

(* structural: a run over a failing Read never ends with OEnd or Eof *)
Lemma run_failing : forall n fuel r tl, sched (rrd r) = Fail :: tl -> 0 < cap (rbw r) ->
  exists pre x, fst (run_next n fuel r) = map OTok pre ++ [x] /\
    (x = OErr E_Io \/ x = OErr E_BufferFull \/ exists s, x = OCrash s).
Proof.
  induction n as [|n IH]; intros fuel r tl Hs Hcap.
  - exists [], (OCrash 7099%N). split; [reflexivity|eauto].
  - cbn [run_next]. pose proof (next_opt_failing fuel r tl Hs Hcap) as Hf.
    destruct (next_opt fuel r) as [t r'|r'|e r'|s]; cbn [failing_res] in Hf.
    + destruct Hf as [Hd Hc]. destruct (IH fuel r' tl) as (pre & x & Hrun & Hx); [rewrite Hd; exact Hs|lia|].
      destruct (run_next n fuel r') as [l p]. cbn [fst] in *. exists (t :: pre), x. rewrite Hrun. auto.
    + contradiction.
    + exists [], (OErr e). split; [reflexivity|]. destruct Hf as [[-> _]|[-> _]]; auto.
    + exists [], (OCrash s). split; [reflexivity|eauto].
Qed.

Lemma rr_shape : forall n start s, length s <= n ->
  exists pre x, fst (fst (rr start s)) = map OTok pre ++ [x] /\ (x = OEnd \/ x = OErr E_Eof).
Proof.
  induction n as [|n IH]; intros start s Hn; rewrite rr_unfold;
    destruct (tk start s) as [[t s'| |k] m] eqn:E.
  - apply tk_tok_shrinks with (n := length s) in E; lia.
  - exists [], OEnd. auto.
  - exists [], (OErr E_Eof). auto.
  - apply tk_tok_shrinks with (n := length s) in E; [|lia].
    destruct (IH false s' ltac:(lia)) as (pre & x & Hl & Hx).
    destruct (rr false s') as [[l rem] m']. cbn [fst] in *. exists (t :: pre), x. rewrite Hl. auto.
  - exists [], OEnd. auto.
  - exists [], (OErr E_Eof). auto.
Qed.

(* persistent failure: from any consistent reader state in which the Read is failing, the run
   does not complete: it returns the tokens that are already buffered (a prefix of the
   fault-free tokens) and then the I/O error -- never a clean end, never Eof. *)
Theorem persistent_run input : wf_bytes input -> forall n fuel r start sref tl,
  rokf input r -> srel r start sref ->
  length sref < n -> length input + 2 <= fuel ->
  capok (rbw r) (rrd r) (snd (rr start sref)) ->
  sched (rrd r) = Fail :: tl -> 0 < cap (rbw r) ->
  exists pre suf p,
    run_next n fuel r = (map OTok pre ++ [OErr E_Io], p) /\
    fst (fst (rr start sref)) = map OTok pre ++ suf /\ suf <> [] /\ p <= length input.
Proof.
  intros Hwf n fuel r start sref tl Hrok Hrel Hn Hfuel Hcap Hs Hcpos.
  destruct (run_prefix input Hwf n fuel r start sref Hrok Hrel Hn Hfuel Hcap) as [Heq|H]; [exfalso|exact H].
  destruct (run_failing n fuel r tl Hs Hcpos) as (pre & x & Hrun & Hx).
  destruct (rr_shape (length sref) start sref (le_n _)) as (pre' & y & Hl & Hy).
  rewrite Heq in Hrun. cbn [fst] in Hrun. rewrite Hl in Hrun.
  apply app_inj_tail in Hrun as [_ Hxy]. subst y.
  destruct Hy as [->| ->]; destruct Hx as [Hx|[Hx|[s Hx]]]; discriminate.
Qed.

(* a Read that fails from the first call on: the run is exactly the I/O error at position 0 *)
Theorem stream_fail_first input capv tl : 0 < capv ->
  run_stream capv (Fail :: tl) input = ([OErr E_Io], 0).
Proof.
  intros Hcap. unfold run_stream. replace (length input + 2) with (S (length input + 1)) by lia.
  cbn [run_next]. unfold default_fuel.
  replace (4 * (length input + length (Fail :: tl)) + 64) with (S (4 * (length input + length (Fail :: tl)) + 63)) by lia.
  unfold next_opt, reader_new, bw_new. cbn [rbw win length Nat.ltb Nat.leb].
  unfold fallback. cbn [rbw win length fb rbom rrd]. cbn [refill rbw rrd rbom win length Nat.ltb Nat.leb].
  unfold bw_fill_buf. cbn [cap win skipn length Nat.sub].
  replace (Nat.leb capv 0) with false by (symmetry; apply Nat.leb_gt; exact Hcap).
  unfold rd_read. cbn [sched]. reflexivity.
Qed.

(* ---------- retry after an I/O error (outside quoted scalars) ---------- *)
(* Known finding text-retry-in-quote: when the failed read happens while a quoted scalar is
   pending, the window is repositioned AFTER the opening quote, so a retried call does not see
   the scalar from its first byte.  Nothing is claimed for that case: the statement below
   excludes positions whose fault-free verdict is a quoted scalar or Eof (an unterminated quote
   is reported as Eof, and the pending state is not observable from outside). *)
Definition qeof (res : tres) : Prop :=
  match res with RTok (RQuo _) _ => True | REof _ => True | _ => False end.

Definition retry_ok (capv nr : nat) (r' : reader) (ref : tres * nat) : Prop :=
  fst (tk (startb r') (stream_of r')) = fst ref /\ snd (tk (startb r') (stream_of r')) <= snd ref /\
  cap (rbw r') = capv /\ length (rest (rrd r')) <= nr.

Lemma retry_ok_mono capv nr nr' r' ref ref' :
  retry_ok capv nr r' ref -> fst ref = fst ref' -> snd ref <= snd ref' -> nr <= nr' -> retry_ok capv nr' r' ref'.
Proof. intros (H1 & H2 & H3 & H4) E1 E2 E3. unfold retry_ok. rewrite <- E1. repeat split; try assumption; lia. Qed.

Lemma refill_fill_f input b d bom c :
  rokf input (mkreader b d bom) -> c <= length (win b) ->
  let cb := skipn (length (win b) - c) (win b) in
  let b1 := mkbw (cap b) cb (consumed b + (length (win b) - c)) (prior b) in
  length cb = c /\
  match bw_fill_buf b1 d with
  | FillOk n b2 d2 => exists bs, length bs = n /\ rest d = bs ++ rest d2 /\ win b2 = cb ++ bs /\
        cap b2 = cap b /\ bw_position b2 = bw_position b + (length (win b) - c) /\
        (forall bom', rokf input (mkreader b2 d2 bom'))
  | FillIo b2 d2 => win b2 = cb /\ rest d2 = rest d /\ cap b2 = cap b /\
        bw_position b2 = bw_position b + (length (win b) - c)
  | FillFull _ _ => True
  end.
Proof.
  intros Hrok Hc cb b1.
  pose proof (refill_fill input b (erd d) bom c (rok_erase _ _ Hrok) Hc) as [Hcb Hfill]. cbv zeta in Hcb, Hfill.
  fold cb in Hcb, Hfill. fold b1 in Hfill. split; [exact Hcb|].
  pose proof (fill_eq b1 d (erd d) (rdeq_erd d)) as Heq.
  destruct (bw_fill_buf b1 d) as [n b2 d2|b2 d2|b2 d2] eqn:Ef; [| |exact I].
  - destruct Heq as (d2' & Ef2 & (Hr & Hq)). rewrite Ef2 in Hfill.
    destruct Hfill as (bs & H1 & H2 & H3 & H4 & H5 & H6 & _). exists bs. rewrite Hr. cbn [erd rest] in H2.
    split; [exact H1|]. split; [exact H2|]. split; [exact H3|]. split; [exact H4|]. split; [exact H5|].
    intros bom'. apply (rokf_of_rok input _ (mkreader b2 d2' bom')); [|apply H6].
    unfold readeq. cbn [rbw rrd rbom]. unfold rdeq. auto.
  - clear Heq Hfill. unfold bw_fill_buf in Ef. destruct (Nat.leb (cap b1) (length (win b1))).
    + destruct (Nat.eqb (cap b1) 0); discriminate.
    + destruct (rd_read d _) as [[bs d']| | | |]; [discriminate| | | |]; injection Ef as <- <-;
        unfold bw_position, b1; cbn [win cap prior consumed rest rd_after_fail]; repeat split; lia.
Qed.

Lemma start_after_true pos bom bom' c wl :
  c <= wl -> (N.eqb bom 0 = false -> bom' = bom) ->
  Nat.eqb (pos + (wl - c)) 0 && N.eqb bom' 0 = true ->
  Nat.eqb pos 0 && N.eqb bom 0 && Nat.eqb c wl = true.
Proof.
  intros Hc Hb H. apply andb_prop in H as [H1 H2]. apply Nat.eqb_eq in H1.
  assert (pos = 0) by lia. assert (c = wl) by lia. subst. rewrite !Nat.eqb_refl, andb_true_r. cbn [andb].
  destruct (N.eqb bom 0) eqn:E; [reflexivity|]. rewrite (Hb eq_refl) in H2. congruence.
Qed.

(* start only matters for the byte order mark; an atom recognised as unquoted with start = true
   is the same unquoted atom with start = false *)
Lemma item_unq_start_irrel s m : item true s = bump_item m (unq_item s) ->
  exists m', m' <= m /\ item false s = bump_item m' (unq_item s).
Proof.
  destruct s as [|c s']; [intros H; exists m; split; [lia|exact H]|]. cbn [item].
  destruct (is_ws c); [intros H; exists m; split; [lia|exact H]|].
  destruct (b_is c 35); [intros H; exists m; split; [lia|exact H]|].
  destruct (b_is c 123); [intros H; exists m; split; [lia|exact H]|].
  destruct (b_is c 125); [intros H; exists m; split; [lia|exact H]|].
  destruct (b_is c 34); [intros H; exists m; split; [lia|exact H]|].
  destruct (b_is c 64); [intros H; exists m; split; [lia|exact H]|].
  destruct (b_is c 61); [intros H; exists m; split; [lia|exact H]|].
  destruct (b_is c 60); [intros H; exists m; split; [lia|exact H]|].
  destruct (b_is c 33); [intros H; exists m; split; [lia|exact H]|].
  destruct (b_is c 63); [intros H; exists m; split; [lia|exact H]|].
  destruct (b_is c 62); [intros H; exists m; split; [lia|exact H]|].
  rewrite andb_false_r. destruct (b_is c 239 && true); [|intros H; exists m; split; [lia|exact H]].
  intros _. exists 0. split; [lia|]. rewrite bump_item_0. reflexivity.
Qed.

Lemma tk_unq_start start cb y : uinv start cb ->
  forall start2, (start2 = true -> start = true) ->
  fst (tk start2 (cb ++ y)) = fst (tk start (cb ++ y)) /\ snd (tk start2 (cb ++ y)) <= snd (tk start (cb ++ y)).
Proof.
  intros (Hne & Hfind & Hit) start2 Hs. destruct (Hit y) as (m & _ & Hm).
  destruct start2, start; try (split; [reflexivity|lia]); [specialize (Hs eq_refl); discriminate|].
  destruct (item_unq_start_irrel _ _ Hm) as (m' & Hle & Hm'). rewrite !tk_unfold, Hm, Hm'.
  unfold unq_item. destruct (find_from is_boundary (tl (cb ++ y)) 0); cbn [bump_item fst snd]; split; try reflexivity; lia.
Qed.

Ltac noio H := try (unfold E_Eof, E_Io, E_BufferFull in H; discriminate H).

Theorem refill_retry input : forall fuel r st c o start' r',
  rokf input r -> c <= length (win (rbw r)) ->
  pend st start' (skipn (length (win (rbw r)) - c) (win (rbw r))) o ->
  (st = PNone -> start' = Nat.eqb (reader_position r + (length (win (rbw r)) - c)) 0 && N.eqb (rbom r) 0) ->
  (st = PUnq -> Nat.eqb (reader_position r + (length (win (rbw r)) - c)) 0 && N.eqb (rbom r) 0 = true -> start' = true) ->
  refill fuel r st c o = NErr E_Io r' ->
  qeof (fst (tk start' (patom st (skipn (length (win (rbw r)) - c) (win (rbw r))) ++ rest (rrd r)))) \/
  retry_ok (cap (rbw r)) (length (rest (rrd r))) r'
           (tk start' (patom st (skipn (length (win (rbw r)) - c) (win (rbw r))) ++ rest (rrd r))).
Proof.
  induction fuel as [|f IH]; intros r st c o start' r' Hrok Hc Hpend Hstart Hstart2 Hres; [discriminate|].
  destruct r as [b d bom]. cbn [rbw rrd rbom] in *.
  cbn [refill rbw rrd rbom] in Hres.
  replace (Nat.ltb (length (win b)) c) with false in Hres by (symmetry; apply Nat.ltb_ge; exact Hc).
  destruct (refill_fill_f input b d bom c Hrok Hc) as [Hcb Hfill]. cbv zeta in Hcb, Hfill.
  remember (skipn (length (win b) - c) (win b)) as cb eqn:Ecbdef. clear Ecbdef.
  destruct (bw_fill_buf _ d) as [n b2 d2|b2 d2|b2 d2]; [| |noio Hres].
  2:{ (* the read failed here *)
      destruct Hfill as (Hw2 & Hr2 & Hcap2 & Hpos2). inversion Hres; subst r'. clear Hres.
      assert (Hso : stream_of (mkreader b2 d2 bom) = cb ++ rest d) by (unfold stream_of; cbn [rbw rrd]; rewrite Hw2, Hr2; reflexivity).
      assert (Hsb : startb (mkreader b2 d2 bom) = Nat.eqb (reader_position (mkreader b d bom) + (length (win b) - c)) 0 && N.eqb bom 0).
      { unfold startb, reader_position. cbn [rbw rbom]. rewrite Hpos2. reflexivity. }
      destruct st; cbn [pend patom] in *.
      - right. unfold retry_ok. rewrite Hso, Hsb, <- Hstart by reflexivity. cbn [rbw rrd]. rewrite Hr2. auto.
      - left. destruct Hpend as [-> _]. cbn [app]. rewrite tk_unfold, item_quote.
        destruct (rq_scan (cb ++ rest d) 0); exact I.
      - right. destruct Hpend as [Hu _]. unfold retry_ok. rewrite Hso, Hsb. cbn [rbw rrd]. rewrite Hr2.
        destruct (tk_unq_start start' cb (rest d) Hu _ (Hstart2 eq_refl)) as [E1 E2]. auto. }
  destruct Hfill as (bs & Hbs & Hsplit & Hw2 & Hcap2 & Hpos2 & Hrok2).
  assert (Hlen2 : length (rest d2) <= length (rest d)) by (rewrite Hsplit, app_length; lia).
  destruct n as [|n].
  - (* end of the stream: no I/O error possible *)
    exfalso. destruct st.
    + destruct (Nat.eqb c 0 || _); [destruct (bw_advance b2 c); noio Hres|noio Hres].
    + noio Hres.
    + destruct (bw_advance b2 (length (win b2))); noio Hres.
  - (* more data arrived *)
    assert (Hstream : cb ++ rest d = win b2 ++ rest d2) by (rewrite Hw2, Hsplit, app_assoc; reflexivity).
    destruct st; cbn [pend patom] in *.
    + (* None: rescan the window from its start *)
      cbn [rbw rrd rbom] in Hres.
      pose proof (fb_sound (S (S (length (win b2)))) (Nat.eqb (bw_position b2) 0) (win b2) (win b2) 0 bom (rest d2)
                    eq_refl ltac:(lia) ltac:(destruct (N.eqb bom 0); lia)) as Hfb.
      rewrite Nat.eqb_refl, andb_true_r in Hfb.
      assert (Hst : Nat.eqb (bw_position b2) 0 && N.eqb bom 0 = start').
      { rewrite Hstart by reflexivity. rewrite Hpos2. reflexivity. }
      rewrite Hst in Hfb. rewrite Hstream in *.
      destruct (fb _ _ _ _ _ _) as [a bom'] eqn:Efb. destruct Hfb as [Hb1 Hfb]. cbn [fst snd] in Hb1, Hfb.
      destruct a as [st' c' o'|t adv|site]; [| |contradiction].
      * destruct Hfb as (Hc' & Hp' & Hb2 & (m & Hmle & Hm)).
        rewrite Hm, fst_bump.
        destruct (IH (mkreader b2 d2 bom') st' c' o' (start' && Nat.eqb c' (length (win b2))) r') as [Hq|Hr]; cbn [rbw rrd rbom].
        -- apply Hrok2.
        -- exact Hc'.
        -- exact Hp'.
        -- intros Hs. unfold reader_position. cbn [rbw]. rewrite <- Hst. apply start_after; [exact Hc'|exact Hb1|].
           rewrite Hst. apply Hb2; exact Hs.
        -- intros _ HE. unfold reader_position in HE. cbn [rbw] in HE. rewrite <- Hst.
           apply (start_after_true _ _ bom'); [exact Hc'|exact Hb1|exact HE].
        -- exact Hres.
        -- left. exact Hq.
        -- right. cbn [rbw rrd] in Hr. rewrite Hcap2 in Hr. eapply retry_ok_mono; [exact Hr|reflexivity|apply snd_bump|exact Hlen2].
      * exfalso. unfold emit in Hres. destruct (bw_advance _ _); noio Hres.
    + (* Quote: the verdict is a quoted scalar or Eof *)
      left. destruct Hpend as [-> _]. cbn [app]. rewrite tk_unfold, item_quote.
      destruct (rq_scan (cb ++ rest d) 0); exact I.
    + (* Unquoted: resume the boundary scan at the old window length *)
      destruct Hpend as [(Hne & Hfind & Hit) ->]. cbn [rbw rrd rbom] in Hres.
      replace (Nat.ltb (length (win b2)) (length cb)) with false in Hres by (symmetry; apply Nat.ltb_ge; rewrite Hw2, app_length; lia).
      assert (Hsk : skipn (length cb) (win b2) = bs) by (rewrite Hw2, skipn_app_le, skipn_all by lia; reflexivity).
      unfold refill_unq_scan in Hres. rewrite Hsk in Hres.
      destruct cb as [|a cb'] eqn:Ecb; [congruence|]. rewrite <- Ecb in *.
      assert (Hfind' : find_from is_boundary cb' 0 = None) by (rewrite Ecb in Hfind; exact Hfind).
      assert (Hlen : length cb = S (length cb')) by (rewrite Ecb; reflexivity).
      assert (Htl : forall z, find_from is_boundary (tl (cb ++ z)) 0 = find_from is_boundary z (length cb')).
      { intros z. rewrite Ecb. cbn [app tl]. rewrite (find_from_none_app _ cb' z 0 Hfind'). reflexivity. }
      assert (Hsh : forall z, find_from is_boundary z (length cb) = option_map (fun i => i + 1) (find_from is_boundary z (length cb'))).
      { intros z. rewrite Hlen. replace (S (length cb')) with (length cb' + 1) by lia. apply find_from_shift. }
      destruct (find_from is_boundary bs (length cb)) as [i|] eqn:Escan.
      * exfalso. unfold emit in Hres. destruct (bw_advance _ _); noio Hres.
      * rewrite Hsh in Escan. destruct (find_from is_boundary bs (length cb')) as [i0|] eqn:E0; [discriminate|].
        assert (Hpat : cb ++ rest d = patom PUnq (skipn (length (win b2) - length (win b2)) (win b2)) ++ rest d2).
        { rewrite Nat.sub_diag. cbn [skipn patom]. exact Hstream. }
        rewrite Hpat.
        destruct (IH (mkreader b2 d2 bom) PUnq (length (win b2)) (length (win b2)) start' r') as [Hq|Hr]; cbn [rbw rrd rbom].
        -- apply Hrok2.
        -- lia.
        -- rewrite Nat.sub_diag. cbn [skipn pend]. split; [|reflexivity]. split; [|split].
           ++ rewrite Hw2. intros H0. apply app_eq_nil in H0. destruct H0; congruence.
           ++ rewrite Hw2, Htl. replace (length cb') with (0 + length cb') by lia.
              rewrite find_from_shift, <- (find_from_shift _ _ 0 (length cb')). cbn [Nat.add]. exact E0.
           ++ intros y. destruct (Hit (bs ++ y)) as (m & Hm1 & Hm2). exists m.
              rewrite Hw2, <- app_assoc. split; [rewrite app_length; lia|exact Hm2].
        -- discriminate.
        -- intros _ HE. apply Hstart2; [reflexivity|]. rewrite <- HE. unfold reader_position. cbn [rbw].
           rewrite Hpos2, Nat.sub_diag, Nat.add_0_r. reflexivity.
        -- exact Hres.
        -- left. exact Hq.
        -- right. cbn [rbw rrd] in Hr. rewrite Hcap2 in Hr. eapply retry_ok_mono; [exact Hr|reflexivity|lia|exact Hlen2].
Qed.

Theorem fallback_retry input fuel r r' :
  rokf input r -> fallback fuel r = NErr E_Io r' ->
  qeof (fst (tk (startb r) (stream_of r))) \/
  retry_ok (cap (rbw r)) (length (rest (rrd r))) r' (tk (startb r) (stream_of r)).
Proof.
  intros Hrok Hres. destruct r as [b d bom]. unfold fallback, startb, stream_of, reader_position in *.
  cbn [rbw rrd rbom] in *.
  pose proof (fb_sound (S (S (length (win b)))) (Nat.eqb (bw_position b) 0) (win b) (win b) 0 bom (rest d)
                eq_refl ltac:(lia) ltac:(destruct (N.eqb bom 0); lia)) as Hfb.
  rewrite Nat.eqb_refl, andb_true_r in Hfb.
  destruct (fb _ _ _ _ _ _) as [a bom'] eqn:Efb. destruct Hfb as [Hb1 Hfb]. cbn [fst snd] in Hb1, Hfb.
  destruct a as [st' c' o'|t adv|site]; [| |contradiction].
  - destruct Hfb as (Hc' & Hp' & Hb2 & (m & Hmle & Hm)). rewrite Hm, fst_bump.
    destruct (refill_retry input fuel (mkreader b d bom') st' c' o'
                (Nat.eqb (bw_position b) 0 && N.eqb bom 0 && Nat.eqb c' (length (win b))) r') as [Hq|Hr]; cbn [rbw rrd rbom].
    + destruct Hrok as [H1 H2]. split; [exact H1|exact H2].
    + exact Hc'.
    + exact Hp'.
    + intros Hs. unfold reader_position. cbn [rbw]. apply start_after; [exact Hc'|exact Hb1|apply Hb2; exact Hs].
    + intros _ HE. unfold reader_position in HE. cbn [rbw] in HE.
      apply (start_after_true _ _ bom'); [exact Hc'|exact Hb1|exact HE].
    + exact Hres.
    + left. exact Hq.
    + right. cbn [rbw rrd] in Hr. eapply retry_ok_mono; [exact Hr|reflexivity|apply snd_bump|lia].
  - exfalso. unfold emit in Hres. destruct (bw_advance _ _); noio Hres.
Qed.

Lemma rokf_wf input r : wf_bytes input -> rokf input r -> wf_bytes (win (rbw r)).
Proof.
  intros Hwf [(pre & Hin & _) _]. unfold wf_bytes in *. rewrite Hin in Hwf.
  apply Forall_app in Hwf as [_ Hwf]. apply Forall_app in Hwf as [Hwf _]. exact Hwf.
Qed.

Theorem next_opt_retry_pos input fuel r r' :
  wf_bytes input -> rokf input r -> next_opt fuel r = NErr E_Io r' ->
  qeof (fst (tk (startb r) (stream_of r))) \/
  retry_ok (cap (rbw r)) (length (rest (rrd r))) r' (tk (startb r) (stream_of r)).
Proof.
  intros Hwf Hrok Hres.
  destruct (next_opt_fast_eq_fallback fuel r (rokf_wf _ _ Hwf Hrok)) as [Heq|(t & i & Hnth & Hf & Hn)].
  - rewrite Heq in Hres. eapply fallback_retry; eassumption.
  - exfalso. rewrite Hn in Hres. unfold emit in Hres. destruct (bw_advance _ _); noio Hres.
Qed.

Lemma stepf_mono input capv nr nr' res out : nr <= nr' -> stepf input capv nr res out -> stepf input capv nr' res out.
Proof.
  intros Hle. destruct res as [t s'| |k]; cbn [stepf]; [|auto|auto].
  intros (r' & H1 & H2 & H3 & H4 & H5). exists r'. repeat split; try assumption; try apply H2. lia.
Qed.

(* RETRY: a call fails with E_Io at a position whose fault-free verdict is not a quoted scalar
   and not Eof.  Calling next_opt again on the reader returned with the error either fails again
   (a persistent fault) or returns exactly what the failed call would have returned without the
   fault: the pending atom is seen again from its first byte, nothing is skipped or repeated. *)
Theorem retry_outside_quote input fuel r r' :
  wf_bytes input -> rokf input r -> length (rest (rrd r)) + 2 <= fuel ->
  capok (rbw r) (rrd r) (snd (tk (startb r) (stream_of r))) ->
  next_opt fuel r = NErr E_Io r' ->
  ~ qeof (fst (tk (startb r) (stream_of r))) ->
  (exists r'', next_opt fuel r' = NErr E_Io r'' /\ rokf input r'' /\ reader_position r'' <= length input)
  \/ stepf input (cap (rbw r)) (length (rest (rrd r))) (fst (tk (startb r) (stream_of r))) (next_opt fuel r').
Proof.
  intros Hwf Hrok Hfuel Hcap Hres Hnq.
  destruct (next_opt_retry_pos input fuel r r' Hwf Hrok Hres) as [Hq|(E1 & E2 & E3 & E4)]; [contradiction|].
  pose proof (next_opt_rokf input fuel r Hrok) as Hrok'. rewrite Hres in Hrok'.
  assert (Hcap' : capok (rbw r') (rrd r') (snd (tk (startb r') (stream_of r')))).
  { eapply capok_mono; [exact Hcap|exact E3|exact E2|].
    intros H0. rewrite H0 in E4. cbn [length] in E4. destruct (rest (rrd r')); [reflexivity|cbn [length] in E4; lia]. }
  destruct (next_fault_sound input fuel r' Hwf Hrok' ltac:(lia) Hcap') as [H|H]; [left; exact H|right].
  rewrite E1, E3 in H. eapply stepf_mono; [exact E4|exact H].
Qed.

(* ---------- the whole run against its fault-free twin, without any hypothesis ---------- *)
Lemma run_next_nonempty n fuel r : fst (run_next n fuel r) <> [].
Proof.
  destruct n as [|n]; cbn [run_next]; [discriminate|].
  destruct (next_opt fuel r) as [t r'|r'|e r'|s]; try discriminate.
  destruct (run_next n fuel r') as [l p]. discriminate.
Qed.

Lemma readeq_pos r1 r2 : readeq r1 r2 -> reader_position r1 = reader_position r2.
Proof. intros (Hb & _). unfold reader_position. rewrite Hb. reflexivity. Qed.

(* Any buffer size (including buffers that are too small: BufferFull is preserved), any input,
   any schedule: the run under faults is the run of the same reader over the schedule with the
   Fail events removed, or a proper prefix of that run's tokens followed by the I/O error. *)
Theorem run_lockstep : forall n fuel r1 r2, readeq r1 r2 ->
  run_next n fuel r1 = run_next n fuel r2
  \/ exists pre suf p,
       run_next n fuel r1 = (map OTok pre ++ [OErr E_Io], p) /\
       fst (run_next n fuel r2) = map OTok pre ++ suf /\ suf <> [].
Proof.
  induction n as [|n IH]; intros fuel r1 r2 Heq.
  - left. cbn [run_next]. rewrite (readeq_pos _ _ Heq). reflexivity.
  - pose proof (run_next_nonempty (S n) fuel r2) as Hne. cbn [run_next] in *.
    destruct r1 as [b d1 bom], r2 as [b' d2 bom']. destruct Heq as (Hb & Hbom & Hd). cbn [rbw rbom rrd] in Hb, Hbom, Hd. subst b' bom'.
    destruct (next_opt_eq fuel b d1 d2 bom Hd) as [[r' Hio]|Hq].
    + right. rewrite Hio. exists [], (fst (match next_opt fuel (mkreader b d2 bom) with
        | NTok t r'0 => let '(l, p) := run_next n fuel r'0 in (OTok t :: l, p)
        | NEnd r'0 => ([OEnd], reader_position r'0)
        | NErr e r'0 => ([OErr e], reader_position r'0)
        | NCrash s => ([OCrash s], 0) end)), (reader_position r').
      split; [reflexivity|]. split; [reflexivity|exact Hne].
    + destruct (next_opt fuel (mkreader b d1 bom)) as [t1 r1'|r1'|e1 r1'|s1];
        destruct (next_opt fuel (mkreader b d2 bom)) as [t2 r2'|r2'|e2 r2'|s2]; cbn [nreq] in Hq; try contradiction.
      * destruct Hq as [-> Hq]. destruct (IH fuel r1' r2' Hq) as [E|(pre & suf & p & E1 & E2 & E3)].
        -- left. rewrite E. reflexivity.
        -- right. rewrite E1. destruct (run_next n fuel r2') as [l2 p2]. cbn [fst] in *.
           exists (t2 :: pre), suf, p. rewrite E2. auto.
      * left. rewrite (readeq_pos _ _ Hq). reflexivity.
      * destruct Hq as [-> Hq]. left. rewrite (readeq_pos _ _ Hq). reflexivity.
      * subst. left. reflexivity.
Qed.

Corollary stream_lockstep capv sch input :
  let twin := run_next (length input + 2) (default_fuel input sch) (reader_new capv input (clean sch)) in
  run_stream capv sch input = twin
  \/ exists pre suf p,
       run_stream capv sch input = (map OTok pre ++ [OErr E_Io], p) /\
       fst twin = map OTok pre ++ suf /\ suf <> [].
Proof.
  cbv zeta. unfold run_stream. apply run_lockstep.
  unfold readeq, reader_new, rdeq. cbn [rbw rrd rbom rest sched delivered]. auto.
Qed.

(* ---------- the other operations of the reader: read_bytes, skip_container, skip_unquoted_value ---------- *)
Definition oreq {A} (R : A -> A -> Prop) (o1 o2 : outcome A) : Prop :=
  match o1, o2 with
  | Ok a, Ok b => R a b
  | Err e1, Err e2 => e1 = e2
  | Panic s1, Panic s2 => s1 = s2
  | OOB s1, OOB s2 => s1 = s2
  | OutOfFuel, OutOfFuel => True
  | _, _ => False
  end.

Lemma readeq_mk b d1 d2 bom : rdeq d1 d2 -> readeq (mkreader b d1 bom) (mkreader b d2 bom).
Proof. intros H. unfold readeq. cbn [rbw rrd rbom]. auto. Qed.

Theorem read_bytes_eq : forall fuel b d1 d2 bom n, rdeq d1 d2 ->
  read_bytes fuel (mkreader b d1 bom) n = Err E_Io \/
  oreq (fun x y => fst x = fst y /\ readeq (snd x) (snd y))
       (read_bytes fuel (mkreader b d1 bom) n) (read_bytes fuel (mkreader b d2 bom) n).
Proof.
  induction fuel as [|f IH]; intros b d1 d2 bom n Heq; [right; exact I|].
  cbn [read_bytes rbw rrd rbom]. destruct (Nat.ltb (length (win b)) n).
  - pose proof (fill_eq b d1 d2 Heq) as Hf.
    destruct (bw_fill_buf b d1) as [k b2 d1'|b2 d1'|b2 d1'].
    + destruct Hf as (d2' & -> & Heq'). destruct k as [|k]; [right; reflexivity|]. apply IH. exact Heq'.
    + left. reflexivity.
    + destruct Hf as (d2' & -> & Heq'). right. reflexivity.
  - right. destruct (bw_advance b n); cbn [oreq]; auto. cbn [fst snd]. split; [reflexivity|].
    unfold with_bw. cbn [rrd rbom]. apply readeq_mk. exact Heq.
Qed.

Theorem skip_container_loop_eq : forall fuel b d1 d2 bom ptr st depth, rdeq d1 d2 ->
  skip_container_loop fuel (mkreader b d1 bom) ptr st depth = Err E_Io \/
  oreq readeq (skip_container_loop fuel (mkreader b d1 bom) ptr st depth)
              (skip_container_loop fuel (mkreader b d2 bom) ptr st depth).
Proof.
  induction fuel as [|f IH]; intros b d1 d2 bom ptr st depth Heq; [right; exact I|].
  cbn [skip_container_loop rbw rrd rbom].
  destruct (sk_scan _ _ _ _ _) as [adv|p st' d'|s].
  - right. destruct (bw_advance b adv); cbn [oreq]; auto. unfold with_bw. cbn [rrd rbom]. apply readeq_mk. exact Heq.
  - destruct (bw_advance b p) as [b0| | | |]; try (right; reflexivity).
    pose proof (fill_eq b0 d1 d2 Heq) as Hf.
    destruct (bw_fill_buf b0 d1) as [k b2 d1'|b2 d1'|b2 d1'].
    + destruct Hf as (d2' & -> & Heq'). destruct k as [|k]; [right; reflexivity|]. apply IH. exact Heq'.
    + left. reflexivity.
    + destruct Hf as (d2' & -> & Heq'). right. reflexivity.
  - right. reflexivity.
Qed.

Theorem skip_unquoted_value_loop_eq : forall fuel b d1 d2 bom ic, rdeq d1 d2 ->
  skip_unquoted_value_loop fuel (mkreader b d1 bom) ic = Err E_Io \/
  oreq readeq (skip_unquoted_value_loop fuel (mkreader b d1 bom) ic)
              (skip_unquoted_value_loop fuel (mkreader b d2 bom) ic).
Proof.
  induction fuel as [|f IH]; intros b d1 d2 bom ic Heq; [right; exact I|].
  cbn [skip_unquoted_value_loop rbw rrd rbom].
  destruct (suv_scan _ _ _) as [[[[|] i]|]|ic'].
  - destruct (bw_advance b (S i)) as [b0| | | |]; try (right; reflexivity).
    unfold with_bw, skip_container. cbn [rrd rbom]. apply skip_container_loop_eq. exact Heq.
  - right. destruct (bw_advance b i); cbn [oreq]; auto. unfold with_bw. cbn [rrd rbom]. apply readeq_mk. exact Heq.
  - right. cbn [oreq]. apply readeq_mk. exact Heq.
  - destruct (bw_advance b (length (win b))) as [b0| | | |]; try (right; reflexivity).
    pose proof (fill_eq b0 d1 d2 Heq) as Hf.
    destruct (bw_fill_buf b0 d1) as [k b2 d1'|b2 d1'|b2 d1'].
    + destruct Hf as (d2' & -> & Heq'). destruct k as [|k]; [right; cbn [oreq]; apply readeq_mk; exact Heq'|]. apply IH. exact Heq'.
    + left. reflexivity.
    + destruct Hf as (d2' & -> & Heq'). right. reflexivity.
Qed.

(* packaged on readers *)
Corollary read_bytes_fault fuel r1 r2 n : readeq r1 r2 ->
  read_bytes fuel r1 n = Err E_Io \/
  oreq (fun x y => fst x = fst y /\ readeq (snd x) (snd y)) (read_bytes fuel r1 n) (read_bytes fuel r2 n).
Proof.
  destruct r1 as [b d1 bom], r2 as [b' d2 bom']. intros (Hb & Hbom & Hd). cbn [rbw rbom rrd] in *. subst.
  apply read_bytes_eq. exact Hd.
Qed.
Corollary skip_container_fault fuel r1 r2 : readeq r1 r2 ->
  skip_container fuel r1 = Err E_Io \/ oreq readeq (skip_container fuel r1) (skip_container fuel r2).
Proof.
  destruct r1 as [b d1 bom], r2 as [b' d2 bom']. intros (Hb & Hbom & Hd). cbn [rbw rbom rrd] in *. subst.
  apply skip_container_loop_eq. exact Hd.
Qed.
Corollary skip_unquoted_value_fault fuel r1 r2 : readeq r1 r2 ->
  skip_unquoted_value fuel r1 = Err E_Io \/ oreq readeq (skip_unquoted_value fuel r1) (skip_unquoted_value fuel r2).
Proof.
  destruct r1 as [b d1 bom], r2 as [b' d2 bom']. intros (Hb & Hbom & Hd). cbn [rbw rbom rrd] in *. subst.
  apply skip_unquoted_value_loop_eq. exact Hd.
Qed.
