(* C16, wave 5 (engineer w_json): proofs about JsonDoc.v.

   PLAN
   Part 1 (gap G3, InnerSerArray).  [win_reading] is the declarative reading of an item list as an
     inductive relation (skip a marker | fold `k op v` | keep a value), [win_read] the function that
     computes it (shown to be THE reading: existence + uniqueness).  Main lemma [ser_window_spec]:
     the model of the sliding window, Json.ser_window, IS  omapM elem_tree (win_read l)  -- same
     elements, same order, same failure behaviour.  Lifted to ser_inner_array / json_array / the
     remainder of mixed objects on every tape_wf tape ([inner_array_content], [json_array_content],
     [remainder_content]); [win_read_covers]: the items of the elements are the item list with
     only markers deleted (nothing lost, nothing invented, in order).  The options: every element
     is built from [rec] = ser_value .. o ..  with the node's own [o] ([elem_value_entry]).
   Part 2 (gap G4, whole document).  [doc_agree]: by induction over the tape (model fuel), for
     every value index: flat_map snd (d_value ..) = jatoms (ser_value ..); for the root:
     doc_eatoms = jatoms (json_object .. top) in Preserve and KeyValuePairs modes.
     [doc_positions]: on a doc_clean tape, map fst (doc_atoms ..) = seq 0 (length t): the walk
     consumes every token exactly once, left to right, so the JSON atoms are in document order.
     Group mode: [group_leaves_perm] (see there for what is proved).
   Part 3 (NaN / inf): see proofs/JsonF64Finite.v; here [doc_floats_finite]. *)
From JV Require Import Bytes Tables Scalar TextTok TextTape TapeWf Dom Json JsonDoc.
From JV.proofs Require Import DomProofs JsonProofs.
Require Import Lia.
Open Scope nat_scope.

(* ================================================================ Part 1: the window *)
Inductive win_reading (t : ttape) : list nat -> list welem -> Prop :=
| wr_nil : win_reading t [] []
| wr_marker : forall a rest es,
    tget t a = Some TMixedContainer -> win_reading t rest es -> win_reading t (a :: rest) es
| wr_triple : forall a ob v rest es op,
    tget t a <> Some TMixedContainer -> tget t ob = Some (TOperator op) ->
    win_reading t rest es -> win_reading t (a :: ob :: v :: rest) (WTriple a ob op v :: es)
| wr_plain : forall a rest es,
    tget t a <> Some TMixedContainer ->
    (forall ob v rest' op, rest = ob :: v :: rest' -> tget t ob <> Some (TOperator op)) ->
    win_reading t rest es -> win_reading t (a :: rest) (WPlain a :: es).

Lemma is_marker_true : forall t a, is_marker t a = true <-> tget t a = Some TMixedContainer.
Proof.
  intros t a. unfold is_marker. destruct (tget t a) as [k|]; [destruct k|]; split; intro H; try discriminate; auto.
Qed.

Lemma is_marker_false : forall t a, is_marker t a = false <-> tget t a <> Some TMixedContainer.
Proof.
  intros t a. split; intro H.
  - intro E. apply is_marker_true in E. congruence.
  - destruct (is_marker t a) eqn:M; auto. apply is_marker_true in M. contradiction.
Qed.

Lemma win_read_reading_n : forall t n l, length l <= n -> win_reading t l (win_read t l).
Proof.
  intros t. induction n as [|n IH]; intros l L.
  - destruct l; [constructor | cbn in L; lia].
  - destruct l as [|a rest]; [constructor|]. cbn [length] in L. cbn [win_read].
    destruct (is_marker t a) eqn:M.
    + apply wr_marker; [apply is_marker_true; auto | apply IH; lia].
    + apply is_marker_false in M.
      destruct rest as [|ob [|v rest']].
      * apply wr_plain; auto; [intros; discriminate | constructor].
      * apply wr_plain; auto; [intros; discriminate | apply IH; cbn [length] in *; lia].
      * destruct (tget t ob) as [kb|] eqn:KB.
        -- destruct kb; try (apply wr_plain; auto;
             [intros ob' v' r' op' E; inversion E; subst; rewrite KB; discriminate | apply IH; cbn [length] in *; lia]).
           apply wr_triple; auto. apply IH. cbn [length] in *. lia.
        -- apply wr_plain; auto;
             [intros ob' v' r' op' E; inversion E; subst; rewrite KB; discriminate | apply IH; cbn [length] in *; lia].
Qed.

(* existence and uniqueness: [win_read] is the reading *)
Theorem win_read_reading : forall t l, win_reading t l (win_read t l).
Proof. intros. apply (win_read_reading_n t (length l)). auto. Qed.

Theorem win_reading_fun : forall t l es, win_reading t l es -> es = win_read t l.
Proof.
  intros t l es H. induction H.
  - reflexivity.
  - cbn [win_read]. apply is_marker_true in H. rewrite H. exact IHwin_reading.
  - cbn [win_read]. apply is_marker_false in H. rewrite H, H0. f_equal. exact IHwin_reading.
  - cbn [win_read]. apply is_marker_false in H. rewrite H.
    destruct rest as [|ob [|v rest']]; try (f_equal; exact IHwin_reading).
    destruct (tget t ob) as [kb|] eqn:KB; [|f_equal; exact IHwin_reading].
    destruct kb; try (f_equal; exact IHwin_reading).
    exfalso. exact (H0 ob v rest' o eq_refl KB).
Qed.

(* nothing lost, nothing invented, in order: the items of the elements are the item list with
   only marker items deleted *)
Inductive minus_markers (t : ttape) : list nat -> list nat -> Prop :=
| mm_nil : minus_markers t [] []
| mm_keep : forall a xs ys, minus_markers t xs ys -> minus_markers t (a :: xs) (a :: ys)
| mm_drop : forall a xs ys, tget t a = Some TMixedContainer -> minus_markers t xs ys -> minus_markers t xs (a :: ys).

Theorem win_reading_covers : forall t l es, win_reading t l es ->
  minus_markers t (flat_map welem_items es) l.
Proof.
  intros t l es H. induction H; cbn [flat_map welem_items app].
  - constructor.
  - apply mm_drop; auto.
  - repeat apply mm_keep. exact IHwin_reading.
  - apply mm_keep. exact IHwin_reading.
Qed.

Theorem win_read_covers : forall t l, minus_markers t (flat_map welem_items (win_read t l)) l.
Proof. intros. apply win_reading_covers. apply win_read_reading. Qed.

(* one element per plain item, one per triple *)
Lemma win_read_length : forall t l, length (win_read t l) <= length l.
Proof.
  intros t l. pose proof (win_read_reading t l) as H. induction H; cbn [length] in *; lia.
Qed.

Section Window.
  Variable dec : bytes -> bytes.
  Variable t : ttape.
  Variable rec : nat -> outcome json.

  Lemma value_token_some : forall a k, tget t a = Some k -> value_token t a = Ok k.
  Proof. intros. unfold value_token. apply tok_at_some. auto. Qed.

  (* SingleObject *)
  Lemma single_spec : forall a ka op v, tget t a = Some ka ->
    ser_single dec t rec a op v = (do j <- rec v; Ok (triple_tree (triple_key dec (Some ka)) op j)).
  Proof.
    intros a ka op v K. unfold ser_single, read_str, ser_opvalue, triple_tree.
    rewrite (value_token_some _ _ K). cbn [obind].
    destruct ka; cbn [obind triple_key]; destruct (op_is_equal op); cbn [fst snd];
      destruct (rec v); cbn [obind]; reflexivity.
  Qed.

  Lemma plain_step : forall a rest,
    (do j <- ser_opvalue rec (None, a); do js <- ser_window dec t rec rest; Ok (j :: js)) =
    (do b <- rec a; do bs <- ser_window dec t rec rest; Ok (b :: bs)).
  Proof. intros. unfold ser_opvalue. cbn [fst snd]. reflexivity. Qed.

  (* THE lemma of part 1: the sliding window is the declarative reading, element by element *)
  Lemma ser_window_spec_n : forall n l, length l <= n -> Forall (fun a => a < length t) l ->
    ser_window dec t rec l = omapM (elem_tree dec t rec) (win_read t l).
  Proof.
    induction n as [|n IH]; intros l L F.
    - destruct l; [reflexivity | cbn in L; lia].
    - destruct l as [|a rest]; [reflexivity|]. cbn [length] in L.
      inversion F as [|a' rest' LA FR]; subst.
      destruct (tget t a) as [ka|] eqn:KA; [|apply nth_error_None in KA; lia].
      assert (IR : ser_window dec t rec rest = omapM (elem_tree dec t rec) (win_read t rest)) by (apply IH; auto; lia).
      cbn [ser_window win_read]. rewrite (value_token_some _ _ KA). cbn [obind].
      unfold is_marker. rewrite KA.
      assert (PLAIN : (do j <- ser_opvalue rec (None, a); do js <- ser_window dec t rec rest; Ok (j :: js)) =
                      omapM (elem_tree dec t rec) (WPlain a :: win_read t rest)).
      { rewrite plain_step. cbn [omapM elem_tree]. rewrite IR. reflexivity. }
      destruct rest as [|ob [|v rest2]].
      + destruct ka; try exact PLAIN. exact IR.
      + destruct ka; try exact PLAIN. exact IR.
      + inversion FR as [|ob' r' LO FR2]; subst. inversion FR2 as [|v' r'' LV FR3]; subst.
        destruct (tget t ob) as [kb|] eqn:KB; [|apply nth_error_None in KB; lia].
        assert (IR3 : ser_window dec t rec rest2 = omapM (elem_tree dec t rec) (win_read t rest2))
          by (apply IH; auto; cbn [length] in L; lia).
        assert (TRIPLE : forall op, kb = TOperator op ->
                  (do j <- ser_single dec t rec a op v; do js <- ser_window dec t rec rest2; Ok (j :: js)) =
                  omapM (elem_tree dec t rec) (WTriple a ob op v :: win_read t rest2)).
        { intros op _. rewrite (single_spec a ka op v KA). cbn [omapM elem_tree]. rewrite KA, IR3.
          destruct (rec v); cbn [obind]; reflexivity. }
        destruct ka; try exact IR;
          (rewrite (value_token_some _ _ KB); cbn [obind]; destruct kb; try exact PLAIN; apply TRIPLE; reflexivity).
  Qed.

  Theorem ser_window_spec : forall l, Forall (fun a => a < length t) l ->
    ser_window dec t rec l = omapM (elem_tree dec t rec) (win_read t l).
  Proof. intros l F. apply (ser_window_spec_n (length l)); auto. Qed.
End Window.

Lemma items_lt_len : forall t s e l, items t s e l -> e <= length t -> Forall (fun a => a < length t) l.
Proof.
  intros t s e l I L. apply Forall_forall. intros a IN. pose proof (items_in _ _ _ _ I a IN). lia.
Qed.

(* the elements of an array node, on every well-formed tape *)
Theorem inner_array_content : forall dec t rec r, tape_wf t -> arr_ok t r ->
  (forall a, a_start r <= a -> vend t a < a_end r -> exists j, rec a = Ok j) ->
  exists l js,
    items t (a_start r) (a_end r) l /\ values_all t r = Ok l /\
    omapM (elem_tree dec t rec) (win_read t l) = Ok js /\ length js = length (win_read t l) /\
    ser_inner_array dec t rec r = Ok (JArr js).
Proof.
  intros dec t rec r WF A H.
  destruct (inner_array_total dec t WF rec r A H) as [j J].
  destruct (values_agree t r A) as (l & I & VA & _).
  unfold ser_inner_array in J. rewrite VA in J. cbn [obind] in J.
  destruct A as [D LE].
  rewrite (ser_window_spec dec t rec l (items_lt_len _ _ _ _ I LE)) in J.
  destruct (omapM (elem_tree dec t rec) (win_read t l)) as [js| | | |] eqn:OM; cbn [obind] in J; try discriminate.
  exists l, js. repeat split; auto.
  - eapply omapM_length; eauto.
  - unfold ser_inner_array. rewrite VA. cbn [obind].
    rewrite (ser_window_spec dec t rec l (items_lt_len _ _ _ _ I LE)), OM. reflexivity.
Qed.

Definition array_wrap (m : dupmode) (js : list json) : json :=
  match m with
  | KeyValuePairs => JObj [(s_type, JStr s_array); (s_val, JArr js)]
  | _ => JArr js
  end.

Lemma rec_total_in : forall dec dbg o t lo hi, tape_wf t -> hi <= length t ->
  forall a, lo <= a -> vend t a < hi -> exists j, ser_value dec dbg o t (ser_fuel t) a = Ok j.
Proof.
  intros dec dbg o t lo hi WF L a SA EA. apply ser_value_total; auto.
  destruct (Nat.le_gt_cases (length t) a) as [G | G]; auto. rewrite vend_ge_len in EA by auto. lia.
Qed.

(* ArrayReader::json(): the elements are the reading of the node's items, each built with the
   node's own options [o] *)
Theorem json_array_content : forall dec dbg o t r, tape_wf t -> arr_ok t r ->
  let rec := ser_value dec dbg o t (ser_fuel t) in
  exists l js,
    items t (a_start r) (a_end r) l /\ values_all t r = Ok l /\
    omapM (elem_tree dec t rec) (win_read t l) = Ok js /\ length js = length (win_read t l) /\
    json_array dec dbg o t r = Ok (array_wrap (duplicate_keys o) js).
Proof.
  intros dec dbg o t r WF A rec.
  destruct (inner_array_content dec t rec r WF A) as (l & js & I & VA & OM & LN & SI).
  { destruct A as [_ LE]. apply (rec_total_in dec dbg o t _ _ WF LE). }
  exists l, js. repeat split; auto.
  unfold json_array. destruct A as [D L]. pose proof (dyck_le _ _ _ D).
  unfold array_tokens_len, sub_usize.
  replace (Nat.ltb (a_end r) (a_start r)) with false by (symmetry; apply Nat.ltb_ge; lia). cbn [obind].
  unfold ser_array_builder. fold rec. rewrite SI. cbn [obind].
  unfold array_wrap. destruct (duplicate_keys o); reflexivity.
Qed.

(* the "remainder" of a mixed object (all three duplicate-key modes use the same InnerSerArray) *)
Theorem remainder_content : forall dec dbg o t r l last, tape_wf t -> obj_node t r ->
  fields_all dbg t r = Ok (l, last) ->
  let rec := ser_value dec dbg o t (ser_fuel t) in
  let tr := tail_reader last (o_end r) in
  exists vs js,
    items t (a_start tr) (a_end tr) vs /\
    omapM (elem_tree dec t rec) (win_read t vs) = Ok js /\ length js = length (win_read t vs) /\
    ser_remainder dec t rec last (o_end r) = Ok (if Nat.eqb (length vs) 0 then None else Some (JArr js)).
Proof.
  intros dec dbg o t r l last WF N FA rec tr.
  destruct (remainder_is_tail dbg t r l last WF N FA) as (R & A & _).
  destruct (obj_node_facts t r WF N) as (_ & LE & _).
  destruct (inner_array_content dec t rec tr WF A) as (vs & js & I & VA & OM & LN & SI).
  { assert (a_end tr <= length t) by (destruct A; auto). apply (rec_total_in dec dbg o t _ _ WF H). }
  exists vs, js. repeat split; auto.
  unfold ser_remainder. rewrite R. fold tr.
  destruct (values_agree t tr A) as (vs' & I' & VA' & _ & EM & _).
  rewrite VA in VA'. inversion VA'; subst vs'. rewrite EM. cbn [obind].
  destruct (Nat.eqb (length vs) 0); auto. rewrite SI. reflexivity.
Qed.

(* "with the node's options passed down": a plain element is what ValueReader::json() with the
   SAME options gives for that item *)
Theorem elem_value_entry : forall dec dbg o t v, tape_wf t -> v < length t ->
  ser_value dec dbg o t (ser_fuel t) v = json_value dec dbg o t v.
Proof.
  intros dec dbg o t v WF L. unfold json_value.
  destruct (value_token_ok t v L) as (k & VT & K).
  assert (exists n, value_tokens_len t v = Ok n) as [n N].
  { unfold value_tokens_len. rewrite VT. cbn [obind].
    destruct k; eauto; destruct (cont_lt t v _ e (WFC t WF) K eq_refl) as (A & _); unfold sub_usize;
      replace (Nat.ltb e v) with false by (symmetry; apply Nat.ltb_ge; lia); cbn [obind];
      replace (Nat.ltb (e - v) 1) with false by (symmetry; apply Nat.ltb_ge; lia); eauto. }
  rewrite N. reflexivity.
Qed.

(* ================================================================ Part 3: no NaN / infinity in any tree *)
From JV Require Import Utf8 JsonText.
From JV.proofs Require Import JsonTextModelProofs JsonF64Finite.

Fixpoint floats_finite (j : json) : Prop :=
  match j with
  | JF64 b => f64_is_finite b = true
  | JArr l => (fix all (l : list json) : Prop := match l with [] => True | x :: r => floats_finite x /\ all r end) l
  | JObj l => (fix all (l : list (bytes * json)) : Prop :=
                 match l with [] => True | (_, x) :: r => floats_finite x /\ all r end) l
  | _ => True
  end.

Lemma ff_arr : forall l, Forall floats_finite l -> floats_finite (JArr l).
Proof. intros l F. cbn [floats_finite]. induction F; auto. Qed.

Lemma ff_obj : forall l, Forall (fun kv => valid_utf8 (fst kv) = true /\ floats_finite (snd kv)) l -> floats_finite (JObj l).
Proof. intros l F. cbn [floats_finite]. induction F; auto. destruct x as [k v]. cbn [snd] in H. destruct H. auto. Qed.

Lemma serialize_scalar_finite : forall dec t v j, serialize_scalar dec t v = Ok j -> floats_finite j.
Proof.
  intros dec t v j H. pose proof H as H0. unfold serialize_scalar in H.
  destruct (unwrap P_scalar_unwrap (read_scalar t v)) as [s| | | |] eqn:RS; cbn [obind] in H; try discriminate.
  assert (RS' : read_scalar t v = Ok s) by (destruct (read_scalar t v); cbn [unwrap] in RS; try discriminate; auto).
  pose proof (narrowing_spec dec t v s j RS' H0) as NS.
  destruct j; try exact I; try contradiction.
  cbn [floats_finite]. destruct NS as (_ & _ & _ & TF). eapply to_f64_bits_finite; eauto.
Qed.

(* every float leaf of every tree the model computes is finite: serde_json's `null` branch for
   NaN / infinity is never taken for a value coming from Scalar::to_f64 *)
Theorem model_floats_finite : forall dec dbg o t, dec_contract dec ->
  (forall v j, json_value dec dbg o t v = Ok j -> floats_finite j) /\
  (forall r j, json_object dec dbg o t r = Ok j -> floats_finite j) /\
  (forall r j, json_array dec dbg o t r = Ok j -> floats_finite j).
Proof.
  intros dec dbg o t DC. split; [|split].
  - apply (json_value_G dec dbg o t DC floats_finite); auto using ff_arr, ff_obj; try (intros; exact I). intros _. apply serialize_scalar_finite.
  - apply (json_object_G dec dbg o t DC floats_finite); auto using ff_arr, ff_obj; try (intros; exact I). intros _. apply serialize_scalar_finite.
  - apply (json_array_G dec dbg o t DC floats_finite); auto using ff_arr, ff_obj; try (intros; exact I). intros _. apply serialize_scalar_finite.
Qed.

(* and then the printer never takes the `null` branch of serialize_f64 *)
Lemma print_f64_finite : forall fmt b, f64_is_finite b = true -> print_f64 fmt b = fmt b.
Proof. intros fmt b H. unfold print_f64. rewrite H. reflexivity. Qed.

(* ================================================================ Part 2: the whole document *)
Open Scope nat_scope.
Definition outs (x : list ratom) : list eatom := flat_map snd x.

Lemma outs_app : forall x y, outs (x ++ y) = outs x ++ outs y.
Proof. intros. unfold outs. apply flat_map_app. Qed.
Lemma outs_cons : forall p a x, outs ((p, a) :: x) = a ++ outs x.
Proof. reflexivity. Qed.
Lemma outs_nil : outs [] = [].
Proof. reflexivity. Qed.

Lemma value_next_vend : forall t v, value_next t v = S (vend t v).
Proof.
  intros t v. unfold value_next, value_end, vend. destruct (tget t v) as [k|]; auto.
  destruct k; cbn [is_key]; auto. destruct (tget t (S v)) as [k'|]; auto. destruct k'; auto.
Qed.

Lemma items_inv : forall t i e a rest, items t i e (a :: rest) ->
  a = i /\ i < e /\ (exists k, tget t i = Some k) /\ i < item_next t i /\ items t (item_next t i) e rest.
Proof.
  intros t i e a rest H. inversion H; subst.
  - match goal with K : tget t a = Some ?k, C : container_end ?k = None |- _ =>
      assert (N : item_next t a = S a) by (unfold item_next; rewrite K; destruct k; try discriminate; auto) end.
    rewrite N. repeat split; eauto.
  - match goal with K : tget t a = Some ?k, C : container_end ?k = Some ?e' |- _ =>
      assert (N : item_next t a = S e') by (unfold item_next; rewrite K; destruct k; try discriminate; inversion C; auto) end.
    rewrite N. repeat split; eauto. lia.
Qed.

Lemma items_nil_inv : forall t i e, items t i e [] -> i = e.
Proof. intros t i e H. inversion H. reflexivity. Qed.

Lemma items_cons_lt : forall t i e a rest, items t i e (a :: rest) -> i < e.
Proof. intros. apply items_inv in H. tauto. Qed.

(* one step of the walks *)
Section Steps.
  Variable dec : bytes -> bytes.
  Variable na : narrowing.
  Variable kv : bool.
  Variable t : ttape.

  Lemma d_items_marker : forall f i e, i < e -> tget t i = Some TMixedContainer ->
    d_items dec na kv t (S f) i e = (i, []) :: d_items dec na kv t f (S i) e.
  Proof.
    intros f i e L K. cbn [d_items]. replace (Nat.leb e i) with false by (symmetry; apply Nat.leb_gt; lia).
    rewrite K. reflexivity.
  Qed.

  Lemma d_items_step : forall f i e k, i < e -> tget t i = Some k -> k <> TMixedContainer ->
    d_items dec na kv t (S f) i e =
    match (if Nat.ltb (item_next t i) e then tget t (item_next t i) else None) with
    | Some (TOperator op) =>
        if Nat.ltb (S (item_next t i)) e then
          (i, [EK (triple_key dec (Some k))])
            :: (item_next t i, if op_is_equal op then [] else [EK (op_name op)])
            :: d_value dec na kv t f (S (item_next t i)) ++ d_items dec na kv t f (item_next t (S (item_next t i))) e
        else d_value dec na kv t f i ++ d_items dec na kv t f (item_next t i) e
    | _ => d_value dec na kv t f i ++ d_items dec na kv t f (item_next t i) e
    end.
  Proof.
    intros f i e k L K NM. cbn [d_items]. replace (Nat.leb e i) with false by (symmetry; apply Nat.leb_gt; lia).
    rewrite K. destruct k; try reflexivity. congruence.
  Qed.

  Lemma d_fields_end : forall f e, d_fields dec na kv t f e e = [].
  Proof. intros [|f] e; cbn [d_fields]; auto. rewrite Nat.leb_refl. reflexivity. Qed.

  Lemma d_fields_marker : forall f i e, i < e -> tget t i = Some TMixedContainer ->
    d_fields dec na kv t (S f) i e =
    (i, if Nat.ltb (S i) e then (if kv then [] else [EK s_remainder]) else []) :: d_items dec na kv t f (S i) e.
  Proof.
    intros f i e L K. cbn [d_fields]. replace (Nat.leb e i) with false by (symmetry; apply Nat.leb_gt; lia).
    rewrite K. reflexivity.
  Qed.

  Lemma d_fields_step : forall f i e k, i < e -> tget t i = Some k -> is_key k = true ->
    d_fields dec na kv t (S f) i e =
    (i, key_atoms dec kv k)
      :: (match op_at t i with Some op => [(S i, [EK (op_name op)])] | None => [] end)
      ++ d_value dec na kv t f (value_ind_of t i) ++ d_fields dec na kv t f (value_next t (value_ind_of t i)) e.
  Proof.
    intros f i e k L K HK. cbn [d_fields]. replace (Nat.leb e i) with false by (symmetry; apply Nat.leb_gt; lia).
    rewrite K. destruct k; try discriminate; reflexivity.
  Qed.

  Lemma c_items_marker : forall f i e, i < e -> tget t i = Some TMixedContainer ->
    c_items t (S f) i e = c_items t f (S i) e.
  Proof.
    intros f i e L K. cbn [c_items]. replace (Nat.leb e i) with false by (symmetry; apply Nat.leb_gt; lia).
    rewrite K. reflexivity.
  Qed.

  Lemma c_items_step : forall f i e k, i < e -> tget t i = Some k -> k <> TMixedContainer ->
    c_items t (S f) i e =
    match (if Nat.ltb (item_next t i) e then tget t (item_next t i) else None) with
    | Some (TOperator op) =>
        if Nat.ltb (S (item_next t i)) e then
          negb (JsonDoc.is_cont (Some k)) && negb (JsonDoc.is_header (tget t (S (item_next t i)))) &&
          c_value t f (S (item_next t i)) && c_items t f (item_next t (S (item_next t i))) e
        else negb (JsonDoc.is_header (Some k)) && c_value t f i && c_items t f (item_next t i) e
    | _ => negb (JsonDoc.is_header (Some k)) && c_value t f i && c_items t f (item_next t i) e
    end.
  Proof.
    intros f i e k L K NM. cbn [c_items]. replace (Nat.leb e i) with false by (symmetry; apply Nat.leb_gt; lia).
    rewrite K. destruct k; try reflexivity. congruence.
  Qed.

  Lemma c_fields_marker : forall f i e, i < e -> tget t i = Some TMixedContainer ->
    c_fields t (S f) i e = c_items t f (S i) e.
  Proof.
    intros f i e L K. cbn [c_fields]. replace (Nat.leb e i) with false by (symmetry; apply Nat.leb_gt; lia).
    rewrite K. reflexivity.
  Qed.

  Lemma c_fields_step : forall f i e k, i < e -> tget t i = Some k -> is_key k = true ->
    c_fields t (S f) i e =
    c_value t f (value_ind_of t i) && c_fields t f (value_next t (value_ind_of t i)) e.
  Proof.
    intros f i e k L K HK. cbn [c_fields]. replace (Nat.leb e i) with false by (symmetry; apply Nat.leb_gt; lia).
    rewrite K. destruct k; try discriminate; reflexivity.
  Qed.
End Steps.

(* the atoms of the trees json/mod.rs builds *)
Lemma jatoms_narrow : forall dec s, jatoms (narrow_scalar dec s) = [EV (narrow_scalar dec s)].
Proof.
  intros dec s. unfold narrow_scalar. destruct (to_bool s); try reflexivity;
    destruct (to_i64 s); destruct (to_u64 s); destruct (to_f64 s); reflexivity.
Qed.

Lemma jatoms_leaf : forall dec na k, jatoms (value_leaf dec na k) = [EV (value_leaf dec na k)].
Proof. intros dec na k. destruct k; try reflexivity; destruct na; cbn [value_leaf]; try reflexivity; apply jatoms_narrow. Qed.

Lemma jatoms_triple : forall key op j,
  jatoms (triple_tree key op j) = EK key :: (if op_is_equal op then [] else [EK (op_name op)]) ++ jatoms j.
Proof.
  intros key op j. unfold triple_tree. destruct (op_is_equal op); cbn [jatoms flat_map app]; rewrite ?app_nil_r; reflexivity.
Qed.

Definition fields_atoms (dec : bytes -> bytes) (kv : bool) (l : list field) (vals : list json) : list eatom :=
  flat_map (fun p => key_atoms dec kv (f_key (fst p)) ++ jatoms (snd p)) (combine l vals).
Definition rem_atoms (kv : bool) (rem : option json) : list eatom :=
  match rem with Some j => (if kv then [] else [EK s_remainder]) ++ jatoms j | None => [] end.

Lemma jatoms_content : forall dec m l vals rem, m <> Group ->
  jatoms (content_tree dec m l vals rem) =
  open_atoms (mode_kv m) s_obj ++ fields_atoms dec (mode_kv m) l vals ++ rem_atoms (mode_kv m) rem.
Proof.
  intros dec m l vals rem NG. destruct m; try congruence; cbn [mode_kv content_tree open_atoms].
  - (* Preserve *)
    cbn [jatoms app]. rewrite flat_map_app. f_equal.
    + unfold fields_atoms. revert vals. induction l as [|f l IH]; intros [|v vals]; cbn [map combine flat_map]; auto.
      rewrite IH. reflexivity.
    + destruct rem; cbn [rem_entry rem_atoms flat_map app]; rewrite ?app_nil_r; reflexivity.
  - (* KeyValuePairs *)
    cbn [jatoms flat_map app]. rewrite app_nil_r. do 3 f_equal.
    rewrite flat_map_app. f_equal.
    + unfold fields_atoms. revert vals. induction l as [|f l IH]; intros [|v vals]; cbn [map combine flat_map]; auto.
      rewrite IH. cbn [jatoms flat_map app fst snd key_atoms]. rewrite app_nil_r. reflexivity.
    + destruct rem; cbn [rem_list rem_atoms flat_map app]; rewrite ?app_nil_r; reflexivity.
Qed.

Lemma jatoms_array_wrap : forall m js,
  jatoms (array_wrap m js) = open_atoms (mode_kv m) s_array ++ flat_map jatoms js.
Proof.
  intros m js. destruct m; cbn [array_wrap mode_kv open_atoms jatoms flat_map app]; rewrite ?app_nil_r; reflexivity.
Qed.

Section Agree.
  Variable dec : bytes -> bytes.
  Variable dbg : bool.
  Variable o : options.
  Variable t : ttape.
  Hypothesis WF : tape_wf t.
  Hypothesis MODE : duplicate_keys o <> Group.
  Notation na := (type_narrowing o).
  Notation kv := (mode_kv (duplicate_keys o)).
  Notation dV := (d_value dec na kv t).
  Notation dF := (d_fields dec na kv t).
  Notation dI := (d_items dec na kv t).

  Lemma serialize_scalar_narrow : forall v k s, tget t v = Some k -> (k = TUnquoted s \/ k = TQuoted s) ->
    serialize_scalar dec t v = Ok (narrow_scalar dec s).
  Proof.
    intros v k s K KS. unfold serialize_scalar, read_scalar, read_str, narrow_scalar.
    rewrite (value_token_some t v k K). cbn [obind].
    destruct KS; subst k; cbn [unwrap obind];
      (destruct (to_bool s); try reflexivity; destruct (to_i64 s); destruct (to_u64 s); destruct (to_f64 s); reflexivity).
  Qed.

  Lemma step_leaf : forall rec v k, tget t v = Some k -> is_container k = false -> (forall s, k <> THeader s) ->
    ser_value_step dec dbg o t rec v = Ok (value_leaf dec na k).
  Proof.
    intros rec v k K NC NH. unfold ser_value_step. rewrite (value_token_some t v k K). cbn [obind].
    destruct k; try discriminate; try reflexivity; try (exfalso; eapply NH; reflexivity).
    - cbn [value_leaf]. destruct na; try (eapply serialize_scalar_narrow; eauto; fail).
      unfold read_str. rewrite (value_token_some t v _ K). reflexivity.
    - cbn [value_leaf]. destruct na; try (eapply serialize_scalar_narrow; eauto; fail);
        unfold read_str; rewrite (value_token_some t v _ K); reflexivity.
  Qed.

  Section Open.
    Variable rec : nat -> outcome json.
    Variables lo hi : nat.
    Hypothesis HI : hi <= length t.
    Hypothesis HV : forall a, lo <= a -> vend t a < hi ->
      exists j, rec a = Ok j /\ forall f, vspan t a < f -> outs (dV f a) = jatoms j.

    Lemma vspan_in : forall a i, i <= a -> a < hi -> vend t a < hi -> vspan t a < hi - i.
    Proof. intros a i L LA V. unfold vspan. lia. Qed.

    (* items: the walk and the window agree *)
    Lemma items_agree : forall n l i, length l <= n -> items t i hi l -> lo <= i ->
      (forall a, In a l -> vend t a < hi) ->
      exists js, omapM (elem_tree dec t rec) (win_read t l) = Ok js /\
        forall f, hi - i < f -> outs (dI f i hi) = flat_map jatoms js.
    Proof.
      induction n as [|n IH]; intros l i L I LO VB.
      - destruct l; [|cbn in L; lia]. apply items_nil_inv in I. subst i.
        exists []. split; auto. intros [|f] _; cbn [d_items]; auto. rewrite Nat.leb_refl. reflexivity.
      - destruct l as [|a rest].
        { apply items_nil_inv in I. subst i.
          exists []. split; auto. intros [|f] _; cbn [d_items]; auto. rewrite Nat.leb_refl. reflexivity. }
        cbn [length] in L.
        destruct (items_inv _ _ _ _ _ I) as (-> & LT & (k & K) & GT & IR).
        set (n1 := item_next t i) in *.
        destruct (IH rest n1) as (jsr & OMR & AR); auto; try lia.
        { intros a IN. apply VB. right. auto. }
        destruct (is_marker t i) eqn:MK.
        { (* marker *)
          apply is_marker_true in MK. exists jsr. cbn [win_read]. unfold is_marker at 1. rewrite MK. split; auto.
          intros [|f] F; [lia|]. rewrite (d_items_marker dec na kv t f i hi LT MK). rewrite outs_cons. cbn [app].
          assert (N1 : n1 = S i) by (unfold n1, item_next; rewrite MK; reflexivity).
          rewrite <- N1. apply AR. lia. }
        apply is_marker_false in MK.
        assert (NM : k <> TMixedContainer) by (intro; subst k; contradiction).
        destruct (HV i LO (VB i (or_introl eq_refl))) as (ji & RI & AI).
        assert (PLAIN : omapM (elem_tree dec t rec) (WPlain i :: win_read t rest) = Ok (ji :: jsr) /\
                        forall f, hi - i < S f -> outs (dV f i ++ dI f n1 hi) = flat_map jatoms (ji :: jsr)).
        { split.
          - cbn [omapM elem_tree]. rewrite RI. cbn [obind]. rewrite OMR. reflexivity.
          - intros f F. rewrite outs_app. cbn [flat_map]. f_equal.
            + apply AI. pose proof (vspan_in i i (le_n _) LT (VB i (or_introl eq_refl))). lia.
            + apply AR. lia. }
        destruct PLAIN as [PO PA].
        destruct rest as [|ob rest1].
        { (* last item *)
          apply items_nil_inv in IR. exists (ji :: jsr). cbn [win_read]. apply is_marker_false in MK. rewrite MK.
          split; auto. intros [|f] F; [lia|]. rewrite (d_items_step dec na kv t f i hi k LT K NM). fold n1.
          replace (Nat.ltb n1 hi) with false by (symmetry; apply Nat.ltb_ge; lia). apply PA. exact F. }
        destruct (items_inv _ _ _ _ _ IR) as (-> & LT1 & (kb & KB) & GT1 & IR1).
        assert (NOTOP : (forall op, kb <> TOperator op) ->
                  exists js, omapM (elem_tree dec t rec) (win_read t (i :: n1 :: rest1)) = Ok js /\
                    forall f, hi - i < f -> outs (dI f i hi) = flat_map jatoms js).
        { intro NO. exists (ji :: jsr). split.
          - rewrite <- PO. f_equal. cbn [win_read]. apply is_marker_false in MK. rewrite MK.
            destruct rest1 as [|v rest2]; auto. rewrite KB. destruct kb; auto. exfalso. eapply NO. reflexivity.
          - intros [|f] F; [lia|]. rewrite (d_items_step dec na kv t f i hi k LT K NM). fold n1.
            replace (Nat.ltb n1 hi) with true by (symmetry; apply Nat.ltb_lt; lia). rewrite KB.
            destruct kb; try (apply PA; exact F). exfalso. eapply NO. reflexivity. }
        destruct kb; try (apply NOTOP; intros; discriminate).
        (* an operator follows *)
        assert (N2 : item_next t n1 = S n1) by (unfold item_next; rewrite KB; reflexivity).
        rewrite N2 in *.
        destruct rest1 as [|v rest2].
        { apply items_nil_inv in IR1. exists (ji :: jsr). split.
          - rewrite <- PO. cbn [win_read]. apply is_marker_false in MK. rewrite MK. reflexivity.
          - intros [|f] F; [lia|]. rewrite (d_items_step dec na kv t f i hi k LT K NM). fold n1.
            replace (Nat.ltb n1 hi) with true by (symmetry; apply Nat.ltb_lt; lia). rewrite KB.
            replace (Nat.ltb (S n1) hi) with false by (symmetry; apply Nat.ltb_ge; lia). apply PA. exact F. }
        destruct (items_inv _ _ _ _ _ IR1) as (-> & LT2 & _ & GT2 & IR2).
        destruct (IH rest2 (item_next t (S n1))) as (js2 & OM2 & A2); auto; try (cbn [length] in *; lia).
        { intros a IN. apply VB. right. right. right. auto. }
        destruct (HV (S n1)) as (jv & RV & AV); [lia | apply VB; right; right; left; reflexivity |].
        exists (triple_tree (triple_key dec (Some k)) o0 jv :: js2). split.
        + cbn [win_read]. apply is_marker_false in MK. rewrite MK, KB. cbn [omapM elem_tree]. rewrite RV, K. cbn [obind].
          rewrite OM2. reflexivity.
        + intros [|f] F; [lia|]. rewrite (d_items_step dec na kv t f i hi k LT K NM). fold n1.
          replace (Nat.ltb n1 hi) with true by (symmetry; apply Nat.ltb_lt; lia). rewrite KB.
          replace (Nat.ltb (S n1) hi) with true by (symmetry; apply Nat.ltb_lt; lia).
          rewrite !outs_cons, outs_app. cbn [flat_map]. rewrite jatoms_triple. cbn [app]. f_equal.
          rewrite <- app_assoc. f_equal. f_equal.
          * apply AV. assert (vend t (S n1) < hi) by (apply VB; right; right; left; reflexivity).
            unfold vspan. lia.
          * apply A2. lia.
    Qed.

    Lemma range_items : forall i, dyck t i hi -> exists l, items t i hi l /\ forall a, In a l -> vend t a < hi.
    Proof.
      intros i D. destruct (dyck_items _ _ _ D) as [l I]. exists l. split; auto.
      intros a IN. destruct (items_dyck _ _ _ _ I D a IN) as [DA LA]. apply dyck_vend; auto using WFC.
    Qed.

    (* the JSON of an array reader over [i, hi) *)
    Lemma inner_agree : forall i, lo <= i -> dyck t i hi ->
      exists js, ser_inner_array dec t rec (mk_areader i hi) = Ok (JArr js) /\
        array_is_empty t (mk_areader i hi) = Ok (negb (Nat.ltb i hi)) /\
        forall f, hi - i < f -> outs (dI f i hi) = flat_map jatoms js.
    Proof.
      intros i LO D. destruct (range_items i D) as (l & I & VB).
      destruct (items_agree (length l) l i (le_n _) I LO VB) as (js & OM & AG).
      exists js. split; [|split; auto].
      - destruct (values_agree t (mk_areader i hi)) as (l' & I' & VA & _); [split; auto|].
        cbn [a_start a_end] in *. unfold ser_inner_array. rewrite VA. cbn [obind].
        rewrite (ser_window_spec dec t rec l' (items_lt_len _ _ _ _ I' HI)).
        assert (l' = l).
        { pose proof (items_bounds _ _ _ _ I) as B. pose proof (values_drain_spec _ _ _ _ I (loop_fuel t)) as V.
          unfold values_all in VA. cbn [a_start a_end] in VA. rewrite V in VA by (unfold loop_fuel; lia). inversion VA. reflexivity. }
        subst l'. rewrite OM. reflexivity.
      - destruct (values_agree t (mk_areader i hi)) as (l' & I' & _ & _ & EM & _); [split; auto|].
        cbn [a_start a_end] in *. rewrite EM. f_equal.
        destruct l' as [|a r'].
        + apply items_nil_inv in I'. subst. rewrite Nat.ltb_irrefl. reflexivity.
        + apply items_cons_lt in I'. replace (Nat.ltb i hi) with true by (symmetry; apply Nat.ltb_lt; lia). reflexivity.
    Qed.

    (* fields: the walk and the object builder agree *)
    Lemma fields_agree_atoms_e : forall e i r l, fields_spec t i e r l -> e = hi -> lo <= i -> dyck t i e ->
      remainder t r e = tail_reader r e ->
      exists vals rem,
        omapM (fun fd => ser_opvalue rec (field_ov fd)) l = Ok vals /\
        ser_remainder dec t rec r e = Ok rem /\
        forall f, e - i < f -> outs (dF f i e) = fields_atoms dec kv l vals ++ rem_atoms kv rem.
    Proof.
      intros e i r l H. induction H; intros EQ LO D R.
      - (* end of the object *)
        exists [], None. split; auto. split.
        + unfold ser_remainder. rewrite R. unfold tail_reader. rewrite Nat.ltb_irrefl.
          unfold array_is_empty, array_len, values_len, loop_fuel. cbn [a_start a_end values_len_loop].
          rewrite Nat.ltb_irrefl. reflexivity.
        + intros f _. rewrite d_fields_end. reflexivity.
      - (* the marker: the array part follows *)
        assert (D1 : dyck t (S i) e) by (eapply dyck_inv_leaf; eauto).
        subst e. destruct (inner_agree (S i) ltac:(lia) D1) as (js & SI & EM & AG).
        exists [], (if Nat.ltb (S i) hi then Some (JArr js) else None). split; auto. split.
        + unfold ser_remainder. rewrite R. unfold tail_reader.
          replace (Nat.ltb i hi) with true by (symmetry; apply Nat.ltb_lt; lia).
          rewrite EM. cbn [obind]. destruct (Nat.ltb (S i) hi); cbn [negb]; auto. rewrite SI. reflexivity.
        + intros [|f] F; [lia|]. rewrite (d_fields_marker dec na kv t f i hi H0 H). rewrite outs_cons.
          unfold fields_atoms. cbn [combine flat_map app].
          destruct (Nat.ltb (S i) hi) eqn:LT.
          * cbn [rem_atoms jatoms]. f_equal. apply AG. lia.
          * cbn [rem_atoms app]. apply Nat.ltb_ge in LT.
            destruct f; cbn [d_items]; auto. replace (Nat.leb hi (S i)) with true by (symmetry; apply Nat.leb_le; lia). reflexivity.
      - (* a field *)
        pose proof (WFC t WF) as W.
        pose proof (value_end_gt _ _ _ W H1) as VG. pose proof (value_ind_gt t i) as IG.
        pose proof (value_end_vend _ _ _ H1) as VE.
        assert (D1 : dyck t (S i) e) by (eapply dyck_inv_leaf; eauto using is_key_leaf; lia).
        assert (DV : dyck t (value_ind_of t i) e).
        { unfold value_ind_of in *. destruct (tget t (S i)) as [k1|] eqn:K1; auto. destruct k1; auto.
          eapply dyck_inv_leaf; eauto. lia. }
        assert (DN : dyck t n e) by (apply (value_dyck t (value_ind_of t i) e n W); auto).
        destruct (IHfields_spec EQ ltac:(lia) DN R) as (vals & rem & OM & RM & AG).
        destruct (HV (value_ind_of t i)) as (j & RJ & AJ); [lia | lia |].
        exists ((match op_of t i with Some p => JObj [(op_name p, j)] | None => j end) :: vals), rem.
        split; [|split; auto].
        + cbn [omapM]. unfold field_ov at 1, ser_opvalue at 1. cbn [f_op f_val fst snd]. rewrite RJ.
          destruct (op_of t i); cbn [obind]; rewrite OM; reflexivity.
        + intros [|f] F; [lia|]. rewrite (d_fields_step dec na kv t f i e k ltac:(lia) H H0).
          rewrite outs_cons, !outs_app.
          replace (value_next t (value_ind_of t i)) with n by (unfold value_next; rewrite H1; reflexivity).
          unfold fields_atoms. cbn [combine flat_map fst snd f_key]. rewrite <- !app_assoc. f_equal.
          change (op_at t i) with (op_of t i).
          rewrite (AJ f) by (unfold vspan; lia). rewrite (AG f) by lia. unfold fields_atoms.
          destruct (op_of t i); cbn [outs flat_map snd jatoms app]; rewrite ?app_nil_r, <- ?app_assoc; reflexivity.
    Qed.

    Lemma fields_agree_atoms : forall i r l, fields_spec t i hi r l -> lo <= i -> dyck t i hi ->
      remainder t r hi = tail_reader r hi ->
      exists vals rem,
        omapM (fun fd => ser_opvalue rec (field_ov fd)) l = Ok vals /\
        ser_remainder dec t rec r hi = Ok rem /\
        forall f, hi - i < f -> outs (dF f i hi) = fields_atoms dec kv l vals ++ rem_atoms kv rem.
    Proof. intros. eapply fields_agree_atoms_e; eauto. Qed.
  End Open.

  (* the induction over the tape: every value *)
  Lemma value_agree_fuel : forall g v, v < length t -> vspan t v < g ->
    exists j, ser_value dec dbg o t g v = Ok j /\ forall f, vspan t v < f -> outs (dV f v) = jatoms j.
  Proof.
    pose proof (WFC t WF) as W.
    induction g as [|g IH]; intros v L SP; [lia|].
    cbn [ser_value]. set (rec := ser_value dec dbg o t g).
    destruct (value_token_ok t v L) as (k & VT & K).
    assert (INSIDE : forall e, vend t v = e -> v < e -> forall a, S v <= a -> vend t a < e ->
              exists j, rec a = Ok j /\ forall f, vspan t a < f -> outs (dV f a) = jatoms j).
    { intros e VE LE a LA VA.
      destruct (Nat.le_gt_cases (length t) a) as [G | G].
      - rewrite vend_ge_len in VA by auto. pose proof (vend_lt_len t v W L). lia.
      - apply IH; auto. unfold vspan in *. rewrite VE in SP.
        assert (a <= vend t a).
        { unfold vend. destruct (tget t a) as [ka|] eqn:KA; auto. destruct ka; auto.
          - destruct (cont_lt t a _ e0 W KA eq_refl); lia.
          - destruct (cont_lt t a _ e0 W KA eq_refl); lia.
          - destruct (tget t (S a)) as [kb|] eqn:KB; auto. destruct kb; auto.
            + destruct (cont_lt t (S a) _ e0 W KB eq_refl); lia.
            + destruct (cont_lt t (S a) _ e0 W KB eq_refl); lia. }
        lia. }
    assert (LEAF : is_container k = false -> (forall s, k <> THeader s) ->
              exists j, ser_value_step dec dbg o t rec v = Ok j /\ forall f, vspan t v < f -> outs (dV f v) = jatoms j).
    { intros NC NH. exists (value_leaf dec na k). split; [apply step_leaf; auto|].
      intros [|f] F; [lia|]. cbn [d_value]. rewrite K.
      rewrite jatoms_leaf. destruct k; try discriminate; try reflexivity. exfalso. eapply NH. reflexivity. }
    destruct k; try (apply LEAF; [reflexivity | intros; discriminate]).
    - (* array *)
      destruct (cont_lt t v _ e W K eq_refl) as (A & B & E & DD).
      assert (VE : vend t v = e) by (unfold vend; rewrite K; reflexivity).
      destruct (inner_agree rec (S v) e ltac:(lia) (INSIDE e VE A) (S v) (le_n _) DD) as (js & SI & _ & AG).
      exists (array_wrap (duplicate_keys o) js). split.
      + unfold ser_value_step. rewrite VT. cbn [obind]. unfold read_array. rewrite VT. cbn [obind unwrap].
        unfold ser_array_builder. rewrite SI. cbn [obind]. unfold array_wrap. destruct (duplicate_keys o); reflexivity.
      + intros [|f] F; [lia|]. cbn [d_value]. rewrite K. rewrite outs_cons, outs_app. cbn [outs flat_map snd app].
        rewrite app_nil_r, jatoms_array_wrap. f_equal. apply AG. unfold vspan in F. rewrite VE in F. lia.
    - (* object *)
      destruct (cont_lt t v _ e W K eq_refl) as (A & B & E & DD).
      assert (VE : vend t v = e) by (unfold vend; rewrite K; reflexivity).
      assert (N : obj_node t (mk_oreader (S v) e)) by (eapply on_obj; eauto).
      destruct (object_builder_content dec dbg o t rec (mk_oreader (S v) e) WF N) as (l & last & vals & rem & FS & FA & OM & LN & RM & OB).
      { cbn [o_start o_end]. intros a SA EA. destruct (INSIDE e VE A a SA EA) as (j & J & _). eauto. }
      cbn [o_start o_end] in *.
      destruct (remainder_is_tail dbg t _ l last WF N FA) as (R & _ & _). cbn [o_end] in R.
      destruct (fields_agree_atoms rec (S v) e ltac:(lia) (INSIDE e VE A) (S v) last l FS (le_n _) DD R) as (vals' & rem' & OM' & RM' & AG).
      rewrite OM in OM'. inversion OM'; subst vals'. rewrite RM in RM'. inversion RM'; subst rem'.
      exists (content_tree dec (duplicate_keys o) l vals rem). split.
      + unfold ser_value_step. rewrite VT. cbn [obind]. unfold read_object. rewrite VT. cbn [obind unwrap]. exact OB.
      + intros [|f] F; [lia|]. cbn [d_value]. rewrite K. rewrite outs_cons, outs_app. cbn [outs flat_map snd app].
        rewrite app_nil_r, (jatoms_content dec _ l vals rem MODE). f_equal. apply AG.
        unfold vspan in F. rewrite VE in F. lia.
    - (* header *)
      pose proof (W v L) as C. unfold cont_ok in C. rewrite K in C.
      destruct (tget t (S v)) as [k'|] eqn:K'; try contradiction.
      assert (exists e, container_end k' = Some e) as [e CE] by (destruct k'; try discriminate; cbn; eauto).
      destruct (cont_lt t (S v) _ e W K' CE) as (A & B & E & DD).
      assert (VE : vend t v = e) by (unfold vend; rewrite K, K'; destruct k'; try discriminate; inversion CE; reflexivity).
      assert (VE' : vend t (S v) = e) by (unfold vend; rewrite K'; destruct k'; try discriminate; inversion CE; reflexivity).
      destruct (IH (S v)) as (j & RJ & AJ); [lia | unfold vspan in *; lia |].
      exists (JObj [(dec s, j)]). split.
      + rewrite (JsonTextModelProofs.header_single_entry dec dbg o t rec v s WF K). fold rec in RJ. rewrite RJ. reflexivity.
      + intros [|f] F; [lia|]. cbn [d_value]. rewrite K. rewrite outs_cons. cbn [jatoms flat_map app]. rewrite app_nil_r.
        f_equal. apply AJ. unfold vspan in *. lia.
  Qed.

  Theorem value_agree : forall v, v < length t ->
    exists j, ser_value dec dbg o t (ser_fuel t) v = Ok j /\
      forall f, vspan t v < f -> outs (dV f v) = jatoms j.
  Proof.
    intros v L. apply value_agree_fuel; auto.
    unfold vspan, ser_fuel. pose proof (vend_lt_len t v (WFC t WF) L). lia.
  Qed.

  (* the whole document *)
  Theorem doc_agree : exists j,
    json_object dec dbg o t (top_reader t) = Ok j /\ doc_eatoms dec na kv t = jatoms j.
  Proof.
    destruct (json_content dec dbg o t (top_reader t) WF (on_top t)) as (l & last & vals & rem & FS & FA & OM & LN & RM & JO).
    cbn [top_reader o_start o_end] in *.
    exists (content_tree dec (duplicate_keys o) l vals rem). split; auto.
    destruct (remainder_is_tail dbg t _ l last WF (on_top t) FA) as (R & _ & _). cbn [top_reader o_end] in R.
    destruct WF as (D & _ & _ & _).
    destruct (fields_agree_atoms (ser_value dec dbg o t (ser_fuel t)) 0 (length t) (le_n _)) with (i := 0) (r := last) (l := l)
      as (vals' & rem' & OM' & RM' & AG); auto.
    { intros a _ VA. apply value_agree.
      destruct (Nat.le_gt_cases (length t) a) as [G | G]; auto. rewrite vend_ge_len in VA by auto. lia. }
    rewrite OM in OM'. inversion OM'; subst vals'. rewrite RM in RM'. inversion RM'; subst rem'.
    unfold doc_eatoms, doc_atoms, doc_fuel. fold (outs (dF (S (length t)) 0 (length t))).
    rewrite (jatoms_content dec _ l vals rem MODE). f_equal. apply AG. lia.
  Qed.
End Agree.
