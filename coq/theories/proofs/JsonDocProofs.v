(* C16, wave 5 (engineer w_json): proofs about JsonDoc.v.

   PLAN
   Part 1 (gap G3, InnerSerArray).  [win_reading] is the declarative reading of an item list as an
     inductive relation (skip a marker | fold `k op v` | keep a value), [win_read] the function that
     computes it (shown to be THE reading: existence + uniqueness).  Main lemma [ser_window_spec]:
     the model of the sliding window, Json.ser_window, IS  omapM elem_tree (win_read l)  -- same
     elements, same order, same failure behaviour.  Lifted to ser_inner_array / json_array / the
     remainder of mixed objects on every tape_wf tape ([inner_array_content], [json_array_content],
     [remainder_content]); [win_read_covers]: the items of the elements are the item list with
     only markers deleted (nothing lost, nothing invented, in order).  The options: every element
     is built from [rec] = ser_value .. o ..  with the node's own [o] ([elem_value_entry]).
   Part 2 (gap G4, whole document).  [doc_agree]: by induction over the tape (model fuel), for
     every value index: flat_map snd (d_value ..) = jatoms (ser_value ..); for the root:
     doc_eatoms = jatoms (json_object .. top) in Preserve and KeyValuePairs modes.
     [doc_positions]: on a doc_clean tape, map fst (doc_atoms ..) = seq 0 (length t): the walk
     consumes every token exactly once, left to right, so the JSON atoms are in document order.
     Group mode: [group_leaves_perm] (see there for what is proved).
   Part 3 (NaN / inf): see proofs/JsonF64Finite.v; here [doc_floats_finite]. *)
From JV Require Import Bytes Tables Scalar TextTok TextTape TapeWf Dom Json JsonDoc.
From JV.proofs Require Import DomProofs JsonProofs.
Require Import Lia.
Open Scope nat_scope.

(* ================================================================ Part 1: the window *)
Inductive win_reading (t : ttape) : list nat -> list welem -> Prop :=
| wr_nil : win_reading t [] []
| wr_marker : forall a rest es,
    tget t a = Some TMixedContainer -> win_reading t rest es -> win_reading t (a :: rest) es
| wr_triple : forall a ob v rest es op,
    tget t a <> Some TMixedContainer -> tget t ob = Some (TOperator op) ->
    win_reading t rest es -> win_reading t (a :: ob :: v :: rest) (WTriple a ob op v :: es)
| wr_plain : forall a rest es,
    tget t a <> Some TMixedContainer ->
    (forall ob v rest' op, rest = ob :: v :: rest' -> tget t ob <> Some (TOperator op)) ->
    win_reading t rest es -> win_reading t (a :: rest) (WPlain a :: es).

Lemma is_marker_true : forall t a, is_marker t a = true <-> tget t a = Some TMixedContainer.
Proof.
  intros t a. unfold is_marker. destruct (tget t a) as [k|]; [destruct k|]; split; intro H; try discriminate; auto.
Qed.

Lemma is_marker_false : forall t a, is_marker t a = false <-> tget t a <> Some TMixedContainer.
Proof.
  intros t a. split; intro H.
  - intro E. apply is_marker_true in E. congruence.
  - destruct (is_marker t a) eqn:M; auto. apply is_marker_true in M. contradiction.
Qed.

Lemma win_read_reading_n : forall t n l, length l <= n -> win_reading t l (win_read t l).
Proof.
  intros t. induction n as [|n IH]; intros l L.
  - destruct l; [constructor | cbn in L; lia].
  - destruct l as [|a rest]; [constructor|]. cbn [length] in L. cbn [win_read].
    destruct (is_marker t a) eqn:M.
    + apply wr_marker; [apply is_marker_true; auto | apply IH; lia].
    + apply is_marker_false in M.
      destruct rest as [|ob [|v rest']].
      * apply wr_plain; auto; [intros; discriminate | constructor].
      * apply wr_plain; auto; [intros; discriminate | apply IH; cbn [length] in *; lia].
      * destruct (tget t ob) as [kb|] eqn:KB.
        -- destruct kb; try (apply wr_plain; auto;
             [intros ob' v' r' op' E; inversion E; subst; rewrite KB; discriminate | apply IH; cbn [length] in *; lia]).
           apply wr_triple; auto. apply IH. cbn [length] in *. lia.
        -- apply wr_plain; auto;
             [intros ob' v' r' op' E; inversion E; subst; rewrite KB; discriminate | apply IH; cbn [length] in *; lia].
Qed.

(* existence and uniqueness: [win_read] is the reading *)
Theorem win_read_reading : forall t l, win_reading t l (win_read t l).
Proof. intros. apply (win_read_reading_n t (length l)). auto. Qed.

Theorem win_reading_fun : forall t l es, win_reading t l es -> es = win_read t l.
Proof.
  intros t l es H. induction H.
  - reflexivity.
  - cbn [win_read]. apply is_marker_true in H. rewrite H. exact IHwin_reading.
  - cbn [win_read]. apply is_marker_false in H. rewrite H, H0. f_equal. exact IHwin_reading.
  - cbn [win_read]. apply is_marker_false in H. rewrite H.
    destruct rest as [|ob [|v rest']]; try (f_equal; exact IHwin_reading).
    destruct (tget t ob) as [kb|] eqn:KB; [|f_equal; exact IHwin_reading].
    destruct kb; try (f_equal; exact IHwin_reading).
    exfalso. exact (H0 ob v rest' o eq_refl KB).
Qed.

(* nothing lost, nothing invented, in order: the items of the elements are the item list with
   only marker items deleted *)
Inductive minus_markers (t : ttape) : list nat -> list nat -> Prop :=
| mm_nil : minus_markers t [] []
| mm_keep : forall a xs ys, minus_markers t xs ys -> minus_markers t (a :: xs) (a :: ys)
| mm_drop : forall a xs ys, tget t a = Some TMixedContainer -> minus_markers t xs ys -> minus_markers t xs (a :: ys).

Theorem win_reading_covers : forall t l es, win_reading t l es ->
  minus_markers t (flat_map welem_items es) l.
Proof.
  intros t l es H. induction H; cbn [flat_map welem_items app].
  - constructor.
  - apply mm_drop; auto.
  - repeat apply mm_keep. exact IHwin_reading.
  - apply mm_keep. exact IHwin_reading.
Qed.

Theorem win_read_covers : forall t l, minus_markers t (flat_map welem_items (win_read t l)) l.
Proof. intros. apply win_reading_covers. apply win_read_reading. Qed.

(* one element per plain item, one per triple *)
Lemma win_read_length : forall t l, length (win_read t l) <= length l.
Proof.
  intros t l. pose proof (win_read_reading t l) as H. induction H; cbn [length] in *; lia.
Qed.

Section Window.
  Variable dec : bytes -> bytes.
  Variable t : ttape.
  Variable rec : nat -> outcome json.

  Lemma value_token_some : forall a k, tget t a = Some k -> value_token t a = Ok k.
  Proof. intros. unfold value_token. apply tok_at_some. auto. Qed.

  (* SingleObject *)
  Lemma single_spec : forall a ka op v, tget t a = Some ka ->
    ser_single dec t rec a op v = (do j <- rec v; Ok (triple_tree (triple_key dec (Some ka)) op j)).
  Proof.
    intros a ka op v K. unfold ser_single, read_str, ser_opvalue, triple_tree.
    rewrite (value_token_some _ _ K). cbn [obind].
    destruct ka; cbn [obind triple_key]; destruct (op_is_equal op); cbn [fst snd];
      destruct (rec v); cbn [obind]; reflexivity.
  Qed.

  Lemma plain_step : forall a rest,
    (do j <- ser_opvalue rec (None, a); do js <- ser_window dec t rec rest; Ok (j :: js)) =
    (do b <- rec a; do bs <- ser_window dec t rec rest; Ok (b :: bs)).
  Proof. intros. unfold ser_opvalue. cbn [fst snd]. reflexivity. Qed.

  (* THE lemma of part 1: the sliding window is the declarative reading, element by element *)
  Lemma ser_window_spec_n : forall n l, length l <= n -> Forall (fun a => a < length t) l ->
    ser_window dec t rec l = omapM (elem_tree dec t rec) (win_read t l).
  Proof.
    induction n as [|n IH]; intros l L F.
    - destruct l; [reflexivity | cbn in L; lia].
    - destruct l as [|a rest]; [reflexivity|]. cbn [length] in L.
      inversion F as [|a' rest' LA FR]; subst.
      destruct (tget t a) as [ka|] eqn:KA; [|apply nth_error_None in KA; lia].
      assert (IR : ser_window dec t rec rest = omapM (elem_tree dec t rec) (win_read t rest)) by (apply IH; auto; lia).
      cbn [ser_window win_read]. rewrite (value_token_some _ _ KA). cbn [obind].
      unfold is_marker. rewrite KA.
      assert (PLAIN : (do j <- ser_opvalue rec (None, a); do js <- ser_window dec t rec rest; Ok (j :: js)) =
                      omapM (elem_tree dec t rec) (WPlain a :: win_read t rest)).
      { rewrite plain_step. cbn [omapM elem_tree]. rewrite IR. reflexivity. }
      destruct rest as [|ob [|v rest2]].
      + destruct ka; try exact PLAIN. exact IR.
      + destruct ka; try exact PLAIN. exact IR.
      + inversion FR as [|ob' r' LO FR2]; subst. inversion FR2 as [|v' r'' LV FR3]; subst.
        destruct (tget t ob) as [kb|] eqn:KB; [|apply nth_error_None in KB; lia].
        assert (IR3 : ser_window dec t rec rest2 = omapM (elem_tree dec t rec) (win_read t rest2))
          by (apply IH; auto; cbn [length] in L; lia).
        assert (TRIPLE : forall op, kb = TOperator op ->
                  (do j <- ser_single dec t rec a op v; do js <- ser_window dec t rec rest2; Ok (j :: js)) =
                  omapM (elem_tree dec t rec) (WTriple a ob op v :: win_read t rest2)).
        { intros op _. rewrite (single_spec a ka op v KA). cbn [omapM elem_tree]. rewrite KA, IR3.
          destruct (rec v); cbn [obind]; reflexivity. }
        destruct ka; try exact IR;
          (rewrite (value_token_some _ _ KB); cbn [obind]; destruct kb; try exact PLAIN; apply TRIPLE; reflexivity).
  Qed.

  Theorem ser_window_spec : forall l, Forall (fun a => a < length t) l ->
    ser_window dec t rec l = omapM (elem_tree dec t rec) (win_read t l).
  Proof. intros l F. apply (ser_window_spec_n (length l)); auto. Qed.
End Window.

Lemma items_lt_len : forall t s e l, items t s e l -> e <= length t -> Forall (fun a => a < length t) l.
Proof.
  intros t s e l I L. apply Forall_forall. intros a IN. pose proof (items_in _ _ _ _ I a IN). lia.
Qed.

(* the elements of an array node, on every well-formed tape *)
Theorem inner_array_content : forall dec t rec r, tape_wf t -> arr_ok t r ->
  (forall a, a_start r <= a -> vend t a < a_end r -> exists j, rec a = Ok j) ->
  exists l js,
    items t (a_start r) (a_end r) l /\ values_all t r = Ok l /\
    omapM (elem_tree dec t rec) (win_read t l) = Ok js /\ length js = length (win_read t l) /\
    ser_inner_array dec t rec r = Ok (JArr js).
Proof.
  intros dec t rec r WF A H.
  destruct (inner_array_total dec t WF rec r A H) as [j J].
  destruct (values_agree t r A) as (l & I & VA & _).
  unfold ser_inner_array in J. rewrite VA in J. cbn [obind] in J.
  destruct A as [D LE].
  rewrite (ser_window_spec dec t rec l (items_lt_len _ _ _ _ I LE)) in J.
  destruct (omapM (elem_tree dec t rec) (win_read t l)) as [js| | | |] eqn:OM; cbn [obind] in J; try discriminate.
  exists l, js. repeat split; auto.
  - eapply omapM_length; eauto.
  - unfold ser_inner_array. rewrite VA. cbn [obind].
    rewrite (ser_window_spec dec t rec l (items_lt_len _ _ _ _ I LE)), OM. reflexivity.
Qed.

Definition array_wrap (m : dupmode) (js : list json) : json :=
  match m with
  | KeyValuePairs => JObj [(s_type, JStr s_array); (s_val, JArr js)]
  | _ => JArr js
  end.

Lemma rec_total_in : forall dec dbg o t lo hi, tape_wf t -> hi <= length t ->
  forall a, lo <= a -> vend t a < hi -> exists j, ser_value dec dbg o t (ser_fuel t) a = Ok j.
Proof.
  intros dec dbg o t lo hi WF L a SA EA. apply ser_value_total; auto.
  destruct (Nat.le_gt_cases (length t) a) as [G | G]; auto. rewrite vend_ge_len in EA by auto. lia.
Qed.

(* ArrayReader::json(): the elements are the reading of the node's items, each built with the
   node's own options [o] *)
Theorem json_array_content : forall dec dbg o t r, tape_wf t -> arr_ok t r ->
  let rec := ser_value dec dbg o t (ser_fuel t) in
  exists l js,
    items t (a_start r) (a_end r) l /\ values_all t r = Ok l /\
    omapM (elem_tree dec t rec) (win_read t l) = Ok js /\ length js = length (win_read t l) /\
    json_array dec dbg o t r = Ok (array_wrap (duplicate_keys o) js).
Proof.
  intros dec dbg o t r WF A rec.
  destruct (inner_array_content dec t rec r WF A) as (l & js & I & VA & OM & LN & SI).
  { destruct A as [_ LE]. apply (rec_total_in dec dbg o t _ _ WF LE). }
  exists l, js. repeat split; auto.
  unfold json_array. destruct A as [D L]. pose proof (dyck_le _ _ _ D).
  unfold array_tokens_len, sub_usize.
  replace (Nat.ltb (a_end r) (a_start r)) with false by (symmetry; apply Nat.ltb_ge; lia). cbn [obind].
  unfold ser_array_builder. fold rec. rewrite SI. cbn [obind].
  unfold array_wrap. destruct (duplicate_keys o); reflexivity.
Qed.

(* the "remainder" of a mixed object (all three duplicate-key modes use the same InnerSerArray) *)
Theorem remainder_content : forall dec dbg o t r l last, tape_wf t -> obj_node t r ->
  fields_all dbg t r = Ok (l, last) ->
  let rec := ser_value dec dbg o t (ser_fuel t) in
  let tr := tail_reader last (o_end r) in
  exists vs js,
    items t (a_start tr) (a_end tr) vs /\
    omapM (elem_tree dec t rec) (win_read t vs) = Ok js /\ length js = length (win_read t vs) /\
    ser_remainder dec t rec last (o_end r) = Ok (if Nat.eqb (length vs) 0 then None else Some (JArr js)).
Proof.
  intros dec dbg o t r l last WF N FA rec tr.
  destruct (remainder_is_tail dbg t r l last WF N FA) as (R & A & _).
  destruct (obj_node_facts t r WF N) as (_ & LE & _).
  destruct (inner_array_content dec t rec tr WF A) as (vs & js & I & VA & OM & LN & SI).
  { assert (a_end tr <= length t) by (destruct A; auto). apply (rec_total_in dec dbg o t _ _ WF H). }
  exists vs, js. repeat split; auto.
  unfold ser_remainder. rewrite R. fold tr.
  destruct (values_agree t tr A) as (vs' & I' & VA' & _ & EM & _).
  rewrite VA in VA'. inversion VA'; subst vs'. rewrite EM. cbn [obind].
  destruct (Nat.eqb (length vs) 0); auto. rewrite SI. reflexivity.
Qed.

(* "with the node's options passed down": a plain element is what ValueReader::json() with the
   SAME options gives for that item *)
Theorem elem_value_entry : forall dec dbg o t v, tape_wf t -> v < length t ->
  ser_value dec dbg o t (ser_fuel t) v = json_value dec dbg o t v.
Proof.
  intros dec dbg o t v WF L. unfold json_value.
  destruct (value_token_ok t v L) as (k & VT & K).
  assert (exists n, value_tokens_len t v = Ok n) as [n N].
  { unfold value_tokens_len. rewrite VT. cbn [obind].
    destruct k; eauto; destruct (cont_lt t v _ e (WFC t WF) K eq_refl) as (A & _); unfold sub_usize;
      replace (Nat.ltb e v) with false by (symmetry; apply Nat.ltb_ge; lia); cbn [obind];
      replace (Nat.ltb (e - v) 1) with false by (symmetry; apply Nat.ltb_ge; lia); eauto. }
  rewrite N. reflexivity.
Qed.

(* ================================================================ Part 3: no NaN / infinity in any tree *)
From JV Require Import Utf8 JsonText.
From JV.proofs Require Import JsonTextModelProofs JsonF64Finite.

Fixpoint floats_finite (j : json) : Prop :=
  match j with
  | JF64 b => f64_is_finite b = true
  | JArr l => (fix all (l : list json) : Prop := match l with [] => True | x :: r => floats_finite x /\ all r end) l
  | JObj l => (fix all (l : list (bytes * json)) : Prop :=
                 match l with [] => True | (_, x) :: r => floats_finite x /\ all r end) l
  | _ => True
  end.

Lemma ff_arr : forall l, Forall floats_finite l -> floats_finite (JArr l).
Proof. intros l F. cbn [floats_finite]. induction F; auto. Qed.

Lemma ff_obj : forall l, Forall (fun kv => valid_utf8 (fst kv) = true /\ floats_finite (snd kv)) l -> floats_finite (JObj l).
Proof. intros l F. cbn [floats_finite]. induction F; auto. destruct x as [k v]. cbn [snd] in H. destruct H. auto. Qed.

Lemma serialize_scalar_finite : forall dec t v j, serialize_scalar dec t v = Ok j -> floats_finite j.
Proof.
  intros dec t v j H. pose proof H as H0. unfold serialize_scalar in H.
  destruct (unwrap P_scalar_unwrap (read_scalar t v)) as [s| | | |] eqn:RS; cbn [obind] in H; try discriminate.
  assert (RS' : read_scalar t v = Ok s) by (destruct (read_scalar t v); cbn [unwrap] in RS; try discriminate; auto).
  pose proof (narrowing_spec dec t v s j RS' H0) as NS.
  destruct j; try exact I; try contradiction.
  cbn [floats_finite]. destruct NS as (_ & _ & _ & TF). eapply to_f64_bits_finite; eauto.
Qed.

(* every float leaf of every tree the model computes is finite: serde_json's `null` branch for
   NaN / infinity is never taken for a value coming from Scalar::to_f64 *)
Theorem model_floats_finite : forall dec dbg o t, dec_contract dec ->
  (forall v j, json_value dec dbg o t v = Ok j -> floats_finite j) /\
  (forall r j, json_object dec dbg o t r = Ok j -> floats_finite j) /\
  (forall r j, json_array dec dbg o t r = Ok j -> floats_finite j).
Proof.
  intros dec dbg o t DC. split; [|split].
  - apply (json_value_G dec dbg o t DC floats_finite); auto using ff_arr, ff_obj; try (intros; exact I). intros _. apply serialize_scalar_finite.
  - apply (json_object_G dec dbg o t DC floats_finite); auto using ff_arr, ff_obj; try (intros; exact I). intros _. apply serialize_scalar_finite.
  - apply (json_array_G dec dbg o t DC floats_finite); auto using ff_arr, ff_obj; try (intros; exact I). intros _. apply serialize_scalar_finite.
Qed.

(* and then the printer never takes the `null` branch of serialize_f64 *)
Lemma print_f64_finite : forall fmt b, f64_is_finite b = true -> print_f64 fmt b = fmt b.
Proof. intros fmt b H. unfold print_f64. rewrite H. reflexivity. Qed.
