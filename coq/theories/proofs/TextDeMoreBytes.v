(* C02, composition with the byte level.
   1. slice path: C01's parse_render + the tape walk theorem.
   2. reader path: the reference tokenizer (TextRef) on a rendering of a reader-plain document
      (TextDeBytes.plain_fields) reads exactly the document's reader tokens (TextDeSpec.rtoks_fields)
      and ends cleanly -- for the WHOLE grammar of TextDoc without parameter blocks (headers, object
      tails, key-value arrays included), every layout, with or without BOM.  With C07's
      stream_eq_tok: so does the streaming reader under every schedule and fitting capacity. *)
From JV Require Import Bytes Tables U64Swar BufWin Utf8 Scalar TextTok TextReader TextRef TextSkipRef TextTape TextDoc
  SerdeShape TextDeCommon TextDeTape TextDeStream TextDeSpec TextDeBytes.
From JV.proofs Require Import TextReaderProofs TextRefProofs TextFbProofs TextReaderMainProofs TextSkipProofs
  TextParseProofs TextSkipDocProofs TextDeTapeProofs TextDeStreamProofs.
From Coq Require Import Lia List Arith ZArith.
Import ListNotations.
Open Scope nat_scope.

Notation rtk := TextReader.rtok.
Notation dtok := TextDoc.rtok.

(* ------------------------------------------------------------------ the tokenizer on one scalar *)
Lemma tk_word_q u rest : wf_word u = true -> no_qmark u = true -> starts_boundary rest ->
  fst (tk false (u ++ rest)) = RTok (RUnq u) rest.
Proof.
  unfold wf_word, no_qmark. intros H H63 Hr.
  destruct u as [|c u]; [discriminate|].
  apply andb_true_iff in H. destruct H as [H Hnb]. apply andb_true_iff in H. destruct H as [H Hat].
  apply andb_true_iff in H. destruct H as [H34 H59].
  apply negb_true_iff in H34, H59, Hat.
  assert (E63 : b_is c 63 = false).
  { unfold b_is. destruct (N.eqb c 63) eqn:E; [|reflexivity]. apply N.eqb_eq in E. subst c. discriminate. }
  cbn [forallb] in Hnb. apply andb_true_iff in Hnb. destruct Hnb as [Hc Hu]. apply negb_true_iff in Hc.
  assert (Hws : is_ws c = false).
  { unfold is_ws. rewrite (nb_not c 32), (nb_not c 9), (nb_not c 10), (nb_not c 13) by (exact Hc || reflexivity).
    cbn [orb]. exact H59. }
  pose proof (unq_item_word c u rest Hu Hr) as Hitem.
  assert (Hres : forall it, (match rest with
            | [] => exists n, it = ITokEof (RUnq (c :: u)) n
            | _ => exists n, it = ITok (RUnq (c :: u)) rest n end) ->
       fst (match it with
            | ISkip s' n => bump n (tk false s')
            | ITok t s' n => (RTok t s', n)
            | ITokEof t n => (RTok t [], n)
            | IEnd n => (REnd, n)
            | IEof k n => (REof k, n)
            end) = RTok (RUnq (c :: u)) rest).
  { intros it Hit. destruct rest as [|b0 r0]; destruct Hit as [m ->]; reflexivity. }
  rewrite tk_unfold. cbn [app].
  destruct (b_is c 64) eqn:E64.
  - apply b_is_true in E64. subst c. rewrite item_at.
    destruct u as [|c2 u2]; [cbn in Hat; discriminate|]. cbn [app].
    cbn [forallb] in Hu. apply andb_true_iff in Hu. destruct Hu as [Hc2 Hu2]. apply negb_true_iff in Hc2.
    rewrite (nb_not c2 91) by (exact Hc2 || reflexivity).
    apply Hres. apply Hitem.
  - rewrite item_default; try assumption; try (apply nb_not; [exact Hc|reflexivity]).
    rewrite andb_false_r. apply Hres. apply Hitem.
Qed.

Lemma closes_find r rest : forall k, closes_at_end r = true ->
  find_from (fun x => b_is x 93) (r ++ rest) k = Some (k + (length r - 1)) /\ 1 <= length r.
Proof.
  induction r as [|c r IH]; intros k H; [discriminate|].
  cbn [closes_at_end] in H. cbn [app find_from length].
  destruct r as [|c2 r2].
  - change (b_is c 93) with (N.eqb c 93). rewrite H. cbn [length]. split; [f_equal; lia|lia].
  - apply andb_true_iff in H. destruct H as [Hc Hr]. apply negb_true_iff in Hc.
    change (b_is c 93) with (N.eqb c 93). rewrite Hc.
    destruct (IH (S k) Hr) as [E Hl]. rewrite E. cbn [length] in *. split; [f_equal; lia|lia].
Qed.

Lemma varexpr_shape s : wf_varexpr s = true -> exists r, s = 64%N :: 91%N :: r /\ closes_at_end r = true.
Proof.
  unfold wf_varexpr. intros H. destruct s as [|c0 s1]; [discriminate|].
  destruct c0 as [|p]; [discriminate|].
  do 7 (destruct p as [p|p|]; try discriminate).
  destruct s1 as [|c1 r]; [discriminate|].
  destruct c1 as [|p]; [discriminate|].
  do 7 (destruct p as [p|p|]; try discriminate).
  exists r. split; [reflexivity|exact H].
Qed.

Lemma tk_varexpr s rest : wf_varexpr s = true -> fst (tk false (s ++ rest)) = RTok (RUnq s) rest.
Proof.
  intros H0. destruct (varexpr_shape s H0) as (r & -> & H).
  destruct (closes_find r rest 0 H) as [Ef Hl].
  rewrite tk_unfold. cbn [app]. rewrite item_at. cbn [b_is N.eqb Pos.eqb]. rewrite Ef. cbn [Nat.add fst].
  replace (length r - 1 + 3) with (length (64%N :: 91%N :: r)) by (cbn [length]; lia).
  change (64%N :: 91%N :: r ++ rest) with ((64%N :: 91%N :: r) ++ rest).
  rewrite firstn_app, Nat.sub_diag, firstn_all, skipn_app, Nat.sub_diag, skipn_all. cbn [firstn skipn app].
  rewrite app_nil_r. reflexivity.
Qed.

Definition rd_unq (u : bytes) : bool := wf_unq u && no_qmark u.

Lemma tk_unq u rest : rd_unq u = true -> starts_boundary rest ->
  fst (tk false (u ++ rest)) = RTok (RUnq u) rest.
Proof.
  unfold rd_unq, wf_unq. intros H Hr. apply andb_true_iff in H. destruct H as [H Hq].
  apply orb_true_iff in H. destruct H as [H|H]; [apply tk_word_q; assumption|apply tk_varexpr; assumption].
Qed.

Lemma rd_unq_hd u : rd_unq u = true -> exists c r, u = c :: r /\ c <> 61%N /\ c <> 123%N /\ c <> 125%N.
Proof.
  unfold rd_unq, wf_unq. intros H. apply andb_true_iff in H. destruct H as [H _].
  apply orb_true_iff in H. destruct H as [H|H].
  - unfold wf_word in H. destruct u as [|c u]; [discriminate|]. exists c, u. split; [reflexivity|].
    apply andb_true_iff in H. destruct H as [_ Hnb]. cbn [forallb] in Hnb. apply andb_true_iff in Hnb.
    destruct Hnb as [Hc _]. apply negb_true_iff in Hc. repeat split; intros ->; discriminate.
  - unfold wf_varexpr in H. destruct u as [|c u]; [discriminate|]. exists c, u. split; [reflexivity|].
    repeat split; intros ->; discriminate.
Qed.

(* ------------------------------------------------------------------ token lists the reader lexes one for one *)
Inductive lex_ok : list dtok -> list rtk -> Prop :=
| lo_nil : lex_ok [] []
| lo_l ts rs : lex_ok ts rs -> lex_ok (lbrace :: ts) (ROpen :: rs)
| lo_r ts rs : lex_ok ts rs -> lex_ok (rbrace :: ts) (RClose :: rs)
| lo_unq u ts rs : rd_unq u = true -> lex_ok ts rs -> lex_ok ((u, true) :: ts) (RUnq u :: rs)
| lo_quo s ts rs : wf_quo s = true -> lex_ok ts rs -> lex_ok ((34%N :: s ++ [34%N], false) :: ts) (RQuo s :: rs)
| lo_op o t ts rs : hd_ne61 t -> lex_ok (t :: ts) rs -> lex_ok ((op_symbol o, false) :: t :: ts) (ROp o :: rs).

Lemma lex_tok_nonempty ts rs : lex_ok ts rs -> Forall (fun t : dtok => fst t <> []) ts.
Proof.
  induction 1; constructor; try assumption; cbn [fst lbrace rbrace]; try discriminate.
  - destruct (rd_unq_hd u H) as (c & r & -> & _). discriminate.
  - destruct o; discriminate.
Qed.

Lemma rr_tok s t s' : fst (tk false s) = RTok t s' ->
  fst (fst (rr false s)) = OTok t :: fst (fst (rr false s')).
Proof.
  intros H. rewrite rr_unfold. destruct (tk false s) as [res n]. cbn [fst] in H. subst res.
  destruct (rr false s') as [[l rem] m]. reflexivity.
Qed.

Lemma rr_end s : fst (tk false s) = REnd -> fst (fst (rr false s)) = [OEnd].
Proof. intros H. rewrite rr_unfold. destruct (tk false s) as [res n]. cbn [fst] in H. subst res. reflexivity. Qed.

Theorem lex_run g : (forall j, gap_ok (g j)) -> forall ts rs, lex_ok ts rs ->
  forall i, sep_ok g ts i -> fst (fst (rr false (render_toks g ts i))) = map OTok rs ++ [OEnd].
Proof.
  intros Hg ts rs H. induction H as [|ts rs H IH|ts rs H IH|u ts rs Hu H IH|s ts rs Hs H IH|o t ts rs Ht H IH];
    intros i Hsep.
  - cbn [render_toks map app]. apply rr_end. rewrite <- (app_nil_r (g i)). rewrite tk_gap by apply Hg. reflexivity.
  - cbn [sep_ok] in Hsep. destruct Hsep as [_ Hsep]. rewrite render_toks_cons. cbn [map app].
    rewrite (rr_tok _ ROpen (render_toks g ts (S i))); [rewrite IH by exact Hsep; reflexivity|].
    rewrite tk_gap by apply Hg. cbn [lbrace fst app]. rewrite tk_unfold. reflexivity.
  - cbn [sep_ok] in Hsep. destruct Hsep as [_ Hsep]. rewrite render_toks_cons. cbn [map app].
    rewrite (rr_tok _ RClose (render_toks g ts (S i))); [rewrite IH by exact Hsep; reflexivity|].
    rewrite tk_gap by apply Hg. cbn [rbrace fst app]. rewrite tk_unfold. reflexivity.
  - cbn [sep_ok] in Hsep. destruct Hsep as [Hs1 Hsep]. rewrite render_toks_cons. cbn [map app].
    rewrite (rr_tok _ (RUnq u) (render_toks g ts (S i))); [rewrite IH by exact Hsep; reflexivity|].
    rewrite tk_gap by apply Hg. cbn [fst]. apply tk_unq; [exact Hu|apply Hs1; reflexivity].
  - cbn [sep_ok] in Hsep. destruct Hsep as [_ Hsep]. rewrite render_toks_cons. cbn [map app].
    rewrite (rr_tok _ (RQuo s) (render_toks g ts (S i))); [rewrite IH by exact Hsep; reflexivity|].
    rewrite tk_gap by apply Hg. cbn [fst app]. rewrite <- app_assoc. cbn [app]. apply tk_quo. exact Hs.
  - cbn [sep_ok] in Hsep. destruct Hsep as [_ Hsep]. rewrite render_toks_cons. cbn [map app].
    rewrite (rr_tok _ (ROp o) (render_toks g (t :: ts) (S i))); [rewrite IH by exact Hsep; reflexivity|].
    rewrite tk_gap by apply Hg. cbn [fst].
    assert (Hne : fst t <> []) by (unfold hd_ne61 in Ht; destruct (fst t); [contradiction|discriminate]).
    apply tk_op.
    + apply render_toks_nonempty. exact Hne.
    + apply hd_render_toks; [exact Hg| |discriminate|].
      * intros c Hc. unfold is_ws_t, beq in Hc.
        repeat (apply orb_true_iff in Hc; destruct Hc as [Hc|Hc]); apply N.eqb_eq in Hc; subst; discriminate.
      * split; [|exact Hne]. unfold hd_ne61 in Ht. destruct (fst t); [exact I|exact Ht].
Qed.

(* ------------------------------------------------------------------ documents give such lists *)
Definition rd_scalar (k : skind) (s : bytes) : bool := match k with Unq => rd_unq s | Quo => wf_quo s end.

Fixpoint rd_value (v : value) : bool :=
  match v with
  | VScalar k s => rd_scalar k s
  | VObject fs tl => rd_fields fs && rd_values tl
  | VArray items => rd_values items
  | VArrayKv items kvs => rd_values items && rd_fields kvs
  | VHeader name v => (wf_word name && no_qmark name) && rd_value v
  end
with rd_field (f : TextDoc.field) : bool :=
  match f with
  | Field k key _ v => rd_scalar k key && rd_value v
  | _ => false
  end
with rd_fields (fs : fields) : bool :=
  match fs with FNil => true | FCons f fs' => rd_field f && rd_fields fs' end
with rd_values (vs : values) : bool :=
  match vs with VNil => true | VCons v vs' => rd_value v && rd_values vs' end.

Lemma unq_hd u b : rd_unq u = true -> hd_ne61 (u, b).
Proof. intros H. destruct (rd_unq_hd u H) as (c & r & -> & Hc & _). exact Hc. Qed.

Lemma word_rd name : wf_word name = true -> no_qmark name = true -> rd_unq name = true.
Proof. intros H1 H2. unfold rd_unq, wf_unq. rewrite H1, H2. reflexivity. Qed.

Lemma scalar_lex k s ts rs : rd_scalar k s = true -> lex_ok ts rs ->
  lex_ok (stok k s :: ts) (scalar_rtok k s :: rs) /\ hd_ne61 (stok k s).
Proof.
  intros H Hl. destruct k; cbn [stok scalar_bytes scalar_rtok rd_scalar] in *.
  - split; [apply lo_unq; assumption|apply unq_hd; exact H].
  - split; [apply lo_quo; assumption|unfold hd_ne61; cbn [fst]; discriminate].
Qed.

Lemma rd_lex :
  (forall v, rd_value v = true -> forall rest rr0, lex_ok rest rr0 ->
     lex_ok (toks_value v ++ rest) (rtoks_value v ++ rr0) /\
     exists t ts, toks_value v ++ rest = t :: ts /\ hd_ne61 t) /\
  (forall f, rd_field f = true -> forall rest rr0, lex_ok rest rr0 ->
     lex_ok (toks_field f ++ rest) (rtoks_field f ++ rr0)) /\
  (forall fs, rd_fields fs = true -> forall rest rr0, lex_ok rest rr0 ->
     lex_ok (toks_fields fs ++ rest) (rtoks_fields fs ++ rr0)) /\
  (forall vs, rd_values vs = true -> forall rest rr0, lex_ok rest rr0 ->
     lex_ok (toks_values vs ++ rest) (rtoks_values vs ++ rr0)).
Proof.
  apply doc_mutind.
  - intros k s H rest rr0 Hr. cbn [rd_value] in H. cbn [toks_value rtoks_value app].
    destruct (scalar_lex k s rest rr0 H Hr) as [H1 H2]. split; [exact H1|]. eexists; eexists; split; [reflexivity|exact H2].
  - intros fs Hfs tl Htl H rest rr0 Hr. cbn [rd_value] in H. apply andb_true_iff in H. destruct H as [H1 H2].
    cbn [toks_value rtoks_value]. rewrite !app_cons_assoc, <- !app_assoc. cbn [app].
    split; [|eexists; eexists; split; [reflexivity|unfold hd_ne61; cbn [fst lbrace]; discriminate]].
    apply lo_l. apply Hfs; [exact H1|]. apply Htl; [exact H2|]. apply lo_r. exact Hr.
  - intros items Hi H rest rr0 Hr. cbn [rd_value] in H.
    cbn [toks_value rtoks_value]. rewrite !app_cons_assoc, <- !app_assoc. cbn [app].
    split; [|eexists; eexists; split; [reflexivity|unfold hd_ne61; cbn [fst lbrace]; discriminate]].
    apply lo_l. apply Hi; [exact H|]. apply lo_r. exact Hr.
  - intros items Hi kvs Hk H rest rr0 Hr. cbn [rd_value] in H. apply andb_true_iff in H. destruct H as [H1 H2].
    cbn [toks_value rtoks_value]. rewrite !app_cons_assoc, <- !app_assoc. cbn [app].
    split; [|eexists; eexists; split; [reflexivity|unfold hd_ne61; cbn [fst lbrace]; discriminate]].
    apply lo_l. apply Hi; [exact H1|]. apply Hk; [exact H2|]. apply lo_r. exact Hr.
  - intros name v Hv H rest rr0 Hr. cbn [rd_value] in H. apply andb_true_iff in H. destruct H as [H1 H2].
    apply andb_true_iff in H1. destruct H1 as [Hw Hq]. pose proof (word_rd name Hw Hq) as Hn.
    cbn [toks_value rtoks_value]. rewrite !app_cons_assoc.
    split; [|eexists; eexists; split; [reflexivity|apply unq_hd; exact Hn]].
    apply lo_unq; [exact Hn|]. apply Hv; assumption.
  - intros k key op v Hv H rest rr0 Hr. cbn [rd_field] in H. apply andb_true_iff in H. destruct H as [H1 H2].
    destruct (Hv H2 rest rr0 Hr) as [Hfl (t & ts & Et & Ht)].
    cbn [toks_field rtoks_field]. rewrite !app_cons_assoc, <- !app_assoc.
    apply scalar_lex; [exact H1|].
    destruct op as [o|]; cbn [optok app]; [|exact Hfl]. rewrite Et. apply lo_op; [exact Ht|]. rewrite <- Et. exact Hfl.
  - intros name u s H. discriminate.
  - intros name u fs _ H. discriminate.
  - intros _ rest rr0 Hr. exact Hr.
  - intros f Hf fs Hfs H rest rr0 Hr. cbn [rd_fields] in H. apply andb_true_iff in H. destruct H as [H1 H2].
    cbn [toks_fields rtoks_fields]. rewrite <- !app_assoc. apply Hf; [exact H1|]. apply Hfs; assumption.
  - intros _ rest rr0 Hr. exact Hr.
  - intros v Hv vs Hvs H rest rr0 Hr. cbn [rd_values] in H. apply andb_true_iff in H. destruct H as [H1 H2].
    cbn [toks_values rtoks_values]. rewrite <- !app_assoc. apply Hv; [exact H1|]. apply Hvs; assumption.
Qed.

Lemma rd_fields_lex d : rd_fields d = true -> lex_ok (toks_fields d) (rtoks_fields d).
Proof.
  intros H. rewrite <- (app_nil_r (toks_fields d)), <- (app_nil_r (rtoks_fields d)).
  apply (proj1 (proj2 (proj2 rd_lex))); [exact H|constructor].
Qed.

(* well-formed + plain = lexable *)
Lemma plain_scalar_rd k s : wf_scalar k s = true -> plain_scalar k s = true -> rd_scalar k s = true.
Proof. destruct k; cbn [wf_scalar plain_scalar rd_scalar]; intros H1 H2; [unfold rd_unq; rewrite H1, H2; reflexivity|exact H1]. Qed.

Lemma wf_plain_rd :
  (forall v, wf_value v = true -> plain_value v = true -> rd_value v = true) /\
  (forall f, wf_field f = true -> plain_field f = true -> rd_field f = true) /\
  (forall fs, (wf_fields fs = true -> plain_fields fs = true -> rd_fields fs = true) /\
              (wf_kvs fs = true -> plain_fields fs = true -> rd_fields fs = true)) /\
  (forall vs, (wf_items vs = true -> plain_values vs = true -> rd_values vs = true) /\
              (wf_tail vs = true -> plain_values vs = true -> rd_values vs = true)).
Proof.
  apply doc_mutind.
  - intros k s H1 H2. apply plain_scalar_rd; assumption.
  - intros fs [Hfs _] tl [_ Htl] H1 H2. cbn [wf_value plain_value rd_value] in *. andb_split.
    rewrite Hfs, Htl by assumption. reflexivity.
  - intros items [Hi _] H1 H2. cbn [wf_value plain_value rd_value] in *. andb_split. apply Hi; assumption.
  - intros items [Hi _] kvs [_ Hk] H1 H2. cbn [wf_value plain_value rd_value] in *. andb_split.
    rewrite Hi, Hk by assumption. reflexivity.
  - intros name v Hv H1 H2. cbn [wf_value plain_value rd_value] in *. andb_split.
    rewrite Hv by assumption. repeat match goal with H : _ = true |- _ => rewrite H; clear H end. reflexivity.
  - intros k key op v Hv H1 H2. cbn [wf_field plain_field rd_field] in *. andb_split.
    rewrite plain_scalar_rd, Hv by assumption. reflexivity.
  - intros name u s _ H. discriminate.
  - intros name u fs _ _ H. discriminate.
  - split; reflexivity.
  - intros f Hf fs [Hfs Hkv]. split; intros H1 H2.
    + cbn [wf_fields plain_fields rd_fields] in *. andb_split. rewrite Hf, Hfs by assumption. reflexivity.
    + cbn [plain_fields rd_fields] in *. andb_split. destruct f as [k key op v| |]; try discriminate.
      cbn [wf_kvs] in H1. andb_split. rewrite Hkv by assumption. rewrite Hf; [reflexivity| |assumption].
      cbn [wf_field]. repeat match goal with H : _ = true |- _ => rewrite H; clear H end.
      destruct op; [reflexivity|discriminate].
  - split; reflexivity.
  - intros v Hv vs [Hi Ht]. split; intros H1 H2.
    + cbn [wf_items plain_values rd_values] in *. andb_split. rewrite Hv, Hi by assumption. reflexivity.
    + cbn [wf_tail plain_values rd_values] in *. andb_split. rewrite Hv, Ht by assumption. reflexivity.
Qed.

Lemma wf_plain_lex d : wf_doc d -> plain_fields d = true -> lex_ok (toks_fields d) (rtoks_fields d).
Proof. intros H1 H2. apply rd_fields_lex. apply (proj1 (proj1 (proj2 (proj2 wf_plain_rd)) d)); assumption. Qed.

(* ------------------------------------------------------------------ the start of the stream (BOM) *)
Lemma rr_fst_eq st1 s1 st2 s2 : fst (tk st1 s1) = fst (tk st2 s2) ->
  fst (fst (rr st1 s1)) = fst (fst (rr st2 s2)).
Proof.
  intros H. rewrite (rr_unfold st1), (rr_unfold st2).
  destruct (tk st1 s1) as [r1 n1], (tk st2 s2) as [r2 n2]. cbn [fst] in H. subst r1.
  destruct r2 as [t s'| |k]; [destruct (rr false s') as [[l0 rem] m]|..]; reflexivity.
Qed.

Lemma tk_bom body : fst (tk true (bom_bytes ++ body)) = fst (tk false body).
Proof. unfold bom_bytes. cbn [app]. rewrite tk_unfold. reflexivity. Qed.

Lemma tk_start body : has_bom body = false ->
  (forall s, body = 239%N :: s -> 3 <= length body) ->
  fst (tk true body) = fst (tk false body).
Proof.
  intros Hb Hl. destruct body as [|c s]; [reflexivity|].
  rewrite (tk_unfold true), (tk_unfold false).
  destruct (b_is c 239) eqn:E.
  - apply b_is_true in E. subst c. specialize (Hl s eq_refl).
    destruct s as [|b1 [|b2 s3]]; cbn [length] in Hl; try lia.
    assert (Eb : b_is b1 187 && b_is b2 191 = false).
    { destruct (b_is b1 187) eqn:E1; [|reflexivity]. destruct (b_is b2 191) eqn:E2; [|reflexivity].
      apply b_is_true in E1, E2. subst. discriminate. }
    cbn [item is_ws b_is N.eqb Pos.eqb orb andb].
    change (N.eqb b1 187) with (b_is b1 187). change (N.eqb b2 191) with (b_is b2 191). rewrite Eb.
    unfold unq_item. destruct (find_from is_boundary (tl (239%N :: b1 :: b2 :: s3)) 0); reflexivity.
  - unfold item. rewrite E. cbn [andb]. reflexivity.
Qed.

Lemma gap_hd_not_bom g : gap_ok g -> hdP (fun c => c <> 239%N) g.
Proof.
  intros H. rewrite <- (app_nil_r g). apply hdP_gap; [exact H| |discriminate|exact I].
  intros c Hc. unfold is_ws_t, beq in Hc.
  repeat (apply orb_true_iff in Hc; destruct Hc as [Hc|Hc]); apply N.eqb_eq in Hc; subst; discriminate.
Qed.

Lemma toks_value_pos v : 1 <= length (toks_value v).
Proof. destruct v; cbn [toks_value length]; lia. Qed.

Lemma toks_fields_len3 d : wf_fields d = true -> plain_fields d = true -> d = FNil \/ 3 <= length (toks_fields d).
Proof.
  intros Hw Hp. destruct d as [|f fs]; [left; reflexivity|right].
  cbn [wf_fields plain_fields] in *. andb_split. destruct f as [k key op v| |]; try discriminate.
  cbn [toks_fields toks_field]. rewrite app_length. cbn [length]. rewrite app_length.
  pose proof (toks_value_pos v) as Hv.
  destruct op as [o|]; cbn [optok length]; [lia|].
  cbn [wf_field] in *. andb_split.
  destruct v; try discriminate; cbn [toks_value length] in *; rewrite ?app_length; cbn [length]; lia.
Qed.

Theorem ref_tokens_render d l : wf_doc d -> plain_fields d = true -> wf_layout d l ->
  tokens_of (render d l) = map OTok (rtoks_fields d) ++ [OEnd].
Proof.
  intros Hw Hp (Hg & Hsep & Hbom).
  pose proof (wf_plain_lex d Hw Hp) as Hlex.
  unfold tokens_of, ref_tokens. change (ref_run (S (length (render d l))) true (render d l)) with (rr true (render d l)).
  rewrite <- (lex_run (gap l) Hg _ _ Hlex 0 Hsep).
  apply rr_fst_eq. unfold render in *. destruct (bom l).
  - apply tk_bom.
  - cbn [app] in *. apply tk_start; [apply Hbom; reflexivity|].
    intros s Es. destruct (toks_fields_len3 d Hw Hp) as [-> | H3].
    + cbn [toks_fields render_toks] in Es. pose proof (gap_hd_not_bom _ (Hg 0)) as Hh. rewrite Es in Hh. now destruct Hh.
    + pose proof (render_toks_len (gap l) (toks_fields d) 0 (lex_tok_nonempty _ _ Hlex)). lia.
Qed.

Lemma ltoks_of_toks rs : ltoks_of (map OTok rs ++ [OEnd]) = Ok (rs, None).
Proof. induction rs as [|t rs IH]; [reflexivity|]. cbn [map app ltoks_of]. rewrite IH. reflexivity. Qed.

(* the streaming reader, any schedule, any fitting capacity *)
Theorem reader_tokens_bytes d l sch capv :
  wf_doc d -> plain_fields d = true -> wf_layout d l -> wf_bytes (render d l) ->
  no_fail sch -> need (render d l) <= capv ->
  fst (run_stream capv sch (render d l)) = map OTok (rtoks_fields d) ++ [OEnd] /\
  ltoks_of (fst (run_stream capv sch (render d l))) = Ok (tokens d).
Proof.
  intros Hw Hp Hl Hb Hnf Hn. rewrite (stream_eq_tok _ sch capv Hb Hnf Hn). cbn [fst].
  rewrite (ref_tokens_render d l Hw Hp Hl). split; [reflexivity|apply ltoks_of_toks].
Qed.

(* the zero-copy token reader (TokenReader::from_slice) *)
Theorem slice_reader_tokens_bytes d l :
  wf_doc d -> plain_fields d = true -> wf_layout d l -> wf_bytes (render d l) ->
  ltoks_of (fst (run_slice (render d l))) = Ok (tokens d).
Proof.
  intros Hw Hp Hl Hb. rewrite (slice_eq_tok _ Hb). cbn [fst].
  rewrite (ref_tokens_render d l Hw Hp Hl). apply ltoks_of_toks.
Qed.

(* ------------------------------------------------------------------ the two paths from BYTES *)
Theorem slice_path_bytes decode pf F sh d l :
  core_fields d = true -> wf_doc d -> wf_layout d l -> fits decode pf F sh d ->
  deser_slice decode pf F sh (render d l) = spec_value decode pf F sh d.
Proof.
  intros Hc Hw Hl Hf. unfold deser_slice. rewrite (parse_render d l Hw Hl). cbn [obind fst].
  apply tape_path_spec_core; assumption.
Qed.

Theorem reader_path_bytes decode pf F sh d l sch capv :
  core_fields d = true -> plain_fields d = true -> wf_doc d -> wf_layout d l -> wf_bytes (render d l) ->
  no_fail sch -> need (render d l) <= capv -> fits decode pf F sh d ->
  deser_reader decode pf F sh capv sch (render d l) = spec_value decode pf F sh d.
Proof.
  intros Hc Hp Hw Hl Hb Hnf Hn Hf. unfold deser_reader.
  rewrite (proj2 (reader_tokens_bytes d l sch capv Hw Hp Hl Hb Hnf Hn)). cbn [obind].
  apply stream_path_spec_core; assumption.
Qed.

Theorem paths_agree_bytes decode pf F sh d l sch capv :
  core_fields d = true -> plain_fields d = true -> wf_doc d -> wf_layout d l -> wf_bytes (render d l) ->
  no_fail sch -> need (render d l) <= capv -> fits decode pf F sh d ->
  deser_slice decode pf F sh (render d l) = deser_reader decode pf F sh capv sch (render d l).
Proof. intros. rewrite slice_path_bytes, reader_path_bytes by assumption. reflexivity. Qed.
