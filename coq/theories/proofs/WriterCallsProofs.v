(* State-machine theorem for WELL-FORMED call lists (C15): containers opened with
   write_object_start / write_array_start and closed in balance, keys followed by an optional
   operator and a value, headers followed by a container, rgb, every scalar-like call.
   (write_start flavours and mixed mode are not covered by this theorem: see Props/C15.v.) *)
From JV Require Import Bytes Tables TextTok Date Writer.
From JV.proofs Require Import WriterProofs.
Require Import Lia.
Open Scope N_scope.

Definition scalar_call (k : call) : bool :=
  match k with
  | CUnquoted _ | CQuoted _ | CBool _ | CI32 _ | CU32 _ | CU64 _ | CI64 _
  | CF32 _ | CF64 _ | CF32p _ _ | CF64p _ _ | CDate _ _ | CFmt _ => true
  | _ => false
  end.

Definition wf_op (ops : list call) : Prop := ops = [] \/ exists o, ops = [COperator o].

Inductive wf_value : list call -> Prop :=
| WV_scalar k : scalar_call k = true -> wf_value [k]
| WV_cont v : wf_container v -> wf_value v
| WV_hdr h v : wf_container v -> wf_value (CHeader h :: v)
with wf_container : list call -> Prop :=
| WC_obj fs : wf_fields fs -> wf_container (CObjectStart :: fs ++ [CEnd])
| WC_arr vs : wf_values vs -> wf_container (CArrayStart :: vs ++ [CEnd])
with wf_fields : list call -> Prop :=
| WF_nil : wf_fields []
| WF_cons k ops v fs : scalar_call k = true -> wf_op ops -> wf_value v -> wf_fields fs ->
                       wf_fields (k :: ops ++ v ++ fs)
with wf_values : list call -> Prop :=
| WVs_nil : wf_values []
| WVs_cons v vs : wf_value v -> wf_values vs -> wf_values (v ++ vs).

Scheme wf_value_mind := Minimality for wf_value Sort Prop
  with wf_container_mind := Minimality for wf_container Sort Prop
  with wf_fields_mind := Minimality for wf_fields Sort Prop
  with wf_values_mind := Minimality for wf_values Sort Prop.
Combined Scheme wf_mutind from wf_value_mind, wf_container_mind, wf_fields_mind, wf_values_mind.

Inductive ctx := CObj | CArr.
Definition ctx_mode (x : ctx) : dmode := match x with CObj => DObject | CArr => DArray end.
Definition after (x : ctx) : wstate := match x with CObj => WKey | CArr => WArrayValue end.
Definition inv (x : ctx) (w : wr) : Prop := w_mixed w = MDisabled /\ w_mode w = ctx_mode x.
Definition valpos (x : ctx) (s : wstate) : Prop :=
  match x with
  | CObj => s = WObjectValue \/ s = WKeyValueSeparator
  | CArr => s = WArrayValue \/ s = WArrayValueFirst
  end.
Definition keypos (s : wstate) : Prop := s = WKey \/ s = WFirstKey.
Definition elempos (s : wstate) : Prop := s = WArrayValue \/ s = WArrayValueFirst.

Section WF.
  Variable fdisp : bool -> N -> option N -> bytes.
  Variable c : cfg.

  (* run the calls, requiring every one of them to return Ok *)
  Fixpoint exec (w : wr) (calls : list call) : option wr :=
    match calls with
    | [] => Some w
    | k :: r => match step fdisp c w k with WOk w' _ => exec w' r | _ => None end
    end.

  Lemma exec_app : forall a b w,
    exec w (a ++ b) = match exec w a with Some w' => exec w' b | None => None end.
  Proof.
    induction a as [|k a IH]; intros b w; cbn [app exec]; [reflexivity|].
    destruct (step fdisp c w k); auto.
  Qed.

  Lemma last_cons_default : forall {A} (l : list A) a d, last (a :: l) d = last l a.
  Proof.
    induction l as [|b l IH]; intros a d; [reflexivity|].
    change (last (a :: b :: l) d) with (last (b :: l) d). rewrite (IH b d), (IH b a). reflexivity.
  Qed.

  (* exec is the all-Ok case of the run the correspondence check executes *)
  Lemma exec_run : forall calls w w', exec w calls = Some w' ->
    exists out log, run_from fdisp c w calls = Ok (out, log)
      /\ Forall (fun e => fst e = false) log /\ last (map snd log) w = w'.
  Proof.
    induction calls as [|k r IH]; intros w w' H; cbn [exec run_from] in *.
    - inversion H; subst. exists [], []. repeat split; constructor.
    - destruct (step fdisp c w k) as [w1 o| |]; try discriminate.
      destruct (IH _ _ H) as [out [log [R [F L]]]]. rewrite R. cbn [obind fst snd].
      exists (o ++ out), ((false, w1) :: log). repeat split.
      + constructor; [reflexivity|exact F].
      + cbn [map snd]. rewrite last_cons_default. exact L.
  Qed.

  Lemma pre_state_mode : forall w, w_mode (pre_state w) = w_mode w.
  Proof.
    intros [m d s n x]. unfold pre_state. cbn [w_state w_nlt w_mixed].
    destruct s; try reflexivity; destruct n; try reflexivity; destruct (mmode_eqb x MKeyed); reflexivity.
  Qed.
  Lemma pre_state_mixed : forall w, w_mixed w = MDisabled -> w_mixed (pre_state w) = MDisabled.
  Proof.
    intros [m d s n x] H. cbn in H. subst x. unfold pre_state. cbn [w_state w_nlt w_mixed].
    destruct s; try reflexivity; destruct n; reflexivity.
  Qed.
  Lemma pre_state_state : forall w, w_state (pre_state w) = w_state w.
  Proof.
    intros [m d s n x]. unfold pre_state. cbn [w_state w_nlt w_mixed].
    destruct s; try reflexivity; destruct n; try reflexivity; destruct (mmode_eqb x MKeyed); reflexivity.
  Qed.

  Lemma scalar_step : forall k w, scalar_call k = true ->
    exists o, step fdisp c w k = WOk (epi_state (pre_state w)) o.
  Proof.
    intros k w H. destruct k; try discriminate; cbn [step];
      rewrite ?write_raw_shape, ?write_quoted_shape; eexists; reflexivity.
  Qed.

  Lemma scalar_effect : forall w,
    w_mode (epi_state (pre_state w)) = w_mode w /\
    w_depth (epi_state (pre_state w)) = w_depth w /\
    (w_mixed w = MDisabled -> w_mixed (epi_state (pre_state w)) = MDisabled) /\
    w_state (epi_state (pre_state w)) = ws_next_spec (w_state w).
  Proof.
    intros w. repeat split.
    - unfold epi_state. cbn. apply pre_state_mode.
    - rewrite epi_state_depth. apply pre_state_depth.
    - intros H. unfold epi_state. cbn. apply pre_state_mixed. exact H.
    - unfold epi_state. cbn. rewrite pre_state_state. reflexivity.
  Qed.

  Definition good (x : ctx) (w w' : wr) : Prop :=
    inv x w' /\ w_state w' = after x /\ w_depth w' = w_depth w.

  Lemma end_after_start : forall x w w2 (m : dmode) (s : wstate),
    inv x w ->
    w_depth w2 = w_depth (start_state w m s) ->
    exists w', exec w2 [CEnd] = Some w' /\ good x w w'.
  Proof.
    intros x w w2 m s [Hm Hmode] Hd. cbn [exec step].
    unfold start_state in Hd. cbn [w_depth] in Hd.
    destruct (write_end_ok c w2 _ _ Hd) as [o Ho]. rewrite Ho. eexists. split; [reflexivity|].
    rewrite pre_state_mode, pre_state_depth, Hmode. unfold good, inv. cbn. destruct x; auto.
  Qed.

  (* write_rgb is literally the call list header "rgb"; array start; 3 or 4 u32; end *)
  Lemma rgb_is_header_array : forall w r g b a,
    exec w [CRgb r g b a] =
    exec w ([CHeader RGB; CArrayStart; CU32 r; CU32 g; CU32 b] ++ (match a with Some x => [CU32 x] | None => [] end) ++ [CEnd]).
  Proof.
    intros w r g b a. cbn [exec step app]. unfold write_rgb.
    rewrite write_header_shape. cbn [wbind]. rewrite write_array_start_shape. cbn [wbind].
    repeat (rewrite write_raw_shape; cbn [wbind]).
    destruct a; cbn [app exec step]; repeat (rewrite write_raw_shape; cbn [wbind emit]); cbn [wbind emit];
      match goal with |- context [write_end ?c ?w] => destruct (write_end c w) end; reflexivity.
  Qed.

  Theorem wf_calls_state :
    (forall v, wf_value v -> forall x w, inv x w -> valpos x (w_state w) ->
       exists w', exec w v = Some w' /\ good x w w') /\
    (forall v, wf_container v -> forall x w, inv x w ->
       exists w', exec w v = Some w' /\ good x w w') /\
    (forall fs, wf_fields fs -> forall w, inv CObj w -> keypos (w_state w) ->
       exists w', exec w fs = Some w' /\ inv CObj w' /\ keypos (w_state w') /\ w_depth w' = w_depth w) /\
    (forall vs, wf_values vs -> forall w, inv CArr w -> elempos (w_state w) ->
       exists w', exec w vs = Some w' /\ inv CArr w' /\ elempos (w_state w') /\ w_depth w' = w_depth w).
  Proof.
    apply wf_mutind.
    - (* scalar value *)
      intros k Hk x w [Hm Hmode] Hp. destruct (scalar_step k w Hk) as [o Ho].
      cbn [exec]. rewrite Ho. eexists. split; [reflexivity|].
      destruct (scalar_effect w) as [E1 [E2 [E3 E4]]]. unfold good, inv.
      rewrite E1, E2, E4, (E3 Hm). repeat split; auto.
      destruct x; cbn in Hp |- *; destruct Hp as [-> | ->]; reflexivity.
    - (* container as a value *)
      intros v _ IH x w Hi _. apply IH. exact Hi.
    - (* header + container *)
      intros h v _ IH x w [Hm Hmode] _. cbn [exec step]. rewrite write_header_shape.
      destruct (IH x (set_state (pre_state w) WObjectValue)) as [w' [E [G1 [G2 G3]]]].
      { split; cbn; [apply pre_state_mixed; exact Hm | rewrite pre_state_mode; exact Hmode]. }
      exists w'. split; [exact E|]. unfold good. repeat split; try apply G1; auto.
      rewrite G3. cbn. apply pre_state_depth.
    - (* object *)
      intros fs _ IH x w Hi. cbn [exec step]. rewrite write_object_start_shape.
      destruct Hi as [Hm Hmode].
      destruct (IH (start_state w DObject WFirstKey)) as [w2 [E [I2 [K2 D2]]]].
      { split; cbn; [apply pre_state_mixed; exact Hm | reflexivity]. }
      { right. reflexivity. }
      rewrite exec_app, E.
      apply (end_after_start x w w2 DObject WFirstKey); [split; assumption | exact D2].
    - (* array *)
      intros vs _ IH x w Hi. cbn [exec step]. rewrite write_array_start_shape.
      destruct Hi as [Hm Hmode].
      destruct (IH (start_state w DArray WArrayValueFirst)) as [w2 [E [I2 [K2 D2]]]].
      { split; cbn; [apply pre_state_mixed; exact Hm | reflexivity]. }
      { right. reflexivity. }
      rewrite exec_app, E.
      apply (end_after_start x w w2 DArray WArrayValueFirst); [split; assumption | exact D2].
    - (* no fields *)
      intros w Hi Hk. exists w. auto.
    - (* key [op] value, fields *)
      intros k ops v fs Hk Hop _ IHv _ IHf w [Hm Hmode] Hp.
      destruct (scalar_step k w Hk) as [o Ho]. cbn [exec]. rewrite Ho.
      destruct (scalar_effect w) as [E1 [E2 [E3 E4]]].
      set (w1 := epi_state (pre_state w)) in *.
      assert (S1 : w_state w1 = WKeyValueSeparator) by (rewrite E4; destruct Hp as [-> | ->]; reflexivity).
      assert (exists w2, exec w1 ops = Some w2 /\ inv CObj w2 /\ valpos CObj (w_state w2) /\ w_depth w2 = w_depth w) as [w2 [X1 [X2 [X3 X4]]]].
      { destruct Hop as [-> | [op ->]].
        - exists w1. cbn [exec]. split; [reflexivity|]. split; [split; [apply E3; exact Hm | rewrite E1; exact Hmode]|].
          split; [right; exact S1 | exact E2].
        - cbn [exec step]. unfold write_operator. rewrite (E3 Hm). cbn [mmode_eqb emit].
          eexists. split; [reflexivity|]. repeat split; cbn; auto. }
      rewrite exec_app, X1.
      destruct (IHv CObj w2 X2 X3) as [w3 [Y1 [Y2 [Y3 Y4]]]].
      rewrite exec_app, Y1.
      destruct (IHf w3 Y2) as [w4 [Z1 [Z2 [Z3 Z4]]]]; [left; exact Y3|].
      exists w4. repeat split; auto; try apply Z2. congruence.
    - (* no values *)
      intros w Hi Hk. exists w. auto.
    - (* value, values *)
      intros v vs _ IHv _ IHs w Hi Hp.
      destruct (IHv CArr w Hi Hp) as [w2 [Y1 [Y2 [Y3 Y4]]]].
      rewrite exec_app, Y1.
      destruct (IHs w2 Y2) as [w3 [Z1 [Z2 [Z3 Z4]]]]; [left; exact Y3|].
      exists w3. repeat split; auto; try apply Z2. congruence.
  Qed.

  (* a complete document = fields at the root: no call fails, depth() returns to 0 and
     expecting_key() is true at the end *)
  Corollary wf_document_state : forall fs, wf_fields fs ->
    exists out log w', run fdisp c fs = Ok (out, log)
      /\ Forall (fun e => fst e = false) log /\ last (map snd log) wr_init = w'
      /\ q_depth w' = 0 /\ q_expecting_key w' = true.
  Proof.
    intros fs H. destruct wf_calls_state as [_ [_ [F _]]].
    destruct (F fs H wr_init) as [w' [E [I [K D]]]]; [split; reflexivity | left; reflexivity|].
    destruct (exec_run _ _ _ E) as [out [log [R [Fa L]]]].
    exists out, log, w'. repeat split; auto.
    - unfold q_depth, lenN. rewrite D. reflexivity.
    - rewrite q_expecting_key_spec. destruct K as [-> | ->]; reflexivity.
  Qed.
End WF.
