(* C09 (text half), part 6: end to end.  If counting the Open / Close tokens of the remaining
   stream finds the matching close and leaves [rem], the streaming skip_container leaves a reader
   whose remaining stream is exactly [rem]. *)
From JV Require Import Bytes Tables U64Swar BufWin TextTok TextReader TextRef TextSkipRef.
From JV.proofs Require Import BufWinProofs TextReaderProofs TextRefProofs TextFbProofs TextReaderMainProofs
  TextSkipProofs TextSkipStreamProofs TextSkipTokProofs.
From Coq Require Import Lia List Arith ZArith.
Import ListNotations.
Open Scope nat_scope.

Definition suffix_of (s' s : bytes) : Prop := exists p, s = p ++ s'.

Lemma suffix_refl s : suffix_of s s.
Proof. exists []. reflexivity. Qed.
Lemma suffix_skipn k s : suffix_of (skipn k s) s.
Proof. exists (firstn k s). symmetry. apply firstn_skipn. Qed.
Lemma suffix_trans a b c : suffix_of a b -> suffix_of b c -> suffix_of a c.
Proof. intros [p ->] [q ->]. exists (q ++ p). apply app_assoc. Qed.
Lemma suffix_cons c s' s : suffix_of s' s -> suffix_of s' (c :: s).
Proof. intros [p ->]. exists (c :: p). reflexivity. Qed.
Lemma suffix_nil s : suffix_of [] s.
Proof. exists s. symmetry. apply app_nil_r. Qed.
Lemma suffix_skipn_len s' s : suffix_of s' s -> skipn (length s - length s') s = s'.
Proof.
  intros [p ->]. rewrite app_length. replace (length p + length s' - length s') with (length p + 0) by lia.
  rewrite skipn_app_pre. reflexivity.
Qed.

Lemma unq_item_suffix s : match unq_item s with
  | ISkip s' _ | ITok _ s' _ => suffix_of s' s | _ => True end.
Proof. unfold unq_item. destruct (find_from is_boundary (tl s) 0); [apply suffix_skipn|exact I]. Qed.

Lemma op_item_suffix c s0 a b : match op_item s0 a b with
  | ISkip s' _ | ITok _ s' _ => suffix_of s' (c :: s0) | _ => True end.
Proof.
  unfold op_item. destruct s0 as [|c2 s1]; [exact I|].
  destruct (b_is c2 61); [apply suffix_cons, suffix_cons, suffix_refl|apply suffix_cons, suffix_refl].
Qed.

Lemma item_suffix s : match item false s with
  | ISkip s' _ | ITok _ s' _ => suffix_of s' s | _ => True end.
Proof.
  destruct s as [|c s0]; [exact I|]. cbn [item].
  destruct (is_ws c). { apply suffix_cons, suffix_refl. }
  destruct (b_is c 35).
  { destruct (find_from (fun x => b_is x 10) s0 0); [|exact I]. apply suffix_cons, suffix_skipn. }
  destruct (b_is c 123). { apply suffix_cons, suffix_refl. }
  destruct (b_is c 125). { apply suffix_cons, suffix_refl. }
  destruct (b_is c 34).
  { destruct (rq_scan s0 0); [|exact I]. apply suffix_cons, suffix_skipn. }
  destruct (b_is c 64).
  { destruct s0 as [|c2 s1]; [exact I|]. destruct (b_is c2 91).
    - destruct (find_from (fun x => b_is x 93) s1 0); [|exact I]. apply suffix_skipn.
    - apply unq_item_suffix. }
  destruct (b_is c 61); [apply op_item_suffix|]. destruct (b_is c 60); [apply op_item_suffix|].
  destruct (b_is c 33); [apply op_item_suffix|]. destruct (b_is c 63); [apply op_item_suffix|].
  destruct (b_is c 62); [apply op_item_suffix|].
  rewrite andb_false_r. apply unq_item_suffix.
Qed.

Lemma tk_suffix : forall n s t s' m, length s <= n -> tk false s = (RTok t s', m) -> suffix_of s' s.
Proof.
  induction n as [|n IH]; intros s t s' m Hn.
  - destruct s; [|cbn in Hn; lia]. rewrite tk_unfold. cbn. discriminate.
  - rewrite tk_unfold. pose proof (item_suffix s) as Hs.
    destruct (item false s) as [s2 k|t2 s2 k|t2 k|k|k0 k] eqn:E; try discriminate.
    + pose proof (item_skip_shrinks _ _ _ _ E) as Hl. destruct (tk false s2) as [res m2] eqn:E2.
      unfold bump; cbn [fst snd]. intros H; inversion H; subst.
      apply (suffix_trans _ s2); [|exact Hs]. apply (IH s2 t s' m2); [lia|exact E2].
    + intros H; inversion H; subst. exact Hs.
    + intros H; inversion H; subst. apply suffix_nil.
Qed.

Lemma tok_count_suffix : forall fuel depth s toks r,
  tok_count fuel depth s = Some (toks, r) -> suffix_of r s.
Proof.
  induction fuel as [|f IH]; intros depth s toks r H; [discriminate|].
  cbn [tok_count] in H. destruct (tk false s) as [res m] eqn:E. cbn [fst] in H.
  destruct res as [t s'| |k0]; [|discriminate|discriminate].
  pose proof (tk_suffix (length s) s t s' m ltac:(lia) E) as Hs.
  destruct t as [| |o|u|q].
  - destruct (tok_count f (S depth) s') as [[l r']|] eqn:Ec; [|discriminate]. inversion H; subst.
    eapply suffix_trans; [eapply IH; exact Ec|exact Hs].
  - destruct (Nat.leb depth 1); [inversion H; subst; exact Hs|].
    destruct (tok_count f (depth - 1) s') as [[l r']|] eqn:Ec; [|discriminate]. inversion H; subst.
    eapply suffix_trans; [eapply IH; exact Ec|exact Hs].
  - destruct (tok_count f depth s') as [[l r']|] eqn:Ec; [|discriminate]. inversion H; subst.
    eapply suffix_trans; [eapply IH; exact Ec|exact Hs].
  - destruct (tok_count f depth s') as [[l r']|] eqn:Ec; [|discriminate]. inversion H; subst.
    eapply suffix_trans; [eapply IH; exact Ec|exact Hs].
  - destruct (tok_count f depth s') as [[l r']|] eqn:Ec; [|discriminate]. inversion H; subst.
    eapply suffix_trans; [eapply IH; exact Ec|exact Hs].
Qed.

Theorem skip_container_lands_on_token input fuel r toks rem :
  wf_bytes input -> rok input r -> skip_cap_ok r -> length (rest (rrd r)) < fuel ->
  token_skip (stream_of r) = Some (toks, rem) -> forallb tok_plain toks = true ->
  exists r', skip_container fuel r = Ok r' /\ rok input r' /\ stream_of r' = rem /\
             reader_position r' = reader_position r + (length (stream_of r) - length rem) /\
             cap (rbw r') = cap (rbw r).
Proof.
  intros Hwf Hrok Hcap Hf Ht Hp.
  destruct (token_skip_is_skip_ref _ _ _ Ht Hp) as [Hl Hs].
  pose proof (skip_container_stream input fuel r Hwf Hrok Hcap Hf) as H. rewrite Hs in H.
  destruct H as (r' & H1 & H2 & H3 & H4 & H5). exists r'. split; [exact H1|]. split; [exact H2|].
  split; [|split; [exact H4|exact H5]].
  rewrite H3. apply suffix_skipn_len. unfold token_skip in Ht. eapply tok_count_suffix. exact Ht.
Qed.
