(* The streaming deserializer (BinDeReader.v) simulates the specification walk over documents, for
   every buffer capacity that fits the input and every fault-free read schedule: the reader state is
   tied to the bytes still to come by BinStreamProofs.st_ok, each read() is one token of the slice
   lexer (rdr_next_spec, C08), skip_container lands after the matching close (C09). *)
From JV Require Import Bytes Tables BinPrim BufWin BinLexer BinReader SerdeShape BinDeCommon BinDeReader BinDoc.
From JV.proofs Require Import BinLexProofs BinRoundProofs BinStreamProofs BinSkipProofs BinRSkipProofs BinDeSim BinDocProofs.
Open Scope N_scope.

Section RdSim.
  Variable cfg : bcfg.
  Variable cap : nat.

  (* the reader state stands at data [d], which the buffer can hold token by token *)
  Definition AT (s : rstate) (d : bytes) : Prop :=
    exists pos f, st_ok s d pos cap /\ (length d < f)%nat /\ fits_fuel f cap d = true.

  Lemma at_next s t Y : AT s (write_token t ++ Y) -> wf_tok t ->
    exists s', rdr_next s = (Ok (Some t), s') /\ AT s' Y.
  Proof.
    intros (pos & f & Hok & Lf & Hf) Wt.
    destruct f as [|f]; [lia|]. cbn [fits_fuel] in Hf. apply andb_prop in Hf as [Hf1 Hf2].
    pose proof (read_write_token t Y Wt) as E. rewrite E in Hf2.
    destruct (rdr_next_spec s _ pos cap Hok Hf1) as (s' & En & Hok').
    rewrite (next_res_ok _ _ _ E) in En, Hok'. cbn [fst snd] in *.
    exists s'. split; [exact En|]. eexists _, f. split; [exact Hok'|]. split; [|exact Hf2].
    pose proof (read_token_len _ _ _ E). lia.
  Qed.

  Lemma at_read s t Y : AT s (write_token t ++ Y) -> wf_tok t ->
    exists s', lift (rdr_read s) = Ok (t, s') /\ AT s' Y.
  Proof.
    intros H W. destruct (at_next _ _ _ H W) as (s' & E & H'). exists s'. split; [|exact H'].
    unfold rdr_read. rewrite E. reflexivity.
  Qed.

  Lemma at_eof s : AT s [] -> exists s', rdr_next s = (Ok None, s') /\ AT s' [].
  Proof.
    intros (pos & f & Hok & Lf & Hf).
    destruct f as [|f]; [lia|]. cbn [fits_fuel] in Hf. apply andb_prop in Hf as [Hf1 Hf2].
    destruct (rdr_next_spec s _ pos cap Hok Hf1) as (s' & En & Hok').
    assert (E : read_token [] = Err E_LexEof) by reflexivity.
    rewrite (next_res_eof _ E) in En, Hok'. cbn [fst snd] in *.
    exists s'. split; [exact En|]. eexists _, 1%nat. split; [exact Hok'|]. split; [cbn; lia|cbn [fits_fuel]; rewrite Hf1; reflexivity].
  Qed.

  Lemma fits_after_balanced : forall fb depth d r f,
    balanced_fuel fb depth d = Some r -> fits_fuel f cap d = true -> (length d < f)%nat ->
    exists f', (length r < f')%nat /\ fits_fuel f' cap r = true.
  Proof.
    induction fb as [|fb IH]; intros depth d r f Hb Hf Lf; [discriminate|].
    cbn [balanced_fuel] in Hb. destruct f as [|f]; [lia|]. cbn [fits_fuel] in Hf. apply andb_prop in Hf as [_ Hf].
    destruct (read_token d) as [[t r1]| | | |] eqn:E; try discriminate.
    pose proof (read_token_len _ _ _ E) as L.
    destruct t; try (eapply IH; [exact Hb|exact Hf|lia]).
    destruct (Nat.eqb depth 1).
    - inversion Hb; subst. exists f. split; [lia|exact Hf].
    - eapply IH; [exact Hb|exact Hf|lia].
  Qed.

  Lemma at_skip s d r : AT s d -> balanced_read d = Some r ->
    exists s', lift (rdr_skip_container s) = Ok (tt, s') /\ AT s' r.
  Proof.
    intros (pos & f & Hok & Lf & Hf) Hb. unfold balanced_read in Hb.
    destruct (reader_skip_lands_depth cap _ 1 d r f s pos Hb (le_n 1) Hf Lf Hok) as (s' & E & Hok').
    destruct (fits_after_balanced _ _ _ _ _ Hb Hf Lf) as (f' & Lf' & Hf').
    exists s'. split; [unfold rdr_skip_container; rewrite E; reflexivity|].
    eexists _, f'. split; [exact Hok'|]. split; assumption.
  Qed.

  Lemma at_pending s d : AT s d -> rdr_pending s = d.
  Proof. intros (pos & f & (E & _) & _). exact E. Qed.

  (* ---------- relations ---------- *)
  Definition R_rd (phi : frame) (s : rstate) (c : dcur) : Prop :=
    wf_cur c = true /\ AT s (tail phi c).
  Definition RT_rd (phi : frame) (tok : btoken) (s : rstate) (v : bval) (c : dcur) : Prop :=
    wf_val v = true /\ wf_cur c = true /\
    exists ts, toks_val v = tok :: ts /\ AT s (wbytes ts ++ tail phi c).

  Notation AR := (act_rel (ops_rd cfg) (ops_doc cfg) R_rd cur_done is_root (fun (_ : hint) (a b : prim) => a = b)).
  Notation TR := (tok_rel R_rd RT_rd cur_done).

  Lemma rd_dispatch_scalar iskey h sc s : h <> HIgnored -> (forall id, h = HU16 -> sc <> SId id) ->
    rd_dispatch cfg iskey h (tok_of sc) s = do p <- scalar_prim cfg sc; Ok (APrim p, s).
  Proof.
    intros NI NU. destruct h; try congruence; destruct sc; try reflexivity;
      try (destruct (scalar_prim cfg _); reflexivity).
    exfalso. eapply NU; reflexivity.
  Qed.

  Lemma doc_dispatch_scalar iskey h sc c : h <> HIgnored -> (forall id, h = HU16 -> sc <> SId id) ->
    doc_dispatch cfg iskey h (VScalar sc) c = do p <- scalar_prim cfg sc; Ok (APrim p, c).
  Proof.
    intros NI NU. destruct h; try congruence; destruct sc; try reflexivity.
    exfalso. eapply NU; reflexivity.
  Qed.

  Lemma hint_ign_dec (h : hint) : {h = HIgnored} + {h <> HIgnored}.
  Proof. destruct h; (left; reflexivity) || (right; discriminate). Qed.
  Lemma hint_map_dec (h : hint) : {h = HMap} + {h <> HMap}.
  Proof. destruct h; (left; reflexivity) || (right; discriminate). Qed.
  Lemma hint_u16_dec (h : hint) : {h = HU16} + {h <> HU16}.
  Proof. destruct h; (left; reflexivity) || (right; discriminate). Qed.

  Lemma exit_done phi c s' sub2 : wf_cur c = true -> R_rd (FIn (tail phi c)) s' sub2 -> cur_done sub2 ->
    R_rd phi s' c.
  Proof. intros W (_ & E) D. red in D. subst. split; [exact W|exact E]. Qed.

  Lemma rd_H_disp phi iskey h tok s v c : RT_rd phi tok s v c ->
    sim (AR phi h) (rd_dispatch cfg iskey h tok s) (doc_dispatch cfg iskey h v c).
  Proof.
    intros (Wv & Wc & ts & E & HA).
    destruct v as [sc|c0|vs|fs g]; cbn [toks_val] in E; inversion E; subst; clear E.
    - (* scalar *)
      cbn [wbytes map concat app] in HA.
      destruct (hint_ign_dec h) as [->|NI].
      { destruct iskey; [left; destruct sc; reflexivity|].
        replace (rd_dispatch cfg false HIgnored (tok_of sc) s) with (Ok (APrim (S:=rstate) (C:=rgb) PUnit, s)) by (destruct sc; reflexivity).
        replace (doc_dispatch cfg false HIgnored (VScalar sc) c) with (Ok (APrim (S:=dcur) (C:=rgb) PUnit, c)) by (destruct sc; reflexivity).
        apply sim_ok. split; [reflexivity|split; assumption]. }
      destruct (hint_u16_dec h) as [->|NU].
      { destruct sc; try (rewrite rd_dispatch_scalar, doc_dispatch_scalar by (try discriminate; intros; discriminate);
                          destruct (scalar_prim cfg _); cbn [obind]; try (right; reflexivity); try (right; exact I);
                          apply sim_ok; split; [reflexivity|split; assumption]).
        destruct iskey; [|left; reflexivity].
        cbn [tok_of rd_dispatch doc_dispatch]. apply sim_ok. split; [reflexivity|split; assumption]. }
      rewrite rd_dispatch_scalar, doc_dispatch_scalar by (try assumption; intros; congruence).
      destruct (scalar_prim cfg sc); cbn [obind]; try (right; reflexivity); try (right; exact I).
      apply sim_ok. split; [reflexivity|split; assumption].
    - (* rgb *)
      cbn [wbytes map concat app] in HA.
      destruct iskey; [left; reflexivity|].
      destruct (hint_ign_dec h) as [->|NI].
      { apply sim_ok. split; [reflexivity|split; assumption]. }
      destruct (hint_map_dec h) as [->|NM]; [left; reflexivity|].
      replace (rd_dispatch cfg false h (BRgb c0) s) with (Ok (AColor (S:=rstate) c0, s)) by (destruct h; try reflexivity; congruence).
      replace (doc_dispatch cfg false h (VRgb c0) c) with (Ok (AColor (S:=dcur) c0, c)) by (destruct h; try reflexivity; congruence).
      apply sim_ok. split; [reflexivity|split; assumption].
    - (* array *)
      destruct iskey; [left; reflexivity|].
      destruct (hint_ign_dec h) as [->|NI].
      { cbn [rd_dispatch doc_dispatch].
        destruct (at_skip _ _ _ HA (balanced_arr vs (tail phi c) Wv)) as (s' & Es & HA').
        rewrite Es. apply sim_ok. split; [reflexivity|split; assumption]. }
      assert (HI : R_rd (FIn (tail phi c)) s (CSeq vs)) by (split; [exact Wv|exact HA]).
      destruct (hint_map_dec h) as [->|NM].
      + destruct vs as [|v0 vs]; [|left; reflexivity].
        cbn [rd_dispatch doc_dispatch]. apply sim_ok.
        exists (FIn (tail phi c)). split; [reflexivity|]. split.
        * split; [reflexivity|]. exact HA.
        * intros sub1' sub2' HR' HD. cbn [snd p_map_exit ops_rd ops_doc]. apply sim_ok.
          eapply exit_done; eassumption.
      + replace (rd_dispatch cfg false h BOpen s) with (Ok (ASeq (C:=rgb) s, s)) by (destruct h; try reflexivity; congruence).
        replace (doc_dispatch cfg false h (VArr vs) c) with (Ok (ASeq (C:=rgb) (CSeq vs), c)) by (destruct h; try reflexivity; congruence).
        apply sim_ok. exists (FIn (tail phi c)). split; [exact HI|].
        intros sub1' sub2' dr HR' HD HF. cbn [snd p_seq_exit ops_rd ops_doc].
        destruct dr.
        * replace (rd_seq_exit h s sub1' true) with (Ok (A:=rstate) sub1') by (destruct h; reflexivity).
          replace (doc_seq_exit h c sub2' true) with (Ok (A:=dcur) c) by (destruct h; reflexivity).
          apply sim_ok. eapply exit_done; [exact Wc|exact HR'|apply HD; reflexivity].
        * rewrite (HF eq_refl). cbn [rd_seq_exit doc_seq_exit].
          destruct sub2' as [[|x xs]|? ? ?|]; try (left; reflexivity).
          destruct HR' as [_ HR']. rewrite tail_seq_nil in HR'. cbn [frame_rest] in HR'.
          destruct (at_read _ _ _ HR' I) as (s' & Er & HA'). rewrite Er. cbn [obind].
          apply sim_ok. split; assumption.
    - (* object *)
      destruct iskey; [left; reflexivity|].
      pose proof (wf_obj_fields _ _ Wv) as Wf.
      destruct (hint_ign_dec h) as [->|NI].
      { cbn [rd_dispatch doc_dispatch].
        destruct (at_skip _ _ _ HA (balanced_obj fs g (tail phi c) Wf)) as (s' & Es & HA').
        rewrite Es. apply sim_ok. split; [reflexivity|split; assumption]. }
      destruct (hint_map_dec h) as [->|NM]; [|left; destruct h; try reflexivity; congruence].
      cbn [rd_dispatch doc_dispatch]. apply sim_ok.
      exists (FIn (tail phi c)). split; [reflexivity|]. split.
      * split; [cbn [wf_cur]; rewrite Wf; reflexivity|]. exact HA.
      * intros sub1' sub2' HR' HD. cbn [snd p_map_exit ops_rd ops_doc]. apply sim_ok.
        eapply exit_done; eassumption.
  Qed.

  Lemma head_not_close v : head_tok v <> BClose /\ head_tok v <> BEqual.
  Proof. destruct v as [sc| | |]; cbn [head_tok]; try (split; discriminate). destruct sc; split; discriminate. Qed.

  Lemma rd_H_elem phi s c : R_rd phi s c -> sim (TR phi) (rd_next_elem s) (doc_next_elem c).
  Proof.
    intros (Wc & HA). destruct c as [[|v vs]|? ? ?|]; try (left; reflexivity).
    - rewrite tail_seq_nil in HA. cbn [doc_next_elem]. unfold rd_next_elem.
      destruct (at_read _ _ _ HA I) as (s' & Er & HA'). rewrite Er. cbn [obind].
      apply sim_ok. split; [|reflexivity]. split; [reflexivity|exact HA'].
    - rewrite tail_seq_cons in HA. cbn [wf_cur forallb] in Wc. apply andb_prop in Wc as [Wv Wvs].
      destruct (toks_val_head v) as [ts E]. pose proof (wf_val_toks v Wv) as WT. rewrite E in WT, HA.
      inversion WT as [|? ? Wh _]; subst. rewrite wbytes_cons, <- app_assoc in HA.
      destruct (at_read _ _ _ HA Wh) as (s' & Er & HA'). cbn [doc_next_elem]. unfold rd_next_elem. rewrite Er. cbn [obind].
      destruct (head_not_close v) as [NC _].
      replace (match head_tok v with BClose => Ok (None, s') | _ => Ok (Some (head_tok v), s') end)
        with (Ok (A:=option btoken * rstate) (Some (head_tok v), s')) by (destruct (head_tok v); try reflexivity; congruence).
      apply sim_ok. unfold tok_rel. cbn [fst snd].
      split; [exact Wv|]. split; [exact Wvs|]. exists ts. split; [exact E|exact HA'].
  Qed.

  Lemma rd_H_val phi s c : R_rd phi s c ->
    sim (fun p1 p2 => RT_rd phi (fst p1) (snd p1) (fst p2) (snd p2)) (rd_next_value s) (doc_next_value c).
  Proof.
    intros (Wc & HA). destruct c as [?|fs g [v|]|]; try (left; reflexivity).
    rewrite tail_map_pending in HA. cbn [wf_cur] in Wc. apply andb_prop in Wc as [Wf Wv].
    destruct (at_read _ _ _ HA I) as (s1 & Er1 & HA1).
    destruct (toks_val_head v) as [ts E]. pose proof (wf_val_toks v Wv) as WT. rewrite E in WT, HA1.
    inversion WT as [|? ? Wh _]; subst. rewrite wbytes_cons, <- app_assoc in HA1.
    destruct (at_read _ _ _ HA1 Wh) as (s2 & Er2 & HA2).
    cbn [doc_next_value]. unfold rd_next_value. rewrite Er1. cbn [obind]. rewrite Er2.
    apply sim_ok. cbn [fst snd]. split; [exact Wv|]. split; [cbn [wf_cur]; rewrite Wf; reflexivity|].
    exists ts. split; [exact E|exact HA2].
  Qed.

  (* ---------- the key loop ---------- *)
  Lemma key_loop_ghost f root s X : AT s (wbytes [BOpen; BClose] ++ X) ->
    exists s', rd_key_loop (S f) root s = rd_key_loop f root s' /\ AT s' X.
  Proof.
    intros HA. change (wbytes [BOpen; BClose] ++ X) with (write_token BOpen ++ write_token BClose ++ X) in HA.
    destruct (at_next _ _ _ HA I) as (s1 & E1 & HA1).
    destruct (at_read _ _ _ HA1 I) as (s2 & E2 & HA2).
    exists s2. split; [|exact HA2]. cbn [rd_key_loop]. unfold lift at 1. rewrite E1. cbn [fst snd obind].
    rewrite E2. reflexivity.
  Qed.

  Lemma key_loop_ghost_opt f root s g X : AT s (wbytes (ghost_toks g) ++ X) -> (g = true -> 1 <= f)%nat ->
    exists f' s', rd_key_loop (S f) root s = rd_key_loop (S f') root s' /\ AT s' X.
  Proof.
    intros HA Lf. destruct g.
    - specialize (Lf eq_refl). destruct f as [|f]; [lia|]. destruct (key_loop_ghost (S f) root s X HA) as (s' & E & HA').
      exists f, s'. split; assumption.
    - exists f, s. split; [reflexivity|exact HA].
  Qed.

  Lemma rd_H_key phi root s c : is_root root phi -> R_rd phi s c ->
    sim (TR phi) (rd_next_key root s) (doc_next_key root c).
  Proof.
    intros HI (Wc & HA). destruct c as [?|[|f fs] g [v|]|]; try (left; reflexivity).
    - rewrite tail_map_nil in HA. cbn [doc_next_key]. unfold rd_next_key. rewrite (at_pending _ _ HA).
      destruct (key_loop_ghost_opt (length (wbytes (ghost_toks g) ++ wbytes (close_toks phi) ++ frame_rest phi)) root s g _ HA)
        as (f' & s' & E & HA').
      { intros ->. rewrite !app_length. cbn. lia. }
      + rewrite E. destruct phi as [|rest]; cbn [close_toks frame_rest is_root] in *.
        * subst root. cbn [wbytes map concat app] in HA'.
          destruct (at_eof _ HA') as (s2 & E2 & HA2). cbn [rd_key_loop]. unfold lift. rewrite E2. cbn [fst snd obind].
          apply sim_ok. split; [|reflexivity]. split; [reflexivity|exact HA2].
        * subst root. change (wbytes [BClose] ++ rest) with (write_token BClose ++ [] ++ rest) in HA'. cbn [app] in HA'.
          destruct (at_next _ _ _ HA' I) as (s2 & E2 & HA2). cbn [rd_key_loop]. unfold lift. rewrite E2. cbn [fst snd obind].
          apply sim_ok. split; [|reflexivity]. split; [reflexivity|exact HA2].
    - rewrite tail_map_cons in HA. cbn [doc_next_key]. unfold rd_next_key. rewrite (at_pending _ _ HA).
      cbn [wf_cur forallb] in Wc. rewrite andb_true_r in Wc. apply andb_prop in Wc as [Wf Wfs].
      unfold wf_field in Wf. apply andb_prop in Wf as [Wk Wv]. apply andb_prop in Wk as [Kk Wk].
      destruct (key_loop_ghost_opt (length (wbytes (ghost_toks (bf_ghost f)) ++ write_token (tok_of (bf_key f)) ++
                    tail phi (CMap fs g (Some (bf_val f))))) root s (bf_ghost f) _ HA) as (f' & s' & E & HA').
      { intros _. rewrite !app_length. pose proof (write_token_len (tok_of (bf_key f))). lia. }
      rewrite E. destruct (at_next _ _ _ HA' (wf_scalar_tok _ Wk)) as (s2 & E2 & HA2).
      cbn [rd_key_loop]. unfold lift. rewrite E2. cbn [fst snd obind].
      destruct (bf_key f) eqn:EK; try discriminate Kk; cbn [tok_of] in *.
      all: apply sim_ok; unfold tok_rel; cbn [fst snd]; split; [exact Wk|]; split;
        [cbn [wf_cur]; rewrite Wfs, Wv; reflexivity|exists []; split; [reflexivity|exact HA2]].
  Qed.

  Theorem rd_ops_sim : ops_sim (c_fops cfg) (ops_rd cfg) (ops_doc cfg) R_rd RT_rd cur_done is_root (fun (_ : hint) (a b : prim) => a = b).
  Proof.
    constructor.
    - intros. apply rd_H_disp. assumption.
    - intros. apply rd_H_elem. assumption.
    - intros. apply rd_H_key; assumption.
    - intros. apply rd_H_val. assumption.
    - reflexivity.
    - intros; subst; reflexivity.
    - intros; subst; reflexivity.
    - intros; subst; reflexivity.
  Qed.

  Theorem reader_eq_spec_fuel fuel sched sh fs g :
    wf_doc fs g = true -> no_fail sched = true -> fits cap (enc_doc fs g) = true ->
    sim eq (walk_root (c_fops cfg) (ops_rd cfg) fuel sh (rdr_new cap sched (enc_doc fs g))) (spec_value cfg fuel sh fs g).
  Proof.
    intros W NF HF. unfold spec_value.
    apply (walk_root_sim (c_fops cfg) (ops_rd cfg) (ops_doc cfg) R_rd RT_rd cur_done is_root (fun (_ : hint) (a b : prim) => a = b) rd_ops_sim fuel FRoot).
    - reflexivity.
    - unfold wf_doc in W. apply andb_prop in W as [W _]. apply andb_prop in W as [_ W].
      split; [cbn [wf_cur]; rewrite W; reflexivity|].
      assert (E : tail FRoot (CMap fs g None) = enc_doc fs g).
      { unfold enc_doc, tail. cbn [cur_toks pend_toks close_toks frame_rest app]. rewrite !app_nil_r. reflexivity. }
      rewrite E. exists 0%nat, (S (length (enc_doc fs g))). split; [apply st_ok_new, NF|]. split; [lia|exact HF].
  Qed.
End RdSim.
