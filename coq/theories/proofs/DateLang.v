(* C13: the exact language accepted by the text parsers. *)
From JV Require Import Bytes Tables U64Swar Scalar Date.
From JV.proofs Require Import DateProofs DateProofs2 DecimalProofs SwarLanes DateParse DateFast DateFmt.
From Coq Require Import ZArith NArith Lia List Bool.
Import ListNotations.
Open Scope Z_scope.

(* a one- or two-digit numeral with value v *)
Definition num12 (l : bytes) (v : Z) : Prop :=
  (exists a, l = [a] /\ is_digit a = true /\ v = dig a) \/
  (exists a b, l = [a; b] /\ is_digit a = true /\ is_digit b = true /\ v = dig a * 10 + dig b).
(* the hour numeral: additionally the first digit is not '0' *)
Definition hour12 (l : bytes) (v : Z) : Prop :=
  (exists a, l = [a] /\ is_digit a = true /\ a <> 48%N /\ v = dig a) \/
  (exists a b, l = [a; b] /\ is_digit a = true /\ a <> 48%N /\ is_digit b = true /\ v = dig a * 10 + dig b).
(* nothing, or ".H" *)
Definition hour_part (t : bytes) (h : Z) : Prop :=
  (t = [] /\ h = 0) \/ (exists H, t = DOT :: H /\ hour12 H h).
(* the year numeral as to_i64_t reads it: digits, or a sign followed by digits (possibly none: "-" reads as 0) *)
Definition year_str (ys : bytes) (y : Z) : Prop :=
  exists sg ds, ys = sg ++ ds /\ all_digits ds = true /\ (dacc 0 ds <= I64_MAX)%N /\
    ((sg = [] /\ ds <> [] /\ y = Z.of_N (dacc 0 ds)) \/ (sg = [43%N] /\ y = Z.of_N (dacc 0 ds)) \/
     (sg = [45%N] /\ y = - Z.of_N (dacc 0 ds))).

Definition ymdh_text (s : bytes) (y m d h : Z) : Prop :=
  exists ys M D T, s = ys ++ [DOT] ++ M ++ [DOT] ++ D ++ T /\
    year_str ys y /\ num12 M m /\ num12 D d /\ hour_part T h.

(* ---- inversion of the grammar functions ---- *)
Lemma eqb_dot c : (c =? DOT)%N = true -> c = DOT.
Proof. apply N.eqb_eq. Qed.

Lemma p_hour_inv t h : p_hour t = Some h -> hour12 t h.
Proof.
  destruct t as [|f [|g [|x t]]]; cbn [p_hour]; try discriminate.
  - destruct (is_digit f) eqn:Ef; cbn [negb orb]; [|discriminate].
    destruct (N.eqb_spec f 48); [discriminate|]. intros H; inversion H. left. eauto.
  - destruct (is_digit f) eqn:Ef; cbn [negb orb]; [|discriminate].
    destruct (N.eqb_spec f 48); [discriminate|].
    destruct (is_digit g) eqn:Eg; [|discriminate]. intros H; inversion H. right. eauto 10.
Qed.

Lemma p_dayhour_inv t d h : p_dayhour t = Some (d, h) -> exists D T, t = D ++ T /\ num12 D d /\ hour_part T h.
Proof.
  destruct t as [|c t3]; cbn [p_dayhour]; [discriminate|].
  destruct (is_digit c) eqn:Ec; cbn [negb]; [|discriminate].
  destruct t3 as [|e t4].
  - intros H; inversion H. exists [c], []. split; [reflexivity|]. split; [left; eauto|left; auto].
  - destruct (e =? DOT)%N eqn:Ee.
    + apply eqb_dot in Ee. subst e. destruct (p_hour t4) as [h'|] eqn:Eh; [|discriminate].
      cbn [option_map]. intros H; inversion H; subst. apply p_hour_inv in Eh.
      exists [c], (DOT :: t4). split; [reflexivity|]. split; [left; eauto|right; eauto].
    + destruct (is_digit e) eqn:Ed; [|discriminate].
      destruct t4 as [|x t5].
      * intros H; inversion H. exists [c; e], []. split; [reflexivity|]. split; [right; eauto 10|left; auto].
      * destruct (x =? DOT)%N eqn:Ex; cbn [negb]; [|discriminate]. apply eqb_dot in Ex. subst x.
        destruct (p_hour t5) as [h'|] eqn:Eh; [|discriminate].
        cbn [option_map]. intros H; inversion H; subst. apply p_hour_inv in Eh.
        exists [c; e], (DOT :: t5). split; [reflexivity|]. split; [right; eauto 10|right; eauto].
Qed.

Lemma p_tail_inv data m d h : p_tail data = Some (m, d, h) ->
  exists M D T, data = [DOT] ++ M ++ [DOT] ++ D ++ T /\ num12 M m /\ num12 D d /\ hour_part T h.
Proof.
  destruct data as [|c0 [|a [|n2 t]]]; cbn [p_tail]; try discriminate.
  destruct (c0 =? DOT)%N eqn:E0; cbn [negb]; [|discriminate]. apply eqb_dot in E0. subst c0.
  destruct (is_digit a) eqn:Ea; cbn [negb]; [|discriminate].
  destruct (n2 =? DOT)%N eqn:E2.
  - apply eqb_dot in E2. subst n2. destruct (p_dayhour t) as [[d' h']|] eqn:Edh; [|discriminate].
    cbn [option_map fst snd]. intros H; inversion H; subst.
    apply p_dayhour_inv in Edh as (D & T & -> & HD & HT).
    exists [a], D, T. split; [reflexivity|]. split; [left; eauto|auto].
  - destruct (is_digit n2) eqn:En; [|discriminate].
    destruct t as [|c1 t']; [discriminate|].
    destruct (c1 =? DOT)%N eqn:E1; cbn [negb]; [|discriminate]. apply eqb_dot in E1. subst c1.
    destruct (p_dayhour t') as [[d' h']|] eqn:Edh; [|discriminate].
    cbn [option_map fst snd]. intros H; inversion H; subst.
    apply p_dayhour_inv in Edh as (D & T & -> & HD & HT).
    exists [a; n2], D, T. split; [reflexivity|]. split; [right; eauto 10|auto].
Qed.

(* ---- and the converse: every string of the grammar is accepted ---- *)
Lemma p_hour_complete H h : hour12 H h -> p_hour H = Some h.
Proof.
  intros [(a & -> & Ha & Na & ->)|(a & b & -> & Ha & Na & Hb & ->)]; cbn [p_hour]; rewrite Ha; cbn [negb orb];
    (destruct (N.eqb_spec a 48); [congruence|]); [reflexivity|rewrite Hb; reflexivity].
Qed.

Lemma p_dayhour_complete D T d h : num12 D d -> hour_part T h -> p_dayhour (D ++ T) = Some (d, h).
Proof.
  intros [(a & -> & Ha & ->)|(a & b & -> & Ha & Hb & ->)] [[-> ->]|(H & -> & HH)];
    cbn [app p_dayhour]; rewrite ?Ha; cbn [negb]; try reflexivity.
  - change (DOT =? DOT)%N with true. cbv iota. rewrite (p_hour_complete _ _ HH). reflexivity.
  - rewrite (digit_not_dot b Hb), Hb. reflexivity.
  - rewrite (digit_not_dot b Hb), Hb. change (DOT =? DOT)%N with true. cbn [negb].
    rewrite (p_hour_complete _ _ HH). reflexivity.
Qed.

Lemma p_tail_complete M D T m d h :
  num12 M m -> num12 D d -> hour_part T h -> p_tail ([DOT] ++ M ++ [DOT] ++ D ++ T) = Some (m, d, h).
Proof.
  intros [(a & -> & Ha & ->)|(a & b & -> & Ha & Hb & ->)] HD HT; cbn [app p_tail];
    change (DOT =? DOT)%N with true; cbn [negb]; rewrite Ha; cbn [negb].
  - rewrite (p_dayhour_complete D T d h HD HT). reflexivity.
  - rewrite (digit_not_dot b Hb), Hb. rewrite (p_dayhour_complete D T d h HD HT). reflexivity.
Qed.

(* ---- what to_i64_t consumes ---- *)
Lemma to_u64_t2_inv d : forall acc v rest, to_u64_t2 d acc = Ok (v, rest) ->
  exists ds, d = ds ++ rest /\ all_digits ds = true /\ v = dacc acc ds /\ stops rest = true.
Proof.
  induction d as [|x r IH]; intros acc v rest.
  - cbn [to_u64_t2]. intros H; inversion H. exists []. auto.
  - cbn [to_u64_t2]. destruct (is_digit x) eqn:Ex.
    + unfold overflow_mul_add.
      match goal with |- context [if ?c then _ else _] => destruct c eqn:Eo end; [discriminate|].
      apply orb_false_iff in Eo as [Eo _]. apply N.leb_gt in Eo.
      rewrite (N.mod_small _ _ Eo).
      intros H. apply IH in H as (ds & -> & Hall & -> & Hs).
      exists (x :: ds). split; [reflexivity|]. split; [unfold all_digits in *; cbn [forallb]; rewrite Ex, Hall; reflexivity|].
      split; [|exact Hs]. change (dacc acc (x :: ds)) with (dacc (10 * acc + (x - 48))%N ds). f_equal. lia.
    + intros H; inversion H; subst. exists []. split; [reflexivity|]. split; [reflexivity|]. split; [reflexivity|].
      cbn [stops]. rewrite Ex. reflexivity.
Qed.

Lemma to_i64_t_inv s y rest : to_i64_t s = Ok (y, rest) ->
  exists ys, s = ys ++ rest /\ year_str ys y /\ stops rest = true.
Proof.
  unfold to_i64_t. destruct s as [|c data]; [discriminate|].
  destruct (is_digit c) eqn:Ec; cbn [orb].
  - rewrite (digit_not_dash c Ec).
    destruct (to_u64_t2 data (c - 48)%N) as [[v r]| | | |] eqn:E; cbn [obind]; try discriminate.
    destruct (v <=? I64_MAX)%N eqn:Ev; [|discriminate]. intros H; inversion H; subst.
    apply to_u64_t2_inv in E as (ds & -> & Hall & -> & Hs). apply N.leb_le in Ev.
    exists (c :: ds). split; [reflexivity|]. split; [|exact Hs].
    exists [], (c :: ds). split; [reflexivity|].
    assert (Hd : dacc 0 (c :: ds) = dacc (c - 48)%N ds) by reflexivity.
    split; [unfold all_digits in *; cbn [forallb]; rewrite Ec, Hall; reflexivity|].
    split; [rewrite Hd; exact Ev|]. left. split; [reflexivity|]. split; [discriminate|]. rewrite Hd. destruct (Z.of_N _); reflexivity.
  - destruct (N.eqb_spec c 45) as [->|N45]; cbn [orb].
    + destruct (to_u64_t2 data 0%N) as [[v r]| | | |] eqn:E; cbn [obind]; try discriminate.
      destruct (v <=? I64_MAX)%N eqn:Ev; [|discriminate]. intros H; inversion H; subst.
      apply to_u64_t2_inv in E as (ds & -> & Hall & -> & Hs). apply N.leb_le in Ev.
      exists (45%N :: ds). split; [reflexivity|]. split; [|exact Hs].
      exists [45%N], ds. split; [reflexivity|]. split; [exact Hall|]. split; [exact Ev|]. right; right. split; [reflexivity|destruct (Z.of_N _); reflexivity].
    + destruct (N.eqb_spec c 43) as [->|N43]; [|discriminate].
      destruct (to_u64_t2 data 0%N) as [[v r]| | | |] eqn:E; cbn [obind]; try discriminate.
      destruct (v <=? I64_MAX)%N eqn:Ev; [|discriminate]. intros H; inversion H; subst.
      apply to_u64_t2_inv in E as (ds & -> & Hall & -> & Hs). apply N.leb_le in Ev.
      exists (43%N :: ds). split; [reflexivity|]. split; [|exact Hs].
      exists [43%N], ds. split; [reflexivity|]. split; [exact Hall|]. split; [exact Ev|]. right; left. split; [reflexivity|destruct (Z.of_N _); reflexivity].
Qed.

Lemma to_i64_t_year_str ys y rest :
  year_str ys y -> stops rest = true -> to_i64_t (ys ++ rest) = Ok (y, rest).
Proof.
  intros (sg & ds & -> & Hall & Hlim & Hcase) Hs. unfold I64_MAX in Hlim.
  destruct Hcase as [(-> & Hne & ->)|[(-> & ->)|(-> & ->)]].
  - destruct ds as [|c ds]; [congruence|]. cbn [app]. unfold to_i64_t.
    unfold all_digits in Hall. cbn [forallb] in Hall. apply andb_prop in Hall as [Hc Hall].
    rewrite Hc. cbn [orb]. rewrite (digit_not_dash c Hc).
    assert (Hd : dacc 0 (c :: ds) = dacc (c - 48)%N ds) by reflexivity.
    rewrite Hd in *.
    rewrite (to_u64_t2_digits ds rest (c - 48)%N Hall Hs) by (unfold U64_LIM; lia). cbn [obind].
    replace (dacc (c - 48) ds <=? I64_MAX)%N with true by (symmetry; apply N.leb_le; unfold I64_MAX; lia).
    f_equal. f_equal. lia.
  - cbn [app]. unfold to_i64_t. change (is_digit 43) with false. change (43 =? 45)%N with false. change (43 =? 43)%N with true.
    cbn [orb]. rewrite (to_u64_t2_digits ds rest 0%N Hall Hs) by (unfold U64_LIM; lia). cbn [obind].
    replace (dacc 0 ds <=? I64_MAX)%N with true by (symmetry; apply N.leb_le; unfold I64_MAX; lia).
    f_equal. f_equal. lia.
  - cbn [app]. unfold to_i64_t. change (is_digit 45) with false. change (45 =? 45)%N with true.
    cbn [orb]. rewrite (to_u64_t2_digits ds rest 0%N Hall Hs) by (unfold U64_LIM; lia). cbn [obind].
    replace (dacc 0 ds <=? I64_MAX)%N with true by (symmetry; apply N.leb_le; unfold I64_MAX; lia).
    replace (-1 * Z.of_N (dacc 0 ds)) with (- Z.of_N (dacc 0 ds)) by lia. reflexivity.
Qed.

(* the documented plain-integer form: the whole string is one integer, decoded like the binary format *)
Definition binary_text (s : bytes) (x : xdate) : Prop :=
  exists v, to_i64_t s = Ok (v, []) /\ in_i32 v = true /\ x_from_binary v = Ok (Some x).

(* ---- ExpandedRawDate::parse accepts exactly Y.M.D[.H] (numerals as above, year in i16) or a plain integer ---- *)
Theorem x_parse_lang s x :
  x_parse s = Ok (Some x) <->
  (binary_text s x \/ (in_i16 (xy x) = true /\ ymdh_text s (xy x) (xm x) (xd x) (xh x))).
Proof.
  rewrite x_parse_is_clean. unfold x_parse_clean. split.
  - destruct (to_i64_t s) as [[y data]| | | |] eqn:E; try discriminate.
    destruct data as [|c0 data'].
    + destruct (in_i32 y) eqn:Ey; [|discriminate]. intros H. left. exists y. auto.
    + destruct (in_i16 y) eqn:Ey; cbn [negb]; [|discriminate].
      destruct (p_tail (c0 :: data')) as [[[m d] h]|] eqn:Ep; [|discriminate].
      cbn [x_of option_map fst snd]. intros H; inversion H; subst. cbn [xy xm xd xh].
      right. split; [exact Ey|].
      apply to_i64_t_inv in E as (ys & -> & Hys & _).
      apply p_tail_inv in Ep as (M & D & T & Ed & HM & HD & HT).
      exists ys, M, D, T. rewrite Ed. auto.
  - intros [(v & E & Hv & Hx)|(Hy & ys & M & D & T & -> & Hys & HM & HD & HT)].
    + rewrite E, Hv. exact Hx.
    + rewrite (to_i64_t_year_str ys (xy x) ([DOT] ++ M ++ [DOT] ++ D ++ T) Hys eq_refl).
      cbn [app]. rewrite Hy. cbn [negb].
      pose proof (p_tail_complete M D T _ _ _ HM HD HT) as Hp. cbn [app] in Hp. rewrite Hp.
      destruct x; reflexivity.
Qed.


(* ---- the typed parsers: components in range, nothing else ---- *)
Lemma num12_range l v : num12 l v -> 0 <= v <= 99.
Proof.
  intros [(a & _ & Ha & ->)|(a & b & _ & Ha & Hb & ->)].
  - apply dig_range in Ha. lia.
  - apply dig_range in Ha, Hb. lia.
Qed.
Lemma hour_part_range t h : hour_part t h -> 0 <= h <= 99.
Proof.
  intros [[_ ->]|(H & _ & [(a & _ & Ha & _ & ->)|(a & b & _ & Ha & _ & Hb & ->)])]; [lia| |].
  - apply dig_range in Ha. lia.
  - apply dig_range in Ha, Hb. lia.
Qed.

Lemma x_parse_components s x : x_parse s = Ok (Some x) ->
  in_i16 (xy x) = true /\ 0 <= xm x /\ 0 <= xd x /\ 0 <= xh x /\
  (binary_text s x \/ ymdh_text s (xy x) (xm x) (xd x) (xh x)).
Proof.
  intros H. apply x_parse_lang in H as [Hb|(Hy & Ht)].
  - pose proof Hb as (v & _ & _ & Hx).
    destruct (x_from_binary_shape v) as [E|(y & o & h & m & d & j & E & _ & _ & Hh & _ & Hy & Hv & _)]; [congruence|].
    rewrite E in Hx. inversion Hx; subst. cbn [xy xm xd xh].
    pose proof (valid_md_bounds _ _ Hv). repeat split; auto; lia.
  - pose proof Ht as (ys & M & D & T & _ & _ & HM & HD & HT).
    apply num12_range in HM, HD. apply hour_part_range in HT. repeat split; auto; lia.
Qed.

Lemma date_from_ymd_inv y m d r :
  0 <= m -> 0 <= d -> date_from_ymd_opt y m d = Ok (Some r) -> valid_md m d = true.
Proof.
  intros Hm Hd. unfold date_from_ymd_opt, valid_md, dpm.
  destruct (raw_from_ymdh_opt y m d 0) as [r0|] eqn:E; [|discriminate].
  apply raw_from_ymdh_some in E as (M0 & M13 & D0 & D32 & _).
  destruct (nth_error days_per_month (Z.to_nat m)) as [v|]; cbn [obind]; [|discriminate].
  destruct (d <=? v) eqn:Ev; [|discriminate]. intros _.
  repeat (apply andb_true_intro; split); try apply Z.leb_le; lia.
Qed.

Lemma olift_inv {A B} (x : outcome (option A)) (f : A -> outcome (option B)) b :
  olift x f = Ok (Some b) -> exists a, x = Ok (Some a) /\ f a = Ok (Some b).
Proof. unfold olift. destruct x as [[a|]| | | |]; cbn [obind]; try discriminate. eauto. Qed.

(* Date::parse *)
Theorem date_lang s r :
  wfl s -> date_parse s = Ok (Some r) ->
  exists y m d, in_i16 y = true /\ valid_md m d = true /\ date_from_ymd_opt y m d = Ok (Some r) /\
    (ymdh_text s y m d 0 \/ binary_text s (mkx y m d 0)).
Proof.
  intros Hw H. apply (date_parse_sound s r Hw) in H. unfold date_fallback in H.
  apply olift_inv in H as (x & Hx & Hr). unfold date_from_expanded in Hr.
  destruct (xh x =? 0) eqn:Eh; cbn [negb] in Hr; [|discriminate]. apply Z.eqb_eq in Eh.
  apply x_parse_components in Hx as (Hy & Hm & Hd & _ & Hform).
  exists (xy x), (xm x), (xd x). split; [exact Hy|]. split; [exact (date_from_ymd_inv _ _ _ _ Hm Hd Hr)|].
  split; [exact Hr|]. rewrite <- Eh. destruct Hform as [Hb|Ht]; [right|left; exact Ht]. destruct x; exact Hb.
Qed.

(* ... and conversely every in-range Y.M.D text that passes the length / first-byte guard is accepted *)
Theorem date_lang_complete s y m d :
  wfl s -> (5 <= length s <= 12)%nat -> first_ok s = true ->
  in_i16 y = true -> valid_md m d = true -> ymdh_text s y m d 0 ->
  exists r, date_from_ymd_opt y m d = Ok (Some r) /\ date_parse s = Ok (Some r).
Proof.
  intros Hw Hl Hf Hy Hv Ht. destruct (date_from_ymd_valid y m d Hv) as (r & Hr & _).
  exists r. split; [exact Hr|]. rewrite (date_parse_complete s Hw Hl Hf). unfold date_fallback.
  assert (Hx : x_parse s = Ok (Some (mkx y m d 0))) by (apply x_parse_lang; right; cbn [xy xm xd xh]; auto).
  rewrite Hx. unfold olift. cbn [obind]. unfold date_from_expanded. cbn [xh xy xm xd Z.eqb negb]. exact Hr.
Qed.

(* DateHour::parse *)
Theorem datehour_lang s r :
  datehour_parse s = Ok (Some r) ->
  exists y m d h, in_i16 y = true /\ valid_md m d = true /\ 1 <= h <= 24 /\
    datehour_from_ymdh_opt y m d h = Ok (Some r) /\
    (ymdh_text s y m d h \/ binary_text s (mkx y m d h)).
Proof.
  intros H. unfold datehour_parse in H. apply olift_inv in H as (x & Hx & Hr).
  unfold datehour_from_expanded in Hr.
  apply x_parse_components in Hx as (Hy & Hm & Hd & Hh & Hform).
  exists (xy x), (xm x), (xd x), (xh x). split; [exact Hy|].
  pose proof Hr as Hr'. unfold datehour_from_ymdh_opt, dpm in Hr'.
  destruct (raw_from_ymdh_opt (xy x) (xm x) (xd x) (xh x)) as [r0|] eqn:E; [|discriminate].
  apply raw_from_ymdh_some in E as (M0 & M13 & D0 & D32 & H25 & _).
  destruct (nth_error days_per_month (Z.to_nat (xm x))) as [v|] eqn:En; cbn [obind] in Hr'; [|discriminate].
  destruct ((0 <? xh x) && (xd x <=? v)) eqn:Ec; [|discriminate].
  apply andb_prop in Ec as [E1 E2]. apply Z.ltb_lt in E1.
  split.
  { unfold valid_md. rewrite En. repeat (apply andb_true_intro; split); try apply Z.leb_le; try lia; exact E2. }
  split; [lia|]. split; [exact Hr|]. destruct Hform as [Hb|Ht]; [right|left; exact Ht]. destruct x; exact Hb.
Qed.

Theorem datehour_lang_complete s y m d h :
  in_i16 y = true -> valid_md m d = true -> 1 <= h <= 24 -> ymdh_text s y m d h ->
  exists r, datehour_from_ymdh_opt y m d h = Ok (Some r) /\ datehour_parse s = Ok (Some r).
Proof.
  intros Hy Hv Hh Ht. pose proof (valid_md_bounds _ _ Hv) as [Hm Hd].
  destruct (raw_fields' y m d h Hm Hd ltac:(lia)) as (r & Hr & Hf).
  destruct (dpm_valid _ _ Hv) as (v & Hdp & Hle).
  assert (Hmk : datehour_from_ymdh_opt y m d h = Ok (Some r)).
  { unfold datehour_from_ymdh_opt. rewrite Hr. cbn [obind]. rewrite Hdp. cbn [obind].
    replace ((0 <? h) && (d <=? v)) with true by (symmetry; apply andb_true_intro; split; [apply Z.ltb_lt|apply Z.leb_le]; lia).
    reflexivity. }
  exists r. split; [exact Hmk|]. unfold datehour_parse.
  assert (Hx : x_parse s = Ok (Some (mkx y m d h))) by (apply x_parse_lang; right; cbn [xy xm xd xh]; auto).
  rewrite Hx. unfold olift. cbn [obind]. exact Hmk.
Qed.

(* UniformDate::parse *)
Theorem uniform_lang s r :
  uniform_parse s = Ok (Some r) ->
  exists y m d, in_i16 y = true /\ 1 <= m <= 12 /\ 1 <= d <= 30 /\ uniform_from_ymd_opt y m d = Some r /\
    (ymdh_text s y m d 0 \/ binary_text s (mkx y m d 0)).
Proof.
  intros H. unfold uniform_parse in H. apply olift_inv in H as (x & Hx & Hr).
  unfold uniform_from_expanded in Hr.
  destruct (xh x =? 0) eqn:Eh; cbn [negb] in Hr; [|discriminate]. apply Z.eqb_eq in Eh.
  apply x_parse_components in Hx as (Hy & Hm & Hd & _ & Hform).
  exists (xy x), (xm x), (xd x). split; [exact Hy|].
  injection Hr as Hr'. pose proof Hr' as Hr''. unfold uniform_from_ymd_opt in Hr''.
  destruct (30 <? xd x) eqn:E30; [discriminate|]. apply Z.ltb_ge in E30.
  apply raw_from_ymdh_some in Hr'' as (M0 & M13 & D0 & D32 & _).
  split; [lia|]. split; [lia|]. split; [exact Hr'|].
  rewrite <- Eh. destruct Hform as [Hb|Ht]; [right|left; exact Ht]. destruct x; exact Hb.
Qed.

Theorem uniform_lang_complete s y m d :
  in_i16 y = true -> 1 <= m <= 12 -> 1 <= d <= 30 -> ymdh_text s y m d 0 ->
  exists r, uniform_from_ymd_opt y m d = Some r /\ uniform_parse s = Ok (Some r).
Proof.
  intros Hy Hm Hd Ht.
  destruct (raw_fields' y m d 0 Hm ltac:(lia) ltac:(lia)) as (r & Hr & Hf).
  assert (Hmk : uniform_from_ymd_opt y m d = Some r).
  { unfold uniform_from_ymd_opt. replace (30 <? d) with false by (symmetry; apply Z.ltb_ge; lia). exact Hr. }
  exists r. split; [exact Hmk|]. unfold uniform_parse.
  assert (Hx : x_parse s = Ok (Some (mkx y m d 0))) by (apply x_parse_lang; right; cbn [xy xm xd xh]; auto).
  rewrite Hx. unfold olift. cbn [obind]. unfold uniform_from_expanded. cbn [xh xy xm xd Z.eqb negb]. rewrite Hmk. reflexivity.
Qed.

(* rejections named in the property, as instances *)
Example lang_rejects :
  date_parse [49; 52; 52; 52; 46; 50; 46; 51; 48]%N = Ok None /\          (* 1444.2.30: day the calendar lacks *)
  date_parse [49; 52; 52; 52; 46; 49; 51; 46; 49]%N = Ok None /\          (* 1444.13.1 *)
  date_parse [49; 52; 52; 52; 46; 48; 46; 49]%N = Ok None /\              (* 1444.0.1 *)
  datehour_parse [49; 46; 49; 46; 49; 46; 50; 53]%N = Ok None /\          (* 1.1.1.25 *)
  datehour_parse [49; 46; 49; 46; 49; 46; 48]%N = Ok None /\              (* 1.1.1.0 *)
  date_parse [49; 52; 52; 52; 46; 49; 46; 49; 120]%N = Ok None /\         (* 1444.1.1x trailing garbage *)
  uniform_parse [49; 46; 49; 46; 51; 49]%N = Ok None.                      (* 1.1.31 *)
Proof. repeat split; vm_compute; reflexivity. Qed.

(* FINDING (model reproduces the code): DateHour::parse of the plain-integer form does not shift the
   0-based binary hour to the 1-based DateHour hour, unlike DateHour::from_binary:
   parse("43808761") = 1.1.1.1 but from_binary(43808761) = 1.1.1.2; parse("43808760") is rejected but
   from_binary(43808760) = 1.1.1.1. *)
Example datehour_text_binary_mismatch :
  datehour_parse [52; 51; 56; 48; 56; 55; 54; 49]%N = Ok (Some (mkraw 1 (1 * 4096 + 1 * 128 + 1 * 4))) /\
  datehour_from_binary 43808761 = Ok (Some (mkraw 1 (1 * 4096 + 1 * 128 + 2 * 4))) /\
  datehour_parse [52; 51; 56; 48; 56; 55; 54; 48]%N = Ok None /\
  datehour_from_binary 43808760 = Ok (Some (mkraw 1 (1 * 4096 + 1 * 128 + 1 * 4))).
Proof. repeat split; vm_compute; reflexivity. Qed.
