(* C14, wave 5 (w_wr): write_tape over key-value lists whose values are CONTAINERS.

   PLAN.  WriterLayoutProofs.v proves write_tape (flatten d) = render (norm d) (layout_w c d) for the grammar of
   C01 (wf_doc: scalar values only in the key-value part of a list) with every writer state carrying
   mixed_mode = Disabled.  Here the same traversal lemmas are re-proved with the flag as a parameter
   [dd : bool] (mm dd = Started if dirty, Disabled otherwise), threaded through the document exactly as the
   code threads its single `mixed_mode` field (the functions da_ and okd_ of WriterMix.v):
     1. [wx_*]   the class of documents (writer-side shape only: no tails, no parameter values, headers
                 hold containers and are field values, list entries are `key op value` with op <> ?=,
                 value a scalar or ANY container);
     2. [chx_*]  the chunks (gap, token) the writer prints: inside a list `key op value` glued until the
                 first container value has been closed, ` key op value` spaced afterwards (flag lost);
     3. [Pvx ..] wt = chunks under the hypothesis okd (no operator written while the flag is dirty);
     4. chunks = tokens of the normalised document, gaps are white space, bare words are followed by a
        boundary byte  ==>  the output is a well-formed rendering (TextDoc.wf_layout) of the SAME token
        stream, so any layout-insensitive parser reads back the same tape (C14_mixcont_reparse_partial:
        parse_render of C01 is only proved for scalar list values, hence the explicit hypothesis);
     5. the class K is exact on the witnesses: K14 d = true documents of each kind are refuted by
        vm_compute in Props/C14_mixcont.v. *)
From JV Require Import Bytes Tables TextTok TextTape TextDoc Date Writer WriterMix.
From JV.proofs Require Import WriterProofs TextScanProofs TextParseProofs WriterLayoutDefs WriterLayoutProofs.
Require Import Lia.
Open Scope nat_scope.

(* ------------------------------------------------------------------ 1. the class *)
(* wx_* : WriterMix.v (executable: the oracles evaluate it on the generated documents) *)

(* ------------------------------------------------------------------ 2. the chunks *)
Definition kvgap (lost : bool) : bytes := if lost then [SP] else [].

Fixpoint chx_value (c : cfg) (n : nat) (g0 : bytes) (v : value) : list chunk :=
  match v with
  | VScalar k s => [(g0, stok k s)]
  | VObject fs _ =>
      (g0, lbrace) :: chx_fields c (S n) (nli c (S n)) fs ++ [(close_gap c n (fields_empty fs), rbrace)]
  | VArray items =>
      (g0, lbrace) :: chx_items c (S n) (nli c (S n)) items ++ [(close_gap c n (values_empty items), rbrace)]
  | VArrayKv items kvs =>
      (g0, lbrace) :: chx_items c (S n) (nli c (S n)) items
        ++ chx_kvs c (S n) false (sepgap c (S n) (items_nl true items)) kvs ++ [(nli c n, rbrace)]
  | VHeader name v => (g0, (name, true)) :: chx_value c n [SP] v
  end
with chx_field (c : cfg) (n : nat) (g0 : bytes) (f : field) : list chunk :=
  match f with
  | Field k key op v =>
      let o := op_or_eq op in
      (g0, stok k key) :: (opgap o, optk o) :: chx_value c n (opgap o) v
  | ParamV name u s => [(g0, (pname_bytes u name, false)); ([NL], (s, true)); ([], rbracket)]
  | ParamO name u fs =>
      (g0, (pname_bytes u name, false)) :: chx_fields c n (nli c n) fs ++ [(nli c n, rbracket)]
  end
with chx_fields (c : cfg) (n : nat) (g0 : bytes) (fs : fields) : list chunk :=
  match fs with
  | FNil => []
  | FCons f fs' => chx_field c n g0 f ++ chx_fields c n (nli c n) fs'
  end
with chx_items (c : cfg) (n : nat) (g0 : bytes) (vs : values) : list chunk :=
  match vs with
  | VNil => []
  | VCons v vs' => chx_value c n g0 v ++ chx_items c n (sepgap c n (ends_nl v)) vs'
  end
(* the key-value part of a list: glued while the flag is on, spaced once it is lost *)
with chx_kvs (c : cfg) (n : nat) (lost : bool) (g0 : bytes) (kvs : fields) : list chunk :=
  match kvs with
  | FNil => []
  | FCons f r =>
      match f with
      | Field k key op v =>
          (g0, stok k key) :: (kvgap lost, optk (op_or_eq op)) :: chx_value c n (kvgap lost) v
            ++ chx_kvs c n (lost || negb (is_scalar v)) (sepgap c n (ends_nl v)) r
      | _ => []
      end
  end.

Definition chunks_x (c : cfg) (d : doc) : list chunk := chx_fields c 0 [] d.
Definition layout_x (c : cfg) (d : doc) : layout :=
  mkLayout false (fun i => nth i (map fst (chunks_x c d)) []).

(* ------------------------------------------------------------------ 3. writer states with the flag *)
Definition mm (dirty : bool) : mmode := if dirty then MStarted else MDisabled.

Definition kposx (dd : bool) (w : wr) : Prop :=
  w_mode w = DObject /\ w_mixed w = mm dd /\ (w_state w = WKey \/ w_state w = WFirstKey).
(* value position; the last disjunct is the value of a `key op value` triple: the operator has just set
   the flag to Keyed, the preamble will print no separator and set it back to Started *)
Definition vposx (dd : bool) (w : wr) : Prop :=
  (w_mixed w = mm dd /\
   ((w_mode w = DObject /\ (w_state w = WKeyValueSeparator \/ w_state w = WObjectValue)) \/
    (w_mode w = DArray /\ astate (w_state w)))) \/
  (dd = true /\ w_mode w = DArray /\ w_state w = WArrayValue /\ w_nlt w = false /\ w_mixed w = MKeyed).
Definition iposx (dd : bool) (w : wr) : Prop :=
  w_mode w = DArray /\ w_mixed w = mm dd /\ astate (w_state w).
Definition wkeyx (dd : bool) (w : wr) : wr := mkwr DObject (w_depth w) WKey true (mm dd).
Definition vpostx (dd : bool) (w : wr) (v : value) : wr :=
  mkwr (w_mode w) (w_depth w)
       (match w_mode w with DObject => WKey | DArray => if ends_nl v then WArrayValue else ws_next_spec (w_state w) end)
       (match w_mode w with DObject => true | DArray => ends_nl v end) (mm (da_value dd v)).
Fixpoint ipostx (dd : bool) (w : wr) (vs : values) : wr :=
  match vs with VNil => w | VCons v vs' => ipostx (da_value dd v) (vpostx dd w v) vs' end.
Fixpoint da_items (dd : bool) (vs : values) : bool :=
  match vs with VNil => dd | VCons v r => da_items (da_value dd v) r end.

(* the writer inside the key-value part *)
Definition wkv (lost : bool) (d : list dmode) (nl : bool) : wr := mkwr DArray d WArrayValue nl (mm (negb lost)).
Fixpoint kvpost (lost : bool) (d : list dmode) (nl : bool) (kvs : fields) : wr :=
  match kvs with
  | FNil => wkv lost d nl
  | FCons f r =>
      match f with
      | Field _ _ _ v => kvpost (lost || negb (is_scalar v)) d (ends_nl v) r
      | _ => wkv lost d nl
      end
  end.
Fixpoint kvcount (kvs : fields) : nat := match kvs with FNil => 0 | FCons _ r => 3 + kvcount r end.

Lemma da_container dd v : is_scalar v = false -> da_value dd v = false.
Proof. intros H. unfold da_value. rewrite H. apply Bool.andb_false_r. Qed.

Lemma vposx_pre dd w : vposx dd w ->
  pre_state w = mkwr (w_mode w) (w_depth w) (w_state w) false (mm dd).
Proof.
  destruct w as [m d s n x]. intros [[Hx _] | [-> [Hm [Hs [Hn Hx]]]]]; cbn in *; subst.
  - unfold pre_state. cbn. destruct s; try reflexivity; destruct n; try reflexivity; destruct dd; reflexivity.
  - reflexivity.
Qed.

Lemma start_state_vposx dd w m s : vposx dd w ->
  start_state w m s = mkwr m (w_mode w :: w_depth w) s true (mm dd).
Proof. intros H. unfold start_state. rewrite (vposx_pre _ _ H). reflexivity. Qed.

Lemma iposx_vposx dd w : iposx dd w -> vposx dd w.
Proof. intros [Hm [Hx Hs]]. left. split; [exact Hx|]. right. auto. Qed.

Lemma kposx_key c dd w k key : kposx dd w ->
  write_key c w k key = WOk (mkwr DObject (w_depth w) WKeyValueSeparator false (mm dd))
                            (pre_bytes c w ++ scalar_bytes k key).
Proof.
  intros [Hm [Hx Hs]]. rewrite write_key_shape. f_equal.
  destruct w as [m d st n x]. cbn in Hm, Hx, Hs. subst m x. unfold pre_state, epi_state.
  destruct Hs as [-> | ->]; reflexivity.
Qed.

Lemma kposx_pre c dd w : kposx dd w -> pre_state w = set_nlt w false /\ pre_bytes c (set_nlt w false) = ind c (dep w).
Proof.
  destruct w as [m d st n x]. intros [Hm [Hx Hs]]. cbn in Hm, Hx, Hs. subst m x.
  unfold pre_state, pre_bytes, ind, dep. destruct Hs as [-> | ->]; split; reflexivity.
Qed.

Section MainX.
Variable c : cfg.
Variable t : ttape.

Definition Pvx (v : value) : Prop := forall dd f off w,
  wx_value v = true -> okd_value false dd v = true -> seg t off (flat_value off v) -> 3 * vlen v <= f -> vposx dd w ->
  (is_header v = true -> w_mode w = DObject) ->
  wt f c t (JValue off) w = WOk (vpostx dd w v) (cbytes (chx_value c (dep w) (pre_bytes c w) v)).

Definition Pfx (fd : field) : Prop := forall dd f off ei w,
  wx_field fd = true -> okd_field false dd fd = true -> seg t off (flat_field false off fd) ->
  off + flen false fd <= ei -> 3 * flen false fd <= f -> kposx dd w ->
  wt (S f) c t (JCore off ei) w =
  wbind (WOk (wkeyx (da_field dd fd) w) (cbytes (chx_field c (dep w) (pre_bytes c w) fd)))
        (fun w' => wt f c t (JCore (off + flen false fd) ei) w').

Definition Pfsx (fs : fields) : Prop := forall dd f off w,
  wx_fields fs = true -> okd_fields false dd fs = true -> seg t off (flat_fields false off fs) ->
  3 * fslen false fs + 1 <= f -> kposx dd w ->
  wt f c t (JCore off (off + fslen false fs)) w =
  WOk (if fields_empty fs then w else wkeyx (da_fields dd fs) w) (cbytes (chx_fields c (dep w) (pre_bytes c w) fs)).

Definition Pvsx (vs : values) : Prop := forall dd f ti ei w,
  wx_items vs = true -> okd_items false dd vs = true -> seg t ti (flat_values ti vs) ->
  ti + vslen vs <= ei -> 3 * vslen vs + 1 <= f -> iposx dd w ->
  wt f c t (JArrayLoop ti ei) w =
  wbind (WOk (ipostx dd w vs) (cbytes (chx_items c (dep w) (pre_bytes c w) vs)))
        (fun w' => wt (f - vcount vs) c t (JArrayLoop (ti + vslen vs) ei) w').

(* the key-value part, as array elements *)
Definition Pkvx (kvs : fields) : Prop := forall lost f ti ei d nl,
  wx_kvs kvs = true -> okd_kvs false lost kvs = true -> seg t ti (flat_fields true ti kvs) ->
  ti + fslen true kvs <= ei -> 3 * fslen true kvs + 1 <= f ->
  wt f c t (JArrayLoop ti ei) (wkv lost d nl) =
  wbind (WOk (kvpost lost d nl kvs) (cbytes (chx_kvs c (length d) lost (pre_bytes c (wkv lost d nl)) kvs)))
        (fun w' => wt (f - kvcount kvs) c t (JArrayLoop (ti + fslen true kvs) ei) w').

Lemma Vx_scalar k s : Pvx (VScalar k s).
Proof.
  intros dd f off w _ _ Hseg Hf Hp _. cbn [flat_value] in Hseg. apply seg_cons in Hseg as [Hg _].
  destruct f as [|f]; [cbn in Hf; lia|]. rewrite (wt_value_scalar _ _ _ _ _ _ _ Hg), write_key_shape.
  cbn [chx_value]. rewrite cbytes_cons. cbn [stok fst cbytes flat_map]. rewrite app_nil_r. f_equal.
  rewrite (vposx_pre _ _ Hp). unfold vpostx, epi_state, da_value. cbn [is_scalar ends_nl]. rewrite Bool.andb_true_r.
  destruct w as [m d st n x]. unfold vposx in Hp. cbn [w_mode w_depth w_state w_nlt w_mixed] in *.
  destruct Hp as [[_ [[-> [-> | ->]] | [-> [-> | [-> | [-> | ->]]]]]] | [_ [-> [-> _]]]]; reflexivity.
Qed.

Lemma Ix_nil : Pvsx VNil.
Proof.
  intros dd f ti ei w _ _ _ _ _ _. cbn [ipostx chx_items vcount]. change (cbytes []) with (@nil N).
  rewrite wbind_ret_nil, Nat.sub_0_r. change (vslen VNil) with 0. rewrite Nat.add_0_r. reflexivity.
Qed.

Lemma vpostx_iposx dd w v : iposx dd w -> iposx (da_value dd v) (vpostx dd w v).
Proof.
  intros [Hm [_ Hs]]. unfold iposx, vpostx, astate. cbn. rewrite Hm. repeat split; auto.
  destruct (ends_nl v); [auto|]. destruct Hs as [-> | [-> | [-> | ->]]]; cbn; auto.
Qed.
Lemma vpostx_pre_bytes dd w v : iposx dd w -> pre_bytes c (vpostx dd w v) = sepgap c (dep w) (ends_nl v).
Proof.
  intros [Hm [_ Hs]]. unfold vpostx, pre_bytes, sepgap, nli, ind, dep. cbn. rewrite Hm. cbn.
  destruct (ends_nl v); [reflexivity|].
  destruct Hs as [-> | [-> | [-> | ->]]]; cbn; destruct (da_value dd v); reflexivity.
Qed.

Lemma Ix_cons v vs : Pvx v -> Pvsx vs -> Pvsx (VCons v vs).
Proof.
  intros HV HI dd f ti ei w Hwx Hok Hseg Hei Hf Hp.
  cbn [wx_items okd_items] in Hwx, Hok. andb_split.
  cbn [flat_values] in Hseg. apply seg_app in Hseg as [Hs1 Hs2]. rewrite flat_value_len in Hs2.
  rewrite vslen_cons in *. pose proof (vlen_pos v).
  destruct f as [|g]; [lia|].
  rewrite (wt_loop_step g c t ti ei w (ti + vlen v)); [|lia|apply nidx_values; [assumption|]].
  2:{ destruct (is_header v); [discriminate|reflexivity]. }
  rewrite (HV dd g ti w); try assumption; [|lia|apply iposx_vposx; assumption|].
  2:{ destruct (is_header v); [discriminate|intros; discriminate]. }
  cbn [wbind]. rewrite (HI (da_value dd v) g (ti + vlen v) ei (vpostx dd w v)); try assumption; [|lia|lia|apply vpostx_iposx; assumption].
  rewrite wbind_ok2. cbn [ipostx chx_items vcount]. rewrite cbytes_app, vpostx_pre_bytes by assumption.
  change (dep (vpostx dd w v)) with (dep w). rewrite Nat.add_assoc. reflexivity.
Qed.

(* after the elements: depth kept, array mode, some data written, flag = da_items *)
Lemma ipostx_cons_eq dd w v vs : w_mode w = DArray -> w_state w = WArrayValue \/ w_state w = WArrayValueFirst ->
  ipostx dd w (VCons v vs) = mkwr DArray (w_depth w) WArrayValue (items_nl (ends_nl v) vs) (mm (da_items dd (VCons v vs))).
Proof.
  revert dd w v. induction vs as [|v2 vs IH]; intros dd w v Hm Hs.
  - cbn [ipostx items_nl da_items]. unfold vpostx. rewrite Hm. destruct (ends_nl v); [reflexivity|].
    destruct Hs as [-> | ->]; reflexivity.
  - change (ipostx dd w (VCons v (VCons v2 vs))) with (ipostx (da_value dd v) (vpostx dd w v) (VCons v2 vs)).
    rewrite IH; [reflexivity|unfold vpostx; cbn; exact Hm|].
    left. unfold vpostx. cbn. rewrite Hm. destruct (ends_nl v); [reflexivity|]. destruct Hs as [-> | ->]; reflexivity.
Qed.

Lemma Vx_array items : Pvsx items -> Pvx (VArray items).
Proof.
  intros HI dd f off w Hwx Hok Hseg Hf Hp _. cbn [wx_value okd_value] in Hwx, Hok.
  rewrite vlen_array in Hf. cbn [flat_value] in Hseg. apply seg_cons in Hseg as [Hh Hseg].
  apply seg_app in Hseg as [Hs1 _]. rewrite flat_values_len in Hh.
  destruct f as [|g]; [lia|]. rewrite (wt_value_array _ _ _ _ _ _ _ Hh), write_array_start_shape.
  rewrite (start_state_vposx _ _ _ _ Hp). cbn [wbind].
  set (w1 := mkwr DArray (w_mode w :: w_depth w) WArrayValueFirst true (mm dd)).
  rewrite (HI dd g (S off) (S off + vslen items) w1); try assumption; [|lia|lia|repeat split; unfold astate; auto].
  pose proof (vcount_le items). cbn [wbind].
  destruct (g - vcount items) as [|g2] eqn:Eg; [lia|]. rewrite wt_loop_end by lia. cbn [wbind].
  rewrite (write_end_shape _ _ (w_mode w) (w_depth w)).
  2:{ destruct items; [reflexivity|]. rewrite ipostx_cons_eq; auto. }
  f_equal; [unfold vpostx; rewrite da_container by reflexivity; destruct (w_mode w); reflexivity|].
  cbn [chx_value]. rewrite cbytes_cons, cbytes_app, cbytes_cons. change (cbytes []) with (@nil N).
  cbn [lbrace rbrace fst]. rewrite !app_nil_r, <- !app_assoc. f_equal. f_equal.
  change (dep w1) with (S (dep w)). replace (pre_bytes c w1) with (nli c (S (dep w))) by (destruct dd; reflexivity). f_equal. f_equal.
  destruct items; [reflexivity|]. rewrite ipostx_cons_eq; auto.
Qed.

Lemma Vx_object fs tl : Pfsx fs -> Pvx (VObject fs tl).
Proof.
  intros HF dd f off w Hwx Hok Hseg Hf Hp _. cbn [wx_value okd_value] in Hwx, Hok. andb_split.
  destruct tl; [|discriminate].
  rewrite vlen_object in Hf. cbn [flat_value] in Hseg. apply seg_cons in Hseg as [Hh Hseg].
  apply seg_app in Hseg as [Hs1 _]. rewrite flat_fields_len in Hh. cbn [length] in Hh. rewrite Nat.add_0_r in Hh.
  destruct f as [|g]; [lia|]. rewrite (wt_value_object _ _ _ _ _ _ _ Hh), write_object_start_shape.
  rewrite (start_state_vposx _ _ _ _ Hp). cbn [wbind].
  set (w1 := mkwr DObject (w_mode w :: w_depth w) WFirstKey true (mm dd)).
  rewrite (HF dd g (S off) w1); try assumption; [|lia|repeat split; unfold astate; auto]. cbn [wbind].
  rewrite (write_end_shape _ _ (w_mode w) (w_depth w)) by (destruct fs; reflexivity).
  f_equal; [unfold vpostx; rewrite da_container by reflexivity; destruct (w_mode w); reflexivity|].
  cbn [chx_value]. rewrite cbytes_cons, cbytes_app, cbytes_cons. change (cbytes []) with (@nil N).
  cbn [lbrace rbrace fst]. rewrite !app_nil_r, <- !app_assoc. f_equal. f_equal.
  change (dep w1) with (S (dep w)). replace (pre_bytes c w1) with (nli c (S (dep w))) by (destruct dd; reflexivity). f_equal. f_equal.
  destruct fs; reflexivity.
Qed.

Lemma cbx_g0_value n g v : cbytes (chx_value c n g v) = g ++ cbytes (chx_value c n [] v).
Proof. destruct v; cbn [chx_value]; rewrite !cbytes_cons; reflexivity. Qed.
Lemma cbx_g0_field n g f : cbytes (chx_field c n g f) = g ++ cbytes (chx_field c n [] f).
Proof. destruct f; cbn [chx_field]; rewrite !cbytes_cons; reflexivity. Qed.
Lemma cbx_g0_fields n g fs : fs <> FNil -> cbytes (chx_fields c n g fs) = g ++ cbytes (chx_fields c n [] fs).
Proof.
  destruct fs as [|f fs]; [congruence|]. intros _. cbn [chx_fields]. rewrite !cbytes_app, cbx_g0_field, app_assoc. reflexivity.
Qed.

Lemma nidx_valuex f off v : seg t off (flat_value off v) -> wx_value v = true ->
  next_idx (S (S f)) t off = Ok (off + vlen v).
Proof.
  intros H Hwf. destruct (is_container v) eqn:Hc; [apply (nidx_container _ _ _ _ H Hc)|].
  destruct v as [k s| | | |name v]; try discriminate Hc.
  - cbn [next_idx]. rewrite (seg_head _ _ _ H). unfold head_tok. cbn [flat_value].
    destruct k; cbn [scalar_tok]; f_equal; unfold vlen; cbn; lia.
  - cbn [wx_value] in Hwf. andb_split.
    cbn [flat_value] in H. apply seg_cons in H as [Hh Hv].
    change (next_idx (S (S f)) t off) with
      (match Writer.tget t off with
       | Some (TArray e _) | Some (TObject e _) => Ok (S e)
       | Some (TOperator _) => next_idx (S f) t (S off)
       | Some (THeader _) => match next_idx_header t (S off) with Some n => Ok n | None => Panic 10%N end
       | Some _ => Ok (S off)
       | None => Panic 10%N
       end).
    rewrite Hh. destruct (nidx_container 0 _ _ _ Hv) as [_ ->]; [assumption|].
    rewrite vlen_header. f_equal. lia.
Qed.

Lemma Vx_header name v : Pvx v -> Pvx (VHeader name v).
Proof.
  intros HV dd f off w Hwx Hok Hseg Hf Hp Hm. specialize (Hm eq_refl).
  cbn [wx_value okd_value] in Hwx, Hok. andb_split.
  rewrite vlen_header in Hf. cbn [flat_value] in Hseg. apply seg_cons in Hseg as [Hh Hseg].
  pose proof (vlen_pos v).
  destruct f as [|[|g]]; [lia|lia|].
  destruct (nidx_container g _ _ _ Hseg) as [Hn _]; [assumption|].
  rewrite (wt_value_header _ _ _ _ _ _ _ Hh Hn); [|lia|lia|eexists; apply (seg_head _ _ _ Hseg)].
  rewrite write_header_shape, (vposx_pre _ _ Hp). cbn [wbind].
  set (w1 := set_state (mkwr (w_mode w) (w_depth w) (w_state w) false (mm dd)) WObjectValue).
  assert (Hs : is_scalar v = false) by (destruct v; try discriminate; reflexivity).
  rewrite (HV dd (S g) (S off) w1); try assumption; [|lia| |intros _; exact Hm].
  - f_equal.
    + unfold vpostx, w1. cbn [set_state w_mode w_depth w_state]. rewrite Hm, !da_container by (try exact Hs; reflexivity). reflexivity.
    + cbn [chx_value]. rewrite cbytes_cons, (cbx_g0_value _ [SP]). cbn [fst].
      change (pre_bytes c w1) with (@nil N). change (dep w1) with (dep w).
      rewrite (cbx_g0_value _ []). rewrite <- !app_assoc. reflexivity.
  - left. split; [reflexivity|]. left. split; [exact Hm|right; reflexivity].
Qed.

Lemma Fx_field_noop k key op v : op_toks false op = [] -> op_or_eq op = Equal -> Pvx v -> Pfx (Field k key op v).
Proof.
  intros Hop Hoe HV dd f off ei w Hwx Hok Hseg Hei Hf Hp.
  cbn [wx_field okd_field] in Hwx, Hok. andb_split.
  rewrite flen_field, Hop in *. cbn [length] in *. cbn [flat_field] in Hseg. rewrite Hop in Hseg.
  cbn [app length] in Hseg. rewrite Nat.add_0_r in Hseg. apply seg_cons in Hseg as [Hk Hv].
  pose proof (vlen_pos v). destruct f as [|[|g]]; [lia|lia|].
  rewrite (wt_core_field_noop _ c t off ei w k key (head_tok (S off) v) (S off + vlen v));
    [|lia|assumption|apply seg_head; assumption|apply head_not_op|apply nidx_valuex; assumption].
  rewrite (kposx_key _ _ _ _ _ Hp).
  set (w1 := mkwr DObject (w_depth w) WKeyValueSeparator false (mm dd)).
  erewrite wbind_ok.
  2:{ cbn [emit]. erewrite wbind_ok; [reflexivity|].
      apply (HV dd (S (S g)) (S off) w1); try assumption; [lia|left; split; [reflexivity|left; auto]|reflexivity]. }
  replace (off + (1 + 0 + vlen v)) with (S off + vlen v) by lia.
  f_equal. f_equal. cbn [chx_field]. rewrite Hoe, !cbytes_cons. cbn [stok optk opgap fst op_symbol app].
  rewrite (cbx_g0_value _ (pre_bytes c w1)). change (pre_bytes c w1) with [61%N]. change (dep w1) with (dep w).
  rewrite <- !app_assoc. reflexivity.
Qed.

Lemma Fx_field_op k key o v : o <> Equal -> Pvx v -> Pfx (Field k key (Some o) v).
Proof.
  intros Hne HV dd f off ei w Hwx Hok Hseg Hei Hf Hp.
  cbn [wx_field okd_field] in Hwx, Hok. andb_split.
  assert (Hd : dd = false).
  { destruct dd; [|reflexivity]. destruct o; try discriminate; congruence. }
  subst dd.
  assert (Hop : op_toks false (Some o) = [TOperator o]) by (destruct o; try reflexivity; congruence).
  rewrite flen_field, Hop in *. cbn [length] in *. cbn [flat_field] in Hseg. rewrite Hop in Hseg.
  cbn [app length] in Hseg. apply seg_cons in Hseg as [Hk Hv]. apply seg_cons in Hv as [Ho Hv].
  replace (S off + 1) with (S (S off)) in Hv by lia.
  pose proof (vlen_pos v). destruct f as [|[|g]]; [lia|lia|].
  rewrite (wt_core_field_op _ c t off ei w k key o (S (S off) + vlen v));
    [|lia|assumption|assumption|apply nidx_valuex; assumption].
  rewrite (kposx_key _ _ _ _ _ Hp).
  set (w1 := mkwr DObject (w_depth w) WKeyValueSeparator false MDisabled).
  set (w2 := mkwr DObject (w_depth w) WObjectValue false MDisabled).
  assert (Hw : write_operator w1 o = WOk w2 ([SP] ++ op_symbol o ++ [SP])).
  { unfold write_operator. cbn [w1 w_mixed mmode_eqb emit]. destruct o; try reflexivity; congruence. }
  erewrite wbind_ok.
  2:{ cbn [mm]. fold w1. rewrite Hw. erewrite wbind_ok; [reflexivity|].
      apply (HV false (S (S g)) (S (S off)) w2); try assumption; [lia|left; split; [reflexivity|left; auto]|reflexivity]. }
  replace (off + (1 + 1 + vlen v)) with (S (S off) + vlen v) by lia.
  f_equal. f_equal. cbn [chx_field op_or_eq]. rewrite !cbytes_cons. cbn [stok optk fst].
  assert (Hg : opgap o = [SP]) by (destruct o; try reflexivity; congruence). rewrite Hg.
  rewrite (cbx_g0_value _ [SP]). change (pre_bytes c w2) with (@nil N). change (dep w2) with (dep w).
  rewrite (cbx_g0_value _ []). rewrite <- !app_assoc. reflexivity.
Qed.

Lemma Fx_field k key op v : Pvx v -> Pfx (Field k key op v).
Proof.
  intros HV. destruct op as [o|]; [destruct o|];
    try (apply Fx_field_op; [discriminate|exact HV]); apply Fx_field_noop; auto.
Qed.

Lemma Fx_paramO name u fs : Pfsx fs -> Pfx (ParamO name u fs).
Proof.
  intros HF dd f off ei w Hwx Hok Hseg Hei Hf Hp.
  cbn [wx_field okd_field] in Hwx, Hok. andb_split.
  rewrite flen_paramO in *. cbn [flat_field] in Hseg. rewrite flat_fields_len in Hseg.
  apply seg_cons in Hseg as [Hk Hseg]. apply seg_cons in Hseg as [Ho Hseg]. apply seg_app in Hseg as [Hb _].
  destruct f as [|g]; [lia|].
  rewrite (wt_core_param_obj _ c t off ei w u name _ _ (off + (3 + fslen false fs)) ltac:(lia) Hk Ho).
  2:{ cbn [next_idx]. rewrite Ho. f_equal. lia. }
  destruct (kposx_pre c _ _ Hp) as [Hpre Hpb].
  rewrite write_preamble_shape, Hpre.
  erewrite wbind_ok.
  2:{ cbn [emit wbind].
      rewrite (HF dd (S g) (S (S off)) (set_nlt w false)); try assumption; [|lia].
      cbn [wbind emit]. reflexivity. }
  assert (Hne : fs <> FNil) by (destruct fs; [discriminate|congruence]).
  f_equal. f_equal; [destruct fs; [congruence|reflexivity]|].
  rewrite write_indent_spec. rewrite Hpb.
  cbn [chx_field]. rewrite cbytes_cons, cbytes_app, cbytes_cons. change (cbytes []) with (@nil N). cbn [fst rbracket].
  rewrite (cbx_g0_fields _ (nli c (dep w))), (cbx_g0_fields _ (ind c (dep w))) by assumption.
  change (dep (set_nlt w false)) with (dep w).
  replace (w_depth (if fields_empty fs then set_nlt w false else wkeyx (da_fields dd fs) (set_nlt w false))) with (w_depth w)
    by (destruct fs; reflexivity).
  change (repeat (indent_char c) (length (w_depth w) * N.to_nat (indent_factor c))) with (ind c (dep w)).
  unfold nli, pname_bytes, PARAM_OPEN, PARAM_OPEN_NOT, PARAM_HEAD_END, RBRACKET, NL.
  destruct u; cbn [app]; rewrite <- !app_assoc; cbn [app]; rewrite ?app_nil_r;
    repeat (f_equal; try reflexivity).
Qed.

Lemma Fx_paramV name u s : Pfx (ParamV name u s).
Proof. intros dd f off ei w Hwx. discriminate Hwx. Qed.

Lemma Fx_nil : Pfsx FNil.
Proof.
  intros dd f off w _ _ _ Hf _. change (fslen false FNil) with 0 in *. destruct f as [|g]; [lia|].
  rewrite wt_core_end by lia. reflexivity.
Qed.

Lemma Fx_cons fd fs : Pfx fd -> Pfsx fs -> Pfsx (FCons fd fs).
Proof.
  intros H1 HF dd f off w Hwx Hok Hseg Hf Hp.
  cbn [wx_fields okd_fields] in Hwx, Hok. andb_split.
  rewrite fslen_cons in *. cbn [flat_fields] in Hseg. apply seg_app in Hseg as [Hs1 Hs2].
  rewrite flat_field_len in Hs2. pose proof (flen_pos false fd).
  destruct f as [|g]; [lia|].
  rewrite (H1 dd g off (off + (flen false fd + fslen false fs)) w); try assumption; [|lia|lia].
  rewrite Nat.add_assoc.
  erewrite wbind_ok.
  2:{ apply (HF (da_field dd fd) g (off + flen false fd) (wkeyx (da_field dd fd) w)); try assumption; [lia|].
      repeat split; auto. }
  f_equal; [destruct fs; reflexivity|].
  cbn [chx_fields]. rewrite cbytes_app. reflexivity.
Qed.

(* ---- the key-value part *)
Lemma Kx_nil : Pkvx FNil.
Proof.
  intros lost f ti ei d nl _ _ _ _ _. cbn [kvpost chx_kvs kvcount]. change (cbytes []) with (@nil N).
  change (fslen true FNil) with 0. rewrite wbind_ret_nil, Nat.sub_0_r, Nat.add_0_r. reflexivity.
Qed.

Lemma wt_value_opx f vi lost d o : Writer.tget t vi = Some (TOperator o) ->
  wt (S f) c t (JValue vi) (wkv lost d false) =
  WOk (if lost then wkv true d false else set_mixed (wkv false d false) MKeyed) (kvgap lost ++ op_symbol o).
Proof. intros H. cbn [wt]. rewrite H. destruct lost; reflexivity. Qed.

Lemma Kx_cons k key op v r : Pvx v -> Pkvx r -> Pkvx (FCons (Field k key op v) r).
Proof.
  intros HV IH lost f ti ei d nl Hwx Hok Hseg Hei Hf.
  cbn [wx_kvs okd_kvs] in Hwx, Hok. andb_split. destruct op as [o|]; [|discriminate].
  rewrite fslen_cons, flen_field, op_toks_true in *. cbn [length] in *.
  cbn [flat_fields flat_field] in Hseg. rewrite op_toks_true in Hseg. cbn [app length] in Hseg.
  apply seg_cons in Hseg as [Hk Hseg]. apply seg_cons in Hseg as [Ho Hseg].
  apply seg_app in Hseg as [Hv Hs2]. rewrite flat_value_len in Hs2.
  replace (S ti + 1) with (S (S ti)) in Hv by lia.
  replace (ti + S (S (vlen v))) with (S (S ti) + vlen v) in Hs2 by lia.
  pose proof (vlen_pos v).
  destruct f as [|[|[|[|g]]]]; try lia.
  rewrite (wt_loop_step _ c t ti ei _ (S ti)); [|lia|apply (nidx_values_scalar _ _ _ _ Hk)].
  rewrite (wt_value_scalar _ _ _ _ _ _ _ Hk), write_key_shape.
  replace (epi_state (pre_state (wkv lost d nl))) with (wkv lost d false) by (destruct nl, lost; reflexivity).
  set (wv := if lost then wkv true d false else set_mixed (wkv false d false) MKeyed).
  assert (Hwv : vposx (negb lost) wv).
  { unfold wv. destruct lost; [left; split; [reflexivity|right; split; [reflexivity|left; reflexivity]]|].
    right. repeat split; reflexivity. }
  erewrite wbind_okc.
  2:{ rewrite (wt_loop_step _ c t (S ti) ei _ (S (S ti))); [|lia|unfold next_idx_values; rewrite Ho; reflexivity].
      rewrite (wt_value_opx _ _ _ _ _ Ho). fold wv.
      erewrite wbind_okc; [reflexivity|].
      rewrite (wt_loop_step _ c t (S (S ti)) ei _ (S (S ti) + vlen v)); [|lia|apply nidx_values; [assumption|]].
      2:{ destruct (is_header v); [discriminate|reflexivity]. }
      rewrite (HV (negb lost) (S g) (S (S ti)) wv); try assumption; [|lia|].
      2:{ destruct (is_header v); [discriminate|intros; discriminate]. }
      erewrite wbind_okc; [reflexivity|].
      replace (vpostx (negb lost) wv v) with (wkv (lost || negb (is_scalar v)) d (ends_nl v)).
      2:{ unfold vpostx, wv, wkv, da_value. destruct lost, v; reflexivity. }
      apply (IH (lost || negb (is_scalar v)) (S g) (S (S ti) + vlen v) ei d (ends_nl v)); try assumption; lia. }
  replace (S (S ti) + vlen v + fslen true r) with (ti + (1 + 1 + vlen v + fslen true r)) by lia.
  replace (S g - kvcount r) with (S (S (S (S g))) - kvcount (FCons (Field k key (Some o) v) r)) by (cbn [kvcount]; lia).
  f_equal. f_equal.
  cbn [chx_kvs op_or_eq]. rewrite !cbytes_cons, cbytes_app. cbn [stok optk fst].
  rewrite (cbx_g0_value _ (kvgap lost)), (cbx_g0_value _ (pre_bytes c wv)).
  replace (pre_bytes c wv) with (kvgap lost) by (unfold wv; destruct lost; reflexivity).
  replace (dep wv) with (length d) by (unfold wv; destruct lost; reflexivity).
  replace (pre_bytes c (wkv (lost || negb (is_scalar v)) d (ends_nl v))) with (sepgap c (length d) (ends_nl v))
    by (destruct lost, v; reflexivity).
  rewrite <- !app_assoc. reflexivity.
Qed.

Lemma kvpost_wkv kvs : forall lost d nl, exists l' n', kvpost lost d nl kvs = wkv l' d n'.
Proof.
  induction kvs as [|f r IH]; intros lost d nl; [eexists; eexists; reflexivity|].
  destruct f; cbn [kvpost]; [apply IH|eexists; eexists; reflexivity|eexists; eexists; reflexivity].
Qed.

Lemma kvcount_le kvs : wx_kvs kvs = true -> kvcount kvs <= fslen true kvs.
Proof.
  induction kvs as [|f r IH]; intros H; [cbn; lia|].
  destruct f as [k key op v| |]; try discriminate H. cbn [wx_kvs] in H. andb_split.
  rewrite fslen_cons, flen_field. destruct op as [o|]; [|discriminate]. rewrite op_toks_true. cbn [length kvcount].
  pose proof (vlen_pos v). specialize (IH ltac:(assumption)). lia.
Qed.

Lemma Vx_arraykv items kvs : Pvsx items -> Pkvx kvs -> Pvx (VArrayKv items kvs).
Proof.
  intros HI HK dd f off w Hwx Hok Hseg Hf Hp _. cbn [wx_value okd_value] in Hwx, Hok. andb_split.
  rewrite vlen_arraykv in Hf. cbn [flat_value] in Hseg. apply seg_cons in Hseg as [Hh Hseg].
  apply seg_app in Hseg as [Hs1 Hseg]. apply seg_cons in Hseg as [Hm Hseg]. apply seg_app in Hseg as [Hs2 _].
  rewrite flat_values_len, flat_fields_len in *.
  destruct items as [|v0 vs0]; [discriminate|].
  destruct f as [|g]; [lia|]. rewrite (wt_value_array _ _ _ _ _ _ _ Hh), write_array_start_shape.
  rewrite (start_state_vposx _ _ _ _ Hp).
  set (w1 := mkwr DArray (w_mode w :: w_depth w) WArrayValueFirst true (mm dd)).
  set (e := S (S off + vslen (VCons v0 vs0) + fslen true kvs)) in *.
  pose proof (vcount_le (VCons v0 vs0)) as Hvc.
  pose proof (kvcount_le kvs ltac:(assumption)) as Hkc.
  destruct (kvpost_wkv kvs false (w_depth w1) (items_nl (ends_nl v0) vs0)) as [l' [n' Ekv]].
  erewrite wbind_ok.
  2:{ rewrite (HI dd g (S off) e w1); try assumption; [|unfold e; lia|lia|repeat split; unfold astate; auto].
      rewrite ipostx_cons_eq by auto.
      destruct (g - vcount (VCons v0 vs0)) as [|[|g2]] eqn:Eg; [lia|lia|].
      erewrite (wbind_ok _ _ (fun w' => wt _ c t (JArrayLoop _ e) w')).
      2:{ cbn beta.
          rewrite (wt_loop_step _ c t _ e _ (S (S off + vslen (VCons v0 vs0))));
            [|unfold e; lia|unfold next_idx_values; rewrite Hm; reflexivity].
          rewrite (wt_value_mixed _ _ _ _ _ Hm). unfold start_mixed_mode, emit. rewrite wbind_ret_nil.
          change (set_mixed (set_mode (mkwr DArray (w_depth w1) WArrayValue (items_nl (ends_nl v0) vs0) (mm (da_items dd (VCons v0 vs0)))) DArray) MStarted)
            with (wkv false (w_depth w1) (items_nl (ends_nl v0) vs0)).
          rewrite (HK false (S g2) (S (S off + vslen (VCons v0 vs0))) e); try assumption; [|unfold e; lia|lia].
          destruct (S g2 - kvcount kvs) as [|g3] eqn:Eg3; [lia|].
          erewrite wbind_ok; [reflexivity|]. rewrite wt_loop_end by (unfold e; lia). reflexivity. }
      cbn [wbind]. rewrite Ekv.
      rewrite (write_end_shape _ _ (w_mode w) (w_depth w)) by reflexivity. reflexivity. }
  f_equal; [unfold vpostx; rewrite da_container by reflexivity; destruct (w_mode w); reflexivity|].
  cbn [chx_value]. rewrite cbytes_cons, !cbytes_app, cbytes_cons. change (cbytes []) with (@nil N).
  cbn [lbrace rbrace fst]. rewrite !app_nil_r, <- !app_assoc. f_equal. f_equal.
  change (dep w1) with (S (dep w)). replace (pre_bytes c w1) with (nli c (S (dep w))) by (destruct dd; reflexivity). f_equal.
  change (length (w_depth w1)) with (S (dep w)).
  replace (pre_bytes c (wkv false (w_depth w1) (items_nl (ends_nl v0) vs0))) with (sepgap c (S (dep w)) (items_nl true (VCons v0 vs0)))
    by (cbn [items_nl]; destruct (items_nl (ends_nl v0) vs0); reflexivity).
  reflexivity.
Qed.
End MainX.

Lemma write_all_x c t :
  (forall v, Pvx c t v) /\ (forall f, Pfx c t f /\ (forall r, Pkvx c t r -> Pkvx c t (FCons f r))) /\
  (forall fs, Pfsx c t fs /\ Pkvx c t fs) /\ (forall vs, Pvsx c t vs).
Proof.
  apply doc_mutind.
  - apply Vx_scalar.
  - intros fs [Hfs _] tl _. apply Vx_object. exact Hfs.
  - intros items H. apply Vx_array. exact H.
  - intros items H kvs [_ HK]. apply Vx_arraykv; assumption.
  - intros name v H. apply Vx_header. exact H.
  - intros k key op v H. split; [apply Fx_field; exact H|]. intros r Hr. apply Kx_cons; assumption.
  - intros name u s. split; [apply Fx_paramV|]. intros r _ lost f ti ei d nl Hwx. discriminate Hwx.
  - intros name u fs [H _]. split; [apply Fx_paramO; exact H|]. intros r _ lost f ti ei d nl Hwx. discriminate Hwx.
  - split; [apply Fx_nil|apply Kx_nil].
  - intros f [Hf Hk] fs [Hfs Hks]. split; [apply Fx_cons; assumption|apply Hk, Hks].
  - apply Ix_nil.
  - intros v Hv vs Hvs. apply Ix_cons; assumption.
Qed.

Definition w_end_x (d : doc) : wr := if fields_empty d then wr_init else mkwr DObject [] WKey true (mm (da_fields false d)).

(* write_tape over the tape of a document of the class = its chunks, for EVERY configuration *)
Theorem write_tape_chunks_x c d : wx_fields d = true -> okd_fields false false d = true ->
  write_tape (tape_fuel (flatten d)) c (flatten d) = WOk (w_end_x d) (cbytes (chunks_x c d)).
Proof.
  intros Hwx Hok. unfold write_tape, flatten, tape_fuel. rewrite flat_fields_len.
  destruct (write_all_x c (flat_fields false 0 d)) as [_ [_ [HF _]]]. destruct (HF d) as [HF' _].
  pose proof (HF' false (4 * fslen false d + 16) 0 wr_init Hwx Hok (seg_self _)) as E. cbn [Nat.add] in E.
  rewrite E; [reflexivity|lia|]. repeat split; auto.
Qed.

(* ------------------------------------------------------------------ 4. the chunks are a rendering of the normalised document *)
(* the writer's normalisation (`key {` -> `key={`), also inside the values of a key-value list *)
Fixpoint normx_value (v : value) : value :=
  match v with
  | VScalar k s => VScalar k s
  | VObject fs tl => VObject (normx_fields fs) tl
  | VArray items => VArray (normx_values items)
  | VArrayKv items kvs => VArrayKv (normx_values items) (normx_kvs kvs)
  | VHeader name v => VHeader name (normx_value v)
  end
with normx_field (f : field) : field :=
  match f with
  | Field k key op v => Field k key (Some (op_or_eq op)) (normx_value v)
  | ParamV name u s => ParamV name u s
  | ParamO name u fs => ParamO name u (normx_fields fs)
  end
with normx_fields (fs : fields) : fields :=
  match fs with FNil => FNil | FCons f fs' => FCons (normx_field f) (normx_fields fs') end
with normx_values (vs : values) : values :=
  match vs with VNil => VNil | VCons v vs' => VCons (normx_value v) (normx_values vs') end
with normx_kvs (kvs : fields) : fields :=
  match kvs with
  | FNil => FNil
  | FCons f r => FCons (match f with Field k key op v => Field k key op (normx_value v) | x => x end) (normx_kvs r)
  end.

Definition fval (f : field) : option value := match f with Field _ _ _ v => Some v | _ => None end.

Lemma chunks_toks_x c :
  (forall v n g, wx_value v = true -> map snd (chx_value c n g v) = toks_value (normx_value v)) /\
  (forall f, (forall n g, wx_field f = true -> map snd (chx_field c n g f) = toks_field (normx_field f)) /\
             (forall v, fval f = Some v -> forall n g, wx_value v = true -> map snd (chx_value c n g v) = toks_value (normx_value v))) /\
  (forall fs, (forall n g, wx_fields fs = true -> map snd (chx_fields c n g fs) = toks_fields (normx_fields fs)) /\
              (forall n lost g, wx_kvs fs = true -> map snd (chx_kvs c n lost g fs) = toks_fields (normx_kvs fs))) /\
  (forall vs n g, wx_items vs = true -> map snd (chx_items c n g vs) = toks_values (normx_values vs)).
Proof.
  apply doc_mutind.
  - reflexivity.
  - intros fs [Hfs _] tl _ n g Hwx. cbn [wx_value] in Hwx. andb_split. destruct tl; [|discriminate].
    cbn [chx_value normx_value toks_value map snd toks_values app]. rewrite map_app, Hfs by assumption. reflexivity.
  - intros items H n g Hwx. cbn [wx_value] in Hwx.
    cbn [chx_value normx_value toks_value map snd]. rewrite map_app, H by assumption. reflexivity.
  - intros items H kvs [_ HK] n g Hwx. cbn [wx_value] in Hwx. andb_split.
    cbn [chx_value normx_value toks_value map snd]. rewrite !map_app, H, HK by assumption. reflexivity.
  - intros name v H n g Hwx. cbn [wx_value] in Hwx. andb_split.
    cbn [chx_value normx_value toks_value map snd]. rewrite H by assumption. reflexivity.
  - intros k key op v H. split.
    + intros n g Hwx. cbn [wx_field] in Hwx.
      cbn [chx_field normx_field toks_field map snd optok app]. rewrite H by assumption. reflexivity.
    + intros v' E. inversion E; subst. exact H.
  - intros name u s. split; [intros n g Hwx; discriminate Hwx|intros v' E; discriminate E].
  - intros name u fs [H _]. split; [|intros v' E; discriminate E].
    intros n g Hwx. cbn [wx_field] in Hwx. andb_split.
    cbn [chx_field normx_field toks_field map snd]. rewrite map_app, H by assumption. reflexivity.
  - split; reflexivity.
  - intros f [Hf Hv] fs [Hfs Hks]. split.
    + intros n g Hwx. cbn [wx_fields] in Hwx. andb_split.
      cbn [chx_fields normx_fields toks_fields]. rewrite map_app, Hf, Hfs by assumption. reflexivity.
    + intros n lost g Hwx. destruct f as [k key op v| |]; try discriminate Hwx. cbn [wx_kvs] in Hwx. andb_split.
      destruct op as [o|]; [|discriminate].
      cbn [chx_kvs normx_kvs toks_fields toks_field map snd optok app op_or_eq].
      rewrite map_app, (Hv v eq_refl), Hks by assumption. reflexivity.
  - reflexivity.
  - intros v Hv vs Hvs n g Hwx. cbn [wx_items] in Hwx. andb_split.
    cbn [chx_items normx_values toks_values]. rewrite map_app, Hv, Hvs by assumption. reflexivity.
Qed.

Section GapsX.
Variable c : cfg.
Hypothesis Hc : cfg_ok c.

Lemma gap_ok_kvgap lost : gap_ok (kvgap lost).
Proof. destruct lost; [apply gap_ok_sp|constructor]. Qed.

Lemma chunks_gaps_x :
  (forall v n g, gap_ok g -> gaps_ok (chx_value c n g v)) /\
  (forall f, (forall n g, gap_ok g -> gaps_ok (chx_field c n g f)) /\
             (forall v, fval f = Some v -> forall n g, gap_ok g -> gaps_ok (chx_value c n g v))) /\
  (forall fs, (forall n g, gap_ok g -> gaps_ok (chx_fields c n g fs)) /\
              (forall n lost g, gap_ok g -> gaps_ok (chx_kvs c n lost g fs))) /\
  (forall vs n g, gap_ok g -> gaps_ok (chx_items c n g vs)).
Proof.
  unfold gaps_ok. apply doc_mutind.
  - intros k s n g Hg. constructor; [exact Hg|constructor].
  - intros fs [Hfs _] tl _ n g Hg. cbn [chx_value]. constructor; [exact Hg|]. apply Forall_app. split.
    + apply Hfs, (gap_ok_nli c Hc).
    + constructor; [apply (gap_ok_close c Hc)|constructor].
  - intros items H n g Hg. cbn [chx_value]. constructor; [exact Hg|]. apply Forall_app. split.
    + apply H, (gap_ok_nli c Hc).
    + constructor; [apply (gap_ok_close c Hc)|constructor].
  - intros items H kvs [_ HK] n g Hg. cbn [chx_value]. constructor; [exact Hg|]. apply Forall_app. split; [|apply Forall_app; split].
    + apply H, (gap_ok_nli c Hc).
    + apply HK, (gap_ok_sepgap c Hc).
    + constructor; [apply (gap_ok_nli c Hc)|constructor].
  - intros name v H n g Hg. cbn [chx_value]. constructor; [exact Hg|]. apply H, gap_ok_sp.
  - intros k key op v H. split; [|intros v' E; inversion E; subst; exact H].
    intros n g Hg. cbn [chx_field]. constructor; [exact Hg|]. constructor; [apply gap_ok_opgap|].
    apply H, gap_ok_opgap.
  - intros name u s. split; [|intros v' E; discriminate E].
    intros n g Hg. cbn [chx_field]. constructor; [exact Hg|]. constructor; [apply gap_ws; [reflexivity|constructor]|].
    constructor; constructor.
  - intros name u fs [H _]. split; [|intros v' E; discriminate E].
    intros n g Hg. cbn [chx_field]. constructor; [exact Hg|]. apply Forall_app. split.
    + apply H, (gap_ok_nli c Hc).
    + constructor; [apply (gap_ok_nli c Hc)|constructor].
  - split; constructor.
  - intros f [Hf Hv] fs [Hfs Hks]. split.
    + intros n g Hg. cbn [chx_fields]. apply Forall_app. split; [apply Hf, Hg|apply Hfs, (gap_ok_nli c Hc)].
    + intros n lost g Hg. destruct f as [k key op v| |]; cbn [chx_kvs]; try constructor; [exact Hg|].
      constructor; [apply gap_ok_kvgap|]. apply Forall_app. split.
      * apply (Hv v eq_refl), gap_ok_kvgap.
      * apply Hks, (gap_ok_sepgap c Hc).
  - constructor.
  - intros v Hv vs Hvs n g Hg. cbn [chx_items]. apply Forall_app. split; [apply Hv, Hg|apply Hvs, (gap_ok_sepgap c Hc)].
Qed.
End GapsX.

Lemma bstart_kvop lost o : kv_op (Some o) = true -> bstart (kvgap lost, optk o).
Proof.
  intros H. destruct lost; [apply bstart_gap, bgap_sp|].
  destruct o; try discriminate H; eexists; eexists; (split; [reflexivity|reflexivity]).
Qed.

Lemma chunks_adj_x c :
  (forall v n g p, wx_value v = true -> (p = true -> bgap g) -> adjb p (chx_value c n g v)) /\
  (forall f, (forall n g p, wx_field f = true -> (p = true -> bgap g) -> adjb p (chx_field c n g f)) /\
             (forall v, fval f = Some v -> forall n g p, wx_value v = true -> (p = true -> bgap g) -> adjb p (chx_value c n g v))) /\
  (forall fs, (forall n g p, wx_fields fs = true -> (p = true -> bgap g) -> adjb p (chx_fields c n g fs)) /\
              (forall n lost g p, wx_kvs fs = true -> (p = true -> bgap g) -> adjb p (chx_kvs c n lost g fs))) /\
  (forall vs n g p, wx_items vs = true -> (p = true -> bgap g) -> adjb p (chx_items c n g vs)).
Proof.
  apply doc_mutind.
  - intros k s n g p _ Hg. split; [intros Hp; apply bstart_gap, Hg, Hp|exact I].
  - intros fs [Hfs _] tl _ n g p Hwx Hg. cbn [wx_value] in Hwx. andb_split. cbn [chx_value].
    split; [intros Hp; apply bstart_gap, Hg, Hp|]. apply adjb_app.
    + apply Hfs; [assumption|discriminate].
    + split; [intros _; apply bstart_gap, bgap_close|exact I].
  - intros items H n g p Hwx Hg. cbn [wx_value] in Hwx. cbn [chx_value].
    split; [intros Hp; apply bstart_gap, Hg, Hp|]. apply adjb_app.
    + apply H; [assumption|discriminate].
    + split; [intros _; apply bstart_gap, bgap_close|exact I].
  - intros items H kvs [_ HK] n g p Hwx Hg. cbn [wx_value] in Hwx. andb_split. cbn [chx_value].
    split; [intros Hp; apply bstart_gap, Hg, Hp|]. apply adjb_app; [|apply adjb_app].
    + apply H; [assumption|discriminate].
    + apply HK; [assumption|]. intros _. apply bgap_sepgap.
    + split; [intros _; apply bstart_gap, bgap_nli|exact I].
  - intros name v H n g p Hwx Hg. cbn [wx_value] in Hwx. andb_split. cbn [chx_value].
    split; [intros Hp; apply bstart_gap, Hg, Hp|]. apply H; [assumption|]. intros _. apply bgap_sp.
  - intros k key op v H. split; [|intros v' E; inversion E; subst; exact H].
    intros n g p Hwx Hg. cbn [wx_field] in Hwx. cbn [chx_field].
    split; [intros Hp; apply bstart_gap, Hg, Hp|]. split; [intros _; apply bstart_op|].
    apply H; [assumption|discriminate].
  - intros name u s. split; [intros n g p Hwx; discriminate Hwx|intros v' E; discriminate E].
  - intros name u fs [H _]. split; [|intros v' E; discriminate E].
    intros n g p Hwx Hg. cbn [wx_field] in Hwx. andb_split. cbn [chx_field].
    split; [intros Hp; apply bstart_gap, Hg, Hp|]. apply adjb_app.
    + apply H; [assumption|discriminate].
    + split; [intros _; apply bstart_gap, bgap_nli|exact I].
  - split; intros; exact I.
  - intros f [Hf Hv] fs [Hfs Hks]. split.
    + intros n g p Hwx Hg. cbn [wx_fields] in Hwx. andb_split. cbn [chx_fields]. apply adjb_app.
      * apply Hf; assumption.
      * apply Hfs; [assumption|]. intros _. apply bgap_nli.
    + intros n lost g p Hwx Hg. destruct f as [k key op v| |]; try discriminate Hwx. cbn [wx_kvs] in Hwx. andb_split.
      destruct op as [o|]; [|discriminate].
      cbn [chx_kvs adjb op_or_eq]. split; [intros Hp; apply bstart_gap, Hg, Hp|]. split.
      * intros _. apply bstart_kvop. assumption.
      * apply adjb_app.
        -- apply (Hv v eq_refl); [assumption|discriminate].
        -- apply Hks; [assumption|]. intros _. apply bgap_sepgap.
  - intros; exact I.
  - intros v Hv vs Hvs n g p Hwx Hg. cbn [wx_items] in Hwx. andb_split. cbn [chx_items]. apply adjb_app.
    + apply Hv; assumption.
    + apply Hvs; [assumption|]. intros _. apply bgap_sepgap.
Qed.

Lemma chunks_nobom_x c d : nobom d = true -> has_bom (cbytes (chunks_x c d)) = false.
Proof.
  intros Hn. unfold chunks_x. destruct d as [|f fs]; [reflexivity|].
  cbn [chx_fields]. rewrite cbytes_app. destruct f as [k key op v|name u s|name u fs'].
  - cbn [chx_field]. rewrite !cbytes_cons. cbn [app stok fst optk]. destruct k; cbn [scalar_bytes].
    + cbn [nobom] in Hn. rewrite <- !app_assoc. apply has_bom_key; [destruct (has_bom key); [discriminate|reflexivity]|].
      rewrite app_assoc. apply bgap_app. apply (bstart_op (op_or_eq op)).
    + reflexivity.
  - reflexivity.
  - reflexivity.
Qed.

(* the normalisation is invisible on the tape *)
Lemma flat_normx :
  (forall v off, flat_value off (normx_value v) = flat_value off v) /\
  (forall f, (forall off, flat_field false off (normx_field f) = flat_field false off f) /\
             (forall v, fval f = Some v -> forall off, flat_value off (normx_value v) = flat_value off v)) /\
  (forall fs, (forall off, flat_fields false off (normx_fields fs) = flat_fields false off fs) /\
              (forall off, flat_fields true off (normx_kvs fs) = flat_fields true off fs)) /\
  (forall vs off, flat_values off (normx_values vs) = flat_values off vs).
Proof.
  apply doc_mutind.
  - reflexivity.
  - intros fs [Hfs _] tl _ off. cbn [normx_value flat_value]. rewrite Hfs. reflexivity.
  - intros items H off. cbn [normx_value flat_value]. rewrite H. reflexivity.
  - intros items H kvs [_ HK] off. cbn [normx_value flat_value]. rewrite H, HK. reflexivity.
  - intros name v H off. cbn [normx_value flat_value]. rewrite H. reflexivity.
  - intros k key op v H. split; [|intros v' E; inversion E; subst; exact H].
    intros off. cbn [normx_field flat_field].
    replace (op_toks false (Some (op_or_eq op))) with (op_toks false op) by (destruct op as [[]|]; reflexivity).
    rewrite H. reflexivity.
  - intros name u s. split; [reflexivity|intros v' E; discriminate E].
  - intros name u fs [H _]. split; [|intros v' E; discriminate E].
    intros off. cbn [normx_field flat_field]. rewrite H. reflexivity.
  - split; reflexivity.
  - intros f [Hf Hv] fs [Hfs Hks]. split.
    + intros off. cbn [normx_fields flat_fields]. rewrite Hf, Hfs. reflexivity.
    + intros off. cbn [normx_kvs flat_fields]. destruct f as [k key op v| |]; cbn [flat_field]; rewrite ?(Hv v eq_refl), Hks; reflexivity.
  - reflexivity.
  - intros v Hv vs Hvs off. cbn [normx_values flat_values]. rewrite Hv, Hvs. reflexivity.
Qed.

Theorem flatten_normx d : flatten (normx_fields d) = flatten d.
Proof. apply (proj1 (proj1 (proj2 (proj2 flat_normx)) d)). Qed.

(* the flag is off again at the end of every document *)
Lemma da_false :
  (forall v : value, True) /\ (forall f, da_field false f = false) /\
  (forall fs, da_fields false fs = false) /\ (forall vs : values, True).
Proof.
  apply doc_mutind; try (intros; exact I); try reflexivity.
  - intros name u fs H. exact H.
  - intros f Hf fs Hfs. cbn [da_fields]. rewrite Hf. exact Hfs.
Qed.
Lemma w_end_x_eq d : w_end_x d = w_end d.
Proof. unfold w_end_x, w_end. rewrite (proj1 (proj2 (proj2 da_false))). reflexivity. Qed.

(* ------------------------------------------------------------------ 5. the theorems *)
Lemma render_layout_x c d : wx_fields d = true -> render (normx_fields d) (layout_x c d) = cbytes (chunks_x c d).
Proof.
  intros Hwx. unfold render, layout_x. cbn [bom gap app].
  rewrite <- (proj1 (proj1 (proj2 (proj2 (chunks_toks_x c))) d) 0 [] Hwx). apply render_layout_chunks.
Qed.

Theorem write_is_layout_x c d : wx_fields d = true -> K14 d = false ->
  write_tape (tape_fuel (flatten d)) c (flatten d) = WOk (w_end d) (render (normx_fields d) (layout_x c d)).
Proof.
  intros Hwx HK. unfold K14 in HK. apply Bool.orb_false_elim in HK as [_ HK]. apply Bool.negb_false_iff in HK.
  rewrite render_layout_x by exact Hwx. rewrite <- w_end_x_eq. apply write_tape_chunks_x; assumption.
Qed.

Theorem layout_x_wf c d : cfg_ok c -> wx_fields d = true -> nobom d = true -> wf_layout (normx_fields d) (layout_x c d).
Proof.
  intros Hc Hwx Hnb. split; [|split].
  - intros i. unfold layout_x. cbn [gap].
    destruct (Nat.lt_ge_cases i (length (map fst (chunks_x c d)))) as [Hi|Hi]; [|rewrite nth_overflow by exact Hi; constructor].
    apply Forall_nth; [|exact Hi]. apply Forall_map.
    apply (proj1 (proj1 (proj2 (proj2 (chunks_gaps_x c Hc))) d) 0 []). constructor.
  - unfold layout_x. cbn [gap].
    rewrite <- (proj1 (proj1 (proj2 (proj2 (chunks_toks_x c))) d) 0 [] Hwx).
    apply (adjb_sep _ false 0).
    + apply (proj1 (proj1 (proj2 (proj2 (chunks_adj_x c))) d) 0 [] false Hwx). discriminate.
    + intros i Hi. cbn [Nat.add]. change (@nil N) with (fst (@nil N, (@nil N, false))). apply map_nth.
    + apply nth_overflow. rewrite map_length. apply Nat.le_refl.
  - intros _. rewrite render_layout_x by exact Hwx. apply chunks_nobom_x; assumption.
Qed.

(* the old class is inside the new one, and K is empty on it *)
Lemma okd_obj e dd fs tl : okd_value e dd (VObject fs tl) = okd_fields e dd fs. Proof. reflexivity. Qed.
Lemma okd_arr e dd items : okd_value e dd (VArray items) = okd_items e dd items. Proof. reflexivity. Qed.
Lemma okd_akv e dd items kvs : okd_value e dd (VArrayKv items kvs) = okd_items e dd items && okd_kvs e false kvs. Proof. reflexivity. Qed.
Lemma okd_hdr e dd name v : okd_value e dd (VHeader name v) = okd_value e dd v. Proof. reflexivity. Qed.
Lemma okd_fld e dd k key op v : okd_field e dd (Field k key op v) = negb (dd && op_written e op) && okd_value e dd v. Proof. reflexivity. Qed.
Lemma okd_po e dd name u fs : okd_field e dd (ParamO name u fs) = okd_fields e dd fs. Proof. reflexivity. Qed.
Lemma okd_fcons e dd f r : okd_fields e dd (FCons f r) = okd_field e dd f && okd_fields e (da_field dd f) r. Proof. reflexivity. Qed.
Lemma okd_icons e dd v r : okd_items e dd (VCons v r) = okd_value e dd v && okd_items e (da_value dd v) r. Proof. reflexivity. Qed.
Lemma okd_kcons e lost k key op v r :
  okd_kvs e lost (FCons (Field k key op v) r) = okd_value e (negb lost) v && okd_kvs e (lost || negb (is_scalar v)) r.
Proof. reflexivity. Qed.

Lemma rt_in_wx :
  (forall v, wf_value v = true -> rt_value v = true -> wx_value v = true /\ okd_value false false v = true) /\
  (forall f, wf_field f = true -> rt_field f = true -> wx_field f = true /\ okd_field false false f = true) /\
  (forall fs, (wf_fields fs = true -> rt_fields fs = true -> wx_fields fs = true /\ okd_fields false false fs = true) /\
              (wf_kvs fs = true -> wx_kvs fs = true /\ forall lost, okd_kvs false lost fs = true)) /\
  (forall vs, wf_items vs = true -> rt_values vs = true -> wx_items vs = true /\ okd_items false false vs = true).
Proof.
  apply doc_mutind.
  - auto.
  - intros fs [Hfs _] tl _ Hwf Hrt. rewrite okd_obj. cbn [wf_value rt_value wx_value] in *. andb_split.
    destruct (Hfs ltac:(assumption) ltac:(assumption)) as [-> ->]. destruct tl; [auto|discriminate].
  - intros items H Hwf Hrt. rewrite okd_arr. cbn [wf_value rt_value wx_value] in *. andb_split. apply H; assumption.
  - intros items H kvs [_ HK] Hwf Hrt. rewrite okd_akv. cbn [wf_value rt_value wx_value] in *. andb_split.
    destruct (H ltac:(assumption) ltac:(assumption)) as [-> ->]. destruct (HK ltac:(assumption)) as [-> Hk].
    rewrite (Hk false). split; [|reflexivity].
    repeat match goal with H : _ = true |- _ => rewrite H end. reflexivity.
  - intros name v H Hwf Hrt. rewrite okd_hdr. cbn [wf_value rt_value wx_value] in *. andb_split.
    destruct (H ltac:(assumption) ltac:(assumption)) as [-> ->]. split; [|reflexivity].
    repeat match goal with H : _ = true |- _ => rewrite H end. reflexivity.
  - intros k key op v H Hwf Hrt. rewrite okd_fld. cbn [wf_field rt_field wx_field] in *. andb_split.
    destruct (H ltac:(assumption) ltac:(assumption)) as [-> ->]. auto.
  - intros name u s _ Hrt. discriminate Hrt.
  - intros name u fs [H _] Hwf Hrt. rewrite okd_po. cbn [wf_field rt_field wx_field] in *. andb_split.
    destruct (H ltac:(assumption) ltac:(assumption)) as [-> ->]. split; [|reflexivity].
    destruct fs; [discriminate|reflexivity].
  - split; [auto|]. intros _. split; [reflexivity|]. intros lost. reflexivity.
  - intros f Hf fs [Hfs Hks]. split.
    + intros Hwf Hrt. rewrite okd_fcons. cbn [wf_fields rt_fields wx_fields] in *. andb_split.
      destruct (Hf ltac:(assumption) ltac:(assumption)) as [-> ->].
      rewrite (proj1 (proj2 da_false)). apply Hfs; assumption.
    + intros Hwf. destruct f as [k key op v| |]; try discriminate Hwf. cbn [wf_kvs wx_kvs] in *. andb_split.
      destruct v as [k2 s| | | |]; try discriminate. destruct (Hks ltac:(assumption)) as [-> Hk].
      split; [|intros lost; rewrite okd_kcons; cbn [is_scalar negb]; rewrite Bool.orb_false_r; apply Hk].
      repeat match goal with H : _ = true |- _ => rewrite H end. reflexivity.
  - auto.
  - intros v Hv vs Hvs Hwf Hrt. rewrite okd_icons. cbn [wf_items rt_values wx_items] in *. andb_split.
    destruct (Hv ltac:(assumption) ltac:(assumption)) as [-> ->].
    replace (da_value false v) with false by reflexivity.
    destruct (Hvs ltac:(assumption) ltac:(assumption)) as [-> ->].
    repeat match goal with H : _ = true |- _ => rewrite H end. split; reflexivity.
Qed.

Lemma rt_no_pv :
  (forall v, rt_value v = true -> wf_value v = true -> pv_value v = false) /\
  (forall f, rt_field f = true -> wf_field f = true -> pv_field f = false) /\
  (forall fs, (rt_fields fs = true -> wf_fields fs = true -> pv_fields fs = false) /\ (wf_kvs fs = true -> pv_fields fs = false)) /\
  (forall vs, rt_values vs = true -> wf_items vs = true -> pv_values vs = false).
Proof.
  apply doc_mutind.
  - auto.
  - intros fs [Hfs _] tl _ Hrt Hwf. cbn [rt_value wf_value pv_value] in *. andb_split. apply Hfs; assumption.
  - intros items H Hrt Hwf. cbn [rt_value wf_value pv_value] in *. andb_split. apply H; assumption.
  - intros items H kvs [_ HK] Hrt Hwf. cbn [rt_value wf_value pv_value] in *. andb_split.
    rewrite H, HK by assumption. reflexivity.
  - intros name v H Hrt Hwf. cbn [rt_value wf_value pv_value] in *. andb_split. apply H; assumption.
  - intros k key op v H Hrt Hwf. cbn [rt_field wf_field pv_field] in *. andb_split. apply H; assumption.
  - intros name u s Hrt. discriminate Hrt.
  - intros name u fs [H _] Hrt Hwf. cbn [rt_field wf_field pv_field] in *. andb_split. apply H; assumption.
  - split; auto.
  - intros f Hf fs [Hfs Hks]. split.
    + intros Hrt Hwf. cbn [rt_fields wf_fields pv_fields] in *. andb_split. rewrite Hf, Hfs by assumption. reflexivity.
    + intros Hwf. destruct f as [k key op v| |]; try discriminate Hwf. cbn [wf_kvs pv_fields pv_field] in *. andb_split.
      destruct v; try discriminate. rewrite Hks by assumption. reflexivity.
  - auto.
  - intros v Hv vs Hvs Hrt Hwf. cbn [rt_values wf_items pv_values] in *. andb_split. rewrite Hv, Hvs by assumption. reflexivity.
Qed.

Theorem rt_outside_K d : rt d -> wx_fields d = true /\ K14 d = false.
Proof.
  intros [Hwf [Hrt _]]. destruct (proj1 (proj1 (proj2 (proj2 rt_in_wx)) d) Hwf Hrt) as [Hwx Hok].
  split; [exact Hwx|]. unfold K14. rewrite Hok, (proj1 (proj1 (proj2 (proj2 rt_no_pv)) d) Hrt Hwf). reflexivity.
Qed.

(* C14 for lists with container values: outside K the output is a well-formed rendering of the same token
   stream; it parses back to the same tape under ANY parser that reads every well-formed rendering of the
   (normalised) document as [t] -- for the parser model this is C01_parse_render where wf_doc holds; for
   container values inside a list it is the hypothesis (not proved: PARTIAL). *)
Theorem write_reparse_x c d (P : bytes -> outcome (ttape * bool)) t :
  cfg_ok c -> wx_fields d = true -> nobom d = true -> K14 d = false ->
  (forall l, wf_layout (normx_fields d) l -> P (render (normx_fields d) l) = Ok (t, bom l)) ->
  exists out, write_tape (tape_fuel (flatten d)) c (flatten d) = WOk (w_end d) out /\ P out = Ok (t, false).
Proof.
  intros Hc Hwx Hnb HK HP. eexists. split; [apply (write_is_layout_x c d Hwx HK)|].
  apply (HP (layout_x c d)). apply layout_x_wf; assumption.
Qed.

(* ------------------------------------------------------------------ 6. the parser-aware class lies inside the class of the theorem *)
(* a cleaner flag never hurts *)
Lemma okd_mono e :
  (forall v, okd_value e true v = true -> okd_value e false v = true) /\
  (forall f, okd_field e true f = true -> okd_field e false f = true) /\
  (forall fs, okd_fields e true fs = true -> okd_fields e false fs = true) /\
  (forall vs, okd_items e true vs = true -> okd_items e false vs = true).
Proof.
  apply doc_mutind.
  - auto.
  - intros fs H tl _. rewrite !okd_obj. exact H.
  - intros items H. rewrite !okd_arr. exact H.
  - intros items H kvs _. rewrite !okd_akv. intros E. apply andb_prop in E as [E1 E2]. rewrite (H E1), E2. reflexivity.
  - intros name v H. rewrite !okd_hdr. exact H.
  - intros k key op v H. rewrite !okd_fld. intros E. apply andb_prop in E as [_ E2]. rewrite (H E2). reflexivity.
  - auto.
  - intros name u fs H. rewrite !okd_po. exact H.
  - auto.
  - intros f Hf fs Hfs. rewrite !okd_fcons. intros E. apply andb_prop in E as [E1 E2]. rewrite (Hf E1).
    rewrite (proj1 (proj2 da_false)). destruct (da_field true f); [apply Hfs, E2|exact E2].
  - auto.
  - intros v Hv vs Hvs. rewrite !okd_icons. intros E. apply andb_prop in E as [E1 E2]. rewrite (Hv E1).
    replace (da_value false v) with false by reflexivity. destruct (da_value true v); [apply Hvs, E2|exact E2].
Qed.

Lemma okd_mono_b e (a b : bool) v : (b = true -> a = true) -> okd_value e a v = true -> okd_value e b v = true.
Proof.
  destruct a, b; auto.
  - intros _. apply (proj1 (okd_mono e)).
  - intros H. discriminate (H eq_refl).
Qed.

Lemma okp_obj dd fs tl : okp_value dd (VObject fs tl) = okp_fields dd fs. Proof. reflexivity. Qed.
Lemma okp_arr dd items : okp_value dd (VArray items) = okp_items dd items. Proof. reflexivity. Qed.
Lemma okp_akv dd items kvs : okp_value dd (VArrayKv items kvs) = okp_items dd items && okp_kvs false false kvs. Proof. reflexivity. Qed.
Lemma okp_hdr dd name v : okp_value dd (VHeader name v) = okp_value dd v. Proof. reflexivity. Qed.
Lemma okp_fld dd k key op v : okp_field dd (Field k key op v) = negb (dd && op_written false op) && okp_value dd v. Proof. reflexivity. Qed.
Lemma okp_po dd name u fs : okp_field dd (ParamO name u fs) = okp_fields dd fs. Proof. reflexivity. Qed.
Lemma okp_fcons dd f r : okp_fields dd (FCons f r) = okp_field dd f && okp_fields (da_field dd f) r. Proof. reflexivity. Qed.
Lemma okp_icons dd v r : okp_items dd (VCons v r) = okp_value dd v && okp_items (da_value dd v) r. Proof. reflexivity. Qed.
Lemma okp_kcons lost pf k key op v r :
  okp_kvs lost pf (FCons (Field k key op v) r) =
  okp_value (negb lost) v && (if is_scalar v then okp_kvs lost pf r else okp_kvs (pf || sws v) (pf || sws v) r).
Proof. reflexivity. Qed.

Lemma okp_okd :
  (forall v dd, okp_value dd v = true -> okd_value false dd v = true) /\
  (forall f, (forall dd, okp_field dd f = true -> okd_field false dd f = true) /\
             (forall v, fval f = Some v -> forall dd, okp_value dd v = true -> okd_value false dd v = true)) /\
  (forall fs, (forall dd, okp_fields dd fs = true -> okd_fields false dd fs = true) /\
              (forall lost pf lost', (lost = true -> lost' = true) -> okp_kvs lost pf fs = true -> okd_kvs false lost' fs = true)) /\
  (forall vs dd, okp_items dd vs = true -> okd_items false dd vs = true).
Proof.
  apply doc_mutind.
  - auto.
  - intros fs [H _] tl _ dd. rewrite okp_obj, okd_obj. apply H.
  - intros items H dd. rewrite okp_arr, okd_arr. apply H.
  - intros items H kvs [_ HK] dd. rewrite okp_akv, okd_akv. intros E. apply andb_prop in E as [E1 E2].
    rewrite (H _ E1), (HK false false false (fun x => x) E2). reflexivity.
  - intros name v H dd. rewrite okp_hdr, okd_hdr. apply H.
  - intros k key op v H. split; [|intros v' E; inversion E; subst; exact H].
    intros dd. rewrite okp_fld, okd_fld. intros E. apply andb_prop in E as [E1 E2]. rewrite E1, (H _ E2). reflexivity.
  - intros name u s. split; [auto|intros v' E; discriminate E].
  - intros name u fs [H _]. split; [|intros v' E; discriminate E]. intros dd. rewrite okp_po, okd_po. apply H.
  - split; auto.
  - intros f [Hf Hv] fs [Hfs Hks]. split.
    + intros dd. rewrite okp_fcons, okd_fcons. intros E. apply andb_prop in E as [E1 E2]. rewrite (Hf _ E1), (Hfs _ E2). reflexivity.
    + intros lost pf lost' Hl. destruct f as [k key op v|name u s0|name u fs0];
        [|change (okp_kvs lost pf (FCons (ParamV name u s0) fs)) with (okp_kvs lost pf fs);
          change (okd_kvs false lost' (FCons (ParamV name u s0) fs)) with (okd_kvs false lost' fs); apply Hks; exact Hl
         |change (okp_kvs lost pf (FCons (ParamO name u fs0) fs)) with (okp_kvs lost pf fs);
          change (okd_kvs false lost' (FCons (ParamO name u fs0) fs)) with (okd_kvs false lost' fs); apply Hks; exact Hl].
      rewrite okp_kcons, okd_kcons.
      intros E. apply andb_prop in E as [E1 E2]. apply (Hv v eq_refl) in E1.
      rewrite (okd_mono_b false (negb lost) (negb lost') v); [|destruct lost, lost'; auto; intros _; discriminate (Hl eq_refl)|exact E1].
      destruct (is_scalar v); cbn [negb orb].
      * rewrite Bool.orb_false_r. apply (Hks lost pf lost' Hl E2).
      * rewrite Bool.orb_true_r. apply (Hks _ _ true (fun _ => eq_refl) E2).
  - auto.
  - intros v Hv vs Hvs dd. rewrite okp_icons, okd_icons. intros E. apply andb_prop in E as [E1 E2]. rewrite (Hv _ E1), (Hvs _ E2). reflexivity.
Qed.

(* the class the oracles use on parsed tapes is inside the class of write_is_layout_x *)
Theorem k14p_inside d : k14p_class d = 0%N -> K14 d = false.
Proof.
  unfold k14p_class, K14. destruct (pv_fields d); [discriminate|].
  destruct (okp_fields false d) eqn:E; [|discriminate]. intros _.
  rewrite (proj1 (proj1 (proj2 (proj2 okp_okd)) d) false E). reflexivity.
Qed.
