(* C14, wave 5 (w_wr): write_tape over key-value lists whose values are CONTAINERS.

   PLAN.  WriterLayoutProofs.v proves write_tape (flatten d) = render (norm d) (layout_w c d) for the grammar of
   C01 (wf_doc: scalar values only in the key-value part of a list) with every writer state carrying
   mixed_mode = Disabled.  Here the same traversal lemmas are re-proved with the flag as a parameter
   [dd : bool] (mm dd = Started if dirty, Disabled otherwise), threaded through the document exactly as the
   code threads its single `mixed_mode` field (the functions da_ and okd_ of WriterMix.v):
     1. [wx_*]   the class of documents (writer-side shape only: no tails, no parameter values, headers
                 hold containers and are field values, list entries are `key op value` with op <> ?=,
                 value a scalar or ANY container);
     2. [chx_*]  the chunks (gap, token) the writer prints: inside a list `key op value` glued until the
                 first container value has been closed, ` key op value` spaced afterwards (flag lost);
     3. [Pvx ..] wt = chunks under the hypothesis okd (no operator written while the flag is dirty);
     4. chunks = tokens of the normalised document, gaps are white space, bare words are followed by a
        boundary byte  ==>  the output is a well-formed rendering (TextDoc.wf_layout) of the SAME token
        stream, so any layout-insensitive parser reads back the same tape (C14_mixcont_reparse_partial:
        parse_render of C01 is only proved for scalar list values, hence the explicit hypothesis);
     5. the class K is exact on the witnesses: K14 d = true documents of each kind are refuted by
        vm_compute in Props/C14_mixcont.v. *)
From JV Require Import Bytes Tables TextTok TextTape TextDoc Date Writer WriterMix.
From JV.proofs Require Import WriterProofs TextScanProofs TextParseProofs WriterLayoutDefs WriterLayoutProofs.
Require Import Lia.
Open Scope nat_scope.

(* ------------------------------------------------------------------ 1. the class *)
Fixpoint wx_value (v : value) : bool :=
  match v with
  | VScalar _ _ => true
  | VObject fs tl => wx_fields fs && values_empty tl
  | VArray items => wx_items items
  | VArrayKv items kvs => first_item_scalar items && wx_items items && kvs_nonempty kvs && wx_kvs kvs
  | VHeader _ v => is_container v && wx_value v
  end
with wx_field (f : field) : bool :=
  match f with
  | Field _ _ _ v => wx_value v
  | ParamV _ _ _ => false
  | ParamO _ _ fs => negb (fields_empty fs) && wx_fields fs
  end
with wx_fields (fs : fields) : bool :=
  match fs with FNil => true | FCons f r => wx_field f && wx_fields r end
with wx_items (vs : values) : bool :=
  match vs with VNil => true | VCons v r => negb (is_header v) && wx_value v && wx_items r end
with wx_kvs (kvs : fields) : bool :=
  match kvs with
  | FNil => true
  | FCons f r =>
      match f with
      | Field _ _ op v => kv_op op && negb (is_header v) && wx_value v && wx_kvs r
      | _ => false
      end
  end.

(* ------------------------------------------------------------------ 2. the chunks *)
Definition kvgap (lost : bool) : bytes := if lost then [SP] else [].

Fixpoint chx_value (c : cfg) (n : nat) (g0 : bytes) (v : value) : list chunk :=
  match v with
  | VScalar k s => [(g0, stok k s)]
  | VObject fs _ =>
      (g0, lbrace) :: chx_fields c (S n) (nli c (S n)) fs ++ [(close_gap c n (fields_empty fs), rbrace)]
  | VArray items =>
      (g0, lbrace) :: chx_items c (S n) (nli c (S n)) items ++ [(close_gap c n (values_empty items), rbrace)]
  | VArrayKv items kvs =>
      (g0, lbrace) :: chx_items c (S n) (nli c (S n)) items
        ++ chx_kvs c (S n) false (sepgap c (S n) (items_nl true items)) kvs ++ [(nli c n, rbrace)]
  | VHeader name v => (g0, (name, true)) :: chx_value c n [SP] v
  end
with chx_field (c : cfg) (n : nat) (g0 : bytes) (f : field) : list chunk :=
  match f with
  | Field k key op v =>
      let o := op_or_eq op in
      (g0, stok k key) :: (opgap o, optk o) :: chx_value c n (opgap o) v
  | ParamV name u s => [(g0, (pname_bytes u name, false)); ([NL], (s, true)); ([], rbracket)]
  | ParamO name u fs =>
      (g0, (pname_bytes u name, false)) :: chx_fields c n (nli c n) fs ++ [(nli c n, rbracket)]
  end
with chx_fields (c : cfg) (n : nat) (g0 : bytes) (fs : fields) : list chunk :=
  match fs with
  | FNil => []
  | FCons f fs' => chx_field c n g0 f ++ chx_fields c n (nli c n) fs'
  end
with chx_items (c : cfg) (n : nat) (g0 : bytes) (vs : values) : list chunk :=
  match vs with
  | VNil => []
  | VCons v vs' => chx_value c n g0 v ++ chx_items c n (sepgap c n (ends_nl v)) vs'
  end
(* the key-value part of a list: glued while the flag is on, spaced once it is lost *)
with chx_kvs (c : cfg) (n : nat) (lost : bool) (g0 : bytes) (kvs : fields) : list chunk :=
  match kvs with
  | FNil => []
  | FCons f r =>
      match f with
      | Field k key op v =>
          (g0, stok k key) :: (kvgap lost, optk (op_or_eq op)) :: chx_value c n (kvgap lost) v
            ++ chx_kvs c n (lost || negb (is_scalar v)) (sepgap c n (ends_nl v)) r
      | _ => []
      end
  end.

Definition chunks_x (c : cfg) (d : doc) : list chunk := chx_fields c 0 [] d.
Definition layout_x (c : cfg) (d : doc) : layout :=
  mkLayout false (fun i => nth i (map fst (chunks_x c d)) []).

(* ------------------------------------------------------------------ 3. writer states with the flag *)
Definition mm (dirty : bool) : mmode := if dirty then MStarted else MDisabled.

Definition kposx (dd : bool) (w : wr) : Prop :=
  w_mode w = DObject /\ w_mixed w = mm dd /\ (w_state w = WKey \/ w_state w = WFirstKey).
(* value position; the last disjunct is the value of a `key op value` triple: the operator has just set
   the flag to Keyed, the preamble will print no separator and set it back to Started *)
Definition vposx (dd : bool) (w : wr) : Prop :=
  (w_mixed w = mm dd /\
   ((w_mode w = DObject /\ (w_state w = WKeyValueSeparator \/ w_state w = WObjectValue)) \/
    (w_mode w = DArray /\ astate (w_state w)))) \/
  (dd = true /\ w_mode w = DArray /\ w_state w = WArrayValue /\ w_nlt w = false /\ w_mixed w = MKeyed).
Definition iposx (dd : bool) (w : wr) : Prop :=
  w_mode w = DArray /\ w_mixed w = mm dd /\ astate (w_state w).
Definition wkeyx (dd : bool) (w : wr) : wr := mkwr DObject (w_depth w) WKey true (mm dd).
Definition vpostx (dd : bool) (w : wr) (v : value) : wr :=
  mkwr (w_mode w) (w_depth w)
       (match w_mode w with DObject => WKey | DArray => if ends_nl v then WArrayValue else ws_next_spec (w_state w) end)
       (match w_mode w with DObject => true | DArray => ends_nl v end) (mm (da_value dd v)).
Fixpoint ipostx (dd : bool) (w : wr) (vs : values) : wr :=
  match vs with VNil => w | VCons v vs' => ipostx (da_value dd v) (vpostx dd w v) vs' end.
Fixpoint da_items (dd : bool) (vs : values) : bool :=
  match vs with VNil => dd | VCons v r => da_items (da_value dd v) r end.

(* the writer inside the key-value part *)
Definition wkv (lost : bool) (d : list dmode) (nl : bool) : wr := mkwr DArray d WArrayValue nl (mm (negb lost)).
Fixpoint kvpost (lost : bool) (d : list dmode) (nl : bool) (kvs : fields) : wr :=
  match kvs with
  | FNil => wkv lost d nl
  | FCons f r =>
      match f with
      | Field _ _ _ v => kvpost (lost || negb (is_scalar v)) d (ends_nl v) r
      | _ => wkv lost d nl
      end
  end.
Fixpoint kvcount (kvs : fields) : nat := match kvs with FNil => 0 | FCons _ r => 3 + kvcount r end.

Lemma da_container dd v : is_scalar v = false -> da_value dd v = false.
Proof. intros H. unfold da_value. rewrite H. apply Bool.andb_false_r. Qed.

Lemma vposx_pre dd w : vposx dd w ->
  pre_state w = mkwr (w_mode w) (w_depth w) (w_state w) false (mm dd).
Proof.
  destruct w as [m d s n x]. intros [[Hx _] | [-> [Hm [Hs [Hn Hx]]]]]; cbn in *; subst.
  - unfold pre_state. cbn. destruct s; try reflexivity; destruct n; try reflexivity; destruct dd; reflexivity.
  - reflexivity.
Qed.

Lemma start_state_vposx dd w m s : vposx dd w ->
  start_state w m s = mkwr m (w_mode w :: w_depth w) s true (mm dd).
Proof. intros H. unfold start_state. rewrite (vposx_pre _ _ H). reflexivity. Qed.

Lemma iposx_vposx dd w : iposx dd w -> vposx dd w.
Proof. intros [Hm [Hx Hs]]. left. split; [exact Hx|]. right. auto. Qed.

Lemma kposx_key c dd w k key : kposx dd w ->
  write_key c w k key = WOk (mkwr DObject (w_depth w) WKeyValueSeparator false (mm dd))
                            (pre_bytes c w ++ scalar_bytes k key).
Proof.
  intros [Hm [Hx Hs]]. rewrite write_key_shape. f_equal.
  destruct w as [m d st n x]. cbn in Hm, Hx, Hs. subst m x. unfold pre_state, epi_state.
  destruct Hs as [-> | ->]; reflexivity.
Qed.

Lemma kposx_pre c dd w : kposx dd w -> pre_state w = set_nlt w false /\ pre_bytes c (set_nlt w false) = ind c (dep w).
Proof.
  destruct w as [m d st n x]. intros [Hm [Hx Hs]]. cbn in Hm, Hx, Hs. subst m x.
  unfold pre_state, pre_bytes, ind, dep. destruct Hs as [-> | ->]; split; reflexivity.
Qed.

Section MainX.
Variable c : cfg.
Variable t : ttape.

Definition Pvx (v : value) : Prop := forall dd f off w,
  wx_value v = true -> okd_value false dd v = true -> seg t off (flat_value off v) -> 3 * vlen v <= f -> vposx dd w ->
  (is_header v = true -> w_mode w = DObject) ->
  wt f c t (JValue off) w = WOk (vpostx dd w v) (cbytes (chx_value c (dep w) (pre_bytes c w) v)).

Definition Pfx (fd : field) : Prop := forall dd f off ei w,
  wx_field fd = true -> okd_field false dd fd = true -> seg t off (flat_field false off fd) ->
  off + flen false fd <= ei -> 3 * flen false fd <= f -> kposx dd w ->
  wt (S f) c t (JCore off ei) w =
  wbind (WOk (wkeyx (da_field dd fd) w) (cbytes (chx_field c (dep w) (pre_bytes c w) fd)))
        (fun w' => wt f c t (JCore (off + flen false fd) ei) w').

Definition Pfsx (fs : fields) : Prop := forall dd f off w,
  wx_fields fs = true -> okd_fields false dd fs = true -> seg t off (flat_fields false off fs) ->
  3 * fslen false fs + 1 <= f -> kposx dd w ->
  wt f c t (JCore off (off + fslen false fs)) w =
  WOk (if fields_empty fs then w else wkeyx (da_fields dd fs) w) (cbytes (chx_fields c (dep w) (pre_bytes c w) fs)).

Definition Pvsx (vs : values) : Prop := forall dd f ti ei w,
  wx_items vs = true -> okd_items false dd vs = true -> seg t ti (flat_values ti vs) ->
  ti + vslen vs <= ei -> 3 * vslen vs + 1 <= f -> iposx dd w ->
  wt f c t (JArrayLoop ti ei) w =
  wbind (WOk (ipostx dd w vs) (cbytes (chx_items c (dep w) (pre_bytes c w) vs)))
        (fun w' => wt (f - vcount vs) c t (JArrayLoop (ti + vslen vs) ei) w').

(* the key-value part, as array elements *)
Definition Pkvx (kvs : fields) : Prop := forall lost f ti ei d nl,
  wx_kvs kvs = true -> okd_kvs false lost kvs = true -> seg t ti (flat_fields true ti kvs) ->
  ti + fslen true kvs <= ei -> 3 * fslen true kvs + 1 <= f ->
  wt f c t (JArrayLoop ti ei) (wkv lost d nl) =
  wbind (WOk (kvpost lost d nl kvs) (cbytes (chx_kvs c (length d) lost (pre_bytes c (wkv lost d nl)) kvs)))
        (fun w' => wt (f - kvcount kvs) c t (JArrayLoop (ti + fslen true kvs) ei) w').

Lemma Vx_scalar k s : Pvx (VScalar k s).
Proof.
  intros dd f off w _ _ Hseg Hf Hp _. cbn [flat_value] in Hseg. apply seg_cons in Hseg as [Hg _].
  destruct f as [|f]; [cbn in Hf; lia|]. rewrite (wt_value_scalar _ _ _ _ _ _ _ Hg), write_key_shape.
  cbn [chx_value]. rewrite cbytes_cons. cbn [stok fst cbytes flat_map]. rewrite app_nil_r. f_equal.
  rewrite (vposx_pre _ _ Hp). unfold vpostx, epi_state, da_value. cbn [is_scalar ends_nl]. rewrite Bool.andb_true_r.
  destruct w as [m d st n x]. unfold vposx in Hp. cbn [w_mode w_depth w_state w_nlt w_mixed] in *.
  destruct Hp as [[_ [[-> [-> | ->]] | [-> [-> | [-> | [-> | ->]]]]]] | [_ [-> [-> _]]]]; reflexivity.
Qed.

Lemma Ix_nil : Pvsx VNil.
Proof.
  intros dd f ti ei w _ _ _ _ _ _. cbn [ipostx chx_items vcount]. change (cbytes []) with (@nil N).
  rewrite wbind_ret_nil, Nat.sub_0_r. change (vslen VNil) with 0. rewrite Nat.add_0_r. reflexivity.
Qed.

Lemma vpostx_iposx dd w v : iposx dd w -> iposx (da_value dd v) (vpostx dd w v).
Proof.
  intros [Hm [_ Hs]]. unfold iposx, vpostx, astate. cbn. rewrite Hm. repeat split; auto.
  destruct (ends_nl v); [auto|]. destruct Hs as [-> | [-> | [-> | ->]]]; cbn; auto.
Qed.
Lemma vpostx_pre_bytes dd w v : iposx dd w -> pre_bytes c (vpostx dd w v) = sepgap c (dep w) (ends_nl v).
Proof.
  intros [Hm [_ Hs]]. unfold vpostx, pre_bytes, sepgap, nli, ind, dep. cbn. rewrite Hm. cbn.
  destruct (ends_nl v); [reflexivity|].
  destruct Hs as [-> | [-> | [-> | ->]]]; cbn; destruct (da_value dd v); reflexivity.
Qed.

Lemma Ix_cons v vs : Pvx v -> Pvsx vs -> Pvsx (VCons v vs).
Proof.
  intros HV HI dd f ti ei w Hwx Hok Hseg Hei Hf Hp.
  cbn [wx_items okd_items] in Hwx, Hok. andb_split.
  cbn [flat_values] in Hseg. apply seg_app in Hseg as [Hs1 Hs2]. rewrite flat_value_len in Hs2.
  rewrite vslen_cons in *. pose proof (vlen_pos v).
  destruct f as [|g]; [lia|].
  rewrite (wt_loop_step g c t ti ei w (ti + vlen v)); [|lia|apply nidx_values; [assumption|]].
  2:{ destruct (is_header v); [discriminate|reflexivity]. }
  rewrite (HV dd g ti w); try assumption; [|lia|apply iposx_vposx; assumption|].
  2:{ destruct (is_header v); [discriminate|intros; discriminate]. }
  cbn [wbind]. rewrite (HI (da_value dd v) g (ti + vlen v) ei (vpostx dd w v)); try assumption; [|lia|lia|apply vpostx_iposx; assumption].
  rewrite wbind_ok2. cbn [ipostx chx_items vcount]. rewrite cbytes_app, vpostx_pre_bytes by assumption.
  change (dep (vpostx dd w v)) with (dep w). rewrite Nat.add_assoc. reflexivity.
Qed.

(* after the elements: depth kept, array mode, some data written, flag = da_items *)
Lemma ipostx_cons_eq dd w v vs : w_mode w = DArray -> w_state w = WArrayValue \/ w_state w = WArrayValueFirst ->
  ipostx dd w (VCons v vs) = mkwr DArray (w_depth w) WArrayValue (items_nl (ends_nl v) vs) (mm (da_items dd (VCons v vs))).
Proof.
  revert dd w v. induction vs as [|v2 vs IH]; intros dd w v Hm Hs.
  - cbn [ipostx items_nl da_items]. unfold vpostx. rewrite Hm. destruct (ends_nl v); [reflexivity|].
    destruct Hs as [-> | ->]; reflexivity.
  - change (ipostx dd w (VCons v (VCons v2 vs))) with (ipostx (da_value dd v) (vpostx dd w v) (VCons v2 vs)).
    rewrite IH; [reflexivity|unfold vpostx; cbn; exact Hm|].
    left. unfold vpostx. cbn. rewrite Hm. destruct (ends_nl v); [reflexivity|]. destruct Hs as [-> | ->]; reflexivity.
Qed.

Lemma Vx_array items : Pvsx items -> Pvx (VArray items).
Proof.
  intros HI dd f off w Hwx Hok Hseg Hf Hp _. cbn [wx_value okd_value] in Hwx, Hok.
  rewrite vlen_array in Hf. cbn [flat_value] in Hseg. apply seg_cons in Hseg as [Hh Hseg].
  apply seg_app in Hseg as [Hs1 _]. rewrite flat_values_len in Hh.
  destruct f as [|g]; [lia|]. rewrite (wt_value_array _ _ _ _ _ _ _ Hh), write_array_start_shape.
  rewrite (start_state_vposx _ _ _ _ Hp). cbn [wbind].
  set (w1 := mkwr DArray (w_mode w :: w_depth w) WArrayValueFirst true (mm dd)).
  rewrite (HI dd g (S off) (S off + vslen items) w1); try assumption; [|lia|lia|repeat split; unfold astate; auto].
  pose proof (vcount_le items). cbn [wbind].
  destruct (g - vcount items) as [|g2] eqn:Eg; [lia|]. rewrite wt_loop_end by lia. cbn [wbind].
  rewrite (write_end_shape _ _ (w_mode w) (w_depth w)).
  2:{ destruct items; [reflexivity|]. rewrite ipostx_cons_eq; auto. }
  f_equal; [unfold vpostx; rewrite da_container by reflexivity; destruct (w_mode w); reflexivity|].
  cbn [chx_value]. rewrite cbytes_cons, cbytes_app, cbytes_cons. change (cbytes []) with (@nil N).
  cbn [lbrace rbrace fst]. rewrite !app_nil_r, <- !app_assoc. f_equal. f_equal.
  change (dep w1) with (S (dep w)). replace (pre_bytes c w1) with (nli c (S (dep w))) by (destruct dd; reflexivity). f_equal. f_equal.
  destruct items; [reflexivity|]. rewrite ipostx_cons_eq; auto.
Qed.

Lemma Vx_object fs tl : Pfsx fs -> Pvx (VObject fs tl).
Proof.
  intros HF dd f off w Hwx Hok Hseg Hf Hp _. cbn [wx_value okd_value] in Hwx, Hok. andb_split.
  destruct tl; [|discriminate].
  rewrite vlen_object in Hf. cbn [flat_value] in Hseg. apply seg_cons in Hseg as [Hh Hseg].
  apply seg_app in Hseg as [Hs1 _]. rewrite flat_fields_len in Hh. cbn [length] in Hh. rewrite Nat.add_0_r in Hh.
  destruct f as [|g]; [lia|]. rewrite (wt_value_object _ _ _ _ _ _ _ Hh), write_object_start_shape.
  rewrite (start_state_vposx _ _ _ _ Hp). cbn [wbind].
  set (w1 := mkwr DObject (w_mode w :: w_depth w) WFirstKey true (mm dd)).
  rewrite (HF dd g (S off) w1); try assumption; [|lia|repeat split; unfold astate; auto]. cbn [wbind].
  rewrite (write_end_shape _ _ (w_mode w) (w_depth w)) by (destruct fs; reflexivity).
  f_equal; [unfold vpostx; rewrite da_container by reflexivity; destruct (w_mode w); reflexivity|].
  cbn [chx_value]. rewrite cbytes_cons, cbytes_app, cbytes_cons. change (cbytes []) with (@nil N).
  cbn [lbrace rbrace fst]. rewrite !app_nil_r, <- !app_assoc. f_equal. f_equal.
  change (dep w1) with (S (dep w)). replace (pre_bytes c w1) with (nli c (S (dep w))) by (destruct dd; reflexivity). f_equal. f_equal.
  destruct fs; reflexivity.
Qed.

Lemma cbx_g0_value n g v : cbytes (chx_value c n g v) = g ++ cbytes (chx_value c n [] v).
Proof. destruct v; cbn [chx_value]; rewrite !cbytes_cons; reflexivity. Qed.
Lemma cbx_g0_field n g f : cbytes (chx_field c n g f) = g ++ cbytes (chx_field c n [] f).
Proof. destruct f; cbn [chx_field]; rewrite !cbytes_cons; reflexivity. Qed.
Lemma cbx_g0_fields n g fs : fs <> FNil -> cbytes (chx_fields c n g fs) = g ++ cbytes (chx_fields c n [] fs).
Proof.
  destruct fs as [|f fs]; [congruence|]. intros _. cbn [chx_fields]. rewrite !cbytes_app, cbx_g0_field, app_assoc. reflexivity.
Qed.

Lemma nidx_valuex f off v : seg t off (flat_value off v) -> wx_value v = true ->
  next_idx (S (S f)) t off = Ok (off + vlen v).
Proof.
  intros H Hwf. destruct (is_container v) eqn:Hc; [apply (nidx_container _ _ _ _ H Hc)|].
  destruct v as [k s| | | |name v]; try discriminate Hc.
  - cbn [next_idx]. rewrite (seg_head _ _ _ H). unfold head_tok. cbn [flat_value].
    destruct k; cbn [scalar_tok]; f_equal; unfold vlen; cbn; lia.
  - cbn [wx_value] in Hwf. andb_split.
    cbn [flat_value] in H. apply seg_cons in H as [Hh Hv].
    change (next_idx (S (S f)) t off) with
      (match Writer.tget t off with
       | Some (TArray e _) | Some (TObject e _) => Ok (S e)
       | Some (TOperator _) => next_idx (S f) t (S off)
       | Some (THeader _) => match next_idx_header t (S off) with Some n => Ok n | None => Panic 10%N end
       | Some _ => Ok (S off)
       | None => Panic 10%N
       end).
    rewrite Hh. destruct (nidx_container 0 _ _ _ Hv) as [_ ->]; [assumption|].
    rewrite vlen_header. f_equal. lia.
Qed.

Lemma Vx_header name v : Pvx v -> Pvx (VHeader name v).
Proof.
  intros HV dd f off w Hwx Hok Hseg Hf Hp Hm. specialize (Hm eq_refl).
  cbn [wx_value okd_value] in Hwx, Hok. andb_split.
  rewrite vlen_header in Hf. cbn [flat_value] in Hseg. apply seg_cons in Hseg as [Hh Hseg].
  pose proof (vlen_pos v).
  destruct f as [|[|g]]; [lia|lia|].
  destruct (nidx_container g _ _ _ Hseg) as [Hn _]; [assumption|].
  rewrite (wt_value_header _ _ _ _ _ _ _ Hh Hn); [|lia|lia|eexists; apply (seg_head _ _ _ Hseg)].
  rewrite write_header_shape, (vposx_pre _ _ Hp). cbn [wbind].
  set (w1 := set_state (mkwr (w_mode w) (w_depth w) (w_state w) false (mm dd)) WObjectValue).
  assert (Hs : is_scalar v = false) by (destruct v; try discriminate; reflexivity).
  rewrite (HV dd (S g) (S off) w1); try assumption; [|lia| |intros _; exact Hm].
  - f_equal.
    + unfold vpostx, w1. cbn [set_state w_mode w_depth w_state]. rewrite Hm, !da_container by (try exact Hs; reflexivity). reflexivity.
    + cbn [chx_value]. rewrite cbytes_cons, (cbx_g0_value _ [SP]). cbn [fst].
      change (pre_bytes c w1) with (@nil N). change (dep w1) with (dep w).
      rewrite (cbx_g0_value _ []). rewrite <- !app_assoc. reflexivity.
  - left. split; [reflexivity|]. left. split; [exact Hm|right; reflexivity].
Qed.

Lemma Fx_field_noop k key op v : op_toks false op = [] -> op_or_eq op = Equal -> Pvx v -> Pfx (Field k key op v).
Proof.
  intros Hop Hoe HV dd f off ei w Hwx Hok Hseg Hei Hf Hp.
  cbn [wx_field okd_field] in Hwx, Hok. andb_split.
  rewrite flen_field, Hop in *. cbn [length] in *. cbn [flat_field] in Hseg. rewrite Hop in Hseg.
  cbn [app length] in Hseg. rewrite Nat.add_0_r in Hseg. apply seg_cons in Hseg as [Hk Hv].
  pose proof (vlen_pos v). destruct f as [|[|g]]; [lia|lia|].
  rewrite (wt_core_field_noop _ c t off ei w k key (head_tok (S off) v) (S off + vlen v));
    [|lia|assumption|apply seg_head; assumption|apply head_not_op|apply nidx_valuex; assumption].
  rewrite (kposx_key _ _ _ _ _ Hp).
  set (w1 := mkwr DObject (w_depth w) WKeyValueSeparator false (mm dd)).
  erewrite wbind_ok.
  2:{ cbn [emit]. erewrite wbind_ok; [reflexivity|].
      apply (HV dd (S (S g)) (S off) w1); try assumption; [lia|left; split; [reflexivity|left; auto]|reflexivity]. }
  replace (off + (1 + 0 + vlen v)) with (S off + vlen v) by lia.
  f_equal. f_equal. cbn [chx_field]. rewrite Hoe, !cbytes_cons. cbn [stok optk opgap fst op_symbol app].
  rewrite (cbx_g0_value _ (pre_bytes c w1)). change (pre_bytes c w1) with [61%N]. change (dep w1) with (dep w).
  rewrite <- !app_assoc. reflexivity.
Qed.

Lemma Fx_field_op k key o v : o <> Equal -> Pvx v -> Pfx (Field k key (Some o) v).
Proof.
  intros Hne HV dd f off ei w Hwx Hok Hseg Hei Hf Hp.
  cbn [wx_field okd_field] in Hwx, Hok. andb_split.
  assert (Hd : dd = false).
  { destruct dd; [|reflexivity]. destruct o; try discriminate; congruence. }
  subst dd.
  assert (Hop : op_toks false (Some o) = [TOperator o]) by (destruct o; try reflexivity; congruence).
  rewrite flen_field, Hop in *. cbn [length] in *. cbn [flat_field] in Hseg. rewrite Hop in Hseg.
  cbn [app length] in Hseg. apply seg_cons in Hseg as [Hk Hv]. apply seg_cons in Hv as [Ho Hv].
  replace (S off + 1) with (S (S off)) in Hv by lia.
  pose proof (vlen_pos v). destruct f as [|[|g]]; [lia|lia|].
  rewrite (wt_core_field_op _ c t off ei w k key o (S (S off) + vlen v));
    [|lia|assumption|assumption|apply nidx_valuex; assumption].
  rewrite (kposx_key _ _ _ _ _ Hp).
  set (w1 := mkwr DObject (w_depth w) WKeyValueSeparator false MDisabled).
  set (w2 := mkwr DObject (w_depth w) WObjectValue false MDisabled).
  assert (Hw : write_operator w1 o = WOk w2 ([SP] ++ op_symbol o ++ [SP])).
  { unfold write_operator. cbn [w1 w_mixed mmode_eqb emit]. destruct o; try reflexivity; congruence. }
  erewrite wbind_ok.
  2:{ cbn [mm]. fold w1. rewrite Hw. erewrite wbind_ok; [reflexivity|].
      apply (HV false (S (S g)) (S (S off)) w2); try assumption; [lia|left; split; [reflexivity|left; auto]|reflexivity]. }
  replace (off + (1 + 1 + vlen v)) with (S (S off) + vlen v) by lia.
  f_equal. f_equal. cbn [chx_field op_or_eq]. rewrite !cbytes_cons. cbn [stok optk fst].
  assert (Hg : opgap o = [SP]) by (destruct o; try reflexivity; congruence). rewrite Hg.
  rewrite (cbx_g0_value _ [SP]). change (pre_bytes c w2) with (@nil N). change (dep w2) with (dep w).
  rewrite (cbx_g0_value _ []). rewrite <- !app_assoc. reflexivity.
Qed.

Lemma Fx_field k key op v : Pvx v -> Pfx (Field k key op v).
Proof.
  intros HV. destruct op as [o|]; [destruct o|];
    try (apply Fx_field_op; [discriminate|exact HV]); apply Fx_field_noop; auto.
Qed.

Lemma Fx_paramO name u fs : Pfsx fs -> Pfx (ParamO name u fs).
Proof.
  intros HF dd f off ei w Hwx Hok Hseg Hei Hf Hp.
  cbn [wx_field okd_field] in Hwx, Hok. andb_split.
  rewrite flen_paramO in *. cbn [flat_field] in Hseg. rewrite flat_fields_len in Hseg.
  apply seg_cons in Hseg as [Hk Hseg]. apply seg_cons in Hseg as [Ho Hseg]. apply seg_app in Hseg as [Hb _].
  destruct f as [|g]; [lia|].
  rewrite (wt_core_param_obj _ c t off ei w u name _ _ (off + (3 + fslen false fs)) ltac:(lia) Hk Ho).
  2:{ cbn [next_idx]. rewrite Ho. f_equal. lia. }
  destruct (kposx_pre c _ _ Hp) as [Hpre Hpb].
  rewrite write_preamble_shape, Hpre.
  erewrite wbind_ok.
  2:{ cbn [emit wbind].
      rewrite (HF dd (S g) (S (S off)) (set_nlt w false)); try assumption; [|lia].
      cbn [wbind emit]. reflexivity. }
  assert (Hne : fs <> FNil) by (destruct fs; [discriminate|congruence]).
  f_equal. f_equal; [destruct fs; [congruence|reflexivity]|].
  rewrite write_indent_spec. rewrite Hpb.
  cbn [chx_field]. rewrite cbytes_cons, cbytes_app, cbytes_cons. change (cbytes []) with (@nil N). cbn [fst rbracket].
  rewrite (cbx_g0_fields _ (nli c (dep w))), (cbx_g0_fields _ (ind c (dep w))) by assumption.
  change (dep (set_nlt w false)) with (dep w).
  replace (w_depth (if fields_empty fs then set_nlt w false else wkeyx (da_fields dd fs) (set_nlt w false))) with (w_depth w)
    by (destruct fs; reflexivity).
  change (repeat (indent_char c) (length (w_depth w) * N.to_nat (indent_factor c))) with (ind c (dep w)).
  unfold nli, pname_bytes, PARAM_OPEN, PARAM_OPEN_NOT, PARAM_HEAD_END, RBRACKET, NL.
  destruct u; cbn [app]; rewrite <- !app_assoc; cbn [app]; rewrite ?app_nil_r;
    repeat (f_equal; try reflexivity).
Qed.

Lemma Fx_paramV name u s : Pfx (ParamV name u s).
Proof. intros dd f off ei w Hwx. discriminate Hwx. Qed.

Lemma Fx_nil : Pfsx FNil.
Proof.
  intros dd f off w _ _ _ Hf _. change (fslen false FNil) with 0 in *. destruct f as [|g]; [lia|].
  rewrite wt_core_end by lia. reflexivity.
Qed.

Lemma Fx_cons fd fs : Pfx fd -> Pfsx fs -> Pfsx (FCons fd fs).
Proof.
  intros H1 HF dd f off w Hwx Hok Hseg Hf Hp.
  cbn [wx_fields okd_fields] in Hwx, Hok. andb_split.
  rewrite fslen_cons in *. cbn [flat_fields] in Hseg. apply seg_app in Hseg as [Hs1 Hs2].
  rewrite flat_field_len in Hs2. pose proof (flen_pos false fd).
  destruct f as [|g]; [lia|].
  rewrite (H1 dd g off (off + (flen false fd + fslen false fs)) w); try assumption; [|lia|lia].
  rewrite Nat.add_assoc.
  erewrite wbind_ok.
  2:{ apply (HF (da_field dd fd) g (off + flen false fd) (wkeyx (da_field dd fd) w)); try assumption; [lia|].
      repeat split; auto. }
  f_equal; [destruct fs; reflexivity|].
  cbn [chx_fields]. rewrite cbytes_app. reflexivity.
Qed.

(* ---- the key-value part *)
Lemma Kx_nil : Pkvx FNil.
Proof.
  intros lost f ti ei d nl _ _ _ _ _. cbn [kvpost chx_kvs kvcount]. change (cbytes []) with (@nil N).
  change (fslen true FNil) with 0. rewrite wbind_ret_nil, Nat.sub_0_r, Nat.add_0_r. reflexivity.
Qed.

Lemma wt_value_opx f vi lost d o : Writer.tget t vi = Some (TOperator o) ->
  wt (S f) c t (JValue vi) (wkv lost d false) =
  WOk (if lost then wkv true d false else set_mixed (wkv false d false) MKeyed) (kvgap lost ++ op_symbol o).
Proof. intros H. cbn [wt]. rewrite H. destruct lost; reflexivity. Qed.

Lemma Kx_cons k key op v r : Pvx v -> Pkvx r -> Pkvx (FCons (Field k key op v) r).
Proof.
  intros HV IH lost f ti ei d nl Hwx Hok Hseg Hei Hf.
  cbn [wx_kvs okd_kvs] in Hwx, Hok. andb_split. destruct op as [o|]; [|discriminate].
  rewrite fslen_cons, flen_field, op_toks_true in *. cbn [length] in *.
  cbn [flat_fields flat_field] in Hseg. rewrite op_toks_true in Hseg. cbn [app length] in Hseg.
  apply seg_cons in Hseg as [Hk Hseg]. apply seg_cons in Hseg as [Ho Hseg].
  apply seg_app in Hseg as [Hv Hs2]. rewrite flat_value_len in Hs2.
  replace (S ti + 1) with (S (S ti)) in Hv by lia.
  replace (ti + S (S (vlen v))) with (S (S ti) + vlen v) in Hs2 by lia.
  pose proof (vlen_pos v).
  destruct f as [|[|[|[|g]]]]; try lia.
  rewrite (wt_loop_step _ c t ti ei _ (S ti)); [|lia|apply (nidx_values_scalar _ _ _ _ Hk)].
  rewrite (wt_value_scalar _ _ _ _ _ _ _ Hk), write_key_shape.
  replace (epi_state (pre_state (wkv lost d nl))) with (wkv lost d false) by (destruct nl, lost; reflexivity).
  set (wv := if lost then wkv true d false else set_mixed (wkv false d false) MKeyed).
  assert (Hwv : vposx (negb lost) wv).
  { unfold wv. destruct lost; [left; split; [reflexivity|right; split; [reflexivity|left; reflexivity]]|].
    right. repeat split; reflexivity. }
  erewrite wbind_okc.
  2:{ rewrite (wt_loop_step _ c t (S ti) ei _ (S (S ti))); [|lia|unfold next_idx_values; rewrite Ho; reflexivity].
      rewrite (wt_value_opx _ _ _ _ _ Ho). fold wv.
      erewrite wbind_okc; [reflexivity|].
      rewrite (wt_loop_step _ c t (S (S ti)) ei _ (S (S ti) + vlen v)); [|lia|apply nidx_values; [assumption|]].
      2:{ destruct (is_header v); [discriminate|reflexivity]. }
      rewrite (HV (negb lost) (S g) (S (S ti)) wv); try assumption; [|lia|].
      2:{ destruct (is_header v); [discriminate|intros; discriminate]. }
      erewrite wbind_okc; [reflexivity|].
      replace (vpostx (negb lost) wv v) with (wkv (lost || negb (is_scalar v)) d (ends_nl v)).
      2:{ unfold vpostx, wv, wkv, da_value. destruct lost, v; reflexivity. }
      apply (IH (lost || negb (is_scalar v)) (S g) (S (S ti) + vlen v) ei d (ends_nl v)); try assumption; lia. }
  replace (S (S ti) + vlen v + fslen true r) with (ti + (1 + 1 + vlen v + fslen true r)) by lia.
  replace (S g - kvcount r) with (S (S (S (S g))) - kvcount (FCons (Field k key (Some o) v) r)) by (cbn [kvcount]; lia).
  f_equal. f_equal.
  cbn [chx_kvs op_or_eq]. rewrite !cbytes_cons, cbytes_app. cbn [stok optk fst].
  rewrite (cbx_g0_value _ (kvgap lost)), (cbx_g0_value _ (pre_bytes c wv)).
  replace (pre_bytes c wv) with (kvgap lost) by (unfold wv; destruct lost; reflexivity).
  replace (dep wv) with (length d) by (unfold wv; destruct lost; reflexivity).
  replace (pre_bytes c (wkv (lost || negb (is_scalar v)) d (ends_nl v))) with (sepgap c (length d) (ends_nl v))
    by (destruct lost, v; reflexivity).
  rewrite <- !app_assoc. reflexivity.
Qed.

Lemma kvpost_wkv kvs : forall lost d nl, exists l' n', kvpost lost d nl kvs = wkv l' d n'.
Proof.
  induction kvs as [|f r IH]; intros lost d nl; [eexists; eexists; reflexivity|].
  destruct f; cbn [kvpost]; [apply IH|eexists; eexists; reflexivity|eexists; eexists; reflexivity].
Qed.

Lemma kvcount_le kvs : wx_kvs kvs = true -> kvcount kvs <= fslen true kvs.
Proof.
  induction kvs as [|f r IH]; intros H; [cbn; lia|].
  destruct f as [k key op v| |]; try discriminate H. cbn [wx_kvs] in H. andb_split.
  rewrite fslen_cons, flen_field. destruct op as [o|]; [|discriminate]. rewrite op_toks_true. cbn [length kvcount].
  pose proof (vlen_pos v). specialize (IH ltac:(assumption)). lia.
Qed.

Lemma Vx_arraykv items kvs : Pvsx items -> Pkvx kvs -> Pvx (VArrayKv items kvs).
Proof.
  intros HI HK dd f off w Hwx Hok Hseg Hf Hp _. cbn [wx_value okd_value] in Hwx, Hok. andb_split.
  rewrite vlen_arraykv in Hf. cbn [flat_value] in Hseg. apply seg_cons in Hseg as [Hh Hseg].
  apply seg_app in Hseg as [Hs1 Hseg]. apply seg_cons in Hseg as [Hm Hseg]. apply seg_app in Hseg as [Hs2 _].
  rewrite flat_values_len, flat_fields_len in *.
  destruct items as [|v0 vs0]; [discriminate|].
  destruct f as [|g]; [lia|]. rewrite (wt_value_array _ _ _ _ _ _ _ Hh), write_array_start_shape.
  rewrite (start_state_vposx _ _ _ _ Hp).
  set (w1 := mkwr DArray (w_mode w :: w_depth w) WArrayValueFirst true (mm dd)).
  set (e := S (S off + vslen (VCons v0 vs0) + fslen true kvs)) in *.
  pose proof (vcount_le (VCons v0 vs0)) as Hvc.
  pose proof (kvcount_le kvs ltac:(assumption)) as Hkc.
  destruct (kvpost_wkv kvs false (w_depth w1) (items_nl (ends_nl v0) vs0)) as [l' [n' Ekv]].
  erewrite wbind_ok.
  2:{ rewrite (HI dd g (S off) e w1); try assumption; [|unfold e; lia|lia|repeat split; unfold astate; auto].
      rewrite ipostx_cons_eq by auto.
      destruct (g - vcount (VCons v0 vs0)) as [|[|g2]] eqn:Eg; [lia|lia|].
      erewrite (wbind_ok _ _ (fun w' => wt _ c t (JArrayLoop _ e) w')).
      2:{ cbn beta.
          rewrite (wt_loop_step _ c t _ e _ (S (S off + vslen (VCons v0 vs0))));
            [|unfold e; lia|unfold next_idx_values; rewrite Hm; reflexivity].
          rewrite (wt_value_mixed _ _ _ _ _ Hm). unfold start_mixed_mode, emit. rewrite wbind_ret_nil.
          change (set_mixed (set_mode (mkwr DArray (w_depth w1) WArrayValue (items_nl (ends_nl v0) vs0) (mm (da_items dd (VCons v0 vs0)))) DArray) MStarted)
            with (wkv false (w_depth w1) (items_nl (ends_nl v0) vs0)).
          rewrite (HK false (S g2) (S (S off + vslen (VCons v0 vs0))) e); try assumption; [|unfold e; lia|lia].
          destruct (S g2 - kvcount kvs) as [|g3] eqn:Eg3; [lia|].
          erewrite wbind_ok; [reflexivity|]. rewrite wt_loop_end by (unfold e; lia). reflexivity. }
      cbn [wbind]. rewrite Ekv.
      rewrite (write_end_shape _ _ (w_mode w) (w_depth w)) by reflexivity. reflexivity. }
  f_equal; [unfold vpostx; rewrite da_container by reflexivity; destruct (w_mode w); reflexivity|].
  cbn [chx_value]. rewrite cbytes_cons, !cbytes_app, cbytes_cons. change (cbytes []) with (@nil N).
  cbn [lbrace rbrace fst]. rewrite !app_nil_r, <- !app_assoc. f_equal. f_equal.
  change (dep w1) with (S (dep w)). replace (pre_bytes c w1) with (nli c (S (dep w))) by (destruct dd; reflexivity). f_equal.
  change (length (w_depth w1)) with (S (dep w)).
  replace (pre_bytes c (wkv false (w_depth w1) (items_nl (ends_nl v0) vs0))) with (sepgap c (S (dep w)) (items_nl true (VCons v0 vs0)))
    by (cbn [items_nl]; destruct (items_nl (ends_nl v0) vs0); reflexivity).
  reflexivity.
Qed.
End MainX.

Lemma write_all_x c t :
  (forall v, Pvx c t v) /\ (forall f, Pfx c t f /\ (forall r, Pkvx c t r -> Pkvx c t (FCons f r))) /\
  (forall fs, Pfsx c t fs /\ Pkvx c t fs) /\ (forall vs, Pvsx c t vs).
Proof.
  apply doc_mutind.
  - apply Vx_scalar.
  - intros fs [Hfs _] tl _. apply Vx_object. exact Hfs.
  - intros items H. apply Vx_array. exact H.
  - intros items H kvs [_ HK]. apply Vx_arraykv; assumption.
  - intros name v H. apply Vx_header. exact H.
  - intros k key op v H. split; [apply Fx_field; exact H|]. intros r Hr. apply Kx_cons; assumption.
  - intros name u s. split; [apply Fx_paramV|]. intros r _ lost f ti ei d nl Hwx. discriminate Hwx.
  - intros name u fs [H _]. split; [apply Fx_paramO; exact H|]. intros r _ lost f ti ei d nl Hwx. discriminate Hwx.
  - split; [apply Fx_nil|apply Kx_nil].
  - intros f [Hf Hk] fs [Hfs Hks]. split; [apply Fx_cons; assumption|apply Hk, Hks].
  - apply Ix_nil.
  - intros v Hv vs Hvs. apply Ix_cons; assumption.
Qed.

Definition w_end_x (d : doc) : wr := if fields_empty d then wr_init else mkwr DObject [] WKey true (mm (da_fields false d)).

(* write_tape over the tape of a document of the class = its chunks, for EVERY configuration *)
Theorem write_tape_chunks_x c d : wx_fields d = true -> okd_fields false false d = true ->
  write_tape (tape_fuel (flatten d)) c (flatten d) = WOk (w_end_x d) (cbytes (chunks_x c d)).
Proof.
  intros Hwx Hok. unfold write_tape, flatten, tape_fuel. rewrite flat_fields_len.
  destruct (write_all_x c (flat_fields false 0 d)) as [_ [_ [HF _]]]. destruct (HF d) as [HF' _].
  pose proof (HF' false (4 * fslen false d + 16) 0 wr_init Hwx Hok (seg_self _)) as E. cbn [Nat.add] in E.
  rewrite E; [reflexivity|lia|]. repeat split; auto.
Qed.
