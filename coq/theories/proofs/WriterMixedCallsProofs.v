(* C15 (wave 4): the call fragment of WriterCallsLayoutProofs.v extended with MIXED MODE --
   start_mixed_mode / write_binary(MixedContainer) followed by key, operator, value triples -- for the
   key-value lists the document grammar of C01 admits (scalar values; container values inside such a
   list are the known findings calls-mixed-nested-op / calls-mixed-mode-lost: the code is wrong there).

   [mcalls_of fdisp d cs] has every constructor of [calls_of] plus [mv_arr_kv]: an array opened with
   write_array_start OR write_start, its elements, the mixed-mode switch, then the triples (operator
   through write_operator, or write_binary(Equal) for `=`), then write_end.  The per-constructor lemmas
   of WriterCallsLayoutProofs.v are stated on the semantic predicates Cv / Cf / Cfs / Cis and are reused
   as they are. *)
From JV Require Import Bytes Tables TextTok TextTape TextDoc Date Writer.
From JV.proofs Require Import WriterProofs TextScanProofs TextParseProofs WriterLayoutDefs WriterLayoutProofs WriterCallsLayoutProofs.
Require Import Lia.
Open Scope nat_scope.

Section MCalls.
Variable fdisp : bool -> N -> option N -> bytes.

Definition is_mixed (k : call) : bool := match k with CMixed | CBinary BMixed => true | _ => false end.
Definition is_opcall (k : call) (o : operator) : Prop := k = COperator o \/ (o = Equal /\ k = CBinary BEqual).
Definition is_lstart (k : call) : bool := match k with CStart => true | _ => is_astart k end.

(* key, operator, scalar value -- the key-value part of a list *)
Inductive ckvs : fields -> list call -> Prop :=
| ckvs_nil : ckvs FNil []
| ckvs_cons k kd key ko o k2 kd2 s r cs :
    call_text fdisp k = Some (kd, key) -> is_opcall ko o -> call_text fdisp k2 = Some (kd2, s) -> ckvs r cs ->
    ckvs (FCons (Field kd key (Some o) (VScalar kd2 s)) r) (k :: ko :: k2 :: cs).

Inductive mv : value -> list call -> Prop :=
| mv_scalar k kd s : call_text fdisp k = Some (kd, s) -> mv (VScalar kd s) [k]
| mv_obj st en fs cs : is_ostart st = true -> is_end en = true -> mfs fs cs ->
    mv (VObject fs VNil) (st :: cs ++ [en])
| mv_arr st en items cs : is_astart st = true -> is_end en = true -> mis items cs ->
    mv (VArray items) (st :: cs ++ [en])
| mv_obj_empty st en : is_ostart st = true -> is_end en = true -> mv (VArray VNil) [st; en]
| mv_obj_unk en k kd key o v cs1 fs cs2 : is_end en = true -> call_text fdisp k = Some (kd, key) -> mv v cs1 -> mfs fs cs2 ->
    mv (VObject (FCons (Field kd key (Some o) v) fs) VNil) (CStart :: k :: COperator o :: cs1 ++ cs2 ++ [en])
| mv_arr_unk en items cs : is_end en = true -> mis items cs -> mv (VArray items) (CStart :: cs ++ [en])
| mv_hdr h v cs : is_container v = true -> mv v cs -> mv (VHeader h v) (CHeader h :: cs)
| mv_rgb k r g b a v : is_rgb k r g b a -> mv v (rgb_expand r g b a) -> mv v [k]
(* NEW: a list that turns into a key-value list *)
| mv_arr_kv st en mx v0 vs0 cs kvs kcs : is_lstart st = true -> is_end en = true -> is_mixed mx = true ->
    mis (VCons v0 vs0) cs -> ckvs kvs kcs -> kvs <> FNil ->
    mv (VArrayKv (VCons v0 vs0) kvs) (st :: cs ++ mx :: kcs ++ [en])
with mf : field -> list call -> Prop :=
| mf_field k kd key op ops v cs : call_text fdisp k = Some (kd, key) -> cop op ops -> mv v cs ->
    mf (Field kd key op v) (k :: ops ++ cs)
with mfs : fields -> list call -> Prop :=
| mfs_nil : mfs FNil []
| mfs_cons f fs a b : mf f a -> mfs fs b -> mfs (FCons f fs) (a ++ b)
with mis : values -> list call -> Prop :=
| mis_nil : mis VNil []
| mis_cons v vs a b : is_header v = false -> mv v a -> mis vs b -> mis (VCons v vs) (a ++ b).

Scheme mv_mind := Minimality for mv Sort Prop
  with mf_mind := Minimality for mf Sort Prop
  with mfs_mind := Minimality for mfs Sort Prop
  with mis_mind := Minimality for mis Sort Prop.
Combined Scheme mcalls_mutind from mv_mind, mf_mind, mfs_mind, mis_mind.

Definition mcalls_of (d : doc) (cs : list call) : Prop := mfs d cs.

(* the old fragment is included *)
Lemma calls_are_mcalls :
  (forall v cs, cv fdisp v cs -> mv v cs) /\ (forall f cs, cf fdisp f cs -> mf f cs) /\
  (forall fs cs, cfs fdisp fs cs -> mfs fs cs) /\ (forall vs cs, cis fdisp vs cs -> mis vs cs).
Proof.
  apply calls_mutind; intros; try (econstructor; eassumption).
Qed.

Variable c : cfg.

(* the writer inside the key-value part: array mode, mixed mode on; the state is ArrayValue, or still
   SecondUnknown when the list was opened with write_start and has a single element so far *)
Definition wmixs (d : list dmode) (s : wstate) (nl : bool) : wr := mkwr DArray d s nl MStarted.

Lemma step_opcall ko o w : is_opcall ko o -> Writer.step fdisp c w ko = write_operator w o.
Proof. intros [-> | [-> ->]]; reflexivity. Qed.

Lemma R_kvs kvs kcs : ckvs kvs kcs -> forall d s nl, s = WArrayValue \/ s = WSecondUnknown ->
  runw fdisp c (wmixs d s nl) kcs =
  WOk (if fields_empty kvs then wmixs d s nl else wmix d false)
      (cbytes (ch_kvs c (length d) (pre_bytes c (wmixs d s nl)) kvs)).
Proof.
  induction 1 as [|k kd key ko o k2 kd2 sv r cs Hk Ho Hk2 _ IH]; intros d s nl Hs.
  - reflexivity.
  - cbn [runw fields_empty]. rewrite (step_scalar fdisp c _ _ _ _ Hk).
    set (wa := epi_state (pre_state (wmixs d s nl))).
    assert (Ea : wa = wmix d false) by (unfold wa; destruct Hs as [-> | ->]; destruct nl; reflexivity).
    erewrite wbind_ok.
    2:{ rewrite (step_opcall _ _ _ Ho), Ea.
        assert (Hw : write_operator (wmix d false) o = WOk (set_mixed (wmix d false) MKeyed) (op_symbol o)) by reflexivity.
        rewrite Hw. erewrite wbind_ok; [reflexivity|].
        rewrite (step_scalar fdisp c _ _ _ _ Hk2).
        change (epi_state (pre_state (set_mixed (wmix d false) MKeyed))) with (wmixs d WArrayValue false).
        erewrite wbind_ok; [reflexivity|]. apply (IH d WArrayValue false). left; reflexivity. }
    replace (if fields_empty r then wmixs d WArrayValue false else wmix d false) with (wmix d false) by (destruct r; reflexivity).
    (* both sides are the same list up to re-association by computation on the concrete prefixes *)
    f_equal.
Qed.

(* the state after the elements of a list opened with write_array_start or write_start *)
Lemma ipost_list w v vs : w_mode w = DArray -> astate (w_state w) ->
  exists s, (s = WArrayValue \/ s = WSecondUnknown) /\
            ipost w (VCons v vs) = mkwr DArray (w_depth w) s (items_nl (ends_nl v) vs) MDisabled.
Proof.
  revert w v. induction vs as [|v2 vs IH]; intros w v Hm Hs.
  - cbn [ipost items_nl]. unfold vpost. rewrite Hm. destruct (ends_nl v).
    + exists WArrayValue. split; [left|]; reflexivity.
    + destruct Hs as [-> | [-> | [-> | ->]]]; cbn.
      * exists WArrayValue. split; [left|]; reflexivity.
      * exists WArrayValue. split; [left|]; reflexivity.
      * exists WSecondUnknown. split; [right|]; reflexivity.
      * exists WArrayValue. split; [left|]; reflexivity.
  - change (ipost w (VCons v (VCons v2 vs))) with (ipost (vpost w v) (VCons v2 vs)).
    destruct (IH (vpost w v) v2) as [s [Hs' E]].
    + unfold vpost; cbn; exact Hm.
    + unfold vpost. cbn. rewrite Hm. destruct (ends_nl v); [left; reflexivity|].
      destruct Hs as [-> | [-> | [-> | ->]]]; cbn; unfold astate; auto.
    + exists s. split; [exact Hs'|]. rewrite E. reflexivity.
Qed.

Lemma step_mixed mx w : is_mixed mx = true -> Writer.step fdisp c w mx = start_mixed_mode w.
Proof. destruct mx as [| | | | | | | | | | | | | | | | | | | | |t]; try discriminate; [reflexivity|]. destruct t; try discriminate. reflexivity. Qed.

Lemma step_lstart st w : is_lstart st = true ->
  exists s, (s = WArrayValueFirst \/ s = WFirstUnknown) /\
            Writer.step fdisp c w st = WOk (start_state w DArray s) ((pre_bytes c w ++ [LBRACE]) ++ []).
Proof.
  intros H. destruct st as [| | | | | | | | | | | | | | | | | | | | |t]; try discriminate H.
  - exists WFirstUnknown. split; [right; reflexivity|]. cbn [Writer.step]. rewrite write_start_shape, app_nil_r. reflexivity.
  - exists WArrayValueFirst. split; [left; reflexivity|]. cbn [Writer.step]. apply write_array_start_shape.
  - destruct t; try discriminate H. exists WArrayValueFirst. split; [left; reflexivity|].
    cbn [Writer.step write_binary]. apply write_array_start_shape.
Qed.

Lemma C_arr_kv st en mx v0 vs0 cs kvs kcs : is_lstart st = true -> is_end en = true -> is_mixed mx = true ->
  Cis fdisp c (VCons v0 vs0) cs -> ckvs kvs kcs -> kvs <> FNil ->
  Cv fdisp c (VArrayKv (VCons v0 vs0) kvs) (st :: cs ++ mx :: kcs ++ [en]).
Proof.
  intros Hst Hen Hmx HI HK Hne w Hp _. cbn [runw].
  destruct (step_lstart st w Hst) as [s0 [Hs0 E0]]. rewrite E0, (start_state_vpos _ _ _ Hp).
  set (w1 := mkwr DArray (w_mode w :: w_depth w) s0 true MDisabled).
  assert (Hp1 : ipos w1) by (repeat split; unfold astate; cbn; destruct Hs0 as [-> | ->]; auto).
  destruct (ipost_list w1 v0 vs0 eq_refl) as [s [Hs E]]; [destruct Hs0 as [-> | ->]; unfold astate; cbn; auto|].
  erewrite wbind_ok.
  2:{ rewrite runw_app, (HI w1 Hp1), E. erewrite wbind_ok; [reflexivity|].
      cbn [runw]. rewrite (step_mixed _ _ Hmx). unfold start_mixed_mode, emit.
      change (set_mixed (set_mode (mkwr DArray (w_depth w1) s (items_nl (ends_nl v0) vs0) MDisabled) DArray) MStarted)
        with (wmixs (w_depth w1) s (items_nl (ends_nl v0) vs0)).
      erewrite wbind_ok; [reflexivity|].
      rewrite runw_app, (R_kvs kvs kcs HK _ _ _ Hs).
      erewrite wbind_ok; [reflexivity|].
      destruct kvs as [|f0 r0]; [congruence|]. cbn [fields_empty].
      apply (runw_end fdisp c en (wmix (w_depth w1) false) (w_mode w) (w_depth w) Hen). reflexivity. }
  f_equal; [unfold vpost; destruct (w_mode w); reflexivity|].
  cbn [ch_value]. rewrite cbytes_cons, !cbytes_app, cbytes_cons. change (cbytes []) with (@nil N).
  cbn [lbrace rbrace fst]. rewrite !app_nil_r, <- !app_assoc. f_equal. f_equal.
  change (dep w1) with (S (dep w)).
  replace (pre_bytes c w1) with (nli c (S (dep w))) by (destruct Hs0 as [-> | ->]; reflexivity).
  f_equal.
  change (length (w_depth w1)) with (S (dep w)).
  replace (pre_bytes c (wmixs (w_depth w1) s (items_nl (ends_nl v0) vs0))) with (sepgap c (S (dep w)) (items_nl true (VCons v0 vs0)))
    by (cbn [items_nl]; destruct Hs as [-> | ->]; destruct (items_nl (ends_nl v0) vs0); reflexivity).
  reflexivity.
Qed.

Lemma mcalls_all :
  (forall v cs, mv v cs -> Cv fdisp c v cs) /\ (forall f cs, mf f cs -> Cf fdisp c f cs) /\
  (forall fs cs, mfs fs cs -> Cfs fdisp c fs cs) /\ (forall vs cs, mis vs cs -> Cis fdisp c vs cs).
Proof.
  apply mcalls_mutind.
  - intros k kd s H. apply C_scalar, H.
  - intros st en fs cs Hst Hen _ H. apply C_obj; assumption.
  - intros st en items cs Hst Hen _ H. apply C_arr; assumption.
  - intros st en Hst Hen. apply C_obj_empty; assumption.
  - intros en k kd key o v cs1 fs cs2 Hen Hk _ HV _ HF. apply C_obj_unk; assumption.
  - intros en items cs Hen _ H. apply C_arr_unk; assumption.
  - intros h v cs Hc _ H. apply C_hdr; assumption.
  - intros k r g b a v Hk _ H. apply (C_rgb fdisp c k r g b a); assumption.
  - intros st en mx v0 vs0 cs kvs kcs Hst Hen Hmx _ HI HK Hne. apply C_arr_kv; assumption.
  - intros k kd key op ops v cs Hk Hop _ H. apply C_field; assumption.
  - intros w _. reflexivity.
  - intros f fs a b _ Hf _ Hfs. apply C_fs_cons; assumption.
  - intros w _. reflexivity.
  - intros v vs a b Hh _ Hv _ Hvs. apply C_is_cons; assumption.
Qed.

Lemma mcalls_rt :
  (forall v cs, mv v cs -> rt_value v = true) /\ (forall f cs, mf f cs -> rt_field f = true) /\
  (forall fs cs, mfs fs cs -> rt_fields fs = true) /\ (forall vs cs, mis vs cs -> rt_values vs = true).
Proof.
  apply mcalls_mutind; intros; cbn [rt_value rt_field rt_fields rt_values]; auto;
    repeat match goal with H : _ = true |- _ => rewrite H end; reflexivity.
Qed.

Theorem mcalls_chunks d cs : mcalls_of d cs -> runw fdisp c wr_init cs = WOk (w_end d) (cbytes (chunks_w c d)).
Proof.
  intros H. destruct mcalls_all as [_ [_ [HF _]]]. apply (HF d cs H wr_init). repeat split; auto.
Qed.

Theorem mcalls_parse_back d cs : mcalls_of d cs -> wf_doc d -> nobom d = true -> cfg_ok c ->
  exists log, Writer.run fdisp c cs = Ok (render (norm_fields d) (layout_w c d), log) /\
    Forall (fun e => fst e = false) log /\ last (map snd log) wr_init = w_end d /\
    parse (render (norm_fields d) (layout_w c d)) = Ok (flatten d, false).
Proof.
  intros H Hwf Hnb Hc.
  assert (Hr : rt d) by (split; [exact Hwf|split; [apply (proj1 (proj2 (proj2 mcalls_rt)) d cs H)|exact Hnb]]).
  destruct (runw_run fdisp c _ _ _ _ (mcalls_chunks d cs H)) as [log [R [F L]]].
  exists log. rewrite (render_layout_w c d Hr). repeat split; try assumption.
  rewrite <- (render_layout_w c d Hr).
  rewrite (parse_render (norm_fields d) (layout_w c d)); [rewrite flatten_norm; reflexivity|apply norm_wf, Hwf|apply layout_w_wf; assumption].
Qed.
End MCalls.
