(* C11, the "within 2 ulp" clause of to_f64 and the assembled specification.
   The fractional branch computes  sign * RNE(RNE(i) / 10^k)  (ScalarF64Proofs.frac_value_spec): two roundings
   to nearest.  With t = i / 10^k the exact decimal value:
     first rounding   |RNE(i) - i| <= 2^-53 * i          (relative_error_N_FLT, i is 0 or >= 1: no underflow)
     after division   |q - t| <= 2^-53 * t < ulp(t)        (q = RNE(i)/10^k, ulp_FLT_gt)
     second rounding  |RNE(q) - q| <= ulp(q)/2 <= ulp(t)   (error_le_half_ulp; q < 2t so q is at most one binade up)
   hence |r - t| < 2 ulp(t), ulp taken AT THE EXACT VALUE t in binary64 (FLT_exp (-1074) 53);
   and the relative form |r - t| <= |t| * (2^-52 + 2^-106).
   Both hold for every digit integer i < 2^64 (below 2^53 the first rounding is exact and r = RNE(t)). *)
From Coq Require Import ZArith NArith Reals Lia Lra Psatz List Bool.
From Flocq Require Import Core.Core Relative IEEE754.BinarySingleNaN IEEE754.Binary IEEE754.Bits.
From JV Require Import Bytes Tables Scalar ScalarF64.
From JV.proofs Require Import ScalarProofs ScalarF64Proofs.
Import ListNotations.

Local Instance prec53_gt_0' : Prec_gt_0 53 := eq_refl.
Local Instance fexp64_valid' : Valid_exp fexp64 := FLT_exp_valid (3 - 1024 - 53) 53.

Notation ulp64 := (ulp radix2 fexp64).

Open Scope R_scope.

(* ================================================================== *)
(* Part A: two roundings to nearest, on the reals                      *)
(* ================================================================== *)

Lemma bpow_m53 : bpow radix2 (-53) = / 2 * bpow radix2 (-53 + 1).
Proof.
  replace (-53 + 1)%Z with (1 + -53)%Z by reflexivity. rewrite bpow_plus.
  change (bpow radix2 1) with 2. field.
Qed.

Lemma bpow_m52 : bpow radix2 (-52) = 2 * bpow radix2 (-53).
Proof. replace (-52)%Z with (1 + -53)%Z by reflexivity. rewrite bpow_plus. reflexivity. Qed.

Lemma bpow_m106 : bpow radix2 (-106) = bpow radix2 (-53) * bpow radix2 (-53).
Proof. rewrite <- bpow_plus. reflexivity. Qed.

Lemma bpow74 : bpow radix2 74 = IZR (2 ^ 74).
Proof. rewrite <- (IZR_Zpower radix2 74) by lia. reflexivity. Qed.

Lemma format_one : generic_format radix2 fexp64 1.
Proof. apply (format_small 1). reflexivity. Qed.

(* relative error of one rounding, for a real that is 0 or at least 2^-1022 *)
Lemma rel_err_rnd64 x :
  bpow radix2 (-1022) <= Rabs x -> Rabs (rnd64 x - x) <= bpow radix2 (-53) * Rabs x.
Proof.
  intros Hx. rewrite bpow_m53. cbn [round_mode].
  apply (relative_error_N_FLT radix2 (3 - 1024 - 53) 53 prec53_gt_0' (fun z => negb (Z.even z)) x).
  exact Hx.
Qed.

Section TwoRoundings.
Variables x y : R.
Hypothesis Hx1 : 1 <= x.
Hypothesis Hy1 : 1 <= y.
Hypothesis Hy22 : y <= IZR (10 ^ 22).

Let u := bpow radix2 (-53).
Let t := x / y.
Let a := rnd64 x.
Let q := a / y.
Let r := rnd64 q.

Lemma tr_u_pos : 0 < u.
Proof. apply bpow_gt_0. Qed.

Lemma tr_u_small : u <= / 2.
Proof. unfold u. change (/ 2) with (bpow radix2 (-1)). apply bpow_le. lia. Qed.

Lemma tr_t_pos : 0 < t.
Proof. unfold t. apply Rdiv_lt_0_compat; lra. Qed.

Lemma tr_a_ge1 : 1 <= a.
Proof. unfold a. apply round_ge_generic; auto with typeclass_instances. apply format_one. Qed.

Lemma tr_q_pos : 0 < q.
Proof. unfold q. pose proof tr_a_ge1. apply Rdiv_lt_0_compat; lra. Qed.

Lemma tr_low : bpow radix2 (-1022) <= 1.
Proof. change 1 with (bpow radix2 0). apply bpow_le. lia. Qed.

(* first rounding, relative *)
Lemma tr_a_err : Rabs (a - x) <= u * x.
Proof.
  unfold a, u. rewrite <- (Rabs_pos_eq x) at 3 by lra. apply rel_err_rnd64.
  rewrite Rabs_pos_eq by lra. pose proof tr_low. lra.
Qed.

(* ... propagated through the exact division *)
Lemma tr_q_err : Rabs (q - t) <= u * t.
Proof.
  unfold q, t. replace (a / y - x / y) with ((a - x) * / y) by (field; lra).
  rewrite Rabs_mult, (Rabs_pos_eq (/ y)) by (left; apply Rinv_0_lt_compat; lra).
  replace (u * (x / y)) with (u * x * / y) by (field; lra).
  apply Rmult_le_compat_r; [left; apply Rinv_0_lt_compat; lra|apply tr_a_err].
Qed.

Lemma tr_q_le : q <= t * (1 + u).
Proof. pose proof tr_q_err as H. apply Rabs_le_inv in H. lra. Qed.

(* the quotient is far above the subnormal range *)
Lemma tr_q_normal : bpow radix2 (-1022) <= Rabs q.
Proof.
  rewrite Rabs_pos_eq by (left; apply tr_q_pos).
  apply Rle_trans with (bpow radix2 (-74)); [apply bpow_le; lia|].
  replace (bpow radix2 (-74)) with (/ bpow radix2 74) by (symmetry; apply (bpow_opp radix2 74)).
  rewrite bpow74. unfold q. pose proof tr_a_ge1 as Ha.
  apply Rle_trans with (/ y).
  - apply Rinv_le_contravar; [lra|]. apply Rle_trans with (1 := Hy22). apply IZR_le. vm_compute. discriminate.
  - unfold Rdiv. rewrite <- (Rmult_1_l (/ y)) at 1. apply Rmult_le_compat_r; [left; apply Rinv_0_lt_compat; lra|exact Ha].
Qed.

(* second rounding, relative *)
Lemma tr_r_err_rel : Rabs (r - q) <= u * q.
Proof.
  unfold r, u. rewrite <- (Rabs_pos_eq q) at 3 by (left; apply tr_q_pos).
  apply rel_err_rnd64. apply tr_q_normal.
Qed.

(* relative bound: (1+u)^2 - 1 = 2u + u^2 *)
Lemma tr_rel : Rabs (r - t) <= t * (bpow radix2 (-52) + bpow radix2 (-106)).
Proof.
  rewrite bpow_m52, bpow_m106. fold u.
  replace (r - t) with ((r - q) + (q - t)) by ring.
  eapply Rle_trans; [apply Rabs_triang|].
  pose proof tr_r_err_rel as H1. pose proof tr_q_err as H2. pose proof tr_q_le as H3.
  pose proof tr_u_pos as Hu. pose proof tr_t_pos as Ht.
  assert (u * q <= u * (t * (1 + u))) by (apply Rmult_le_compat_l; lra).
  lra.
Qed.

(* q is at most one binade above t *)
Lemma tr_ulp_q : ulp64 q <= 2 * ulp64 t.
Proof.
  pose proof tr_q_pos as Hq. pose proof tr_t_pos as Ht. pose proof tr_q_le as Hle.
  pose proof tr_u_small as Hu. pose proof tr_u_pos as Hu0.
  assert (Hq2 : q < 2 * t) by nra.
  rewrite 2!ulp_neq_0 by lra. unfold cexp.
  assert (Hm : (mag radix2 q <= mag radix2 t + 1)%Z).
  { apply mag_le_bpow; [lra|]. rewrite Rabs_pos_eq by lra.
    rewrite bpow_plus. change (bpow radix2 1) with 2.
    pose proof (bpow_mag_gt radix2 t) as H. rewrite Rabs_pos_eq in H by lra. lra. }
  change 2 with (bpow radix2 1) at 1. rewrite <- bpow_plus. apply bpow_le.
  unfold FLT_exp. lia.
Qed.

(* the 2 ulp bound, ulp at the exact value t; strict *)
Lemma tr_2ulp : Rabs (r - t) < 2 * ulp64 t.
Proof.
  replace (r - t) with ((r - q) + (q - t)) by ring.
  eapply Rle_lt_trans; [apply Rabs_triang|].
  assert (H1 : Rabs (r - q) <= / 2 * ulp64 q).
  { unfold r. cbn [round_mode]. apply error_le_half_ulp; auto with typeclass_instances. }
  pose proof tr_ulp_q as H2. pose proof tr_q_err as H3.
  pose proof (ulp_FLT_gt radix2 (3 - 1024 - 53) 53 t) as H4.
  rewrite Rabs_pos_eq in H4 by (left; apply tr_t_pos). change (bpow radix2 (- (53))) with u in H4.
  lra.
Qed.

End TwoRoundings.

(* all x that are 0 or >= 1 (every natural number), 1 <= y <= 10^22 *)
Lemma two_roundings x y :
  x = 0 \/ 1 <= x -> 1 <= y -> y <= IZR (10 ^ 22) ->
  Rabs (rnd64 (rnd64 x / y) - x / y) < 2 * ulp64 (x / y) /\
  Rabs (rnd64 (rnd64 x / y) - x / y) <= Rabs (x / y) * (bpow radix2 (-52) + bpow radix2 (-106)).
Proof.
  intros [->|Hx] Hy Hy2.
  - rewrite round_0 by auto with typeclass_instances.
    unfold Rdiv at 1 2 4 5. rewrite !Rmult_0_l, round_0 by auto with typeclass_instances.
    unfold Rdiv. rewrite Rmult_0_l, Rminus_0_r, Rabs_R0. split.
    + rewrite ulp_FLT_0 by exact prec53_gt_0'. pose proof (bpow_gt_0 radix2 (3 - 1024 - 53)). lra.
    + lra.
  - split.
    + apply tr_2ulp; assumption.
    + rewrite (Rabs_pos_eq (x / y)) by (left; apply Rdiv_lt_0_compat; lra). apply tr_rel; assumption.
Qed.

(* ================================================================== *)
(* Part B: frac_value                                                  *)
(* ================================================================== *)

(* the exact decimal value  +-i / 10^k *)
Definition decimal_value (neg : bool) (i k : N) : R :=
  (if neg then -1 else 1) * IZR (Z.of_N i) / IZR (10 ^ Z.of_N k).

Lemma pow10_le22 k : (k <= 22)%N -> IZR (10 ^ Z.of_N k) <= IZR (10 ^ 22).
Proof. intros Hk. apply IZR_le. apply Z.pow_le_mono_r; lia. Qed.

Lemma nat_zero_or_ge1 i : IZR (Z.of_N i) = 0 \/ 1 <= IZR (Z.of_N i).
Proof.
  destruct (N.eq_dec i 0) as [->|Hi]; [left; reflexivity|right].
  apply IZR_le. lia.
Qed.

Theorem frac_value_2ulp neg i k :
  (i < U64_LIM)%N -> (k <= 22)%N ->
  Rabs (B2R64 (frac_value neg i k) - decimal_value neg i k) < 2 * ulp64 (decimal_value neg i k) /\
  Rabs (B2R64 (frac_value neg i k) - decimal_value neg i k) <=
    Rabs (decimal_value neg i k) * (bpow radix2 (-52) + bpow radix2 (-106)).
Proof.
  intros Hi Hk. destruct (frac_value_spec neg i k Hi Hk) as (_ & ->).
  destruct (two_roundings (IZR (Z.of_N i)) (IZR (10 ^ Z.of_N k)) (nat_zero_or_ge1 i) (pow10_ge1 k) (pow10_le22 k Hk))
    as [H1 H2].
  unfold decimal_value.
  set (x := IZR (Z.of_N i)) in *. set (y := IZR (10 ^ Z.of_N k)) in *.
  set (r := rnd64 (rnd64 x / y)) in *.
  destruct neg.
  - replace (-1 * r - -1 * x / y) with (- (r - x / y)) by (unfold Rdiv; ring).
    replace (-1 * x / y) with (- (x / y)) by (unfold Rdiv; ring).
    rewrite !Rabs_Ropp, ulp_opp. split; assumption.
  - replace (1 * r - 1 * x / y) with (r - x / y) by (unfold Rdiv; ring).
    replace (1 * x / y) with (x / y) by (unfold Rdiv; ring).
    split; assumption.
Qed.

Theorem frac_value_correctly_rounded' neg i k :
  (i < 2 ^ 53)%N -> (k <= 22)%N -> B2R64 (frac_value neg i k) = rnd64 (decimal_value neg i k).
Proof. exact (frac_value_correctly_rounded neg i k). Qed.

Close Scope R_scope.
Open Scope N_scope.

(* ================================================================== *)
(* Part C: the decimal reading of an accepted string, and the spec     *)
(* ================================================================== *)

(* d reads as  (sign, digit integer i, number k of fractional digits): the three accepted shapes.
   The digit integer is the decimal value of ALL digits (before and after the '.'), a leading '+' counts 0. *)
Inductive f64_decimal : bytes -> bool -> N -> N -> Prop :=
| DecInt neg c ds : lead_ok c -> all_digits ds = true ->
    f64_decimal (sgn neg ++ c :: ds) neg (dec_acc ds (lead_val c)) 0
| DecFrac neg c ds fs : lead_ok c -> all_digits ds = true -> all_digits fs = true -> fs <> [] ->
    f64_decimal (sgn neg ++ c :: ds ++ 46 :: fs) neg (dec_acc fs (dec_acc ds (lead_val c))) (N.of_nat (length fs))
| DecDot neg fs : all_digits fs = true -> fs <> [] ->
    f64_decimal (sgn neg ++ 46 :: fs) neg (dec fs) (N.of_nat (length fs)).

Lemma f64_shape_decimal d : f64_shape d -> exists neg i k, f64_decimal d neg i k.
Proof.
  intros [neg c ds -> Hc Hd|neg c ds fs -> Hc Hd Hf Hne|neg fs -> Hf Hne]; do 3 eexists;
    [eapply DecInt|eapply DecFrac|eapply DecDot]; eassumption.
Qed.

(* what the conversion does on a string with a decimal reading *)
Definition f64_accepts (i k : N) : Prop := if k =? 0 then i <= f64_int_guard else i < U64_LIM /\ k <= 22.

Lemma decimal_int_value neg i : decimal_value neg i 0 = IZR (if neg then - Z.of_N i else Z.of_N i)%Z.
Proof.
  unfold decimal_value. change (10 ^ Z.of_N 0)%Z with 1%Z. destruct neg.
  - rewrite opp_IZR. unfold Rdiv. rewrite Rinv_1. ring.
  - unfold Rdiv. rewrite Rinv_1. ring.
Qed.

Lemma to_f64_decimal d neg i k r :
  f64_decimal d neg i k -> to_f64 d = Ok r ->
  f64_accepts i k /\
  r = (if k =? 0 then f64_of_Z (if neg then - Z.of_N i else Z.of_N i)%Z else frac_value neg i k).
Proof.
  intros Hdec H. destruct Hdec as [neg c ds Hc Hd|neg c ds fs Hc Hd Hf Hne|neg fs Hf Hne].
  - destruct (to_f64_int_guard neg c ds r Hc Hd) as [Hiff _]. apply Hiff in H as [Hl ->].
    unfold f64_accepts. cbn [N.eqb]. split; [exact Hl|reflexivity].
  - rewrite to_f64_frac in H by assumption.
    destruct (dec_acc fs (dec_acc ds (lead_val c)) <? U64_LIM) eqn:E; [|discriminate].
    destruct (length fs <? 23)%nat eqn:Ek; [|discriminate]. injection H as <-.
    apply N.ltb_lt in E. apply Nat.ltb_lt in Ek.
    assert (Hk : N.of_nat (length fs) =? 0 = false) by (apply N.eqb_neq; destruct fs; [congruence|cbn [length]; lia]).
    unfold f64_accepts. rewrite Hk. split; [split; [exact E|lia]|reflexivity].
  - rewrite to_f64_dot in H by assumption.
    destruct (dec fs <? U64_LIM) eqn:E; [|discriminate].
    destruct (length fs <? 23)%nat eqn:Ek; [|discriminate]. injection H as <-.
    apply N.ltb_lt in E. apply Nat.ltb_lt in Ek.
    assert (Hk : N.of_nat (length fs) =? 0 = false) by (apply N.eqb_neq; destruct fs; [congruence|cbn [length]; lia]).
    unfold f64_accepts. rewrite Hk. split; [split; [exact E|lia]|reflexivity].
Qed.

Lemma to_f64_decimal_conv d neg i k :
  f64_decimal d neg i k -> f64_accepts i k -> exists r, to_f64 d = Ok r.
Proof.
  intros Hdec Ha. destruct Hdec as [neg c ds Hc Hd|neg c ds fs Hc Hd Hf Hne|neg fs Hf Hne].
  - unfold f64_accepts in Ha. cbn [N.eqb] in Ha.
    destruct (to_f64_int_guard neg c ds (f64_of_Z (if neg then - Z.of_N (dec_acc ds (lead_val c)) else Z.of_N (dec_acc ds (lead_val c)))%Z) Hc Hd) as [Hiff _].
    eexists. apply Hiff. split; [exact Ha|reflexivity].
  - assert (Hk : N.of_nat (length fs) =? 0 = false) by (apply N.eqb_neq; destruct fs; [congruence|cbn [length]; lia]).
    unfold f64_accepts in Ha. rewrite Hk in Ha. destruct Ha as [Hi Hk22].
    rewrite to_f64_frac by assumption. apply N.ltb_lt in Hi. rewrite Hi.
    replace (length fs <? 23)%nat with true by (symmetry; apply Nat.ltb_lt; lia). eexists; reflexivity.
  - assert (Hk : N.of_nat (length fs) =? 0 = false) by (apply N.eqb_neq; destruct fs; [congruence|cbn [length]; lia]).
    unfold f64_accepts in Ha. rewrite Hk in Ha. destruct Ha as [Hi Hk22].
    rewrite to_f64_dot by assumption. apply N.ltb_lt in Hi. rewrite Hi.
    replace (length fs <? 23)%nat with true by (symmetry; apply Nat.ltb_lt; lia). eexists; reflexivity.
Qed.

(* the numeric clauses, for a string with decimal reading (neg, i, k) that converts to r *)
Definition f64_numeric_spec (neg : bool) (i k : N) (r : binary64) : Prop :=
  is_finite 53 1024 r = true /\
  (i < 2 ^ 53 -> B2R64 r = rnd64 (decimal_value neg i k)) /\
  (k = 0 -> B2R64 r = decimal_value neg i k) /\
  (Rabs (B2R64 r - decimal_value neg i k) < 2 * ulp64 (decimal_value neg i k))%R /\
  (Rabs (B2R64 r - decimal_value neg i k) <=
     Rabs (decimal_value neg i k) * (bpow radix2 (-52) + bpow radix2 (-106)))%R.

Lemma ulp64_pos x : (0 < ulp64 x)%R.
Proof.
  destruct (Req_dec x 0) as [->|Hx].
  - rewrite ulp_FLT_0 by exact prec53_gt_0'. apply bpow_gt_0.
  - rewrite ulp_neq_0 by assumption. apply bpow_gt_0.
Qed.

Theorem to_f64_numeric d neg i k r :
  f64_decimal d neg i k -> to_f64 d = Ok r -> f64_accepts i k /\ f64_numeric_spec neg i k r.
Proof.
  intros Hdec H. destruct (to_f64_decimal d neg i k r Hdec H) as [Ha Hr]. split; [exact Ha|].
  unfold f64_accepts in Ha. destruct (k =? 0) eqn:Ek.
  - apply N.eqb_eq in Ek. subst k r.
    set (v := (if neg then - Z.of_N i else Z.of_N i)%Z).
    assert (Hv : (Z.abs v <= F64_GUARD)%Z) by (unfold F64_GUARD, v; destruct neg; lia).
    destruct (int_value_exact v Hv) as [Hval Hfin].
    assert (Hfmt : generic_format radix2 fexp64 (IZR v)).
    { apply format_small. change F64_GUARD with 9007199254740991%Z in Hv.
      change (2 ^ 53)%Z with 9007199254740992%Z. lia. }
    unfold f64_numeric_spec. rewrite decimal_int_value. fold v. rewrite Hval.
    repeat split.
    + exact Hfin.
    + intros _. symmetry. apply round_generic; auto with typeclass_instances.
    + replace (IZR v - IZR v)%R with 0%R by ring. rewrite Rabs_R0.
      pose proof (ulp64_pos (IZR v)). lra.
    + replace (IZR v - IZR v)%R with 0%R by ring. rewrite Rabs_R0.
      apply Rmult_le_pos; [apply Rabs_pos|].
      pose proof (bpow_gt_0 radix2 (-52)). pose proof (bpow_gt_0 radix2 (-106)). lra.
  - apply N.eqb_neq in Ek. destruct Ha as [Hi Hk]. subst r.
    destruct (frac_value_2ulp neg i k Hi Hk) as [H2 Hrel].
    unfold f64_numeric_spec. repeat split.
    + apply frac_value_finite; assumption.
    + intros Hs. apply frac_value_correctly_rounded; assumption.
    + intros ->. congruence.
    + exact H2.
    + exact Hrel.
Qed.

(* to_f64 never crashes: the outcome is Ok or Err *)
Definition ok_or_err {A} (o : outcome A) : Prop := match o with Ok _ | Err _ => True | _ => False end.

Lemma overflow_mul_add_total acc dg : ok_or_err (overflow_mul_add acc dg).
Proof. unfold overflow_mul_add. cbv zeta. destruct (_ || _); exact I. Qed.

Lemma to_u64_t2_total d : forall acc, ok_or_err (to_u64_t2 d acc).
Proof.
  induction d as [|x d IH]; intros acc; cbn [to_u64_t2]; [exact I|].
  destruct (is_digit x); [|exact I].
  pose proof (overflow_mul_add_total acc (x - 48)) as H.
  destruct (overflow_mul_add acc (x - 48)); try contradiction; [apply IH|exact I].
Qed.

Lemma to_u64_t_total d acc : ok_or_err (to_u64_t d acc).
Proof.
  unfold to_u64_t. pose proof (to_u64_t2_total d acc) as H.
  destruct (to_u64_t2 d acc) as [[v rest]| | | |]; try contradiction; cbn [obind]; [|exact I].
  destruct (beqb rest d); exact I.
Qed.

Lemma int_result_total neg lead : ok_or_err (int_result neg lead).
Proof.
  unfold int_result. destruct neg.
  - destruct (lead <=? I64_MAX); [|exact I]. cbv zeta. destruct (_ || _); exact I.
  - destruct (_ <? _)%Z; exact I.
Qed.

Lemma frac_result_total neg lead rest1 : ok_or_err (frac_result neg lead rest1).
Proof.
  unfold frac_result. pose proof (to_u64_t_total rest1 lead) as H.
  destruct (to_u64_t rest1 lead) as [[i rest2]| | | |]; try contradiction; cbn [obind]; [|exact I].
  destruct rest2; [|exact I]. destruct (nth_error _ _); exact I.
Qed.

Lemma after_lead_total neg lr : ok_or_err lr -> ok_or_err (after_lead neg lr).
Proof.
  intros H. unfold after_lead. destruct lr as [[lead rest0]| | | |]; try contradiction; cbn [obind]; [|exact I].
  destruct rest0 as [|x rest1]; [apply int_result_total|].
  destruct (x =? 46); [apply frac_result_total|exact I].
Qed.

Lemma f64_body_total neg c data : ok_or_err (f64_body neg c data).
Proof.
  unfold f64_body. apply after_lead_total.
  destruct (is_digit c); [apply to_u64_t2_total|].
  destruct (c =? 46); [exact I|]. destruct (c =? 43); [apply to_u64_t2_total|exact I].
Qed.

Theorem to_f64_total d : ok_or_err (to_f64 d).
Proof.
  destruct d as [|c0 data0]; [exact I|]. rewrite to_f64_unfold.
  destruct (c0 =? 45); [destruct data0; [exact I|]|]; apply f64_body_total.
Qed.

(* the property's to_f64 sentence, for every byte string *)
Theorem to_f64_spec d :
  (exists e, to_f64 d = Err e) \/
  (exists r neg i k, to_f64 d = Ok r /\ f64_decimal d neg i k /\ f64_accepts i k /\ f64_numeric_spec neg i k r).
Proof.
  pose proof (to_f64_total d) as Ht.
  destruct (to_f64 d) as [r|e| | |] eqn:E; try contradiction.
  - right. destruct (f64_shape_decimal d (to_f64_lang d r E)) as (neg & i & k & Hdec).
    destruct (to_f64_numeric d neg i k r Hdec E) as [Ha Hn].
    exists r, neg, i, k. auto.
  - left. now exists e.
Qed.

(* ================================================================== *)
(* Part D: monotonicity                                                *)
(* ================================================================== *)

(* the value of an accepted string:  sign * G i k  *)
Definition f64_mag (i k : N) : R :=
  if k =? 0 then IZR (Z.of_N i) else rnd64 (rnd64 (IZR (Z.of_N i)) / IZR (10 ^ Z.of_N k)).

Lemma to_f64_value d neg i k r :
  f64_decimal d neg i k -> to_f64 d = Ok r -> B2R64 r = ((if neg then -1 else 1) * f64_mag i k)%R.
Proof.
  intros Hdec H. destruct (to_f64_decimal d neg i k r Hdec H) as [Ha ->].
  unfold f64_accepts, f64_mag in *. destruct (k =? 0).
  - set (v := (if neg then - Z.of_N i else Z.of_N i)%Z).
    assert (Hv : (Z.abs v <= F64_GUARD)%Z) by (unfold F64_GUARD, v; destruct neg; lia).
    rewrite (proj1 (int_value_exact v Hv)). unfold v. destruct neg; [rewrite opp_IZR|]; ring.
  - destruct Ha as [Hi Hk]. exact (proj2 (frac_value_spec neg i k Hi Hk)).
Qed.

Lemma f64_mag_mono i i' k : i <= i' -> (f64_mag i k <= f64_mag i' k)%R.
Proof.
  intros H. assert (Hz : (IZR (Z.of_N i) <= IZR (Z.of_N i'))%R) by (apply IZR_le; lia).
  unfold f64_mag. destruct (k =? 0); [exact Hz|].
  apply round_le; auto with typeclass_instances.
  pose proof (pow10_ge1 k) as Hy. unfold Rdiv. apply Rmult_le_compat_r; [left; apply Rinv_0_lt_compat; lra|].
  apply round_le; auto with typeclass_instances.
Qed.

Lemma f64_mag_0 k : f64_mag 0 k = 0%R.
Proof.
  unfold f64_mag. destruct (k =? 0); [reflexivity|]. cbn [Z.of_N].
  rewrite round_0 by auto with typeclass_instances. unfold Rdiv. rewrite Rmult_0_l.
  apply round_0; auto with typeclass_instances.
Qed.

Lemma f64_mag_nonneg i k : (0 <= f64_mag i k)%R.
Proof. rewrite <- (f64_mag_0 k). apply f64_mag_mono. lia. Qed.

(* same number of fractional digits: the conversion is monotone in the decimal value (signs included) *)
Theorem to_f64_monotone_same_scale d d' neg neg' i i' k r r' :
  f64_decimal d neg i k -> f64_decimal d' neg' i' k -> to_f64 d = Ok r -> to_f64 d' = Ok r' ->
  (decimal_value neg i k <= decimal_value neg' i' k)%R -> (B2R64 r <= B2R64 r')%R.
Proof.
  intros Hd Hd' H H' Hle.
  rewrite (to_f64_value d neg i k r Hd H), (to_f64_value d' neg' i' k r' Hd' H').
  unfold decimal_value in Hle. pose proof (pow10_ge1 k) as Hy.
  assert (Hs : ((if neg then -1 else 1) * IZR (Z.of_N i) <= (if neg' then -1 else 1) * IZR (Z.of_N i'))%R).
  { apply Rmult_le_reg_r with (/ IZR (10 ^ Z.of_N k))%R; [apply Rinv_0_lt_compat; lra|exact Hle]. }
  pose proof (f64_mag_nonneg i k) as H0. pose proof (f64_mag_nonneg i' k) as H0'.
  assert (Hi0 : (0 <= IZR (Z.of_N i))%R) by (apply IZR_le; lia).
  assert (Hi0' : (0 <= IZR (Z.of_N i'))%R) by (apply IZR_le; lia).
  destruct neg, neg'.
  - assert (i' <= i) by (apply N2Z.inj_le, le_IZR; lra). pose proof (f64_mag_mono i' i k H1). lra.
  - lra.
  - assert (Hz : i = 0 /\ i' = 0).
    { assert (IZR (Z.of_N i) = 0%R) by lra. assert (IZR (Z.of_N i') = 0%R) by lra.
      apply eq_IZR in H1, H2. lia. }
    destruct Hz as [-> ->]. rewrite f64_mag_0. lra.
  - assert (i <= i') by (apply N2Z.inj_le, le_IZR; lra). pose proof (f64_mag_mono i i' k H1). lra.
Qed.

(* digit integers below 2^53 (any numbers of fractional digits, integers included): monotone, because both
   results are the correctly rounded decimal values *)
Theorem to_f64_monotone_small d d' neg neg' i i' k k' r r' :
  f64_decimal d neg i k -> f64_decimal d' neg' i' k' -> to_f64 d = Ok r -> to_f64 d' = Ok r' ->
  i < 2 ^ 53 -> i' < 2 ^ 53 ->
  (decimal_value neg i k <= decimal_value neg' i' k')%R -> (B2R64 r <= B2R64 r')%R.
Proof.
  intros Hd Hd' H H' Hi Hi' Hle.
  destruct (to_f64_numeric d neg i k r Hd H) as (_ & _ & Hc & _).
  destruct (to_f64_numeric d' neg' i' k' r' Hd' H') as (_ & _ & Hc' & _).
  rewrite (Hc Hi), (Hc' Hi').
  apply round_le; auto with typeclass_instances.
Qed.

(* ================================================================== *)
(* Part E: sign symmetry                                               *)
(* ================================================================== *)

Lemma finite_not_nan (x : binary64) : is_finite 53 1024 x = true -> is_nan 53 1024 x = false.
Proof. destruct x; cbn; congruence. Qed.

Lemma f64_of_Z_sign z : (Z.abs z <= 2 ^ 64)%Z -> z <> 0%Z -> Bsign 53 1024 (f64_of_Z z) = (z <? 0)%Z.
Proof.
  intros Hb Hz. destruct (f64_of_Z_round z Hb) as (Hv & _ & Hbd). unfold f64_of_Z in *.
  pose proof (binary_normalize_correct 53 1024 (@eq_refl _ Lt) (@eq_refl _ Lt) mode_NE z 0 false) as H.
  assert (HF : F2R (Float radix2 z 0) = IZR z) by (unfold F2R; cbn [Fnum Fexp bpow]; lra).
  rewrite HF in H.
  assert (Hbd' : (Rabs (rnd64 (IZR z)) <= IZR (2 ^ 64))%R) by (rewrite <- Hv; exact Hbd).
  rewrite Rlt_bool_true in H.
  - destruct H as (_ & _ & ->).
    destruct (Z.ltb_spec z 0) as [Hl|Hl].
    + rewrite Rcompare_Lt; [reflexivity|]. apply IZR_lt. exact Hl.
    + rewrite Rcompare_Gt; [reflexivity|]. apply IZR_lt. lia.
  - eapply Rle_lt_trans; [exact Hbd'|]. rewrite bpow1024. apply IZR_lt. reflexivity.
Qed.

(* integers: f64 of -z is the negation of f64 of z, for z <> 0 *)
Lemma f64_of_Z_opp z : (Z.abs z <= 2 ^ 64)%Z -> z <> 0%Z -> f64_of_Z (- z) = b64_opp (f64_of_Z z).
Proof.
  intros Hb Hz. assert (Hb' : (Z.abs (- z) <= 2 ^ 64)%Z) by lia.
  destruct (f64_of_Z_round z Hb) as (Hv & Hf & _). destruct (f64_of_Z_round (- z) Hb') as (Hv' & Hf' & _).
  unfold b64_opp. apply B2R_Bsign_inj.
  - exact Hf'.
  - rewrite is_finite_Bopp. exact Hf.
  - rewrite B2R_Bopp, Hv, Hv', opp_IZR. cbn [round_mode]. apply round_NE_opp.
  - rewrite Bsign_Bopp by (apply finite_not_nan; exact Hf).
    rewrite !f64_of_Z_sign by (auto; lia).
    destruct (Z.ltb_spec (- z) 0), (Z.ltb_spec z 0); try reflexivity; lia.
Qed.

(* fractions: the sign is applied by an exact multiplication by +-1.0 *)
Lemma frac_value_sign neg i k :
  (i < U64_LIM)%N -> (k <= 22)%N ->
  Bsign 53 1024 (frac_value neg i k) = xorb neg (Bsign 53 1024 (f64_div (f64_of_Z (Z.of_N i)) (pow10_f64 k))).
Proof.
  intros Hi Hk. pose proof (frac_value_finite neg i k Hi Hk) as Hfin.
  unfold frac_value, f64_mul, b64_mult in *.
  set (dv := f64_div (f64_of_Z (Z.of_N i)) (pow10_f64 k)) in *.
  set (sz := if neg then (-1)%Z else 1%Z) in *.
  assert (Hsz : (Z.abs sz < 2 ^ 53)%Z) by (destruct neg; reflexivity).
  destruct (f64_of_Z_exact sz (format_small sz Hsz) ltac:(destruct neg; apply Zle_bool_imp_le; vm_compute; reflexivity)) as (Hs & Hsf).
  assert (Hss : Bsign 53 1024 (f64_of_Z sz) = neg) by (destruct neg; vm_compute; reflexivity).
  set (s := f64_of_Z sz) in *.
  pose proof (Bmult_correct 53 1024 (@eq_refl _ Lt) (@eq_refl _ Lt) binop_nan_pl64 mode_NE s dv) as Hm.
  assert (Hprod : generic_format radix2 fexp64 (B2R64 s * B2R64 dv)).
  { rewrite Hs. destruct neg; unfold sz.
    - replace (IZR (-1) * B2R64 dv)%R with (- B2R64 dv)%R by lra. apply generic_format_opp. apply generic_format_B2R.
    - rewrite Rmult_1_l. apply generic_format_B2R. }
  rewrite round_generic in Hm by (auto with typeclass_instances).
  rewrite Rlt_bool_true in Hm.
  - destruct Hm as (_ & _ & Hsign). rewrite <- Hss. apply Hsign. apply finite_not_nan. exact Hfin.
  - rewrite Rabs_mult, Hs. replace (Rabs (IZR sz)) with 1%R.
    + rewrite Rmult_1_l. apply abs_B2R_lt_emax.
    + destruct neg; unfold sz; [rewrite Rabs_left; lra|rewrite Rabs_pos_eq; lra].
Qed.

Theorem frac_value_opp i k :
  (i < U64_LIM)%N -> (k <= 22)%N -> frac_value true i k = b64_opp (frac_value false i k).
Proof.
  intros Hi Hk.
  destruct (frac_value_spec true i k Hi Hk) as (Hft & Hvt). destruct (frac_value_spec false i k Hi Hk) as (Hff & Hvf).
  unfold b64_opp. apply B2R_Bsign_inj.
  - exact Hft.
  - rewrite is_finite_Bopp. exact Hff.
  - rewrite B2R_Bopp, Hvt, Hvf. ring.
  - rewrite Bsign_Bopp by (apply finite_not_nan; exact Hff).
    rewrite !frac_value_sign by assumption. cbn [xorb]. now destruct (Bsign _ _ _).
Qed.

Lemma f64_decimal_neg d i k : f64_decimal d false i k -> f64_decimal (45 :: d) true i k.
Proof.
  intros H. inversion H; subst; cbn [sgn app].
  - exact (DecInt true c ds H0 H1).
  - exact (DecFrac true c ds fs H0 H1 H2 H3).
  - exact (DecDot true fs H0 H1).
Qed.

(* prefixing '-' to an accepted unsigned string: accepted again, the value is negated; and it is the IEEE
   negation (sign bit flipped) except for the integer zero: "-0" converts to +0.0 (the i64 path), while
   "-0.0" and "-.0" convert to -0.0 *)
Theorem to_f64_neg_symmetry d i k r :
  f64_decimal d false i k -> to_f64 d = Ok r ->
  exists r', to_f64 (45 :: d) = Ok r' /\ B2R64 r' = (- B2R64 r)%R /\
             (k <> 0 \/ i <> 0 -> r' = b64_opp r).
Proof.
  intros Hdec H. pose proof (f64_decimal_neg d i k Hdec) as Hdec'.
  destruct (to_f64_decimal d false i k r Hdec H) as [Ha Hr].
  destruct (to_f64_decimal_conv (45 :: d) true i k Hdec' Ha) as [r' H'].
  exists r'. split; [exact H'|].
  split.
  - rewrite (to_f64_value _ _ _ _ _ Hdec' H'), (to_f64_value _ _ _ _ _ Hdec H). ring.
  - intros Hnz. destruct (to_f64_decimal _ _ _ _ _ Hdec' H') as [_ Hr']. subst r r'.
    unfold f64_accepts in Ha. destruct (k =? 0) eqn:Ek.
    + apply N.eqb_eq in Ek. destruct Hnz as [Hk|Hi]; [congruence|].
      change f64_int_guard with 9007199254740991 in Ha.
      apply f64_of_Z_opp; [change (2 ^ 64)%Z with 18446744073709551616%Z|]; lia.
    + destruct Ha as [Hi Hk]. apply frac_value_opp; assumption.
Qed.

(* the exception is real: "-0" and "0" both give +0.0 *)
Lemma to_f64_minus_zero_int : to_f64 [45; 48] = Ok (B754_zero 53 1024 false) /\ to_f64 [48] = Ok (B754_zero 53 1024 false).
Proof. split; vm_compute; reflexivity. Qed.

(* ================================================================== *)
(* Part F: above 2^53 the result need not be correctly rounded, nor    *)
(*         even within 1 ulp (witnesses)                               *)
(* ================================================================== *)

Definition b64_pair (b : binary64) : Z * Z :=
  match b with
  | B754_finite _ _ s m e _ => (cond_Zopp s (Zpos m), e)
  | _ => (0, 0)%Z
  end.

Lemma B2R_pair b m e : is_finite 53 1024 b = true -> b64_pair b = (m, e) -> B2R64 b = (IZR m * bpow radix2 e)%R.
Proof.
  destruct b as [s|s|s pl H|s m0 e0 H]; cbn [is_finite b64_pair B2R]; intros Hf Hp; try discriminate.
  - injection Hp as <- <-. cbn. lra.
  - injection Hp as <- <-. reflexivity.
Qed.

(* "9007199254740993.0": the decimal value 2^53+1 is a tie, RNE gives 2^53, to_f64 gives 2^53+2 *)
Definition w_tie : bytes := [57;48;48;55;49;57;57;50;53;52;55;52;48;57;57;51;46;48].

Theorem to_f64_tie_witness :
  exists r, f64_decimal w_tie false 90071992547409930 1 /\ to_f64 w_tie = Ok r /\
            B2R64 r <> rnd64 (decimal_value false 90071992547409930 1).
Proof.
  assert (Hdec : f64_decimal w_tie false 90071992547409930 1).
  { exact (DecFrac false 57 [48;48;55;49;57;57;50;53;52;55;52;48;57;57;51] [48]
             (or_introl eq_refl) eq_refl eq_refl ltac:(discriminate)). }
  assert (Hacc : f64_accepts 90071992547409930 1) by (split; vm_compute; [reflexivity|discriminate]).
  destruct (to_f64_decimal_conv _ _ _ _ Hdec Hacc) as [r H]. exists r. split; [exact Hdec|]. split; [exact H|].
  destruct (to_f64_decimal _ _ _ _ _ Hdec H) as [_ Hr]. cbn [N.eqb Pos.eqb] in Hr. subst r.
  assert (Hi : 90071992547409930 < U64_LIM) by reflexivity. assert (Hk : 1 <= 22) by discriminate.
  rewrite (B2R_pair _ 4503599627370497 1 (frac_value_finite false _ _ Hi Hk)) by (vm_compute; reflexivity).
  assert (Hd : decimal_value false 90071992547409930 1 = IZR 9007199254740993).
  { unfold decimal_value. change (Z.of_N 90071992547409930) with (9007199254740993 * 10)%Z.
    change (10 ^ Z.of_N 1)%Z with 10%Z. rewrite mult_IZR. field. }
  rewrite Hd.
  destruct (f64_of_Z_round 9007199254740993 ltac:(vm_compute; discriminate)) as (Hv & Hf & _).
  rewrite <- Hv. rewrite (B2R_pair _ 4503599627370496 1 Hf) by (vm_compute; reflexivity).
  change (bpow radix2 1) with 2%R. lra.
Qed.

(* "239691543739222246.4": the result is 38.4 = 1.2 ulp below the decimal value (ulp = 32 there) *)
Definition w_ulp : bytes := [50;51;57;54;57;49;53;52;51;55;51;57;50;50;50;50;52;54;46;52].

Theorem to_f64_more_than_1ulp_witness :
  exists r, f64_decimal w_ulp false 2396915437392222464 1 /\ (2 ^ 53 <= 2396915437392222464 < U64_LIM) /\
            to_f64 w_ulp = Ok r /\
            (ulp64 (decimal_value false 2396915437392222464 1) <
             Rabs (B2R64 r - decimal_value false 2396915437392222464 1))%R.
Proof.
  assert (Hdec : f64_decimal w_ulp false 2396915437392222464 1).
  { exact (DecFrac false 50 [51;57;54;57;49;53;52;51;55;51;57;50;50;50;50;52;54] [52]
             (or_introl eq_refl) eq_refl eq_refl ltac:(discriminate)). }
  assert (Hacc : f64_accepts 2396915437392222464 1) by (split; vm_compute; [reflexivity|discriminate]).
  destruct (to_f64_decimal_conv _ _ _ _ Hdec Hacc) as [r H]. exists r. split; [exact Hdec|].
  split; [split; vm_compute; [discriminate|reflexivity]|]. split; [exact H|].
  destruct (to_f64_decimal _ _ _ _ _ Hdec H) as [_ Hr]. cbn [N.eqb Pos.eqb] in Hr. subst r.
  assert (Hi : 2396915437392222464 < U64_LIM) by reflexivity. assert (Hk : 1 <= 22) by discriminate.
  rewrite (B2R_pair _ 7490360741850694 5 (frac_value_finite false _ _ Hi Hk)) by (vm_compute; reflexivity).
  assert (Hd : decimal_value false 2396915437392222464 1 = (IZR 2396915437392222464 / 10)%R).
  { unfold decimal_value. change (10 ^ Z.of_N 1)%Z with 10%Z. change (Z.of_N 2396915437392222464) with 2396915437392222464%Z.
    field. }
  rewrite Hd. set (t := (IZR 2396915437392222464 / 10)%R).
  assert (H57 : bpow radix2 57 = IZR (2 ^ 57)) by (rewrite <- (IZR_Zpower radix2 57) by lia; reflexivity).
  assert (H58 : bpow radix2 58 = IZR (2 ^ 58)) by (rewrite <- (IZR_Zpower radix2 58) by lia; reflexivity).
  change (2 ^ 57)%Z with 144115188075855872%Z in H57. change (2 ^ 58)%Z with 288230376151711744%Z in H58.
  assert (Hmag : mag radix2 t = 58%Z :> Z).
  { apply mag_unique_pos. change (58 - 1)%Z with 57%Z. rewrite H57, H58. unfold t. lra. }
  assert (Ht : t <> 0%R) by (unfold t; lra).
  rewrite ulp_neq_0 by exact Ht. unfold cexp. rewrite Hmag.
  change (fexp64 58) with 5%Z.
  assert (H5 : bpow radix2 5 = 32%R) by (cbn; lra). rewrite H5.
  rewrite Rabs_left1 by (unfold t; lra). unfold t. lra.
Qed.
