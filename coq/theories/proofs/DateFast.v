(* C13: Date::_parse (the digit-packed fast paths) agrees with component-wise parsing. *)
From JV Require Import Bytes Tables U64Swar Scalar Date.
From JV.proofs Require Import DateProofs DateProofs2 DecimalProofs SwarLanes DateParse.
From Coq Require Import ZArith NArith Lia List Bool.
Import ListNotations.
Open Scope Z_scope.

(* which of the three slice patterns of Date::_parse matches, and the 8 bytes it packs *)
Definition shape (s : bytes) : option bytes :=
  match s with
  | y1 :: y2 :: y3 :: y4 :: c4 :: t5 =>
    if (c4 =? 46)%N then
      match t5 with
      | [m1; c6; c7; d1; d2] => if (c7 =? 46)%N then Some [y1; y2; y3; y4; m1; c6; d1; d2] else None
      | [m1; c6; c7; d1] =>
          if (c7 =? 46)%N then Some [y1; y2; y3; y4; m1; c6; Z0c; d1]
          else if (c6 =? 46)%N then Some [y1; y2; y3; y4; Z0c; m1; c7; d1] else None
      | _ => None
      end
    else None
  | _ => None
  end.

(* the four u64 constants of the len = 8 branch (date.rs:568-570):
   0x00FF_00FF_0000_0000, 0x002E_002E_0000_0000, 0xFF30_FF30_FFFF_FFFF, 0x0030_0030_0000_0000.
   [date_parse_is_alt] below checks by conversion that Date.date_parse uses exactly these. *)
Definition date8_sep_mask : N := 71777214277877760.
Definition date8_sep_dots : N := 12948046497185792.
Definition date8_keep_mask : N := 18388477864472215551.
Definition date8_zero_fill : N := 13511005040541696.

(* the `_ =>` arm of Date::_parse *)
Definition date_default (s : bytes) : outcome (option rawdate) :=
    if Nat.eqb (length s) 8 then
      let d := le_u64 s in
      let one_digit_month := (N.land d date8_sep_mask =? date8_sep_dots)%N in
      let e := N.lor (N.land d date8_keep_mask) date8_zero_fill in
      match (if one_digit_month then date_fast_parse_u64 e else None) with
      | Some x => x
      | None => date_fallback s
      end
    else
      match s with
      | [] => Ok None
      | c :: _ =>
        if (Nat.ltb (length s) 5) || (Nat.ltb 12 (length s)) || negb ((c =? 45)%N || is_digit c)
        then Ok None else date_fallback s
      end.

Definition date_parse_alt (s : bytes) : outcome (option rawdate) :=
  match shape s with
  | Some r => match date_fast_parse_u64 (le_u64 r) with Some x => x | None => date_fallback s end
  | None => date_default s
  end.

Ltac dpos c := destruct c as [c|c|].
(* case analysis of an N along the bits of 46 = xO (xI (xI (xI (xO xH)))) *)
Ltac d46 c :=
  destruct c as [|c];
  [ | dpos c; [ | dpos c; [ dpos c; [ dpos c; [ dpos c; [ | dpos c | ] | | ] | | ] | | ] | ] ].

Ltac red46 := cbn [shape N.eqb Pos.eqb].

Lemma date_parse_is_alt s : date_parse s = date_parse_alt s.
Proof.
  unfold date_parse_alt.
  destruct s as [|y1 [|y2 [|y3 [|y4 [|c4 t5]]]]]; try reflexivity.
  d46 c4; red46; try reflexivity.
  destruct t5 as [|m1 [|c6 [|c7 [|d1 [|d2 [|x t]]]]]]; try reflexivity.
  all: try (d46 c7; red46; try reflexivity).
  all: try (d46 c6; red46; try reflexivity).
Qed.

(* ---------- digits ---------- *)
Lemma digit_not_dot b : is_digit b = true -> (b =? DOT)%N = false.
Proof. intros H. apply is_digit_range in H. apply N.eqb_neq. unfold DOT. lia. Qed.
Lemma digit_not_dash b : is_digit b = true -> (b =? 45)%N = false.
Proof. intros H. apply is_digit_range in H. apply N.eqb_neq. lia. Qed.
Lemma dig_range b : is_digit b = true -> 0 <= dig b <= 9.
Proof. intros H. apply is_digit_range in H. unfold dig. lia. Qed.

Definition yval (y1 y2 y3 y4 : N) : Z := dig y1 * 1000 + dig y2 * 100 + dig y3 * 10 + dig y4.

(* to_i64_t on "YYYY." ++ rest *)
Lemma to_i64_t_yyyy y1 y2 y3 y4 rest :
  is_digit y1 = true -> is_digit y2 = true -> is_digit y3 = true -> is_digit y4 = true ->
  to_i64_t (y1 :: y2 :: y3 :: y4 :: 46%N :: rest) = Ok (yval y1 y2 y3 y4, 46%N :: rest).
Proof.
  intros H1 H2 H3 H4. unfold to_i64_t. rewrite H1. cbn [orb]. rewrite (digit_not_dash y1 H1).
  pose proof (proj1 (is_digit_range _) H1). pose proof (proj1 (is_digit_range _) H2).
  pose proof (proj1 (is_digit_range _) H3). pose proof (proj1 (is_digit_range _) H4).
  assert (Hall : all_digits [y2; y3; y4] = true) by (unfold all_digits; cbn [forallb]; rewrite H2, H3, H4; reflexivity).
  change (y2 :: y3 :: y4 :: 46%N :: rest) with ([y2; y3; y4] ++ 46%N :: rest).
  rewrite (to_u64_t2_digits [y2; y3; y4] (46%N :: rest) (y1 - 48)%N Hall eq_refl)
    by (cbn [dacc fold_left]; unfold U64_LIM; lia).
  cbn [obind dacc fold_left].
  match goal with |- context [(?v <=? I64_MAX)%N] => replace (v <=? I64_MAX)%N with true by (symmetry; apply N.leb_le; unfold I64_MAX; lia) end.
  f_equal. f_equal. unfold yval, dig. lia.
Qed.

Lemma yval_range y1 y2 y3 y4 :
  is_digit y1 = true -> is_digit y2 = true -> is_digit y3 = true -> is_digit y4 = true -> 0 <= yval y1 y2 y3 y4 <= 9999.
Proof. intros H1 H2 H3 H4. apply dig_range in H1, H2, H3, H4. unfold yval. lia. Qed.

(* the fast path computes the same expanded date as the component parser would *)
Lemma fast_core y1 y2 y3 y4 m1 m2 d1 d2 s :
  wfl [y1; y2; y3; y4; m1; m2; d1; d2] ->
  (forallb is_digit [y1; y2; y3; y4; m1; m2; d1; d2] = true ->
   x_parse s = Ok (Some (mkx (yval y1 y2 y3 y4) (dig m1 * 10 + dig m2) (dig d1 * 10 + dig d2) 0))) ->
  match date_fast_parse_u64 (le_u64 [y1; y2; y3; y4; m1; m2; d1; d2]) with
  | Some x => x | None => date_fallback s end = date_fallback s.
Proof.
  intros Hw Hx. unfold date_fast_parse_u64. rewrite (fast_digit_parse_spec _ _ _ _ _ _ _ _ Hw).
  destruct (forallb is_digit [y1; y2; y3; y4; m1; m2; d1; d2]) eqn:E; [|reflexivity].
  specialize (Hx eq_refl). unfold date_fallback. rewrite Hx. unfold olift. cbn [obind].
  cbn [forallb] in E. repeat (apply andb_prop in E as [? E]).
  repeat match goal with H : is_digit _ = true |- _ => apply is_digit_range in H end.
  f_equal. unfold dec_val. cbn [fold_left].
  set (yv := yval y1 y2 y3 y4). set (mv := dig m1 * 10 + dig m2). set (dv := dig d1 * 10 + dig d2).
  match goal with |- context [Z.of_N ?v] => replace (Z.of_N v) with (yv * 10000 + mv * 100 + dv)
    by (unfold yv, mv, dv, yval, dig; lia) end.
  assert (0 <= yv <= 9999) by (unfold yv, yval, dig; lia).
  assert (0 <= mv <= 99) by (unfold mv, dig; lia).
  assert (0 <= dv <= 99) by (unfold dv, dig; lia).
  assert (E1 : (yv * 10000 + mv * 100 + dv) mod 100 = dv)
    by (symmetry; apply (Z.mod_unique _ 100 (yv * 100 + mv)); lia).
  assert (E2 : (yv * 10000 + mv * 100 + dv) / 100 = yv * 100 + mv)
    by (symmetry; apply (Z.div_unique _ 100 _ dv); lia).
  assert (E3 : (yv * 100 + mv) mod 100 = mv)
    by (symmetry; apply (Z.mod_unique _ 100 yv); lia).
  assert (E4 : (yv * 10000 + mv * 100 + dv) / 10000 = yv)
    by (symmetry; apply (Z.div_unique _ 10000 _ (mv * 100 + dv)); lia).
  rewrite E1, E2, E3, E4. unfold wrap_i16, wrap_u8.
  rewrite (Z.mod_small (yv + 32768)), (Z.mod_small mv), (Z.mod_small dv) by lia.
  replace (yv + 32768 - 32768) with yv by lia. reflexivity.
Qed.

Ltac use_digits :=
  repeat match goal with
  | H : is_digit ?b = true |- context [is_digit ?b] => rewrite H
  | H : is_digit ?b = true |- context [(?b =? DOT)%N] => rewrite (digit_not_dot b H)
  end.

Lemma x_parse_yyyy y1 y2 y3 y4 rest :
  is_digit y1 = true -> is_digit y2 = true -> is_digit y3 = true -> is_digit y4 = true ->
  x_parse (y1 :: y2 :: y3 :: y4 :: 46%N :: rest) = Ok (x_of (yval y1 y2 y3 y4) (p_tail (46%N :: rest))).
Proof.
  intros H1 H2 H3 H4. rewrite x_parse_is_clean. unfold x_parse_clean.
  rewrite (to_i64_t_yyyy y1 y2 y3 y4 rest H1 H2 H3 H4).
  pose proof (yval_range y1 y2 y3 y4 H1 H2 H3 H4).
  replace (in_i16 (yval y1 y2 y3 y4)) with true by (symmetry; apply in_i16_true; lia). reflexivity.
Qed.

Lemma all8 y1 y2 y3 y4 m1 m2 d1 d2 :
  forallb is_digit [y1; y2; y3; y4; m1; m2; d1; d2] = true ->
  is_digit y1 = true /\ is_digit y2 = true /\ is_digit y3 = true /\ is_digit y4 = true /\
  is_digit m1 = true /\ is_digit m2 = true /\ is_digit d1 = true /\ is_digit d2 = true.
Proof. cbn [forallb]. intros E. repeat (apply andb_prop in E as [? E]). auto 10. Qed.

(* the four digit-packed shapes *)
Lemma fast_10 y1 y2 y3 y4 m1 m2 d1 d2 :
  let s := [y1; y2; y3; y4; 46%N; m1; m2; 46%N; d1; d2] in
  wfl s ->
  match date_fast_parse_u64 (le_u64 [y1; y2; y3; y4; m1; m2; d1; d2]) with
  | Some x => x | None => date_fallback s end = date_fallback s.
Proof.
  intros s Hw. apply fast_core.
  - unfold s in Hw. repeat match goal with H : wfl (_ :: _) |- _ => inversion H; clear H; subst | H : Forall _ (_ :: _) |- _ => inversion H; clear H; subst end.
    repeat constructor; assumption.
  - intros E. apply all8 in E as (H1 & H2 & H3 & H4 & H5 & H6 & H7 & H8).
    unfold s. rewrite x_parse_yyyy by assumption. cbn [p_tail p_dayhour].
    change (46 =? DOT)%N with true. use_digits. cbn [negb option_map x_of fst snd]. reflexivity.
Qed.

Lemma fast_9a y1 y2 y3 y4 m1 m2 d1 :
  let s := [y1; y2; y3; y4; 46%N; m1; m2; 46%N; d1] in
  wfl s ->
  match date_fast_parse_u64 (le_u64 [y1; y2; y3; y4; m1; m2; Z0c; d1]) with
  | Some x => x | None => date_fallback s end = date_fallback s.
Proof.
  intros s Hw. apply fast_core.
  - unfold s in Hw. repeat match goal with H : wfl (_ :: _) |- _ => inversion H; clear H; subst | H : Forall _ (_ :: _) |- _ => inversion H; clear H; subst end.
    repeat constructor; try assumption; try (unfold Z0c; lia).
  - intros E. apply all8 in E as (H1 & H2 & H3 & H4 & H5 & H6 & H7 & H8).
    unfold s. rewrite x_parse_yyyy by assumption. cbn [p_tail p_dayhour].
    change (46 =? DOT)%N with true. use_digits. cbn [negb option_map x_of fst snd]. reflexivity.
Qed.

Lemma fast_9b y1 y2 y3 y4 m1 d1 d2 :
  let s := [y1; y2; y3; y4; 46%N; m1; 46%N; d1; d2] in
  wfl s ->
  match date_fast_parse_u64 (le_u64 [y1; y2; y3; y4; Z0c; m1; d1; d2]) with
  | Some x => x | None => date_fallback s end = date_fallback s.
Proof.
  intros s Hw. apply fast_core.
  - unfold s in Hw. repeat match goal with H : wfl (_ :: _) |- _ => inversion H; clear H; subst | H : Forall _ (_ :: _) |- _ => inversion H; clear H; subst end.
    repeat constructor; try assumption; try (unfold Z0c; lia).
  - intros E. apply all8 in E as (H1 & H2 & H3 & H4 & H5 & H6 & H7 & H8).
    unfold s. rewrite x_parse_yyyy by assumption. cbn [p_tail p_dayhour].
    change (46 =? DOT)%N with true. use_digits. cbn [negb option_map x_of fst snd]. reflexivity.
Qed.

Lemma fast_8 y1 y2 y3 y4 m1 d1 :
  let s := [y1; y2; y3; y4; 46%N; m1; 46%N; d1] in
  wfl s ->
  match date_fast_parse_u64 (le_u64 [y1; y2; y3; y4; Z0c; m1; Z0c; d1]) with
  | Some x => x | None => date_fallback s end = date_fallback s.
Proof.
  intros s Hw. apply fast_core.
  - unfold s in Hw. repeat match goal with H : wfl (_ :: _) |- _ => inversion H; clear H; subst | H : Forall _ (_ :: _) |- _ => inversion H; clear H; subst end.
    repeat constructor; try assumption; try (unfold Z0c; lia).
  - intros E. apply all8 in E as (H1 & H2 & H3 & H4 & H5 & H6 & H7 & H8).
    unfold s. rewrite x_parse_yyyy by assumption. cbn [p_tail p_dayhour].
    change (46 =? DOT)%N with true. use_digits. cbn [negb option_map x_of fst snd]. reflexivity.
Qed.

(* ---------- the len = 8 mask trick (YYYY.M.D) ---------- *)
Lemma mask_test b0 b1 b2 b3 b4 b5 b6 b7 :
  wfl [b0; b1; b2; b3; b4; b5; b6; b7] ->
  (N.land (le_u64 [b0; b1; b2; b3; b4; b5; b6; b7]) date8_sep_mask =? date8_sep_dots)%N
  = ((b4 =? 46) && (b6 =? 46))%N.
Proof.
  intros Hw. rewrite lanes_le_u64.
  change date8_sep_mask with (lev [0; 0; 0; 0; 255; 0; 255; 0]%N).
  rewrite lanes_land_lev; [| exact Hw | repeat constructor; lia | reflexivity].
  change date8_sep_dots with (lev [0; 0; 0; 0; 46; 0; 46; 0]%N).
  cbn [map2]. rewrite !N.land_0_r.
  repeat match goal with H : wfl (_ :: _) |- _ => inversion H; clear H; subst | H : Forall _ (_ :: _) |- _ => inversion H; clear H; subst end.
  rewrite !lanes_land_255 by assumption. cbn [lev].
  destruct (N.eqb_spec b4 46) as [->|N4]; destruct (N.eqb_spec b6 46) as [->|N6]; cbn [andb];
    [reflexivity| | |]; apply N.eqb_neq; lia.
Qed.

Lemma mask_pack b0 b1 b2 b3 b5 b7 :
  wfl [b0; b1; b2; b3; 46; b5; 46; b7]%N ->
  N.lor (N.land (le_u64 [b0; b1; b2; b3; 46; b5; 46; b7]%N) date8_keep_mask) date8_zero_fill
  = le_u64 [b0; b1; b2; b3; Z0c; b5; Z0c; b7].
Proof.
  intros Hw. rewrite !lanes_le_u64.
  change date8_keep_mask with (lev [255; 255; 255; 255; 48; 255; 48; 255]%N).
  change date8_zero_fill with (lev [0; 0; 0; 0; 48; 0; 48; 0]%N).
  rewrite lanes_land_lev; [| exact Hw | repeat constructor; lia | reflexivity].
  cbn [map2].
  repeat match goal with H : wfl (_ :: _) |- _ => inversion H; clear H; subst | H : Forall _ (_ :: _) |- _ => inversion H; clear H; subst end.
  rewrite !lanes_land_255 by assumption.
  rewrite lanes_lor_lev; [| repeat constructor; try assumption; lia | repeat constructor; lia | reflexivity].
  cbn [map2]. rewrite !N.lor_0_r. reflexivity.
Qed.

Lemma default_8 s : wfl s -> length s = 8%nat -> date_default s = date_fallback s.
Proof.
  intros Hw Hlen.
  destruct s as [|b0 [|b1 [|b2 [|b3 [|b4 [|b5 [|b6 [|b7 [|x t]]]]]]]]]; try discriminate.
  unfold date_default. change (Nat.eqb (length [b0; b1; b2; b3; b4; b5; b6; b7]) 8) with true. cbv iota zeta.
  rewrite (mask_test _ _ _ _ _ _ _ _ Hw).
  destruct (N.eqb_spec b4 46) as [->|N4]; [|reflexivity].
  destruct (N.eqb_spec b6 46) as [->|N6]; [|reflexivity]. cbn [andb].
  rewrite (mask_pack _ _ _ _ _ _ Hw). apply (fast_8 b0 b1 b2 b3 b5 b7 Hw).
Qed.

(* the fast path really is taken: "1444.1.1" passes the separator test and the packed word decodes *)
Example date8_fast_path_taken :
  exists s r, length s = 8%nat /\
    (N.land (le_u64 s) date8_sep_mask =? date8_sep_dots)%N = true /\
    date_fast_parse_u64 (N.lor (N.land (le_u64 s) date8_keep_mask) date8_zero_fill) = Some (Ok (Some r)) /\
    date_parse s = Ok (Some r).
Proof.
  exists [49; 52; 52; 52; 46; 49; 46; 49]%N, (mkraw 1444 (1 * 4096 + 1 * 128)).
  repeat split; vm_compute; reflexivity.
Qed.

(* ---------- Date::_parse = length/first-byte guard, then component-wise parsing ---------- *)
Definition first_ok (s : bytes) : bool :=
  match s with [] => false | c :: _ => (c =? 45)%N || is_digit c end.

(* what Date::_parse rejects before (instead of) parsing component-wise *)
Definition date_guard (s : bytes) : bool :=
  match shape s with
  | Some _ => false
  | None => negb (Nat.eqb (length s) 8) && (Nat.ltb (length s) 5 || Nat.ltb 12 (length s) || negb (first_ok s))
  end.

Lemma shape_inv s r : shape s = Some r ->
  (exists y1 y2 y3 y4 m1 m2 d1 d2, s = [y1; y2; y3; y4; 46%N; m1; m2; 46%N; d1; d2] /\ r = [y1; y2; y3; y4; m1; m2; d1; d2]) \/
  (exists y1 y2 y3 y4 m1 m2 d1, s = [y1; y2; y3; y4; 46%N; m1; m2; 46%N; d1] /\ r = [y1; y2; y3; y4; m1; m2; Z0c; d1]) \/
  (exists y1 y2 y3 y4 m1 d1 d2, s = [y1; y2; y3; y4; 46%N; m1; 46%N; d1; d2] /\ r = [y1; y2; y3; y4; Z0c; m1; d1; d2]).
Proof.
  destruct s as [|y1 [|y2 [|y3 [|y4 [|c4 t5]]]]]; try discriminate.
  cbn [shape]. destruct (N.eqb_spec c4 46) as [->|]; [|discriminate].
  destruct t5 as [|m1 [|c6 [|c7 [|d1 [|d2 [|x t]]]]]]; try discriminate.
  - destruct (N.eqb_spec c7 46) as [->|].
    + intros H; inversion H. right; left. do 7 eexists. split; reflexivity.
    + destruct (N.eqb_spec c6 46) as [->|]; [|discriminate].
      intros H; inversion H. right; right. do 7 eexists. split; reflexivity.
  - destruct (N.eqb_spec c7 46) as [->|]; [|discriminate].
    intros H; inversion H. left. do 8 eexists. split; reflexivity.
Qed.

Theorem date_parse_fallback s :
  wfl s -> date_parse s = if date_guard s then Ok None else date_fallback s.
Proof.
  intros Hw. rewrite date_parse_is_alt. unfold date_parse_alt, date_guard.
  destruct (shape s) as [r|] eqn:Es.
  - apply shape_inv in Es as [(y1 & y2 & y3 & y4 & m1 & m2 & d1 & d2 & -> & ->)|[(y1 & y2 & y3 & y4 & m1 & m2 & d1 & -> & ->)|(y1 & y2 & y3 & y4 & m1 & d1 & d2 & -> & ->)]].
    + apply fast_10; exact Hw.
    + apply fast_9a; exact Hw.
    + apply fast_9b; exact Hw.
  - destruct (Nat.eqb (length s) 8) eqn:El.
    + apply Nat.eqb_eq in El. cbn [negb andb]. apply default_8; assumption.
    + unfold date_default. rewrite El. cbn [negb andb]. destruct s as [|c t]; reflexivity.
Qed.

(* corollaries: the fast paths never invent or change a result *)
Corollary date_parse_sound s r : wfl s -> date_parse s = Ok (Some r) -> date_fallback s = Ok (Some r).
Proof. intros Hw. rewrite (date_parse_fallback s Hw). destruct (date_guard s); [discriminate|auto]. Qed.

Corollary date_parse_complete s :
  wfl s -> (5 <= length s <= 12)%nat -> first_ok s = true -> date_parse s = date_fallback s.
Proof.
  intros Hw Hl Hf. rewrite (date_parse_fallback s Hw). unfold date_guard.
  destruct (shape s); [reflexivity|]. rewrite Hf.
  replace (Nat.ltb (length s) 5) with false by (symmetry; apply Nat.ltb_ge; lia).
  replace (Nat.ltb 12 (length s)) with false by (symmetry; apply Nat.ltb_ge; lia).
  rewrite andb_false_r. reflexivity.
Qed.

Corollary date_parse_nocrash s : wfl s -> is_crash (date_parse s) = false.
Proof.
  intros Hw. rewrite (date_parse_fallback s Hw). destruct (date_guard s); [reflexivity|]. apply parse_nocrash.
Qed.
