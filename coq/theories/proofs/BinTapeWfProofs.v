(* C06 (binary): structural lemmas about tapes -- the grammar [closed_seq], the open chain
   [open_inv] (DESIGN A.2 J1-J4 / A.1 I1-I2 transposed to the binary parser) and how each tape
   operation of binary/tape.rs acts on them. *)
From JV Require Import Bytes Tables BinPrim BinTape BinTapeWf.
Require Import Lia.
Open Scope nat_scope.

(* ------------------------------------------------------------------ lists *)
Lemma pop_snoc : forall (t : tape) x, pop (t ++ [x]) = Some (t, x).
Proof. intros. unfold pop. rewrite rev_app_distr. cbn. now rewrite rev_involutive. Qed.

Lemma pop_some : forall t t1 x, pop t = Some (t1, x) -> t = t1 ++ [x].
Proof.
  intros t t1 x H. unfold pop in H. destruct (rev t) eqn:E; [discriminate|].
  inversion H; subst. rewrite <- (rev_involutive t), E. reflexivity.
Qed.

Lemma pop_none : forall t, pop t = None -> t = [].
Proof.
  intros t H. unfold pop in H. destruct (rev t) eqn:E; [|discriminate].
  rewrite <- (rev_involutive t), E. reflexivity.
Qed.

Lemma snoc_case : forall (l : tape), l = [] \/ exists l' a, l = l' ++ [a].
Proof. induction l using rev_ind; [left | right]; eauto. Qed.

Lemma upd_app_here : forall (pre : tape) c r x, upd (pre ++ c :: r) (length pre) x = pre ++ x :: r.
Proof. induction pre; intros; cbn; [reflexivity | now rewrite IHpre]. Qed.

Lemma upd_length : forall t i x, length (upd t i x) = length t.
Proof. induction t; intros; destruct i; cbn; auto. Qed.

Lemma nth_error_here : forall (pre : tape) c r, nth_error (pre ++ c :: r) (length pre) = Some c.
Proof. induction pre; intros; cbn; auto. Qed.

Lemma nth_error_push_lt : forall (t : tape) x i, i < length t -> nth_error (push t x) i = nth_error t i.
Proof. intros. unfold push. now rewrite nth_error_app1. Qed.

Lemma nth_error_push_here : forall (t : tape) x, nth_error (push t x) (length t) = Some x.
Proof. intros. unfold push. rewrite nth_error_app2, Nat.sub_diag; auto. Qed.

Lemma scalar_not_container : forall x, is_scalar x = true -> is_container x = false.
Proof. destruct x; cbn; auto; discriminate. Qed.

Lemma container_end_is : forall c e, container_end c = Some e -> is_container c = true.
Proof. destruct c; cbn; intros; auto; discriminate. Qed.

(* ------------------------------------------------------------------ closed_seq *)
Lemma closed_seq_eq : forall b b' l, closed_seq b l -> b = b' -> closed_seq b' l.
Proof. intros; subst; auto. Qed.

Lemma closed_seq_app : forall b u, closed_seq b u -> forall v, closed_seq (b + length u) v -> closed_seq b (u ++ v).
Proof.
  induction 1; intros v Hv.
  - eapply closed_seq_eq; [exact Hv | cbn; lia].
  - cbn [app]. apply CS_scalar; auto. apply IHclosed_seq. eapply closed_seq_eq; [exact Hv | cbn; lia].
  - cbn [app]. rewrite <- app_assoc. cbn [app]. eapply CS_container; eauto.
    apply IHclosed_seq2. eapply closed_seq_eq; [exact Hv | cbn [length]; rewrite app_length; cbn [length]; lia].
Qed.

Lemma closed_seq_snoc : forall b u x, closed_seq b u -> is_scalar x = true -> closed_seq b (u ++ [x]).
Proof. intros. apply closed_seq_app; auto. apply CS_scalar; auto. constructor. Qed.

Lemma closed_seq_unsnoc_gen : forall b l, closed_seq b l ->
  forall u x, l = u ++ [x] ->
  (is_scalar x = true \/ is_end x = true) /\ (is_scalar x = true -> closed_seq b u).
Proof.
  induction 1; intros u y E.
  - destruct u; discriminate.
  - destruct u as [|a u]; cbn in E; inversion E; subst.
    + split; auto. intros; constructor.
    + destruct (IHclosed_seq _ _ eq_refl) as [A B]. split; auto. intros. apply CS_scalar; auto.
  - destruct (snoc_case r) as [Er|[r' [z Er]]].
    + subst r. assert (u = c :: inner /\ y = TEnd b) as [-> ->].
      { change (c :: inner ++ [TEnd b]) with ((c :: inner) ++ [TEnd b]) in E.
        apply app_inj_tail in E. destruct E; subst; auto. }
      split; [right; reflexivity | discriminate].
    + subst r. assert (u = c :: inner ++ TEnd b :: r' /\ y = z) as [-> ->].
      { replace (c :: inner ++ TEnd b :: r' ++ [z]) with ((c :: inner ++ TEnd b :: r') ++ [z]) in E
          by (cbn; rewrite <- app_assoc; reflexivity).
        apply app_inj_tail in E. destruct E; subst; auto. }
      destruct (IHclosed_seq2 _ _ eq_refl) as [A B]. split; auto. intros. eapply CS_container; eauto.
Qed.

Lemma closed_seq_unsnoc : forall b u x, closed_seq b (u ++ [x]) -> is_scalar x = true -> closed_seq b u.
Proof. intros b u x H Hs. now apply (closed_seq_unsnoc_gen _ _ H u x eq_refl). Qed.

Lemma closed_seq_last : forall b u x, closed_seq b (u ++ [x]) -> is_scalar x = true \/ is_end x = true.
Proof. intros b u x H. now apply (closed_seq_unsnoc_gen _ _ H u x eq_refl). Qed.

(* ------------------------------------------------------------------ the open chain *)
Definition not_cont_hd (t : tape) : Prop := forall c, nth_error t 0 = Some c -> is_container c = false.

Inductive open_inv : nat -> tape -> Prop :=
| OI_top : forall t, closed_seq 0 t -> not_cont_hd t -> open_inv 0 t
| OI_in : forall pre g c inner,
    pre <> [] -> container_end c = Some g -> open_inv g pre ->
    closed_seq (S (length pre)) inner -> open_inv (length pre) (pre ++ c :: inner).

Lemma open_inv_zero : forall t, open_inv 0 t -> closed_seq 0 t /\ not_cont_hd t.
Proof.
  intros t H. inversion H; subst; auto.
  destruct pre; [congruence | discriminate].
Qed.

Lemma open_inv_pos : forall p t, open_inv p t -> p <> 0 ->
  exists pre g c inner, t = pre ++ c :: inner /\ p = length pre /\ pre <> [] /\ container_end c = Some g /\
                        open_inv g pre /\ closed_seq (S p) inner.
Proof.
  intros p t H Hp. inversion H; subst; [congruence|].
  exists pre, g, c, inner. repeat split; auto.
Qed.

Lemma open_inv_parent_not_zero : forall p t c e, open_inv p t -> nth_error t p = Some c -> container_end c = Some e -> p <> 0.
Proof.
  intros p t c e H Hn Hc ->. apply open_inv_zero in H. destruct H as [_ H].
  apply H in Hn. apply container_end_is in Hc. congruence.
Qed.

Lemma open_inv_parent : forall p t, open_inv p t -> p <> 0 -> exists c g, nth_error t p = Some c /\ container_end c = Some g.
Proof.
  intros p t H Hp. destruct (open_inv_pos _ _ H Hp) as (pre & g & c & inner & -> & -> & _ & Hc & _).
  exists c, g. split; auto. apply nth_error_here.
Qed.

Lemma open_inv_push : forall p t x, open_inv p t -> is_scalar x = true -> open_inv p (t ++ [x]).
Proof.
  intros p t x H Hs. inversion H; subst.
  - apply OI_top. now apply closed_seq_snoc.
    intros c Hc. destruct t; cbn in Hc.
    + inversion Hc; subst. now apply scalar_not_container.
    + apply H1. exact Hc.
  - rewrite <- app_assoc. cbn. eapply OI_in; eauto. now apply closed_seq_snoc.
Qed.

Lemma open_inv_open : forall p t, open_inv p t -> t <> [] -> open_inv (length t) (t ++ [TArray p]).
Proof. intros. eapply OI_in with (c := TArray p); eauto. reflexivity. constructor. Qed.

Lemma open_inv_append : forall g pre v, open_inv g pre -> pre <> [] -> closed_seq (length pre) v -> open_inv g (pre ++ v).
Proof.
  intros g pre v H Hne Hv. inversion H; subst.
  - apply OI_top. now apply closed_seq_app.
    intros c Hc. destruct pre; [congruence|]. apply H1. exact Hc.
  - rewrite <- app_assoc. cbn. eapply OI_in; eauto.
    apply closed_seq_app; auto. rewrite app_length in Hv. cbn in Hv.
    now replace (S (length pre0) + length inner) with (length pre0 + S (length inner)) by lia.
Qed.

(* push_end!: the container at p gets its end, End p is pushed, the grand-parent becomes the parent *)
Lemma open_inv_close : forall p t c g c',
  open_inv p t -> nth_error t p = Some c -> container_end c = Some g ->
  container_end c' = Some (length t) ->
  open_inv g (upd t p c' ++ [TEnd p]).
Proof.
  intros p t c g c' H Hn Hc Hc'.
  assert (Hp : p <> 0) by (eapply open_inv_parent_not_zero; eauto).
  destruct (open_inv_pos _ _ H Hp) as (pre & g0 & c0 & inner & -> & -> & Hne & Hc0 & Hg & Hin).
  rewrite nth_error_here in Hn. inversion Hn; subst c0. rewrite Hc in Hc0. inversion Hc0; subst g0.
  rewrite upd_app_here. rewrite <- app_assoc. cbn.
  apply open_inv_append; auto.
  eapply CS_container with (inner := inner) (r := []); eauto.
  - rewrite app_length. cbn [length]. lia.
  - constructor.
Qed.

Lemma open_inv_set_obj : forall p t e, open_inv p t -> nth_error t p = Some (TArray e) -> open_inv p (upd t p (TObject e)).
Proof.
  intros p t e H Hn.
  assert (Hp : p <> 0) by (eapply open_inv_parent_not_zero; eauto; reflexivity).
  destruct (open_inv_pos _ _ H Hp) as (pre & g0 & c0 & inner & -> & -> & Hne & Hc0 & Hg & Hin).
  rewrite nth_error_here in Hn. inversion Hn; subst c0. cbn in Hc0. inversion Hc0; subst g0.
  rewrite upd_app_here. eapply OI_in; eauto.
Qed.

Definition inner_start (p : nat) : nat := match p with 0 => 0 | _ => S p end.

Lemma open_inv_pop : forall p t0 x, open_inv p (t0 ++ [x]) -> is_scalar x = true -> inner_start p <= length t0 -> open_inv p t0.
Proof.
  intros p t0 x H Hs Hl. destruct (Nat.eq_dec p 0) as [->|Hp].
  - apply open_inv_zero in H. destruct H as [H1 H2]. apply OI_top.
    + eapply closed_seq_unsnoc; eauto.
    + intros c Hc. apply H2. destruct t0; [discriminate|exact Hc].
  - assert (Hl' : S p <= length t0) by (destruct p; [congruence | exact Hl]).
    destruct (open_inv_pos _ _ H Hp) as (pre & g0 & c0 & inner & E & -> & Hne & Hc0 & Hg & Hin).
    destruct (snoc_case inner) as [Ei|[inner' [y Ei]]].
    + subst inner. apply (f_equal (@length tok)) in E. rewrite !app_length in E. cbn in E. lia.
    + subst inner. replace (pre ++ c0 :: inner' ++ [y]) with ((pre ++ c0 :: inner') ++ [y]) in E
        by (rewrite <- app_assoc; reflexivity).
      apply app_inj_tail in E. destruct E as [-> ->].
      eapply OI_in; eauto. eapply closed_seq_unsnoc; eauto.
Qed.

(* the last token of an array that is open at p: either the array token itself, or inside it *)
Lemma open_inv_last_in_array : forall p t1 x g,
  open_inv p (t1 ++ [x]) -> nth_error (t1 ++ [x]) p = Some (TArray g) -> is_array_or_end x = false ->
  is_scalar x = true /\ S p <= length t1.
Proof.
  intros p t1 x g H Hn Hx.
  assert (Hp : p <> 0) by (eapply open_inv_parent_not_zero; eauto; reflexivity).
  destruct (open_inv_pos _ _ H Hp) as (pre & g0 & c0 & inner & E & -> & Hne & Hc0 & Hg & Hin).
  rewrite E, nth_error_here in Hn. inversion Hn; subst c0.
  destruct (snoc_case inner) as [Ei|[inner' [y Ei]]].
  - subst inner. change (pre ++ [TArray g]) with (pre ++ [TArray g]) in E.
    apply app_inj_tail in E. destruct E as [_ ->]. discriminate.
  - subst inner. replace (pre ++ TArray g :: inner' ++ [y]) with ((pre ++ TArray g :: inner') ++ [y]) in E
      by (rewrite <- app_assoc; reflexivity).
    apply app_inj_tail in E. destruct E as [-> ->]. split.
    + destruct (closed_seq_last _ _ _ Hin) as [A|A]; auto. destruct y; cbn in *; discriminate.
    + rewrite app_length. cbn. lia.
Qed.

(* `a={{} {} c=d}`: set_parent_to_object, write last at parent_ind+1, set_len(parent_ind+2) *)
Lemma open_inv_truncate : forall p t1 g x,
  open_inv p t1 -> nth_error t1 p = Some (TArray g) -> is_scalar x = true ->
  open_inv p (firstn (S p) (upd t1 p (TObject g)) ++ [x]).
Proof.
  intros p t1 g x H Hn Hs.
  assert (Hp : p <> 0) by (eapply open_inv_parent_not_zero; eauto; reflexivity).
  destruct (open_inv_pos _ _ H Hp) as (pre & g0 & c0 & inner & -> & -> & Hne & Hc0 & Hg & Hin).
  rewrite nth_error_here in Hn. inversion Hn; subst c0. cbn in Hc0. inversion Hc0; subst g0.
  rewrite upd_app_here.
  replace (firstn (S (length pre)) (pre ++ TObject g :: inner)) with (pre ++ [TObject g]).
  - rewrite <- app_assoc. cbn. eapply OI_in; eauto. apply CS_scalar; auto. constructor.
  - rewrite firstn_app. rewrite (firstn_all2 pre) by lia.
    replace (S (length pre) - length pre) with 1 by lia. reflexivity.
Qed.

(* ------------------------------------------------------------------ from the grammar to the index view *)
Ltac by_nth C := match type of C with nth_error ?l ?k0 = Some (TEnd ?v0) =>
  match goal with |- nth_error l ?k = Some (TEnd ?v) => replace k with k0 by lia; replace v with v0 by lia; exact C end end.
Ltac by_nth' C := match type of C with nth_error ?l ?k0 = ?r =>
  match goal with |- nth_error l ?k = r => replace k with k0 by lia; exact C end end.
Ltac set_idx v := match goal with |- nth_error _ ?k = _ => replace k with v by lia end.

Lemma cs_links : forall b l, closed_seq b l ->
  forall i c e, nth_error l i = Some c -> container_end c = Some e ->
  b + i < e /\ e < b + length l /\ nth_error l (e - b) = Some (TEnd (b + i)).
Proof.
  induction 1; intros i c0 e0 Hn Hc.
  - destruct i; discriminate.
  - destruct i; cbn in Hn.
    + inversion Hn; subst. destruct c0; cbn in *; discriminate.
    + destruct (IHclosed_seq _ _ _ Hn Hc) as (A & B & C). cbn [length]. repeat split; try lia.
      set_idx (S (e0 - S b)). cbn [nth_error]. by_nth C.
  - subst e. destruct i; cbn in Hn.
    + inversion Hn; subst c0. rewrite H in Hc. inversion Hc; subst e0. cbn [length]. rewrite app_length. cbn [length].
      repeat split; try lia.
      set_idx (S (length inner)). cbn [nth_error].
      rewrite nth_error_app2, Nat.sub_diag by lia. cbn. now rewrite Nat.add_0_r.
    + cbn [length]. rewrite app_length. cbn [length].
      destruct (Nat.lt_ge_cases i (length inner)) as [Hlt|Hge].
      * rewrite nth_error_app1 in Hn by auto.
        destruct (IHclosed_seq1 _ _ _ Hn Hc) as (A & B & C). repeat split; try lia.
        set_idx (S (e0 - S b)). cbn [nth_error]. rewrite nth_error_app1 by lia. by_nth C.
      * rewrite nth_error_app2 in Hn by auto.
        destruct (i - length inner) as [|k] eqn:Ek; cbn in Hn.
        { inversion Hn; subst. discriminate. }
        destruct (IHclosed_seq2 _ _ _ Hn Hc) as (A & B & C). repeat split; try lia.
        set_idx (S (e0 - S b)). cbn [nth_error]. rewrite nth_error_app2 by lia.
        set_idx (S (e0 - S (S b + length inner))). cbn [nth_error]. by_nth C.
Qed.

Lemma cs_back_links : forall b l, closed_seq b l ->
  forall j i, nth_error l j = Some (TEnd i) ->
  b <= i /\ i < b + j /\ exists c, nth_error l (i - b) = Some c /\ container_end c = Some (b + j).
Proof.
  induction 1; intros j i0 Hn.
  - destruct j; discriminate.
  - destruct j; cbn in Hn.
    + inversion Hn; subst. discriminate.
    + destruct (IHclosed_seq _ _ Hn) as (A & B & c & C & D). repeat split; try lia.
      exists c. split.
      * set_idx (S (i0 - S b)). cbn [nth_error]. by_nth' C.
      * rewrite D. f_equal. lia.
  - subst e. destruct j; cbn in Hn.
    + inversion Hn; subst. discriminate.
    + destruct (Nat.lt_ge_cases j (length inner)) as [Hlt|Hge].
      * rewrite nth_error_app1 in Hn by auto.
        destruct (IHclosed_seq1 _ _ Hn) as (A & B & c1 & C & D). repeat split; try lia.
        exists c1. split.
        -- set_idx (S (i0 - S b)). cbn [nth_error]. rewrite nth_error_app1; [by_nth' C|].
           apply nth_error_Some. congruence.
        -- rewrite D. f_equal. lia.
      * rewrite nth_error_app2 in Hn by auto.
        destruct (j - length inner) as [|k] eqn:Ek; cbn in Hn.
        -- inversion Hn; subst i0. repeat split; try lia. exists c. rewrite Nat.sub_diag. split; auto.
           rewrite H. f_equal. lia.
        -- destruct (IHclosed_seq2 _ _ Hn) as (A & B & c1 & C & D). repeat split; try lia.
           exists c1. split.
           ++ set_idx (S (i0 - S b)). cbn [nth_error]. rewrite nth_error_app2 by lia.
              set_idx (S (i0 - S (S b + length inner))). cbn [nth_error]. by_nth' C.
           ++ rewrite D. f_equal. lia.
Qed.

Theorem closed_is_wf : forall t, closed_seq 0 t -> not_cont_hd t -> tape_wf t.
Proof.
  intros t H Hh. repeat split; auto.
  - destruct (cs_links _ _ H _ _ _ H0 H1) as (A & B & C). lia.
  - destruct (cs_links _ _ H _ _ _ H0 H1) as (A & B & C). lia.
  - destruct (cs_links _ _ H _ _ _ H0 H1) as (A & B & C). now rewrite Nat.sub_0_r in C.
  - destruct (cs_back_links _ _ H _ _ H0) as (A & B & C). lia.
  - destruct (cs_back_links _ _ H _ _ H0) as (A & B & c & C & D). exists c. now rewrite Nat.sub_0_r in C.
  - intros e He. destruct (cs_back_links _ _ H _ _ He) as (A & B & c & C & D).
    cbn in C. apply Hh in C. apply container_end_is in D. congruence.
Qed.
