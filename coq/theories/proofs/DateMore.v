(* C13 wave 4: constructors and accessors, the meaning of Ord, totality of to_binary, the heuristics,
   RawDate::from_binary, laws of days_until / add_days over the whole range, parse o fmt o parse. *)
From JV Require Import Bytes Tables U64Swar Scalar Date DateExt.
From JV.proofs Require Import DateProofs DateProofs2 DecimalProofs SwarLanes DateParse DateFast DateFmt DateLang.
From Coq Require Import ZArith NArith Lia List Bool.
Import ListNotations.
Open Scope Z_scope.

(* ====================== constructors = calendar, accessors read the fields back ====================== *)
Definition pack (y m d h : Z) : rawdate := mkraw y (m * 4096 + d * 128 + h * 4).

Lemma raw_guard_true m d h :
  1 <= m <= 12 -> 1 <= d <= 31 -> h <= 24 ->
  negb (m =? 0) && (m <? 13) && negb (d =? 0) && (d <? 32) && (h <? 25) = true.
Proof.
  intros. repeat (apply andb_true_intro; split); try (apply negb_true_iff; apply Z.eqb_neq); try apply Z.ltb_lt; lia.
Qed.

(* RawDate::from_ymdh_opt on u8 arguments (0 <= m, d, h) *)
Theorem ctor_raw_iff y m d h r :
  0 <= m -> 0 <= d -> 0 <= h ->
  (raw_from_ymdh_opt y m d h = Some r <-> 1 <= m <= 12 /\ 1 <= d <= 31 /\ h <= 24 /\ r = pack y m d h).
Proof.
  intros Hm Hd Hh. split.
  - intros H. apply raw_from_ymdh_some in H as (A & B & C & D & E & F). unfold pack. repeat split; auto; lia.
  - intros (A & B & C & ->). unfold raw_from_ymdh_opt. rewrite raw_guard_true by lia. reflexivity.
Qed.

Lemma ctor_raw_none y m d h :
  0 <= m -> 0 <= d -> 0 <= h -> ~ (1 <= m <= 12 /\ 1 <= d <= 31 /\ h <= 24) -> raw_from_ymdh_opt y m d h = None.
Proof.
  intros Hm Hd Hh Hn. destruct (raw_from_ymdh_opt y m d h) as [r|] eqn:E; [|reflexivity].
  apply (ctor_raw_iff y m d h r Hm Hd Hh) in E. exfalso. apply Hn. tauto.
Qed.

(* accessors: year(), month(), day(), hour(), has_hour() of the packed value *)
Theorem accessors y m d h :
  1 <= m <= 12 -> 1 <= d <= 31 -> 0 <= h <= 24 ->
  ry (pack y m d h) = y /\ raw_month (pack y m d h) = m /\ raw_day (pack y m d h) = d /\
  raw_hour (pack y m d h) = h /\ raw_has_hour (pack y m d h) = negb (h =? 0).
Proof.
  intros Hm Hd Hh. destruct (raw_fields y m d h Hm Hd Hh) as (r & Hr & H1 & H2 & H3 & H4).
  apply raw_from_ymdh_some in Hr as (_ & _ & _ & _ & _ & ->). fold (pack y m d h) in *.
  repeat split; auto.
  pose proof (hh_check_ok m d h Hm Hd Hh) as Hc. unfold hh_check in Hc. apply eqb_prop in Hc.
  unfold raw_has_hour in *. cbn [rdata pack] in *. exact Hc.
Qed.

Lemma valid_md_dpm m d :
  valid_md m d = true <-> 1 <= m <= 12 /\ 1 <= d /\ exists v, dpm m = Ok v /\ d <= v.
Proof.
  unfold valid_md, dpm. split.
  - intros H. apply andb_prop in H as [H H4]. apply andb_prop in H as [H H3]. apply andb_prop in H as [H1 H2].
    apply Z.leb_le in H1, H2, H3.
    destruct (nth_error days_per_month (Z.to_nat m)) as [v|]; [|discriminate]. apply Z.leb_le in H4.
    repeat split; try lia. exists v. split; [reflexivity|lia].
  - intros (Hm & Hd & v & Hv & Hle).
    destruct (nth_error days_per_month (Z.to_nat m)) as [v'|]; [|discriminate]. inversion Hv; subst v'.
    repeat (apply andb_true_intro; split); apply Z.leb_le; lia.
Qed.

(* Date::from_ymd_opt *)
Theorem ctor_date_iff y m d r :
  0 <= m -> 0 <= d ->
  (date_from_ymd_opt y m d = Ok (Some r) <-> valid_md m d = true /\ r = pack y m d 0).
Proof.
  intros Hm Hd. split.
  - intros H. split; [exact (date_from_ymd_inv y m d r Hm Hd H)|].
    apply date_from_ymd_raw in H. apply raw_from_ymdh_some in H as (_ & _ & _ & _ & _ & ->). reflexivity.
  - intros (Hv & ->). destruct (date_from_ymd_valid y m d Hv) as (r & Hr & _). rewrite Hr.
    apply date_from_ymd_raw in Hr. apply raw_from_ymdh_some in Hr as (_ & _ & _ & _ & _ & ->). reflexivity.
Qed.

Theorem ctor_date_none y m d :
  0 <= m -> 0 <= d -> valid_md m d = false -> date_from_ymd_opt y m d = Ok None.
Proof.
  intros Hm Hd Hv. unfold date_from_ymd_opt.
  destruct (raw_from_ymdh_opt y m d 0) as [r0|] eqn:E; [|reflexivity].
  apply raw_from_ymdh_some in E as (M0 & M13 & D0 & D32 & _).
  destruct (dpm_ok m M13) as (v & Hv'). rewrite Hv'. cbn [obind].
  destruct (d <=? v) eqn:Ev; [|reflexivity]. apply Z.leb_le in Ev.
  exfalso. assert (valid_md m d = true); [|congruence].
  apply valid_md_dpm. repeat split; try lia. exists v. auto.
Qed.

(* DateHour::from_ymdh_opt *)
Theorem ctor_datehour_iff y m d h r :
  0 <= m -> 0 <= d -> 0 <= h ->
  (datehour_from_ymdh_opt y m d h = Ok (Some r) <-> valid_md m d = true /\ 1 <= h <= 24 /\ r = pack y m d h).
Proof.
  intros Hm Hd Hh. unfold datehour_from_ymdh_opt. split.
  - destruct (raw_from_ymdh_opt y m d h) as [r0|] eqn:E; [|discriminate].
    apply raw_from_ymdh_some in E as (M0 & M13 & D0 & D32 & H25 & ->).
    destruct (dpm m) as [v| | | |] eqn:Ev; cbn [obind]; try discriminate.
    destruct ((0 <? h) && (d <=? v)) eqn:Ec; [|discriminate].
    apply andb_prop in Ec as [E1 E2]. apply Z.ltb_lt in E1. apply Z.leb_le in E2.
    intros H. inversion H. split; [|split; [lia|reflexivity]].
    apply valid_md_dpm. repeat split; try lia. exists v. auto.
  - intros (Hv & Hh' & ->). pose proof (valid_md_bounds _ _ Hv) as [Hm' Hd'].
    apply valid_md_dpm in Hv as (_ & _ & v & Hdp & Hle).
    unfold raw_from_ymdh_opt. rewrite raw_guard_true by lia. cbn [obind]. rewrite Hdp. cbn [obind].
    replace ((0 <? h) && (d <=? v)) with true
      by (symmetry; apply andb_true_intro; split; [apply Z.ltb_lt|apply Z.leb_le]; lia).
    reflexivity.
Qed.

Theorem ctor_datehour_none y m d h :
  0 <= m -> 0 <= d -> 0 <= h -> ~ (valid_md m d = true /\ 1 <= h <= 24) -> datehour_from_ymdh_opt y m d h = Ok None.
Proof.
  intros Hm Hd Hh Hn. unfold datehour_from_ymdh_opt.
  destruct (raw_from_ymdh_opt y m d h) as [r0|] eqn:E; [|reflexivity].
  apply raw_from_ymdh_some in E as (M0 & M13 & D0 & D32 & H25 & _).
  destruct (dpm_ok m M13) as (v & Hv'). rewrite Hv'. cbn [obind].
  destruct ((0 <? h) && (d <=? v)) eqn:Ec; [|reflexivity].
  apply andb_prop in Ec as [E1 E2]. apply Z.ltb_lt in E1. apply Z.leb_le in E2.
  exfalso. apply Hn. split; [|lia]. apply valid_md_dpm. repeat split; try lia. exists v. auto.
Qed.

(* UniformDate::from_ymd_opt: twelve months of thirty days, February included *)
Theorem ctor_uniform_iff y m d r :
  0 <= m -> 0 <= d ->
  (uniform_from_ymd_opt y m d = Some r <-> 1 <= m <= 12 /\ 1 <= d <= 30 /\ r = pack y m d 0).
Proof.
  intros Hm Hd. unfold uniform_from_ymd_opt. split.
  - destruct (30 <? d) eqn:E; [discriminate|]. apply Z.ltb_ge in E.
    intros H. apply raw_from_ymdh_some in H as (A & B & C & D & _ & ->). repeat split; auto; lia.
  - intros (A & B & ->). replace (30 <? d) with false by (symmetry; apply Z.ltb_ge; lia).
    unfold raw_from_ymdh_opt. rewrite raw_guard_true by lia. reflexivity.
Qed.

Example ctor_examples :
  date_from_ymd_opt 2020 2 29 = Ok None /\ date_from_ymd_opt 2020 2 28 = Ok (Some (pack 2020 2 28 0)) /\
  uniform_from_ymd_opt 2020 2 30 = Some (pack 2020 2 30 0) /\ uniform_from_ymd_opt 2020 1 31 = None /\
  datehour_from_ymdh_opt 1936 1 1 0 = Ok None /\ datehour_from_ymdh_opt 1936 1 1 25 = Ok None /\
  datehour_from_ymdh_opt 1936 1 1 24 = Ok (Some (pack 1936 1 1 24)) /\
  date_from_ymd_opt 1 0 1 = Ok None /\ date_from_ymd_opt 1 13 1 = Ok None /\
  date_from_ymd (2020) 2 29 = Panic 1310.
Proof. vm_compute. repeat split. Qed.

(* ====================== Ord = lexicographic order of (year, month, day, hour) ====================== *)
Definition lex4 (a b : Z * Z * Z * Z) : comparison :=
  let '(y1, m1, d1, h1) := a in let '(y2, m2, d2, h2) := b in
  match y1 ?= y2 with Eq => match m1 ?= m2 with Eq => match d1 ?= d2 with Eq => h1 ?= h2 | c => c end | c => c end | c => c end.

Definition fields_ok (m d h : Z) : Prop := 1 <= m <= 12 /\ 1 <= d <= 31 /\ 0 <= h <= 24.

Theorem cmp_lex y1 m1 d1 h1 y2 m2 d2 h2 :
  fields_ok m1 d1 h1 -> fields_ok m2 d2 h2 ->
  raw_cmp (pack y1 m1 d1 h1) (pack y2 m2 d2 h2) = lex4 (y1, m1, d1, h1) (y2, m2, d2, h2).
Proof.
  intros (A1 & B1 & C1) (A2 & B2 & C2). unfold raw_cmp, lex4, pack. cbn [ry rdata].
  destruct (Z.compare_spec y1 y2); try reflexivity.
  destruct (Z.compare_spec m1 m2) as [Em|Em|Em].
  - subst m2. destruct (Z.compare_spec d1 d2) as [Ed|Ed|Ed].
    + subst d2. destruct (Z.compare_spec h1 h2); [apply Z.compare_eq_iff|apply Z.compare_lt_iff|apply Z.compare_gt_iff]; lia.
    + apply Z.compare_lt_iff. lia.
    + apply Z.compare_gt_iff. lia.
  - apply Z.compare_lt_iff. lia.
  - apply Z.compare_gt_iff. lia.
Qed.

(* the order is total and consistent with the derived PartialEq (raw_eqb) and with equality *)
Theorem cmp_eq_iff a b : (raw_cmp a b = Eq <-> a = b) /\ (raw_eqb a b = true <-> a = b).
Proof.
  destruct a as [ya da], b as [yb db]. unfold raw_cmp, raw_eqb. cbn [ry rdata]. split; split.
  - destruct (Z.compare_spec ya yb) as [Ey|Ey|Ey]; try discriminate. intros Hc. apply Z.compare_eq_iff in Hc. congruence.
  - intros H. inversion H. subst. rewrite !Z.compare_refl. reflexivity.
  - intros H. apply andb_prop in H as [H1 H2]. apply Z.eqb_eq in H1, H2. congruence.
  - intros H. inversion H. subst. rewrite !Z.eqb_refl. reflexivity.
Qed.

Theorem cmp_antisym a b : raw_cmp b a = CompOpp (raw_cmp a b).
Proof.
  unfold raw_cmp. rewrite (Z.compare_antisym (ry a) (ry b)), (Z.compare_antisym (rdata a) (rdata b)).
  destruct (ry a ?= ry b); reflexivity.
Qed.

Theorem cmp_trans a b c : raw_cmp a b = Lt -> raw_cmp b c = Lt -> raw_cmp a c = Lt.
Proof.
  unfold raw_cmp.
  destruct (Z.compare_spec (ry a) (ry b)), (Z.compare_spec (ry b) (ry c)); try discriminate;
    destruct (Z.compare_spec (ry a) (ry c)); try lia; try reflexivity;
    rewrite ?Z.compare_lt_iff; try lia; try discriminate.
Qed.

(* inside a negative year the day number runs backwards: Ord and days_until disagree (outside "years >= 1") *)
Example ord_sign_negative_witness :
  is_date (pack (-5) 1 1 0) /\ is_date (pack (-5) 1 2 0) /\
  raw_cmp (pack (-5) 1 1 0) (pack (-5) 1 2 0) = Lt /\ days_until (pack (-5) 1 1 0) (pack (-5) 1 2 0) = Ok (-1).
Proof.
  split; [exists (-5), 1, 1; repeat split; vm_compute; reflexivity|].
  split; [exists (-5), 1, 2; repeat split; vm_compute; reflexivity|].
  split; vm_compute; reflexivity.
Qed.

(* ====================== to_binary: total for every valid date, closed form ====================== *)
Theorem to_binary_total y m d :
  in_i16 y = true -> valid_md m d = true ->
  exists j, julian_ordinal_day m = Ok j /\ 0 <= j + d <= 364 /\
    date_to_binary (pack y m d 0) = Ok (((y + 5000) * 365 + (j + d)) * 24) /\
    in_i32 (((y + 5000) * 365 + (j + d)) * 24) = true /\
    forall h, 1 <= h <= 24 ->
      datehour_to_binary (pack y m d h) = Ok (((y + 5000) * 365 + (j + d)) * 24 + (h - 1)).
Proof.
  intros Hy Hv. pose proof (valid_md_bounds _ _ Hv) as [Hm Hd].
  destruct (md_roundtrip m d Hv) as (j & Hj & _ & Ho). apply in_i16_true in Hy.
  exists j. split; [exact Hj|]. split; [exact Ho|].
  assert (Hr : in_i32 (((y + 5000) * 365 + (j + d)) * 24) = true) by (apply in_i32_true; lia).
  split; [|split; [exact Hr|]].
  - destruct (accessors y m d 0 Hm Hd ltac:(lia)) as (H1 & H2 & H3 & H4 & _).
    unfold date_to_binary. rewrite H2, Hj. cbn [obind]. unfold to_binary_z. rewrite H1, H3.
    change (0 <=? 1) with true. cbv iota. rewrite Z.add_0_r, Hr. reflexivity.
  - intros h Hh. destruct (accessors y m d h Hm Hd ltac:(lia)) as (H1 & H2 & H3 & H4 & _).
    unfold datehour_to_binary. rewrite H2, Hj. cbn [obind]. unfold to_binary_z. rewrite H1, H3, H4.
    destruct (h <=? 1) eqn:E; [apply Z.leb_le in E|apply Z.leb_gt in E].
    + replace (h - 1) with 0 by lia. rewrite Z.add_0_r, Hr. reflexivity.
    + replace (in_i32 (((y + 5000) * 365 + (j + d)) * 24 + (h - 1))) with true by (symmetry; apply in_i32_true; lia).
      reflexivity.
Qed.

(* ====================== heuristics, RawDate::from_binary ====================== *)
(* Date::from_binary_heuristic = from_binary restricted to year > -100 AND binary hour 0 *)
Theorem date_heuristic_spec s r :
  date_from_binary_heuristic s = Ok (Some r) <->
  date_from_binary s = Ok (Some r) /\ -100 < ry r /\ Z.rem s 24 = 0.
Proof.
  unfold date_from_binary_heuristic, date_from_binary.
  destruct (x_from_binary_shape s) as [-> | (y & o & h & m & d & j & -> & Es & Eh & Hh & Ho & Hy & Hv & Hj & Hjd)].
  { cbn. split; [discriminate|intros (H & _); discriminate]. }
  unfold olift. cbn [obind xy xm xd xh]. unfold date_from_expanded. cbn [xy xm xd xh Z.eqb negb].
  destruct (date_from_ymd_valid y m d Hv) as (r' & Hr' & H1 & _). rewrite Hr'. rewrite <- Eh.
  destruct (-100 <? y) eqn:E100; [apply Z.ltb_lt in E100|apply Z.ltb_ge in E100].
  - destruct (h =? 0) eqn:E0; cbn [negb]; [apply Z.eqb_eq in E0|apply Z.eqb_neq in E0].
    + split; [intros H; inversion H; subst; repeat split; auto; lia|intros (H & _); exact H].
    + split; [discriminate|]. intros (_ & _ & H). contradiction.
  - split; [discriminate|]. intros (H & Hy' & _). inversion H. subst r'. lia.
Qed.

Definition is_sentinel (r : rawdate) : bool :=
  ((ry r =? 1) || (ry r =? -1)) && (raw_month r =? 1) && (raw_day r =? 1) && (raw_hour r =? 1).

Theorem datehour_heuristic_spec s r :
  datehour_from_binary_heuristic s = Ok (Some r) <->
  datehour_from_binary s = Ok (Some r) /\ (1800 <= ry r \/ is_sentinel r = true).
Proof.
  unfold datehour_from_binary_heuristic.
  destruct (datehour_from_binary s) as [[r0|]| | | |] eqn:E; unfold olift; cbn [obind];
    try (split; [discriminate|intros (H & _); discriminate]).
  fold (is_sentinel r0).
  destruct (ry r0 <? 1800) eqn:E18; [apply Z.ltb_lt in E18|apply Z.ltb_ge in E18]; cbn [andb].
  - destruct (is_sentinel r0) eqn:Es; cbn [negb].
    + split; [intros H; inversion H; subst; auto|intros (H & _); exact H].
    + split; [discriminate|]. intros (H & [Hy|Hs]); inversion H; subst; [lia|congruence].
  - split; [intros H; inversion H; subst; split; auto|intros (H & _); exact H].
Qed.

(* RawDate::from_binary: never crashes; accepts exactly what the typed decoders accept and shows the same
   day, with the binary hour as is (0..23; DateHour shows it +1, Date drops it) *)
Theorem raw_from_binary_spec s :
  is_crash (raw_from_binary s) = false /\
  forall r, raw_from_binary s = Ok (Some r) <->
    exists y m d, r = pack y m d (Z.rem s 24) /\ 0 <= Z.rem s 24 <= 23 /\
      date_from_binary s = Ok (Some (pack y m d 0)) /\
      datehour_from_binary s = Ok (Some (pack y m d (Z.rem s 24 + 1))).
Proof.
  unfold raw_from_binary, date_from_binary, datehour_from_binary.
  destruct (x_from_binary_shape s) as [-> | (y & o & h & m & d & j & -> & Es & Eh & Hh & Ho & Hy & Hv & Hj & Hjd)].
  { split; [reflexivity|]. intros r. cbn. split; [discriminate|intros (y & m & d & _ & _ & H & _); discriminate]. }
  unfold olift. cbn [obind xy xm xd xh]. unfold raw_from_expanded, date_from_expanded, datehour_from_expanded.
  cbn [xy xm xd xh Z.eqb negb]. pose proof (valid_md_bounds _ _ Hv) as [Hm Hd].
  assert (R : raw_from_ymdh_opt y m d h = Some (pack y m d h))
    by (apply ctor_raw_iff; try lia; repeat split; try lia).
  assert (D : date_from_ymd_opt y m d = Ok (Some (pack y m d 0))) by (apply ctor_date_iff; try lia; auto).
  assert (H : datehour_from_ymdh_opt y m d (h + 1) = Ok (Some (pack y m d (h + 1))))
    by (apply ctor_datehour_iff; try lia; repeat split; auto; lia).
  rewrite R, D, H, <- Eh. split; [reflexivity|]. intros r. split.
  - intros E. inversion E. exists y, m, d. repeat split; auto; lia.
  - intros (y' & m' & d' & -> & _ & E & _). inversion E. unfold pack. do 3 f_equal. lia.
Qed.

(* ====================== day numbers, days_until, add_days ====================== *)
Lemma is_date_pack r : is_date r <-> exists y m d, in_i16 y = true /\ valid_md m d = true /\ r = pack y m d 0.
Proof.
  split.
  - intros (y & m & d & Hy & Hv & Hr). exists y, m, d. split; [exact Hy|]. split; [exact Hv|].
    pose proof (valid_md_bounds _ _ Hv) as [Hm Hd]. apply ctor_date_iff in Hr; [tauto|lia|lia].
  - intros (y & m & d & Hy & Hv & ->). exists y, m, d. split; [exact Hy|]. split; [exact Hv|].
    pose proof (valid_md_bounds _ _ Hv) as [Hm Hd]. apply ctor_date_iff; [lia|lia|auto].
Qed.

(* Date::days is injective on valid dates: the day number identifies the date *)
Theorem date_days_inj r1 r2 D :
  is_date r1 -> is_date r2 -> date_days r1 = Ok D -> date_days r2 = Ok D -> r1 = r2.
Proof.
  intros Hd1 Hd2 E1 E2.
  destruct (is_date_fields r1 Hd1) as (y1 & m1 & d1 & j1 & Hi1 & V1 & _ & A1 & A2 & A3 & _ & A5 & J1 & O1).
  destruct (is_date_fields r2 Hd2) as (y2 & m2 & d2 & j2 & Hi2 & V2 & _ & B1 & B2 & B3 & _ & B5 & J2 & O2).
  rewrite (date_days_eq r1 y1 m1 d1 j1 A1 A2 A3 J1) in E1. rewrite (date_days_eq r2 y2 m2 d2 j2 B1 B2 B3 J2) in E2.
  inversion E1 as [F1]. inversion E2 as [F2]. clear E1 E2.
  apply in_i16_true in Hi1, Hi2.
  assert (y1 = y2 /\ j1 + d1 = j2 + d2) as [Ey Eo].
  { destruct (y1 * 365 <? 0) eqn:S1; [apply Z.ltb_lt in S1|apply Z.ltb_ge in S1];
      destruct (y2 * 365 <? 0) eqn:S2; [apply Z.ltb_lt in S2|apply Z.ltb_ge in S2|apply Z.ltb_lt in S2|apply Z.ltb_ge in S2]; lia. }
  assert (m1 * 4096 + d1 * 128 = m2 * 4096 + d2 * 128) as Ep.
  { pose proof (ord_packed m1 d1 m2 d2 j1 j2 V1 V2 J1 J2) as Hc.
    rewrite Eo, Z.compare_refl in Hc. apply Z.compare_eq_iff in Hc. exact Hc. }
  destruct r1 as [ry1 rd1], r2 as [ry2 rd2]. cbn [ry rdata] in *. congruence.
Qed.

Lemma is_date_days_range r :
  is_date r -> exists D, date_days r = Ok D /\ (0 <= D < 11960320 \/ -11960685 < D <= -365).
Proof.
  intros H. destruct (is_date_days r H) as (D & o & HD & Ho & Hc). exists D. split; [exact HD|].
  destruct (is_date_fields r H) as (y & _ & _ & _ & Hy & _ & _ & A1 & _). apply in_i16_true in Hy. rewrite A1 in Hc. lia.
Qed.

(* days_until never overflows on valid dates, is antisymmetric and additive *)
Theorem days_until_total a b c :
  is_date a -> is_date b -> is_date c ->
  exists Da Db Dc, date_days a = Ok Da /\ date_days b = Ok Db /\ date_days c = Ok Dc /\
    days_until a b = Ok (Db - Da) /\ days_until b a = Ok (- (Db - Da)) /\
    days_until a c = Ok ((Db - Da) + (Dc - Db)) /\ (days_until a b = Ok 0 <-> a = b).
Proof.
  intros Ha Hb Hc.
  destruct (is_date_days_range a Ha) as (Da & EA & RA). destruct (is_date_days_range b Hb) as (Db & EB & RB).
  destruct (is_date_days_range c Hc) as (Dc & EC & RC).
  exists Da, Db, Dc. repeat split; auto; unfold days_until; rewrite ?EA, ?EB, ?EC; cbn [obind].
  - replace (in_i32 (Db - Da)) with true by (symmetry; apply in_i32_true; lia). reflexivity.
  - replace (in_i32 (Da - Db)) with true by (symmetry; apply in_i32_true; lia). f_equal. lia.
  - replace (in_i32 (Dc - Da)) with true by (symmetry; apply in_i32_true; lia). f_equal. lia.
  - replace (in_i32 (Db - Da)) with true by (symmetry; apply in_i32_true; lia).
    intros H. inversion H. apply (date_days_inj a b Da Ha Hb EA). rewrite EB. f_equal. lia.
  - intros <-. rewrite EA in EB. inversion EB. subst Db.
    replace (in_i32 (Da - Da)) with true by (symmetry; apply in_i32_true; lia). f_equal. lia.
Qed.

(* the inverse law the other way round holds for ALL valid dates, on whichever sides of year 0 they lie *)
Theorem add_days_of_days_until a b :
  is_date a -> is_date b -> exists n, days_until a b = Ok n /\ add_days a n = Ok b.
Proof.
  intros Ha Hb.
  destruct (is_date_days_range a Ha) as (Da & EA & RA). destruct (is_date_days_range b Hb) as (Db & EB & RB).
  destruct (days_until_total a b b Ha Hb Hb) as (Da' & Db' & _ & EA' & EB' & _ & Hu & _).
  rewrite EA in EA'. rewrite EB in EB'. inversion EA'. inversion EB'. subst Da' Db'.
  exists (Db - Da). split; [exact Hu|].
  destruct (add_days_until a (Db - Da) Da Ha EA) as (r' & Hr' & Hd' & Hdays' & _).
  { replace (Da + (Db - Da)) with Db by lia. exact RB. }
  rewrite Hr'. f_equal. apply (date_days_inj r' b Db Hd' Hb); [|exact EB].
  rewrite Hdays'. f_equal. lia.
Qed.

(* add_days succeeds exactly when the target day number is representable (documented panic otherwise),
   and then lands on the date with that day number whenever one exists (i.e. outside (-365, 0)) *)
Theorem add_days_ok_iff r n D :
  is_date r -> date_days r = Ok D ->
  ((exists r', add_days r n = Ok r') <-> -11960685 < D + n < 11960320) /\
  (~ (-11960685 < D + n < 11960320) -> is_crash (add_days r n) = true).
Proof.
  intros Hd HD.
  destruct (is_date_fields r Hd) as (y & m & d & j & Hy & Hv & Hr & H1 & H2 & H3 & H4 & H5 & Hj & Ho).
  unfold add_days. rewrite HD. cbn [obind].
  destruct (in_i32 (D + n)) eqn:E32; cbn [negb].
  2:{ assert (~ (-2147483648 <= D + n <= 2147483647)) as Hn by (intros H; apply in_i32_true in H; congruence).
      split; [split; [intros (r' & H); discriminate|intros; lia]|reflexivity]. }
  apply in_i32_true in E32.
  assert (Hdsj : 0 <= Z.abs (Z.rem (D + n) 365) <= 364) by (Z.to_euclidean_division_equations; lia).
  destruct (dm_roundtrip _ Hdsj) as (m' & d' & j' & Hmd & Hv' & _ & _). rewrite Hmd. cbn [obind].
  pose proof (valid_md_bounds _ _ Hv') as [Hm' Hd'].
  destruct (in_i16 (Z.quot (D + n) 365)) eqn:E16; cbn [negb].
  - apply in_i16_true in E16. rewrite H4.
    assert (R : raw_from_ymdh_opt (Z.quot (D + n) 365) m' d' 0 = Some (pack (Z.quot (D + n) 365) m' d' 0))
      by (apply ctor_raw_iff; try lia; repeat split; try lia).
    rewrite R. split; [split; [intros _|intros _; eauto]|intros Hn; exfalso; apply Hn];
      Z.to_euclidean_division_equations; lia.
  - assert (~ (-32768 <= Z.quot (D + n) 365 <= 32767)) as Hn by (intros H; apply in_i16_true in H; congruence).
    split; [split; [intros (r' & H); discriminate|intros H; exfalso; apply Hn; Z.to_euclidean_division_equations; lia]|reflexivity].
Qed.

(* consecutive additions compose while every intermediate stays on the dated part of the axis *)
Theorem add_days_compose r n1 n2 D :
  is_date r -> date_days r = Ok D ->
  (0 <= D + n1 < 11960320 \/ -11960685 < D + n1 <= -365) ->
  (0 <= D + n1 + n2 < 11960320 \/ -11960685 < D + n1 + n2 <= -365) ->
  exists r1 r2, add_days r n1 = Ok r1 /\ add_days r1 n2 = Ok r2 /\ add_days r (n1 + n2) = Ok r2.
Proof.
  intros Hd HD S1 S2.
  destruct (add_days_until r n1 D Hd HD S1) as (r1 & A1 & D1 & E1 & _).
  destruct (add_days_until r1 n2 (D + n1) D1 E1 S2) as (r2 & A2 & D2 & E2 & _).
  destruct (add_days_until r (n1 + n2) D Hd HD) as (r3 & A3 & D3 & E3 & _); [rewrite Z.add_assoc; exact S2|].
  exists r1, r2. split; [exact A1|]. split; [exact A2|]. rewrite A3. f_equal.
  apply (date_days_inj r3 r2 (D + n1 + n2) D3 D2); [rewrite E3; f_equal; lia|exact E2].
Qed.

(* ====================== parse o game_fmt o parse = parse ====================== *)
Theorem parse_fmt_idem_date s r :
  wfl s -> date_parse s = Ok (Some r) ->
  date_parse (game_fmt false r) = Ok (Some r) /\ date_parse (game_fmt true r) = Ok (Some r).
Proof.
  intros Hw H. apply (date_lang s r Hw) in H as (y & m & d & Hy & Hv & Hr & _).
  destruct (fmt_parse_date y m d Hy Hv) as (r' & Hr' & P1 & P2). rewrite Hr in Hr'. inversion Hr'. subst r'. auto.
Qed.

Theorem parse_fmt_idem_datehour s r :
  datehour_parse s = Ok (Some r) -> datehour_parse (game_fmt false r) = Ok (Some r).
Proof.
  intros H. apply datehour_lang in H as (y & m & d & h & Hy & Hv & Hh & Hr & _).
  destruct (fmt_parse_datehour y m d h Hy Hv Hh) as (r' & Hr' & P1 & _). rewrite Hr in Hr'. inversion Hr'. subst r'. auto.
Qed.

Theorem parse_fmt_idem_uniform s r :
  uniform_parse s = Ok (Some r) ->
  uniform_parse (game_fmt true r) = Ok (Some r) /\ uniform_parse (game_fmt false r) = Ok (Some r).
Proof.
  intros H. apply uniform_lang in H as (y & m & d & Hy & Hm & Hd & Hr & _).
  destruct (fmt_parse_uniform y m d Hy Hm Hd) as (r' & Hr' & P1 & P2). rewrite Hr in Hr'. inversion Hr'. subst r'. auto.
Qed.

(* the zero-padded rendering of an hour below 10 is NOT read back: the parser refuses a leading '0' in the
   hour (to exclude hour 0) -- witness for every such hour of one day *)
Theorem fmt_parse_wide_hour_lt10_witness :
  forallb (fun h => match datehour_from_ymdh_opt 1936 1 2 h with
                    | Ok (Some r) => match datehour_parse (game_fmt true r), raw_parse (game_fmt true r) with
                                     | Ok None, Ok None => true | _, _ => false end
                    | _ => false end) (zrange 1 9) = true.
Proof. vm_compute. reflexivity. Qed.

(* ====================== serde / FromStr are the same codecs ====================== *)
Theorem visit_spec :
  (forall v, date_visit (DeI32 v) = date_from_binary v /\ datehour_visit (DeI32 v) = datehour_from_binary v /\
             uniform_visit (DeI32 v) = Ok None) /\
  (forall s, date_visit (DeStr s) = date_parse s /\ datehour_visit (DeStr s) = datehour_parse s /\
             uniform_visit (DeStr s) = uniform_parse s /\
             date_from_str s = date_parse s /\ datehour_from_str s = datehour_parse s /\
             uniform_from_str s = uniform_parse s /\ raw_from_str s = raw_parse s).
Proof. split; intros; repeat split. Qed.

(* Serialize then read the string back with the ISO component reader: same components *)
Theorem ser_json_iso r : date_ser_json r = [34%N] ++ iso_fmt r ++ [34%N].
Proof. reflexivity. Qed.
