(* C19 (binary half): truncated binary documents never yield fabricated data.

   The run of the reference interpretation (opt = false) on a prefix of the input is compared with
   the run on the whole input.  [chop r l] is l without its last r bytes; every reader is LOCAL:
   on the chopped input it returns the same value and the chopped rest as long as the rest it
   leaves is not touched by the cut, and Err E_LexEof otherwise -- exactly, not only "or".  The
   same holds for one iteration of the tape parser, hence the run on the prefix follows the run on
   the whole input up to the last iteration whose tokens lie entirely inside the prefix, and then
   stops: with an error if the cut falls inside the next group of tokens (id + payload, or `{` `}`
   in key position), with [finish] (Ok only at top level in key position) if fewer than two bytes
   are left. *)
From JV Require Import Bytes Tables BinPrim BinTape BinTapeWf.
From JV.proofs Require Import BinTapeWfProofs BinTapeInv BinTapeSim BinTapeSafe.
Require Import Lia.
Open Scope nat_scope.

(* ------------------------------------------------------------------ chop *)
Definition chop (r : nat) (l : bytes) : bytes := firstn (length l - r) l.
Definition chopS (r : nat) (s : st) : st := mkst (chop r (s_data s)) (s_ps s) (s_par s) (s_tape s).

Lemma chop_length : forall r l, length (chop r l) = length l - r.
Proof. intros. unfold chop. rewrite firstn_length. lia. Qed.

Lemma chop_0 : forall l, chop 0 l = l.
Proof. intros. unfold chop. rewrite Nat.sub_0_r. apply firstn_all. Qed.

Lemma firstn_chop : forall k D, firstn k D = chop (length D - k) D.
Proof.
  intros. unfold chop. destruct (Nat.le_gt_cases k (length D)).
  - replace (length D - (length D - k)) with k by lia. reflexivity.
  - replace (length D - (length D - k)) with (length D) by lia. rewrite !firstn_all2; auto; lia.
Qed.

Lemma chopS_0 : forall s, chopS 0 s = s.
Proof. intros [d ps par t]. unfold chopS; cbn [s_data s_ps s_par s_tape]. now rewrite chop_0. Qed.

(* ------------------------------------------------------------------ reader locality *)
Lemma get_split_chop : forall n d h d' r, get_split n d = Some (h, d') -> r <= length d ->
  (r <= length d' -> get_split n (chop r d) = Some (h, chop r d')) /\
  (length d' < r -> get_split n (chop r d) = None).
Proof.
  intros n d h d' r H Hr. pose proof (get_split_len _ _ _ _ H) as [L _].
  unfold get_split in *. destruct (Nat.leb n (length d)) eqn:E; [|discriminate]. apply Nat.leb_le in E.
  inversion H; subst; clear H. rewrite chop_length. split; intro Hc.
  - replace (Nat.leb n (length d - r)) with true by (symmetry; apply Nat.leb_le; lia).
    unfold chop. rewrite firstn_firstn, skipn_firstn_comm, skipn_length.
    replace (Nat.min n (length d - r)) with n by lia.
    replace (length d - n - r) with (length d - r - n) by lia. reflexivity.
  - replace (Nat.leb n (length d - r)) with false; [reflexivity|]. symmetry. apply Nat.leb_gt. lia.
Qed.

(* X d = Ok (v, d'): d' is no longer than d, and on d without its last r bytes X returns the same
   value and the chopped rest if the cut does not reach into what X consumed, Err E_LexEof if it does *)
Definition loc {A} (X : bytes -> outcome (A * bytes)) : Prop :=
  forall d v d', X d = Ok (v, d') ->
    length d' <= length d /\
    forall r, r <= length d ->
      (r <= length d' -> X (chop r d) = Ok (v, chop r d')) /\
      (length d' < r -> X (chop r d) = Err E_LexEof).

Lemma loc_ext : forall {A} (X Y : bytes -> outcome (A * bytes)), (forall d, X d = Y d) -> loc X -> loc Y.
Proof. intros A X Y E H d v d' HY. rewrite <- E in HY. destruct (H _ _ _ HY) as [L C]. split; auto. intros r Hr. rewrite <- E. auto. Qed.

Lemma loc_gs : forall {A} n (f : bytes -> A),
  loc (fun d => match get_split n d with Some (h, r) => Ok (f h, r) | None => Err E_LexEof end).
Proof.
  intros A n f d v d' H. destruct (get_split n d) as [[h r0]|] eqn:E; [|discriminate]. inversion H; subst; clear H.
  split; [apply get_split_len in E; lia|]. intros r Hr. destruct (get_split_chop _ _ _ _ _ E Hr) as [C1 C2].
  split; intro Hc; [rewrite (C1 Hc)|rewrite (C2 Hc)]; reflexivity.
Qed.

Lemma loc_gs_pair : forall n, loc (fun d => match get_split n d with Some p => Ok p | None => Err E_LexEof end).
Proof. intro n. eapply loc_ext; [|apply (loc_gs n (fun h => h))]. intro d. cbv beta. destruct (get_split n d) as [[h r]|]; reflexivity. Qed.

Lemma loc_ret : forall {A} (v : A), loc (fun d => Ok (v, d)).
Proof. intros A v d v' d' H. inversion H; subst. split; auto. intros r Hr. split; intro; [reflexivity|lia]. Qed.

Lemma loc_nok : forall {A} (o : outcome (A * bytes)), is_ok o = false -> loc (fun _ => o).
Proof. intros A o H d v d' E. rewrite E in H. discriminate. Qed.

Lemma loc_bind : forall {A B} (X : bytes -> outcome (A * bytes)) (G : A * bytes -> outcome (B * bytes)),
  loc X -> (forall a, loc (fun d => G (a, d))) -> loc (fun d => obind (X d) G).
Proof.
  intros A B X G HX HG d v d' H. cbv beta in H. destruct (X d) as [[a d1]| | | |] eqn:E; try discriminate. cbn [obind] in H.
  destruct (HX _ _ _ E) as [L1 C1]. destruct (HG a d1 v d' H) as [L2 C2]. split; [lia|]. intros r Hr.
  destruct (le_lt_dec r (length d1)) as [Hle|Hlt].
  - destruct (C1 r Hr) as [C1a _]. rewrite (C1a Hle). cbn [obind]. apply (C2 r Hle).
  - destruct (C1 r Hr) as [_ C1b]. rewrite (C1b Hlt). cbn [obind]. split; [intro; lia|reflexivity].
Qed.

Lemma loc_map : forall {A B} (f : A -> B) (X : bytes -> outcome (A * bytes)),
  loc X -> loc (fun d => omap (fun p => (f (fst p), snd p)) (X d)).
Proof.
  intros A B f X HX. unfold omap. apply loc_bind; auto. intros a. cbn [fst snd]. apply loc_ret.
Qed.

Lemma loc_read_id : loc read_id. Proof. exact (loc_gs 2 (le_word 2)). Qed.
Lemma loc_read_u32 : loc read_u32. Proof. exact (loc_gs 4 (le_word 4)). Qed.
Lemma loc_read_u64 : loc read_u64. Proof. exact (loc_gs 8 (le_word 8)). Qed.
Lemma loc_read_i32 : loc read_i32. Proof. exact (loc_gs 4 (fun h => to_signed 32 (le_word 4 h))). Qed.
Lemma loc_read_i64 : loc read_i64. Proof. exact (loc_gs 8 (fun h => to_signed 64 (le_word 8 h))). Qed.
Lemma loc_read_f32 : loc read_f32. Proof. exact (loc_gs_pair 4). Qed.
Lemma loc_read_f64 : loc read_f64. Proof. exact (loc_gs_pair 8). Qed.

Lemma loc_read_bool : loc read_bool.
Proof.
  eapply loc_ext; [|apply (loc_gs 1 (fun h => match h with b :: _ => negb (N.eqb b 0) | [] => true end))].
  intros [|b r]; reflexivity.
Qed.

Lemma loc_read_string : loc read_string.
Proof.
  eapply loc_ext; [|apply (loc_bind (fun d => match get_split 2 d with Some p => Ok p | None => Err E_LexEof end)
                             (fun p => match get_split (N.to_nat (le_word 2 (fst p))) (snd p) with Some q => Ok q | None => Err E_LexEof end))].
  - intro d. unfold read_string. destruct (get_split 2 d) as [[h r]|]; [|reflexivity]. cbn [obind fst snd].
    unfold get_split. destruct (Nat.leb (N.to_nat (le_word 2 h)) (length r)); reflexivity.
  - apply loc_gs_pair.
  - intro a. cbn [fst snd]. apply loc_gs_pair.
Qed.

Lemma loc_read_rgb : loc read_rgb.
Proof.
  unfold read_rgb.
  repeat (apply loc_bind; [first [apply loc_read_id | apply loc_read_u32]|intro; cbv beta iota]).
  repeat match goal with |- loc (fun _ => if ?c then _ else _) => destruct c end;
    try (apply loc_nok; reflexivity); try apply loc_ret.
  repeat (apply loc_bind; [first [apply loc_read_id | apply loc_read_u32]|intro; cbv beta iota]).
  repeat match goal with |- loc (fun _ => if ?c then _ else _) => destruct c end;
    try (apply loc_nok; reflexivity); try apply loc_ret.
Qed.

Lemma loc_read_scalar : forall k, loc (read_scalar k).
Proof.
  destruct k; unfold read_scalar; apply loc_map;
    first [apply loc_read_u32 | apply loc_read_u64 | apply loc_read_i32 | apply loc_read_bool | apply loc_read_string
          | apply loc_read_f32 | apply loc_read_f64 | apply loc_read_rgb | apply loc_read_i64].
Qed.

(* ------------------------------------------------------------------ one iteration is local *)
Definition locS (X : bytes -> outcome st) : Prop :=
  forall d s', X d = Ok s' ->
    length (s_data s') <= length d /\
    forall r, r <= length d ->
      (r <= length (s_data s') -> X (chop r d) = Ok (chopS r s')) /\
      (length (s_data s') < r -> X (chop r d) = Err E_LexEof).

Lemma locS_ext : forall (X Y : bytes -> outcome st), (forall d, X d = Y d) -> locS X -> locS Y.
Proof. intros X Y E H d s' HY. rewrite <- E in HY. destruct (H _ _ HY) as [L C]. split; auto. intros r Hr. rewrite <- E. auto. Qed.

Lemma locS_ret : forall ps par t, locS (fun d => Ok (mkst d ps par t)).
Proof. intros ps par t d s' H. inversion H; subst. cbn [s_data]. split; auto. intros r Hr. split; intro; [reflexivity|lia]. Qed.

Lemma locS_nok : forall (o : outcome st), is_ok o = false -> locS (fun _ => o).
Proof. intros o H d s' E. rewrite E in H. discriminate. Qed.

Lemma locS_bind : forall {A} (X : bytes -> outcome (A * bytes)) (G : A * bytes -> outcome st),
  loc X -> (forall a, locS (fun d => G (a, d))) -> locS (fun d => obind (X d) G).
Proof.
  intros A X G HX HG d s' H. cbv beta in H. destruct (X d) as [[a d1]| | | |] eqn:E; try discriminate. cbn [obind] in H.
  destruct (HX _ _ _ E) as [L1 C1]. destruct (HG a d1 s' H) as [L2 C2]. split; [lia|]. intros r Hr.
  destruct (le_lt_dec r (length d1)) as [Hle|Hlt].
  - destruct (C1 r Hr) as [C1a _]. rewrite (C1a Hle). cbn [obind]. apply (C2 r Hle).
  - destruct (C1 r Hr) as [_ C1b]. rewrite (C1b Hlt). cbn [obind]. split; [intro; lia|reflexivity].
Qed.

Lemma locS_scalar_arm : forall k ps par t, locS (fun d => scalar_arm k d ps par t).
Proof.
  intros. unfold scalar_arm. apply locS_bind; [apply loc_read_scalar|]. intro a. cbv beta iota.
  rewrite next_state_ok. cbn [obind]. apply locS_ret.
Qed.

Lemma locS_token_arm : forall ps par t id,
  locS (fun d => do ps' <- next_state ps; Ok (mkst d ps' par (push t (TToken id)))).
Proof. intros. rewrite next_state_ok. cbn [obind]. apply locS_ret. Qed.

Lemma locS_slow : forall id ps par t, locS (fun d => slow false d id ps par t).
Proof.
  intros id ps0 par t0. unfold slow.
  destruct (match ps0 with ObjectToArray => do t' <- mixed_insert2 t0; Ok (ArrayValueMixed, t') | _ => Ok (ps0, t0) end)
    as [[ps t]| | | |]; cbn [obind]; try (apply locS_nok; reflexivity).
  destruct (classify id); try apply locS_scalar_arm; try apply locS_token_arm.
  - (* I32 *) eapply locS_ext; [|apply (locS_scalar_arm KI32 ps par t)].
    intro d. cbv beta. destruct (scalar_arm KI32 d ps par t); reflexivity.
  - (* Open *) destruct (negb (is_key ps)); [apply locS_ret|]. destruct t; [apply locS_nok; reflexivity|].
    apply locS_bind; [apply loc_read_id|]. intro a. cbv beta iota.
    destruct (N.eqb a L_CLOSE); [apply locS_ret|apply locS_nok; reflexivity].
  - (* Close *)
    destruct (match ps with KeyValueSeparator => mixed_insert1 t | ObjectValue => Err E_Syntax | _ => Ok t end)
      as [t1| | | |]; cbn [obind]; try (apply locS_nok; reflexivity).
    destruct (push_end par t1) as [[r t']| | | |]; cbn [obind]; try (apply locS_nok; reflexivity). apply locS_ret.
  - (* Equal *)
    destruct ps; try (apply locS_nok; reflexivity); try apply locS_ret.
    + destruct (pop t) as [[t1 last]|]; [|apply locS_nok; reflexivity].
      destruct (is_array_or_end last); [apply locS_nok; reflexivity|].
      destruct (only_empties par t1); [|apply locS_ret].
      destruct (set_parent_to_object par t1); cbn [obind]; try (apply locS_nok; reflexivity). apply locS_ret.
    + destruct (set_parent_to_object par t); cbn [obind]; try (apply locS_nok; reflexivity). apply locS_ret.
  - (* Rgb *)
    destruct ps; try apply locS_token_arm.
    apply locS_bind; [apply loc_read_scalar|]. intro a. cbv beta iota. apply locS_ret.
Qed.

Lemma finish_chopS : forall r s, finish (chopS r s) = finish s.
Proof. reflexivity. Qed.

(* one reference iteration, exactly: the cut r (counted from the end of the data) either lies
   behind what the iteration consumes (same step on the chopped data), or inside it with at least
   the two bytes of the token id present (Err E_LexEof), or leaves fewer than two bytes (the loop
   `while let Some(..) = parse_next_id_opt(data)` ends: [finish]) *)
Lemma iter_loc : forall s s' r, iter false false s = Continue s' -> r <= length (s_data s) ->
  length (s_data s') + 2 <= length (s_data s) /\
  (r <= length (s_data s') -> iter false false (chopS r s) = Continue (chopS r s')) /\
  (length (s_data s') < r -> r + 2 <= length (s_data s) -> iter false false (chopS r s) = Done (Err E_LexEof)) /\
  (length (s_data s) < r + 2 -> iter false false (chopS r s) = Done (finish s)).
Proof.
  intros s s' r H Hr. destruct (get_split 2 (s_data s)) as [[h d]|] eqn:Eg.
  2:{ unfold iter in H. rewrite Eg in H. discriminate. }
  rewrite (iter_ref_unfold _ _ _ Eg) in H.
  destruct (slow false d (le_word 2 h) (s_ps s) (s_par s) (s_tape s)) as [s1| | | |] eqn:Es; try discriminate.
  inversion H; subst s1; clear H.
  destruct (locS_slow _ _ _ _ _ _ Es) as [L C]. pose proof (get_split_len _ _ _ _ Eg) as [Ld _].
  destruct (get_split_chop _ _ _ _ _ Eg Hr) as [G1 G2].
  split; [lia|]. split; [|split].
  - intro Hc. assert (Hd : r <= length d) by lia.
    rewrite (iter_ref_unfold (chopS r s) h (chop r d)) by (cbn [chopS s_data]; auto).
    cbn [chopS s_ps s_par s_tape]. destruct (C r Hd) as [C1 _]. now rewrite (C1 Hc).
  - intros Hc Hl. assert (Hd : r <= length d) by lia.
    rewrite (iter_ref_unfold (chopS r s) h (chop r d)) by (cbn [chopS s_data]; auto).
    cbn [chopS s_ps s_par s_tape]. destruct (C r Hd) as [_ C2]. now rewrite (C2 Hc).
  - intro Hl. unfold iter. cbn [chopS s_data]. rewrite G2 by lia. reflexivity.
Qed.

(* ------------------------------------------------------------------ runs of the reference machine *)
Inductive runs : st -> st -> Prop :=
| runs_refl : forall s, runs s s
| runs_step : forall s s1 s2, iter false false s = Continue s1 -> runs s1 s2 -> runs s s2.

Lemma runs_trans : forall a b c, runs a b -> runs b c -> runs a c.
Proof. induction 1; intros; auto. econstructor; eauto. Qed.

Lemma runs_xstar : forall s s', runs s s' -> xstar true s s'.
Proof. induction 1; [constructor|]. econstructor; eauto. left; auto. Qed.

Lemma runs_inv : forall s s', runs s s' -> Inv s -> Inv s'.
Proof. induction 1; intros; auto. apply IHruns. eapply iter_ref_inv; eauto. Qed.

Lemma iter_consumes : forall s s', iter false false s = Continue s' -> length (s_data s') + 2 <= length (s_data s).
Proof. intros s s' H. destruct (iter_loc s s' 0 H) as [L _]; [lia|exact L]. Qed.

Lemma runs_data_le : forall s s', runs s s' -> length (s_data s') <= length (s_data s).
Proof. induction 1; auto. apply iter_consumes in H. lia. Qed.

(* a run that stops determines the result of the parser *)
Lemma runs_result : forall D s x, runs (init D) s -> iter false false s = Done x -> parse_ref D = x.
Proof.
  intros D s x H Hd. unfold parse_ref, parse. eapply ref_run; [apply runs_xstar; eauto|exact Hd|cbn; lia].
Qed.

Lemma loop_runs : forall f s x, loop false false f s = x -> x <> OutOfFuel ->
  exists sn, runs s sn /\ iter false false sn = Done x.
Proof.
  induction f; intros s x H Hx; cbn [loop] in H; [congruence|].
  destruct (iter false false s) as [s1|y] eqn:E.
  - destruct (IHf _ _ H Hx) as (sn & A & B). exists sn. split; auto. econstructor; eauto.
  - subst y. exists s. split; [constructor|auto].
Qed.

(* every parse is a run that stops with the parser's result *)
Lemma parse_ref_runs : forall D, exists sn, runs (init D) sn /\ iter false false sn = Done (parse_ref D).
Proof.
  intro D. apply (loop_runs (S (length D))); [reflexivity|].
  pose proof (parse_no_crash false false D) as H. unfold parse_ref. intro E. rewrite E in H. discriminate.
Qed.

Lemma iter_short : forall fx opt s, length (s_data s) < 2 -> iter fx opt s = Done (finish s).
Proof.
  intros fx opt s H. unfold iter, get_split. replace (Nat.leb 2 (length (s_data s))) with false; [reflexivity|].
  symmetry. apply Nat.leb_gt. exact H.
Qed.

Lemma iter_done_ok : forall s F, iter false false s = Done (Ok F) ->
  length (s_data s) < 2 /\ s_par s = 0 /\ s_ps s = Key /\ s_tape s = F.
Proof.
  intros s F H. pose proof (iter_ref_done_ok _ _ H) as Hf. split.
  - destruct (get_split 2 (s_data s)) as [[h d]|] eqn:Eg.
    + rewrite (iter_ref_unfold _ _ _ Eg) in H.
      destruct (slow false d (le_word 2 h) (s_ps s) (s_par s) (s_tape s)); discriminate.
    + unfold get_split in Eg. destruct (Nat.leb 2 (length (s_data s))) eqn:E; [discriminate|]. now apply Nat.leb_gt in E.
  - unfold finish in Hf. destruct (s_par s); [|discriminate]. destruct (s_ps s); try discriminate. inversion Hf. auto.
Qed.

(* the run on the chopped input follows the run on the whole input as long as the cut lies behind *)
Lemma runs_chop : forall s s' r, runs s s' -> r <= length (s_data s') -> runs (chopS r s) (chopS r s').
Proof.
  induction 1; intro Hr; [constructor|].
  pose proof (runs_data_le _ _ H0). pose proof (iter_consumes _ _ H).
  destruct (iter_loc s s1 r H) as (_ & C & _); [lia|].
  econstructor; [apply C; lia|auto].
Qed.

(* the last state of the whole run whose position is not behind the cut *)
Lemma runs_split : forall s sn r, runs s sn -> r <= length (s_data s) ->
  exists s1, runs s s1 /\ runs s1 sn /\ r <= length (s_data s1) /\
             (s1 = sn \/ exists s2, iter false false s1 = Continue s2 /\ runs s2 sn /\ length (s_data s2) < r).
Proof.
  induction 1; intro Hr.
  - exists s. repeat split; auto; constructor.
  - destruct (le_lt_dec r (length (s_data s1))) as [Hle|Hlt].
    + destruct (IHruns Hle) as (sa & A & B & C & E). exists sa. repeat split; auto. econstructor; eauto.
    + exists s. split; [constructor|]. split; [econstructor; eauto|]. split; auto. right. exists s1. auto.
Qed.

(* ------------------------------------------------------------------ the parse of a chopped input, exactly *)
Theorem trunc_exact : forall D r s1, runs (init D) s1 -> r <= length (s_data s1) ->
  (length (s_data s1) < r + 2 -> parse_ref (chop r D) = finish s1) /\
  (forall s2, iter false false s1 = Continue s2 -> length (s_data s2) < r -> r + 2 <= length (s_data s1) ->
              parse_ref (chop r D) = Err E_LexEof).
Proof.
  intros D r s1 H Hr. pose proof (runs_chop _ _ r H Hr) as Hc. change (chopS r (init D)) with (init (chop r D)) in Hc.
  split.
  - intro Hl. apply (runs_result _ _ _ Hc). rewrite iter_short; [reflexivity|].
    cbn [chopS s_data]. rewrite chop_length. lia.
  - intros s2 Hi Hlt Hl. apply (runs_result _ _ _ Hc).
    destruct (iter_loc s1 s2 r Hi Hr) as (_ & _ & C & _). auto.
Qed.

Definition top (s : st) : Prop := s_par s = 0 /\ s_ps s = Key.

Lemma finish_top : forall s, top s -> finish s = Ok (s_tape s).
Proof. intros s [A B]. unfold finish. now rewrite A, B. Qed.

Lemma finish_not_top : forall s, ~ top s -> finish s = Err E_Eof.
Proof.
  intros s H. unfold finish, top in *. destruct (s_par s); [|reflexivity].
  destruct (s_ps s); try reflexivity. exfalso; auto.
Qed.

Lemma top_dec : forall s, {top s} + {~ top s}.
Proof.
  intro s. unfold top. destruct (s_par s); [|right; intros [? _]; discriminate].
  destruct (s_ps s); try (right; intros [_ ?]; discriminate). left; auto.
Qed.

(* the main statement, without the prefix clause: the whole input is accepted with tape F; the input
   without its last r bytes is rejected, or accepted with the tape the whole run had built when it
   stood at a top-level key position (not inside a container, not between a key and the end of its
   value, not inside a payload), the cut lying AT that position or ONE byte after it.
   (The one byte: `while let Some((d, token_id)) = parse_next_id_opt(data)` ends as soon as fewer
   than two bytes are left, a single trailing byte is ignored -- on the whole input as well.) *)
Theorem trunc_bin_ref : forall D F r, parse_ref D = Ok F -> r <= length D ->
  (exists e, parse_ref (chop r D) = Err e) \/
  (exists s sn, runs (init D) s /\ runs s sn /\ iter false false sn = Done (Ok F) /\ top s /\
                r <= length (s_data s) <= r + 1 /\ parse_ref (chop r D) = Ok (s_tape s)).
Proof.
  intros D F r HF Hr. destruct (parse_ref_runs D) as (sn & Hrun & Hdone). rewrite HF in Hdone.
  destruct (runs_split _ _ r Hrun Hr) as (s1 & A & B & C & E).
  destruct (trunc_exact D r s1 A C) as [T1 T2].
  destruct (le_lt_dec (r + 2) (length (s_data s1))) as [Hbig|Hsmall].
  - destruct E as [->|(s2 & Hi & _ & Hlt)].
    + apply iter_done_ok in Hdone. lia.
    + left. exists E_LexEof. eapply T2; eauto.
  - destruct (top_dec s1) as [Ht|Hn].
    + right. exists s1, sn. repeat split; auto; try apply Ht; try lia. rewrite T1 by lia. now apply finish_top.
    + left. exists E_Eof. rewrite T1 by lia. now apply finish_not_top.
Qed.

(* the contrapositive readings.  s is a state of the run on the whole input (the whole input need
   not be accepted); the cut lies at the position of s or one byte after it *)
Theorem trunc_not_top : forall D r s, runs (init D) s -> r <= length (s_data s) <= r + 1 ->
  ~ top s -> parse_ref (chop r D) = Err E_Eof.
Proof.
  intros D r s H Hr Hn. destruct (trunc_exact D r s H) as [T1 _]; [lia|]. rewrite T1 by lia. now apply finish_not_top.
Qed.

Theorem trunc_in_container : forall D r s, runs (init D) s -> r <= length (s_data s) <= r + 1 ->
  s_par s <> 0 -> parse_ref (chop r D) = Err E_Eof.
Proof. intros. eapply trunc_not_top; eauto. intros [A _]. auto. Qed.

Theorem trunc_mid_field : forall D r s, runs (init D) s -> r <= length (s_data s) <= r + 1 ->
  s_ps s <> Key -> parse_ref (chop r D) = Err E_Eof.
Proof. intros. eapply trunc_not_top; eauto. intros [_ A]. auto. Qed.

(* the cut lies inside the tokens consumed by the iteration s -> s2 (token id, payload, or the
   `{` `}` pair in key position), the two bytes of the id being present *)
Theorem trunc_in_payload : forall D r s s2, runs (init D) s -> iter false false s = Continue s2 ->
  length (s_data s2) < r -> r + 2 <= length (s_data s) -> parse_ref (chop r D) = Err E_LexEof.
Proof. intros D r s s2 H Hi Hlt Hl. destruct (trunc_exact D r s H) as [_ T2]; [lia|]. eapply T2; eauto. Qed.

(* and the positive one: cut at (or one byte after) a top-level key position *)
Theorem trunc_at_top : forall D r s, runs (init D) s -> r <= length (s_data s) <= r + 1 ->
  top s -> parse_ref (chop r D) = Ok (s_tape s).
Proof.
  intros D r s H Hr Ht. destruct (trunc_exact D r s H) as [T1 _]; [lia|]. rewrite T1 by lia. now apply finish_top.
Qed.

(* ------------------------------------------------------------------ the tape only grows at top level *)
(* From a top-level key position with tape t1 on, no step of the reference machine touches the
   first |t1| tokens: containers opened later have an index >= |t1| and so have the indices stored
   in their end slots (0 or >= |t1|), the only slots [upd] ever writes to; pop / mixed-container
   insertion / the empty-objects truncation only reach tokens pushed after t1. *)
Definition okslot (b : nat) (x : tok) : Prop :=
  match x with TArray g | TObject g => g = 0 \/ b <= g | _ => True end.

Definition ext_ok (t1 t : tape) : Prop :=
  exists ext, t = t1 ++ ext /\ Forall (okslot (length t1)) ext.

Lemma okslot_scalar : forall b x, is_scalar x = true -> okslot b x.
Proof. intros b x H. destruct x; cbn in *; auto; discriminate. Qed.

Lemma ext_len : forall t1 t, ext_ok t1 t -> length t1 <= length t.
Proof. intros t1 t (ext & -> & _). rewrite app_length. lia. Qed.

Lemma ext_push : forall t1 t x, ext_ok t1 t -> okslot (length t1) x -> ext_ok t1 (push t x).
Proof.
  intros t1 t x (ext & -> & F) Hx. exists (ext ++ [x]). split; [unfold push; now rewrite app_assoc|].
  apply Forall_app. split; auto.
Qed.

Lemma upd_app_ge : forall (t1 ext : tape) i c, length t1 <= i -> upd (t1 ++ ext) i c = t1 ++ upd ext (i - length t1) c.
Proof.
  induction t1 as [|a t1 IH]; intros ext i c H; cbn [app length] in *.
  - now rewrite Nat.sub_0_r.
  - destruct i; [lia|]. cbn [upd]. rewrite IH by lia. reflexivity.
Qed.

Lemma Forall_upd : forall (P : tok -> Prop) l i c, Forall P l -> P c -> Forall P (upd l i c).
Proof.
  induction l as [|a l IH]; intros i c F Hc; cbn [upd]; auto.
  inversion F; subst. destruct i; constructor; auto.
Qed.

Lemma ext_upd : forall t1 t i c, ext_ok t1 t -> length t1 <= i -> okslot (length t1) c -> ext_ok t1 (upd t i c).
Proof.
  intros t1 t i c (ext & -> & F) Hi Hc. exists (upd ext (i - length t1) c). split; [now apply upd_app_ge|].
  now apply Forall_upd.
Qed.

Lemma ext_unsnoc : forall t1 t x, ext_ok t1 (t ++ [x]) -> length t1 <= length t ->
  ext_ok t1 t /\ okslot (length t1) x.
Proof.
  intros t1 t x (ext & E & F) Hl. destruct (snoc_case ext) as [->|(ext' & y & ->)].
  - rewrite app_nil_r in E. subst t1. rewrite app_length in Hl. cbn in Hl. lia.
  - rewrite app_assoc in E. apply app_inj_tail in E. destruct E as [-> ->].
    apply Forall_app in F. destruct F as [F1 F2]. split; [exists ext'; auto|]. now inversion F2.
Qed.

Lemma Forall_firstn' : forall (P : tok -> Prop) n l, Forall P l -> Forall P (firstn n l).
Proof. induction n; intros l F; cbn; [constructor|]. destruct l; auto. inversion F; subst. constructor; auto. Qed.

Lemma ext_firstn : forall t1 t n, ext_ok t1 t -> length t1 <= n -> ext_ok t1 (firstn n t).
Proof.
  intros t1 t n (ext & -> & F) Hn. exists (firstn (n - length t1) ext). split; [|now apply Forall_firstn'].
  rewrite firstn_app, firstn_all2 by lia. reflexivity.
Qed.

Lemma ext_nth : forall t1 t i x, ext_ok t1 t -> length t1 <= i -> nth_error t i = Some x -> okslot (length t1) x.
Proof.
  intros t1 t i x (ext & -> & F) Hi Hn. rewrite nth_error_app2 in Hn by lia.
  apply nth_error_In in Hn. rewrite Forall_forall in F. auto.
Qed.

Definition lenreq (t1 : tape) (ps : pstate) (t : tape) : Prop :=
  match ps with
  | KeyValueSeparator => length t1 + 1 <= length t
  | ObjectToArray => length t1 + 2 <= length t
  | _ => True
  end.

Definition grows (t1 : tape) (s : st) : Prop :=
  ext_ok t1 (s_tape s) /\ (s_par s = 0 \/ length t1 <= s_par s) /\ lenreq t1 (s_ps s) (s_tape s).

Lemma push_next_grows : forall t1 ps t v, ext_ok t1 t -> lenreq t1 ps t -> okslot (length t1) v -> ps <> ObjectToArray ->
  ext_ok t1 (push t v) /\ lenreq t1 (next_tbl ps) (push t v).
Proof.
  intros t1 ps t v He Hl Hv Hne. split; [now apply ext_push|].
  pose proof (ext_len _ _ He). destruct ps; cbn in *; auto; try congruence; rewrite push_length; lia.
Qed.

Lemma push_end_grows : forall t1 par t ps' g t', open_inv par t -> ext_ok t1 t -> (par = 0 \/ length t1 <= par) ->
  push_end par t = Ok (ps', g, t') ->
  ext_ok t1 t' /\ (g = 0 \/ length t1 <= g) /\ (ps' = Key \/ ps' = ArrayValue).
Proof.
  intros t1 par t ps' g t' Ho He Hp H. unfold push_end in H.
  destruct (nth_error t par) as [c|] eqn:En; [|discriminate].
  assert (K : forall c' g0, container_end c = Some g0 -> okslot (length t1) c' ->
              push_end_fin c' g0 par t = Ok (ps', g, t') ->
              ext_ok t1 t' /\ (g = 0 \/ length t1 <= g) /\ (ps' = Key \/ ps' = ArrayValue)).
  { intros c' g0 Hc Hc' Hf.
    assert (Hp0 : par <> 0) by (eapply open_inv_parent_not_zero; eauto).
    assert (Hb : length t1 <= par) by (destruct Hp; [congruence|auto]).
    pose proof (ext_nth _ _ _ _ He Hb En) as Hs.
    assert (Hg : g0 = 0 \/ length t1 <= g0) by (destruct c; cbn in Hc; inversion Hc; subst; exact Hs).
    unfold push_end_fin in Hf.
    assert (He' : ext_ok t1 (push (upd t par c') (TEnd par))) by (apply ext_push; [now apply ext_upd|exact I]).
    destruct (nth_error (push (upd t par c') (TEnd par)) g0) as [x|]; [|discriminate].
    destruct x; inversion Hf; subst; auto. }
  pose proof (ext_len _ _ He).
  destruct c; try discriminate; eapply K; eauto; try reflexivity; cbn; auto.
Qed.

Local Opaque firstn.

Lemma slow_grows : forall t1 d id ps par t s',
  open_inv par t -> st_ok ps par t ->
  ext_ok t1 t -> (par = 0 \/ length t1 <= par) -> lenreq t1 ps t ->
  slow false d id ps par t = Ok s' -> grows t1 s'.
Proof.
  intros t1 d id ps0 par t0 s' Ho0 Hs0 He0 Hp Hl0 H. unfold slow in H.
  assert (exists ps t, (match ps0 with
                        | ObjectToArray => do t' <- mixed_insert2 t0; Ok (ArrayValueMixed, t')
                        | _ => Ok (ps0, t0) end) = Ok (ps, t) /\ open_inv par t /\ st_ok ps par t /\ ps <> ObjectToArray
                       /\ ext_ok t1 t /\ lenreq t1 ps t)
    as (ps & t & E & Ho & Hs & Hne & He & Hl).
  { destruct ps0; try (eexists _, t0; split; [reflexivity|]; split; [assumption|]; split; [assumption|];
                       split; [discriminate|]; split; assumption).
    cbn in Hs0. destruct (mixed_insert2 t0) as [tm| | | |] eqn:Em; try discriminate.
    destruct (mixed_insert2_inv _ _ _ Ho0 Hs0 Em). exists ArrayValueMixed, tm.
    split; [reflexivity|]. repeat split; auto; try discriminate.
    destruct Hs0 as (tt & x & y & -> & Hx & Hy & _). cbn in Hl0. rewrite app_length in Hl0. cbn in Hl0.
    change (tt ++ [x; y]) with (tt ++ [x] ++ [y]) in *. rewrite app_assoc in *.
    unfold mixed_insert2 in Em. rewrite !pop_snoc in Em. inversion Em; subst.
    destruct (ext_unsnoc _ _ _ He0) as [He1 Hy']; [rewrite app_length; cbn; lia|].
    destruct (ext_unsnoc _ _ _ He1) as [He2 Hx']; [lia|].
    repeat apply ext_push; auto. exact I. }
  rewrite E in H. cbn [obind] in H. clear E Ho0 Hs0 He0 Hl0.
  assert (Hsc : forall k, scalar_arm k d ps par t = Ok s' -> grows t1 s').
  { intros k Hk. unfold scalar_arm in Hk.
    destruct (read_scalar k d) as [[v r]| | | |] eqn:Er; try discriminate. cbn [obind] in Hk.
    rewrite next_state_ok in Hk. cbn [obind] in Hk. inversion Hk; subst.
    apply read_scalar_is_scalar in Er. unfold grows; cbn [s_tape s_par s_ps].
    destruct (push_next_grows t1 ps t v He Hl (okslot_scalar _ _ Er) Hne). auto. }
  assert (Htk : (do ps' <- next_state ps; Ok (mkst d ps' par (push t (TToken id)))) = Ok s' -> grows t1 s').
  { rewrite next_state_ok. cbn [obind]. intro Hk. inversion Hk; subst. unfold grows; cbn [s_tape s_par s_ps].
    destruct (push_next_grows t1 ps t (TToken id) He Hl I Hne). auto. }
  destruct (classify id) eqn:Ec; try (eapply Hsc; eauto; fail); try (apply Htk; exact H).
  - (* I32 *) destruct (scalar_arm KI32 d ps par t) as [s1| | | |] eqn:Es; try discriminate. cbn in H.
    inversion H; subst. eapply Hsc; eauto.
  - (* Open *)
    destruct (is_key ps) eqn:Ek; cbn [negb] in H.
    + destruct t as [|a t']; [discriminate|].
      destruct (read_id d) as [[id2 nd]| | | |]; try discriminate. cbn in H.
      destruct (N.eqb id2 L_CLOSE); inversion H; subst. unfold grows; cbn [s_tape s_par s_ps]. auto.
    + inversion H; subst. unfold grows; cbn [s_tape s_par s_ps]. split; [apply ext_push; auto|].
      split; [right; now apply ext_len|exact I].
  - (* Close *)
    assert (exists t2, (match ps with KeyValueSeparator => mixed_insert1 t | ObjectValue => Err E_Syntax | _ => Ok t end) = Ok t2
                       /\ open_inv par t2 /\ ext_ok t1 t2) as (t2 & E2 & Ho2 & He2).
    { destruct ps; try (exists t; repeat split; auto; fail).
      - cbn in H. discriminate.
      - cbn in Hs. destruct Hs as [_ Hs]. destruct (mixed_insert1 t) as [tm| | | |] eqn:Em; try discriminate.
        exists tm. split; auto. split; [eapply mixed_insert1_inv; eauto|].
        destruct Hs as (tt & x & -> & Hx & _). cbn in Hl. rewrite app_length in Hl. cbn in Hl.
        unfold mixed_insert1 in Em. rewrite pop_snoc in Em. inversion Em; subst.
        destruct (ext_unsnoc _ _ _ He) as [He1 Hx']; [lia|]. repeat apply ext_push; auto. exact I. }
    rewrite E2 in H. cbn [obind] in H.
    destruct (push_end par t2) as [[[ps' g] t']| | | |] eqn:Ep; try discriminate. cbn in H.
    inversion H; subst. unfold grows; cbn [s_tape s_par s_ps].
    destruct (push_end_grows _ _ _ _ _ _ Ho2 He2 Hp Ep) as (A & B & [->| ->]); repeat split; auto.
  - (* Equal *)
    destruct ps; try discriminate.
    + (* ArrayValue *)
      destruct (pop t) as [[tt last]|] eqn:Epop; [|discriminate]. apply pop_some in Epop. subst t.
      destruct (is_array_or_end last) eqn:Ea; [discriminate|].
      cbn in Hs. destruct Hs as [g Hg].
      destruct (open_inv_last_in_array _ _ _ _ Ho Hg Ea) as [Hls Hlen].
      assert (Hp0 : par <> 0) by (eapply open_inv_parent_not_zero; eauto; reflexivity).
      assert (Hb : length t1 <= par) by (destruct Hp; [congruence|auto]).
      destruct (ext_unsnoc _ _ _ He) as [He1 Hlast]; [lia|].
      assert (Hg1 : nth_error tt par = Some (TArray g)) by (rewrite nth_error_app1 in Hg by lia; exact Hg).
      pose proof (ext_nth _ _ _ _ He1 Hb Hg1) as Hsl.
      destruct (only_empties par tt).
      * unfold set_parent_to_object in H. rewrite Hg1 in H. cbn [obind] in H. inversion H; subst; clear H.
        unfold grows; cbn [s_tape s_par s_ps]. split; [|split; [auto|exact I]].
        apply ext_push; auto. apply ext_firstn; [|lia]. apply ext_upd; auto.
      * inversion H; subst. unfold grows; cbn [s_tape s_par s_ps]. split; [|split; [auto|exact I]].
        repeat apply ext_push; auto; exact I.
    + (* ArrayValueMixed *) inversion H; subst. unfold grows; cbn [s_tape s_par s_ps].
      split; [apply ext_push; auto; exact I|]. split; [auto|exact I].
    + (* KeyValueSeparator *) inversion H; subst. unfold grows; cbn [s_tape s_par s_ps]. split; auto. split; [auto|exact I].
    + (* OpenSecond *)
      destruct (set_parent_to_object par t) as [tm| | | |] eqn:Es; try discriminate. cbn in H.
      inversion H; subst. unfold grows; cbn [s_tape s_par s_ps]. split; [|split; [auto|exact I]].
      unfold set_parent_to_object in Es. destruct (nth_error t par) as [c|] eqn:En; [|discriminate].
      destruct c; try discriminate. inversion Es; subst.
      assert (Hp0 : par <> 0) by (eapply open_inv_parent_not_zero; eauto; reflexivity).
      assert (Hb : length t1 <= par) by (destruct Hp; [congruence|auto]).
      pose proof (ext_nth _ _ _ _ He Hb En) as Hsl. apply ext_upd; auto.
  - (* Rgb *)
    destruct ps; try (apply Htk; exact H).
    destruct (read_scalar KRgb d) as [[v r]| | | |] eqn:Er; try discriminate. cbn in H. inversion H; subst.
    apply read_scalar_is_scalar in Er. unfold grows; cbn [s_tape s_par s_ps].
    split; [apply ext_push; auto; now apply okslot_scalar|]. split; [auto|exact I].
Qed.

Lemma iter_grows : forall t1 s s', Inv s -> grows t1 s -> iter false false s = Continue s' -> grows t1 s'.
Proof.
  intros t1 s s' [Ho Hs] (A & B & C) H. destruct (get_split 2 (s_data s)) as [[h d]|] eqn:Eg.
  - rewrite (iter_ref_unfold _ _ _ Eg) in H.
    destruct (slow false d (le_word 2 h) (s_ps s) (s_par s) (s_tape s)) as [sa| | | |] eqn:E; try discriminate.
    inversion H; subst. eapply slow_grows; eauto.
  - unfold iter in H. rewrite Eg in H. discriminate.
Qed.

Lemma runs_grows : forall t1 s s', runs s s' -> Inv s -> grows t1 s -> grows t1 s'.
Proof.
  induction 1; intros HI HG; auto. apply IHruns; [eapply iter_ref_inv; eauto|eapply iter_grows; eauto].
Qed.

(* the tape at a top-level key position is a prefix of every later tape of the run *)
Theorem top_tape_prefix : forall D s s', runs (init D) s -> top s -> runs s s' ->
  exists rest, s_tape s' = s_tape s ++ rest.
Proof.
  intros D s s' H [Hp Hk] H'. assert (HI : Inv s) by (eapply runs_inv; eauto; apply Inv_init).
  assert (HG : grows (s_tape s) s).
  { split; [exists []; split; [now rewrite app_nil_r|constructor]|]. split; [now left|]. rewrite Hk. exact I. }
  destruct (runs_grows _ _ _ H' HI HG) as ((ext & E & _) & _). eauto.
Qed.

(* the full statement for the reference parser *)
Theorem trunc_bin_ref_prefix : forall D F r, parse_ref D = Ok F -> r <= length D ->
  (exists e, parse_ref (chop r D) = Err e) \/
  (exists s, runs (init D) s /\ top s /\ r <= length (s_data s) <= r + 1 /\
             parse_ref (chop r D) = Ok (s_tape s) /\ exists rest, F = s_tape s ++ rest).
Proof.
  intros D F r HF Hr. destruct (trunc_bin_ref D F r HF Hr) as [?|(s & sn & A & B & C & Ht & Hl & Hp)]; [now left|right].
  exists s. repeat split; auto; try apply Ht; try lia.
  apply iter_done_ok in C. destruct C as (_ & _ & _ & <-). eapply top_tape_prefix; eauto.
Qed.

(* ------------------------------------------------------------------ failure is preserved by chopping *)
(* needed for the converse simulation (a step on the chopped input is a step on the whole input) *)
Definition nloc {A} (X : bytes -> outcome A) : Prop :=
  forall d r, r <= length d -> is_ok (X d) = false -> is_ok (X (chop r d)) = false.

Lemma nloc_const : forall {A} (o : outcome A), nloc (fun _ => o).
Proof. intros A o d r _ H. exact H. Qed.

Lemma nloc_ext : forall {A} (X Y : bytes -> outcome A), (forall d, X d = Y d) -> nloc X -> nloc Y.
Proof. intros A X Y E H d r Hr HY. rewrite <- E in *. auto. Qed.

Lemma nloc_gs : forall {A} n (f : bytes -> A),
  nloc (fun d => match get_split n d with Some (h, r) => Ok (f h, r) | None => Err E_LexEof end).
Proof.
  intros A n f d r Hr H. unfold get_split in *. rewrite chop_length.
  destruct (Nat.leb n (length d)) eqn:E; [discriminate|]. apply Nat.leb_gt in E.
  replace (Nat.leb n (length d - r)) with false; [reflexivity|]. symmetry. apply Nat.leb_gt. lia.
Qed.

Lemma nloc_gs_pair : forall n, nloc (fun d => match get_split n d with Some p => Ok p | None => Err E_LexEof end).
Proof. intro n. eapply nloc_ext; [|apply (nloc_gs n (fun h => h))]. intro d. cbv beta. destruct (get_split n d) as [[h r]|]; reflexivity. Qed.

Lemma nloc_bind : forall {A B} (X : bytes -> outcome (A * bytes)) (G : A * bytes -> outcome B),
  loc X -> nloc X -> (forall a, nloc (fun d => G (a, d))) -> nloc (fun d => obind (X d) G).
Proof.
  intros A B X G HX HN HG d r Hr H. cbv beta in *. destruct (X d) as [[a d1]| | | |] eqn:E;
    try (assert (Hn : is_ok (X (chop r d)) = false) by (apply HN; [auto|rewrite E; reflexivity]);
         destruct (X (chop r d)); try discriminate; reflexivity).
  cbn [obind] in H. destruct (HX _ _ _ E) as [L1 C1]. destruct (C1 r Hr) as [Ca Cb].
  destruct (le_lt_dec r (length d1)) as [Hle|Hlt].
  - rewrite (Ca Hle). cbn [obind]. apply (HG a d1 r Hle H).
  - rewrite (Cb Hlt). reflexivity.
Qed.

Lemma nloc_map : forall {A B} (f : A -> B) (X : bytes -> outcome (A * bytes)),
  loc X -> nloc X -> nloc (fun d => omap (fun p => (f (fst p), snd p)) (X d)).
Proof. intros A B f X HX HN. unfold omap. apply nloc_bind; auto. intros a d r _ H. discriminate. Qed.

Lemma nloc_read_id : nloc read_id. Proof. exact (nloc_gs 2 (le_word 2)). Qed.
Lemma nloc_read_u32 : nloc read_u32. Proof. exact (nloc_gs 4 (le_word 4)). Qed.

Lemma nloc_read_string : nloc read_string.
Proof.
  eapply nloc_ext; [|apply (nloc_bind (fun d => match get_split 2 d with Some p => Ok p | None => Err E_LexEof end)
                             (fun p => match get_split (N.to_nat (le_word 2 (fst p))) (snd p) with Some q => Ok q | None => Err E_LexEof end))].
  - intro d. unfold read_string. destruct (get_split 2 d) as [[h r]|]; [|reflexivity]. cbn [obind fst snd].
    unfold get_split. destruct (Nat.leb (N.to_nat (le_word 2 h)) (length r)); reflexivity.
  - apply loc_gs_pair.
  - apply nloc_gs_pair.
  - intro a. cbn [fst snd]. apply nloc_gs_pair.
Qed.

Lemma nloc_read_bool : nloc read_bool.
Proof.
  eapply nloc_ext; [|apply (nloc_gs 1 (fun h => match h with b :: _ => negb (N.eqb b 0) | [] => true end))].
  intros [|b r]; reflexivity.
Qed.

Lemma nloc_read_rgb : nloc read_rgb.
Proof.
  unfold read_rgb.
  repeat (apply nloc_bind; [first [apply loc_read_id | apply loc_read_u32]|first [apply nloc_read_id | apply nloc_read_u32]|intro; cbv beta iota]).
  repeat match goal with |- nloc (fun _ => if ?c then _ else _) => destruct c end; try apply nloc_const.
  - intros d r _ H. discriminate.
  - repeat (apply nloc_bind; [first [apply loc_read_id | apply loc_read_u32]|first [apply nloc_read_id | apply nloc_read_u32]|intro; cbv beta iota]).
    repeat match goal with |- nloc (fun _ => if ?c then _ else _) => destruct c end; try apply nloc_const.
    intros d r _ H. discriminate.
Qed.

Lemma nloc_read_scalar : forall k, nloc (read_scalar k).
Proof.
  destruct k; unfold read_scalar; apply nloc_map;
    first [apply loc_read_u32 | apply loc_read_u64 | apply loc_read_i32 | apply loc_read_bool | apply loc_read_string
          | apply loc_read_f32 | apply loc_read_f64 | apply loc_read_rgb | apply loc_read_i64
          | exact (nloc_gs 4 (le_word 4)) | exact (nloc_gs 8 (le_word 8))
          | exact (nloc_gs 4 (fun h => to_signed 32 (le_word 4 h))) | exact (nloc_gs 8 (fun h => to_signed 64 (le_word 8 h)))
          | apply nloc_read_bool | apply nloc_read_string | exact (nloc_gs_pair 4) | exact (nloc_gs_pair 8) | apply nloc_read_rgb].
Qed.

Lemma nloc_ret : forall ps par t, nloc (fun d => Ok (mkst d ps par t)).
Proof. intros ps par t d r _ H. discriminate. Qed.

Lemma nloc_scalar_arm : forall k ps par t, nloc (fun d => scalar_arm k d ps par t).
Proof.
  intros. unfold scalar_arm. apply nloc_bind; [apply loc_read_scalar|apply nloc_read_scalar|]. intro a. cbv beta iota.
  rewrite next_state_ok. cbn [obind]. apply nloc_ret.
Qed.

Lemma nloc_token_arm : forall ps par t id,
  nloc (fun d => do ps' <- next_state ps; Ok (mkst d ps' par (push t (TToken id)))).
Proof. intros. rewrite next_state_ok. cbn [obind]. apply nloc_ret. Qed.

Lemma nloc_slow : forall id ps par t, nloc (fun d => slow false d id ps par t).
Proof.
  intros id ps0 par t0. unfold slow.
  destruct (match ps0 with ObjectToArray => do t' <- mixed_insert2 t0; Ok (ArrayValueMixed, t') | _ => Ok (ps0, t0) end)
    as [[ps t]| | | |]; cbn [obind]; try apply nloc_const.
  destruct (classify id); try apply nloc_scalar_arm; try apply nloc_token_arm.
  - (* I32 *) eapply nloc_ext; [|apply (nloc_scalar_arm KI32 ps par t)].
    intro d. cbv beta. destruct (scalar_arm KI32 d ps par t); reflexivity.
  - (* Open *) destruct (negb (is_key ps)); [apply nloc_ret|]. destruct t; [apply nloc_const|].
    apply nloc_bind; [apply loc_read_id|apply nloc_read_id|]. intro a. cbv beta iota.
    destruct (N.eqb a L_CLOSE); [apply nloc_ret|apply nloc_const].
  - (* Close *)
    destruct (match ps with KeyValueSeparator => mixed_insert1 t | ObjectValue => Err E_Syntax | _ => Ok t end)
      as [t1| | | |]; cbn [obind]; try apply nloc_const.
    destruct (push_end par t1) as [[r t']| | | |]; cbn [obind]; try apply nloc_const. apply nloc_ret.
  - (* Equal *)
    destruct ps; try apply nloc_const; try apply nloc_ret.
    + destruct (pop t) as [[t1 last]|]; [|apply nloc_const].
      destruct (is_array_or_end last); [apply nloc_const|].
      destruct (only_empties par t1); [|apply nloc_ret].
      destruct (set_parent_to_object par t1); cbn [obind]; try apply nloc_const. apply nloc_ret.
    + destruct (set_parent_to_object par t); cbn [obind]; try apply nloc_const. apply nloc_ret.
  - (* Rgb *)
    destruct ps; try apply nloc_token_arm.
    apply nloc_bind; [apply loc_read_scalar|apply nloc_read_scalar|]. intro a. cbv beta iota. apply nloc_ret.
Qed.

(* a stopped iteration stays stopped on the chopped input *)
Lemma iter_done_chop : forall s r x, r <= length (s_data s) -> iter false false s = Done x ->
  exists y, iter false false (chopS r s) = Done y.
Proof.
  intros s r x Hr H. destruct (get_split 2 (s_data s)) as [[h d]|] eqn:Eg.
  - rewrite (iter_ref_unfold _ _ _ Eg) in H. pose proof (get_split_len _ _ _ _ Eg) as [Ld _].
    destruct (get_split_chop _ _ _ _ _ Eg Hr) as [G1 G2].
    destruct (le_lt_dec r (length d)) as [Hle|Hlt].
    + rewrite (iter_ref_unfold (chopS r s) h (chop r d)) by (cbn [chopS s_data]; auto).
      cbn [chopS s_ps s_par s_tape].
      assert (Hn : is_ok (slow false d (le_word 2 h) (s_ps s) (s_par s) (s_tape s)) = false)
        by (destruct (slow false d (le_word 2 h) (s_ps s) (s_par s) (s_tape s)); [discriminate|reflexivity..]).
      apply (nloc_slow _ _ _ _ d r Hle) in Hn.
      destruct (slow false (chop r d) (le_word 2 h) (s_ps s) (s_par s) (s_tape s)); try discriminate; cbn [stop]; eauto.
    + unfold iter. cbn [chopS s_data]. rewrite (G2 Hlt). eauto.
  - unfold iter. cbn [chopS s_data]. unfold get_split in *. rewrite chop_length.
    destruct (Nat.leb 2 (length (s_data s))) eqn:E; [discriminate|]. apply Nat.leb_gt in E.
    replace (Nat.leb 2 (length (s_data s) - r)) with false; [eauto|]. symmetry. apply Nat.leb_gt. lia.
Qed.

(* the converse simulation: a step of the reference machine on the chopped input is the chopped
   image of a step on the whole input *)
Lemma iter_unchop : forall s r sc, r <= length (s_data s) -> iter false false (chopS r s) = Continue sc ->
  exists s', iter false false s = Continue s' /\ sc = chopS r s' /\ r <= length (s_data s').
Proof.
  intros s r sc Hr H. destruct (iter false false s) as [s'|x] eqn:E.
  - destruct (iter_loc s s' r E Hr) as (L & C1 & C2 & C3).
    destruct (le_lt_dec r (length (s_data s'))) as [Hle|Hlt].
    + rewrite (C1 Hle) in H. inversion H. eauto.
    + destruct (le_lt_dec (r + 2) (length (s_data s))) as [Hb|Hs].
      * rewrite (C2 Hlt Hb) in H. discriminate.
      * rewrite (C3 Hs) in H. discriminate.
  - destruct (iter_done_chop s r x Hr E) as [y Hy]. congruence.
Qed.

Lemma read_id_unchop : forall d r id dc, r <= length d -> read_id (chop r d) = Ok (id, dc) ->
  exists d', read_id d = Ok (id, d') /\ dc = chop r d' /\ r <= length d'.
Proof.
  intros d r id dc Hr H. destruct (read_id d) as [[id' d']| | | |] eqn:E.
  - destruct (loc_read_id _ _ _ E) as [L C]. destruct (C r Hr) as [Ca Cb].
    destruct (le_lt_dec r (length d')) as [Hle|Hlt].
    + rewrite (Ca Hle) in H. inversion H; subst. eauto.
    + rewrite (Cb Hlt) in H. discriminate.
  - assert (Hn : is_ok (read_id (chop r d)) = false) by (apply nloc_read_id; [auto|rewrite E; reflexivity]).
    rewrite H in Hn. discriminate.
  - assert (Hn : is_ok (read_id (chop r d)) = false) by (apply nloc_read_id; [auto|rewrite E; reflexivity]).
    rewrite H in Hn. discriminate.
  - assert (Hn : is_ok (read_id (chop r d)) = false) by (apply nloc_read_id; [auto|rewrite E; reflexivity]).
    rewrite H in Hn. discriminate.
  - assert (Hn : is_ok (read_id (chop r d)) = false) by (apply nloc_read_id; [auto|rewrite E; reflexivity]).
    rewrite H in Hn. discriminate.
Qed.

Lemma xstep_unchop : forall fx s r sc, r <= length (s_data s) -> xstep fx (chopS r s) sc ->
  exists s', xstep fx s s' /\ sc = chopS r s' /\ r <= length (s_data s').
Proof.
  intros fx s r sc Hr [H|[Hfx (dc & Hid & Hps & ->)]].
  - destruct (iter_unchop s r sc Hr H) as (s' & A & B & C). exists s'. split; [left; auto|auto].
  - cbn [chopS s_data s_ps s_par s_tape] in *.
    destruct (read_id_unchop _ _ _ _ Hr Hid) as (d' & A & -> & C).
    exists (mkst d' (next_tbl (s_ps s)) (s_par s) (push (s_tape s) (TToken L_I64))).
    split; [right; split; auto; exists d'; auto|]. split; [reflexivity|exact C].
Qed.

Lemma xstar_unchop : forall fx r a sc, xstar fx a sc -> forall s, a = chopS r s -> r <= length (s_data s) ->
  exists s', xstar fx s s' /\ sc = chopS r s' /\ r <= length (s_data s').
Proof.
  induction 1; intros s0 E Hr; subst.
  - exists s0. split; [constructor|auto].
  - destruct (xstep_unchop _ _ _ _ Hr H) as (sa & A & -> & C).
    destruct (IHxstar sa eq_refl C) as (sb & A' & B' & C'). exists sb. split; [econstructor; eauto|auto].
Qed.

(* the class of inputs on which the parser without the I64 exclusion (fx = false) agrees with the reference is closed
   under taking prefixes *)
Theorem i64_never_chop : forall D r, r <= length D -> i64_never_in_key_position D -> i64_never_in_key_position (chop r D).
Proof.
  intros D r Hr HD sc Hx Hps rr Hid.
  destruct (xstar_unchop false r _ _ Hx (init D) eq_refl Hr) as (s & A & -> & C).
  cbn [chopS s_data s_ps] in *. destruct (read_id_unchop _ _ _ _ C Hid) as (d' & E & _ & _).
  exact (HD s A Hps d' E).
Qed.

Theorem i64_never_firstn : forall D k, i64_never_in_key_position D -> i64_never_in_key_position (firstn k D).
Proof. intros D k H. rewrite firstn_chop. apply i64_never_chop; [lia|exact H]. Qed.

(* ------------------------------------------------------------------ the data of a state is a suffix of the input *)
(* so that [pos D s] below is a position in D: s_data s = skipn (pos D s) D *)
Lemma skipn_skipn' : forall {A} n m (l : list A), skipn m (skipn n l) = skipn (n + m) l.
Proof.
  induction n; intros m l; [reflexivity|]. destruct l; cbn [skipn plus].
  - now rewrite skipn_nil.
  - apply IHn.
Qed.

Definition suf {A} (X : bytes -> outcome (A * bytes)) : Prop :=
  forall d v d', X d = Ok (v, d') -> exists n, d' = skipn n d.
Definition sufS (X : bytes -> outcome st) : Prop :=
  forall d s', X d = Ok s' -> exists n, s_data s' = skipn n d.

Lemma suf_ext : forall {A} (X Y : bytes -> outcome (A * bytes)), (forall d, X d = Y d) -> suf X -> suf Y.
Proof. intros A X Y E H d v d' HY. rewrite <- E in HY. eauto. Qed.

Lemma suf_gs : forall {A} n (f : bytes -> A),
  suf (fun d => match get_split n d with Some (h, r) => Ok (f h, r) | None => Err E_LexEof end).
Proof.
  intros A n f d v d' H. unfold get_split in H. destruct (Nat.leb n (length d)); [|discriminate].
  inversion H; subst. eauto.
Qed.

Lemma suf_gs_pair : forall n, suf (fun d => match get_split n d with Some p => Ok p | None => Err E_LexEof end).
Proof. intro n. eapply suf_ext; [|apply (suf_gs n (fun h => h))]. intro d. cbv beta. destruct (get_split n d) as [[h r]|]; reflexivity. Qed.

Lemma suf_ret : forall {A} (v : A), suf (fun d => Ok (v, d)).
Proof. intros A v d v' d' H. inversion H; subst. exists 0. reflexivity. Qed.

Lemma suf_nok : forall {A} (o : outcome (A * bytes)), is_ok o = false -> suf (fun _ => o).
Proof. intros A o H d v d' E. rewrite E in H. discriminate. Qed.

Lemma suf_bind : forall {A B} (X : bytes -> outcome (A * bytes)) (G : A * bytes -> outcome (B * bytes)),
  suf X -> (forall a, suf (fun d => G (a, d))) -> suf (fun d => obind (X d) G).
Proof.
  intros A B X G HX HG d v d' H. cbv beta in H. destruct (X d) as [[a d1]| | | |] eqn:E; try discriminate. cbn [obind] in H.
  destruct (HX _ _ _ E) as [n1 ->]. destruct (HG a _ v d' H) as [n2 ->]. exists (n1 + n2). apply skipn_skipn'.
Qed.

Lemma suf_map : forall {A B} (f : A -> B) (X : bytes -> outcome (A * bytes)),
  suf X -> suf (fun d => omap (fun p => (f (fst p), snd p)) (X d)).
Proof. intros A B f X HX. unfold omap. apply suf_bind; auto. intros a. cbn [fst snd]. apply suf_ret. Qed.

Lemma suf_read_id : suf read_id. Proof. exact (suf_gs 2 (le_word 2)). Qed.
Lemma suf_read_u32 : suf read_u32. Proof. exact (suf_gs 4 (le_word 4)). Qed.

Lemma suf_read_bool : suf read_bool.
Proof.
  eapply suf_ext; [|apply (suf_gs 1 (fun h => match h with b :: _ => negb (N.eqb b 0) | [] => true end))].
  intros [|b r]; reflexivity.
Qed.

Lemma suf_read_string : suf read_string.
Proof.
  eapply suf_ext; [|apply (suf_bind (fun d => match get_split 2 d with Some p => Ok p | None => Err E_LexEof end)
                             (fun p => match get_split (N.to_nat (le_word 2 (fst p))) (snd p) with Some q => Ok q | None => Err E_LexEof end))].
  - intro d. unfold read_string. destruct (get_split 2 d) as [[h r]|]; [|reflexivity]. cbn [obind fst snd].
    unfold get_split. destruct (Nat.leb (N.to_nat (le_word 2 h)) (length r)); reflexivity.
  - apply suf_gs_pair.
  - intro a. cbn [fst snd]. apply suf_gs_pair.
Qed.

Lemma suf_read_rgb : suf read_rgb.
Proof.
  unfold read_rgb.
  repeat (apply suf_bind; [first [apply suf_read_id | apply suf_read_u32]|intro; cbv beta iota]).
  repeat match goal with |- suf (fun _ => if ?c then _ else _) => destruct c end;
    try (apply suf_nok; reflexivity); try apply suf_ret.
  repeat (apply suf_bind; [first [apply suf_read_id | apply suf_read_u32]|intro; cbv beta iota]).
  repeat match goal with |- suf (fun _ => if ?c then _ else _) => destruct c end;
    try (apply suf_nok; reflexivity); try apply suf_ret.
Qed.

Lemma suf_read_scalar : forall k, suf (read_scalar k).
Proof.
  destruct k; unfold read_scalar; apply suf_map;
    first [exact (suf_gs 4 (le_word 4)) | exact (suf_gs 8 (le_word 8))
          | exact (suf_gs 4 (fun h => to_signed 32 (le_word 4 h))) | exact (suf_gs 8 (fun h => to_signed 64 (le_word 8 h)))
          | apply suf_read_bool | apply suf_read_string | exact (suf_gs_pair 4) | exact (suf_gs_pair 8) | apply suf_read_rgb].
Qed.

Lemma sufS_ext : forall (X Y : bytes -> outcome st), (forall d, X d = Y d) -> sufS X -> sufS Y.
Proof. intros X Y E H d s' HY. rewrite <- E in HY. eauto. Qed.

Lemma sufS_ret : forall ps par t, sufS (fun d => Ok (mkst d ps par t)).
Proof. intros ps par t d s' H. inversion H; subst. exists 0. reflexivity. Qed.

Lemma sufS_nok : forall (o : outcome st), is_ok o = false -> sufS (fun _ => o).
Proof. intros o H d s' E. rewrite E in H. discriminate. Qed.

Lemma sufS_bind : forall {A} (X : bytes -> outcome (A * bytes)) (G : A * bytes -> outcome st),
  suf X -> (forall a, sufS (fun d => G (a, d))) -> sufS (fun d => obind (X d) G).
Proof.
  intros A X G HX HG d s' H. cbv beta in H. destruct (X d) as [[a d1]| | | |] eqn:E; try discriminate. cbn [obind] in H.
  destruct (HX _ _ _ E) as [n1 ->]. destruct (HG a _ s' H) as [n2 ->]. exists (n1 + n2). apply skipn_skipn'.
Qed.

Lemma sufS_scalar_arm : forall k ps par t, sufS (fun d => scalar_arm k d ps par t).
Proof.
  intros. unfold scalar_arm. apply sufS_bind; [apply suf_read_scalar|]. intro a. cbv beta iota.
  rewrite next_state_ok. cbn [obind]. apply sufS_ret.
Qed.

Lemma sufS_token_arm : forall ps par t id,
  sufS (fun d => do ps' <- next_state ps; Ok (mkst d ps' par (push t (TToken id)))).
Proof. intros. rewrite next_state_ok. cbn [obind]. apply sufS_ret. Qed.

Lemma sufS_slow : forall id ps par t, sufS (fun d => slow false d id ps par t).
Proof.
  intros id ps0 par t0. unfold slow.
  destruct (match ps0 with ObjectToArray => do t' <- mixed_insert2 t0; Ok (ArrayValueMixed, t') | _ => Ok (ps0, t0) end)
    as [[ps t]| | | |]; cbn [obind]; try (apply sufS_nok; reflexivity).
  destruct (classify id); try apply sufS_scalar_arm; try apply sufS_token_arm.
  - eapply sufS_ext; [|apply (sufS_scalar_arm KI32 ps par t)].
    intro d. cbv beta. destruct (scalar_arm KI32 d ps par t); reflexivity.
  - destruct (negb (is_key ps)); [apply sufS_ret|]. destruct t; [apply sufS_nok; reflexivity|].
    apply sufS_bind; [apply suf_read_id|]. intro a. cbv beta iota.
    destruct (N.eqb a L_CLOSE); [apply sufS_ret|apply sufS_nok; reflexivity].
  - destruct (match ps with KeyValueSeparator => mixed_insert1 t | ObjectValue => Err E_Syntax | _ => Ok t end)
      as [t1| | | |]; cbn [obind]; try (apply sufS_nok; reflexivity).
    destruct (push_end par t1) as [[r t']| | | |]; cbn [obind]; try (apply sufS_nok; reflexivity). apply sufS_ret.
  - destruct ps; try (apply sufS_nok; reflexivity); try apply sufS_ret.
    + destruct (pop t) as [[t1 last]|]; [|apply sufS_nok; reflexivity].
      destruct (is_array_or_end last); [apply sufS_nok; reflexivity|].
      destruct (only_empties par t1); [|apply sufS_ret].
      destruct (set_parent_to_object par t1); cbn [obind]; try (apply sufS_nok; reflexivity). apply sufS_ret.
    + destruct (set_parent_to_object par t); cbn [obind]; try (apply sufS_nok; reflexivity). apply sufS_ret.
  - destruct ps; try apply sufS_token_arm.
    apply sufS_bind; [apply suf_read_scalar|]. intro a. cbv beta iota. apply sufS_ret.
Qed.

Lemma get_split_skipn : forall n d h r, get_split n d = Some (h, r) -> r = skipn n d.
Proof. intros n d h r H. unfold get_split in H. destruct (Nat.leb n (length d)); [|discriminate]. congruence. Qed.

Lemma iter_suffix : forall s s', iter false false s = Continue s' -> exists n, s_data s' = skipn n (s_data s).
Proof.
  intros s s' H. destruct (get_split 2 (s_data s)) as [[h d]|] eqn:Eg.
  - rewrite (iter_ref_unfold _ _ _ Eg) in H.
    destruct (slow false d (le_word 2 h) (s_ps s) (s_par s) (s_tape s)) as [s1| | | |] eqn:Es; try discriminate.
    inversion H; subst s1. destruct (sufS_slow _ _ _ _ _ _ Es) as [n E].
    apply get_split_skipn in Eg. exists (2 + n). rewrite E, Eg. apply skipn_skipn'.
  - unfold iter in H. rewrite Eg in H. discriminate.
Qed.

Lemma runs_suffix : forall s s', runs s s' -> exists n, s_data s' = skipn n (s_data s).
Proof.
  induction 1; [exists 0; reflexivity|]. destruct (iter_suffix _ _ H) as [n1 E1]. destruct IHruns as [n2 E2].
  exists (n1 + n2). rewrite E2, E1. apply skipn_skipn'.
Qed.

(* ------------------------------------------------------------------ prefixes; transfer to any parser with the same observations *)
(* number of bytes of D the whole run has consumed when it stands in s *)
Definition pos (D : bytes) (s : st) : nat := length D - length (s_data s).

(* [pos D s] is a position in D: what the run has not consumed yet is the rest of D from there on,
   and the tape of a top-level key position is the parse of the bytes before it *)
Theorem runs_data_is_rest : forall D s, runs (init D) s ->
  s_data s = skipn (pos D s) D /\ D = firstn (pos D s) D ++ s_data s /\ pos D s <= length D.
Proof.
  intros D s H. destruct (runs_suffix _ _ H) as [n E]. cbn [init s_data] in E. unfold pos.
  assert (Hs : s_data s = skipn (length D - length (s_data s)) D).
  { rewrite E at 2. rewrite skipn_length. destruct (le_lt_dec n (length D)).
    - replace (length D - (length D - n)) with n by lia. exact E.
    - rewrite E. replace (length D - n) with 0 by lia. rewrite Nat.sub_0_r, skipn_all.
      apply skipn_all2. lia. }
  split; [exact Hs|]. split; [|lia]. rewrite Hs at 2. symmetry. apply firstn_skipn.
Qed.

Lemma obs_ok_inv : forall (x y : outcome tape) t, obs x = obs y -> y = Ok t -> x = Ok t.
Proof. intros x y t H ->. destruct x; cbn in H; try discriminate. now inversion H. Qed.

Lemma obs_err_inv : forall (x y : outcome tape), obs x = obs y -> (exists e, y = Err e) -> exists e, x = Err e.
Proof. intros x y H [e ->]. destruct x; cbn in H; try discriminate. eauto. Qed.

Lemma cut_arith : forall D k s, k <= length D -> runs (init D) s ->
  (pos D s <= k <= pos D s + 1 <-> length D - k <= length (s_data s) <= length D - k + 1).
Proof. intros D k s Hk H. apply runs_data_le in H. cbn in H. unfold pos. lia. Qed.

Section TransferOn.
  (* P: any interpretation of BinaryTapeParser::parse observationally equal to the reference one on a
     class G of inputs that is closed under taking prefixes *)
  Variable P : bytes -> outcome tape.
  Variable G : bytes -> Prop.
  Hypothesis P_obs : forall d, G d -> obs (P d) = obs (parse_ref d).
  Hypothesis G_prefix : forall d k, G d -> G (firstn k d).

  Theorem trunc_on : forall D F k, G D -> k <= length D -> P D = Ok F ->
    (exists e, P (firstn k D) = Err e) \/
    (exists s, runs (init D) s /\ top s /\ pos D s <= k <= pos D s + 1 /\
               P (firstn k D) = Ok (s_tape s) /\ exists rest, F = s_tape s ++ rest).
  Proof.
    intros D F k HG Hk HF. pose proof (G_prefix D k HG) as HGk.
    assert (HR : parse_ref D = Ok F) by (eapply obs_ok_inv; [symmetry; apply P_obs; auto|exact HF]).
    pose proof (P_obs _ HGk) as Ho. rewrite firstn_chop in *.
    destruct (trunc_bin_ref_prefix D F (length D - k) HR) as [He|(s & A & B & C & E & X)]; [lia| |].
    - left. eapply obs_err_inv; [exact Ho|exact He].
    - right. exists s. split; auto. split; auto. split; [apply cut_arith; auto|].
      split; auto. eapply obs_ok_inv; [exact Ho|exact E].
  Qed.

  Theorem trunc_on_ok : forall D F k t, G D -> k <= length D -> P D = Ok F -> P (firstn k D) = Ok t ->
    exists s, runs (init D) s /\ top s /\ pos D s <= k <= pos D s + 1 /\ t = s_tape s /\ exists rest, F = t ++ rest.
  Proof.
    intros D F k t HG Hk HF Ht. destruct (trunc_on D F k HG Hk HF) as [[e He]|(s & A & B & C & E & X)]; [congruence|].
    exists s. rewrite Ht in E. inversion E; subst. auto.
  Qed.

  Theorem trunc_on_not_top : forall D k s, G D -> k <= length D -> runs (init D) s -> pos D s <= k <= pos D s + 1 ->
    ~ top s -> exists e, P (firstn k D) = Err e.
  Proof.
    intros D k s HG Hk H Hc Hn. eapply obs_err_inv; [apply P_obs; auto|]. exists E_Eof. rewrite firstn_chop.
    eapply trunc_not_top; eauto. now apply cut_arith.
  Qed.

  Theorem trunc_on_in_payload : forall D k s s2, G D -> runs (init D) s -> iter false false s = Continue s2 ->
    pos D s + 2 <= k < pos D s2 -> exists e, P (firstn k D) = Err e.
  Proof.
    intros D k s s2 HG H Hi Hc. eapply obs_err_inv; [apply P_obs; auto|]. exists E_LexEof. rewrite firstn_chop.
    pose proof (runs_data_le _ _ H) as L. pose proof (iter_consumes _ _ Hi). cbn in L. unfold pos in Hc.
    eapply trunc_in_payload; eauto; lia.
  Qed.

  Theorem trunc_on_at_top : forall D k s, G D -> k <= length D -> runs (init D) s -> pos D s <= k <= pos D s + 1 ->
    top s -> P (firstn k D) = Ok (s_tape s).
  Proof.
    intros D k s HG Hk H Hc Ht. eapply obs_ok_inv; [apply P_obs; auto|]. rewrite firstn_chop.
    eapply trunc_at_top; eauto. now apply cut_arith.
  Qed.

  (* state-free: an accepted prefix carries a prefix of the whole tape; any k *)
  Theorem trunc_on_plain : forall D F k t, G D -> P D = Ok F -> P (firstn k D) = Ok t -> exists rest, F = t ++ rest.
  Proof.
    intros D F k t HG HF Ht. destruct (le_lt_dec k (length D)) as [Hk|Hk].
    - destruct (trunc_on_ok D F k t HG Hk HF Ht) as (s & _ & _ & _ & _ & X). exact X.
    - rewrite firstn_all2 in Ht by lia. exists []. rewrite app_nil_r. congruence.
  Qed.

  (* the whole input need not be accepted: the tapes of two accepted prefixes extend one another *)
  Theorem trunc_on_mono : forall D k1 k2 t1 t2, G D -> k1 <= k2 -> P (firstn k1 D) = Ok t1 -> P (firstn k2 D) = Ok t2 ->
    exists rest, t2 = t1 ++ rest.
  Proof.
    intros D k1 k2 t1 t2 HG Hk H1 H2. apply (trunc_on_plain (firstn k2 D) t2 k1 t1 (G_prefix _ _ HG) H2).
    rewrite firstn_firstn. replace (Nat.min k1 k2) with k1 by lia. exact H1.
  Qed.
End TransferOn.

Section Transfer.
  (* the unconditional case: G = all inputs *)
  Variable P : bytes -> outcome tape.
  Hypothesis P_obs : forall d, obs (P d) = obs (parse_ref d).
  Let G (_ : bytes) : Prop := True.
  Let GP : forall d, G d -> obs (P d) = obs (parse_ref d) := fun d _ => P_obs d.
  Let GG : forall d k, G d -> G (firstn k d) := fun _ _ _ => I.

  Theorem trunc_gen : forall D F k, k <= length D -> P D = Ok F ->
    (exists e, P (firstn k D) = Err e) \/
    (exists s, runs (init D) s /\ top s /\ pos D s <= k <= pos D s + 1 /\
               P (firstn k D) = Ok (s_tape s) /\ exists rest, F = s_tape s ++ rest).
  Proof. intros D F k. exact (trunc_on P G GP GG D F k I). Qed.

  Theorem trunc_gen_ok : forall D F k t, k <= length D -> P D = Ok F -> P (firstn k D) = Ok t ->
    exists s, runs (init D) s /\ top s /\ pos D s <= k <= pos D s + 1 /\ t = s_tape s /\ exists rest, F = t ++ rest.
  Proof. intros D F k t. exact (trunc_on_ok P G GP GG D F k t I). Qed.

  Theorem trunc_gen_not_top : forall D k s, k <= length D -> runs (init D) s -> pos D s <= k <= pos D s + 1 ->
    ~ top s -> exists e, P (firstn k D) = Err e.
  Proof. intros D k s. exact (trunc_on_not_top P G GP GG D k s I). Qed.

  Theorem trunc_gen_in_payload : forall D k s s2, runs (init D) s -> iter false false s = Continue s2 ->
    pos D s + 2 <= k < pos D s2 -> exists e, P (firstn k D) = Err e.
  Proof. intros D k s s2. exact (trunc_on_in_payload P G GP GG D k s s2 I). Qed.

  Theorem trunc_gen_at_top : forall D k s, k <= length D -> runs (init D) s -> pos D s <= k <= pos D s + 1 ->
    top s -> P (firstn k D) = Ok (s_tape s).
  Proof. intros D k s. exact (trunc_on_at_top P G GP GG D k s I). Qed.

  Theorem trunc_gen_plain : forall D F k t, P D = Ok F -> P (firstn k D) = Ok t -> exists rest, F = t ++ rest.
  Proof. intros D F k t. exact (trunc_on_plain P G GP GG D F k t I). Qed.

  Theorem trunc_gen_mono : forall D k1 k2 t1 t2, k1 <= k2 -> P (firstn k1 D) = Ok t1 -> P (firstn k2 D) = Ok t2 ->
    exists rest, t2 = t1 ++ rest.
  Proof. intros D k1 k2 t1 t2. exact (trunc_on_mono P G GP GG D k1 k2 t1 t2 I). Qed.
End Transfer.

Lemma obs_ref_ref : forall d, obs (parse_ref d) = obs (parse_ref d).
Proof. reflexivity. Qed.

Lemma obs_fixed_ref : forall d, obs (parse true true d) = obs (parse_ref d).
Proof. intro d. rewrite fast_eq_ref_fixed. now rewrite ref_fx_irrelevant. Qed.

Lemma obs_code_ref : fast_path_excludes_i64 = true -> forall d, obs (parse_opt d) = obs (parse_ref d).
Proof. intros E d. unfold parse_opt. rewrite E. apply obs_fixed_ref. Qed.

(* the parser without the I64 exclusion (fx = false) on the class of inputs of C03_fast_eq_ref_no_i64 *)
Lemma obs_asis_ref : forall d, i64_never_in_key_position d -> obs (parse false true d) = obs (parse_ref d).
Proof. exact fast_eq_ref_no_i64. Qed.

(* the parser the correspondence check runs, whatever the generated flag says *)
Lemma obs_code_on : forall d, i64_never_in_key_position d -> obs (parse_opt d) = obs (parse_ref d).
Proof.
  intros d H. unfold parse_opt. destruct fast_path_excludes_i64; [apply obs_fixed_ref|now apply fast_eq_ref_no_i64].
Qed.
