(* C19 (binary half): truncated binary documents never yield fabricated data.

   The run of the reference interpretation (opt = false) on a prefix of the input is compared with
   the run on the whole input.  [chop r l] is l without its last r bytes; every reader is LOCAL:
   on the chopped input it returns the same value and the chopped rest as long as the rest it
   leaves is not touched by the cut, and Err E_LexEof otherwise -- exactly, not only "or".  The
   same holds for one iteration of the tape parser, hence the run on the prefix follows the run on
   the whole input up to the last iteration whose tokens lie entirely inside the prefix, and then
   stops: with an error if the cut falls inside the next group of tokens (id + payload, or `{` `}`
   in key position), with [finish] (Ok only at top level in key position) if fewer than two bytes
   are left. *)
From JV Require Import Bytes Tables BinPrim BinTape BinTapeWf.
From JV.proofs Require Import BinTapeWfProofs BinTapeInv BinTapeSim BinTapeSafe.
Require Import Lia.
Open Scope nat_scope.

(* ------------------------------------------------------------------ chop *)
Definition chop (r : nat) (l : bytes) : bytes := firstn (length l - r) l.
Definition chopS (r : nat) (s : st) : st := mkst (chop r (s_data s)) (s_ps s) (s_par s) (s_tape s).

Lemma chop_length : forall r l, length (chop r l) = length l - r.
Proof. intros. unfold chop. rewrite firstn_length. lia. Qed.

Lemma chop_0 : forall l, chop 0 l = l.
Proof. intros. unfold chop. rewrite Nat.sub_0_r. apply firstn_all. Qed.

Lemma firstn_chop : forall k D, firstn k D = chop (length D - k) D.
Proof.
  intros. unfold chop. destruct (Nat.le_gt_cases k (length D)).
  - replace (length D - (length D - k)) with k by lia. reflexivity.
  - replace (length D - (length D - k)) with (length D) by lia. rewrite !firstn_all2; auto; lia.
Qed.

Lemma chopS_0 : forall s, chopS 0 s = s.
Proof. intros [d ps par t]. unfold chopS; cbn [s_data s_ps s_par s_tape]. now rewrite chop_0. Qed.

(* ------------------------------------------------------------------ reader locality *)
Lemma get_split_chop : forall n d h d' r, get_split n d = Some (h, d') -> r <= length d ->
  (r <= length d' -> get_split n (chop r d) = Some (h, chop r d')) /\
  (length d' < r -> get_split n (chop r d) = None).
Proof.
  intros n d h d' r H Hr. pose proof (get_split_len _ _ _ _ H) as [L _].
  unfold get_split in *. destruct (Nat.leb n (length d)) eqn:E; [|discriminate]. apply Nat.leb_le in E.
  inversion H; subst; clear H. rewrite chop_length. split; intro Hc.
  - replace (Nat.leb n (length d - r)) with true by (symmetry; apply Nat.leb_le; lia).
    unfold chop. rewrite firstn_firstn, skipn_firstn_comm, skipn_length.
    replace (Nat.min n (length d - r)) with n by lia.
    replace (length d - n - r) with (length d - r - n) by lia. reflexivity.
  - replace (Nat.leb n (length d - r)) with false; [reflexivity|]. symmetry. apply Nat.leb_gt. lia.
Qed.

(* X d = Ok (v, d'): d' is no longer than d, and on d without its last r bytes X returns the same
   value and the chopped rest if the cut does not reach into what X consumed, Err E_LexEof if it does *)
Definition loc {A} (X : bytes -> outcome (A * bytes)) : Prop :=
  forall d v d', X d = Ok (v, d') ->
    length d' <= length d /\
    forall r, r <= length d ->
      (r <= length d' -> X (chop r d) = Ok (v, chop r d')) /\
      (length d' < r -> X (chop r d) = Err E_LexEof).

Lemma loc_ext : forall {A} (X Y : bytes -> outcome (A * bytes)), (forall d, X d = Y d) -> loc X -> loc Y.
Proof. intros A X Y E H d v d' HY. rewrite <- E in HY. destruct (H _ _ _ HY) as [L C]. split; auto. intros r Hr. rewrite <- E. auto. Qed.

Lemma loc_gs : forall {A} n (f : bytes -> A),
  loc (fun d => match get_split n d with Some (h, r) => Ok (f h, r) | None => Err E_LexEof end).
Proof.
  intros A n f d v d' H. destruct (get_split n d) as [[h r0]|] eqn:E; [|discriminate]. inversion H; subst; clear H.
  split; [apply get_split_len in E; lia|]. intros r Hr. destruct (get_split_chop _ _ _ _ _ E Hr) as [C1 C2].
  split; intro Hc; [rewrite (C1 Hc)|rewrite (C2 Hc)]; reflexivity.
Qed.

Lemma loc_gs_pair : forall n, loc (fun d => match get_split n d with Some p => Ok p | None => Err E_LexEof end).
Proof. intro n. eapply loc_ext; [|apply (loc_gs n (fun h => h))]. intro d. cbv beta. destruct (get_split n d) as [[h r]|]; reflexivity. Qed.

Lemma loc_ret : forall {A} (v : A), loc (fun d => Ok (v, d)).
Proof. intros A v d v' d' H. inversion H; subst. split; auto. intros r Hr. split; intro; [reflexivity|lia]. Qed.

Lemma loc_nok : forall {A} (o : outcome (A * bytes)), is_ok o = false -> loc (fun _ => o).
Proof. intros A o H d v d' E. rewrite E in H. discriminate. Qed.

Lemma loc_bind : forall {A B} (X : bytes -> outcome (A * bytes)) (G : A * bytes -> outcome (B * bytes)),
  loc X -> (forall a, loc (fun d => G (a, d))) -> loc (fun d => obind (X d) G).
Proof.
  intros A B X G HX HG d v d' H. cbv beta in H. destruct (X d) as [[a d1]| | | |] eqn:E; try discriminate. cbn [obind] in H.
  destruct (HX _ _ _ E) as [L1 C1]. destruct (HG a d1 v d' H) as [L2 C2]. split; [lia|]. intros r Hr.
  destruct (le_lt_dec r (length d1)) as [Hle|Hlt].
  - destruct (C1 r Hr) as [C1a _]. rewrite (C1a Hle). cbn [obind]. apply (C2 r Hle).
  - destruct (C1 r Hr) as [_ C1b]. rewrite (C1b Hlt). cbn [obind]. split; [intro; lia|reflexivity].
Qed.

Lemma loc_map : forall {A B} (f : A -> B) (X : bytes -> outcome (A * bytes)),
  loc X -> loc (fun d => omap (fun p => (f (fst p), snd p)) (X d)).
Proof.
  intros A B f X HX. unfold omap. apply loc_bind; auto. intros a. cbn [fst snd]. apply loc_ret.
Qed.

Lemma loc_read_id : loc read_id. Proof. exact (loc_gs 2 (le_word 2)). Qed.
Lemma loc_read_u32 : loc read_u32. Proof. exact (loc_gs 4 (le_word 4)). Qed.
Lemma loc_read_u64 : loc read_u64. Proof. exact (loc_gs 8 (le_word 8)). Qed.
Lemma loc_read_i32 : loc read_i32. Proof. exact (loc_gs 4 (fun h => to_signed 32 (le_word 4 h))). Qed.
Lemma loc_read_i64 : loc read_i64. Proof. exact (loc_gs 8 (fun h => to_signed 64 (le_word 8 h))). Qed.
Lemma loc_read_f32 : loc read_f32. Proof. exact (loc_gs_pair 4). Qed.
Lemma loc_read_f64 : loc read_f64. Proof. exact (loc_gs_pair 8). Qed.

Lemma loc_read_bool : loc read_bool.
Proof.
  eapply loc_ext; [|apply (loc_gs 1 (fun h => match h with b :: _ => negb (N.eqb b 0) | [] => true end))].
  intros [|b r]; reflexivity.
Qed.

Lemma loc_read_string : loc read_string.
Proof.
  eapply loc_ext; [|apply (loc_bind (fun d => match get_split 2 d with Some p => Ok p | None => Err E_LexEof end)
                             (fun p => match get_split (N.to_nat (le_word 2 (fst p))) (snd p) with Some q => Ok q | None => Err E_LexEof end))].
  - intro d. unfold read_string. destruct (get_split 2 d) as [[h r]|]; [|reflexivity]. cbn [obind fst snd].
    unfold get_split. destruct (Nat.leb (N.to_nat (le_word 2 h)) (length r)); reflexivity.
  - apply loc_gs_pair.
  - intro a. cbn [fst snd]. apply loc_gs_pair.
Qed.

Lemma loc_read_rgb : loc read_rgb.
Proof.
  unfold read_rgb.
  repeat (apply loc_bind; [first [apply loc_read_id | apply loc_read_u32]|intro; cbv beta iota]).
  repeat match goal with |- loc (fun _ => if ?c then _ else _) => destruct c end;
    try (apply loc_nok; reflexivity); try apply loc_ret.
  repeat (apply loc_bind; [first [apply loc_read_id | apply loc_read_u32]|intro; cbv beta iota]).
  repeat match goal with |- loc (fun _ => if ?c then _ else _) => destruct c end;
    try (apply loc_nok; reflexivity); try apply loc_ret.
Qed.

Lemma loc_read_scalar : forall k, loc (read_scalar k).
Proof.
  destruct k; unfold read_scalar; apply loc_map;
    first [apply loc_read_u32 | apply loc_read_u64 | apply loc_read_i32 | apply loc_read_bool | apply loc_read_string
          | apply loc_read_f32 | apply loc_read_f64 | apply loc_read_rgb | apply loc_read_i64].
Qed.

(* ------------------------------------------------------------------ one iteration is local *)
Definition locS (X : bytes -> outcome st) : Prop :=
  forall d s', X d = Ok s' ->
    length (s_data s') <= length d /\
    forall r, r <= length d ->
      (r <= length (s_data s') -> X (chop r d) = Ok (chopS r s')) /\
      (length (s_data s') < r -> X (chop r d) = Err E_LexEof).

Lemma locS_ext : forall (X Y : bytes -> outcome st), (forall d, X d = Y d) -> locS X -> locS Y.
Proof. intros X Y E H d s' HY. rewrite <- E in HY. destruct (H _ _ HY) as [L C]. split; auto. intros r Hr. rewrite <- E. auto. Qed.

Lemma locS_ret : forall ps par t, locS (fun d => Ok (mkst d ps par t)).
Proof. intros ps par t d s' H. inversion H; subst. cbn [s_data]. split; auto. intros r Hr. split; intro; [reflexivity|lia]. Qed.

Lemma locS_nok : forall (o : outcome st), is_ok o = false -> locS (fun _ => o).
Proof. intros o H d s' E. rewrite E in H. discriminate. Qed.

Lemma locS_bind : forall {A} (X : bytes -> outcome (A * bytes)) (G : A * bytes -> outcome st),
  loc X -> (forall a, locS (fun d => G (a, d))) -> locS (fun d => obind (X d) G).
Proof.
  intros A X G HX HG d s' H. cbv beta in H. destruct (X d) as [[a d1]| | | |] eqn:E; try discriminate. cbn [obind] in H.
  destruct (HX _ _ _ E) as [L1 C1]. destruct (HG a d1 s' H) as [L2 C2]. split; [lia|]. intros r Hr.
  destruct (le_lt_dec r (length d1)) as [Hle|Hlt].
  - destruct (C1 r Hr) as [C1a _]. rewrite (C1a Hle). cbn [obind]. apply (C2 r Hle).
  - destruct (C1 r Hr) as [_ C1b]. rewrite (C1b Hlt). cbn [obind]. split; [intro; lia|reflexivity].
Qed.

Lemma locS_scalar_arm : forall k ps par t, locS (fun d => scalar_arm k d ps par t).
Proof.
  intros. unfold scalar_arm. apply locS_bind; [apply loc_read_scalar|]. intro a. cbv beta iota.
  rewrite next_state_ok. cbn [obind]. apply locS_ret.
Qed.

Lemma locS_token_arm : forall ps par t id,
  locS (fun d => do ps' <- next_state ps; Ok (mkst d ps' par (push t (TToken id)))).
Proof. intros. rewrite next_state_ok. cbn [obind]. apply locS_ret. Qed.

Lemma locS_slow : forall id ps par t, locS (fun d => slow false d id ps par t).
Proof.
  intros id ps0 par t0. unfold slow.
  destruct (match ps0 with ObjectToArray => do t' <- mixed_insert2 t0; Ok (ArrayValueMixed, t') | _ => Ok (ps0, t0) end)
    as [[ps t]| | | |]; cbn [obind]; try (apply locS_nok; reflexivity).
  destruct (classify id); try apply locS_scalar_arm; try apply locS_token_arm.
  - (* I32 *) eapply locS_ext; [|apply (locS_scalar_arm KI32 ps par t)].
    intro d. cbv beta. destruct (scalar_arm KI32 d ps par t); reflexivity.
  - (* Open *) destruct (negb (is_key ps)); [apply locS_ret|]. destruct t; [apply locS_nok; reflexivity|].
    apply locS_bind; [apply loc_read_id|]. intro a. cbv beta iota.
    destruct (N.eqb a L_CLOSE); [apply locS_ret|apply locS_nok; reflexivity].
  - (* Close *)
    destruct (match ps with KeyValueSeparator => mixed_insert1 t | ObjectValue => Err E_Syntax | _ => Ok t end)
      as [t1| | | |]; cbn [obind]; try (apply locS_nok; reflexivity).
    destruct (push_end par t1) as [[r t']| | | |]; cbn [obind]; try (apply locS_nok; reflexivity). apply locS_ret.
  - (* Equal *)
    destruct ps; try (apply locS_nok; reflexivity); try apply locS_ret.
    + destruct (pop t) as [[t1 last]|]; [|apply locS_nok; reflexivity].
      destruct (is_array_or_end last); [apply locS_nok; reflexivity|].
      destruct (only_empties par t1); [|apply locS_ret].
      destruct (set_parent_to_object par t1); cbn [obind]; try (apply locS_nok; reflexivity). apply locS_ret.
    + destruct (set_parent_to_object par t); cbn [obind]; try (apply locS_nok; reflexivity). apply locS_ret.
  - (* Rgb *)
    destruct ps; try apply locS_token_arm.
    apply locS_bind; [apply loc_read_scalar|]. intro a. cbv beta iota. apply locS_ret.
Qed.

Lemma finish_chopS : forall r s, finish (chopS r s) = finish s.
Proof. reflexivity. Qed.

(* one reference iteration, exactly: the cut r (counted from the end of the data) either lies
   behind what the iteration consumes (same step on the chopped data), or inside it with at least
   the two bytes of the token id present (Err E_LexEof), or leaves fewer than two bytes (the loop
   `while let Some(..) = parse_next_id_opt(data)` ends: [finish]) *)
Lemma iter_loc : forall s s' r, iter false false s = Continue s' -> r <= length (s_data s) ->
  length (s_data s') + 2 <= length (s_data s) /\
  (r <= length (s_data s') -> iter false false (chopS r s) = Continue (chopS r s')) /\
  (length (s_data s') < r -> r + 2 <= length (s_data s) -> iter false false (chopS r s) = Done (Err E_LexEof)) /\
  (length (s_data s) < r + 2 -> iter false false (chopS r s) = Done (finish s)).
Proof.
  intros s s' r H Hr. destruct (get_split 2 (s_data s)) as [[h d]|] eqn:Eg.
  2:{ unfold iter in H. rewrite Eg in H. discriminate. }
  rewrite (iter_ref_unfold _ _ _ Eg) in H.
  destruct (slow false d (le_word 2 h) (s_ps s) (s_par s) (s_tape s)) as [s1| | | |] eqn:Es; try discriminate.
  inversion H; subst s1; clear H.
  destruct (locS_slow _ _ _ _ _ _ Es) as [L C]. pose proof (get_split_len _ _ _ _ Eg) as [Ld _].
  destruct (get_split_chop _ _ _ _ _ Eg Hr) as [G1 G2].
  split; [lia|]. split; [|split].
  - intro Hc. assert (Hd : r <= length d) by lia.
    rewrite (iter_ref_unfold (chopS r s) h (chop r d)) by (cbn [chopS s_data]; auto).
    cbn [chopS s_ps s_par s_tape]. destruct (C r Hd) as [C1 _]. now rewrite (C1 Hc).
  - intros Hc Hl. assert (Hd : r <= length d) by lia.
    rewrite (iter_ref_unfold (chopS r s) h (chop r d)) by (cbn [chopS s_data]; auto).
    cbn [chopS s_ps s_par s_tape]. destruct (C r Hd) as [_ C2]. now rewrite (C2 Hc).
  - intro Hl. unfold iter. cbn [chopS s_data]. rewrite G2 by lia. reflexivity.
Qed.

(* ------------------------------------------------------------------ runs of the reference machine *)
Inductive runs : st -> st -> Prop :=
| runs_refl : forall s, runs s s
| runs_step : forall s s1 s2, iter false false s = Continue s1 -> runs s1 s2 -> runs s s2.

Lemma runs_trans : forall a b c, runs a b -> runs b c -> runs a c.
Proof. induction 1; intros; auto. econstructor; eauto. Qed.

Lemma runs_xstar : forall s s', runs s s' -> xstar true s s'.
Proof. induction 1; [constructor|]. econstructor; eauto. left; auto. Qed.

Lemma runs_inv : forall s s', runs s s' -> Inv s -> Inv s'.
Proof. induction 1; intros; auto. apply IHruns. eapply iter_ref_inv; eauto. Qed.

Lemma iter_consumes : forall s s', iter false false s = Continue s' -> length (s_data s') + 2 <= length (s_data s).
Proof. intros s s' H. destruct (iter_loc s s' 0 H) as [L _]; [lia|exact L]. Qed.

Lemma runs_data_le : forall s s', runs s s' -> length (s_data s') <= length (s_data s).
Proof. induction 1; auto. apply iter_consumes in H. lia. Qed.

(* a run that stops determines the result of the parser *)
Lemma runs_result : forall D s x, runs (init D) s -> iter false false s = Done x -> parse_ref D = x.
Proof.
  intros D s x H Hd. unfold parse_ref, parse. eapply ref_run; [apply runs_xstar; eauto|exact Hd|cbn; lia].
Qed.

Lemma loop_runs : forall f s x, loop false false f s = x -> x <> OutOfFuel ->
  exists sn, runs s sn /\ iter false false sn = Done x.
Proof.
  induction f; intros s x H Hx; cbn [loop] in H; [congruence|].
  destruct (iter false false s) as [s1|y] eqn:E.
  - destruct (IHf _ _ H Hx) as (sn & A & B). exists sn. split; auto. econstructor; eauto.
  - subst y. exists s. split; [constructor|auto].
Qed.

(* every parse is a run that stops with the parser's result *)
Lemma parse_ref_runs : forall D, exists sn, runs (init D) sn /\ iter false false sn = Done (parse_ref D).
Proof.
  intro D. apply (loop_runs (S (length D))); [reflexivity|].
  pose proof (parse_no_crash false false D) as H. unfold parse_ref. intro E. rewrite E in H. discriminate.
Qed.

Lemma iter_short : forall fx opt s, length (s_data s) < 2 -> iter fx opt s = Done (finish s).
Proof.
  intros fx opt s H. unfold iter, get_split. replace (Nat.leb 2 (length (s_data s))) with false; [reflexivity|].
  symmetry. apply Nat.leb_gt. exact H.
Qed.

Lemma iter_done_ok : forall s F, iter false false s = Done (Ok F) ->
  length (s_data s) < 2 /\ s_par s = 0 /\ s_ps s = Key /\ s_tape s = F.
Proof.
  intros s F H. pose proof (iter_ref_done_ok _ _ H) as Hf. split.
  - destruct (get_split 2 (s_data s)) as [[h d]|] eqn:Eg.
    + rewrite (iter_ref_unfold _ _ _ Eg) in H.
      destruct (slow false d (le_word 2 h) (s_ps s) (s_par s) (s_tape s)); discriminate.
    + unfold get_split in Eg. destruct (Nat.leb 2 (length (s_data s))) eqn:E; [discriminate|]. now apply Nat.leb_gt in E.
  - unfold finish in Hf. destruct (s_par s); [|discriminate]. destruct (s_ps s); try discriminate. inversion Hf. auto.
Qed.

(* the run on the chopped input follows the run on the whole input as long as the cut lies behind *)
Lemma runs_chop : forall s s' r, runs s s' -> r <= length (s_data s') -> runs (chopS r s) (chopS r s').
Proof.
  induction 1; intro Hr; [constructor|].
  pose proof (runs_data_le _ _ H0). pose proof (iter_consumes _ _ H).
  destruct (iter_loc s s1 r H) as (_ & C & _); [lia|].
  econstructor; [apply C; lia|auto].
Qed.

(* the last state of the whole run whose position is not behind the cut *)
Lemma runs_split : forall s sn r, runs s sn -> r <= length (s_data s) ->
  exists s1, runs s s1 /\ runs s1 sn /\ r <= length (s_data s1) /\
             (s1 = sn \/ exists s2, iter false false s1 = Continue s2 /\ runs s2 sn /\ length (s_data s2) < r).
Proof.
  induction 1; intro Hr.
  - exists s. repeat split; auto; constructor.
  - destruct (le_lt_dec r (length (s_data s1))) as [Hle|Hlt].
    + destruct (IHruns Hle) as (sa & A & B & C & E). exists sa. repeat split; auto. econstructor; eauto.
    + exists s. split; [constructor|]. split; [econstructor; eauto|]. split; auto. right. exists s1. auto.
Qed.

(* ------------------------------------------------------------------ the parse of a chopped input, exactly *)
Theorem trunc_exact : forall D r s1, runs (init D) s1 -> r <= length (s_data s1) ->
  (length (s_data s1) < r + 2 -> parse_ref (chop r D) = finish s1) /\
  (forall s2, iter false false s1 = Continue s2 -> length (s_data s2) < r -> r + 2 <= length (s_data s1) ->
              parse_ref (chop r D) = Err E_LexEof).
Proof.
  intros D r s1 H Hr. pose proof (runs_chop _ _ r H Hr) as Hc. change (chopS r (init D)) with (init (chop r D)) in Hc.
  split.
  - intro Hl. apply (runs_result _ _ _ Hc). rewrite iter_short; [reflexivity|].
    cbn [chopS s_data]. rewrite chop_length. lia.
  - intros s2 Hi Hlt Hl. apply (runs_result _ _ _ Hc).
    destruct (iter_loc s1 s2 r Hi Hr) as (_ & _ & C & _). auto.
Qed.

Definition top (s : st) : Prop := s_par s = 0 /\ s_ps s = Key.

Lemma finish_top : forall s, top s -> finish s = Ok (s_tape s).
Proof. intros s [A B]. unfold finish. now rewrite A, B. Qed.

Lemma finish_not_top : forall s, ~ top s -> finish s = Err E_Eof.
Proof.
  intros s H. unfold finish, top in *. destruct (s_par s); [|reflexivity].
  destruct (s_ps s); try reflexivity. exfalso; auto.
Qed.

Lemma top_dec : forall s, {top s} + {~ top s}.
Proof.
  intro s. unfold top. destruct (s_par s); [|right; intros [? _]; discriminate].
  destruct (s_ps s); try (right; intros [_ ?]; discriminate). left; auto.
Qed.

(* the main statement, without the prefix clause: the whole input is accepted with tape F; the input
   without its last r bytes is rejected, or accepted with the tape the whole run had built when it
   stood at a top-level key position (not inside a container, not between a key and the end of its
   value, not inside a payload), the cut lying AT that position or ONE byte after it.
   (The one byte: `while let Some((d, token_id)) = parse_next_id_opt(data)` ends as soon as fewer
   than two bytes are left, a single trailing byte is ignored -- on the whole input as well.) *)
Theorem trunc_bin_ref : forall D F r, parse_ref D = Ok F -> r <= length D ->
  (exists e, parse_ref (chop r D) = Err e) \/
  (exists s sn, runs (init D) s /\ runs s sn /\ iter false false sn = Done (Ok F) /\ top s /\
                r <= length (s_data s) <= r + 1 /\ parse_ref (chop r D) = Ok (s_tape s)).
Proof.
  intros D F r HF Hr. destruct (parse_ref_runs D) as (sn & Hrun & Hdone). rewrite HF in Hdone.
  destruct (runs_split _ _ r Hrun Hr) as (s1 & A & B & C & E).
  destruct (trunc_exact D r s1 A C) as [T1 T2].
  destruct (le_lt_dec (r + 2) (length (s_data s1))) as [Hbig|Hsmall].
  - destruct E as [->|(s2 & Hi & _ & Hlt)].
    + apply iter_done_ok in Hdone. lia.
    + left. exists E_LexEof. eapply T2; eauto.
  - destruct (top_dec s1) as [Ht|Hn].
    + right. exists s1, sn. repeat split; auto; try apply Ht; try lia. rewrite T1 by lia. now apply finish_top.
    + left. exists E_Eof. rewrite T1 by lia. now apply finish_not_top.
Qed.

(* the contrapositive readings.  s is a state of the run on the whole input (the whole input need
   not be accepted); the cut lies at the position of s or one byte after it *)
Theorem trunc_not_top : forall D r s, runs (init D) s -> r <= length (s_data s) <= r + 1 ->
  ~ top s -> parse_ref (chop r D) = Err E_Eof.
Proof.
  intros D r s H Hr Hn. destruct (trunc_exact D r s H) as [T1 _]; [lia|]. rewrite T1 by lia. now apply finish_not_top.
Qed.

Theorem trunc_in_container : forall D r s, runs (init D) s -> r <= length (s_data s) <= r + 1 ->
  s_par s <> 0 -> parse_ref (chop r D) = Err E_Eof.
Proof. intros. eapply trunc_not_top; eauto. intros [A _]. auto. Qed.

Theorem trunc_mid_field : forall D r s, runs (init D) s -> r <= length (s_data s) <= r + 1 ->
  s_ps s <> Key -> parse_ref (chop r D) = Err E_Eof.
Proof. intros. eapply trunc_not_top; eauto. intros [_ A]. auto. Qed.

(* the cut lies inside the tokens consumed by the iteration s -> s2 (token id, payload, or the
   `{` `}` pair in key position), the two bytes of the id being present *)
Theorem trunc_in_payload : forall D r s s2, runs (init D) s -> iter false false s = Continue s2 ->
  length (s_data s2) < r -> r + 2 <= length (s_data s) -> parse_ref (chop r D) = Err E_LexEof.
Proof. intros D r s s2 H Hi Hlt Hl. destruct (trunc_exact D r s H) as [_ T2]; [lia|]. eapply T2; eauto. Qed.

(* and the positive one: cut at (or one byte after) a top-level key position *)
Theorem trunc_at_top : forall D r s, runs (init D) s -> r <= length (s_data s) <= r + 1 ->
  top s -> parse_ref (chop r D) = Ok (s_tape s).
Proof.
  intros D r s H Hr Ht. destruct (trunc_exact D r s H) as [T1 _]; [lia|]. rewrite T1 by lia. now apply finish_top.
Qed.
