(* Proofs about the method tables of the serde Deserializer impls (engineer w_fwd, wave 5).

   PLAN.  Tables.de_tables is generated from src/binary/de.rs and src/text/de.rs on every run; DeMethods.v resolves
   forwarding chains (normal) and predicts the visits a recording visitor sees (predict); the stream `method_table` runs
   predict against the real deserializers.  Everything below is a statement about ALL cells of a finite domain
   (13 deserializers x 31 methods x 22 token kinds x 3 strategies), decided by vm_compute over the generated table and
   lifted to a universally quantified statement with forallb_forall.  A change of a forward list / of an explicit method
   in the Rust source changes Tables.v and makes the corresponding lemma fail to compile.

     1. totality: every required method is explicit or forwarded on every deserializer; no forwarding cycle; the only
        missing methods are i128 / u128 on the lexer-based token deserializers (findings R, P-stream-i128: witnesses)
     2. the two lexer token deserializers have the same normal forms; the tape ValueDeserializer is predicted equal to
        them on every cell outside Q (unit), R (128 bit), N (u16 on an id) and the targets that do not fit the token;
        inside Q, R, N they differ (witnesses); same for keys (finding P) and for text tape vs text stream
     3. deserialize_ignored_any is a direct visit_unit on every value deserializer (never through deserialize_any), with a
        skip where the reader is positioned inside the value, and consumes exactly the value for every token kind
     4. u16 on a token id in KEY position is the id itself on all three paths, whatever the strategy
     5. roots only answer map / struct; typed scalar hints never change the kind of visit (binary); integer widths
        share one routine (text) *)
From Coq Require Import List NArith Bool.
From JV Require Import Tables DeMethods.
Import ListNotations.
Open Scope N_scope.

(* ---------------------------------------------------------------- plumbing *)
Lemma leq_eq : forall x y : list N,
  (fix leq (x y : list N) : bool :=
     match x, y with [], [] => true | p :: x', q :: y' => (p =? q) && leq x' y' | _, _ => false end) x y = true -> x = y.
Proof.
  induction x as [|p x IH]; destruct y as [|q y]; intro H; try discriminate; auto.
  apply andb_true_iff in H. destruct H as [H1 H2]. apply N.eqb_eq in H1. subst. f_equal. auto.
Qed.

Lemma obs_eqb_eq : forall a b : obs, obs_eqb a b = true -> a = b.
Proof.
  intros [h1 s1] [h2 s2] H. unfold obs_eqb in H. cbn [fst snd] in H.
  apply andb_true_iff in H. destruct H as [H1 H2]. apply leq_eq in H1. apply N.eqb_eq in H2. subst. reflexivity.
Qed.

Lemma obs_eqb_refl : forall a : obs, obs_eqb a a = true.
Proof.
  intros [h s]. unfold obs_eqb. cbn [fst snd]. apply andb_true_iff. split; [|apply N.eqb_refl].
  induction h as [|p h IH]; auto. apply andb_true_iff. split; [apply N.eqb_refl|exact IH].
Qed.

Lemma obs_eqb_false_neq : forall a b : obs, obs_eqb a b = false -> a <> b.
Proof. intros a b H E. subst. rewrite obs_eqb_refl in H. discriminate. Qed.

Lemma cells_in : forall ms ts m t s, In m ms -> In t ts -> In s strategies -> In (m, t, s) (cells ms ts).
Proof.
  intros ms ts m t s Hm Ht Hs. unfold cells.
  apply in_flat_map. exists m. split; [exact Hm|].
  apply in_flat_map. exists t. split; [exact Ht|].
  apply in_map_iff. exists s. split; [reflexivity|exact Hs].
Qed.

Lemma pairs_in : forall (A B : Type) (xs : list A) (ys : list B) x y,
  In x xs -> In y ys -> In (x, y) (flat_map (fun a => map (fun b => (a, b)) ys) xs).
Proof.
  intros A B xs ys x y Hx Hy. apply in_flat_map. exists x. split; [exact Hx|].
  apply in_map_iff. exists y. split; [reflexivity|exact Hy].
Qed.

Definition pairs (xs ys : list N) : list (N * N) := flat_map (fun a => map (fun b => (a, b)) ys) xs.

(* cell predicates are written with projections and as NOTATIONS (no constant in head position): after instantiating a
   forallb with a concrete cell, the statement is convertible to the wanted one by beta / projections only *)
Notation cm c := (fst (fst c)).
Notation ct c := (snd (fst c)).
Notation cs c := (snd c).
Notation PR d c := (predict d (cm c) (ct c) (cs c)).
Notation AG2 d1 d2 c := (obs_eqb (PR d1 c) (PR d2 c)).
Notation AG3 d1 d2 d3 c := (AG2 d1 d2 c && AG2 d2 d3 c).

(* ---------------------------------------------------------------- 1. totality *)
Definition chk_total (ds : list N) : bool :=
  forallb (fun c => negb (is_missing (fst c) (snd c))) (pairs ds required_methods).

Lemma total_bin_ok : chk_total [0; 1; 2; 3; 4; 5; 6] = true.
Proof. vm_compute. reflexivity. Qed.
Lemma total_text_ok : chk_total [10; 11; 12; 13; 14; 15] = true.
Proof. vm_compute. reflexivity. Qed.

Lemma total_gen : forall ds, chk_total ds = true ->
  forall d m, In d ds -> In m required_methods -> is_explicit d m = true \/ is_forwarded d m = true.
Proof.
  intros ds H d m Hd Hm. unfold chk_total in H. rewrite forallb_forall in H.
  specialize (H (d, m) (pairs_in _ _ _ _ _ _ Hd Hm)). cbn [fst snd] in H.
  unfold is_missing, is_explicit, is_forwarded in *. destruct (slot_of d m); auto; try discriminate.
Qed.

Lemma methods_total_bin : forall d m, In d [0; 1; 2; 3; 4; 5; 6] -> In m required_methods ->
  is_explicit d m = true \/ is_forwarded d m = true.
Proof. exact (total_gen _ total_bin_ok). Qed.

Lemma methods_total_text : forall d m, In d [10; 11; 12; 13; 14; 15] -> In m required_methods ->
  is_explicit d m = true \/ is_forwarded d m = true.
Proof. exact (total_gen _ total_text_ok). Qed.

Definition is_loop (n : nf) : bool := match n with NfLoop => true | _ => false end.
Fixpoint has_loop (n : nf) : bool :=
  match n with NfLoop => true | NfCond _ _ fb => has_loop fb | _ => false end.

Lemma no_cycle_ok : forallb (fun c => negb (has_loop (normal (fst c) (snd c)))) (pairs all_deserializers all_methods) = true.
Proof. vm_compute. reflexivity. Qed.

Lemma methods_no_cycle : forall d m, In d all_deserializers -> In m all_methods -> has_loop (normal d m) = false.
Proof.
  intros d m Hd Hm. pose proof no_cycle_ok as H. rewrite forallb_forall in H.
  specialize (H (d, m) (pairs_in _ _ _ _ _ _ Hd Hm)). cbn [fst snd] in H. apply negb_true_iff in H. exact H.
Qed.

(* the complete list of missing cells: i128 / u128 on the three token deserializers that sit on a lexer / token reader *)
Lemma missing_exactly_ok :
  filter (fun c => is_missing (fst c) (snd c)) (pairs all_deserializers all_methods)
  = [(1, 6); (1, 11); (3, 6); (3, 11); (11, 6); (11, 11)].
Proof. vm_compute. reflexivity. Qed.

Lemma missing_exactly : forall d m, In d all_deserializers -> In m all_methods ->
  (is_missing d m = true <-> In (d, m) [(1, 6); (1, 11); (3, 6); (3, 11); (11, 6); (11, 11)]).
Proof.
  intros d m Hd Hm. rewrite <- missing_exactly_ok. rewrite filter_In. cbn [fst snd].
  split; [intro H; split; [apply pairs_in; assumption|exact H]|intros [_ H]; exact H].
Qed.

(* finding R: the lexer paths have no deserialize_i128 / u128 (serde's default refuses), the tape forwards them to any *)
Lemma finding_R_witness :
  is_missing D_bin_reader_tok M_i128 = true /\ is_missing D_bin_ondemand_tok M_i128 = true /\
  is_missing D_bin_reader_tok M_u128 = true /\ is_missing D_bin_ondemand_tok M_u128 = true /\
  is_forwarded D_bin_tape_value M_i128 = true /\ is_forwarded D_bin_tape_value M_u128 = true /\
  predict D_bin_tape_value M_u128 T_i32 0 = ([H_int], S_ok) /\
  predict D_bin_ondemand_tok M_u128 T_i32 0 = ([], S_err) /\
  predict D_bin_reader_tok M_u128 T_i32 0 = ([], S_err).
Proof. vm_compute. repeat split; reflexivity. Qed.

(* finding P-stream-i128: the text stream deserializer has no deserialize_i128 / u128, the tape one sends them to i64 / u64 *)
Lemma finding_P_stream_i128_witness :
  is_missing D_text_reader_tok M_i128 = true /\ is_missing D_text_reader_tok M_u128 = true /\
  nf_eqb (normal D_text_tape_value M_i128) (normal D_text_tape_value M_i64) = true /\
  nf_eqb (normal D_text_tape_value M_u128) (normal D_text_tape_value M_u64) = true /\
  predict D_text_tape_value M_i128 T_tint 2 = ([H_int], S_ok) /\
  predict D_text_reader_tok M_i128 T_tint 2 = ([], S_err).
Proof. vm_compute. repeat split; reflexivity. Qed.

(* generic lifting lemmas: the predicates are variables here, so checking them never unfolds the model *)
Lemma cells_forall : forall (P : N * N * N -> bool) ms ts, forallb P (cells ms ts) = true ->
  forall m t s, In m ms -> In t ts -> In s strategies -> P (m, t, s) = true.
Proof. intros P ms ts H m t s Hm Ht Hs. rewrite forallb_forall in H. apply H. apply cells_in; assumption. Qed.

Lemma cells_forall_imp : forall (C P : N * N * N -> bool) ms ts, forallb (fun c => implb (C c) (P c)) (cells ms ts) = true ->
  forall m t s, In m ms -> In t ts -> In s strategies -> C (m, t, s) = true -> P (m, t, s) = true.
Proof.
  intros C P ms ts H m t s Hm Ht Hs HC. rewrite forallb_forall in H. specialize (H _ (cells_in _ _ _ _ _ Hm Ht Hs)).
  rewrite HC in H. exact H.
Qed.

Lemma cells_forall_neg : forall (P : N * N * N -> bool) ms ts, forallb (fun c => negb (P c)) (cells ms ts) = true ->
  forall m t s, In m ms -> In t ts -> In s strategies -> P (m, t, s) = false.
Proof.
  intros P ms ts H m t s Hm Ht Hs. rewrite forallb_forall in H. specialize (H _ (cells_in _ _ _ _ _ Hm Ht Hs)).
  apply negb_true_iff in H. exact H.
Qed.

Lemma cells_forall_imp_neg : forall (C P : N * N * N -> bool) ms ts, forallb (fun c => implb (C c) (negb (P c))) (cells ms ts) = true ->
  forall m t s, In m ms -> In t ts -> In s strategies -> C (m, t, s) = true -> P (m, t, s) = false.
Proof.
  intros C P ms ts H m t s Hm Ht Hs HC. rewrite forallb_forall in H. specialize (H _ (cells_in _ _ _ _ _ Hm Ht Hs)).
  rewrite HC in H. apply negb_true_iff in H. exact H.
Qed.

Lemma forallb_in : forall (A : Type) (P : A -> bool) l, forallb P l = true -> forall x, In x l -> P x = true.
Proof. intros A P l H. rewrite forallb_forall in H. exact H. Qed.

Lemma andb_split : forall a b, a && b = true -> a = true /\ b = true.
Proof. intros a b H. apply andb_true_iff in H. exact H. Qed.

(* ---------------------------------------------------------------- 2. agreement *)
(* the two lexer token deserializers: identical predictions in every cell *)
Lemma lexer_predict_equal_all_ok :
  forallb (fun c => AG2 D_bin_reader_tok D_bin_ondemand_tok c) (cells all_methods bin_value_tokens) = true.
Proof. vm_compute. reflexivity. Qed.

Lemma lexer_predict_equal : forall m t s, In m all_methods -> In t bin_value_tokens -> In s strategies ->
  predict D_bin_reader_tok m t s = predict D_bin_ondemand_tok m t s.
Proof.
  intros m t s Hm Ht Hs. apply obs_eqb_eq.
  exact (cells_forall (fun c => AG2 D_bin_reader_tok D_bin_ondemand_tok c) _ _ lexer_predict_equal_all_ok m t s Hm Ht Hs).
Qed.

(* VALUE position, three paths *)
Notation value_cell_ok c := (negb (cell_Q (cm c)) && negb (cell_R (cm c)) && negb (cell_N (cm c) (ct c)) && fits_token (cm c) (ct c)).

Lemma value_agree_ok :
  forallb (fun c => implb (value_cell_ok c) (AG3 D_bin_reader_tok D_bin_ondemand_tok D_bin_tape_value c))
          (cells all_methods bin_value_tokens) = true.
Proof. vm_compute. reflexivity. Qed.

Lemma value_methods_agree : forall m t s, In m all_methods -> In t bin_value_tokens -> In s strategies ->
  cell_Q m = false -> cell_R m = false -> cell_N m t = false -> fits_token m t = true ->
  predict D_bin_reader_tok m t s = predict D_bin_ondemand_tok m t s /\
  predict D_bin_ondemand_tok m t s = predict D_bin_tape_value m t s.
Proof.
  intros m t s Hm Ht Hs HQ HR HN HF.
  assert (HC : (fun c => value_cell_ok c) (m, t, s) = true).
  { cbn [fst snd]. rewrite HQ, HR, HN, HF. reflexivity. }
  pose proof (cells_forall_imp (fun c => value_cell_ok c) (fun c => AG3 D_bin_reader_tok D_bin_ondemand_tok D_bin_tape_value c)
                _ _ value_agree_ok m t s Hm Ht Hs HC) as H.
  apply andb_split in H. destruct H as [H1 H2]. split; apply obs_eqb_eq; assumption.
Qed.

(* the exceptions are exact: in every cell of Q and N the tape differs from the on-demand path; the cells that do not
   fit differ as well *)
Lemma finding_Q_cells_ok :
  forallb (fun c => negb (AG2 D_bin_ondemand_tok D_bin_tape_value c)) (cells [M_unit; M_unit_struct] bin_value_tokens) = true.
Proof. vm_compute. reflexivity. Qed.

Lemma finding_Q_cells : forall m t s, In m [M_unit; M_unit_struct] -> In t bin_value_tokens -> In s strategies ->
  predict D_bin_ondemand_tok m t s <> predict D_bin_tape_value m t s.
Proof.
  intros m t s Hm Ht Hs. apply obs_eqb_false_neq.
  exact (cells_forall_neg (fun c => AG2 D_bin_ondemand_tok D_bin_tape_value c) _ _ finding_Q_cells_ok m t s Hm Ht Hs).
Qed.

Lemma finding_N_cells_ok :
  forallb (fun c => negb (AG2 D_bin_ondemand_tok D_bin_tape_value c)) (cells [M_u16] [T_idk; T_idu]) = true.
Proof. vm_compute. reflexivity. Qed.

Lemma finding_N_lexer_ok :
  forallb (fun c => obs_eqb (PR D_bin_ondemand_tok c) ([H_u16], S_ok)) (cells [M_u16] [T_idk; T_idu]) = true.
Proof. vm_compute. reflexivity. Qed.

Lemma finding_N_cells : forall t s, In t [T_idk; T_idu] -> In s strategies ->
  predict D_bin_ondemand_tok M_u16 t s = ([H_u16], S_ok) /\
  predict D_bin_ondemand_tok M_u16 t s <> predict D_bin_tape_value M_u16 t s.
Proof.
  intros t s Ht Hs. assert (Hm : In M_u16 [M_u16]) by (left; reflexivity). split.
  - apply obs_eqb_eq.
    exact (cells_forall (fun c => obs_eqb (PR D_bin_ondemand_tok c) ([H_u16], S_ok)) _ _ finding_N_lexer_ok M_u16 t s Hm Ht Hs).
  - apply obs_eqb_false_neq.
    exact (cells_forall_neg (fun c => AG2 D_bin_ondemand_tok D_bin_tape_value c) _ _ finding_N_cells_ok M_u16 t s Hm Ht Hs).
Qed.

Lemma misfit_cells_differ_ok :
  forallb (fun c => implb (negb (cell_Q (cm c)) && negb (cell_R (cm c)) && negb (fits_token (cm c) (ct c)))
                          (negb (AG2 D_bin_ondemand_tok D_bin_tape_value c)))
          (cells all_methods bin_value_tokens) = true.
Proof. vm_compute. reflexivity. Qed.

(* KEY position, three paths: the tape hands keys to KeyDeserializer, which implements deserialize_u16 only *)
Notation key_cell_ok m := (negb (cell_P m) && negb (cell_Q m) && negb (cell_R m) && negb (m =? M_ignored_any)).

Lemma key_agree_ok :
  forallb (fun c => implb (key_cell_ok (cm c)) (AG3 D_bin_reader_tok D_bin_ondemand_tok D_bin_tape_key c))
          (cells all_methods bin_scalar_tokens) = true.
Proof. vm_compute. reflexivity. Qed.

Lemma key_methods_agree : forall m t s, In m all_methods -> In t bin_scalar_tokens -> In s strategies ->
  cell_P m = false -> cell_Q m = false -> cell_R m = false -> m <> M_ignored_any ->
  predict D_bin_reader_tok m t s = predict D_bin_ondemand_tok m t s /\
  predict D_bin_ondemand_tok m t s = predict D_bin_tape_key m t s.
Proof.
  intros m t s Hm Ht Hs HP HQ HR HI. apply N.eqb_neq in HI.
  assert (HC : (fun c => key_cell_ok (cm c)) (m, t, s) = true).
  { cbn [fst snd]. rewrite HP, HQ, HR, HI. reflexivity. }
  pose proof (cells_forall_imp (fun c => key_cell_ok (cm c)) (fun c => AG3 D_bin_reader_tok D_bin_ondemand_tok D_bin_tape_key c)
                _ _ key_agree_ok m t s Hm Ht Hs HC) as H.
  apply andb_split in H. destruct H as [H1 H2]. split; apply obs_eqb_eq; assumption.
Qed.

(* finding P: newtype_struct / enum / option on a key: the lexer paths wrap, KeyDeserializer forwards to any: they differ
   whenever the key itself can be read (an unknown id under strategy Error is refused by both) *)
Lemma finding_P_cells_ok :
  forallb (fun c => implb (negb ((ct c =? T_idu) && (cs c =? 0))) (negb (AG2 D_bin_ondemand_tok D_bin_tape_key c)))
          (cells [M_newtype_struct; M_enum; M_option] bin_scalar_tokens) = true.
Proof. vm_compute. reflexivity. Qed.

Lemma finding_P_cells : forall m t s, In m [M_newtype_struct; M_enum; M_option] -> In t bin_scalar_tokens -> In s strategies ->
  (t =? T_idu) && (s =? 0) = false ->
  predict D_bin_ondemand_tok m t s <> predict D_bin_tape_key m t s.
Proof.
  intros m t s Hm Ht Hs Hk. apply obs_eqb_false_neq.
  assert (HC : (fun c => negb ((ct c =? T_idu) && (cs c =? 0))) (m, t, s) = true).
  { cbn [fst snd]. rewrite Hk. reflexivity. }
  exact (cells_forall_imp_neg (fun c => negb ((ct c =? T_idu) && (cs c =? 0))) (fun c => AG2 D_bin_ondemand_tok D_bin_tape_key c)
           _ _ finding_P_cells_ok m t s Hm Ht Hs HC).
Qed.

(* TEXT: tape ValueDeserializer vs stream TextReaderTokenDeserializer *)
Definition text_fits (m t : N) : bool :=
  if text_scalar t then negb ((m =? M_seq) || (m =? M_tuple) || (m =? M_tuple_struct))
  else if t =? T_tobj then
    (m =? M_map) || (m =? M_struct) || (m =? M_ignored_any) || (m =? M_unit) || (m =? M_unit_struct) ||
    (m =? M_seq) || (m =? M_tuple) || (m =? M_tuple_struct)
  else negb ((m =? M_enum) || (m =? M_map) || (m =? M_struct)).

Lemma text_agree_ok :
  forallb (fun c => implb (negb (is_128 (cm c)) && text_fits (cm c) (ct c)) (AG2 D_text_reader_tok D_text_tape_value c))
          (cells all_methods text_value_tokens) = true.
Proof. vm_compute. reflexivity. Qed.

Lemma text_methods_agree : forall m t s, In m all_methods -> In t text_value_tokens -> In s strategies ->
  is_128 m = false -> text_fits m t = true ->
  predict D_text_reader_tok m t s = predict D_text_tape_value m t s.
Proof.
  intros m t s Hm Ht Hs H1 H2. apply obs_eqb_eq.
  assert (HC : (fun c => negb (is_128 (cm c)) && text_fits (cm c) (ct c)) (m, t, s) = true).
  { cbn [fst snd]. rewrite H1, H2. reflexivity. }
  exact (cells_forall_imp (fun c => negb (is_128 (cm c)) && text_fits (cm c) (ct c)) (fun c => AG2 D_text_reader_tok D_text_tape_value c)
           _ _ text_agree_ok m t s Hm Ht Hs HC).
Qed.

Lemma text_128_cells_ok :
  forallb (fun c => negb (AG2 D_text_reader_tok D_text_tape_value c)) (cells [M_i128; M_u128] text_value_tokens) = true.
Proof. vm_compute. reflexivity. Qed.

Lemma text_128_refused_ok :
  forallb (fun c => obs_eqb (PR D_text_reader_tok c) ([], S_err)) (cells [M_i128; M_u128] text_value_tokens) = true.
Proof. vm_compute. reflexivity. Qed.

Lemma text_128_cells : forall m t s, In m [M_i128; M_u128] -> In t text_value_tokens -> In s strategies ->
  predict D_text_reader_tok m t s = ([], S_err) /\ predict D_text_reader_tok m t s <> predict D_text_tape_value m t s.
Proof.
  intros m t s Hm Ht Hs. split.
  - apply obs_eqb_eq.
    exact (cells_forall (fun c => obs_eqb (PR D_text_reader_tok c) ([], S_err)) _ _ text_128_refused_ok m t s Hm Ht Hs).
  - apply obs_eqb_false_neq.
    exact (cells_forall_neg (fun c => AG2 D_text_reader_tok D_text_tape_value c) _ _ text_128_cells_ok m t s Hm Ht Hs).
Qed.

(* ---------------------------------------------------------------- 3. ignored_any *)
Notation ignored_shape d :=
  (negb (through_any d M_ignored_any) &&
   nf_eqb (normal d M_ignored_any) (NfDirect [V_unit] ((d =? D_bin_reader_tok) || (d =? D_bin_ondemand_tok) || (d =? D_text_reader_tok)))).

Lemma ignored_shape_ok : forallb (fun d => ignored_shape d) value_deserializers = true.
Proof. vm_compute. reflexivity. Qed.

Lemma nf_eqb_eq : forall a b, nf_eqb a b = true -> a = b.
Proof.
  induction a; destruct b; intro H; cbn in H; try discriminate; auto.
  - apply andb_true_iff in H. destruct H as [H1 H2]. apply leq_eq in H1. apply eqb_prop in H2. subst. reflexivity.
  - apply andb_true_iff in H. destruct H as [H1 H2]. apply leq_eq in H1. apply eqb_prop in H2. subst. reflexivity.
  - apply andb_true_iff in H. destruct H as [H12 H3]. apply andb_true_iff in H12. destruct H12 as [H1 H2].
    apply leq_eq in H1. apply eqb_prop in H2. apply IHa in H3. subst. reflexivity.
Qed.

Lemma ignored_never_through_any : forall d, In d value_deserializers ->
  through_any d M_ignored_any = false /\
  normal d M_ignored_any = NfDirect [V_unit] ((d =? D_bin_reader_tok) || (d =? D_bin_ondemand_tok) || (d =? D_text_reader_tok)).
Proof.
  intros d Hd. pose proof (forallb_in _ (fun d => ignored_shape d) _ ignored_shape_ok d Hd) as H.
  apply andb_split in H. destruct H as [H1 H2].
  split; [apply negb_true_iff in H1; exact H1|apply nf_eqb_eq; exact H2].
Qed.

Lemma ignored_consumes_bin_ok :
  forallb (fun d => forallb (fun c => obs_eqb (PR d c) ([H_unit], S_ok))
                            (cells [M_ignored_any] bin_value_tokens)) bin_value_deserializers = true.
Proof. vm_compute. reflexivity. Qed.

Lemma ignored_consumes_bin : forall d t s, In d bin_value_deserializers -> In t bin_value_tokens -> In s strategies ->
  predict d M_ignored_any t s = ([H_unit], S_ok).
Proof.
  intros d t s Hd Ht Hs. assert (Hm : In M_ignored_any [M_ignored_any]) by (left; reflexivity).
  pose proof (forallb_in _ (fun d => forallb (fun c => obs_eqb (PR d c) ([H_unit], S_ok)) (cells [M_ignored_any] bin_value_tokens))
                _ ignored_consumes_bin_ok d Hd) as H.
  apply obs_eqb_eq. exact (cells_forall (fun c => obs_eqb (PR d c) ([H_unit], S_ok)) _ _ H M_ignored_any t s Hm Ht Hs).
Qed.

Lemma ignored_consumes_text_ok :
  forallb (fun d => forallb (fun c => obs_eqb (PR d c) ([H_unit], S_ok))
                            (cells [M_ignored_any; M_unit; M_unit_struct] text_value_tokens)) text_value_deserializers = true.
Proof. vm_compute. reflexivity. Qed.

Lemma ignored_consumes_text : forall d m t s, In d text_value_deserializers -> In m [M_ignored_any; M_unit; M_unit_struct] ->
  In t text_value_tokens -> In s strategies -> predict d m t s = ([H_unit], S_ok).
Proof.
  intros d m t s Hd Hm Ht Hs.
  pose proof (forallb_in _ (fun d => forallb (fun c => obs_eqb (PR d c) ([H_unit], S_ok))
                                             (cells [M_ignored_any; M_unit; M_unit_struct] text_value_tokens))
                _ ignored_consumes_text_ok d Hd) as H.
  apply obs_eqb_eq. exact (cells_forall (fun c => obs_eqb (PR d c) ([H_unit], S_ok)) _ _ H m t s Hm Ht Hs).
Qed.

(* ---------------------------------------------------------------- 4. the u16 shortcut of keys *)
Lemma key_u16_ok :
  forallb (fun d => nf_eqb (normal d M_u16) (NfCond [V_u16] false NfBase) &&
                    forallb (fun c => obs_eqb (PR d c) ([H_u16], S_ok)) (cells [M_u16] [T_idk; T_idu])) [1; 3; 5] = true.
Proof. vm_compute. reflexivity. Qed.

Lemma key_u16_shortcut : forall d t s, In d bin_key_deserializers -> In t [T_idk; T_idu] -> In s strategies ->
  normal d M_u16 = NfCond [V_u16] false NfBase /\ predict d M_u16 t s = ([H_u16], S_ok).
Proof.
  intros d t s Hd Ht Hs. assert (Hm : In M_u16 [M_u16]) by (left; reflexivity).
  pose proof (forallb_in _ (fun d => nf_eqb (normal d M_u16) (NfCond [V_u16] false NfBase) &&
                                     forallb (fun c => obs_eqb (PR d c) ([H_u16], S_ok)) (cells [M_u16] [T_idk; T_idu]))
                _ key_u16_ok d Hd) as H.
  apply andb_split in H. destruct H as [H1 H2]. split; [apply nf_eqb_eq; exact H1|].
  apply obs_eqb_eq. exact (cells_forall (fun c => obs_eqb (PR d c) ([H_u16], S_ok)) _ _ H2 M_u16 t s Hm Ht Hs).
Qed.

(* ---------------------------------------------------------------- 5. roots, typed hints *)
Notation root_shape d m :=
  (nf_eqb (normal d m) (if (m =? M_map) || (m =? M_struct) then NfDirect [V_map] false else NfRefuse)).

Lemma roots_ok : forallb (fun c => root_shape (fst c) (snd c)) (pairs root_deserializers all_methods) = true.
Proof. vm_compute. reflexivity. Qed.

Lemma roots_only_maps : forall d m, In d root_deserializers -> In m all_methods ->
  normal d m = if (m =? M_map) || (m =? M_struct) then NfDirect [V_map] false else NfRefuse.
Proof.
  intros d m Hd Hm. apply nf_eqb_eq.
  exact (forallb_in _ (fun c => root_shape (fst c) (snd c)) _ roots_ok (d, m) (pairs_in _ _ _ _ _ _ Hd Hm)).
Qed.

(* scalar hints (everything from bool to byte_buf and identifier, except u16 and the 128-bit ones): the typed shortcuts
   of the binary deserializers never change the visit -- the token's own kind decides, as under deserialize_any *)
Definition scalar_hint (m : N) : bool :=
  ((1 <=? m) && (m <=? 18) || (m =? M_identifier)) && negb (m =? M_u16) && negb (is_128 m).

Lemma scalar_hints_are_any_ok :
  forallb (fun d => forallb (fun c => obs_eqb (PR d c) (predict d M_any (ct c) (cs c)))
                            (cells (filter scalar_hint all_methods) bin_value_tokens)) bin_value_deserializers = true.
Proof. vm_compute. reflexivity. Qed.

Lemma scalar_hints_are_any : forall d m t s, In d bin_value_deserializers -> In m all_methods -> scalar_hint m = true ->
  In t bin_value_tokens -> In s strategies -> predict d m t s = predict d M_any t s.
Proof.
  intros d m t s Hd Hm Hh Ht Hs.
  assert (Hm' : In m (filter scalar_hint all_methods)) by (apply filter_In; split; assumption).
  pose proof (forallb_in _ (fun d => forallb (fun c => obs_eqb (PR d c) (predict d M_any (ct c) (cs c)))
                                             (cells (filter scalar_hint all_methods) bin_value_tokens))
                _ scalar_hints_are_any_ok d Hd) as H.
  apply obs_eqb_eq.
  exact (cells_forall (fun c => obs_eqb (PR d c) (predict d M_any (ct c) (cs c))) _ _ H m t s Hm' Ht Hs).
Qed.

(* text: every integer width is answered by the 64-bit routine of its signedness, f32 by f64 *)
Lemma text_widths_ok :
  forallb (fun d => forallb (fun m => nf_eqb (normal d m) (normal d M_i64)) [M_i8; M_i16; M_i32] &&
                    forallb (fun m => nf_eqb (normal d m) (normal d M_u64)) [M_u8; M_u16; M_u32] &&
                    nf_eqb (normal d M_f32) (normal d M_f64)) text_value_deserializers = true.
Proof. vm_compute. reflexivity. Qed.

Lemma text_widths : forall d, In d text_value_deserializers ->
  (forall m, In m [M_i8; M_i16; M_i32] -> normal d m = normal d M_i64) /\
  (forall m, In m [M_u8; M_u16; M_u32] -> normal d m = normal d M_u64) /\
  normal d M_f32 = normal d M_f64.
Proof.
  intros d Hd.
  pose proof (forallb_in _ (fun d => forallb (fun m => nf_eqb (normal d m) (normal d M_i64)) [M_i8; M_i16; M_i32] &&
                    forallb (fun m => nf_eqb (normal d m) (normal d M_u64)) [M_u8; M_u16; M_u32] &&
                    nf_eqb (normal d M_f32) (normal d M_f64)) _ text_widths_ok d Hd) as H.
  apply andb_split in H. destruct H as [H12 H3]. apply andb_split in H12. destruct H12 as [H1 H2].
  split; [|split].
  - intros m Hm. apply nf_eqb_eq. exact (forallb_in _ (fun m => nf_eqb (normal d m) (normal d M_i64)) _ H1 m Hm).
  - intros m Hm. apply nf_eqb_eq. exact (forallb_in _ (fun m => nf_eqb (normal d m) (normal d M_u64)) _ H2 m Hm).
  - apply nf_eqb_eq. exact H3.
Qed.

(* the two constant deserializers of the text tape path ("remainder" / "operator" / "value" keys, the operator of a
   Property): everything is forwarded to deserialize_any, which hands out the string *)
Lemma text_constant_ok :
  forallb (fun c => nf_eqb (normal (fst c) (snd c)) (NfDispatch [V_str] false)) (pairs [14; 15] all_methods) = true.
Proof. vm_compute. reflexivity. Qed.

Lemma text_constant_deserializers : forall d m, In d [D_text_static; D_text_operator] -> In m all_methods ->
  normal d m = NfDispatch [V_str] false.
Proof.
  intros d m Hd Hm. apply nf_eqb_eq.
  exact (forallb_in _ (fun c => nf_eqb (normal (fst c) (snd c)) (NfDispatch [V_str] false)) _ text_constant_ok (d, m)
           (pairs_in _ _ _ _ _ _ Hd Hm)).
Qed.

(* ---------------------------------------------------------------- 6. text vs binary (C10) *)
Notation same_visits c :=
  (forallb (fun db => forallb (fun dt => forallb (fun s =>
      obs_eqb (predict db (fst (fst c)) (snd (fst c)) s) (predict dt (fst (fst c)) (snd c) s)) strategies)
    text_value_deserializers) bin_value_deserializers).

Lemma natural_cells_ok : forallb (fun c => same_visits c) natural_cells = true.
Proof. vm_compute. reflexivity. Qed.

Lemma natural_cells_same_visits : forall m tb tx db dt s,
  In (m, tb, tx) natural_cells -> In db bin_value_deserializers -> In dt text_value_deserializers -> In s strategies ->
  predict db m tb s = predict dt m tx s.
Proof.
  intros m tb tx db dt s Hc Hdb Hdt Hs.
  pose proof (forallb_in _ (fun c => same_visits c) _ natural_cells_ok (m, tb, tx) Hc) as H.
  pose proof (forallb_in _ (fun db => forallb (fun dt => forallb (fun s =>
      obs_eqb (predict db (fst (fst (m, tb, tx))) (snd (fst (m, tb, tx))) s) (predict dt (fst (fst (m, tb, tx))) (snd (m, tb, tx)) s)) strategies)
    text_value_deserializers) _ H db Hdb) as H1.
  pose proof (forallb_in _ (fun dt => forallb (fun s =>
      obs_eqb (predict db (fst (fst (m, tb, tx))) (snd (fst (m, tb, tx))) s) (predict dt (fst (fst (m, tb, tx))) (snd (m, tb, tx)) s)) strategies)
    _ H1 dt Hdt) as H2.
  pose proof (forallb_in _ (fun s =>
      obs_eqb (predict db (fst (fst (m, tb, tx))) (snd (fst (m, tb, tx))) s) (predict dt (fst (fst (m, tb, tx))) (snd (m, tb, tx)) s))
    _ H2 s Hs) as H3.
  apply obs_eqb_eq. exact H3.
Qed.

(* the text/binary face of finding Q: a unit target is answered with visit_unit by both text deserializers and by the two
   binary lexer paths, but not by the binary tape *)
Lemma unit_text_vs_bin_tape_ok :
  forallb (fun m => forallb (fun s =>
     obs_eqb (predict D_text_tape_value m T_tint s) ([H_unit], S_ok) &&
     obs_eqb (predict D_bin_ondemand_tok m T_i32 s) ([H_unit], S_ok) &&
     obs_eqb (predict D_bin_tape_value m T_i32 s) ([H_int], S_ok)) strategies) [M_unit; M_unit_struct] = true.
Proof. vm_compute. reflexivity. Qed.

Lemma unit_text_vs_bin_tape : forall m s, In m [M_unit; M_unit_struct] -> In s strategies ->
  predict D_text_tape_value m T_tint s = ([H_unit], S_ok) /\
  predict D_bin_ondemand_tok m T_i32 s = ([H_unit], S_ok) /\
  predict D_bin_tape_value m T_i32 s = ([H_int], S_ok).
Proof.
  intros m s Hm Hs.
  pose proof (forallb_in _ (fun m => forallb (fun s =>
     obs_eqb (predict D_text_tape_value m T_tint s) ([H_unit], S_ok) &&
     obs_eqb (predict D_bin_ondemand_tok m T_i32 s) ([H_unit], S_ok) &&
     obs_eqb (predict D_bin_tape_value m T_i32 s) ([H_int], S_ok)) strategies) _ unit_text_vs_bin_tape_ok m Hm) as H.
  pose proof (forallb_in _ (fun s =>
     obs_eqb (predict D_text_tape_value m T_tint s) ([H_unit], S_ok) &&
     obs_eqb (predict D_bin_ondemand_tok m T_i32 s) ([H_unit], S_ok) &&
     obs_eqb (predict D_bin_tape_value m T_i32 s) ([H_int], S_ok)) _ H s Hs) as H1.
  apply andb_split in H1. destruct H1 as [H12 H3]. apply andb_split in H12. destruct H12 as [H1 H2].
  repeat split; apply obs_eqb_eq; assumption.
Qed.
