(* The tape deserializer (BinDeTape.v) over the EXPECTED tape of a document (BinDoc.flat_doc)
   simulates the specification walk.  (That the tape parser produces flat_doc from enc_doc is the
   separate statement of BinDeParseProofs.v.) *)
From JV Require Import Bytes Tables BinPrim BinTape SerdeShape BinDeCommon BinDeTape BinDoc.
From JV.proofs Require Import BinDeSim BinDocProofs.
Open Scope nat_scope.

(* ---------- flat_val through the list functions ---------- *)
Lemma flat_arr_inner : forall l b,
  (fix go (b : nat) (l : list bval) {struct l} : tape :=
     match l with [] => [] | x :: r => let t := flat_val b x in t ++ go (b + length t) r end) b l = flat_vals b l.
Proof. induction l as [|x r IH]; intros b; [reflexivity|]. cbn [flat_vals]. rewrite <- IH. reflexivity. Qed.

Lemma flat_obj_inner : forall l b,
  (fix go (b : nat) (l : list bfield) {struct l} : tape :=
     match l with [] => [] | f :: r => let t := flat_val (S b) (bf_val f) in ttok (bf_key f) :: t ++ go (S b + length t) r end) b l
  = flat_fields b l.
Proof. induction l as [|x r IH]; intros b; [reflexivity|]. cbn [flat_fields]. rewrite <- IH. reflexivity. Qed.

Lemma flat_val_arr b vs :
  flat_val b (VArr vs) = TArray (S b + length (flat_vals (S b) vs)) :: flat_vals (S b) vs ++ [TEnd b].
Proof. cbn [flat_val]. rewrite flat_arr_inner. reflexivity. Qed.

Lemma flat_val_obj b fs g :
  flat_val b (VObj fs g) = TObject (S b + length (flat_fields (S b) fs)) :: flat_fields (S b) fs ++ [TEnd b].
Proof. cbn [flat_val]. rewrite flat_obj_inner. reflexivity. Qed.

Lemma flat_val_nonempty b v : 1 <= length (flat_val b v).
Proof. destruct v; [cbn; lia|cbn; lia|rewrite flat_val_arr; cbn; lia|rewrite flat_val_obj; cbn; lia]. Qed.

Lemma nth_skipn {A} (l : list A) : forall i k, nth_error (skipn i l) k = nth_error l (i + k).
Proof. induction l as [|x l IH]; intros [|i] k; cbn; try reflexivity; [destruct k; reflexivity|apply IH]. Qed.

Lemma skipn_add {A} (l : list A) : forall i j, skipn (i + j) l = skipn j (skipn i l).
Proof. induction l as [|x l IH]; intros [|i] j; cbn; try reflexivity; [destruct j; reflexivity|apply IH]. Qed.

Section TpSim.
  Variable cfg : bcfg.
  Variable tokens : tape.

  (* the tokens from index i on start with l *)
  Definition seg (i : nat) (l : tape) : Prop := exists post, skipn i tokens = l ++ post.

  Lemma seg_nth i x l : seg i (x :: l) -> nth_error tokens i = Some x.
  Proof.
    intros [post H]. rewrite <- (Nat.add_0_r i), <- nth_skipn, H. reflexivity.
  Qed.
  Lemma seg_app_l i a b : seg i (a ++ b) -> seg i a.
  Proof. intros [post H]. exists (b ++ post). rewrite H, app_assoc. reflexivity. Qed.
  Lemma seg_app_r i a b : seg i (a ++ b) -> seg (i + length a) b.
  Proof.
    intros [post H]. exists post. rewrite skipn_add, H, <- app_assoc.
    rewrite skipn_app, skipn_all, Nat.sub_diag. reflexivity.
  Qed.
  Lemma seg_cons i x l : seg i (x :: l) -> seg (S i) l.
  Proof. intros H. replace (S i) with (i + length [x]) by (cbn; lia). apply (seg_app_r i [x] l H). Qed.

  Definition R_tp (_ : unit) (cur : tcur) (c : dcur) : Prop :=
    match c with
    | CSeq vs => seg (t_idx cur) (flat_vals (t_idx cur) vs) /\ t_end cur = t_idx cur + length (flat_vals (t_idx cur) vs)
    | CMap fs _ p =>
      seg (t_idx cur) (flat_fields (t_idx cur) fs) /\ t_end cur = t_idx cur + length (flat_fields (t_idx cur) fs) /\
      match p with Some v => seg (t_vind cur) (flat_val (t_vind cur) v) | None => True end
    | CDone => True
    end.
  Definition RT_tp (u : unit) (i : nat) (cur : tcur) (v : bval) (c : dcur) : Prop :=
    seg i (flat_val i v) /\ R_tp u cur c.

  Notation AR := (act_rel (ops_tape cfg tokens) (ops_doc cfg) R_tp cur_done (fun _ _ => True) (fun (_ : hint) (a b : prim) => a = b)).
  Notation TR := (tok_rel R_tp RT_tp cur_done).

  Lemma visit_key_scalar i s l : seg i (ttok s :: l) -> tp_visit_key cfg tokens i = scalar_prim cfg s.
  Proof. intros H. unfold tp_visit_key. rewrite (seg_nth _ _ _ H). destruct s; reflexivity. Qed.

  Lemma tp_dispatch_scalar iskey h s i cur l : seg i (ttok s :: l) ->
    h <> HIgnored \/ iskey = true -> (forall id, h = HU16 -> s = SId id -> iskey = false) ->
    tp_dispatch cfg tokens iskey h i cur = do p <- scalar_prim cfg s; Ok (APrim p, cur).
  Proof.
    intros H NI NU. pose proof (seg_nth _ _ _ H) as E. pose proof (visit_key_scalar _ _ _ H) as K.
    unfold tp_dispatch, tp_any, tp_key_prim. rewrite K.
    destruct iskey.
    - destruct h; try reflexivity. rewrite E. destruct s; try reflexivity.
      specialize (NU id eq_refl eq_refl). discriminate.
    - destruct NI as [NI|NI]; [|discriminate]. destruct h; try congruence; rewrite E; destruct s; reflexivity.
  Qed.

  Lemma tp_skip_val i v : seg i (flat_val i v) -> tp_skip tokens i = Ok (i + length (flat_val i v) - 1).
  Proof.
    intros H. unfold tp_skip. destruct v as [s|c|vs|fs g].
    - cbn [flat_val] in *. rewrite (seg_nth _ _ _ H). cbn [length]. replace (i + 1 - 1) with i by lia. destruct s; reflexivity.
    - cbn [flat_val] in *. rewrite (seg_nth _ _ _ H). cbn [length]. replace (i + 1 - 1) with i by lia. reflexivity.
    - rewrite flat_val_arr in *. rewrite (seg_nth _ _ _ H). cbn [length]. rewrite app_length. cbn [length]. f_equal. lia.
    - rewrite flat_val_obj in *. rewrite (seg_nth _ _ _ H). cbn [length]. rewrite app_length. cbn [length]. f_equal. lia.
  Qed.

  Lemma hint_ign_dec (h : hint) : {h = HIgnored} + {h <> HIgnored}.
  Proof. destruct h; (left; reflexivity) || (right; discriminate). Qed.
  Lemma hint_map_dec (h : hint) : {h = HMap} + {h <> HMap}.
  Proof. destruct h; (left; reflexivity) || (right; discriminate). Qed.
  Lemma hint_u16_dec (h : hint) : {h = HU16} + {h <> HU16}.
  Proof. destruct h; (left; reflexivity) || (right; discriminate). Qed.

  Lemma doc_dispatch_scalar iskey h sc c : h <> HIgnored -> (forall id, h = HU16 -> sc <> SId id) ->
    doc_dispatch cfg iskey h (VScalar sc) c = do p <- scalar_prim cfg sc; Ok (APrim p, c).
  Proof.
    intros NI NU. destruct h; try congruence; destruct sc; try reflexivity.
    exfalso. eapply NU; reflexivity.
  Qed.

  Lemma tp_H_disp u iskey h i cur v c : RT_tp u i cur v c ->
    sim (AR u h) (tp_dispatch cfg tokens iskey h i cur) (doc_dispatch cfg iskey h v c).
  Proof.
    intros (Hs & HR). destruct v as [sc|c0|vs|fs g].
    - cbn [flat_val] in Hs.
      destruct (hint_ign_dec h) as [->|NI].
      { destruct iskey; [left; destruct sc; reflexivity|].
        replace (doc_dispatch cfg false HIgnored (VScalar sc) c) with (Ok (APrim (S:=dcur) (C:=rgb) PUnit, c)) by (destruct sc; reflexivity).
        apply sim_ok. split; [reflexivity|exact HR]. }
      destruct (hint_u16_dec h) as [->|NU].
      { destruct sc; try (rewrite (tp_dispatch_scalar iskey HU16 _ _ _ _ Hs), doc_dispatch_scalar
                            by (try discriminate; try (left; discriminate); intros; discriminate);
                          destruct (scalar_prim cfg _); cbn [obind]; try (right; reflexivity); try (right; exact I);
                          apply sim_ok; split; [reflexivity|exact HR]).
        destruct iskey; [|left; reflexivity].
        unfold tp_dispatch. cbn [ttok] in Hs. rewrite (seg_nth _ _ _ Hs). cbn [doc_dispatch].
        apply sim_ok. split; [reflexivity|exact HR]. }
      rewrite (tp_dispatch_scalar iskey h _ _ _ _ Hs), doc_dispatch_scalar by (try assumption; try (left; assumption); intros; congruence).
      destruct (scalar_prim cfg sc); cbn [obind]; try (right; reflexivity); try (right; exact I).
      apply sim_ok. split; [reflexivity|exact HR].
    - cbn [flat_val] in Hs. pose proof (seg_nth _ _ _ Hs) as E.
      destruct iskey; [left; reflexivity|].
      destruct (hint_ign_dec h) as [->|NI]; [apply sim_ok; split; [reflexivity|exact HR]|].
      destruct (hint_map_dec h) as [->|NM]; [left; reflexivity|].
      replace (tp_dispatch cfg tokens false h i cur) with (Ok (AColor (S:=tcur) c0, cur))
        by (unfold tp_dispatch, tp_any; destruct h; try congruence; rewrite E; reflexivity).
      replace (doc_dispatch cfg false h (VRgb c0) c) with (Ok (AColor (S:=dcur) c0, c)) by (destruct h; try reflexivity; congruence).
      apply sim_ok. split; [reflexivity|exact HR].
    - rewrite flat_val_arr in Hs. pose proof (seg_nth _ _ _ Hs) as E.
      destruct iskey; [left; reflexivity|].
      destruct (hint_ign_dec h) as [->|NI]; [apply sim_ok; split; [reflexivity|exact HR]|].
      assert (HI : R_tp tt (mkcur (S i) (S i + length (flat_vals (S i) vs)) 0) (CSeq vs)).
      { cbn [R_tp t_idx t_end]. split; [|reflexivity]. apply seg_cons in Hs. eapply seg_app_l, Hs. }
      destruct (hint_map_dec h) as [->|NM].
      + destruct vs as [|v0 vs]; [|left; reflexivity].
        unfold tp_dispatch. rewrite E. cbn [doc_dispatch]. apply sim_ok.
        exists tt. split; [exact I|]. split.
        * cbn [R_tp t_idx t_end flat_fields flat_vals length]. split; [exists (skipn (S i) tokens); reflexivity|]. split; [lia|exact I].
        * intros sub1' sub2' _ _. cbn [snd p_map_exit ops_tape ops_doc]. apply sim_ok. exact HR.
      + replace (tp_dispatch cfg tokens false h i cur) with (Ok (ASeq (C:=rgb) (mkcur (S i) (S i + length (flat_vals (S i) vs)) 0), cur))
          by (unfold tp_dispatch, tp_any; destruct h; try congruence; rewrite E; reflexivity).
        replace (doc_dispatch cfg false h (VArr vs) c) with (Ok (ASeq (C:=rgb) (CSeq vs), c)) by (destruct h; try reflexivity; congruence).
        apply sim_ok. exists tt. split; [exact HI|].
        intros sub1' sub2' dr _ _ _. cbn [snd p_seq_exit ops_tape ops_doc].
        destruct (doc_seq_exit h c sub2' dr) eqn:Ed; try (unfold doc_seq_exit in Ed; destruct h, dr, sub2' as [[|? ?]|? ? ?|]; discriminate).
        * assert (a = c) by (unfold doc_seq_exit in Ed; destruct h, dr, sub2' as [[|? ?]|? ? ?|]; congruence). subst.
          apply sim_ok. exact HR.
        * assert (e = EC_UNFIT) by (unfold doc_seq_exit in Ed; destruct h, dr, sub2' as [[|? ?]|? ? ?|]; congruence). subst.
          left. reflexivity.
    - rewrite flat_val_obj in Hs. pose proof (seg_nth _ _ _ Hs) as E.
      destruct iskey; [left; reflexivity|].
      destruct (hint_ign_dec h) as [->|NI]; [apply sim_ok; split; [reflexivity|exact HR]|].
      destruct (hint_map_dec h) as [->|NM]; [|left; destruct h; try reflexivity; congruence].
      unfold tp_dispatch. rewrite E. cbn [doc_dispatch]. apply sim_ok.
      exists tt. split; [exact I|]. split.
      * cbn [R_tp t_idx t_end]. split; [apply seg_cons in Hs; eapply seg_app_l, Hs|]. split; [reflexivity|exact I].
      * intros sub1' sub2' _ _. cbn [snd p_map_exit ops_tape ops_doc]. apply sim_ok. exact HR.
  Qed.

  Lemma tp_H_elem u cur c : R_tp u cur c -> sim (TR u) (tp_next_elem tokens cur) (doc_next_elem c).
  Proof.
    intros HR. destruct c as [[|v vs]|? ? ?|]; try (left; reflexivity).
    - cbn [R_tp flat_vals length] in HR. destruct HR as [_ He]. cbn [doc_next_elem]. unfold tp_next_elem.
      replace (t_end cur <=? t_idx cur) with true by (symmetry; apply Nat.leb_le; lia).
      apply sim_ok. split; [exact I|reflexivity].
    - cbn [R_tp flat_vals] in HR. destruct HR as [Hs He]. rewrite app_length in He.
      pose proof (flat_val_nonempty (t_idx cur) v) as L.
      cbn [doc_next_elem]. unfold tp_next_elem.
      replace (t_end cur <=? t_idx cur) with false by (symmetry; apply Nat.leb_gt; lia).
      rewrite (tp_skip_val _ v (seg_app_l _ _ _ Hs)). cbn [obind].
      apply sim_ok. unfold tok_rel. cbn [fst snd]. split; [eapply seg_app_l, Hs|].
      cbn [R_tp t_idx t_end].
      replace (S (t_idx cur + length (flat_val (t_idx cur) v) - 1)) with (t_idx cur + length (flat_val (t_idx cur) v)) by lia.
      split; [apply seg_app_r, Hs|lia].
  Qed.

  Lemma tp_H_key u root cur c : R_tp u cur c -> sim (TR u) (tp_next_key tokens root cur) (doc_next_key root c).
  Proof.
    intros HR. destruct c as [?|[|f fs] g [v|]|]; try (left; reflexivity).
    - cbn [R_tp flat_fields length] in HR. destruct HR as (_ & He & _). cbn [doc_next_key]. unfold tp_next_key.
      replace (t_idx cur <? t_end cur) with false by (symmetry; apply Nat.ltb_ge; lia).
      apply sim_ok. split; [exact I|reflexivity].
    - cbn [R_tp flat_fields] in HR. destruct HR as (Hs & He & _). cbn [length] in He. rewrite app_length in He.
      cbn [doc_next_key]. unfold tp_next_key.
      replace (t_idx cur <? t_end cur) with true by (symmetry; apply Nat.ltb_lt; lia).
      pose proof (seg_cons _ _ _ Hs) as Hv.
      pose proof (flat_val_nonempty (S (t_idx cur)) (bf_val f)) as L.
      rewrite (tp_skip_val _ (bf_val f) (seg_app_l _ _ _ Hv)). cbn [obind].
      apply sim_ok. unfold tok_rel. cbn [fst snd]. split.
      + cbn [flat_val]. eapply (seg_app_l _ [ttok (bf_key f)]). exact Hs.
      + cbn [R_tp t_idx t_end t_vind].
        replace (S (S (t_idx cur) + length (flat_val (S (t_idx cur)) (bf_val f)) - 1))
          with (S (t_idx cur) + length (flat_val (S (t_idx cur)) (bf_val f))) by lia.
        split; [apply seg_app_r, Hv|]. split; [lia|eapply seg_app_l, Hv].
  Qed.

  Lemma tp_H_val u cur c : R_tp u cur c ->
    sim (fun p1 p2 => RT_tp u (fst p1) (snd p1) (fst p2) (snd p2)) (tp_next_value cur) (doc_next_value c).
  Proof.
    intros HR. destruct c as [?|fs g [v|]|]; try (left; reflexivity).
    cbn [R_tp] in HR. destruct HR as (Hs & He & Hv). cbn [doc_next_value]. unfold tp_next_value.
    apply sim_ok. cbn [fst snd]. split; [exact Hv|]. cbn [R_tp]. split; [exact Hs|]. split; [exact He|exact I].
  Qed.

  Theorem tp_ops_sim : ops_sim (c_fops cfg) (ops_tape cfg tokens) (ops_doc cfg) R_tp RT_tp cur_done (fun _ _ => True) (fun (_ : hint) (a b : prim) => a = b).
  Proof.
    constructor.
    - intros. apply tp_H_disp. assumption.
    - intros. apply tp_H_elem. assumption.
    - intros. apply tp_H_key; assumption.
    - intros. apply tp_H_val. assumption.
    - reflexivity.
    - intros; subst; reflexivity.
    - intros; subst; reflexivity.
    - intros; subst; reflexivity.
  Qed.
End TpSim.

(* the tape path, started on the expected tape of a document, computes the specified value *)
Theorem tape_tokens_eq_spec_fuel cfg fuel sh fs g :
  sim eq (deser_tokens cfg (flat_doc fs) fuel sh) (spec_value cfg fuel sh fs g).
Proof.
  unfold deser_tokens, spec_value.
  apply (walk_root_sim (c_fops cfg) (ops_tape cfg (flat_doc fs)) (ops_doc cfg) (R_tp (flat_doc fs)) (RT_tp (flat_doc fs))
           cur_done (fun _ _ => True) (fun (_ : hint) (a b : prim) => a = b) (tp_ops_sim cfg (flat_doc fs)) fuel tt).
  - exact I.
  - cbn [R_tp t_idx t_end]. split; [exists []; rewrite app_nil_r; reflexivity|]. split; [reflexivity|exact I].
Qed.
